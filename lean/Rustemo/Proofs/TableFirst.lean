import Rustemo.Proofs.TableInv
import Rustemo.Proofs.CompleteCert
/-!
# Table construction: rustemo's FIRST sets (`first_sets`, `firsts`)

* `FsWf`: shape of the sets at every moment (terminals map to themselves, members are terminals or EMPTY);
* `firstLoop_exit`: the sets returned are a post-fixpoint of the production equations (the exit condition
  of the `while additions` loop);
* `ctxOf`: the same sets as a `Canon.Ctx` (nullable = EMPTY is a member); `firstOk_ctxOf`: it passes the
  verified post-fixpoint check `Cert.firstOk`, hence contains the semantic FIRST / nullable
  (`Proofs/First.lean`).
-/
namespace Rustemo.Table

variable {g : Grammar}

structure FsWf (g : Grammar) (fs : Array (List Nat)) : Prop where
  size : fs.size = g.nterms + g.nnonterms
  term : ∀ X, X < g.nterms → fs[X]? = some [X]
  elems : ∀ (X : Nat) (l : List Nat), fs[X]? = some l → ∀ b ∈ l, b < g.nterms ∨ b = g.emptyIdx

theorem firstsOf_some {fs : Array (List Nat)} : ∀ {syms : List Nat}, (∀ X ∈ syms, X < fs.size) →
    ∃ r, firstsOf g fs syms = some r
  | [], _ => ⟨_, rfl⟩
  | X :: rest, h => by
    unfold firstsOf
    have hX := h X List.mem_cons_self
    rw [Array.getElem?_eq_getElem hX]
    simp only
    obtain ⟨r, hr⟩ := firstsOf_some (syms := rest) (fun Y hY => h Y (List.mem_cons_of_mem _ hY))
    rw [hr]
    split
    · exact ⟨_, rfl⟩
    · exact ⟨_, rfl⟩

/-- members of `firsts(..)`: EMPTY, or a non-EMPTY member of the set of one of the symbols -/
theorem firstsOf_mem {fs : Array (List Nat)} : ∀ {syms : List Nat} {r : List Nat}, firstsOf g fs syms = some r →
    ∀ b ∈ r, b = g.emptyIdx ∨ (b ≠ g.emptyIdx ∧ ∃ X ∈ syms, ∃ l, fs[X]? = some l ∧ b ∈ l)
  | [], r, h => by
    simp only [firstsOf, Option.some.injEq] at h
    subst h
    intro b hb
    simp only [List.mem_singleton] at hb
    exact .inl hb
  | X :: rest, r, h => by
    unfold firstsOf at h
    split at h
    · simp at h
    · rename_i fx hfx
      have hfilter : ∀ b ∈ fx.filter (· != g.emptyIdx), b ≠ g.emptyIdx ∧ ∃ Y ∈ X :: rest, ∃ l, fs[Y]? = some l ∧ b ∈ l := by
        intro b hb
        obtain ⟨h1, h2⟩ := List.mem_filter.mp hb
        exact ⟨by simpa using h2, X, List.mem_cons_self, fx, hfx, h1⟩
      split at h
      · split at h
        · rename_i r' hr'
          simp only [Option.some.injEq] at h
          subst h
          intro b hb
          rcases mem_union.mp hb with h' | h'
          · exact .inr (hfilter b h')
          · rcases firstsOf_mem hr' b h' with h'' | ⟨h1, Y, hY, l, h2, h3⟩
            · exact .inl h''
            · exact .inr ⟨h1, Y, List.mem_cons_of_mem _ hY, l, h2, h3⟩
        · simp at h
      · simp only [Option.some.injEq] at h
        subst h
        intro b hb
        exact .inr (hfilter b hb)

/-- EMPTY is in `firsts(..)` only if it is in the set of every symbol -/
theorem firstsOf_empty {fs : Array (List Nat)} : ∀ {syms : List Nat} {r : List Nat}, firstsOf g fs syms = some r →
    g.emptyIdx ∈ r → ∀ X ∈ syms, ∃ l, fs[X]? = some l ∧ g.emptyIdx ∈ l
  | [], _, _, _ => by simp
  | X :: rest, r, h, he => by
    unfold firstsOf at h
    split at h
    · simp at h
    · rename_i fx hfx
      split at h
      · rename_i hc
        split at h
        · rename_i r' hr'
          simp only [Option.some.injEq] at h
          subst h
          have : g.emptyIdx ∈ r' := by
            rcases mem_union.mp he with h' | h'
            · have := (List.mem_filter.mp h').2
              simp at this
            · exact h'
          intro Y hY
          rcases List.mem_cons.mp hY with h' | h'
          · subst h'; exact ⟨fx, hfx, by simpa using hc⟩
          · exact firstsOf_empty hr' this Y h'
        · simp at h
      · simp only [Option.some.injEq] at h
        subst h
        have := (List.mem_filter.mp he).2
        simp at this

theorem setIfInBounds_same {α} {a : Array α} {i : Nat} {x : α} (h : a[i]? = some x) : a.setIfInBounds i x = a := by
  apply Array.ext_getElem?
  intro j
  rw [Array.getElem?_setIfInBounds]
  by_cases hij : i = j
  · subst hij
    rw [if_pos rfl, if_pos (lt_size_of_getElem? h), h]
  · rw [if_neg hij]

/-! ## `firstProds`, `firstLoop` -/

theorem firstInit_wf (hg : GW g) : ∃ fs, firstInit g = some fs ∧ FsWf g fs := by
  unfold firstInit
  have hsz : (((List.range g.nterms).map (fun i => [i]) ++ List.replicate g.nnonterms ([] : List Nat)).toArray).size
      = g.nterms + g.nnonterms := by simp
  have hE := hg.empty_lt
  have hget : ∀ X, X < g.nterms + g.nnonterms →
      (((List.range g.nterms).map (fun i => [i]) ++ List.replicate g.nnonterms ([] : List Nat)).toArray)[X]? =
        some (if X < g.nterms then [X] else []) := by
    intro X hX
    simp only [List.getElem?_toArray]
    by_cases hx : X < g.nterms
    · rw [if_pos hx, List.getElem?_append_left (by simpa using hx)]
      simp [hx]
    · rw [if_neg hx, List.getElem?_append_right (by simpa using hx)]
      simp only [List.length_map, List.length_range]
      rw [List.getElem?_replicate]
      simp; omega
  dsimp only
  rw [hget g.emptyIdx hE, if_neg (by have := hg.empty_ge; omega)]
  refine ⟨_, rfl, ?_, ?_, ?_⟩
  · simp
  · intro X hX
    rw [Array.getElem?_setIfInBounds, if_neg (by have := hg.empty_ge; omega), hget X (by omega), if_pos hX]
  · intro X l hl b hb
    rw [Array.getElem?_setIfInBounds] at hl
    by_cases hx : g.emptyIdx = X
    · rw [if_pos hx] at hl
      split at hl
      · simp only [Option.some.injEq] at hl
        subst hl
        simp only [ins, List.mem_singleton] at hb
        exact .inr hb
      · simp at hl
    · rw [if_neg hx] at hl
      have hX : X < g.nterms + g.nnonterms := by
        have := lt_size_of_getElem? hl
        rw [hsz] at this; exact this
      rw [hget X hX] at hl
      simp only [Option.some.injEq] at hl
      subst hl
      split at hb
      · simp only [List.mem_singleton] at hb
        subst hb; left; assumption
      · simp at hb

theorem firstProds_wf (hg : GW g) : ∀ (l : List Prod) (fs fs' : Array (List Nat)) (ch ch' : Bool),
    (∀ pr ∈ l, g.nterms ≤ pr.lhs) → FsWf g fs → firstProds g l fs ch = .ok (fs', ch') → FsWf g fs'
  | [], fs, fs', ch, ch', _, hw, h => by
    simp only [firstProds, Res.ok.injEq, _root_.Prod.mk.injEq] at h
    rw [← h.1]; exact hw
  | pr :: rest, fs, fs', ch, ch', hl, hw, h => by
    unfold firstProds at h
    split at h
    · simp at h
    · rename_i r hr
      split at h
      · simp at h
      · rename_i old hold
        apply firstProds_wf hg rest _ fs' _ ch' (fun p hp => hl p (List.mem_cons_of_mem _ hp)) _ h
        have hlhs := hl pr List.mem_cons_self
        refine ⟨by rw [Array.size_setIfInBounds]; exact hw.size, ?_, ?_⟩
        · intro X hX
          rw [Array.getElem?_setIfInBounds, if_neg (by omega)]
          exact hw.term X hX
        · intro X l' hl' b hb
          rw [Array.getElem?_setIfInBounds] at hl'
          by_cases hx : pr.lhs = X
          · rw [if_pos hx] at hl'
            split at hl'
            · simp only [Option.some.injEq] at hl'
              subst hl'
              rcases mem_union.mp hb with h' | h'
              · exact hw.elems pr.lhs old hold b h'
              · rcases firstsOf_mem hr b h' with h'' | ⟨_, Y, _, l2, h2, h3⟩
                · exact .inr h''
                · exact hw.elems Y l2 h2 b h3
            · simp at hl'
          · rw [if_neg hx] at hl'
            exact hw.elems X l' hl' b hb

/-- a pass that reports no addition changed nothing, and every production's equation holds -/
theorem firstProds_unchanged : ∀ (l : List Prod) (fs fs' : Array (List Nat)) (ch : Bool),
    firstProds g l fs ch = .ok (fs', false) →
      ch = false ∧ fs' = fs ∧
      ∀ pr ∈ l, ∃ r old, firstsOf g fs pr.rhs = some r ∧ fs[pr.lhs]? = some old ∧ Sub r old
  | [], fs, fs', ch, h => by
    simp only [firstProds, Res.ok.injEq, _root_.Prod.mk.injEq] at h
    exact ⟨h.2, h.1.symm, by simp⟩
  | pr :: rest, fs, fs', ch, h => by
    unfold firstProds at h
    split at h
    · simp at h
    · rename_i r hr
      split at h
      · simp at h
      · rename_i old hold
        obtain ⟨h1, h2, h3⟩ := firstProds_unchanged rest _ fs' _ h
        simp only [Bool.or_eq_false_iff] at h1
        have hu := union_eq_self_of_not_lt h1.2
        rw [hu, setIfInBounds_same hold] at h2 h3
        refine ⟨h1.1, h2, ?_⟩
        intro p hp
        rcases List.mem_cons.mp hp with h' | h'
        · subst h'
          exact ⟨r, old, hr, hold, fun b hb => by rw [← hu]; exact mem_union.mpr (.inr hb)⟩
        · exact h3 p h'

theorem firstLoop_spec (hg : GW g) : ∀ (n : Nat) (fs0 fs : Array (List Nat)), FsWf g fs0 →
    firstLoop g n fs0 = .ok fs →
      FsWf g fs ∧ ∀ pr ∈ g.prods.toList, ∃ r old, firstsOf g fs pr.rhs = some r ∧ fs[pr.lhs]? = some old ∧ Sub r old := by
  intro n
  have hlhs : ∀ pr ∈ g.prods.toList, g.nterms ≤ pr.lhs := by
    intro pr hpr
    obtain ⟨i, hi, hget⟩ := List.getElem_of_mem hpr
    have : g.prods[i]? = some pr := by
      simp only [Array.length_toList] at hi
      rw [Array.getElem?_eq_getElem hi]
      simp only [Array.getElem_toList] at hget
      rw [hget]
    exact (hg.prod_ok i pr this).1
  induction n with
  | zero => intro fs0 fs _ h; simp [firstLoop] at h
  | succ n ih =>
    intro fs0 fs hw h
    unfold firstLoop at h
    split at h
    · rename_i fs1 hp
      exact ih fs1 fs (firstProds_wf hg _ _ _ _ _ hlhs hw hp) h
    · rename_i fs1 hp
      simp only [Res.ok.injEq] at h
      subst h
      obtain ⟨_, h2, h3⟩ := firstProds_unchanged _ _ _ _ hp
      subst h2
      exact ⟨hw, h3⟩
    · simp at h
    · simp at h
    · simp at h

theorem firstSets_spec (hg : GW g) {fuel : Nat} {fs : Array (List Nat)} (h : firstSets g fuel = .ok fs) :
    FsWf g fs ∧ ∀ pr ∈ g.prods.toList, ∃ r old, firstsOf g fs pr.rhs = some r ∧ fs[pr.lhs]? = some old ∧ Sub r old := by
  unfold firstSets at h
  obtain ⟨fs0, h0, hw⟩ := firstInit_wf hg
  rw [h0] at h
  exact firstLoop_spec hg fuel fs0 fs hw h

end Rustemo.Table

namespace Rustemo.Table

variable {g : Grammar}

/-! ## The sets as a `Canon.Ctx`: they pass the verified post-fixpoint check -/

def ctxOf (g : Grammar) (fs : Array (List Nat)) : Canon.Ctx :=
  { g := g
    nul := (List.range (g.nterms + g.nnonterms)).filter fun X => (fs.getD X []).contains g.emptyIdx
    first := fun X => (fs.getD X []).filter (· != g.emptyIdx) }

theorem mem_nul {fs : Array (List Nat)} {X : Nat} :
    (ctxOf g fs).nul.contains X = true ↔ X < g.nterms + g.nnonterms ∧ g.emptyIdx ∈ fs.getD X [] := by
  simp [ctxOf, List.mem_filter]

theorem getD_of_get {fs : Array (List Nat)} {X : Nat} {l : List Nat} (h : fs[X]? = some l) : fs.getD X [] = l := by
  rw [Array.getD_eq_getD_getElem?, h]; rfl

/-- `Canon.firstOfSeq` over the context is inside `firsts(..)`; all symbols nullable puts EMPTY there -/
theorem firstOfSeq_sub (hg : GW g) {fs : Array (List Nat)} (hw : FsWf g fs) :
    ∀ {syms : List Nat} {r : List Nat}, firstsOf g fs syms = some r →
      (∀ b ∈ Canon.firstOfSeq g (ctxOf g fs).nul (ctxOf g fs).first syms, b ∈ r ∧ b ≠ g.emptyIdx) ∧
      (syms.all (fun X => (ctxOf g fs).nul.contains X) = true → g.emptyIdx ∈ r)
  | [], r, h => by
    simp only [firstsOf, Option.some.injEq] at h
    subst h
    exact ⟨by simp [Canon.firstOfSeq], by simp⟩
  | X :: rest, r, h => by
    unfold firstsOf at h
    split at h
    · simp at h
    · rename_i fx hfx
      have hgd := getD_of_get hfx
      -- the head's own contribution
      have hhead : ∀ b ∈ (if X < g.nterms then [X] else (ctxOf g fs).first X),
          b ∈ fx.filter (· != g.emptyIdx) := by
        intro b hb
        by_cases hX : X < g.nterms
        · rw [if_pos hX] at hb
          simp only [List.mem_singleton] at hb
          subst hb
          have := hw.term b hX
          rw [hfx] at this
          simp only [Option.some.injEq] at this
          subst this
          have hne : b ≠ g.emptyIdx := by have := hg.empty_ge; omega
          simp [hne]
        · rw [if_neg hX] at hb
          simp only [ctxOf] at hb
          rw [hgd] at hb
          exact hb
      split at h
      · rename_i hc
        split at h
        · rename_i r' hr'
          simp only [Option.some.injEq] at h
          subst h
          obtain ⟨i1, i2⟩ := firstOfSeq_sub hg hw hr'
          refine ⟨?_, ?_⟩
          · intro b hb
            unfold Canon.firstOfSeq at hb
            simp only at hb
            split at hb
            · rcases List.mem_append.mp hb with h' | h'
              · have := hhead b h'
                exact ⟨mem_union.mpr (.inl this), by simpa using (List.mem_filter.mp this).2⟩
              · exact ⟨mem_union.mpr (.inr (i1 b h').1), (i1 b h').2⟩
            · have := hhead b hb
              exact ⟨mem_union.mpr (.inl this), by simpa using (List.mem_filter.mp this).2⟩
          · intro hall
            simp only [List.all_cons, Bool.and_eq_true] at hall
            exact mem_union.mpr (.inr (i2 hall.2))
        · simp at h
      · rename_i hc
        simp only [Option.some.injEq] at h
        subst h
        have hnn : (ctxOf g fs).nul.contains X = false := by
          apply Bool.eq_false_iff.mpr
          intro hcn
          have := (mem_nul.mp hcn).2
          rw [hgd] at this
          exact hc (by simpa using this)
        refine ⟨?_, ?_⟩
        · intro b hb
          unfold Canon.firstOfSeq at hb
          simp only [hnn, Bool.false_eq_true, if_false] at hb
          have := hhead b hb
          exact ⟨this, by simpa using (List.mem_filter.mp this).2⟩
        · intro hall
          simp only [List.all_cons, Bool.and_eq_true] at hall
          rw [hnn] at hall
          simp at hall

theorem firstOk_ctxOf (hg : GW g) {fuel : Nat} {fs : Array (List Nat)} (h : firstSets g fuel = .ok fs) :
    Cert.firstOk g (ctxOf g fs) = true := by
  obtain ⟨hw, hfix⟩ := firstSets_spec hg h
  unfold Cert.firstOk
  rw [List.all_eq_true]
  intro pr hpr
  obtain ⟨r, old, h1, h2, h3⟩ := hfix pr hpr
  obtain ⟨i1, i2⟩ := firstOfSeq_sub hg hw h1
  have hgd := getD_of_get h2
  have hlt : pr.lhs < g.nterms + g.nnonterms := by
    have := lt_size_of_getElem? h2
    rw [hw.size] at this; exact this
  simp only [Bool.and_eq_true, Bool.or_eq_true, Bool.not_eq_true', List.all_eq_true]
  refine ⟨?_, ?_⟩
  · by_cases hall : pr.rhs.all (fun X => (ctxOf g fs).nul.contains X) = true
    · right
      exact mem_nul.mpr ⟨hlt, by rw [hgd]; exact h3 _ (i2 hall)⟩
    · left; simpa using hall
  · intro b hb
    obtain ⟨b1, b2⟩ := i1 b hb
    simp only [ctxOf, hgd, List.contains_iff_mem, List.mem_filter, bne_iff_ne, ne_eq]
    exact ⟨h3 b b1, b2⟩

/-- what closure hands down covers `FIRST(β a)` of the context for every lookahead `a` of the item -/
theorem newFollow_covers (hg : GW g) {fs : Array (List Nat)} (hw : FsWf g fs) {pr : Prod} {it : Item}
    {nf : List Nat} (h : newFollow g fs pr it = some nf) {a b : Nat} (ha : a ∈ it.la)
    (hb : b ∈ firstBetaList g (ctxOf g fs) (pr.rhs.drop (it.dot + 1)) a) : b ∈ nf := by
  unfold newFollow at h
  unfold firstBetaList at hb
  by_cases hlt : it.dot + 1 < pr.rhs.length
  · rw [if_pos hlt] at h
    split at h
    · simp at h
    · rename_i f hf
      obtain ⟨i1, i2⟩ := firstOfSeq_sub hg hw hf
      split at h
      · rename_i hc
        simp only [Option.some.injEq] at h
        subst h
        rcases List.mem_append.mp hb with h' | h'
        · obtain ⟨b1, b2⟩ := i1 b h'
          exact mem_union.mpr (.inl (List.mem_filter.mpr ⟨b1, by simpa using b2⟩))
        · split at h'
          · simp only [List.mem_singleton] at h'
            subst h'
            exact mem_union.mpr (.inr ha)
          · simp at h'
      · rename_i hc
        simp only [Option.some.injEq] at h
        subst h
        rcases List.mem_append.mp hb with h' | h'
        · exact (i1 b h').1
        · split at h'
          · rename_i hall
            exact absurd (by simpa using i2 hall) hc
          · simp at h'
  · rw [if_neg hlt] at h
    simp only [Option.some.injEq] at h
    subst h
    have hd : pr.rhs.drop (it.dot + 1) = [] := List.drop_eq_nil_iff.mpr (by omega)
    rw [hd] at hb
    simp only [Canon.firstOfSeq, List.all_nil, if_true, List.nil_append, List.mem_singleton] at hb
    subst hb; exact ha

end Rustemo.Table
