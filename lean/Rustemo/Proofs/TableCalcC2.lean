import Rustemo.Proofs.TableCalcC
/-!
# Table construction: `calc_states` establishes `InvC` (every state taken from the queue is closed and
has all its transitions)
-/
namespace Rustemo.Table

variable {g : Grammar} {fs : Array (List Nat)} {tt : String} {rn : Option (Array Nat)}

theorem itemDemands_nonterm {it : Item} {dsi : List (Nat × List Nat)} (h : itemDemands g fs it = .ok dsi)
    {pr : Prod} (hp : g.prods[it.prod]? = some pr) {B : Nat} (hB : pr.rhs[it.dot]? = some B)
    (hn : g.nterms ≤ B) :
    ∃ nf, newFollow g fs pr it = some nf ∧ dsi = (Canon.prodsOf g B).map fun q => (q, nf) := by
  unfold itemDemands at h
  rw [hp] at h
  simp only [hB] at h
  rw [if_neg (by omega)] at h
  split at h
  · simp at h
  · rename_i nf hnf
    split at h
    · simp only [Res.ok.injEq] at h
      exact ⟨nf, hnf, h.symm⟩
    · simp at h

/-- the cores of a closure's result are closed -/
theorem closure_closedC {n : Nat} {items items' : List Item} (h : closure g fs n items = .ok items') :
    ∀ c ∈ items'.map core, ∀ B, g.rhsAt c.1 c.2 = some B → g.nterms ≤ B →
      ∀ q ∈ Canon.prodsOf g B, (q, 0) ∈ items'.map core := by
  have hfix := closureRound_fix (closure_exit n items items' h)
  intro c hc B hB hn q hq
  obtain ⟨it, i1, i2⟩ := List.mem_map.mp hc
  obtain ⟨dsi, d1, d2⟩ := hfix it i1
  subst i2
  unfold Grammar.rhsAt at hB
  simp only [core] at hB
  split at hB
  · rename_i pr hp
    obtain ⟨nf, _, e2⟩ := itemDemands_nonterm d1 hp hB hn
    obtain ⟨it', j1, j2, _⟩ := d2 (q, nf) (by rw [e2]; exact List.mem_map.mpr ⟨q, hq, rfl⟩)
    exact List.mem_map.mpr ⟨it', j1, j2⟩
  · simp at hB

theorem untouched_stC {st : State} (hu : Untouched st) (haug : ∀ it ∈ st.items, it.prod = 0 → 0 ∈ it.la) : StC g st := by
  refine ⟨?_, ?_, haug⟩
  · intro a s' hs; rw [hu.1 a] at hs; simp at hs
  · intro a; rw [hu.1 a]; simp

theorem InvC.mono_hi {lo hi hi' : Nat} {sts : Array State} (h : InvC g lo hi sts) (hle : hi ≤ hi') :
    InvC g lo hi' sts :=
  ⟨h.st, h.closed, h.trans, fun i st hi hh => h.fresh i st hi (by omega)⟩

theorem InvC.stepState (hg : GW g) {autos : List (Nat × Nat)} {fuel cur : Nat} {sts sts' : Array State}
    (hI : Inv g autos sts) (hC : InvC g cur cur sts) (hc : cur < sts.size)
    (h : stepState g fs tt rn fuel cur sts = .ok sts') : InvC g (cur + 1) (cur + 1) sts' := by
  obtain ⟨st, items, st', h1, h2, h3, h4⟩ := stepState_ok hc h
  have hst := hI.st cur st h1
  have hrel := closure_rel h2 hst.items hst.nodup
  have hid := acceptInit_id hg h3
  subst hid
  have hu := hC.fresh cur st h1 (Nat.le_refl _)
  have hstc := hC.st cur st h1
  -- lookaheads of production 0 after the closure
  have haug : ∀ it ∈ items, it.prod = 0 → 0 ∈ it.la := by
    intro it hit hp
    rcases hrel.back it hit with ⟨it0, b1, b2, b3⟩ | ⟨_, b2⟩
    · simp only [core, _root_.Prod.mk.injEq] at b2
      exact b3 0 (hstc.aug0 it0 b1 (by rw [b2.1]; exact hp))
    · exfalso
      apply b2.not_aug hg
      obtain ⟨pr0, p1, p2, _⟩ := hg.aug0
      rw [hp]; exact ⟨pr0, p1, .inl p2⟩
  have hI1 : Inv g autos (sts.setIfInBounds cur { st with items := items, maxPrio := maxPrioOf g items }) := by
    apply hI.update h1
    · exact ⟨hst.asize, hst.gsize, hrel.ok, hrel.nodup, hst.cells⟩
    · rfl
    · rfl
    · exact hrel.mono
    · intro it' hit'
      rcases hrel.back it' hit' with ⟨it0, h', h'', _⟩ | ⟨h', h''⟩
      · exact .inl ⟨it0, h', h''⟩
      · exact .inr ⟨h', h''.not_aug hg⟩
  have hC1 : InvC g cur (cur + 1) (sts.setIfInBounds cur { st with items := items, maxPrio := maxPrioOf g items }) := by
    apply InvC.mono_hi _ (Nat.le_succ cur)
    apply hC.update (st' := { st with items := items, maxPrio := maxPrioOf g items }) h1 rfl rfl
    · intro c hcc
      obtain ⟨it, i1, i2⟩ := List.mem_map.mp hcc
      obtain ⟨it', j1, j2, _⟩ := hrel.mono it i1
      exact List.mem_map.mpr ⟨it', j1, j2.trans i2⟩
    · exact untouched_stC ⟨hu.1, hu.2⟩ haug
    · intro hlt; omega
  -- the loop over the successors
  have hres := linkStates_induct' (g := g) (tt := tt) (rn := rn) (cur := cur)
    (fun rest s => (Inv g autos s ∧ ∃ stc, s[cur]? = some stc ∧ stc.items.map core = items.map core) ∧
      LinkC g cur items rest s)
    (by
      intro s s2 e rest hJ _ hstep
      obtain ⟨_, pre, _, _, q3, _⟩ := hJ.2.ex
      have hmem : e ∈ newStates g items := by rw [← q3]; exact List.mem_append_right _ List.mem_cons_self
      have hn := newOk_of_mem hg hrel.nodup hmem
      exact ⟨Inv.linkStep hn hJ.1.1 hJ.1.2 hstep, hJ.2.step hn haug hstep⟩)
    (newStates g items) _ sts' (by rw [Array.size_setIfInBounds]; exact hc) h4
    ⟨⟨hI1, { st with items := items, maxPrio := maxPrioOf g items }, by rw [get_upd h1, if_pos rfl], rfl⟩, hC1,
      { st with items := items, maxPrio := maxPrioOf g items }, [], by rw [get_upd h1, if_pos rfl], rfl, rfl,
      by simp, fun a _ => hu.1 a, fun j _ => hu.2 j⟩
  obtain ⟨⟨_, hL⟩, _⟩ := hres
  obtain ⟨stc, pre, q1, q2, q3, q4, _, _⟩ := hL.ex
  simp only [List.append_nil] at q3
  subst q3
  have hLc := hL.invc
  refine ⟨hLc.st, ?_, ?_, fun i sti hi hh => hLc.fresh i sti hi hh⟩
  · intro i sti hi hlt
    by_cases hic : i = cur
    · subst hic
      rw [q1] at hi
      simp only [Option.some.injEq] at hi
      subst hi
      unfold ClosedC
      rw [q2]
      exact closure_closedC h2
    · exact hLc.closed i sti hi (by omega)
  · intro i sti hi hlt
    by_cases hic : i = cur
    · subst hic
      rw [q1] at hi
      simp only [Option.some.injEq] at hi
      subst hi
      intro c hcc X hX
      rw [q2] at hcc
      obtain ⟨it, i1, i2⟩ := List.mem_map.mp hcc
      subst i2
      have hnx : Resolve.nextSym g it = some X := hX
      obtain ⟨e0, e1, e2, e3⟩ := perNextSymbol_complete i1 hnx
      have hmem : (e0.1, e0.2.map advance) ∈ newStates g items := by
        unfold newStates
        exact List.mem_map.mpr ⟨e0, e1, rfl⟩
      obtain ⟨s', t1, st'', t2, t3⟩ := q4 _ hmem
      simp only at t1 t3
      rw [e2] at t1
      exact ⟨s', t1, st'', t2, t3 (advance it) (List.mem_map.mpr ⟨it, e3, rfl⟩)⟩
    · exact hLc.trans i sti hi (by omega)

theorem InvC.empty (g : Grammar) : InvC g 0 0 #[] :=
  ⟨by intro i st h; simp at h, by intro i st h; simp at h, by intro i st h; simp at h, by intro i st h; simp at h⟩

/-- all states are processed -/
theorem InvC.widen {lo hi : Nat} {sts : Array State} (h : InvC g lo hi sts) (hlo : sts.size ≤ lo) (n m : Nat)
    (hn : sts.size ≤ m) : InvC g n m sts :=
  ⟨h.st, fun i st hi _ => h.closed i st hi (by have := lt_size_of_getElem? hi; omega),
    fun i st hi _ => h.trans i st hi (by have := lt_size_of_getElem? hi; omega),
    fun i st hi hh => by have := lt_size_of_getElem? hi; omega⟩

theorem InvC.calcStates (hg : GW g) {autos : List (Nat × Nat)} {fuel sym : Nat} {sts sts' : Array State}
    (hI : Inv g autos sts) (hC : InvC g sts.size sts.size sts)
    (h : calcStates g fs tt rn fuel sym sts = .ok sts') : InvC g sts'.size sts'.size sts' := by
  obtain ⟨_, _, p, h1, h2⟩ := calcStates_ok h
  obtain ⟨pr, hp, _⟩ := prodsOf_mem (by rw [h1]; exact List.mem_cons_self : p ∈ Canon.prodsOf g sym)
  have hI0 := hI.pushStart (sym := sym) hp
  have hC0 : InvC g sts.size sts.size (sts.push (freshState g sym [⟨p, 0, [0]⟩])) :=
    hC.push (Nat.le_refl _) (Nat.le_refl _) (by
      intro it hit _
      simp only [List.mem_singleton] at hit
      subst hit; simp)
  obtain ⟨cur', hJ, hsz⟩ := calcLoop_induct (g := g) (fs := fs) (tt := tt) (rn := rn) (fuel := fuel)
    (fun c s => Inv g ((sts.size, p) :: autos) s ∧ InvC g c c s)
    (fun c s s' hJ' hc hs => ⟨(Inv.stepState hg hJ'.1 hc hs).1, InvC.stepState hg hJ'.1 hJ'.2 hc hs⟩)
    fuel sts.size _ sts' h2 ⟨hI0, hC0⟩
  exact hJ.2.widen hsz _ _ (Nat.le_refl _)

end Rustemo.Table
