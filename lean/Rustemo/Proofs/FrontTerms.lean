import Rustemo.Proofs.FrontMap
import Rustemo.Proofs.FrontGen
import Rustemo.Proofs.FrontSort
/-!
# The `terminals` map after `collect_terminals`

With pairwise different terminal names (class `dupTerminal` excluded) every index handed out by
`get_term_idx` belongs to exactly one terminal, so `terminals.len()` is the number of indices and the
sorted vector is indexed by `idx`.  `terminals_matches` only holds (name, idx) of terminals declared
with that very string.
-/
namespace Rustemo.Front

theorem hasDup_false : ∀ {l : List Name}, hasDup l = false → l.Nodup
  | [], _ => List.nodup_nil
  | x :: xs, h => by
    unfold hasDup at h
    simp only [Bool.or_eq_false_iff] at h
    refine List.nodup_cons.mpr ⟨?_, hasDup_false h.2⟩
    intro hm
    have : xs.contains x = true := by simpa using hm
    rw [this] at h
    exact absurd h.1 (by simp)

theorem nodup_map_insert {α β : Type} (f : Name × α → β) {k : Name} {v : α} :
    ∀ {m : SMap α}, k ∉ m.keys → (m.map f).Nodup → f (k, v) ∉ m.map f → ((SMap.insert k v m).map f).Nodup
  | [], _, _, _ => by simp [SMap.insert]
  | (k', v') :: m, hk, hn, hf => by
    have h1 : k ≠ k' := by
      intro e
      exact hk (by simp [SMap.keys, e])
    have hk' : k ∉ SMap.keys m := by
      intro e
      exact hk (by simp only [SMap.keys, List.map_cons, List.mem_cons]; exact Or.inr e)
    have hn2 : (f (k', v') :: m.map f).Nodup := hn
    have hn' := List.nodup_cons.mp hn2
    unfold SMap.insert
    rw [if_neg h1]
    by_cases h2 : Name.lt k k' = true
    · rw [if_pos h2]
      exact List.nodup_cons.mpr ⟨hf, hn⟩
    · rw [if_neg h2]
      show (f (k', v') :: (SMap.insert k v m).map f).Nodup
      refine List.nodup_cons.mpr ⟨?_, nodup_map_insert f hk' hn'.2 (fun e => hf (by simp [e]))⟩
      intro hm
      obtain ⟨a, ha, e⟩ := List.mem_map.mp hm
      rcases SMap.mem_insert ha with rfl | ha
      · exact hf (by simp [e])
      · exact hn'.1 (e ▸ List.mem_map_of_mem ha)

structure TermsInv (ts : TSt) : Prop where
  named : ∀ kv, kv ∈ ts.terms → kv.2.name = kv.1
  bound : ∀ kv, kv ∈ ts.terms → kv.2.idx < ts.next
  idxs : (ts.terms.map (fun kv => kv.2.idx)).Nodup
  count : ts.terms.length = ts.next

theorem termOfRule_ok {idx : Nat} {t : TermRule} {term : Term} (h : termOfRule idx t = .ok term) :
    term.idx = idx ∧ term.name = t.name ∧ term.recog = t.recog ∧ term.annotation = t.annotation := by
  unfold termOfRule at h
  simp only at h
  obtain ⟨p, _, h⟩ := Outcome.bind_eq_ok.mp h
  cases h
  exact ⟨rfl, rfl, rfl, rfl⟩

theorem collectTerms_inv {fx : Fixes} : ∀ {ts : List TermRule} {st st' : TSt}, TermsInv st →
    (fx.dupNameErr = true ∨ ((ts.map (·.name)).Nodup ∧ ∀ t, t ∈ ts → t.name ∉ st.terms.keys)) →
    collectTerms fx ts st = .ok st' →
    TermsInv st' ∧ (∀ n, n ∈ st'.terms.keys ↔ n ∈ st.terms.keys ∨ n ∈ ts.map (·.name)) ∧
      (∀ kv, kv ∈ st'.terms → kv ∈ st.terms ∨ ∃ t, t ∈ ts ∧ kv.1 = t.name ∧ kv.2.recog = t.recog ∧ kv.2.annotation = t.annotation)
  | [], st, st', hi, _, h => by
    cases h
    exact ⟨hi, by simp, fun kv hkv => Or.inl hkv⟩
  | t :: ts, st, st', hi, hq, h => by
    unfold collectTerms at h
    split at h
    · cases h
    · split at h
      · cases h
      · rename_i hdup
        obtain ⟨term, ht, h⟩ := Outcome.bind_eq_ok.mp h
        obtain ⟨e1, e2, e3, e4⟩ := termOfRule_ok ht
        have habs : t.name ∉ st.terms.keys := by
          rcases hq with hf | ⟨_, hd⟩
          · apply SMap.get?_none_iff.mp
            rw [hf] at hdup
            simp only [Bool.true_and, Bool.not_eq_true] at hdup
            rw [SMap.contains_eq] at hdup
            cases hg : st.terms.get? t.name with
            | none => rfl
            | some v => rw [hg] at hdup; cases hdup
          · exact hd t (by simp)
        obtain ⟨i1, i2, i3⟩ := SMap.insert_absent (v := term) habs
        have hi1 : TermsInv { terms := st.terms.insert t.name term, next := st.next + 1 } := by
          constructor
          · intro kv hkv
            rcases SMap.mem_insert hkv with rfl | hkv
            · exact e2
            · exact hi.named kv hkv
          · intro kv hkv
            show kv.2.idx < st.next + 1
            rcases SMap.mem_insert hkv with rfl | hkv
            · rw [e1]; exact Nat.lt_succ_self _
            · exact Nat.lt_succ_of_lt (hi.bound kv hkv)
          · apply nodup_map_insert _ habs hi.idxs
            intro hm
            obtain ⟨kv, hkv, e⟩ := List.mem_map.mp hm
            have := hi.bound kv hkv
            simp only at e
            omega
          · show (SMap.insert t.name term st.terms).length = st.next + 1
            rw [i1, hi.count]
        have hq1 : fx.dupNameErr = true ∨ ((ts.map (·.name)).Nodup ∧
            ∀ x, x ∈ ts → x.name ∉ (SMap.insert t.name term st.terms).keys) := by
          rcases hq with hf | ⟨hn, hd⟩
          · exact Or.inl hf
          · have hn2 : (t.name :: ts.map (·.name)).Nodup := hn
            have hn' := List.nodup_cons.mp hn2
            refine Or.inr ⟨hn'.2, ?_⟩
            intro x hx hm
            rcases SMap.keys_insert.mp hm with e | hm
            · exact hn'.1 (by rw [← e]; exact List.mem_map_of_mem hx)
            · exact hd x (by simp [hx]) hm
        obtain ⟨r1, r2, r3⟩ := collectTerms_inv hi1 hq1 h
        refine ⟨r1, ?_, ?_⟩
        · intro n
          rw [r2 n]
          show n ∈ (SMap.insert t.name term st.terms).keys ∨ _ ↔ _
          rw [SMap.keys_insert]
          simp only [List.map_cons, List.mem_cons]
          constructor
          · rintro ((h | h) | h)
            · exact Or.inr (Or.inl h)
            · exact Or.inl h
            · exact Or.inr (Or.inr h)
          · rintro (h | h | h)
            · exact Or.inl (Or.inr h)
            · exact Or.inl (Or.inl h)
            · exact Or.inr h
        · intro kv hkv
          rcases r3 kv hkv with hkv | ⟨x, hx, e⟩
          · rcases SMap.mem_insert hkv with rfl | hkv
            · exact Or.inr ⟨t, by simp, rfl, e3, e4⟩
            · exact Or.inl hkv
          · exact Or.inr ⟨x, by simp [hx], e⟩

theorem tst0_inv : TermsInv { terms := [(kSTOP, stopTerm)], next := 1 } := by
  refine ⟨?_, ?_, by simp, rfl⟩
  · intro kv hkv
    simp at hkv
    subst hkv
    rfl
  · intro kv hkv
    simp at hkv
    subst hkv
    exact Nat.zero_lt_one

/-- the terminal table of a file with pairwise different terminal names (or of a variant that rejects
duplicates) -/
theorem termPhase_inv {fx : Fixes} {f : File} {ts : TSt} (hd : fx.dupNameErr = true ∨ f.dupTerminal = false)
    (h : termPhase fx f = .ok ts) :
    TermsInv ts ∧ (∀ n, n ∈ ts.terms.keys ↔ n ∈ kSTOP :: termNamesOf f) ∧
      (∀ kv, kv ∈ ts.terms → kv = (kSTOP, stopTerm) ∨
        ∃ t, t ∈ f.termList ∧ kv.1 = t.name ∧ kv.2.recog = t.recog ∧ kv.2.annotation = t.annotation) := by
  unfold termPhase at h
  split at h
  · rename_i hf
    cases h
    refine ⟨tst0_inv, ?_, ?_⟩
    · intro n
      simp [SMap.keys, termNamesOf, hf]
    · intro kv hkv
      simp at hkv
      exact Or.inl hkv
  · rename_i l hf
    have hl : termNamesOf f = l.map (·.name) := by simp [termNamesOf, hf]
    have hq : fx.dupNameErr = true ∨ ((l.map (·.name)).Nodup ∧
        ∀ t, t ∈ l → t.name ∉ SMap.keys ([(kSTOP, stopTerm)] : SMap Term)) := by
      rcases hd with hflag | hd
      · exact Or.inl hflag
      · have hn := hasDup_false hd
        have hn' := List.nodup_cons.mp hn
        refine Or.inr ⟨hl ▸ hn'.2, ?_⟩
        intro t ht hm
        simp [SMap.keys] at hm
        exact hn'.1 (by rw [hl, ← hm]; exact List.mem_map_of_mem ht)
    obtain ⟨r1, r2, r3⟩ := collectTerms_inv tst0_inv hq h
    refine ⟨r1, ?_, ?_⟩
    · intro n
      rw [r2 n, hl]
      simp [SMap.keys]
    · intro kv hkv
      rcases r3 kv hkv with h | ⟨t, ht, e⟩
      · simp at h
        exact Or.inl h
      · exact Or.inr ⟨t, by simp [File.termList, hf, ht], e⟩

theorem terms_get? {ts : TSt} (hi : TermsInv ts) {n : Name} {t : Term} (h : ts.terms.get? n = some t) :
    t.idx < ts.terms.length ∧ t.name = n := by
  have hm := SMap.mem_of_get? h
  exact ⟨by rw [hi.count]; exact hi.bound _ hm, hi.named _ hm⟩

/-- the terminal vector is indexed by `idx` -/
theorem sortTerms_pos {ts : TSt} (hi : TermsInv ts) (i : Nat) (t : Term)
    (h : (sortTerms ts.terms.values)[i]? = some t) : t.idx = i := by
  apply sortByKey_pos Term.idx ts.terms.values _ _ i t h
  · have : ts.terms.values.map Term.idx = ts.terms.map (fun kv => kv.2.idx) := by
      unfold SMap.values
      rw [List.map_map]
      rfl
    rw [this]
    exact hi.idxs
  · intro x hx
    unfold SMap.values at hx ⊢
    obtain ⟨kv, hkv, e⟩ := List.mem_map.mp hx
    rw [List.length_map, hi.count, ← e]
    exact hi.bound kv hkv

/-- `terminals_matches` -/
theorem buildMatches_get? (terms : SMap Term) {s tn : Name} {i : Nat}
    (h : (buildMatches terms).get? s = some (tn, i)) :
    ∃ kv, kv ∈ terms ∧ kv.2.name = tn ∧ kv.2.idx = i ∧ kv.2.recog = some (.str s) := by
  unfold buildMatches at h
  have key : ∀ (l : SMap Term) (m : SMap (Name × Nat)),
      (∀ a, a ∈ m → ∃ kv, kv ∈ terms ∧ kv.2.name = a.2.1 ∧ kv.2.idx = a.2.2 ∧ kv.2.recog = some (.str a.1)) →
      (∀ kv, kv ∈ l → kv ∈ terms) →
      ∀ a, a ∈ l.foldl (fun m kv => match kv.2.recog with
        | some (.str s) => m.insert s (kv.2.name, kv.2.idx)
        | _ => m) m → ∃ kv, kv ∈ terms ∧ kv.2.name = a.2.1 ∧ kv.2.idx = a.2.2 ∧ kv.2.recog = some (.str a.1) := by
    intro l
    induction l with
    | nil => intro m hm _ a ha; exact hm a ha
    | cons x xs ih =>
      intro m hm hl a ha
      simp only [List.foldl_cons] at ha
      refine ih _ ?_ (fun kv hkv => hl kv (by simp [hkv])) a ha
      intro b hb
      split at hb
      · rename_i s' hs'
        rcases SMap.mem_insert hb with rfl | hb
        · exact ⟨x, hl x (by simp), rfl, rfl, hs'⟩
        · exact hm b hb
      · exact hm b hb
  have := key terms [] (by simp) (fun _ h => h) (s, (tn, i)) (SMap.mem_of_get? h)
  simpa using this

end Rustemo.Front
