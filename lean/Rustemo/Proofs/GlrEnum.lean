import Rustemo.Proofs.GlrForest
/-!
# The engine's forest and the enumeration model (`Model/Forest.lean`)

The decorated index decoding `DNode.get` (the model of `Forest::get_tree` + `Tree::build` with spans) commutes
with the erasure to the SPPF of the enumeration model, solution counts agree, and the forest of a result of
the engine is well formed (no parent link without solutions) when its unfolding is not cut (acyclic SPPF), so
that `C03_forest_enum` applies to it.
-/
namespace Rustemo.Glr
open Rustemo Rustemo.Forest

mutual
theorem DNode.solutions_erase : ∀ d : DNode, d.erase.solutions = d.solutions
  | .term _ => by simp [DNode.erase, SNode.solutions, DNode.solutions]
  | .nonterm _ _ cs => by simp [DNode.erase, SNode.solutions, DNode.solutions, DPList.prod_erase cs]
  | .cut => by simp [DNode.erase, SNode.solutions, DNode.solutions]
theorem DParent.solutions_erase : ∀ p : DParent, p.erase.solutions = p.solutions
  | .mk ns => by simp [DParent.erase, Parent.solutions, DParent.solutions, DNList.sum_erase ns]
theorem DNList.sum_erase : ∀ ns : DNList, ns.erase.sum = ns.sum
  | .nil => by simp [DNList.erase, NList.sum, DNList.sum]
  | .cons n ns => by simp [DNList.erase, NList.sum, DNList.sum, DNode.solutions_erase n, DNList.sum_erase ns]
theorem DPList.prod_erase : ∀ ps : DPList, ps.erase.prod = ps.prod
  | .nil => by simp [DPList.erase, PList.prod, DPList.prod]
  | .cons p ps => by simp [DPList.erase, PList.prod, DPList.prod, DParent.solutions_erase p, DPList.prod_erase ps]
end

theorem treesToF_ofList : ∀ (ts : List Tree), treesToF (TreeList.ofList ts) = ts.map treeToF
  | [] => by simp [TreeList.ofList, treesToF]
  | t :: ts => by simp [TreeList.ofList, treesToF, treesToF_ofList ts]

mutual
theorem DNode.get_erase : ∀ (d : DNode) (i : Nat), d.erase.get i = (d.get i).map treeToF
  | .term tk, i => by simp [DNode.erase, SNode.get, DNode.get, treeToF]
  | .nonterm p sp cs, i => by
    simp only [DNode.erase, SNode.get, DNode.get, DPList.get_erase cs i, Option.map_map]
    congr 1
    funext ts
    simp [treeToF, treesToF_ofList]
  | .cut, i => by simp [DNode.erase, SNode.get, DNode.get]
theorem DParent.get_erase : ∀ (p : DParent) (i : Nat), p.erase.get i = (p.get i).map treeToF
  | .mk ns, i => by simp [DParent.erase, Parent.get, DParent.get, DNList.get_erase ns i]
theorem DNList.get_erase : ∀ (ns : DNList) (i : Nat), ns.erase.get i = (ns.get i).map treeToF
  | .nil, i => by simp [DNList.erase, NList.get, DNList.get]
  | .cons n ns, i => by
    simp only [DNList.erase, NList.get, DNList.get, DNode.solutions_erase n]
    split
    · exact DNode.get_erase n i
    · exact DNList.get_erase ns _
theorem DPList.get_erase : ∀ (ps : DPList) (i : Nat), ps.erase.get i = (ps.get i).map (fun ts => ts.map treeToF)
  | .nil, i => by simp [DPList.erase, PList.get, DPList.get]
  | .cons p ps, i => by
    simp only [DPList.erase, PList.get, DPList.get, DPList.prod_erase ps, DParent.get_erase p, DPList.get_erase ps]
    cases p.get (i / ps.prod) <;> cases ps.get (i % ps.prod) <;> simp
end

/-- `get_tree(i)` of the engine's result, stripped of spans, is `getTree i` of the enumeration model on the
    erased forest; `solutions()` agree -/
theorem getTree_erase (r : GlrResult) (i : Nat) : r.forest.getTree i = (r.getTree i).map treeToF := by
  unfold GlrResult.forest GlrResult.getTree Forest.getTree
  exact DNList.get_erase _ i

theorem solutions_erase (r : GlrResult) : r.forest.solutions = r.droots.sum := by
  unfold GlrResult.forest Forest.solutions
  exact DNList.sum_erase _

/-! ## well-formedness -/

/- every parent link of the unfolding has at least one possibility -/
mutual
def DNode.NE : DNode → Prop
  | .term _ => True
  | .nonterm _ _ cs => cs.NE
  | .cut => True
def DParent.NE : DParent → Prop
  | .mk ns => ns ≠ .nil ∧ ns.NE
def DNList.NE : DNList → Prop
  | .nil => True
  | .cons n ns => n.NE ∧ ns.NE
def DPList.NE : DPList → Prop
  | .nil => True
  | .cons p ps => p.NE ∧ ps.NE
end

mutual
theorem DNode.wf_of : ∀ d : DNode, d.hasCut = false → d.NE → 0 < d.solutions ∧ d.erase.WF
  | .term _, _, _ => by simp [DNode.solutions, DNode.erase, SNode.WF]
  | .nonterm _ _ cs, hc, hn => by
    simp only [DNode.hasCut] at hc
    simp only [DNode.NE] at hn
    have := DPList.wf_of cs hc hn
    simpa [DNode.solutions, DNode.erase, SNode.WF] using this
  | .cut, hc, _ => by simp [DNode.hasCut] at hc
theorem DParent.wf_of : ∀ p : DParent, p.hasCut = false → p.NE → 0 < p.solutions ∧ p.erase.WF
  | .mk ns, hc, hn => by
    simp only [DParent.hasCut] at hc
    simp only [DParent.NE] at hn
    have h := DNList.wf_of ns hc hn.2
    have hpos : 0 < ns.sum := by
      cases ns with
      | nil => exact absurd rfl hn.1
      | cons n ns' =>
        simp only [DNList.hasCut, Bool.or_eq_false_iff] at hc
        simp only [DNList.NE] at hn
        have := DNode.wf_of n hc.1 hn.2.1
        simp only [DNList.sum]; omega
    refine ⟨by simpa [DParent.solutions] using hpos, ?_⟩
    simp only [DParent.erase, Parent.WF, DNList.sum_erase]
    exact ⟨hpos, h⟩
theorem DNList.wf_of : ∀ ns : DNList, ns.hasCut = false → ns.NE → ns.erase.WF
  | .nil, _, _ => by simp [DNList.erase, NList.WF]
  | .cons n ns, hc, hn => by
    simp only [DNList.hasCut, Bool.or_eq_false_iff] at hc
    simp only [DNList.NE] at hn
    simp only [DNList.erase, NList.WF]
    exact ⟨(DNode.wf_of n hc.1 hn.1).2, DNList.wf_of ns hc.2 hn.2⟩
theorem DPList.wf_of : ∀ ps : DPList, ps.hasCut = false → ps.NE → 0 < ps.prod ∧ ps.erase.WF
  | .nil, _, _ => by simp [DPList.prod, DPList.erase, PList.WF]
  | .cons p ps, hc, hn => by
    simp only [DPList.hasCut, Bool.or_eq_false_iff] at hc
    simp only [DPList.NE] at hn
    have h1 := DParent.wf_of p hc.1 hn.1
    have h2 := DPList.wf_of ps hc.2 hn.2
    simp only [DPList.prod, DPList.erase, PList.WF]
    exact ⟨Nat.mul_pos h1.1 h2.1, h1.2, h2.2⟩
end

theorem listToDN_NE : ∀ (l : List DNode), (∀ d ∈ l, d.NE) → (listToDN l).NE
  | [], _ => by simp [listToDN, DNList.NE]
  | d :: rest, h => by
    simp only [listToDN, DNList.NE]
    exact ⟨h d (by simp), listToDN_NE rest (fun d' hd' => h d' (by simp [hd']))⟩

theorem listToDP_NE : ∀ (l : List DParent), (∀ p ∈ l, p.NE) → (listToDP l).NE
  | [], _ => by simp [listToDP, DPList.NE]
  | p :: rest, h => by
    simp only [listToDP, DPList.NE]
    exact ⟨h p (by simp), listToDP_NE rest (fun p' hp' => h p' (by simp [hp']))⟩

theorem listToDN_ne_nil : ∀ (l : List DNode), l ≠ [] → listToDN l ≠ .nil
  | [], h => absurd rfl h
  | _ :: _, _ => by simp [listToDN]

/-- the unfolding of a possibility of a good graph has no empty parent link -/
theorem unfold_NE {env : Env} {g : Gss} (hg : GInv env g) : ∀ (fuel e : Nat) (ed : Edge) (n : Nat),
    g.edges[e]? = some ed → n ∈ ed.poss → (unfoldNode g fuel n).NE
  | 0, _, _, n, _, _ => by simp [unfoldNode, DNode.NE]
  | fuel+1, e, ed, n, hed, hn => by
    obtain ⟨hs, hd, _, _, _, hposs⟩ := (hg.edges e ed hed).ends
    obtain ⟨nd, hnd, hfit⟩ := hposs n hn
    simp only [unfoldNode, hnd]
    cases nd with
    | term tk sp => simp [DNode.NE]
    | nonterm p sp l ch =>
      obtain ⟨pr, _, _, _, _, hch⟩ := hfit
      simp only [DNode.NE]
      apply listToDP_NE
      intro dp hdp
      rw [List.mem_map] at hdp
      obtain ⟨e', he', rfl⟩ := hdp
      obtain ⟨ed', hed'⟩ := childrenOk_mem hch e' he'
      simp only [DParent.NE]
      rw [possOf_eq hed']
      refine ⟨?_, listToDN_NE _ (by
        intro d hd; rw [List.mem_map] at hd; obtain ⟨m, hm, rfl⟩ := hd
        exact unfold_NE hg fuel e' ed' m hed' hm)⟩
      apply listToDN_ne_nil
      have := (hg.edges e' ed' hed').poss_ne (by simp)
      simpa using this

/-- **The engine's forest is well formed** (so `C03_forest_enum` applies) when its unfolding is not cut -/
theorem forest_wf {env : Env} {r : GlrResult} (hr : ResultOk env r) (hc : r.droots.hasCut = false) :
    r.forest.roots.WF := by
  unfold GlrResult.forest
  apply DNList.wf_of _ hc
  unfold GlrResult.droots
  apply listToDN_NE
  intro d hd
  rw [List.mem_map] at hd
  obtain ⟨m, hm, rfl⟩ := hd
  obtain ⟨e, ed, _, _, hed, hmem, _⟩ := hr.roots m hm
  exact unfold_NE hr.g _ e ed m hed hmem

end Rustemo.Glr
