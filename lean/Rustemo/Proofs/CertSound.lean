import Rustemo.Model.Cert
import Rustemo.Proofs.CoreSound
/-!
# Soundness of the executable structural certificate

`Cert.structural g t start aug = true → Structural g t start aug`.  The left side is what the
driver computes on the table dumped from the real compiler; the right side is what the LR theory
needs.
-/
namespace Rustemo

theorem forStates_spec {t : Table} {f : Nat → State → Bool} (h : t.forStates f = true)
    {s : Nat} {st : State} (hs : t.states[s]? = some st) : f s st = true := by
  unfold Table.forStates at h
  rw [List.all_eq_true] at h
  have hlt : s < t.states.size := by
    rcases Nat.lt_or_ge s t.states.size with h' | h'
    · exact h'
    · rw [Array.getElem?_eq_none h'] at hs; simp at hs
  have := h s (List.mem_range.mpr hlt)
  simpa [hs] using this

theorem forCells_spec {st : State} {f : Nat → Action → Bool} (h : st.forCells f = true)
    {a : Nat} {act : Action} (hm : act ∈ st.actions.getD a []) : f a act = true := by
  unfold State.forCells at h
  rw [List.all_eq_true] at h
  have hlt : a < st.actions.size := by
    rcases Nat.lt_or_ge a st.actions.size with h' | h'
    · exact h'
    · simp [Array.getD_eq_getD_getElem?, Array.getElem?_eq_none h'] at hm
  have := h a (List.mem_range.mpr hlt)
  rw [List.all_eq_true] at this
  exact this act hm

theorem forGotos_spec {st : State} {f : Nat → Nat → Bool} (h : st.forGotos f = true)
    {j s' : Nat} (hm : st.gotos.getD j none = some s') : f j s' = true := by
  unfold State.forGotos at h
  rw [List.all_eq_true] at h
  have hlt : j < st.gotos.size := by
    rcases Nat.lt_or_ge j st.gotos.size with h' | h'
    · exact h'
    · simp [Array.getD_eq_getD_getElem?, Array.getElem?_eq_none h'] at hm
  have := h j (List.mem_range.mpr hlt)
  simpa [hm] using this

theorem mem_cell {t : Table} {s a : Nat} {act : Action} (h : act ∈ t.cell s a) :
    ∃ st, t.states[s]? = some st ∧ act ∈ st.actions.getD a [] := by
  unfold Table.cell at h
  split at h
  · rename_i st hst; exact ⟨st, hst, h⟩
  · simp at h

theorem goto_spec {t : Table} {g : Grammar} {s A s' : Nat} (h : t.goto g s A = some s') :
    g.nterms ≤ A ∧ ∃ st, t.states[s]? = some st ∧ st.gotos.getD (A - g.nterms) none = some s' := by
  unfold Table.goto at h
  split at h
  · rename_i hA
    refine ⟨hA, ?_⟩
    unfold Table.gotoNt at h
    split at h
    · rename_i st hst; exact ⟨st, hst, h⟩
    · simp at h
  · simp at h

theorem hasItemB_spec {t : Table} {s : Nat} {st : State} (hs : t.states[s]? = some st) {p d : Nat}
    (h : st.hasItemB p d = true) : t.hasItem s p d := by
  unfold State.hasItemB at h
  rw [List.any_eq_true] at h
  obtain ⟨it, hit, hpd⟩ := h
  simp only [Bool.and_eq_true, beq_iff_eq] at hpd
  exact ⟨st, hs, it, hit, hpd.1, hpd.2⟩

theorem targetOk_spec {g : Grammar} {t : Table} {s : Nat} {st : State} (hs : t.states[s]? = some st)
    {X s' : Nat} (h : t.targetOk g st X s' = true) {p d : Nat} (hi : t.hasItem s' p (d+1)) :
    (∃ pr, g.prods[p]? = some pr ∧ pr.rhs[d]? = some X) ∧ t.hasItem s p d := by
  obtain ⟨st', hst', it, hit, hp, hd⟩ := hi
  unfold Table.targetOk at h
  rw [hst'] at h
  simp only at h
  rw [List.all_eq_true] at h
  have := h it hit
  simp only [Bool.or_eq_true, beq_iff_eq, Bool.and_eq_true, hd] at this
  rcases this with h0 | ⟨hrhs, hhas⟩
  · omega
  · simp only [Nat.add_sub_cancel, hp] at hrhs hhas
    refine ⟨?_, hasItemB_spec hs hhas⟩
    unfold Grammar.rhsAt at hrhs
    split at hrhs
    · rename_i pr hpr; exact ⟨pr, hpr, hrhs⟩
    · simp at hrhs

theorem Cert.structural_sound (g : Grammar) (t : Table) (autos : List Auto)
    (h : Cert.structural g t autos = true) : Structural g t autos := by
  unfold Cert.structural at h
  simp only [Bool.and_eq_true] at h
  obtain ⟨⟨⟨⟨h1, h2⟩, h3⟩, h4⟩, h5⟩ := h
  have trans_cases : ∀ s X s', t.trans g s X s' →
      ∃ st, t.states[s]? = some st ∧ (∀ au ∈ autos, s' ≠ au.start) ∧ t.targetOk g st X s' = true := by
    intro s X s' htr
    unfold Table.trans at htr
    split at htr
    · obtain ⟨st, hst, hm⟩ := mem_cell htr
      have := forStates_spec h3 hst
      simp only [Bool.and_eq_true] at this
      have := forCells_spec this.2 hm
      simp only [Bool.and_eq_true, List.all_eq_true, bne_iff_ne, ne_eq] at this
      exact ⟨st, hst, this.1, this.2⟩
    · obtain ⟨hA, st, hst, hm⟩ := goto_spec htr
      have := forStates_spec h4 hst
      have := forGotos_spec this hm
      simp only [Bool.and_eq_true, List.all_eq_true, bne_iff_ne, ne_eq] at this
      have hX : g.nterms + (X - g.nterms) = X := by omega
      rw [hX] at this
      exact ⟨st, hst, this.1, this.2⟩
  have items_autos : ∀ s st, t.states[s]? = some st → ∀ it ∈ st.items, ∀ au ∈ autos,
      (s ≠ au.start ∨ it.dot = 0) ∧ (s = au.start ∨ ¬ (it.prod = au.aug ∧ it.dot = 0)) := by
    intro s st hst it hit au hau
    have := forStates_spec h2 hst
    rw [List.all_eq_true] at this
    have := this it hit
    rw [List.all_eq_true] at this
    have := this au hau
    simp only [Bool.and_eq_true, Bool.or_eq_true, bne_iff_ne, ne_eq, beq_iff_eq, Bool.not_eq_true',
      Bool.and_eq_false_iff] at this
    refine ⟨this.1, ?_⟩
    rcases this.2 with h | h
    · exact Or.inl h
    · right
      intro ⟨hp, hd⟩
      rcases h with h | h
      · simp [hp] at h
      · simp [hd] at h
  constructor
  · -- item_prod
    intro s p d ⟨st, hst, it, hit, hp, hd⟩
    have := forStates_spec h1 hst
    rw [List.all_eq_true] at this
    have := this it hit
    split at this
    · rename_i pr hpr
      subst hp hd
      exact ⟨pr, hpr, by simpa using this⟩
    · simp at this
  · -- start_items
    intro au hau p d ⟨st, hst, it, hit, _, hd⟩
    rcases (items_autos _ st hst it hit au hau).1 with h | h
    · exact absurd rfl h
    · omega
  · -- no_into_start
    intro au hau s X htr
    obtain ⟨_, _, hne, _⟩ := trans_cases s X au.start htr
    exact hne au hau rfl
  · -- target_items
    intro s X s' p d htr hi
    obtain ⟨st, hst, _, hok⟩ := trans_cases s X s' htr
    exact targetOk_spec hst hok hi
  · -- reduce_item
    intro s a p len hm
    obtain ⟨st, hst, hm'⟩ := mem_cell hm
    have := forStates_spec h3 hst
    simp only [Bool.and_eq_true] at this
    have := forCells_spec this.2 hm'
    simp only [Bool.and_eq_true] at this
    refine ⟨hasItemB_spec hst this.1, ?_⟩
    have h2 := this.2
    split at h2
    · rename_i pr hpr; exact ⟨pr, hpr, by simpa using h2⟩
    · simp at h2
  · -- accept_item
    intro s a hm
    obtain ⟨st, hst, hm'⟩ := mem_cell hm
    have := forStates_spec h3 hst
    simp only [Bool.and_eq_true] at this
    have := forCells_spec this.2 hm'
    simp only [List.any_eq_true, Bool.and_eq_true] at this
    obtain ⟨au, hau, h1', h2'⟩ := this
    refine ⟨au, hau, ?_⟩
    split at h1'
    · rename_i pr hpr
      exact ⟨pr, hpr, by simpa using h1', hasItemB_spec hst h2'⟩
    · simp at h1'
  · -- aug_start_only
    intro au hau s ⟨st, hst, it, hit, hp, hd⟩
    rcases (items_autos _ st hst it hit au hau).2 with h | h
    · exact h
    · exact absurd ⟨hp, hd⟩ h
  · -- shift_term
    intro s a s' hm
    obtain ⟨st, hst, hm'⟩ := mem_cell hm
    have := forStates_spec h3 hst
    simp only [Bool.and_eq_true, decide_eq_true_eq] at this
    have hsz := this.1
    rcases Nat.lt_or_ge a st.actions.size with h' | h'
    · omega
    · simp [Array.getD_eq_getD_getElem?, Array.getElem?_eq_none h'] at hm'
  · -- distinct
    intro a ha b hb hab
    rw [List.all_eq_true] at h5
    have := h5 a ha
    rw [List.all_eq_true] at this
    have := this b hb
    simp only [Bool.or_eq_true, bne_iff_ne, ne_eq, decide_eq_true_eq] at this
    rcases this with h | h
    · exact absurd hab h
    · exact h

end Rustemo
