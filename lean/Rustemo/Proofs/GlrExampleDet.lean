import Rustemo.Proofs.GlrExampleLex
/-!
# A deterministic grammar with BOTH real tables: `S: A S | EMPTY; A: 'a'`

`tLR` is the LALR_PAGER table the real compiler builds for the LR parser, `tRN` the LALR_RN table it builds for the
GLR parser of the SAME grammar (generated from the hook's dumps; they differ in the right-nulled entry `reduce 1 1`
of state 1 on STOP).  Used by the non-vacuity examples of C07.
-/
namespace Rustemo.Glr.ExampleDet
open Rustemo Rustemo.Glr

/-- terminals STOP(0) A(1); nonterminals EMPTY(2) AUG(3) S(4); prods 0: AUG→S, 1: S→A S, 2: S→ε -/
def g : Grammar :=
  { nterms := 2, nnonterms := 3,
    prods := #[{ lhs := 3, rhs := [4] }, { lhs := 4, rhs := [1, 4] }, { lhs := 4, rhs := [] }],
    emptyIdx := 2, augIdx := 3, startIdx := 4 }

def tLR : Table :=
  { states := #[
      { symbol := 3, items := [⟨0, 0, [0]⟩, ⟨1, 0, [0]⟩, ⟨2, 0, [0]⟩],
        actions := #[[.reduce 2 0], [.shift 1]], gotos := #[none, none, some 2],
        sorted := [(0, true), (1, true)] },
      { symbol := 1, items := [⟨1, 1, [0]⟩, ⟨1, 0, [0]⟩, ⟨2, 0, [0]⟩],
        actions := #[[.reduce 2 0], [.shift 1]], gotos := #[none, none, some 3],
        sorted := [(0, true), (1, true)] },
      { symbol := 4, items := [⟨0, 1, [0]⟩],
        actions := #[[.accept], []], gotos := #[none, none, none], sorted := [(0, false)] },
      { symbol := 4, items := [⟨1, 2, [0]⟩],
        actions := #[[.reduce 1 2], []], gotos := #[none, none, none], sorted := [(0, false)] }] }

def tRN : Table :=
  { states := #[
      { symbol := 3, items := [⟨0, 0, [0]⟩, ⟨1, 0, [0]⟩, ⟨2, 0, [0]⟩],
        actions := #[[.reduce 2 0], [.shift 1]], gotos := #[none, none, some 2],
        sorted := [(0, true), (1, true)] },
      { symbol := 1, items := [⟨1, 1, [0]⟩, ⟨1, 0, [0]⟩, ⟨2, 0, [0]⟩],
        actions := #[[.reduce 1 1, .reduce 2 0], [.shift 1]], gotos := #[none, none, some 3],
        sorted := [(0, true), (1, true)] },
      { symbol := 4, items := [⟨0, 1, [0]⟩],
        actions := #[[.accept], []], gotos := #[none, none, none], sorted := [(0, false)] },
      { symbol := 4, items := [⟨1, 2, [0]⟩],
        actions := #[[.reduce 1 2], []], gotos := #[none, none, none], sorted := [(0, false)] }] }

/-- the GLR environment on the input `a…a` (n times) -/
def env (n : Nat) : Env := { g := g, t := tRN, input := List.replicate n 97, recog := Example.recogA n }

def lookB (i s : Nat) : Bool :=
  let r := findLookaheadsCtx (env 2) false 9 ⟨s, Example.pos i, default, none⟩
  r.1.pos == Example.pos i &&
  (match r.2 with
   | .ok l => l == (if ((env 2).t.cell s (Example.tok i).kind).isEmpty then [] else [Example.tok i])
   | _ => false)

theorem lookB_all : ∀ i, i ≤ 2 → ∀ s, s < 4 → lookB i s = true := by decide +kernel

/-- `LexDet` holds of the GLR run on `aa` -/
theorem lexDet_aa : LexDet (env 2) false 9 2 Example.tok Example.pos Example.pos := by
  refine ⟨rfl, ?_, ?_, rfl, ?_⟩
  · intro i hi
    have : i = 0 ∨ i = 1 := by omega
    rcases this with rfl | rfl <;> decide
  · intro i hi ctx hp hs
    obtain ⟨h1, h2⟩ := Example.findLookaheadsCtx_indep (env 2) rfl rfl 9 ctx
    rw [h1, h2, hp]
    have hb := lookB_all i hi ctx.state hs
    unfold lookB at hb
    simp only [Bool.and_eq_true, beq_iff_eq] at hb
    obtain ⟨hb1, hb2⟩ := hb
    refine ⟨hb1, ?_⟩
    split at hb2
    · rename_i l hl
      rw [hl]
      simp only [beq_iff_eq] at hb2
      rw [hb2]
    · simp at hb2
  · intro i hi
    have : i = 0 ∨ i = 1 := by omega
    rcases this with rfl | rfl <;> decide

end Rustemo.Glr.ExampleDet
