import Rustemo.Proofs.GlrClosure1
/-!
# Uniqueness invariants of a sub-frontier and the closure invariant (`RCInv`)
-/
namespace Rustemo.Glr
open Rustemo

def InSub (sub : SubFrontier) (h : Nat) : Prop := ∃ s, (s, h) ∈ sub

/-- structure of the graph around the sub-frontier being reduced (level `F`, lookahead kind `a`) -/
structure UInv (F a : Nat) (g : Gss) (sub : SubFrontier) : Prop where
  edgeUniq : ∀ (e e' : Nat) (ed ed' : Edge), g.edges[e]? = some ed → g.edges[e']? = some ed' →
    ed.src = ed'.src → ed.dst = ed'.dst → e = e'
  subFun : ∀ (s h h' : Nat), (s, h) ∈ sub → (s, h') ∈ sub → h = h'
  levelIn : ∀ (e : Nat) (ed : Edge) (hs hd : Head), g.edges[e]? = some ed → g.heads[ed.src]? = some hs →
    g.heads[ed.dst]? = some hd → hs.frontier = F → hd.frontier = F → InSub sub ed.src ∧ InSub sub ed.dst
  noAbove : ∀ (h : Nat) (hd : Head), g.heads[h]? = some hd → hd.frontier ≤ F
  edgeMono : ∀ (e : Nat) (ed : Edge) (hs hd : Head), g.edges[e]? = some ed → g.heads[ed.src]? = some hs →
    g.heads[ed.dst]? = some hd → hd.frontier ≤ hs.frontier
  subKind : ∀ (s h : Nat), (s, h) ∈ sub → ∃ (hd : Head) (tk : Tok), g.heads[h]? = some hd ∧ hd.tok = some tk ∧ tk.kind = a

/-- the item of the production moves along a chain (lookahead kept): transitions are functions -/
theorem chain_items {env : Env} (hC : CompleteRN env.g env.t) {g : Gss} (hg : GInv env g) {p : Nat} {pr : Prod}
    {a : Nat} (hpr : env.g.prods[p]? = some pr) :
    ∀ {P Xs : List Nat} {u v : Nat} {hu hv : Head} (d : Nat), ChainEnd env.t g P Xs u v →
      Xs = (pr.rhs.drop d).take P.length → g.heads[u]? = some hu → g.heads[v]? = some hv →
      env.t.hasItemLA hu.state p d a → env.t.hasItemLA hv.state p (d + P.length) a
  | [], _, _, _, hu, hv, d, h, _, hhu, hhv, hi => by
    rw [h.2] at hhu; rw [hhu] at hhv; injection hhv with hhv; subst hhv
    simpa using hi
  | e :: es, _, _, _, hu, hv, d, h, hXs, hhu, hhv, hi => by
    obtain ⟨ed, hs, X, Xs', he, hhs, hX, hdst, hsym, hr⟩ := h
    obtain ⟨hs', hd', hhs', hhd', htr, _⟩ := (hg.edges e ed he).ends
    rw [hhs] at hhs'; injection hhs' with hhs'; subst hhs'
    rw [hdst, hhu] at hhd'; injection hhd' with hhd'; subst hhd'
    have hXd : pr.rhs[d]? = some X := by
      have h0 : ((pr.rhs.drop d).take (es.length + 1))[0]? = some X := by
        rw [← List.length_cons (a := e), ← hXs, hX]; rfl
      rw [List.getElem?_take] at h0
      simp only [Nat.zero_lt_succ, ↓reduceIte, List.getElem?_drop, Nat.add_zero] at h0
      exact h0
    obtain ⟨s', htr', hi'⟩ := hC.trans _ p d a pr X hi hpr hXd
    rw [hsym] at htr
    have hs'eq : s' = hs.state := hC.trans_det htr' htr
    rw [hs'eq] at hi'
    have hXs' : Xs' = (pr.rhs.drop (d+1)).take es.length := by
      have hlt : d < pr.rhs.length := by
        rcases Nat.lt_or_ge d pr.rhs.length with h | h
        · exact h
        · rw [List.getElem?_eq_none h] at hXd; simp at hXd
      have hdrop : pr.rhs.drop d = X :: pr.rhs.drop (d+1) := by
        rw [List.drop_eq_getElem_cons hlt]
        congr 1
        rw [List.getElem?_eq_getElem hlt] at hXd
        exact Option.some.inj hXd
      rw [hX, hdrop] at hXs
      simp only [List.length_cons, List.take_succ_cons, List.cons.injEq, true_and] at hXs
      exact hXs
    have := chain_items hC hg hpr (d+1) hr hXs' hhs hhv hi'
    simp only [List.length_cons]
    rw [show d + (es.length + 1) = d + 1 + es.length by omega]
    exact this

/-- **Unique extension.** Two chains from the same head of level `F` spelling comparable symbol lists are
    comparable: above level `F` there is nothing, heads of the sub-frontier are unique per state, edges per
    pair of heads. -/
theorem unique_ext {env : Env} (hC : CompleteRN env.g env.t) {g : Gss} (hg : GInv env g) {F a : Nat}
    {sub : SubFrontier} (hu : UInv F a g sub) (hsub : SubOk g F sub) :
    ∀ {P1 P2 Xs1 Xs2 : List Nat} {w v1 v2 : Nat} {hw : Head}, g.heads[w]? = some hw → hw.frontier = F →
      ChainEnd env.t g P1 Xs1 w v1 → ChainEnd env.t g P2 Xs2 w v2 → (Xs1 <+: Xs2 ∨ Xs2 <+: Xs1) →
      P1 <+: P2 ∨ P2 <+: P1
  | [], _, _, _, _, _, _, _, _, _, _, _, _ => Or.inl (List.nil_prefix)
  | _ :: _, [], _, _, _, _, _, _, _, _, _, _, _ => Or.inr (List.nil_prefix)
  | e1 :: P1, e2 :: P2, _, _, w, _, _, hw, hhw, hF, h1, h2, hXs => by
    obtain ⟨ed1, hs1, X1, Xs1', he1, hhs1, hX1, hdst1, hsym1, hr1⟩ := h1
    obtain ⟨ed2, hs2, X2, Xs2', he2, hhs2, hX2, hdst2, hsym2, hr2⟩ := h2
    subst hX1 hX2
    have hXeq : X1 = X2 ∧ (Xs1' <+: Xs2' ∨ Xs2' <+: Xs1') := by
      rcases hXs with h | h
      · rw [List.cons_prefix_cons] at h; exact ⟨h.1, Or.inl h.2⟩
      · rw [List.cons_prefix_cons] at h; exact ⟨h.1.symm, Or.inr h.2⟩
    obtain ⟨hX, hXs'⟩ := hXeq
    subst hX
    -- both source heads are on level F, in the sub-frontier, in the same state
    obtain ⟨a1, b1, ha1, hb1, htr1, _⟩ := (hg.edges e1 ed1 he1).ends
    obtain ⟨a2, b2, ha2, hb2, htr2, _⟩ := (hg.edges e2 ed2 he2).ends
    rw [hhs1] at ha1; injection ha1 with ha1; subst ha1
    rw [hhs2] at ha2; injection ha2 with ha2; subst ha2
    rw [hdst1, hhw] at hb1; injection hb1 with hb1; subst hb1
    rw [hdst2, hhw] at hb2; injection hb2 with hb2; subst hb2
    have hl1 : hs1.frontier = F := by
      have h1 := hu.edgeMono e1 ed1 hs1 hw he1 hhs1 (by rw [hdst1]; exact hhw)
      have h2 := hu.noAbove _ hs1 hhs1
      omega
    have hl2 : hs2.frontier = F := by
      have h1 := hu.edgeMono e2 ed2 hs2 hw he2 hhs2 (by rw [hdst2]; exact hhw)
      have h2 := hu.noAbove _ hs2 hhs2
      omega
    rw [hsym1] at htr1
    rw [hsym2] at htr2
    have hst : hs1.state = hs2.state := hC.trans_det htr1 htr2
    obtain ⟨⟨s1, hin1⟩, _⟩ := hu.levelIn e1 ed1 hs1 hw he1 hhs1 (by rw [hdst1]; exact hhw) hl1 hF
    obtain ⟨⟨s2, hin2⟩, _⟩ := hu.levelIn e2 ed2 hs2 hw he2 hhs2 (by rw [hdst2]; exact hhw) hl2 hF
    obtain ⟨x1, hx1, hxs1, _, _⟩ := hsub _ _ hin1
    obtain ⟨x2, hx2, hxs2, _, _⟩ := hsub _ _ hin2
    rw [hhs1] at hx1; injection hx1 with hx1; subst hx1
    rw [hhs2] at hx2; injection hx2 with hx2; subst hx2
    have hsrc : ed1.src = ed2.src := by
      apply hu.subFun s1 _ _ hin1
      rw [← hxs1, hst, hxs2]; exact hin2
    have hee : e1 = e2 := hu.edgeUniq e1 e2 ed1 ed2 he1 he2 hsrc (by rw [hdst1, hdst2])
    subst hee
    rw [he1] at he2; injection he2 with he2; subst he2
    rcases unique_ext hC hg hu hsub hhs1 hl1 hr1 hr2 hXs' with h | h
    · exact Or.inl (List.cons_prefix_cons.mpr ⟨rfl, h⟩)
    · exact Or.inr (List.cons_prefix_cons.mpr ⟨rfl, h⟩)

/-! ## covered / pending -/

/-- the chain `P` from root `u` for production `p` is covered: the edge from the head of the goto state `s'`
    down to `u` carries a possibility of `p` with a children list prefix-comparable with `P` -/
def Covered (rs : RState) (u p : Nat) (P : List Nat) (s' : Nat) : Prop :=
  ∃ (hA e : Nat) (ed : Edge) (n : Nat) (sp : Span) (l : Option Slice) (C : List Nat),
    sfGet s' rs.sub = some hA ∧ rs.gss.edges[e]? = some ed ∧ ed.src = hA ∧ ed.dst = u ∧ n ∈ ed.poss ∧
    rs.gss.nodes[n]? = some (.nonterm p sp l C) ∧ (C <+: P ∨ P <+: C)

/-- a reduction for a prefix of the chain waits in the queue -/
def PendingIn (queue : List Reduction) (u p : Nat) (P : List Nat) : Prop :=
  ∃ r ∈ queue, r.prod = p ∧ r.len ≤ P.length ∧
    (match r.start with
     | .edge e => 0 < r.len ∧ P[r.len - 1]? = some e
     | .node n => r.len = 0 ∧ n = u)

/-- from every head of level `F` on the chain onwards, the rest of the production is nullable -/
def NullOk (env : Env) (g : Gss) (F : Nat) (pr : Prod) (u : Nat) (P : List Nat) : Prop :=
  ∀ (i : Nat), i ≤ P.length → ∀ (w : Nat) (hw : Head), ChainEnd env.t g (P.take i) (pr.rhs.take i) u w →
    g.heads[w]? = some hw → hw.frontier = F → ∀ Y ∈ pr.rhs.drop i, Nullable env.g Y

/-- the premises under which a chain must be covered or pending -/
structure KChain (env : Env) (F a : Nat) (g : Gss) (sub : SubFrontier) (u p : Nat) (pr : Prod) (P : List Nat)
    (s' : Nat) : Prop where
  root : ∃ hu : Head, g.heads[u]? = some hu ∧ env.t.hasItemLA hu.state p 0 a ∧ env.t.goto env.g hu.state pr.lhs = some s'
  prod : env.g.prods[p]? = some pr
  notAug : env.g.isAug p = false
  len : P.length ≤ pr.rhs.length
  chain : ∃ v, ChainEnd env.t g P (pr.rhs.take P.length) u v ∧ InSub sub v
  nullOk : NullOk env g F pr u P
  live : env.t.cell s' a ≠ []

/-- the closure invariant with an extra escape `R` (paths of the reduction being processed) -/
def RCInvR (env : Env) (F a : Nat) (rs : RState) (R : Nat → Nat → List Nat → Prop) : Prop :=
  ∀ (u p : Nat) (pr : Prod) (P : List Nat) (s' : Nat), KChain env F a rs.gss rs.sub u p pr P s' →
    Covered rs u p P s' ∨ PendingIn rs.queue u p P ∨ R u p P

abbrev RCInv (env : Env) (F a : Nat) (rs : RState) : Prop := RCInvR env F a rs (fun _ _ _ => False)

end Rustemo.Glr
