import Rustemo.Model.CertTerm
import Rustemo.Proofs.TermStack
import Rustemo.Proofs.CertSound
/-!
# Soundness of the termination certificate

`Cert.terminating g t = true` gives the facts the termination proof uses (`GRank`, `SRank`, `Consts`)
for the values the certificate computed; the computations themselves (fixpoints, relaxation) are not
reasoned about, only the final checks.
-/
namespace Rustemo
open CertTerm

def CertTerm.Data.U (d : Data) (p : Nat) : Prop := p ∈ d.used
def CertTerm.Data.nulP (d : Data) (x : Nat) : Prop := x ∈ d.nul
def CertTerm.Data.r (d : Data) (x : Nat) : Nat := d.rk.getD x 0
def CertTerm.Data.rnF (d : Data) (s : Nat) : Nat := d.rn.getD s 0

theorem forUsed_spec {g : Grammar} {used : List Nat} {f : Prod → Bool} (h : forUsed g used f = true)
    {p : Nat} {pr : Prod} (hp : p ∈ used) (hpr : g.prods[p]? = some pr) : f pr = true := by
  unfold forUsed at h
  rw [List.all_eq_true] at h
  have := h p hp
  rw [hpr] at this
  exact this

theorem mem_splits : ∀ (pre : List Nat) (acc : List Nat) (x : Nat) (post : List Nat),
    (acc ++ pre, x, post) ∈ splits acc (pre ++ x :: post)
  | [], acc, x, post => by simp [splits]
  | y :: pre, acc, x, post => by
    simp only [List.cons_append, splits, List.mem_cons]
    right
    have := mem_splits pre (acc ++ [y]) x post
    simpa using this

theorem ranksOk_spec {edges : List (Nat × Nat)} {rk : Array Nat} (h : ranksOk edges rk = true)
    {a b : Nat} (he : (a, b) ∈ edges) : rk.getD a 0 < rk.getD b 0 := by
  unfold ranksOk at h
  rw [List.all_eq_true] at h
  simpa using h (a, b) he

theorem getD_lt_of_all {a : Array Nat} {w : Nat} (h : (a.toList.all fun r => decide (r < w)) = true)
    (hw : 0 < w) (i : Nat) : a.getD i 0 < w := by
  rw [List.all_eq_true] at h
  rcases Nat.lt_or_ge i a.size with hi | hi
  · have : a.getD i 0 = a[i] := by simp [Array.getD, hi]
    rw [this]
    have hm : a[i] ∈ a.toList := by simp
    simpa using h _ hm
  · have : a.getD i 0 = 0 := by simp [Array.getD]; omega
    rw [this]; exact hw

theorem mem_usedProds {t : Table} {state kind p len : Nat} {acts : List Action}
    (h : t.cell state kind = Action.reduce p len :: acts) : p ∈ usedProds t := by
  unfold Table.cell at h
  split at h
  · rename_i st hst
    have hlt : kind < st.actions.size := by
      rcases Nat.lt_or_ge kind st.actions.size with h' | h'
      · exact h'
      · exfalso
        have : st.actions.getD kind [] = [] := by simp [Array.getD]; omega
        rw [this] at h; simp at h
    have hcell : st.actions.getD kind [] = st.actions[kind] := by simp [Array.getD, hlt]
    rw [hcell] at h
    unfold usedProds
    simp only [List.mem_flatMap, List.mem_filterMap]
    refine ⟨st, ?_, st.actions[kind], by simp, ?_⟩
    · have := List.mem_of_getElem? (l := t.states.toList) (i := state) (a := st) (by simpa using hst)
      exact this
    · rw [h]; rfl
  · simp at h

theorem data_sound (g : Grammar) (t : Table) (d : Data) (h : dataOk g t d = true) :
    GRank g d.U d.nulP d.r d.m d.w ∧ SRank g t d.nulP d.rnF d.wn := by
  unfold dataOk nulOk at h
  simp only [Bool.and_eq_true, decide_eq_true_eq] at h
  obtain ⟨⟨⟨⟨⟨⟨⟨⟨⟨hclosed, hnulnt⟩, hlhs⟩, hunit⟩, hgoto⟩, hlen⟩, hrk⟩, hw⟩, hrn⟩, hwn⟩ := h
  have hnulc : ∀ (l : List Nat), (l.all d.nul.contains = true) ↔ ∀ x ∈ l, x ∈ d.nul := by
    intro l; simp [List.all_eq_true]
  refine ⟨⟨?_, ?_, ?_, ?_, ?_, ?_⟩, ⟨?_, ?_⟩⟩
  · intro p pr hp hpr hall
    have := forUsed_spec hclosed hp hpr
    simp only [Bool.or_eq_true, Bool.not_eq_true', List.contains_iff_mem] at this
    rcases this with h1 | h1
    · have h2 := (hnulc pr.rhs).mpr hall
      rw [h2] at h1; simp at h1
    · exact h1
  · intro x hx
    rw [List.all_eq_true] at hnulnt
    simpa using hnulnt x hx
  · intro p pr hp hpr pre x post hsplit hpre hpost hnt
    refine ranksOk_spec hunit (a := x) (b := pr.lhs) ?_
    unfold unitEdges prodsOf
    simp only [List.mem_flatMap, List.mem_filterMap]
    refine ⟨pr, ⟨p, hp, hpr⟩, (pre, x, post), ?_, ?_⟩
    · have := mem_splits pre [] x post
      rw [hsplit]; simpa using this
    · simp only
      rw [if_pos]
      simp only [Bool.and_eq_true, decide_eq_true_eq]
      exact ⟨⟨hnt, (hnulc pre).mpr hpre⟩, (hnulc post).mpr hpost⟩
  · intro p pr hp hpr
    simpa using forUsed_spec hlen hp hpr
  · intro p pr hp hpr
    simpa using forUsed_spec hlhs hp hpr
  · intro x
    exact getD_lt_of_all hrk hw x
  · intro s X s' hX hgo
    obtain ⟨hnt, st, hst, hget⟩ := goto_spec hgo
    refine ranksOk_spec hgoto (a := s') (b := s) ?_
    unfold gotoEdges
    simp only [List.mem_flatMap, List.mem_range, List.mem_filterMap]
    have hs : s < t.states.size := by
      rcases Nat.lt_or_ge s t.states.size with h' | h'
      · exact h'
      · simp [Array.getElem?_eq_none h'] at hst
    have hj : X - g.nterms < st.gotos.size := by
      rcases Nat.lt_or_ge (X - g.nterms) st.gotos.size with h' | h'
      · exact h'
      · exfalso
        have : st.gotos.getD (X - g.nterms) none = none := by simp [Array.getD]; omega
        rw [this] at hget; simp at hget
    refine ⟨s, hs, ?_⟩
    rw [hst]
    simp only [List.mem_filterMap, List.mem_range]
    refine ⟨X - g.nterms, hj, ?_⟩
    rw [hget]
    simp only
    have : g.nterms + (X - g.nterms) = X := by omega
    have hX' : X ∈ d.nul := hX
    rw [this, if_pos (by simpa using hX')]
  · intro s
    exact getD_lt_of_all hrn hwn s

theorem consts_of (d : Data) : Consts d.m d.w (epsBound d) (cBound d) (kBound d) := ⟨rfl, rfl, rfl⟩



end Rustemo
