import Rustemo.Proofs.GlrCompleteDefs
import Rustemo.Proofs.GlrInForest
import Rustemo.Proofs.GlrLive
/-!
# Towards completeness: "all levels done" and the children of a node pushed along a chain
-/
namespace Rustemo.Glr
open Rustemo

/-- token kinds of the levels `i … j-1` -/
def kindsOf (tok : Nat → Tok) (i j : Nat) : List Nat := (List.range' i (j - i)).map fun x => (tok x).kind

theorem kindsOf_self (tok : Nat → Tok) (i : Nat) : kindsOf tok i i = [] := by simp [kindsOf]

theorem kindsOf_length (tok : Nat → Tok) (i j : Nat) : (kindsOf tok i j).length = j - i := by simp [kindsOf]

theorem kindsOf_append (tok : Nat → Tok) {i i' j : Nat} (h1 : i ≤ i') (h2 : i' ≤ j) :
    kindsOf tok i j = kindsOf tok i i' ++ kindsOf tok i' j := by
  unfold kindsOf
  rw [← List.map_append]
  congr 1
  have : j - i = (i' - i) + (j - i') := by omega
  rw [this, ← List.range'_append_1]
  congr 2
  omega

theorem kindsOf_split {tok : Nat → Tok} {i j : Nat} (hij : i ≤ j) {l1 l2 : List Nat} (h : l1 ++ l2 = kindsOf tok i j) :
    ∃ i', i ≤ i' ∧ i' ≤ j ∧ l1 = kindsOf tok i i' ∧ l2 = kindsOf tok i' j := by
  have hlen : l1.length + l2.length = j - i := by
    have := congrArg List.length h
    simpa [kindsOf_length] using this
  refine ⟨i + l1.length, by omega, by omega, ?_⟩
  rw [kindsOf_append tok (i' := i + l1.length) (by omega) (by omega)] at h
  exact List.append_inj h (by rw [kindsOf_length]; omega)

theorem kindsOf_head {tok : Nat → Tok} {i j : Nat} (hij : i ≤ j) (b : Nat) (hb : b = (tok j).kind) :
    ((kindsOf tok i j) ++ [b]).head? = some (tok i).kind := by
  rcases Nat.lt_or_ge i j with h | h
  · have : j - i = (j - i - 1) + 1 := by omega
    unfold kindsOf
    rw [this, List.range'_succ]
    simp
  · have : i = j := by omega
    subst this
    simp [kindsOf_self, hb]

/-- everything the run established about level `k`, stated in the final graph -/
structure LevelDone (env : Env) (g : Gss) (tok : Nat → Tok) (k : Nat) (sub : SubFrontier) : Prop where
  subOk : ∀ (s h : Nat), (s, h) ∈ sub → ∃ hd : Head, g.heads[h]? = some hd ∧ hd.state = s ∧ hd.frontier = k
  closed : ∀ (u p : Nat) (pr : Prod) (P : List Nat) (s' : Nat), KChain env k (tok k).kind g sub u p pr P s' →
    Covered ⟨g, [], [], [], sub⟩ u p P s'
  shifted : ∀ (s u s' : Nat), (s, u) ∈ sub → Action.shift s' ∈ env.t.cell s (tok k).kind →
    ∃ (v : Nat) (hv : Head) (e : Nat) (ed : Edge) (n : Nat) (sp : Span), g.heads[v]? = some hv ∧ hv.state = s' ∧
      hv.frontier = k + 1 ∧ g.edges[e]? = some ed ∧ ed.src = v ∧ ed.dst = u ∧ n ∈ ed.poss ∧
      g.nodes[n]? = some (.term (tok k) sp)
  alive : ∀ (h : Nat) (hd : Head), g.heads[h]? = some hd → hd.frontier = k →
    env.t.cell hd.state (tok k).kind ≠ [] → (hd.state, h) ∈ sub

/-- the children `cs` (deriving `Xs`) pushed along the chain `P` from `u` to `v`, each on its parent link with a
    tree equal modulo elision; whenever the chain has reached the last level `j`, what remains has an empty yield -/
def Pushed (env : Env) (g : Gss) (j : Nat) : TreeList → List Nat → Nat → List Nat → List Tree → Nat → Prop
  | .nil, Xs, u, P, trs, v => Xs = [] ∧ P = [] ∧ trs = [] ∧ u = v
  | .cons c cs, Xs, u, P, trs, v =>
    ∃ (X : Nat) (Xs' : List Nat) (e : Nat) (P' : List Nat) (tr : Tree) (trs' : List Tree) (ed : Edge) (hs : Head)
      (m k : Nat), Xs = X :: Xs' ∧ P = e :: P' ∧ trs = tr :: trs' ∧ g.edges[e]? = some ed ∧
      g.heads[ed.src]? = some hs ∧ ed.dst = u ∧ env.t.symAt hs.state = X ∧ m ∈ ed.poss ∧ InU g k m tr ∧
      Tree.EqElide c tr ∧ (hs.frontier = j → cs.yield = []) ∧ Pushed env g j cs Xs' ed.src P' trs' v

theorem Pushed.chain {env : Env} {g : Gss} {j : Nat} : ∀ {cs : TreeList} {Xs : List Nat} {u : Nat} {P : List Nat}
    {trs : List Tree} {v : Nat}, Pushed env g j cs Xs u P trs v → ChainEnd env.t g P Xs u v
  | .nil, _, _, _, _, _, h => by
    obtain ⟨h1, h2, _, h4⟩ := h
    rw [h1, h2]; exact ⟨rfl, h4⟩
  | .cons c cs, _, _, _, _, _, h => by
    obtain ⟨X, Xs', e, P', tr, trs', ed, hs, m, k, h1, h2, _, h4, h5, h6, h7, _, _, _, _, hr⟩ := h
    rw [h1, h2]
    exact ⟨ed, hs, X, Xs', h4, h5, rfl, h6, h7, Pushed.chain hr⟩

theorem Pushed.lengths {env : Env} {g : Gss} {j : Nat} : ∀ {cs : TreeList} {Xs : List Nat} {u : Nat} {P : List Nat}
    {trs : List Tree} {v : Nat}, Pushed env g j cs Xs u P trs v → P.length = Xs.length ∧ trs.length = Xs.length
  | .nil, _, _, _, _, _, h => by
    obtain ⟨h1, h2, h3, _⟩ := h
    rw [h1, h2, h3]; simp
  | .cons c cs, _, _, _, _, _, h => by
    obtain ⟨X, Xs', e, P', tr, trs', ed, hs, m, k, h1, h2, h3, _, _, _, _, _, _, _, _, hr⟩ := h
    have := Pushed.lengths hr
    rw [h1, h2, h3]; simp [this.1, this.2]

/-- cutting the pushed children after `c` links, where the chain has reached level `j`: the kept trees are on
    their links and the whole children list is equal modulo elision to the kept part -/
theorem Pushed.cut {env : Env} {g : Gss} {j : Nat} : ∀ {cs : TreeList} {Xs : List Nat} {u : Nat} {P : List Nat}
    {trs : List Tree} {v : Nat}, Pushed env g j cs Xs u P trs v → ∀ (c : Nat) (w : Nat) (hw : Head) (Ys : List Nat),
      c ≤ P.length → ChainEnd env.t g (P.take c) Ys u w → g.heads[w]? = some hw → hw.frontier = j →
      (c = 0 → cs.yield = []) →
      TreeList.EqElide cs (TreeList.ofList (trs.take c)) ∧
      All2 (fun e t => ∃ m ∈ possOf g e, ∃ k, InU g k m t) (P.take c) (trs.take c)
  | .nil, _, _, _, _, _, h, c, w, hw, Ys, _, _, _, _, _ => by
    obtain ⟨_, h2, h3, _⟩ := h
    rw [h2, h3]
    simp [TreeList.ofList, TreeList.EqElide, TreeList.yield, All2]
  | .cons c0 cs, _, u, _, _, _, h, c, w, hw, Ys, hc, hch, hhw, hF, h0 => by
    obtain ⟨X, Xs', e, P', tr, trs', ed, hs, m, k, h1, h2, h3, h4, h5, h6, h7, h8, h9, h10, h11, hr⟩ := h
    subst h2 h3
    cases c with
    | zero =>
      simp only [List.take_zero, TreeList.ofList, All2, and_true]
      have := h0 rfl
      simp only [TreeList.EqElide]
      left
      simp only [TreeList.yield] at this
      exact ⟨this, by simp [TreeList.yield]⟩
    | succ c' =>
      simp only [List.take_succ_cons, TreeList.ofList, All2] at hch ⊢
      obtain ⟨ed', hs', X', Ys', he', hhs', _, _, _, hrest⟩ := hch
      rw [h4] at he'; injection he' with he'; subst he'
      rw [h5] at hhs'; injection hhs' with hhs'; subst hhs'
      have hrec := Pushed.cut hr c' w hw Ys' (by simp at hc; omega) hrest hhw hF (by
        intro hz
        subst hz
        -- the chain is empty: `w` is the source of the first link
        have : ed.src = w := hrest.2
        rw [this, hhw] at h5; injection h5 with h5; subst h5
        exact h11 hF)
      refine ⟨?_, ⟨m, by rw [possOf_eq h4]; exact h8, k, h9⟩, hrec.2⟩
      simp only [TreeList.EqElide]
      right
      exact ⟨h10, hrec.1⟩

theorem valid_yield_nullable {g : Grammar} : ∀ (cs : TreeList) (Xs : List Nat), cs.Valid g Xs → cs.yield = [] →
    ∀ Y ∈ Xs, Nullable g Y
  | .nil, Xs, hv, _ => by simp only [TreeList.Valid] at hv; subst hv; simp
  | .cons c cs, Xs, hv, hy => by
    obtain ⟨X, Xs', rfl, hvc, hvcs⟩ := hv
    simp only [TreeList.yield, List.append_eq_nil_iff] at hy
    intro Y hY
    rcases List.mem_cons.mp hY with rfl | h
    · exact ⟨c, hvc, hy.1⟩
    · exact valid_yield_nullable cs Xs' hvcs hy.2 Y h

/-- where the chain has reached level `j`, the symbols of the remaining children are nullable -/
theorem Pushed.rest_nullable {env : Env} {g : Gss} {j : Nat} : ∀ {cs : TreeList} {Xs : List Nat} {u : Nat} {P : List Nat}
    {trs : List Tree} {v : Nat}, Pushed env g j cs Xs u P trs v → cs.Valid env.g Xs →
      ∀ (c : Nat) (w : Nat) (hw : Head) (Ys : List Nat), c ≤ P.length → ChainEnd env.t g (P.take c) Ys u w →
      g.heads[w]? = some hw → hw.frontier = j → (c = 0 → cs.yield = []) → ∀ Y ∈ Xs.drop c, Nullable env.g Y
  | .nil, _, _, _, _, _, h, _, c, _, _, _, _, _, _, _, _ => by
    obtain ⟨h1, _⟩ := h
    rw [h1]; simp
  | .cons c0 cs, _, u, _, _, _, h, hv, c, w, hw, Ys, hc, hch, hhw, hF, h0 => by
    obtain ⟨X, Xs', e, P', tr, trs', ed, hs, m, k, h1, h2, h3, h4, h5, h6, h7, h8, h9, h10, h11, hr⟩ := h
    subst h1 h2
    obtain ⟨X', Xs'', hx, hvc, hvcs⟩ := hv
    injection hx with hx1 hx2
    subst hx1 hx2
    cases c with
    | zero =>
      have hy := h0 rfl
      simp only [TreeList.yield, List.append_eq_nil_iff] at hy
      intro Y hY
      simp only [List.drop_zero] at hY
      rcases List.mem_cons.mp hY with rfl | hY'
      · exact ⟨c0, hvc, hy.1⟩
      · exact valid_yield_nullable cs _ hvcs hy.2 Y hY'
    | succ c' =>
      simp only [List.take_succ_cons, List.drop_succ_cons] at hch ⊢
      obtain ⟨ed', hs', X', Ys', he', hhs', _, _, _, hrest⟩ := hch
      rw [h4] at he'; injection he' with he'; subst he'
      rw [h5] at hhs'; injection hhs' with hhs'; subst hhs'
      exact Pushed.rest_nullable hr hvcs c' w hw Ys' (by simp at hc; omega) hrest hhw hF (by
        intro hz
        subst hz
        have : ed.src = w := hrest.2
        rw [this, hhw] at h5; injection h5 with h5; subst h5
        exact h11 hF)

/-- a common unfolding depth for the kept children -/
theorem all2_uniform {g : Gss} : ∀ {es : List Nat} {ts : List Tree},
    All2 (fun e t => ∃ m ∈ possOf g e, ∃ k, InU g k m t) es ts →
    ∃ K, All2 (fun e t => ∃ m ∈ possOf g e, InU g K m t) es ts
  | [], [], _ => ⟨0, trivial⟩
  | [], _ :: _, h => h.elim
  | _ :: _, [], h => h.elim
  | e :: es, t :: ts, h => by
    obtain ⟨⟨m, hm, k, hk⟩, hrest⟩ := h
    obtain ⟨K, hK⟩ := all2_uniform hrest
    refine ⟨max k K, ⟨m, hm, inU_mono_le (Nat.le_max_left _ _) hk⟩, ?_⟩
    exact All2.imp (fun e' t' ⟨m', hm', h'⟩ => ⟨m', hm', inU_mono_le (Nat.le_max_right _ _) h'⟩) hK

end Rustemo.Glr
