import Rustemo.Proofs.GlrMain
import Rustemo.Proofs.Forest
/-!
# From the GSS invariant to the trees of the forest

Every tree that `Forest::get_tree` + `Tree::build` can return from the unfolding of a good graph is a
derivation tree modulo elision of the symbol of its edge, and its leaves are tokens shifted on consecutive
levels (frontier indices).
-/
namespace Rustemo.Glr
open Rustemo

/- the tokens at the leaves of a built tree -/
mutual
def toksOf : Tree → List Tok
  | .leaf k sp v _ => [⟨k, v, sp⟩]
  | .node _ _ _ cs => toksOfList cs
def toksOfList : TreeList → List Tok
  | .nil => []
  | .cons t ts => toksOf t ++ toksOfList ts
end

/-- token `tk` was shifted from a head of level `i` (it is a terminal possibility on an edge into that head) -/
def ShiftedAt (g : Gss) (i : Nat) (tk : Tok) : Prop :=
  ∃ (e : Nat) (ed : Edge) (hd : Head) (n : Nat) (sp : Span), g.edges[e]? = some ed ∧ g.heads[ed.dst]? = some hd ∧
    hd.frontier = i ∧ n ∈ ed.poss ∧ g.nodes[n]? = some (.term tk sp)

/-- the tokens were shifted on the consecutive levels `i, i+1, …, j-1` -/
def LeavesAt (g : Gss) : List Tok → Nat → Nat → Prop
  | [], i, j => i = j
  | tk :: rest, i, j => ShiftedAt g i tk ∧ LeavesAt g rest (i + 1) j

theorem LeavesAt.append {g : Gss} : ∀ {a b : List Tok} {i j k : Nat}, LeavesAt g a i j → LeavesAt g b j k →
    LeavesAt g (a ++ b) i k
  | [], b, i, j, k, h1, h2 => by simp only [LeavesAt] at h1; subst h1; simpa using h2
  | tk :: rest, b, i, j, k, h1, h2 => by
    obtain ⟨h0, h1⟩ := h1
    exact ⟨h0, LeavesAt.append h1 h2⟩

theorem LeavesAt.length {g : Gss} : ∀ {a : List Tok} {i j : Nat}, LeavesAt g a i j → i + a.length = j
  | [], i, j, h => by simp only [LeavesAt] at h; simp [h]
  | tk :: rest, i, j, h => by
    have := LeavesAt.length h.2
    simp only [List.length_cons]; omega

/-! ## index decoding on lists built from `List` -/

def All2 {α β : Type} (R : α → β → Prop) : List α → List β → Prop
  | [], [] => True
  | a :: as, b :: bs => R a b ∧ All2 R as bs
  | [], _ :: _ => False
  | _ :: _, [] => False

theorem get_listToDN : ∀ (l : List DNode) (i : Nat) (t : Tree), (listToDN l).get i = some t →
    ∃ d ∈ l, ∃ j, d.get j = some t
  | [], i, t, h => by simp [listToDN, DNList.get] at h
  | d :: rest, i, t, h => by
    simp only [listToDN, DNList.get] at h
    split at h
    · exact ⟨d, by simp, i, h⟩
    · obtain ⟨d', hd', j, hj⟩ := get_listToDN rest _ t h
      exact ⟨d', by simp [hd'], j, hj⟩

theorem get_listToDP : ∀ (ps : List DParent) (i : Nat) (ts : List Tree), (listToDP ps).get i = some ts →
    All2 (fun p t => ∃ j, DParent.get p j = some t) ps ts
  | [], i, ts, h => by
    simp only [listToDP, DPList.get, Option.some.injEq] at h
    subst h; trivial
  | p :: rest, i, ts, h => by
    simp only [listToDP, DPList.get] at h
    split at h
    · rename_i t ts' h1 h2
      injection h with h; subst h
      exact ⟨⟨_, h1⟩, get_listToDP rest _ ts' h2⟩
    · simp at h

theorem toksOfList_ofList : ∀ (ts : List Tree), toksOfList (TreeList.ofList ts) = (ts.map toksOf).flatten
  | [] => by simp [TreeList.ofList, toksOfList]
  | t :: ts => by simp [TreeList.ofList, toksOfList, toksOfList_ofList ts]

/-- list form of `TreeList.ValidElided` -/
theorem validElided_ofList (g : Grammar) : ∀ (ts : List Tree) (Xs tail : List Nat),
    All2 (fun t X => Tree.ValidElided g t X) ts Xs → (∀ Y ∈ tail, Nullable g Y) →
    (TreeList.ofList ts).ValidElided g (Xs ++ tail)
  | [], [], tail, _, hn => by
    simpa [TreeList.ofList, TreeList.ValidElided] using hn
  | [], _ :: _, _, h, _ => h.elim
  | _ :: _, [], _, h, _ => h.elim
  | t :: ts, X :: Xs, tail, h, hn => by
    simp only [TreeList.ofList, TreeList.ValidElided]
    exact ⟨X, Xs ++ tail, by simp, h.1, validElided_ofList g ts Xs tail h.2 hn⟩

/-- the trees of a good graph -/
def TreeOk (env : Env) (g : Gss) (tr : Tree) (X i j : Nat) : Prop :=
  tr.ValidElided env.g X ∧ LeavesAt g (toksOf tr) i j

/-- the children lists of a node: one tree per parent link, along the chain -/
theorem children_ok {env : Env} {g : Gss} (hg : GInv env g) (fuel : Nat)
    (ih : ∀ (e : Nat) (ed : Edge) (hs hd : Head) (n : Nat), g.edges[e]? = some ed → n ∈ ed.poss →
      g.heads[ed.src]? = some hs → g.heads[ed.dst]? = some hd →
      ∀ (i : Nat) (tr : Tree), (unfoldNode g fuel n).get i = some tr → TreeOk env g tr (env.t.symAt hs.state) hd.frontier hs.frontier) :
    ∀ (ch Xs : List Nat) (r j : Nat) (ts : List Tree), ChildrenOk env.t g ch Xs r j →
      All2 (fun p t => ∃ k, DParent.get p k = some t)
        (ch.map fun e => DParent.mk (listToDN ((possOf g e).map (unfoldNode g fuel)))) ts →
      ∃ hr : Head, g.heads[r]? = some hr ∧ All2 (fun t X => Tree.ValidElided env.g t X) ts Xs ∧
        LeavesAt g (ts.map toksOf).flatten hr.frontier j
  | [], Xs, r, j, [], hc, _ => by
    obtain ⟨hXs, hd, hhd, hfr⟩ := hc
    subst hXs
    exact ⟨hd, hhd, trivial, by simpa [LeavesAt] using hfr⟩
  | [], _, _, _, _ :: _, _, hf => hf.elim
  | _ :: _, _, _, _, [], _, hf => hf.elim
  | e :: es, Xs, r, j, t :: ts', hc, hf => by
    obtain ⟨ed, hs, X, Xs', hed, hhs, hXs, hdst, hsym, hrest⟩ := hc
    simp only [List.map_cons] at hf
    obtain ⟨⟨k, hk⟩, h2⟩ := hf
    simp only [DParent.get] at hk
    obtain ⟨d, hd, k', hk'⟩ := get_listToDN _ _ _ hk
    rw [List.mem_map] at hd
    obtain ⟨n, hn, rfl⟩ := hd
    rw [possOf_eq hed] at hn
    obtain ⟨_, hdd, hhs', hhdd, _, _⟩ := (hg.edges e ed hed).ends
    rw [hhs] at hhs'; injection hhs' with hhs'; subst hhs'
    have ht := ih e ed hs hdd n hed hn hhs hhdd k' t hk'
    obtain ⟨hr', hhr', hv, hl⟩ := children_ok hg fuel ih es Xs' ed.src j ts' hrest h2
    rw [hhs] at hhr'; injection hhr' with hhr'; subst hhr'
    subst hXs
    refine ⟨hdd, by rw [← hdst]; exact hhdd, ⟨by rw [← hsym]; exact ht.1, hv⟩, ?_⟩
    simp only [List.map_cons, List.flatten_cons]
    exact LeavesAt.append ht.2 hl

/-- **Trees of a good graph.** Every tree decoded from the unfolding of a possibility of an edge is a
    derivation tree modulo elision of the edge's symbol over the tokens shifted between the two levels. -/
theorem unfold_ok {env : Env} {g : Gss} (hg : GInv env g) :
    ∀ (fuel : Nat) (e : Nat) (ed : Edge) (hs hd : Head) (n : Nat), g.edges[e]? = some ed → n ∈ ed.poss →
      g.heads[ed.src]? = some hs → g.heads[ed.dst]? = some hd →
      ∀ (i : Nat) (tr : Tree), (unfoldNode g fuel n).get i = some tr →
        TreeOk env g tr (env.t.symAt hs.state) hd.frontier hs.frontier
  | 0, e, ed, hs, hd, n, _, _, _, _, i, tr, h => by simp [unfoldNode, DNode.get] at h
  | fuel+1, e, ed, hs, hd, n, hed, hn, hhs, hhd, i, tr, h => by
    obtain ⟨hs', hd', hhs', hhd', _, hposs⟩ := (hg.edges e ed hed).ends
    rw [hhs] at hhs'; injection hhs' with hhs'; subst hhs'
    rw [hhd] at hhd'; injection hhd' with hhd'; subst hhd'
    obtain ⟨nd, hnd, hfit⟩ := hposs n hn
    simp only [unfoldNode, hnd] at h
    cases nd with
    | term tk sp =>
      simp only [DNode.get, Option.some.injEq] at h
      subst h
      obtain ⟨hk, hterm, hd2, hhd2, hlvl⟩ := hfit
      rw [hhd] at hhd2; injection hhd2 with hhd2; subst hhd2
      refine ⟨by simp only [Tree.ValidElided]; exact ⟨hk, by rw [hk]; exact hterm⟩, ?_⟩
      simp only [toksOf, LeavesAt]
      exact ⟨⟨e, ed, hd, n, sp, hed, hhd, rfl, hn, hnd⟩, hlvl⟩
    | nonterm p sp l ch =>
      simp only [DNode.get, Option.map_eq_some_iff] at h
      obtain ⟨ts, hts, rfl⟩ := h
      obtain ⟨pr, hpr, hl, hlen, hnul, hch⟩ := hfit
      have hf := get_listToDP _ _ _ hts
      obtain ⟨hr, hhr, hv, hleaves⟩ := children_ok hg fuel (unfold_ok hg fuel) ch _ ed.dst hs.frontier ts hch hf
      rw [hhd] at hhr; injection hhr with hhr; subst hhr
      refine ⟨?_, by simpa only [toksOf, toksOfList_ofList] using hleaves⟩
      simp only [Tree.ValidElided]
      refine ⟨pr, hpr, hl, ?_⟩
      have := validElided_ofList env.g ts _ _ hv hnul
      rwa [List.take_append_drop] at this

/-- **Soundness of the engine, tree level.** -/
theorem result_trees_ok {env : Env} {r : GlrResult} (hr : ResultOk env r) (i : Nat) (tr : Tree)
    (h : r.getTree i = some tr) :
    ∃ n, TreeOk env r.gss tr env.g.startIdx 0 n := by
  unfold GlrResult.getTree GlrResult.droots at h
  obtain ⟨d, hd, j, hj⟩ := get_listToDN _ _ _ h
  rw [List.mem_map] at hd
  obtain ⟨m, hm, rfl⟩ := hd
  obtain ⟨e, ed, hs, hdst, hed, hmem, hhs, hhd, hf0, hsym⟩ := hr.roots m hm
  have := unfold_ok hr.g _ e ed hs hdst m hed hmem hhs hhd j tr hj
  rw [hsym, hf0] at this
  exact ⟨hs.frontier, this⟩

end Rustemo.Glr
