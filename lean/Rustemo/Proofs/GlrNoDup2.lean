import Rustemo.Proofs.GlrNoDup1
import Rustemo.Proofs.GlrInForest
import Rustemo.Proofs.GlrTop
/-!
# No duplicates, graph level: from uniqueness invariants of the graph to pairwise different trees of the unfolding
-/
namespace Rustemo.Glr
open Rustemo

/-- uniqueness facts about a graph from which "no two alternatives are the same derivation" follows -/
structure NoDupG (env : Env) (g : Gss) : Prop where
  ginv : GInv env g
  edgeUniq : ∀ (e e' : Nat) (ed ed' : Edge), g.edges[e]? = some ed → g.edges[e']? = some ed' →
    ed.src = ed'.src → ed.dst = ed'.dst → e = e'
  hfun : ∀ (h h' : Nat) (hd hd' : Head), g.heads[h]? = some hd → g.heads[h']? = some hd' → hd.frontier = hd'.frontier →
    hd.state = hd'.state → h = h'
  possNodup : ∀ (e : Nat) (ed : Edge), g.edges[e]? = some ed → ed.poss.Nodup
  termOne : ∀ (e : Nat) (ed : Edge) (n n' : Nat) (tk tk' : Tok) (sp sp' : Span), g.edges[e]? = some ed → n ∈ ed.poss →
    n' ∈ ed.poss → g.nodes[n]? = some (.term tk sp) → g.nodes[n']? = some (.term tk' sp') → n = n'
  possDistinct : ∀ (e : Nat) (ed : Edge) (n n' p : Nat) (sp sp' : Span) (l l' : Option Slice) (C C' : List Nat),
    g.edges[e]? = some ed → n ∈ ed.poss → n' ∈ ed.poss → n ≠ n' → g.nodes[n]? = some (.nonterm p sp l C) →
    g.nodes[n']? = some (.nonterm p sp' l' C') → ¬ (C <+: C' ∨ C' <+: C)
  transDet : ∀ (s X s1 s2 : Nat), env.t.trans env.g s X s1 → env.t.trans env.g s X s2 → s1 = s2

/-- the head reached from `r` along the parent links `es` -/
def chainEndOf (g : Gss) : Nat → List Nat → Nat
  | r, [] => r
  | r, e :: es =>
    match g.edges[e]? with
    | some ed => chainEndOf g ed.src es
    | none => r

/-- the `i`-th parent link of a children list: its symbol, and where it hangs -/
theorem childrenOk_index {t : Table} {g : Gss} : ∀ (C Xs : List Nat) (r j : Nat), ChildrenOk t g C Xs r j →
    ∀ (i e' : Nat), C[i]? = some e' → ∃ (ed' : Edge) (hs' : Head) (X : Nat), g.edges[e']? = some ed' ∧
      g.heads[ed'.src]? = some hs' ∧ Xs[i]? = some X ∧ t.symAt hs'.state = X ∧ ed'.dst = chainEndOf g r (C.take i)
  | [], _, _, _, _, i, e', hi => by simp at hi
  | e :: es, _, r, j, h, i, e', hi => by
    obtain ⟨ed, hs, X, Xs', he, hhs, hXs, hdst, hsym, hr⟩ := h
    subst hXs
    cases i with
    | zero =>
      simp only [List.getElem?_cons_zero, Option.some.injEq] at hi
      subst hi
      exact ⟨ed, hs, X, he, hhs, by simp, hsym, by simpa [chainEndOf] using hdst⟩
    | succ i =>
      obtain ⟨ed', hs', X', k1, k2, k3, k4, k5⟩ := childrenOk_index es Xs' ed.src j hr i e' (by simpa using hi)
      exact ⟨ed', hs', X', k1, k2, by simpa using k3, k4, by simp [chainEndOf, he, k5]⟩

/-- the trees enumerated from node `n` unfolded to depth `k` -/
abbrev U (g : Gss) (k n : Nat) : List Tree := (unfoldNode g k n).all

theorem U_nonterm {g : Gss} {k n p : Nat} {sp : Span} {l : Option Slice} {C : List Nat}
    (h : g.nodes[n]? = some (.nonterm p sp l C)) :
    U g (k + 1) n = (prodL (C.map fun e' => ((possOf g e').map (U g k)).flatten)).map
      (fun ts => Tree.node p sp none (TreeList.ofList ts)) := by
  unfold U
  rw [unfoldNode_succ, h]
  simp only [DNode.all, all_listToDP, List.map_map]
  congr 2
  apply List.map_congr_left
  intro e' _
  simp only [Function.comp, DParent.all, all_listToDN, List.map_map]
  rfl

theorem U_term {g : Gss} {k n : Nat} {tk : Tok} {sp : Span} (h : g.nodes[n]? = some (.term tk sp)) :
    U g (k + 1) n = [.leaf tk.kind tk.span tk.val none] := by
  unfold U
  rw [unfoldNode_succ, h]
  rfl

theorem hasCut_children {g : Gss} {k n p : Nat} {sp : Span} {l : Option Slice} {C : List Nat}
    (h : g.nodes[n]? = some (.nonterm p sp l C)) (hc : (unfoldNode g (k + 1) n).hasCut = false) :
    ∀ e' ∈ C, ∀ m ∈ possOf g e', (unfoldNode g k m).hasCut = false := by
  rw [unfoldNode_succ, h] at hc
  simp only [DNode.hasCut, hasCut_listToDP, List.any_map, List.any_eq_false] at hc
  intro e' he' m hm
  have h2 : (possOf g e').any (DNode.hasCut ∘ unfoldNode g k) = false := by
    have := hc e' he'
    simpa [Function.comp, DParent.hasCut, hasCut_listToDN, List.any_map] using this
  rw [List.any_eq_false] at h2
  simpa using h2 m hm

/-- every enumerated tree of a possibility of an edge spans the levels of the edge -/
theorem U_treeOk {env : Env} {g : Gss} (hg : GInv env g) {k e n : Nat} {ed : Edge} {hs hd : Head}
    (he : g.edges[e]? = some ed) (hn : n ∈ ed.poss) (hhs : g.heads[ed.src]? = some hs) (hhd : g.heads[ed.dst]? = some hd)
    (hc : (unfoldNode g k n).hasCut = false) {t : Tree} (ht : t ∈ U g k n) :
    TreeOk env g t (env.t.symAt hs.state) hd.frontier hs.frontier := by
  have hne := unfold_NE hg k e ed n he hn
  obtain ⟨_, hw⟩ := DNode.wfd_of _ hc hne
  obtain ⟨i, hi, heq⟩ := List.getElem_of_mem ht
  have hget : (unfoldNode g k n).get i = some t := by
    rw [DNode.get_eq _ i hw (by rw [← DNode.len_all]; exact hi), List.getElem?_eq_getElem hi, heq]
  exact unfold_ok hg k e ed hs hd n he hn hhs hhd i t hget

theorem treeOk_yield_len {env : Env} {g : Gss} {t : Tree} {X i j : Nat} (h : TreeOk env g t X i j) :
    i + t.yield.length = j := by
  have := LeavesAt.length h.2
  rw [← (toksOf_kinds).1 t]
  simpa using this

/-- **the unfolding enumerates pairwise different derivations**: within one possibility, and across two different
    possibilities of one edge -/
theorem U_nodup {env : Env} {g : Gss} (G : NoDupG env g) : ∀ (k : Nat),
    (∀ (e : Nat) (ed : Edge) (n : Nat), g.edges[e]? = some ed → n ∈ ed.poss → (unfoldNode g k n).hasCut = false →
      (U g k n).Pairwise (fun a b => ¬ Tree.SameDerivation a b)) ∧
    (∀ (e : Nat) (ed : Edge) (n n' : Nat), g.edges[e]? = some ed → n ∈ ed.poss → n' ∈ ed.poss → n ≠ n' →
      (unfoldNode g k n).hasCut = false → (unfoldNode g k n').hasCut = false →
      ∀ t ∈ U g k n, ∀ t' ∈ U g k n', ¬ Tree.SameDerivation t t')
  | 0 => by
    constructor
    · intro e ed n _ _ hc; simp [unfoldNode, DNode.hasCut] at hc
    · intro e ed n n' _ _ _ _ hc; simp [unfoldNode, DNode.hasCut] at hc
  | k+1 => by
    obtain ⟨ih1, ih2⟩ := U_nodup G k
    -- the alternatives of a parent link at depth `k` are pairwise different
    have hpar : ∀ (e' : Nat) (ed' : Edge), g.edges[e']? = some ed' →
        (∀ m ∈ ed'.poss, (unfoldNode g k m).hasCut = false) →
        (((possOf g e').map (U g k)).flatten).Pairwise (fun a b => ¬ Tree.SameDerivation a b) := by
      intro e' ed' he' hcs
      rw [possOf_eq he', List.pairwise_flatten]
      constructor
      · intro l hl
        rw [List.mem_map] at hl
        obtain ⟨m, hm, rfl⟩ := hl
        exact ih1 e' ed' m he' hm (hcs m hm)
      · rw [List.pairwise_map]
        apply List.Pairwise.imp_of_mem _ (G.possNodup e' ed' he')
        intro m m' hm hm' hne x hx y hy
        exact ih2 e' ed' m m' he' hm hm' hne (hcs m hm) (hcs m' hm') x hx y hy
    constructor
    · -- within one possibility
      intro e ed n he hn hc
      obtain ⟨hs, hd, hhs, hhd, _, hposs⟩ := (G.ginv.edges e ed he).ends
      obtain ⟨nd, hnd, hfit⟩ := hposs n hn
      cases nd with
      | term tk sp => rw [U_term hnd]; simp
      | nonterm p sp l C =>
        rw [U_nonterm hnd, List.pairwise_map]
        have hcc := hasCut_children hnd hc
        obtain ⟨pr, hpr, _, _, _, hch⟩ := hfit
        have hfac : ∀ l' ∈ C.map (fun e' => ((possOf g e').map (U g k)).flatten),
            l'.Pairwise (fun a b => ¬ Tree.SameDerivation a b) := by
          intro l' hl'
          rw [List.mem_map] at hl'
          obtain ⟨e', he'C, rfl⟩ := hl'
          obtain ⟨i, hi⟩ := List.getElem?_of_mem he'C
          obtain ⟨ed', _, _, k1, _⟩ := childrenOk_index C _ _ _ hch i e' hi
          exact hpar e' ed' k1 (fun m hm => hcc e' he'C m (by rw [possOf_eq k1]; exact hm))
        apply (prodL_pairwise _ hfac).imp
        rintro ts ts' ⟨i, a, b, h1, h2, h3⟩ hsame
        exact h3 ((sameDerivation_node hsame).2 i a b h1 h2)
    · -- two different possibilities of one edge
      intro e ed n n' he hn hn' hne hc hc' t ht t' ht' hsame
      obtain ⟨hs, hd, hhs, hhd, _, hposs⟩ := (G.ginv.edges e ed he).ends
      obtain ⟨nd, hnd, hfit⟩ := hposs n hn
      obtain ⟨nd', hnd', hfit'⟩ := hposs n' hn'
      cases nd with
      | term tk sp =>
        cases nd' with
        | term tk' sp' => exact hne (G.termOne e ed n n' tk tk' sp sp' he hn hn' hnd hnd')
        | nonterm p' sp' l' C' =>
          rw [U_term hnd, List.mem_singleton] at ht
          rw [U_nonterm hnd', List.mem_map] at ht'
          obtain ⟨ts', _, rfl⟩ := ht'
          subst ht
          exact not_sameDerivation_leaf_node hsame
      | nonterm p sp l C =>
        cases nd' with
        | term tk' sp' =>
          rw [U_term hnd', List.mem_singleton] at ht'
          rw [U_nonterm hnd, List.mem_map] at ht
          obtain ⟨ts, _, rfl⟩ := ht
          subst ht'
          exact not_sameDerivation_leaf_node hsame.symm
        | nonterm p' sp' l' C' =>
          rw [U_nonterm hnd, List.mem_map] at ht
          rw [U_nonterm hnd', List.mem_map] at ht'
          obtain ⟨ts, hts, rfl⟩ := ht
          obtain ⟨ts', hts', rfl⟩ := ht'
          obtain ⟨hpp, hco⟩ := sameDerivation_node hsame
          subst hpp
          obtain ⟨i, x, y, hx, hy, hxy, htake⟩ := first_diff C C' (G.possDistinct e ed n n' p sp sp' l l' C C' he hn hn' hne hnd hnd')
          obtain ⟨pr, hpr, _, _, _, hch⟩ := hfit
          obtain ⟨pr', hpr', _, _, _, hch'⟩ := hfit'
          rw [hpr] at hpr'; injection hpr' with hpr'; subst hpr'
          obtain ⟨ex, hsx, X, k1, k2, k3, k4, k5⟩ := childrenOk_index C _ _ _ hch i x hx
          obtain ⟨ey, hsy, Y, m1, m2, m3, m4, m5⟩ := childrenOk_index C' _ _ _ hch' i y hy
          -- the same symbol and the same head below
          have hXY : X = Y := by
            rw [List.getElem?_take] at k3 m3
            split at k3
            · split at m3
              · rw [k3] at m3; injection m3
              · simp at m3
            · simp at k3
          have hdst : ex.dst = ey.dst := by rw [k5, m5, htake]
          -- the components of the two trees at `i`
          obtain ⟨_, hmem⟩ := prodL_mem _ ts hts
          obtain ⟨_, hmem'⟩ := prodL_mem _ ts' hts'
          have hti : ∃ a, ts[i]? = some a := by
            have : i < ts.length := by
              rw [(prodL_mem _ ts hts).1, List.length_map]
              exact (List.getElem?_eq_some_iff.mp hx).1
            exact ⟨ts[i], List.getElem?_eq_getElem this⟩
          have hti' : ∃ b, ts'[i]? = some b := by
            have : i < ts'.length := by
              rw [(prodL_mem _ ts' hts').1, List.length_map]
              exact (List.getElem?_eq_some_iff.mp hy).1
            exact ⟨ts'[i], List.getElem?_eq_getElem this⟩
          obtain ⟨a, ha⟩ := hti
          obtain ⟨b, hb⟩ := hti'
          have hab := hco i a b ha hb
          obtain ⟨la, hla, hain⟩ := hmem i a ha
          obtain ⟨lb, hlb, hbin⟩ := hmem' i b hb
          rw [List.getElem?_map, hx] at hla
          rw [List.getElem?_map, hy] at hlb
          simp only [Option.map_some, Option.some.injEq] at hla hlb
          subst hla; subst hlb
          rw [List.mem_flatten] at hain hbin
          obtain ⟨_, hl1, hain⟩ := hain
          obtain ⟨_, hl2, hbin⟩ := hbin
          rw [possOf_eq k1, List.mem_map] at hl1
          rw [possOf_eq m1, List.mem_map] at hl2
          obtain ⟨ma, hma, rfl⟩ := hl1
          obtain ⟨mb, hmb, rfl⟩ := hl2
          have hcc := hasCut_children hnd hc
          have hcc' := hasCut_children hnd' hc'
          have hxC : x ∈ C := List.mem_of_getElem? hx
          have hyC : y ∈ C' := List.mem_of_getElem? hy
          obtain ⟨hsx', hdx, q1, q2, trx, _⟩ := (G.ginv.edges x ex k1).ends
          obtain ⟨hsy', hdy, r1, r2, try_, _⟩ := (G.ginv.edges y ey m1).ends
          rw [k2] at q1; injection q1 with q1; subst q1
          rw [m2] at r1; injection r1 with r1; subst r1
          have hd_eq : hdx = hdy := by rw [hdst, r2] at q2; injection q2 with q2; exact q2.symm
          subst hd_eq
          have oka := U_treeOk G.ginv k1 hma k2 q2 (hcc x hxC ma (by rw [possOf_eq k1]; exact hma)) hain
          have okb := U_treeOk G.ginv m1 hmb m2 r2 (hcc' y hyC mb (by rw [possOf_eq m1]; exact hmb)) hbin
          have la := treeOk_yield_len oka
          have lb := treeOk_yield_len okb
          have hy_eq := hab.yield
          have hlevel : hsx.frontier = hsy.frontier := by rw [← la, ← lb, hy_eq]
          have hstate : hsx.state = hsy.state := by
            rw [k4] at trx; rw [m4, ← hXY] at try_
            exact G.transDet _ _ _ _ trx try_
          have hsrc : ex.src = ey.src := G.hfun _ _ hsx hsy k2 m2 hlevel hstate
          exact hxy (G.edgeUniq x y ex ey k1 m1 hsrc hdst)

end Rustemo.Glr
