import Rustemo.Model.Cli
/-!
# C17: when the `HashMap` iteration order of `make_choices_name_unique` cannot leak

`makeUnique order cs = closedForm cs` for every enumeration `order` of the keys, provided no
duplicated name with an occurrence index appended equals another duplicated name (`NoClash`).
The proof runs the fold with the invariant "the names in `done` have been renamed exactly as the
closed form renames them, all others are untouched" (`stage`).
-/
namespace Rustemo.Types

/-- hypothesis of the order-freeness theorem, the negation of `clash` -/
def NoClash (all : List String) : Prop :=
  ∀ n m k, 1 < all.count n → 1 < all.count m → 1 ≤ k → k ≤ all.count n → n ++ toString k ≠ m

/-- the list after exactly the names in `done` have been processed -/
def stage (done all : List String) : List String → List String → List String
  | _, [] => []
  | seen, c :: cs =>
    (if c ∈ done ∧ 1 < all.count c then c ++ toString (seen.count c + 1) else c)
      :: stage done all (c :: seen) cs

theorem stage_nil (all : List String) : ∀ cs seen, stage [] all seen cs = cs := by
  intro cs
  induction cs with
  | nil => intro seen; rfl
  | cons c cs ih => intro seen; simp [stage, ih]

theorem stage_congr (d₁ d₂ all : List String) :
    ∀ cs seen, (∀ c ∈ cs, 1 < all.count c → (c ∈ d₁ ↔ c ∈ d₂)) →
      stage d₁ all seen cs = stage d₂ all seen cs := by
  intro cs
  induction cs with
  | nil => intro seen _; rfl
  | cons c cs ih =>
    intro seen h
    have hc := h c (by simp)
    have ih' := ih (c :: seen) (fun x hx => h x (by simp [hx]))
    simp only [stage, ih']
    by_cases hd : 1 < all.count c
    · have := hc hd
      simp [hd, this]
    · simp [hd]

theorem stage_all_eq_closed (d all : List String) :
    ∀ cs seen, (∀ c ∈ cs, 1 < all.count c → c ∈ d) → stage d all seen cs = closedAux all seen cs := by
  intro cs
  induction cs with
  | nil => intro seen _; rfl
  | cons c cs ih =>
    intro seen h
    have ih' := ih (c :: seen) (fun x hx => h x (by simp [hx]))
    simp only [stage, closedAux, ih']
    by_cases hd : 1 < all.count c
    · simp [hd, h c (by simp) hd]
    · simp [hd]

/-- processing one more key `n` moves the invariant from `done` to `n :: done` -/
theorem rename_stage (all : List String) (n : String) (done : List String)
    (hn : n ∉ done) (hdup : 1 < all.count n) (hnc : NoClash all) :
    ∀ cs seen, (∀ x, seen.count x + cs.count x = all.count x) →
      renameAux n (seen.count n) (stage done all seen cs) = stage (n :: done) all seen cs := by
  intro cs
  induction cs with
  | nil => intro seen _; rfl
  | cons c cs ih =>
    intro seen hcount
    have hcount' : ∀ x, (c :: seen).count x + cs.count x = all.count x := by
      intro x
      have := hcount x
      simp only [List.count_cons] at this ⊢
      omega
    have ih' := ih (c :: seen) hcount'
    by_cases hcn : c = n
    · -- the head is an occurrence of `n`: untouched so far, renamed now
      subst hcn
      have e1 : (c :: seen).count c = seen.count c + 1 := by simp
      simp only [stage, hn, false_and, if_false, renameAux, if_true, e1] at ih' ⊢
      rw [ih']
      simp [hdup]
    · have hne : (c :: seen).count n = seen.count n := by
        simp only [List.count_cons]
        have : (c == n) = false := by simpa using hcn
        simp [this]
      rw [hne] at ih'
      by_cases hren : c ∈ done ∧ 1 < all.count c
      · -- the head was renamed earlier; its new name must not be mistaken for `n`
        have hk : seen.count c + 1 ≤ all.count c := by
          have := hcount c
          simp only [List.count_cons_self] at this
          omega
        have hclash : c ++ toString (seen.count c + 1) ≠ n :=
          hnc c n (seen.count c + 1) hren.2 hdup (by omega) hk
        have hmem : c ∈ n :: done := by simp [hren.1]
        simp only [stage, hren, and_self, if_true, renameAux, hclash, if_false, ih', hmem]
      · have hmem : ¬ (c ∈ n :: done ∧ 1 < all.count c) := by
          intro h
          apply hren
          refine ⟨?_, h.2⟩
          rcases List.mem_cons.mp h.1 with h1 | h1
          · exact absurd h1 hcn
          · exact h1
        simp only [stage, hren, if_false, renameAux, hcn, ih', hmem]

/-- the fold over any duplicate-free list of duplicated names not yet processed -/
theorem fold_stage (all : List String) (hnc : NoClash all) :
    ∀ (ns done : List String), ns.Nodup → (∀ n ∈ ns, n ∉ done ∧ 1 < all.count n) →
      ns.foldl (fun acc n => renameGroup n acc) (stage done all [] all)
        = stage (ns.reverse ++ done) all [] all := by
  intro ns
  induction ns with
  | nil => intro done _ _; simp
  | cons n ns ih =>
    intro done hnd h
    have hn := h n (by simp)
    have hstep : renameGroup n (stage done all [] all) = stage (n :: done) all [] all := by
      have := rename_stage all n done hn.1 hn.2 hnc all [] (by intro x; simp)
      simpa [renameGroup] using this
    rw [List.foldl_cons, hstep]
    have hnd' := (List.nodup_cons.mp hnd)
    rw [ih (n :: done) hnd'.2]
    · simp
    · intro m hm
      refine ⟨?_, (h m (by simp [hm])).2⟩
      intro hmem
      rcases List.mem_cons.mp hmem with h1 | h1
      · exact hnd'.1 (h1 ▸ hm)
      · exact (h m (by simp [hm])).1 h1

/-- Under `NoClash` every key order yields the closed form. -/
theorem makeUnique_eq_closedForm (order cs : List String) (hk : KeyOrder order cs) (hnc : NoClash cs) :
    makeUnique order cs = closedForm cs := by
  unfold makeUnique closedForm
  have h0 : stage [] cs [] cs = cs := stage_nil cs cs []
  have hnd : (order.filter fun n => decide (1 < cs.count n)).Nodup := hk.1.filter _
  have := fold_stage cs hnc (order.filter fun n => decide (1 < cs.count n)) [] hnd
    (by intro n hn; simp at hn; exact ⟨by simp, hn.2⟩)
  rw [h0] at this
  rw [this]
  apply stage_all_eq_closed
  intro c hc hd
  simp only [List.append_nil, List.mem_reverse, List.mem_filter, decide_eq_true_eq]
  exact ⟨hk.2.2 c hc, hd⟩

/-- `clash` decides the negation of `NoClash`. -/
theorem clash_false_iff (cs : List String) : clash cs = false ↔ NoClash cs := by
  unfold clash NoClash
  constructor
  · intro h n m k hn hm hk1 hk2 heq
    have hmem : n ∈ cs := List.count_pos_iff.mp (by omega)
    have : cs.any (fun n => decide (1 < cs.count n) &&
        (List.range (cs.count n)).any fun k => decide (1 < cs.count (n ++ toString (k + 1)))) = true := by
      rw [List.any_eq_true]
      refine ⟨n, hmem, ?_⟩
      simp only [Bool.and_eq_true, decide_eq_true_eq, List.any_eq_true, List.mem_range]
      refine ⟨hn, k - 1, by omega, ?_⟩
      have : k - 1 + 1 = k := by omega
      rw [this, heq]
      exact hm
    rw [h] at this
    exact Bool.noConfusion this
  · intro h
    rw [Bool.eq_false_iff]
    intro hany
    rw [List.any_eq_true] at hany
    obtain ⟨n, _, hn⟩ := hany
    simp only [Bool.and_eq_true, decide_eq_true_eq, List.any_eq_true, List.mem_range] at hn
    obtain ⟨hdup, k, hk, hm⟩ := hn
    exact h n (n ++ toString (k + 1)) (k + 1) hdup hm (by omega) (by omega) rfl

end Rustemo.Types
