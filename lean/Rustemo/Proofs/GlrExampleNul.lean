import Rustemo.Proofs.GlrCompleteDefs
import Rustemo.Proofs.GlrExample
/-!
# `S: Ta A; A: B | C; B: EMPTY; C: EMPTY` — two derivations that differ only below an empty-yield child

The real LALR_RN table (generated from the hook's dump).  On the input `a` the engine returns TWO trees,
`S(a, A(B))` and `S(a, A(C))`: two different derivations, both correct.  They are equal under the coarse relation
`Tree.EqElide` (which identifies ANY two empty-yield tails), so "different indices are never `EqElide`" is false;
the no-duplicates statement has to use "elisions of ONE full derivation tree" (`Tree.SameDerivation`).
-/
namespace Rustemo.Glr.ExampleNul
open Rustemo Rustemo.Glr

/-- terminals STOP(0) Ta(1); nonterminals EMPTY(2) AUG(3) S(4) A(5) B(6) C(7);
    productions 0: AUG→S, 1: S→Ta A, 2: A→B, 3: A→C, 4: B→ε, 5: C→ε -/
def g : Grammar :=
  { nterms := 2, nnonterms := 6,
    prods := #[{ lhs := 3, rhs := [4] }, { lhs := 4, rhs := [1, 5] }, { lhs := 5, rhs := [6] }, { lhs := 5, rhs := [7] },
      { lhs := 6, rhs := [] }, { lhs := 7, rhs := [] }],
    emptyIdx := 2, augIdx := 3, startIdx := 4 }

def t : Table :=
  { states := #[
      { symbol := 3, items := [⟨0, 0, [0]⟩, ⟨1, 0, [0]⟩],
        actions := #[[], [.shift 1]], gotos := #[none, none, some 2, none, none, none], sorted := [(1, true)] },
      { symbol := 1, items := [⟨1, 1, [0]⟩, ⟨2, 0, [0]⟩, ⟨3, 0, [0]⟩, ⟨4, 0, [0]⟩, ⟨5, 0, [0]⟩],
        actions := #[[.reduce 1 1, .reduce 2 0, .reduce 3 0, .reduce 4 0, .reduce 5 0], []],
        gotos := #[none, none, none, some 3, some 4, some 5], sorted := [(0, false)] },
      { symbol := 4, items := [⟨0, 1, [0]⟩],
        actions := #[[.accept], []], gotos := #[none, none, none, none, none, none], sorted := [(0, false)] },
      { symbol := 5, items := [⟨1, 2, [0]⟩],
        actions := #[[.reduce 1 2], []], gotos := #[none, none, none, none, none, none], sorted := [(0, false)] },
      { symbol := 6, items := [⟨2, 1, [0]⟩],
        actions := #[[.reduce 2 1], []], gotos := #[none, none, none, none, none, none], sorted := [(0, false)] },
      { symbol := 7, items := [⟨3, 1, [0]⟩],
        actions := #[[.reduce 3 1], []], gotos := #[none, none, none, none, none, none], sorted := [(0, false)] }] }

/-- the input `a` -/
def env : Env := { g := g, t := t, input := [97], recog := Example.recogA 1 }

/- executable `EqElide` -/
mutual
def eqElideB : Tree → Tree → Bool
  | .leaf a _ _ _, t2 =>
    match t2 with
    | .leaf b _ _ _ => a == b
    | .node _ _ _ _ => false
  | .node p _ _ cs, t2 =>
    match t2 with
    | .leaf _ _ _ _ => false
    | .node q _ _ ds => p == q && eqElideListB cs ds
def eqElideListB : TreeList → TreeList → Bool
  | .nil, ds => ds.yield.isEmpty
  | .cons c cs, ds =>
    ((c.yield ++ cs.yield).isEmpty && ds.yield.isEmpty) ||
    (match ds with
     | .nil => false
     | .cons d ds' => eqElideB c d && eqElideListB cs ds')
end

mutual
theorem eqElideB_sound : ∀ (a b : Tree), eqElideB a b = true → Tree.EqElide a b
  | .leaf a _ _ _, .leaf b _ _ _, h => by simpa [eqElideB, Tree.EqElide] using h
  | .leaf a _ _ _, .node _ _ _ _, h => by simp [eqElideB] at h
  | .node p _ _ cs, .leaf _ _ _ _, h => by simp [eqElideB] at h
  | .node p _ _ cs, .node q _ _ ds, h => by
    simp only [eqElideB, Bool.and_eq_true, beq_iff_eq] at h
    simp only [Tree.EqElide]
    exact ⟨h.1, eqElideListB_sound cs ds h.2⟩
theorem eqElideListB_sound : ∀ (a b : TreeList), eqElideListB a b = true → TreeList.EqElide a b
  | .nil, ds, h => by simpa [eqElideListB, TreeList.EqElide] using h
  | .cons c cs, .nil, h => by
    simp only [eqElideListB, Bool.or_false, Bool.and_eq_true, List.isEmpty_iff] at h
    simp only [TreeList.EqElide]
    exact Or.inl h
  | .cons c cs, .cons d ds, h => by
    simp only [eqElideListB, Bool.or_eq_true, Bool.and_eq_true, List.isEmpty_iff] at h
    simp only [TreeList.EqElide]
    rcases h with h | h
    · exact Or.inl h
    · exact Or.inr ⟨eqElideB_sound c d h.1, eqElideListB_sound cs ds h.2⟩
end

/-- the result has (at least) the two trees of index 0 and 1, and they are `EqElide` -/
def dupWitness (o : Outcome GlrResult) : Bool :=
  match o with
  | .ok r =>
    (match r.getTree 0, r.getTree 1 with
     | some a, some b => eqElideB a b
     | _, _ => false)
  | _ => false

theorem dupWitness_run : dupWitness (parse env false 9) = true := by decide +kernel

end Rustemo.Glr.ExampleNul
