import Rustemo.Model.CertComplete
import Rustemo.Proofs.CoreSound
/-!
# nullable / FIRST tables that pass `Cert.firstOk` over-approximate the semantic notions

If a valid tree for `X` has an empty yield then `X` is in the nullable list; if its yield starts with
`b` then `b` is in the FIRST list of `X` (or `b = X` for a terminal).  By mutual structural
recursion on trees.
-/
namespace Rustemo

theorem firstOk_prod {g : Grammar} {c : Canon.Ctx} (h : Cert.firstOk g c = true) {p : Nat} {pr : Prod}
    (hp : g.prods[p]? = some pr) :
    ((∀ X ∈ pr.rhs, c.nul.contains X = true) → c.nul.contains pr.lhs = true) ∧
    (∀ b ∈ Canon.firstOfSeq g c.nul c.first pr.rhs, (c.first pr.lhs).contains b = true) := by
  unfold Cert.firstOk at h
  rw [List.all_eq_true] at h
  have hm : pr ∈ g.prods.toList := by
    rw [Array.mem_toList_iff]
    exact Array.mem_of_getElem? hp
  have := h pr hm
  simp only [Bool.and_eq_true, Bool.or_eq_true, Bool.not_eq_true', List.all_eq_true] at this
  refine ⟨?_, this.2⟩
  intro hall
  rcases this.1 with h1 | h1
  · rw [← Bool.not_eq_true, List.all_eq_true] at h1
    exact absurd hall h1
  · exact h1

mutual
theorem tree_nullable (g : Grammar) (c : Canon.Ctx) (h : Cert.firstOk g c = true) :
    ∀ (t : Tree) (X : Nat), t.Valid g X → t.yield = [] → c.nul.contains X = true
  | .leaf a _ _ _, X, _, hy => by simp [Tree.yield] at hy
  | .node p _ _ cs, X, hv, hy => by
    obtain ⟨pr, hpr, hlhs, hcs⟩ := hv
    rw [← hlhs]
    apply (firstOk_prod h hpr).1
    exact treelist_nullable g c h cs pr.rhs hcs (by simpa [Tree.yield] using hy)
theorem treelist_nullable (g : Grammar) (c : Canon.Ctx) (h : Cert.firstOk g c = true) :
    ∀ (ts : TreeList) (Xs : List Nat), ts.Valid g Xs → ts.yield = [] →
      ∀ X ∈ Xs, c.nul.contains X = true
  | .nil, Xs, hv, _ => by
    simp only [TreeList.Valid] at hv; subst hv; intro X hX; simp at hX
  | .cons t ts, Xs, hv, hy => by
    obtain ⟨Y, Xs', rfl, hvt, hvts⟩ := hv
    simp only [TreeList.yield, List.append_eq_nil_iff] at hy
    intro X hX
    rcases List.mem_cons.mp hX with h1 | h1
    · subst h1; exact tree_nullable g c h t _ hvt hy.1
    · exact treelist_nullable g c h ts Xs' hvts hy.2 X h1
end

theorem firstOfSeq_cons (g : Grammar) (nul : List Nat) (fs : Nat → List Nat) (X : Nat) (rest : List Nat) :
    Canon.firstOfSeq g nul fs (X :: rest) =
      (if X < g.nterms then [X] else fs X) ++
        (if nul.contains X then Canon.firstOfSeq g nul fs rest else []) := by
  simp only [Canon.firstOfSeq]
  split <;> simp

mutual
theorem tree_first (g : Grammar) (c : Canon.Ctx) (h : Cert.firstOk g c = true)
    (hnt : ∀ (p : Nat) (pr : Prod), g.prods[p]? = some pr → g.nterms ≤ pr.lhs) :
    ∀ (t : Tree) (X : Nat) (b : Nat) (rest : List Nat), t.Valid g X → t.yield = b :: rest →
      b ∈ (if X < g.nterms then [X] else c.first X)
  | .leaf a _ _ _, X, b, rest, hv, hy => by
    obtain ⟨rfl, hlt⟩ := hv
    simp only [Tree.yield, List.cons.injEq] at hy
    rw [← hy.1]
    simp [hlt]
  | .node p _ _ cs, X, b, rest, hv, hy => by
    obtain ⟨pr, hpr, hlhs, hcs⟩ := hv
    have hb := treelist_first g c h hnt cs pr.rhs b rest hcs (by simpa [Tree.yield] using hy)
    have := (firstOk_prod h hpr).2 b hb
    rw [← hlhs]
    have hlt : ¬ pr.lhs < g.nterms := by have := hnt p pr hpr; omega
    simp only [hlt, ↓reduceIte]
    simpa using this
theorem treelist_first (g : Grammar) (c : Canon.Ctx) (h : Cert.firstOk g c = true)
    (hnt : ∀ (p : Nat) (pr : Prod), g.prods[p]? = some pr → g.nterms ≤ pr.lhs) :
    ∀ (ts : TreeList) (Xs : List Nat) (b : Nat) (rest : List Nat), ts.Valid g Xs →
      ts.yield = b :: rest → b ∈ Canon.firstOfSeq g c.nul c.first Xs
  | .nil, Xs, b, rest, _, hy => by simp [TreeList.yield] at hy
  | .cons t ts, Xs, b, rest, hv, hy => by
    obtain ⟨Y, Xs', rfl, hvt, hvts⟩ := hv
    rw [firstOfSeq_cons]
    simp only [TreeList.yield] at hy
    cases hty : t.yield with
    | nil =>
      rw [hty] at hy
      have hn := tree_nullable g c h t Y hvt hty
      simp only [hn, ↓reduceIte, List.mem_append]
      right
      exact treelist_first g c h hnt ts Xs' b rest hvts (by simpa using hy)
    | cons b' rest' =>
      rw [hty] at hy
      simp only [List.cons_append, List.cons.injEq] at hy
      have := tree_first g c h hnt t Y b' rest' hvt hty
      rw [hy.1] at this
      simp only [List.mem_append]
      left
      exact this
end

end Rustemo
