import Rustemo.Proofs.TableInvC
/-!
# Table construction: `calc_states` establishes the completeness side `InvC`
-/
namespace Rustemo.Table

variable {g : Grammar} {fs : Array (List Nat)} {tt : String} {rn : Option (Array Nat)}

theorem newStates_sorted (g : Grammar) (items : List Item) :
    (newStates g items).Pairwise (fun a b => a.1 < b.1) := by
  unfold newStates
  exact List.Pairwise.map _ (fun a b h => h) (perNextSymbol_sorted g items)

/-- the loop invariant of the `for mut new_state in new_states` loop: the successors in `pre` are done -/
structure LinkC (g : Grammar) (cur : Nat) (items : List Item) (rest : List (Nat × List Item))
    (sts : Array State) : Prop where
  invc : InvC g cur (cur + 1) sts
  ex : ∃ stc pre, sts[cur]? = some stc ∧ stc.items.map core = items.map core ∧
    pre ++ rest = newStates g items ∧
    (∀ e ∈ pre, ∃ s', HasTrans g stc e.1 s' ∧ ∃ st', sts[s']? = some st' ∧ ∀ n ∈ e.2, core n ∈ st'.items.map core) ∧
    (∀ a, (∀ e ∈ pre, e.1 ≠ a) → stc.actions.getD a [] = []) ∧
    (∀ j, (∀ e ∈ pre, e.1 ≠ g.nterms + j) → stc.gotos.getD j none = none)

theorem LinkC.step {cur : Nat} {items : List Item} {e : Nat × List Item} {rest : List (Nat × List Item)}
    {sts sts2 : Array State} (hJ : LinkC g cur items (e :: rest) sts) (hn : NewOk g items e.1 e.2)
    (haug : ∀ it ∈ items, it.prod = 0 → 0 ∈ it.la) (hstep : LinkStep g tt rn cur e.1 e.2 sts sts2) :
    LinkC g cur items rest sts2 := by
  obtain ⟨stc0, pre, c1, c2, c3, d1, d2, d3⟩ := hJ.ex
  have hcl := lt_size_of_getElem? c1
  -- keys are distinct: `e` is not in `pre`
  have hkeys : ∀ e' ∈ pre, e'.1 ≠ e.1 := by
    have := newStates_sorted g items
    rw [← c3] at this
    intro e' he'
    have := (List.pairwise_append.mp this).2.2 e' he' e List.mem_cons_self
    omega
  -- an item of the current state with `e.1` right of the dot
  have hsrc : ∃ c ∈ items.map core, g.rhsAt c.1 c.2 = some e.1 := by
    cases hl : e.2 with
    | nil => exact absurd hl hn.ne
    | cons n ns =>
      obtain ⟨src, s1, s2, _⟩ := hn.succ n (by rw [hl]; exact List.mem_cons_self)
      exact ⟨core src, List.mem_map.mpr ⟨src, s1, rfl⟩, s2⟩
  have hnaug : ∀ n ∈ e.2, n.prod = 0 → 0 ∈ n.la := by
    intro n hn' hp
    -- `n` is an advanced item of `items`: same production, same lookaheads
    have : ∃ its : List Item, e.2 = its.map advance ∧ ∀ src ∈ its, src ∈ items := by
      have hmem : e ∈ newStates g items := by rw [← c3]; exact List.mem_append_right _ List.mem_cons_self
      obtain ⟨its, i1, _, i3⟩ := newStates_mem hmem
      exact ⟨its, i1, fun src hs => by rw [i3] at hs; exact (List.mem_filter.mp hs).1⟩
    obtain ⟨its, i1, i2⟩ := this
    rw [i1] at hn'
    obtain ⟨src, s1, rfl⟩ := List.mem_map.mp hn'
    exact haug src (i2 src s1) hp
  -- what remains to be shown once the target and the intermediate array are known
  have finish : ∀ (sts1 : Array State) (stc stc' : State) (tgt : Nat), InvC g cur (cur + 1) sts1 →
      sts1[cur]? = some stc → stc.items.map core = items.map core → stc.actions = stc0.actions →
      stc.gotos = stc0.gotos →
      (∀ e' ∈ pre, ∃ s', HasTrans g stc e'.1 s' ∧ ∃ st', sts1[s']? = some st' ∧ ∀ n ∈ e'.2, core n ∈ st'.items.map core) →
      (∃ st', sts1[tgt]? = some st' ∧ ∀ n ∈ e.2, core n ∈ st'.items.map core) →
      addTrans g stc e.1 tgt = .ok stc' → sts2 = sts1.setIfInBounds cur stc' → LinkC g cur items rest sts2 := by
    intro sts1 stc stc' tgt hI1 hc1 hcores hact hgot hd1 htgt hadd hs2
    obtain ⟨a1, _, _, _, a5, a6⟩ := addTrans_ok hadd
    have hst := hI1.st cur stc hc1
    have hstc' : StC g stc' := by
      refine ⟨?_, ?_, by rw [a1]; exact hst.aug0⟩
      · intro a s' hs
        rw [a5] at hs
        by_cases hc : e.1 < g.nterms ∧ a = e.1
        · rw [if_pos hc] at hs
          obtain ⟨c, cc1, cc2⟩ := hsrc
          exact ⟨c, by rw [a1, hcores]; exact cc1, by rw [hc.2]; exact cc2⟩
        · rw [if_neg hc] at hs
          rw [a1]; exact hst.cellsound a s' hs
      · intro a
        rw [a5]
        by_cases hc : e.1 < g.nterms ∧ a = e.1
        · rw [if_pos hc, hact, d2 a (fun e' he' => by rw [hc.2]; exact hkeys e' he')]
          simp
        · rw [if_neg hc]; exact hst.cell1 a
    have hI2 : InvC g cur (cur + 1) (sts1.setIfInBounds cur stc') :=
      hI1.link (Nat.le_refl _) (Nat.lt_succ_self _) hc1 a1 hstc'
    -- states of the new array keep their items
    have hkeep : ∀ (s' : Nat) (st' : State), sts1[s']? = some st' →
        ∃ st'', (sts1.setIfInBounds cur stc')[s']? = some st'' ∧ st''.items = st'.items := by
      intro s' st' hs'
      by_cases hcs : cur = s'
      · refine ⟨stc', by rw [get_upd hc1, if_pos hcs], ?_⟩
        rw [← hcs, hc1] at hs'
        simp only [Option.some.injEq] at hs'
        subst hs'; exact a1
      · exact ⟨st', by rw [get_upd hc1, if_neg hcs]; exact hs', rfl⟩
    subst hs2
    refine ⟨hI2, stc', pre ++ [e], by rw [get_upd hc1, if_pos rfl], by rw [a1]; exact hcores,
      by rw [← c3]; simp, ?_, ?_, ?_⟩
    · intro e' he'
      rcases List.mem_append.mp he' with h' | h'
      · obtain ⟨s', t1, st', t2, t3⟩ := hd1 e' h'
        obtain ⟨st'', k1, k2⟩ := hkeep s' st' t2
        exact ⟨s', addTrans_keeps hadd t1 (hkeys e' h'), st'', k1, by rw [k2]; exact t3⟩
      · simp only [List.mem_singleton] at h'
        subst h'
        obtain ⟨st', t2, t3⟩ := htgt
        obtain ⟨st'', k1, k2⟩ := hkeep tgt st' t2
        exact ⟨tgt, addTrans_new hadd, st'', k1, by rw [k2]; exact t3⟩
    · intro a ha
      have hne : a ≠ e.1 := fun h => ha e (List.mem_append_right _ List.mem_cons_self) h.symm
      rw [a5, if_neg (fun hc => hne hc.2), hact]
      exact d2 a (fun e' he' => ha e' (List.mem_append_left _ he'))
    · intro j hj
      have hne : g.nterms + j ≠ e.1 := fun h => hj e (List.mem_append_right _ List.mem_cons_self) h.symm
      rw [a6, if_neg (fun hc => hne (by omega)), hgot]
      exact d3 j (fun e' he' => hj e' (List.mem_append_left _ he'))
  cases hstep with
  | merge i st items' stc stc' h1 h2 h3 h4 h5 =>
    have hgr := mergeState_grown h2
    have heq := (mergeState_some h2).1
    have hI1 : InvC g cur (cur + 1) (setItems sts i items') := hJ.invc.setItems_grown h1 hgr
    -- states of the intermediate array: same entries, same cores
    have hkeep : ∀ (s' : Nat) (st' : State), sts[s']? = some st' →
        ∃ st'', (setItems sts i items')[s']? = some st'' ∧ st''.items.map core = st'.items.map core ∧
          st''.actions = st'.actions ∧ st''.gotos = st'.gotos := by
      intro s' st' hs'
      rw [getElem?_setItems]
      by_cases his : i = s'
      · rw [if_pos his, hs']
        refine ⟨_, rfl, ?_, rfl, rfl⟩
        rw [← his, h1] at hs'
        simp only [Option.some.injEq] at hs'
        subst hs'
        exact hgr.cores
      · rw [if_neg his]; exact ⟨st', hs', rfl, rfl, rfl⟩
    obtain ⟨stc1, k1, k2, k3, k4⟩ := hkeep cur stc0 c1
    rw [k1] at h3
    simp only [Option.some.injEq] at h3
    subst h3
    apply finish (setItems sts i items') stc1 stc' i hI1 k1 (by rw [k2]; exact c2) k3 k4 _ _ h4 h5
    · intro e' he'
      obtain ⟨s', t1, st', t2, t3⟩ := d1 e' he'
      obtain ⟨st'', m1, m2, _, _⟩ := hkeep s' st' t2
      refine ⟨s', ?_, st'', m1, by rw [m2]; exact t3⟩
      unfold HasTrans at t1 ⊢
      rw [k3, k4]; exact t1
    · obtain ⟨st'', m1, m2, _, _⟩ := hkeep i st h1
      exact ⟨st'', m1, by rw [m2]; exact stateEq_new_cores heq hn.dot⟩
  | push stc stc' h3 h4 h5 =>
    rw [c1] at h3
    simp only [Option.some.injEq] at h3
    subst h3
    have hI1 : InvC g cur (cur + 1) (sts.push (freshState g e.1 e.2)) :=
      hJ.invc.push (by omega) (by omega) hnaug
    have hget : ∀ (s' : Nat) (st' : State), sts[s']? = some st' →
        (sts.push (freshState g e.1 e.2))[s']? = some st' := by
      intro s' st' hs'
      rw [Array.getElem?_push, if_neg (by have := lt_size_of_getElem? hs'; omega)]
      exact hs'
    apply finish _ stc0 stc' sts.size hI1 (hget cur stc0 c1) c2 rfl rfl _ _ h4 h5
    · intro e' he'
      obtain ⟨s', t1, st', t2, t3⟩ := d1 e' he'
      exact ⟨s', t1, st', hget s' st' t2, t3⟩
    · exact ⟨freshState g e.1 e.2, by rw [Array.getElem?_push, if_pos rfl],
        fun n hn' => List.mem_map.mpr ⟨n, hn', rfl⟩⟩

end Rustemo.Table
