import Rustemo.Proofs.GlrCompleteCert
/-!
# Liveness: a state that holds an item whose rest can start with `a` has an action on `a`

Needed because the reducer skips a reduction whose goto state has no action for the lookahead
(`parser.rs`: "No actions for new state … Skipping"): on a derivation that continues, that never happens.
-/
namespace Rustemo

theorem head_append_singleton (l m : List Nat) (b : Nat) :
    ((l ++ m) ++ [b]).head? = (l ++ [((m ++ [b]).head?).getD b]).head? := by
  cases l with
  | nil => cases m <;> simp
  | cons x xs => simp

mutual
theorem live_tree {g : Grammar} {t : Table} (hC : CompleteRN g t) (hW : GWF g) :
    ∀ (c : Tree) (Y : Nat), c.Valid g Y → ∀ (s q d b : Nat) (pr : Prod) (la a : Nat), t.hasItemLA s q d b →
      g.prods[q]? = some pr → pr.rhs[d]? = some Y → FirstOf g (pr.rhs.drop (d+1)) b la →
      (c.yield ++ [la]).head? = some a → t.cell s a ≠ []
  | .leaf k sp v l, Y, hv, s, q, d, b, pr, la, a, hi, hpr, hY, _, ha => by
    obtain ⟨rfl, hterm⟩ := hv
    simp only [Tree.yield, List.cons_append, List.head?_cons, Option.some.injEq] at ha
    subst ha
    obtain ⟨s', htr, _⟩ := hC.trans _ q d b pr k hi hpr hY
    unfold Table.trans at htr
    simp only [hterm, ↓reduceIte] at htr
    intro hnil; rw [hnil] at htr; simp at htr
  | .node p sp l cs, Y, hv, s, q, d, b, pr, la, a, hi, hpr, hY, hfirst, ha => by
    obtain ⟨pr', hpr', hlhs, hcs⟩ := hv
    have hYnt : g.nterms ≤ Y := hlhs ▸ hW.lhs_nonterm p pr' hpr'
    have hi0 := hC.closure _ q d b pr Y hi hpr hY hYnt p pr' hpr' hlhs la hfirst
    have haug : g.isAug p = false :=
      hC.rhs_not_aug q p pr pr' hpr hpr' (by rw [hlhs]; exact List.mem_of_getElem? hY)
    exact live_list hC hW cs pr'.rhs hcs s p 0 la pr' a hi0 hpr' (by simp) (fun h => by rw [haug] at h; simp at h)
      (by simpa [Tree.yield] using ha)
theorem live_list {g : Grammar} {t : Table} (hC : CompleteRN g t) (hW : GWF g) :
    ∀ (ts : TreeList) (Xs : List Nat), ts.Valid g Xs → ∀ (s q d b : Nat) (pr : Prod) (a : Nat), t.hasItemLA s q d b →
      g.prods[q]? = some pr → pr.rhs.drop d = Xs → (g.isAug q = true → b = 0 ∧ d = pr.rhs.length) →
      (ts.yield ++ [b]).head? = some a → t.cell s a ≠ []
  | .nil, Xs, hv, s, q, d, b, pr, a, hi, hpr, hdrop, haug, ha => by
    simp only [TreeList.Valid] at hv
    subst hv
    simp only [TreeList.yield, List.nil_append, List.head?_cons, Option.some.injEq] at ha
    subst ha
    cases hq : g.isAug q with
    | false =>
      have := hC.reduceRN _ q d b pr hpr hi hq (by rw [hdrop]; simp)
      intro hnil; rw [hnil] at this; simp at this
    | true =>
      obtain ⟨hb, hd⟩ := haug hq
      subst hb
      have := hC.accept _ q pr hpr hq (by rw [← hd]; exact hi.toItem)
      intro hnil; rw [hnil] at this; simp at this
  | .cons c cs, Xs, hv, s, q, d, b, pr, a, hi, hpr, hdrop, haug, ha => by
    obtain ⟨Y, Xs', rfl, hvc, hvcs⟩ := hv
    have hY : pr.rhs[d]? = some Y := by
      have := congrArg List.head? hdrop
      simpa [List.head?_drop] using this
    have hdrop' : pr.rhs.drop (d+1) = Xs' := by
      have := congrArg List.tail hdrop
      simpa [List.tail_drop] using this
    have hfirst : FirstOf g (pr.rhs.drop (d+1)) b (((cs.yield ++ [b]).head?).getD b) := by
      refine ⟨cs, hdrop' ▸ hvcs, ?_⟩
      cases hy : cs.yield with
      | nil => simp
      | cons y ys => simp
    apply live_tree hC hW c Y hvc s q d b pr _ a hi hpr hY hfirst
    simp only [TreeList.yield] at ha
    rw [head_append_singleton] at ha
    exact ha
end

end Rustemo
