import Rustemo.Proofs.LexTokSim
import Rustemo.Proofs.ViablePrefix
/-!
# The byte-level LR parser on single-character terminals = the token-level parser

`parse_agree`: for every fuel, the outcome of `LR.parse env false fuel` on the bytes and the results of
`tparse` on the tokens `bytes.map charToTerm` agree: Ok ⟷ accept, `Err(expected …)` at byte offset
`pos` ⟷ error with `|input| - pos` tokens remaining in a state whose `sorted_terminals` are the
reported expected list, panic ⟷ panic, out of fuel ⟷ out of fuel.  The byte-level loop lexes the next
token at the end of an iteration, the token-level one at the beginning of the next: an error shows one
unit of fuel earlier at the byte level, hence the two token-level results (`fuel`, `fuel + 1`).
-/
namespace Rustemo

/-- agreement of a byte-level outcome with the token-level results for the same fuel (`r1`) and one
    more unit (`r2`) -/
def Agree (t : Table) (len : Nat) (o : Outcome ParseResult) (r1 r2 : TResult) : Prop :=
  match o with
  | .ok _ => ∃ tr, r1 = .accept tr
  | .err e => ∃ k s p, e = .expected p ((t.sorted s).map (·.1)) ∧ p.pos + k = len ∧
      r2 = .error k s ∧ (r1 = .fuel ∨ r1 = .error k s)
  | .panic _ => ∃ m, r1 = .panic m
  | .fuel => r1 = .fuel ∧ ∀ k s, r2 ≠ .error k s

theorem tstep_error_of_cell {g : Grammar} {t : Table} {tc : TCfg}
    (h : t.cell (topOf 0 tc.c.stack) (lookahead tc.rest) = []) :
    tstep g t tc = .error tc.rest.length (topOf 0 tc.c.stack) := by
  unfold tstep
  simp [h]

theorem run_sim (env : Env) (he : CharEnv env) (hc : SingleChar env.g env.t) (fuel : Nat) :
    ∀ (n : Nat) (c : Cfg) (tc : TCfg), Sim env c tc →
      Agree env.t env.input.length (runLoop env (nextTokenMain env false fuel) n c).2
        (trun env.g env.t n tc) (trun env.g env.t (n+1) tc) := by
  intro n
  induction n with
  | zero =>
    intro c tc hsim
    have hs := step_sim env he hc fuel c tc hsim
    simp only [runLoop, Agree, trun, true_and]
    intro k s
    cases h : tstep env.g env.t tc with
    | next tc' => simp
    | accept tr => simp
    | panic m => simp
    | error k' s' => rw [h] at hs; exact absurd hs id
  | succ n ih =>
    intro c tc hsim
    have hs := step_sim env he hc fuel c tc hsim
    cases h : tstep env.g env.t tc with
    | next tc' =>
      rw [h] at hs
      obtain ⟨h1, h2⟩ := hs
      have e1 : trun env.g env.t (n+1) tc = trun env.g env.t n tc' := by
        simp only [trun, h]
      have e2 : trun env.g env.t (n+1+1) tc = trun env.g env.t (n+1) tc' := by
        rw [trun]; simp only [h]
      by_cases hcell : env.t.cell (topOf 0 tc'.c.stack) (lookahead tc'.rest) = []
      · obtain ⟨ctx, p, hstep, hp⟩ := h2 hcell
        have he' := tstep_error_of_cell (g := env.g) hcell
        rw [e1, e2]
        simp only [runLoop, hstep, Agree]
        refine ⟨tc'.rest.length, topOf 0 tc'.c.stack, p, rfl, hp, ?_, ?_⟩
        · simp only [trun, he']
        · cases n with
          | zero => left; rfl
          | succ n => right; simp only [trun, he']
      · obtain ⟨c', hstep, hsim'⟩ := h1 hcell
        rw [e1, e2]
        simp only [runLoop, hstep]
        exact ih c' tc' hsim'
    | accept tr =>
      rw [h] at hs
      obtain ⟨ctx, r, hstep⟩ := hs
      simp only [runLoop, hstep, Agree]
      exact ⟨tr, by simp only [trun, h]⟩
    | panic m =>
      rw [h] at hs
      obtain ⟨ctx, m', hstep⟩ := hs
      simp only [runLoop, hstep, Agree]
      exact ⟨m, by simp only [trun, h]⟩
    | error k' s' => rw [h] at hs; exact absurd hs id

/-- the tokens of an input -/
def tokensOf (g : Grammar) (input : List Nat) : List Nat := input.map (charToTerm g)

theorem toksFrom_zero (g : Grammar) (input : List Nat) : toksFrom g input 0 = tokensOf g input := by
  simp [toksFrom, tokensOf]

theorem tokensOf_ne_zero {g : Grammar} {t : Table} (hc : SingleChar g t) (input : List Nat) :
    ∀ x ∈ tokensOf g input, x ≠ 0 := by
  intro x hx
  unfold tokensOf at hx
  rw [List.mem_map] at hx
  obtain ⟨b, _, rfl⟩ := hx
  exact charToTerm_ne_zero hc b

/-- **Simulation theorem**: the byte-level parse and the token-level parse agree, for every fuel. -/
theorem parse_agree (env : Env) (he : CharEnv env) (hc : SingleChar env.g env.t) (fuel : Nat) :
    Agree env.t env.input.length (parse env false fuel).2
      (tparse env.g env.t (tokensOf env.g env.input) fuel)
      (tparse env.g env.t (tokensOf env.g env.input) (fuel + 1)) := by
  have hctx0 : ({} : Ctx).pos.pos = 0 := rfl
  have hst0 : ({} : Ctx).state = 0 := rfl
  obtain ⟨hok, herr⟩ := nt_spec env he hc fuel {} (Nat.zero_le _) (lookahead (tokensOf env.g env.input))
    (by rw [hctx0, toksFrom_zero])
  rw [hst0] at hok herr
  unfold parse parseWith tparse
  simp only
  by_cases hcell : env.t.cell 0 (lookahead (tokensOf env.g env.input)) = []
  · obtain ⟨ctx', hnt⟩ := herr hcell hc.start_range
    rw [hnt]
    simp only [Agree]
    have he' : tstep env.g env.t ⟨⟨[], []⟩, tokensOf env.g env.input⟩ =
        .error (tokensOf env.g env.input).length 0 :=
      tstep_error_of_cell (g := env.g) (tc := ⟨⟨[], []⟩, tokensOf env.g env.input⟩) hcell
    refine ⟨(tokensOf env.g env.input).length, 0, _, rfl, ?_, ?_, ?_⟩
    · simp [tokensOf, Pos.start]
    · simp only [trun, he']
    · cases fuel with
      | zero => left; rfl
      | succ n => right; simp only [trun, he']
  · obtain ⟨ctx', hnt, hpos, hstate, _⟩ := hok hcell
    rw [hnt]
    simp only
    apply run_sim env he hc fuel fuel _ ⟨⟨[], []⟩, tokensOf env.g env.input⟩
    refine ⟨by simp, by simp, ?_, ?_, ?_, ?_, hcell⟩
    · simp only; rw [hstate]; rfl
    · simp only; rw [hpos, hctx0]; exact Nat.zero_le _
    · simp only; rw [hpos, hctx0, toksFrom_zero]
    · simp only; rw [hpos]

/-! ## corollaries -/

theorem agree_ok_iff {t : Table} {len : Nat} {o : Outcome ParseResult} {r1 r2 : TResult}
    (h : Agree t len o r1 r2) : (∃ r, o = .ok r) ↔ ∃ tr, r1 = .accept tr := by
  constructor
  · intro ⟨r, hr⟩; subst hr; exact h
  · intro ⟨tr, htr⟩
    subst htr
    cases o with
    | ok r => exact ⟨r, rfl⟩
    | err e =>
      obtain ⟨k, s, p, _, _, _, h4⟩ := h
      rcases h4 with h4 | h4 <;> simp at h4
    | panic m => obtain ⟨m', hm⟩ := h; simp at hm
    | fuel => simp [Agree] at h

/-- Ok at the byte level iff accept at the token level, for the same fuel -/
theorem bytes_ok_iff (env : Env) (he : CharEnv env) (hc : SingleChar env.g env.t) (fuel : Nat) :
    (∃ ctx r, parse env false fuel = (ctx, .ok r)) ↔
    ∃ tr, tparse env.g env.t (tokensOf env.g env.input) fuel = .accept tr := by
  rw [← agree_ok_iff (parse_agree env he hc fuel)]
  constructor
  · intro ⟨ctx, r, h⟩; exact ⟨r, by rw [h]⟩
  · intro ⟨r, h⟩; exact ⟨(parse env false fuel).1, r, by rw [← h]⟩

/-- an error at the byte level is the token-level error: same position, expected list = the
    `sorted_terminals` of the state the token-level parser reports -/
theorem bytes_err_tokens (env : Env) (he : CharEnv env) (hc : SingleChar env.g env.t) (fuel : Nat)
    (ctx : Ctx) (e : PErr) (h : parse env false fuel = (ctx, .err e)) :
    ∃ k s p, e = .expected p ((env.t.sorted s).map (·.1)) ∧ p.pos + k = env.input.length ∧
      tparse env.g env.t (tokensOf env.g env.input) (fuel + 1) = .error k s := by
  have := parse_agree env he hc fuel
  rw [h] at this
  obtain ⟨k, s, p, h1, h2, h3, _⟩ := this
  exact ⟨k, s, p, h1, h2, h3⟩

/-- a token-level error is the byte-level error -/
theorem tokens_err_bytes (env : Env) (he : CharEnv env) (hc : SingleChar env.g env.t) (fuel k s : Nat)
    (h : tparse env.g env.t (tokensOf env.g env.input) (fuel + 1) = .error k s) :
    ∃ ctx p, parse env false fuel = (ctx, .err (.expected p ((env.t.sorted s).map (·.1)))) ∧
      p.pos + k = env.input.length := by
  have hag := parse_agree env he hc fuel
  cases ho : (parse env false fuel).2 with
  | ok r =>
    rw [ho] at hag
    obtain ⟨tr, htr⟩ := hag
    have := trun_mono_result' env.g env.t fuel _ _ htr (by simp) 1
    unfold tparse at h
    rw [h] at this
    simp at this
  | err e =>
    rw [ho] at hag
    obtain ⟨k', s', p, h1, h2, h3, _⟩ := hag
    rw [h] at h3
    injection h3 with hk hs
    subst hk hs h1
    exact ⟨(parse env false fuel).1, p, by rw [← ho], h2⟩
  | panic m =>
    rw [ho] at hag
    obtain ⟨m', hm⟩ := hag
    have := trun_mono_result' env.g env.t fuel _ _ hm (by simp) 1
    unfold tparse at h
    rw [h] at this
    simp at this
  | fuel =>
    rw [ho] at hag
    exact absurd h (hag.2 k s)

end Rustemo
