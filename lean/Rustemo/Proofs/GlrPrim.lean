import Rustemo.Proofs.GlrInv
/-!
# The graph primitives preserve the GSS invariant
-/
namespace Rustemo.Glr
open Rustemo

theorem isTermNode.mono {g g' : Gss} (hn : ∀ (n : Nat) (nd : SNode), g.nodes[n]? = some nd → g'.nodes[n]? = some nd)
    {n : Nat} (h : isTermNode g n) : isTermNode g' n := by
  obtain ⟨tk, sp, h⟩ := h
  exact ⟨tk, sp, hn n _ h⟩

/-- heads changed compatibly, edges unchanged, nodes only added -/
theorem GInvX.of_ext {env : Env} {g g' : Gss} {x : Option Nat} (h : GInvX env g x) (hx : Ext g g')
    (hheads : ∀ (i : Nat) (hd : Head), g'.heads[i]? = some hd → HeadOk env hd)
    (hedges : g'.edges = g.edges)
    (hnodes : ∀ (n : Nat) (nd : SNode), g.nodes[n]? = some nd → g'.nodes[n]? = some nd)
    (hterm : ∀ (e : Nat) (ed : Edge), g.edges[e]? = some ed → ∀ n ∈ ed.poss, isTermNode g' n → isTermNode g n) :
    GInvX env g' x := by
  constructor
  · exact hheads
  · intro e ed he
    rw [hedges] at he
    exact EdgeOk.ext hx (fun n _ nd hnd => hnodes n nd hnd) (h.edges e ed he)
  · intro e e' ed ed' n he he' hn hn' hnt
    rw [hedges] at he he'
    exact h.uniq e e' ed ed' n he he' hn hn' (fun ht => hnt (ht.mono hnodes))

theorem ext_addHead (g : Gss) (hd : Head) : Ext g (g.addHead hd).1 := by
  constructor
  · intro i hd0 hi
    have hlt := lt_of_getElem?_some hi
    refine ⟨hd0, ?_, rfl, rfl, fun _ h => h⟩
    rw [addHead_heads]
    have : ¬ i = g.heads.size := by omega
    simp [this, hi]
  · intro e ed he
    exact ⟨ed, he, rfl, rfl⟩

theorem GInvX.addHead {env : Env} {g : Gss} {x : Option Nat} (h : GInvX env g x) (hd : Head)
    (hok : HeadOk env hd) : GInvX env (g.addHead hd).1 x := by
  apply h.of_ext (ext_addHead g hd)
  · intro i hd' hi
    rw [addHead_heads] at hi
    split at hi
    · injection hi with hi; subst hi; exact hok
    · exact h.heads i hd' hi
  · rfl
  · intro n nd hn; exact hn
  · intro e ed he n hn ht; exact ht

theorem ext_setHead (g : Gss) (i : Nat) (old hd : Head) (hold : g.heads[i]? = some old)
    (hs : hd.state = old.state) (hf : hd.frontier = old.frontier)
    (ht : ∀ tk, old.tok = some tk → hd.tok = some tk) : Ext g (g.setHead i hd) := by
  constructor
  · intro j hd0 hj
    rw [setHead_heads]
    by_cases hij : i = j
    · subst hij
      rw [hold] at hj; injection hj with hj; subst hj
      have := lt_of_getElem?_some hold
      exact ⟨hd, by simp [this], hs, hf, ht⟩
    · exact ⟨hd0, by simp [hij, hj], rfl, rfl, fun _ h => h⟩
  · intro e ed he
    exact ⟨ed, he, rfl, rfl⟩

theorem GInvX.setHead {env : Env} {g : Gss} {x : Option Nat} (h : GInvX env g x) (i : Nat) (old hd : Head)
    (hold : g.heads[i]? = some old) (hs : hd.state = old.state) (hf : hd.frontier = old.frontier)
    (ht : ∀ tk, old.tok = some tk → hd.tok = some tk) (hok : HeadOk env hd) : GInvX env (g.setHead i hd) x := by
  apply h.of_ext (ext_setHead g i old hd hold hs hf ht)
  · intro j hd' hj
    rw [setHead_heads] at hj
    by_cases hij : i = j
    · subst hij
      have hlt := lt_of_getElem?_some hold
      simp only [hlt, ↓reduceIte] at hj
      injection hj with hj; subst hj
      exact hok
    · simp only [hij, ↓reduceIte] at hj
      exact h.heads j hd' hj
  · rfl
  · intro n nd hn; exact hn
  · intro e ed he n hn ht; exact ht

theorem ext_addNode (g : Gss) (nd : SNode) : Ext g (g.addNode nd).1 :=
  ⟨fun _ hd h => ⟨hd, h, rfl, rfl, fun _ h => h⟩, fun _ ed h => ⟨ed, h, rfl, rfl⟩⟩

theorem addNode_old {g : Gss} {nd : SNode} {n : Nat} {nd' : SNode} (h : g.nodes[n]? = some nd') :
    (g.addNode nd).1.nodes[n]? = some nd' := by
  rw [addNode_nodes]
  have := lt_of_getElem?_some h
  have : ¬ n = g.nodes.size := by omega
  simp [this, h]

theorem GInvX.addNode {env : Env} {g : Gss} {x : Option Nat} (h : GInvX env g x) (nd : SNode) :
    GInvX env (g.addNode nd).1 x := by
  apply h.of_ext (ext_addNode g nd)
  · intro i hd hi; exact h.heads i hd hi
  · rfl
  · intro n nd' hn; exact addNode_old hn
  · intro e ed he n hn ht
    obtain ⟨_, _, _, _, _, hp⟩ := (h.edges e ed he).ends
    obtain ⟨nd', hnd', _⟩ := hp n hn
    obtain ⟨tk, sp, ht⟩ := ht
    rw [addNode_old hnd'] at ht
    injection ht with ht
    exact ⟨tk, sp, by rw [hnd', ht]⟩

theorem ext_addEdge (g : Gss) (s d : Nat) (ps : List Nat) : Ext g (g.addEdge s d ps).1 := by
  constructor
  · intro i hd hi; exact ⟨hd, hi, rfl, rfl, fun _ h => h⟩
  · intro e ed he
    have hlt := lt_of_getElem?_some he
    refine ⟨ed, ?_, rfl, rfl⟩
    rw [addEdge_edges]
    have : ¬ e = g.edges.size := by omega
    simp [this, he]

/-- a new edge whose possibilities (if any) are terminal nodes that fit -/
theorem GInvX.addEdge {env : Env} {g : Gss} (h : GInv env g) (s d : Nat) (ps : List Nat) (hs hd : Head)
    (hhs : g.heads[s]? = some hs) (hhd : g.heads[d]? = some hd)
    (htr : env.t.trans env.g hd.state (env.t.symAt hs.state) hs.state)
    (hps : ∀ n ∈ ps, isTermNode g n ∧ ∃ nd, g.nodes[n]? = some nd ∧ NodeFits env g nd (env.t.symAt hs.state) d hs.frontier) :
    GInvX env (g.addEdge s d ps).1 (if ps = [] then some g.edges.size else none) := by
  have hx := ext_addEdge g s d ps
  constructor
  · intro i hd' hi; exact h.heads i hd' hi
  · intro e ed he
    rw [addEdge_edges] at he
    split at he
    · rename_i heq
      injection he with he; subst he
      refine ⟨⟨hs, hd, hhs, hhd, htr, ?_⟩, ?_⟩
      · intro n hn
        obtain ⟨_, nd, hnd, hfit⟩ := hps n hn
        exact ⟨nd, hnd, NodeFits.ext hx hfit⟩
      · intro hne
        by_cases hp : ps = []
        · simp [hp, heq] at hne
        · exact hp
    · have := h.edges e ed he
      have h2 := EdgeOk.ext hx (fun n _ nd hnd => hnd) this
      exact ⟨h2.ends, fun _ => h2.poss_ne (by simp)⟩
  · intro e e' ed ed' n he he' hn hn' hnt
    rw [addEdge_edges] at he he'
    have hterm : isTermNode (g.addEdge s d ps).1 n = isTermNode g n := rfl
    rw [hterm] at hnt
    split at he <;> split at he'
    · rename_i h1 h2; rw [h1, h2]
    · injection he with he; subst he
      exact absurd (hps n hn).1 hnt
    · injection he' with he'; subst he'
      exact absurd (hps n hn').1 hnt
    · exact h.uniq e e' ed ed' n he he' hn hn' hnt

theorem ext_pushPoss (g : Gss) (e n : Nat) : Ext g (g.pushPoss e n) := by
  constructor
  · intro i hd hi; exact ⟨hd, by simpa using hi, rfl, rfl, fun _ h => h⟩
  · intro e' ed' he'
    cases hed : g.edges[e]? with
    | none =>
      refine ⟨ed', ?_, rfl, rfl⟩
      unfold Gss.pushPoss; rw [hed]; exact he'
    | some ed =>
      rw [pushPoss_edges g e n ed hed]
      by_cases h : e' = e
      · subst h
        rw [hed] at he'; injection he' with he'
        rw [← he']
        exact ⟨{ ed with poss := ed.poss ++ [n] }, by simp, rfl, rfl⟩
      · exact ⟨ed', by simp [h, he'], rfl, rfl⟩

/-- a fresh node that fits is packed onto an edge -/
theorem GInvX.pushPoss {env : Env} {g : Gss} {x : Option Nat} (h : GInvX env g x) (e n : Nat) (ed : Edge)
    (nd : SNode) (hs : Head) (hxe : x = none ∨ x = some e)
    (he : g.edges[e]? = some ed) (hn : g.nodes[n]? = some nd) (hhs : g.heads[ed.src]? = some hs)
    (hfit : NodeFits env g nd (env.t.symAt hs.state) ed.dst hs.frontier)
    (hfresh : ∀ (e' : Nat) (ed' : Edge), g.edges[e']? = some ed' → n ∉ ed'.poss) :
    GInv env (g.pushPoss e n) := by
  have hx := ext_pushPoss g e n
  constructor
  · intro i hd hi; rw [pushPoss_heads] at hi; exact h.heads i hd hi
  · intro e' ed' he'
    rw [pushPoss_edges g e n ed he] at he'
    split at he'
    · rename_i heq; subst heq
      injection he' with he'; subst he'
      have hok := h.edges e' ed he
      obtain ⟨hs0, hd0, hhs0, hhd0, htr, hposs⟩ := hok.ends
      rw [hhs] at hhs0; injection hhs0 with hhs0; subst hhs0
      refine ⟨⟨hs, hd0, by simpa using hhs, by simpa using hhd0, htr, ?_⟩, fun _ => by simp⟩
      intro m hm
      simp only [List.mem_append, List.mem_singleton] at hm
      rcases hm with hm | hm
      · obtain ⟨nd', hnd', hfit'⟩ := hposs m hm
        exact ⟨nd', by simpa using hnd', NodeFits.ext hx hfit'⟩
      · subst hm
        exact ⟨nd, by simpa using hn, NodeFits.ext hx hfit⟩
    · rename_i hne
      have hok := h.edges e' ed' he'
      have h2 := EdgeOk.ext hx (fun n _ nd hnd => by simpa using hnd) hok
      refine ⟨h2.ends, fun _ => h2.poss_ne ?_⟩
      rcases hxe with rfl | rfl
      · simp
      · intro hc; injection hc with hc; exact hne hc.symm
  · intro e1 e2 ed1 ed2 m he1 he2 hm1 hm2 hnt
    have hterm : isTermNode (g.pushPoss e n) m = isTermNode g m := by
      unfold isTermNode; rw [pushPoss_nodes]
    rw [hterm] at hnt
    rw [pushPoss_edges g e n ed he] at he1 he2
    by_cases hmn : m = n
    · subst hmn
      -- the fresh node is only on edge `e`
      have k1 : e1 = e := by
        split at he1
        · assumption
        · exact absurd hm1 (hfresh e1 ed1 he1)
      have k2 : e2 = e := by
        split at he2
        · assumption
        · exact absurd hm2 (hfresh e2 ed2 he2)
      rw [k1, k2]
    · have o1 : ∃ ed1', g.edges[e1]? = some ed1' ∧ m ∈ ed1'.poss := by
        split at he1
        · rename_i heq; subst heq
          injection he1 with he1; subst he1
          simp only [List.mem_append, List.mem_singleton] at hm1
          rcases hm1 with hm1 | hm1
          · exact ⟨ed, he, hm1⟩
          · exact absurd hm1 hmn
        · exact ⟨ed1, he1, hm1⟩
      have o2 : ∃ ed2', g.edges[e2]? = some ed2' ∧ m ∈ ed2'.poss := by
        split at he2
        · rename_i heq; subst heq
          injection he2 with he2; subst he2
          simp only [List.mem_append, List.mem_singleton] at hm2
          rcases hm2 with hm2 | hm2
          · exact ⟨ed, he, hm2⟩
          · exact absurd hm2 hmn
        · exact ⟨ed2, he2, hm2⟩
      obtain ⟨a1, ha1, hma1⟩ := o1
      obtain ⟨a2, ha2, hma2⟩ := o2
      exact h.uniq e1 e2 a1 a2 m ha1 ha2 hma1 hma2 hnt

end Rustemo.Glr
