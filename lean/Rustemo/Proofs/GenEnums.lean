import Rustemo.Proofs.GenWF
/-!
# C08 — enum declaration order = table order; array dimensions
-/
namespace Rustemo
namespace Gen

/-! ## position of a production among the ones that get a `ProdKind` variant -/

theorem idxOf_filter_range (P : Nat → Bool) :
    ∀ (n p : Nat), p < n → P p = true →
      ((List.range n).filter P).idxOf p = ((List.range p).filter P).length
  | 0, _, h, _ => by omega
  | n + 1, p, h, hp => by
    rw [List.range_succ, List.filter_append, List.idxOf_append]
    by_cases hlt : p < n
    · have hm : p ∈ (List.range n).filter P := List.mem_filter.mpr ⟨List.mem_range.mpr hlt, hp⟩
      simp only [hm, if_true]
      exact idxOf_filter_range P n p hlt hp
    · have hpn : p = n := by omega
      subst hpn
      have hm : ¬ p ∈ (List.range p).filter P := by
        intro hm
        have := (List.mem_filter.mp hm).1
        simp at this
      simp [hm, List.filter, hp]

theorem filter_count_range (P : Nat → Bool) (n : Nat) :
    ((List.range n).filter P).length + ((List.range n).filter (fun x => !P x)).length = n := by
  induction n with
  | zero => simp
  | succ n ih =>
    simp only [List.range_succ, List.filter_append, List.length_append]
    cases h : P n <;> simp [List.filter, h] <;> omega

/-- number of AUG/AUGL productions before production `p` -/
def skippedBefore (g : Grammar) (p : Nat) : Nat := ((List.range p).filter (skipped g)).length

/-- the `ProdKind` discriminant of a user production is its index minus the augmented productions
    before it -/
theorem kindIdx_add_skipped {g : Grammar} {p : Nat} (hp : p ∈ userProds g) :
    kindIdx g p + skippedBefore g p = p := by
  obtain ⟨hlt, hsk⟩ := mem_userProds.mp hp
  unfold kindIdx userProds skippedBefore
  rw [idxOf_filter_range (fun p => !skipped g p) g.prods.size p hlt (by simp [hsk])]
  have := filter_count_range (fun p => !skipped g p) p
  simpa using this

theorem userProds_getElem?_kindIdx {g : Grammar} {p : Nat} (hp : p ∈ userProds g) :
    (userProds g)[kindIdx g p]? = some p := by
  obtain ⟨i, hi⟩ := List.mem_iff_getElem?.mp hp
  rw [show kindIdx g p = i from idxOf_getElem? (userProds_nodup g) hi]
  exact hi

theorem kindIdx_inj {g : Grammar} {p q : Nat} (hp : p ∈ userProds g) (hq : q ∈ userProds g)
    (h : kindIdx g p = kindIdx g q) : p = q := by
  have h1 := userProds_getElem?_kindIdx hp
  have h2 := userProds_getElem?_kindIdx hq
  rw [h, h2] at h1
  exact (Option.some.inj h1).symm

/-! ## `impl From<ProdKind> for NonTermKind` -/

theorem prodNt_lt {g : Grammar} {p : Nat} (h : prodOk g p = true) : prodNt g p < g.nnonterms := by
  unfold prodOk at h
  unfold prodNt
  cases hp : g.prods[p]? with
  | none => simp [hp] at h
  | some pr =>
    simp only [hp, Bool.and_eq_true, decide_eq_true_eq] at h
    exact h.2

theorem from_faithful {g : Grammar} {t : Table} (w : WFP g t) {p : Nat} (hp : p ∈ userProds g) :
    (enums g t).fromQ (kindIdx g p) = .ok (prodNt g p) := by
  have hres : (enums g t).fromArms.any (armUnresolved (enums g t).prods) = false := by
    apply List.any_eq_false.mpr
    intro arm harm
    simp only [enums] at harm
    obtain ⟨q, hq, rfl⟩ := List.mem_map.mp harm
    simp [armUnresolved, resolve_prod w hq]
  have hfind : (enums g t).fromArms.find? (armMatches (enums g t).prods (kindIdx g p))
      = some (prodKindName g p, ntName g (prodNt g p)) := by
    apply find?_eq_some_of_unique
    · simp only [enums]
      exact List.mem_map.mpr ⟨p, hp, rfl⟩
    · simp [armMatches, resolve_prod w hp]
    · intro arm harm hm
      simp only [enums] at harm
      obtain ⟨q, hq, rfl⟩ := List.mem_map.mp harm
      have : kindIdx g q = kindIdx g p := by simpa [armMatches, resolve_prod w hq] using hm
      rw [kindIdx_inj hq hp this]
  unfold Enums.fromQ
  simp only [hres, hfind]
  simp [resolve_nonterm w (prodNt_lt (w.prods p hp))]

/-! ## `State::default_layout()` -/

theorem layout_faithful {g : Grammar} {t : Table} (w : WFP g t) :
    (enums g t).layoutQ = .ok t.layoutState := by
  have hl := w.layout
  unfold Enums.layoutQ
  simp only [enums]
  cases h : t.layoutState with
  | none => rfl
  | some s =>
    have hs : s < t.states.size := by simpa [layoutOk, h] using hl
    have := resolve_state w hs
    simp only [enums] at this
    simp [this]

/-! ## variants in table order -/

theorem state_variant {g : Grammar} {t : Table} {s : Nat} (hs : s < t.states.size) :
    (enums g t).states[s]? = some (stateIdent g t s) := by
  simp [enums, List.getElem?_map, List.getElem?_range hs]

theorem token_variant {g : Grammar} {t : Table} (w : WFP g t) {a : Nat} (ha : a < g.nterms) :
    (enums g t).tokens[a]? = some (termName g a) := by
  have ha' : a < g.terms.size := by rw [w.terms]; exact ha
  simp [enums, List.getElem?_map, termName, Array.getElem?_eq_getElem ha']

theorem nonterm_variant {g : Grammar} {t : Table} (w : WFP g t) {n : Nat} (hn : n < g.nnonterms) :
    (enums g t).nonterms[n]? = some (ntName g n) := by
  have hn' : n < g.ntNames.size := by rw [w.nts]; exact hn
  simp [enums, ntName, Array.getD_eq_getD_getElem?, Array.getElem?_eq_getElem hn']

theorem prod_variant {g : Grammar} {t : Table} {p : Nat} (hp : p ∈ userProds g) :
    (enums g t).prods[kindIdx g p]? = some (prodKindName g p) := by
  simp [enums, List.getElem?_map, userProds_getElem?_kindIdx hp]

theorem enum_lengths {g : Grammar} {t : Table} (w : WFP g t) :
    (enums g t).states.length = t.states.size ∧ (enums g t).tokens.length = g.nterms ∧
    (enums g t).nonterms.length = g.nnonterms ∧ (enums g t).prods.length = (userProds g).length := by
  simp [enums, w.terms, w.nts]

/-! ## array dimensions: padding is exact, `max_actions - l` never underflows -/

theorem le_maxActions {t : Table} {st : State} {cell : List Action}
    (hst : st ∈ t.states.toList) (hc : cell ∈ st.actions.toList) : cell.length ≤ maxActions t := by
  unfold maxActions
  have h1 : cell.length ≤ listMax (st.actions.toList.map List.length) :=
    le_listMax _ _ (List.mem_map.mpr ⟨cell, hc, rfl⟩)
  have h2 : listMax (st.actions.toList.map List.length) ≤
      listMax (t.states.toList.map (fun st => listMax (st.actions.toList.map List.length))) :=
    le_listMax _ _ (List.mem_map.mpr ⟨st, hst, rfl⟩)
  exact Nat.le_trans h1 h2

theorem arrCell_length {g : Grammar} {t : Table} {st : State} {cell : List Action}
    (hst : st ∈ t.states.toList) (hc : cell ∈ st.actions.toList) :
    (arrCell g t (maxActions t) cell).length = maxActions t := by
  have := le_maxActions hst hc
  simp [arrCell]
  omega

theorem tokenKindsRow_length {g : Grammar} {t : Table} (w : WFP g t) {st : State}
    (hst : st ∈ t.states.toList) :
    (tokenKindsRow g (maxRecognizers t) st).length = maxRecognizers t := by
  have := (w.states st hst).sortedLen
  simp [tokenKindsRow]
  omega

/-- every array literal of the Arrays layout has exactly the length its type declares -/
theorem arrays_dimensions {g : Grammar} {t : Table} (w : WFP g t) :
    let c := arraysCore g t
    c.actions.length = c.stateCount ∧ c.gotos.length = c.stateCount ∧ c.tokenKinds.length = c.stateCount ∧
    (∀ row ∈ c.actions, row.length = c.terminalCount ∧ ∀ cell ∈ row, cell.length = c.maxActions) ∧
    (∀ row ∈ c.gotos, row.length = c.nonterminalCount) ∧
    (∀ row ∈ c.tokenKinds, row.length = c.maxRecognizers) := by
  refine ⟨by simp [arraysCore], by simp [arraysCore], by simp [arraysCore], ?_, ?_, ?_⟩
  · intro row hrow
    simp only [arraysCore] at hrow ⊢
    obtain ⟨st, hst, rfl⟩ := List.mem_map.mp hrow
    refine ⟨by simp [(w.states st hst).aw], ?_⟩
    intro cell hcell
    obtain ⟨c0, hc0, rfl⟩ := List.mem_map.mp hcell
    exact arrCell_length hst hc0
  · intro row hrow
    simp only [arraysCore] at hrow ⊢
    obtain ⟨st, hst, rfl⟩ := List.mem_map.mp hrow
    simp [(w.states st hst).gw]
  · intro row hrow
    simp only [arraysCore] at hrow ⊢
    obtain ⟨st, hst, rfl⟩ := List.mem_map.mp hrow
    exact tokenKindsRow_length w hst

end Gen
end Rustemo
