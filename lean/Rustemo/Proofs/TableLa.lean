import Rustemo.Proofs.TableFirst
import Rustemo.Proofs.TableCalcInv2
/-!
# Table construction: every lookahead is a terminal
-/
namespace Rustemo.Table

variable {g : Grammar} {fs : Array (List Nat)} {tt : String} {rn : Option (Array Nat)}

/-- all lookaheads of all items of all states are terminals -/
def LaAll (g : Grammar) (sts : Array State) : Prop :=
  ∀ (i : Nat) (st : State), sts[i]? = some st → ∀ it ∈ st.items, ∀ a ∈ it.la, a < g.nterms

def LaOk (g : Grammar) (items : List Item) : Prop := ∀ it ∈ items, ∀ a ∈ it.la, a < g.nterms

theorem newFollow_la (hw : FsWf g fs) {pr : Prod} {it : Item} {nf : List Nat}
    (h : newFollow g fs pr it = some nf) (hla : ∀ a ∈ it.la, a < g.nterms) : ∀ b ∈ nf, b < g.nterms := by
  unfold newFollow at h
  have hmem : ∀ {syms f}, firstsOf g fs syms = some f → ∀ b ∈ f, b ≠ g.emptyIdx → b < g.nterms := by
    intro syms f hf b hb hne
    rcases firstsOf_mem hf b hb with h' | ⟨_, X, _, l, h2, h3⟩
    · exact absurd h' hne
    · rcases hw.elems X l h2 b h3 with h'' | h''
      · exact h''
      · exact absurd h'' hne
  split at h
  · split at h
    · simp at h
    · rename_i f hf
      split at h
      · simp only [Option.some.injEq] at h
        subst h
        intro b hb
        rcases mem_union.mp hb with h' | h'
        · obtain ⟨b1, b2⟩ := List.mem_filter.mp h'
          exact hmem hf b b1 (by simpa using b2)
        · exact hla b h'
      · rename_i hc
        simp only [Option.some.injEq] at h
        subst h
        intro b hb
        apply hmem hf b hb
        intro he
        apply hc
        rw [← he]
        simpa using hb
  · simp only [Option.some.injEq] at h
    subst h; exact hla

theorem closure_la (hw : FsWf g fs) {n : Nat} {items items' : List Item} (h : closure g fs n items = .ok items')
    (hla : LaOk g items) : LaOk g items' := by
  apply closure_induct (g := g) (fs := fs) (LaOk g) (fun d => ∀ a ∈ d.2, a < g.nterms) _ _ n items items' h hla
  · intro its hP it hit dsi hdsi d hd
    unfold itemDemands at hdsi
    split at hdsi
    · simp only [Res.ok.injEq] at hdsi; subst hdsi; simp at hd
    · rename_i pr hpr
      split at hdsi
      · simp only [Res.ok.injEq] at hdsi; subst hdsi; simp at hd
      · split at hdsi
        · simp only [Res.ok.injEq] at hdsi; subst hdsi; simp at hd
        · split at hdsi
          · simp at hdsi
          · rename_i nf hnf
            split at hdsi
            · simp only [Res.ok.injEq] at hdsi
              subst hdsi
              obtain ⟨q, _, rfl⟩ := List.mem_map.mp hd
              exact newFollow_la hw hnf (hP it hit)
            · simp at hdsi
  · intro its d hP hQ it' hit' a ha
    rcases addDemand_origin d its it' hit' with ⟨it0, h1, _, h3⟩ | h1
    · rcases h3 a ha with h' | h'
      · exact hP it0 h1 a h'
      · exact hQ a h'
    · subst h1; exact hQ a ha

theorem LaAll.setItems {sts : Array State} (h : LaAll g sts) {i : Nat} {items : List Item} (hla : LaOk g items) :
    LaAll g (setItems sts i items) := by
  intro j stj hj
  rw [getElem?_setItems] at hj
  by_cases hij : i = j
  · rw [if_pos hij] at hj
    cases hs : sts[j]? with
    | none => rw [hs] at hj; simp at hj
    | some st =>
      rw [hs] at hj
      simp only [Option.map_some, Option.some.injEq] at hj
      subst hj; exact hla
  · rw [if_neg hij] at hj; exact h j stj hj

theorem LaAll.linkStep {cur X : Nat} {new : List Item} {sts sts2 : Array State} (h : LaAll g sts)
    (hnew : LaOk g new) (hstep : LinkStep g tt rn cur X new sts sts2) : LaAll g sts2 := by
  have hadd : ∀ {sts1 : Array State} {stc stc' : State} {tgt : Nat}, LaAll g sts1 → sts1[cur]? = some stc →
      addTrans g stc X tgt = .ok stc' → LaAll g (sts1.setIfInBounds cur stc') := by
    intro sts1 stc stc' tgt h1 hc ha j stj hj
    rw [get_upd hc] at hj
    by_cases hcj : cur = j
    · rw [if_pos hcj] at hj; simp only [Option.some.injEq] at hj; subst hj
      rw [(addTrans_ok ha).1]; exact h1 cur stc hc
    · rw [if_neg hcj] at hj; exact h1 j stj hj
  cases hstep with
  | merge i st items' stc stc' h1 h2 h3 h4 h5 =>
    subst h5
    apply hadd _ h3 h4
    apply h.setItems
    obtain ⟨_, pairs, p2, p3⟩ := mergeState_some h2
    subst p3
    apply mergeItems_la (fun a => a < g.nterms) _ _ (h i st h1)
    intro p hp a ha
    exact hnew p.2 (itemPairs_mem p2 p hp) a ha
  | push stc stc' h3 h4 h5 =>
    subst h5
    have hp : LaAll g (sts.push (freshState g X new)) := by
      intro j stj hj
      rw [Array.getElem?_push] at hj
      by_cases hjs : j = sts.size
      · rw [if_pos hjs] at hj; simp only [Option.some.injEq] at hj; subst hj; exact hnew
      · rw [if_neg hjs] at hj; exact h j stj hj
    apply hadd hp _ h4
    rw [Array.getElem?_push, if_neg (by have := lt_size_of_getElem? h3; omega)]
    exact h3

theorem newStates_la {items : List Item} (hla : LaOk g items) :
    ∀ e ∈ newStates g items, LaOk g e.2 := by
  intro e he n hn a ha
  obtain ⟨its, h1, _, h3⟩ := newStates_mem he
  rw [h1] at hn
  obtain ⟨src, hs, rfl⟩ := List.mem_map.mp hn
  rw [h3] at hs
  exact hla src (List.mem_filter.mp hs).1 a ha

theorem LaAll.stepState (hg : GW g) (hw : FsWf g fs) {fuel cur : Nat} {sts sts' : Array State} (h : LaAll g sts)
    (hc : cur < sts.size) (hs : stepState g fs tt rn fuel cur sts = .ok sts') : LaAll g sts' := by
  obtain ⟨st, items, st', h1, h2, h3, h4⟩ := stepState_ok hc hs
  have hla := closure_la hw h2 (h cur st h1)
  have hid := acceptInit_id hg h3
  subst hid
  have h0 : LaAll g (sts.setIfInBounds cur { st with items := items, maxPrio := maxPrioOf g items }) := by
    intro j stj hj
    rw [get_upd h1] at hj
    by_cases hcj : cur = j
    · rw [if_pos hcj] at hj; simp only [Option.some.injEq] at hj; subst hj; exact hla
    · rw [if_neg hcj] at hj; exact h j stj hj
  exact (linkStates_induct (g := g) (tt := tt) (rn := rn) (cur := cur) (LaAll g) (fun e => LaOk g e.2)
    (fun s s2 e hJ hG _ hstep => hJ.linkStep hG hstep) (newStates g items) _ sts' (newStates_la hla)
    (by rw [Array.size_setIfInBounds]; exact hc) h4 h0).1

theorem LaAll.calcStates (hg : GW g) (hw : FsWf g fs) {fuel sym : Nat} {sts sts' : Array State} (h : LaAll g sts)
    (hs : calcStates g fs tt rn fuel sym sts = .ok sts') : LaAll g sts' := by
  obtain ⟨_, _, p, _, h2⟩ := calcStates_ok hs
  have h0 : LaAll g (sts.push (freshState g sym [⟨p, 0, [0]⟩])) := by
    intro j stj hj
    rw [Array.getElem?_push] at hj
    by_cases hjs : j = sts.size
    · rw [if_pos hjs] at hj; simp only [Option.some.injEq] at hj; subst hj
      intro it hit a ha
      simp only [freshState, List.mem_singleton] at hit
      subst hit
      simp only [List.mem_singleton] at ha
      subst ha; exact hg.nterms_pos
    · rw [if_neg hjs] at hj; exact h j stj hj
  obtain ⟨_, hJ, _⟩ := calcLoop_induct (g := g) (fs := fs) (tt := tt) (rn := rn) (fuel := fuel)
    (fun _ s => LaAll g s) (fun c s s' hJ' hc hs' => hJ'.stepState hg hw hc hs') fuel sts.size _ sts' h2 h0
  exact hJ

/-- lookaheads after a propagation come from the target itself or from the source -/
theorem propItems_la (fixed : Option (List Item)) (hf : ∀ l, fixed = some l → LaOk g l) :
    ∀ (todo done items' : List Item) (ch ch' : Bool), propItems fixed done todo ch = .ok (items', ch') →
      LaOk g done → LaOk g todo → LaOk g items'
  | [], done, items', ch, ch', h, hd, _ => by
    simp only [propItems, Res.ok.injEq, _root_.Prod.mk.injEq] at h
    rw [← h.1]; exact hd
  | it :: todo, done, items', ch, ch', h, hd, ht => by
    unfold propItems at h
    have hit := ht it List.mem_cons_self
    have htodo : LaOk g todo := fun x hx => ht x (List.mem_cons_of_mem _ hx)
    by_cases hk : isKernel it = true
    · rw [if_pos hk] at h
      split at h
      · rename_i it' c hp
        obtain ⟨_, _, _, p4, _⟩ := propItem_ok hp
        apply propItems_la fixed hf todo _ items' _ ch' h _ htodo
        intro x hx a ha
        rcases List.mem_append.mp hx with h' | h'
        · exact hd x h' a ha
        · simp only [List.mem_singleton] at h'
          subst h'
          rcases p4 a ha with h'' | ⟨s, s1, s2⟩
          · exact hit a h''
          · cases fixed with
            | some l => exact hf l rfl s s1 a s2
            | none =>
              simp only [Option.getD_none] at s1
              rcases List.mem_append.mp s1 with h3 | h3
              · exact hd s h3 a s2
              · exact ht s h3 a s2
      · simp at h
      · simp at h
      · simp at h
    · rw [if_neg hk] at h
      apply propItems_la fixed hf todo _ items' _ ch' h _ htodo
      intro x hx a ha
      rcases List.mem_append.mp hx with h' | h'
      · exact hd x h' a ha
      · simp only [List.mem_singleton] at h'
        subst h'; exact hit a ha

theorem LaAll.propagate (hw : FsWf g fs) {fuel n : Nat} {sts sts' : Array State} (h : LaAll g sts)
    (hp : propagate g fs fuel n sts = .ok sts') : LaAll g sts' := by
  apply (propagate_induct (g := g) (fs := fs) (fuel := fuel) (LaAll g) _ _ n sts sts' hp h).1
  · intro s i st items hJ hi hc
    exact hJ.setItems (closure_la hw hc (hJ i st hi))
  · intro s s' i j ch hJ hi he
    obtain ⟨si, sj, items, h1, h2, h3, h4⟩ := propEdge_ok hi he
    subst h4
    refine ⟨hJ.setItems ?_, size_setItems _ _ _⟩
    apply propItems_la _ _ _ _ _ _ _ h3 (by intro x hx; simp at hx) (hJ j sj h2)
    intro l hl
    by_cases hij : i = j
    · rw [if_pos hij] at hl; simp at hl
    · rw [if_neg hij] at hl
      simp only [Option.some.injEq] at hl
      subst hl; exact hJ i si h1

end Rustemo.Table
