import Rustemo.Proofs.TermStack
import Rustemo.Proofs.LayoutRTOrder
import Rustemo.Proofs.Roundtrip
import Rustemo.Proofs.LayoutRTScan
/-!
# The LR loop stops (termination, C15)

`M c` = tokens shifted so far + nodes of the trees on the result stack = the number of iterations of
the loop made so far (a shift adds a token, a reduction adds a node).  Under the invariant `TermInv`
(soundness invariant, span invariant, only used productions, every shifted token advanced the
position by at least one byte) `M c` is bounded by `Mmax`, a function of the input length
(`TermStack`); so the loop cannot make more than `Mmax` iterations: with more fuel than that it does
not run out of fuel — provided `next_token` itself never does (`NtTerm`).
-/
namespace Rustemo

def resNodes (res : List Tree) : Nat := (res.map Tree.nodes).sum

theorem nodes_ofList (l : List Tree) : (TreeList.ofList l).nodes = resNodes l := by
  induction l with
  | nil => simp [TreeList.ofList, TreeList.nodes, resNodes]
  | cons t ts ih => simp [TreeList.ofList, TreeList.nodes, resNodes] at ih ⊢; omega

theorem uses_ofList (U : Nat → Prop) (l : List Tree) (h : ∀ t ∈ l, t.Uses U) : (TreeList.ofList l).Uses U := by
  induction l with
  | nil => simp [TreeList.ofList, TreeList.Uses]
  | cons t ts ih =>
    simp only [TreeList.ofList, TreeList.Uses]
    exact ⟨h t (by simp), ih (fun x hx => h x (by simp [hx]))⟩

theorem resNodes_append (a b : List Tree) : resNodes (a ++ b) = resNodes a + resNodes b := by
  simp [resNodes]

theorem resNodes_reverse (a : List Tree) : resNodes a.reverse = resNodes a := by
  simp [resNodes, List.sum_reverse]

theorem resNodes_take_drop (l : List Tree) (n : Nat) : resNodes (l.take n) + resNodes (l.drop n) = resNodes l := by
  rw [← resNodes_append, List.take_append_drop]

theorem nodesS_zip : ∀ (ss : List Nat) (rs : List Tree), rs.length ≤ ss.length → nodesS (ss.zip rs) = resNodes rs
  | _, [], _ => by simp [nodesS, resNodes]
  | [], r :: rs, h => by simp at h
  | s :: ss, r :: rs, h => by
    have := nodesS_zip ss rs (by simpa using h)
    simp only [List.zip_cons_cons, nodesS, this, resNodes, List.map_cons, List.sum_cons]

theorem usesS_zip (U : Nat → Prop) (ss : List Nat) (rs : List Tree) (h : ∀ t ∈ rs, t.Uses U) :
    UsesS U (ss.zip rs) := by
  intro e he
  obtain ⟨a, b⟩ := e
  exact h b (List.of_mem_zip he).2

theorem posOk_posOf (input : List Nat) (n : Nat) (h : n ≤ input.length) : PosOk input (posOf input n) := by
  have := posOf_pos input n h
  exact ⟨by rw [this], by rw [this]; exact h⟩

theorem shiftCtx_ok (env : Env) (c : Cfg) (hinv : SInv env.input c) (hk : c.tok.kind ≠ 0) (s' : Nat) :
    CtxOk env.input (shiftCtx env c s') := by
  obtain ⟨hpos, _, hv2⟩ := shift_pos env c hinv hk s'
  obtain ⟨hcp, _, _⟩ := hinv.ctx
  have hok := posOk_posOf env.input _ hv2
  have hpos' : posAfter (sliceOf env.input c.tok.val) c.ctx.pos =
      posOf env.input (c.ctx.pos.pos + c.tok.val.2) := hpos
  unfold CtxOk shiftCtx
  simp only [hpos']
  exact ⟨hok, hcp, hok⟩

/-- what the loop needs of `next_token` to be sure to stop -/
structure NtTerm (env : Env) (nt : Ctx → Ctx × Outcome Tok) : Prop where
  ok : NtOk env.input nt
  mono : NtMono nt
  ne : ∀ ctx ctx' tk, nt ctx = (ctx', .ok tk) → tk.kind ≠ 0 → 1 ≤ tk.val.2
  nofuel : ∀ ctx, CtxOk env.input ctx → (nt ctx).2 ≠ .fuel

structure TermInv (env : Env) (U : Nat → Prop) (start P0 : Nat) (c : Cfg) : Prop where
  finv : FInv start c
  cinv : CInv env.g env.t start c.abs
  sinv : SInv env.input c
  uses : ∀ t ∈ c.res, t.Uses U
  pos : c.hist.length + P0 ≤ c.ctx.pos.pos
  tokNE : c.tok.kind ≠ 0 → 1 ≤ c.tok.val.2

/-- iterations made so far -/
def M (c : Cfg) : Nat := c.hist.length + resNodes c.res

section
variable (env : Env) (U : Nat → Prop) (nt : Ctx → Ctx × Outcome Tok) (autos : List Auto)
  (hs : Structural env.g env.t autos) (au : Auto) (hin : au ∈ autos) (start : Nat)
  (hstart : start = au.start) (hns : NoShiftStop env.t)
  (hU : ∀ state kind p len acts, env.t.cell state kind = Action.reduce p len :: acts → U p)
  (hnt : NtTerm env nt)
include hs hin hstart hns hU hnt

theorem step_tinv (P0 : Nat) (c c' : Cfg) (hinv : TermInv env U start P0 c) (hstep : step env nt c = .next c') :
    TermInv env U start P0 c' ∧ M c' = M c + 1 := by
  obtain ⟨hf', leafOf, nodeOf, hd, hcs⟩ := step_refines env nt start c c' hinv.finv hstep
  have hc' := cstep_preserves env.g env.t autos hs au hin start hstart leafOf nodeOf hd c.abs c'.abs
    c.tok.kind hinv.cinv hcs
  have hs' := step_spans env nt c c' hnt.ok hns hinv.sinv hstep
  cases step_next_inv env nt c c' hstep with
  | shift state s' acts ctx1 tk htop hcell hnt1 hc'' =>
    have hk : c.tok.kind ≠ 0 := by
      intro h0; apply hns state s'; rw [← h0, hcell]; simp
    obtain ⟨hv1, hv2, _⟩ : c.tok.val.1 = c.ctx.pos.pos ∧ c.tok.val.1 + c.tok.val.2 ≤ env.input.length ∧
        c.tok.span = ⟨c.ctx.pos, posOf env.input (c.tok.val.1 + c.tok.val.2)⟩ := by
      rcases hinv.sinv.tok with h | h
      · exact absurd h hk
      · exact h
    have hnp : (shiftCtx env c s').pos.pos = c.ctx.pos.pos + c.tok.val.2 := by
      show (posAfter (sliceOf env.input c.tok.val) c.ctx.pos).pos = _
      rw [posAfter_pos]
      have : c.tok.val = (c.tok.val.1, c.tok.val.2) := rfl
      rw [this, sliceOf_length _ _ _ hv2]
    have hmono := (hnt.mono _ _ _ hnt1).2
    have hne := hinv.tokNE hk
    have hpos := hinv.pos
    subst hc''
    refine ⟨⟨hf', hc', hs', ?_, ?_, hnt.ne _ _ _ hnt1⟩, ?_⟩
    · intro t ht
      rcases List.mem_cons.mp ht with h | h
      · subst h; simp [shiftLeaf, Tree.Uses]
      · exact hinv.uses t h
    · simp only [List.length_cons]; omega
    · simp only [M, List.length_cons, resNodes, List.map_cons, List.sum_cons, shiftLeaf, Tree.nodes]
      omega
  | reduce state p len fromState s' pr acts ctx1 tk htop hcell hlen hfrom hpr hgoto hrlen hnt1 hc'' =>
    have hmono : c.ctx.pos.pos ≤ ctx1.pos.pos := (hnt.mono _ _ _ hnt1).2
    have hpos := hinv.pos
    have hch : ∀ x ∈ (c.res.take len).reverse, x.Uses U := by
      intro x hx
      exact hinv.uses x (List.mem_of_mem_take (List.mem_reverse.mp hx))
    subst hc''
    refine ⟨⟨hf', hc', hs', ?_, ?_, hnt.ne _ _ _ hnt1⟩, ?_⟩
    · intro t ht
      rcases List.mem_cons.mp ht with h | h
      · subst h
        simp only [reduceNode, Tree.Uses]
        exact ⟨hU _ _ _ _ _ hcell, uses_ofList U _ hch⟩
      · exact hinv.uses t (List.mem_of_mem_drop h)
    · show c.hist.length + P0 ≤ ctx1.pos.pos
      omega
    · have h1 := resNodes_take_drop c.res len
      simp only [M, resNodes, List.map_cons, List.sum_cons, reduceNode, Tree.nodes, nodes_ofList]
      have h2 := resNodes_reverse (c.res.take len)
      simp only [resNodes] at h1 h2
      omega

end

section
variable {m W E C K Wn : Nat} {nul : Nat → Prop} {r rn : Nat → Nat}

/-- bound on the iterations over `n` bytes -/
def Mmax (E K Wn n : Nat) : Nat := n + ((n + 1) * Wn) * E + (2 * n) * K

theorem tinv_bound (env : Env) (U : Nat → Prop) (hc : Consts m W E C K) (hg : GRank env.g U nul r m W)
    (hsr : SRank env.g env.t nul rn Wn) (start P0 : Nat) (c : Cfg) (hinv : TermInv env U start P0 c) :
    M c ≤ Mmax E K Wn env.input.length := by
  have hlen := hinv.finv.len
  have hpath : PathInv env.g env.t start (absStack c) := hinv.cinv.path
  have hyld : yields (absStack c) = (c.hist.map (·.kind)).reverse := hinv.cinv.yld
  have huses : UsesS U (absStack c) := usesS_zip U _ _ hinv.uses
  have hnodes : nodesS (absStack c) = resNodes c.res :=
    nodesS_zip _ _ (by simp only [List.length_map]; omega)
  have hY : (yields (absStack c)).length = c.hist.length := by rw [hyld]; simp
  have hn : c.hist.length ≤ env.input.length := by
    have := hinv.pos
    have := hinv.sinv.ctx.1.2
    omega
  have hh := stack_height hg hsr start (absStack c) hpath huses
  have hnn := stack_nodes hc hg start (absStack c) hpath huses
  have hfull := fullS_le_yields (absStack c)
  rw [hY] at hnn hfull
  rw [hnodes] at hnn
  -- monotonicity
  have h1 : (fullS (absStack c) + 1) * Wn ≤ (env.input.length + 1) * Wn :=
    Nat.mul_le_mul_right _ (by omega)
  have h2 : (absStack c).length * E ≤ ((env.input.length + 1) * Wn) * E :=
    Nat.mul_le_mul_right _ (by omega)
  have h3 : 2 * c.hist.length * K ≤ 2 * env.input.length * K :=
    Nat.mul_le_mul_right _ (by omega)
  unfold M Mmax
  omega

theorem runLoop_no_fuel (env : Env) (U : Nat → Prop) (nt : Ctx → Ctx × Outcome Tok) (autos : List Auto)
    (hs : Structural env.g env.t autos) (au : Auto) (hin : au ∈ autos) (start : Nat)
    (hstart : start = au.start) (hns : NoShiftStop env.t)
    (hU : ∀ state kind p len acts, env.t.cell state kind = Action.reduce p len :: acts → U p)
    (hnt : NtTerm env nt) (hc : Consts m W E C K) (hg : GRank env.g U nul r m W)
    (hsr : SRank env.g env.t nul rn Wn) (P0 : Nat) :
    ∀ (fuel : Nat) (c : Cfg), TermInv env U start P0 c → Mmax E K Wn env.input.length < M c + fuel →
      (runLoop env nt fuel c).2 ≠ .fuel := by
  intro fuel
  induction fuel with
  | zero =>
    intro c hinv hlt
    have := tinv_bound env U hc hg hsr start P0 c hinv
    omega
  | succ n ih =>
    intro c hinv hlt
    unfold runLoop
    split
    · rename_i c' hstep
      obtain ⟨hinv', hM⟩ := step_tinv env U nt autos hs au hin start hstart hns hU hnt P0 c c' hinv hstep
      exact ih c' hinv' (by omega)
    · simp
    · rename_i ctx o hstep
      simp only
      intro ho
      subst ho
      cases step_stop_inv env nt c ctx _ hstep with
      | panic site h ho => simp at ho
      | noAction state htop hcell h ho => simp at ho
      | shift state s' acts o' htop hcell hnt1 hno ho =>
        have hk : c.tok.kind ≠ 0 := by
          intro h0; apply hns state s'; rw [← h0, hcell]; simp
        have := hnt.nofuel (shiftCtx env c s') (shiftCtx_ok env c hinv.sinv hk s')
        rw [hnt1] at this
        cases o' with
        | ok tk => exact hno tk rfl
        | err e => have := ho.1 e rfl; simp at this
        | panic s => have := ho.2.1 s rfl; simp at this
        | fuel => exact this rfl
      | reduce state p len fromState s' pr acts o' htop hcell hlen hfrom hpr hgoto hnt1 hno ho =>
        have := hnt.nofuel (reduceCtx c s') hinv.sinv.ctx
        rw [hnt1] at this
        cases o' with
        | ok tk => exact hno tk rfl
        | err e => have := ho.1 e rfl; simp at this
        | panic s => have := ho.2.1 s rfl; simp at this
        | fuel => exact this rfl

/-- **`parse_with_context` does not run out of fuel** -/
theorem parseWith_no_fuel (env : Env) (U : Nat → Prop) (nt : Ctx → Ctx × Outcome Tok) (autos : List Auto)
    (hs : Structural env.g env.t autos) (au : Auto) (hin : au ∈ autos) (start : Nat)
    (hstart : start = au.start) (hns : NoShiftStop env.t)
    (hU : ∀ state kind p len acts, env.t.cell state kind = Action.reduce p len :: acts → U p)
    (hnt : NtTerm env nt) (hc : Consts m W E C K) (hg : GRank env.g U nul r m W)
    (hsr : SRank env.g env.t nul rn Wn) (ctx0 : Ctx) (h0 : CtxOk env.input ctx0) (fuel : Nat)
    (hfuel : Mmax E K Wn env.input.length < fuel) :
    (parseWith env nt start ctx0 fuel).2 ≠ .fuel := by
  unfold parseWith
  simp only
  split
  · rename_i ctx1 tk hnt1
    obtain ⟨hc1, ht1⟩ := hnt.ok _ _ _ h0 hnt1
    refine runLoop_no_fuel env U nt autos hs au hin start hstart hns hU hnt hc hg hsr ctx1.pos.pos fuel _ ?_ ?_
    · exact ⟨⟨by simp, by simp⟩,
        ⟨by simp [Cfg.abs, absStack, PathInv], by simp [Cfg.abs, absStack, yields]⟩,
        ⟨by simp, hc1, by simp, by simp, ht1 tk rfl⟩, by simp, by simp, hnt.ne _ _ _ hnt1⟩
    · simp only [M, List.length_nil, resNodes, List.map_nil, List.sum_nil]
      omega
  · simp
  · simp
  · rename_i ctx1 hnt1
    have := hnt.nofuel ctx0 h0
    rw [hnt1] at this
    exact absurd rfl this

end

end Rustemo
