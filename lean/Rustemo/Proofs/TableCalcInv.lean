import Rustemo.Proofs.TableOps
/-!
# Table construction: `calc_states` keeps the structural invariant `Inv`
-/
namespace Rustemo.Table

theorem rhsAt_eq_nextSym (g : Grammar) (it : Item) : g.rhsAt it.prod it.dot = Resolve.nextSym g it := rfl

/-- the successors `create_new_states` builds -/
theorem newStates_mem {g : Grammar} {items : List Item} {e : Nat × List Item} (h : e ∈ newStates g items) :
    ∃ its, e.2 = its.map advance ∧ its ≠ [] ∧ its = items.filter (nextIs g e.1) := by
  unfold newStates at h
  obtain ⟨e0, h1, h2⟩ := List.mem_map.mp h
  obtain ⟨h3, h4⟩ := perNextSymbol_mem h1
  subst h2
  exact ⟨e0.2, rfl, h4, h3⟩

theorem nextIs_iff {g : Grammar} {X : Nat} {it : Item} : nextIs g X it = true ↔ Resolve.nextSym g it = some X := by
  simp [nextIs]

theorem nextSym_pos {g : Grammar} (hg : GW g) {it : Item} {X : Nat} (h : Resolve.nextSym g it = some X) :
    0 < X ∧ X < g.nterms + g.nnonterms ∧ X ≠ g.augIdx ∧ some X ≠ g.auglIdx ∧
      ∃ pr, g.prods[it.prod]? = some pr ∧ it.dot < pr.rhs.length := by
  unfold Resolve.nextSym at h
  split at h
  · rename_i pr hpr
    have hm := List.mem_of_getElem? h
    obtain ⟨h1, h2, h3, h4, _⟩ := (hg.prod_ok it.prod pr hpr).2.2 X hm
    refine ⟨h1, h2, h3, h4, pr, hpr, ?_⟩
    rcases Nat.lt_or_ge it.dot pr.rhs.length with h' | h'
    · exact h'
    · rw [List.getElem?_eq_none h'] at h; simp at h
  · simp at h

theorem isKernel_of_dot {it : Item} (h : it.dot ≠ 0) : isKernel it = true := by
  unfold isKernel; simp; left; omega

/-- a state equal (as `LRState::eq`) to a successor state: its dot>0 items are among the successor's -/
theorem stateEq_cores {old new : List Item} (h : stateEq old new = true) (hnew : ∀ n ∈ new, n.dot ≠ 0) :
    ∀ it ∈ old, it.dot ≠ 0 → core it ∈ new.map core := by
  intro it hit hd
  unfold stateEq at h
  have h1 := coresEq_map h
  have h2 : new.filter isKernel = new := List.filter_eq_self.mpr fun n hn => isKernel_of_dot (hnew n hn)
  rw [h2] at h1
  rw [← h1]
  exact List.mem_map.mpr ⟨it, List.mem_filter.mpr ⟨hit, isKernel_of_dot hd⟩, rfl⟩

/-- … and such a state is no start state -/
theorem stateEq_not_start {old new : List Item} (h : stateEq old new = true) (hnew : ∀ n ∈ new, n.dot ≠ 0)
    (hne : new ≠ []) : ¬∀ it ∈ old, it.dot = 0 := by
  intro hall
  unfold stateEq at h
  have h1 := coresEq_map h
  have h2 : new.filter isKernel = new := List.filter_eq_self.mpr fun n hn => isKernel_of_dot (hnew n hn)
  rw [h2] at h1
  cases new with
  | nil => exact hne rfl
  | cons n ns =>
    have : core n ∈ (old.filter isKernel).map core := by rw [h1]; simp
    obtain ⟨it, h3, h4⟩ := List.mem_map.mp this
    have h5 := hall it (List.mem_filter.mp h3).1
    have h6 := hnew n List.mem_cons_self
    simp only [core, _root_.Prod.mk.injEq] at h4
    omega

/-! ## Pushing a fresh state -/

theorem freshState_cell (g : Grammar) (X : Nat) (items : List Item) (a : Nat) :
    (freshState g X items).actions.getD a [] = [] := by
  unfold freshState
  simp only [Array.getD_eq_getD_getElem?]
  by_cases h : a < g.nterms
  · simp [h]
  · simp [h]

theorem freshState_goto (g : Grammar) (X : Nat) (items : List Item) (j : Nat) :
    (freshState g X items).gotos.getD j none = none := by
  unfold freshState
  simp only [Array.getD_eq_getD_getElem?]
  by_cases h : j < g.nnonterms
  · simp [h]
  · simp [h]

theorem freshState_noTrans (g : Grammar) (X : Nat) (items : List Item) (Y s' : Nat) :
    ¬HasTrans g (freshState g X items) Y s' := by
  rintro (⟨_, h⟩ | ⟨_, h⟩)
  · rw [freshState_cell] at h; simp at h
  · rw [freshState_goto] at h; simp at h

theorem Inv.push {g : Grammar} {autos : List (Nat × Nat)} {sts : Array State} (h : Inv g autos sts)
    {X : Nat} {items : List Item} (hok : ∀ it ∈ items, ItemOk g it) (hnd : (items.map core).Nodup)
    (hdot : ∀ it ∈ items, it.dot ≠ 0) : Inv g autos (sts.push (freshState g X items)) := by
  have hget : ∀ j, (sts.push (freshState g X items))[j]? =
      if j = sts.size then some (freshState g X items) else sts[j]? := fun j => Array.getElem?_push
  refine ⟨?_, ?_, ?_, ?_⟩
  · intro j stj hj
    rw [hget] at hj
    by_cases hjs : j = sts.size
    · rw [if_pos hjs] at hj; simp only [Option.some.injEq] at hj; subst hj
      refine ⟨by simp [freshState], by simp [freshState], hok, hnd, ?_⟩
      intro a act hact
      rw [freshState_cell] at hact; simp at hact
    · rw [if_neg hjs] at hj; exact h.st j stj hj
  · intro a ha
    obtain ⟨sta, h1, h2⟩ := h.starts a ha
    refine ⟨sta, ?_, h2⟩
    rw [hget, if_neg (by have := lt_size_of_getElem? h1; omega)]
    exact h1
  · intro j stj hj it hit hd hau
    rw [hget] at hj
    by_cases hjs : j = sts.size
    · rw [if_pos hjs] at hj; simp only [Option.some.injEq] at hj; subst hj
      exact absurd hd (hdot it hit)
    · rw [if_neg hjs] at hj; exact h.augs j stj hj it hit hd hau
  · intro j stj hj Y s' ht
    rw [hget] at hj
    by_cases hjs : j = sts.size
    · rw [if_pos hjs] at hj; simp only [Option.some.injEq] at hj; subst hj
      exact absurd ht (freshState_noTrans g X items Y s')
    · rw [if_neg hjs] at hj
      obtain ⟨t1, t2, t3⟩ := h.trans j stj hj Y s' ht
      refine ⟨by rw [Array.size_push]; omega, t2, ?_⟩
      intro st'' hs''
      rw [hget, if_neg (by omega)] at hs''
      exact t3 st'' hs''

/-! ## Recording a transition -/

theorem addTrans_ok {g : Grammar} {st st' : State} {X tgt : Nat} (h : addTrans g st X tgt = .ok st') :
    st'.items = st.items ∧ st'.actions.size = st.actions.size ∧ st'.gotos.size = st.gotos.size ∧
    st'.maxPrio = st.maxPrio ∧
    (∀ a, st'.actions.getD a [] = if X < g.nterms ∧ a = X then st.actions.getD a [] ++ [Action.shift tgt]
        else st.actions.getD a []) ∧
    (∀ j, st'.gotos.getD j none = if g.nterms ≤ X ∧ j = X - g.nterms then some tgt else st.gotos.getD j none) := by
  unfold addTrans at h
  by_cases hX : g.nterms ≤ X
  · rw [if_pos hX] at h
    split at h
    · rename_i hlt
      simp only [Res.ok.injEq] at h
      subst h
      refine ⟨rfl, rfl, by simp, rfl, ?_, ?_⟩
      · intro a
        rw [if_neg (by omega)]
      · intro j
        simp only [Array.getD_eq_getD_getElem?, Array.getElem?_setIfInBounds]
        by_cases hj : X - g.nterms = j
        · rw [if_pos hj, if_pos hlt, if_pos ⟨hX, hj.symm⟩]; rfl
        · have : ¬(g.nterms ≤ X ∧ j = X - g.nterms) := fun h => hj h.2.symm
          rw [if_neg hj, if_neg this]
    · simp at h
  · rw [if_neg hX] at h
    split at h
    · rename_i hlt
      simp only [Res.ok.injEq] at h
      subst h
      refine ⟨rfl, by simp, rfl, rfl, ?_, ?_⟩
      · intro a
        simp only [Array.getD_eq_getD_getElem?, Array.getElem?_modify]
        by_cases ha : X = a
        · subst ha
          have : X < g.nterms := by omega
          simp [this, Array.getElem?_eq_getElem hlt]
        · have : ¬(X < g.nterms ∧ a = X) := fun h => ha h.2.symm
          simp [ha, this]
      · intro j
        rw [if_neg (fun h => hX h.1)]
    · simp at h

theorem addTrans_hasTrans {g : Grammar} {st st' : State} {X tgt : Nat} (h : addTrans g st X tgt = .ok st')
    {Y s' : Nat} (ht : HasTrans g st' Y s') : HasTrans g st Y s' ∨ (Y = X ∧ s' = tgt) := by
  obtain ⟨_, _, _, _, h5, h6⟩ := addTrans_ok h
  rcases ht with ⟨hY, hm⟩ | ⟨hY, hm⟩
  · rw [h5] at hm
    by_cases hc : X < g.nterms ∧ Y = X
    · rw [if_pos hc] at hm
      rcases List.mem_append.mp hm with h' | h'
      · exact .inl (.inl ⟨hY, h'⟩)
      · simp only [List.mem_singleton, Action.shift.injEq] at h'
        exact .inr ⟨hc.2, h'⟩
    · rw [if_neg hc] at hm
      exact .inl (.inl ⟨hY, hm⟩)
  · rw [h6] at hm
    by_cases hc : g.nterms ≤ X ∧ Y - g.nterms = X - g.nterms
    · rw [if_pos hc] at hm
      simp only [Option.some.injEq] at hm
      exact .inr ⟨by omega, hm.symm⟩
    · rw [if_neg hc] at hm
      exact .inl (.inr ⟨hY, hm⟩)

/-- recording `cur --X--> tgt` where `tgt` is an existing non-start state whose dot>0 items are
    `X`-successors of items of `cur` -/
theorem Inv.link {g : Grammar} {autos : List (Nat × Nat)} {sts : Array State} (h : Inv g autos sts)
    {cur X tgt : Nat} {stc stc' : State} (hc : sts[cur]? = some stc) (ha : addTrans g stc X tgt = .ok stc')
    (h1 : tgt < sts.size) (h2 : ∀ a ∈ autos, tgt ≠ a.1) (h3 : TgtOk g sts stc X tgt) :
    Inv g autos (sts.setIfInBounds cur stc') := by
  obtain ⟨a1, a2, a3, _, a5, _⟩ := addTrans_ok ha
  have hst := h.st cur stc hc
  -- every state keeps its items
  have hitems : ∀ (j : Nat) (stj : State), (sts.setIfInBounds cur stc')[j]? = some stj →
      ∃ old, sts[j]? = some old ∧ old.items = stj.items := by
    intro j stj hj
    rw [get_upd hc] at hj
    by_cases hcj : cur = j
    · rw [if_pos hcj] at hj; simp only [Option.some.injEq] at hj; subst hj
      exact ⟨stc, by rw [← hcj]; exact hc, a1.symm⟩
    · rw [if_neg hcj] at hj; exact ⟨stj, hj, rfl⟩
  have htgt : ∀ {st0 st1 : State} {Y s' : Nat}, st0.items = st1.items → TgtOk g sts st0 Y s' →
      TgtOk g (sts.setIfInBounds cur stc') st1 Y s' := by
    intro st0 st1 Y s' he ht st'' hs'' it hit hd
    obtain ⟨old, o1, o2⟩ := hitems s' st'' hs''
    have := ht old o1 it (by rw [o2]; exact hit) hd
    rw [he] at this
    exact this
  refine ⟨?_, ?_, ?_, ?_⟩
  · intro j stj hj
    rw [get_upd hc] at hj
    by_cases hcj : cur = j
    · rw [if_pos hcj] at hj; simp only [Option.some.injEq] at hj; subst hj
      refine ⟨by rw [a2]; exact hst.asize, by rw [a3]; exact hst.gsize, by rw [a1]; exact hst.items,
        by rw [a1]; exact hst.nodup, ?_⟩
      intro a act hact
      rw [a5] at hact
      split at hact
      · rcases List.mem_append.mp hact with h' | h'
        · exact hst.cells a act h'
        · simp only [List.mem_singleton] at h'; exact ⟨tgt, h'⟩
      · exact hst.cells a act hact
    · rw [if_neg hcj] at hj; exact h.st j stj hj
  · intro a ha'
    obtain ⟨sta, s1, s2, s3⟩ := h.starts a ha'
    by_cases hca : cur = a.1
    · refine ⟨stc', by rw [get_upd hc, if_pos hca], ?_, ?_⟩
      · rw [← hca, hc] at s1; simp only [Option.some.injEq] at s1; subst s1
        rw [a1]; exact s2
      · rw [← hca, hc] at s1; simp only [Option.some.injEq] at s1; subst s1
        rw [a1]; exact s3
    · exact ⟨sta, by rw [get_upd hc, if_neg hca]; exact s1, s2, s3⟩
  · intro j stj hj it hit hd hau
    obtain ⟨old, o1, o2⟩ := hitems j stj hj
    exact h.augs j old o1 it (by rw [o2]; exact hit) hd hau
  · intro j stj hj Y s' ht
    rw [Array.size_setIfInBounds]
    rw [get_upd hc] at hj
    by_cases hcj : cur = j
    · rw [if_pos hcj] at hj; simp only [Option.some.injEq] at hj; subst hj
      rcases addTrans_hasTrans ha ht with h' | ⟨h', h''⟩
      · obtain ⟨t1, t2, t3⟩ := h.trans cur stc hc Y s' h'
        exact ⟨t1, t2, htgt a1.symm t3⟩
      · subst h' h''
        exact ⟨h1, h2, htgt a1.symm h3⟩
    · rw [if_neg hcj] at hj
      obtain ⟨t1, t2, t3⟩ := h.trans j stj hj Y s' ht
      exact ⟨t1, t2, htgt rfl t3⟩

end Rustemo.Table

namespace Rustemo.Table

/-! ## One new state -/

theorem core_advance (it : Item) : core (advance it) = (it.prod, it.dot + 1) := rfl

theorem nodup_advance : ∀ {l : List Item}, (l.map core).Nodup → ((l.map advance).map core).Nodup
  | [], _ => by simp
  | x :: xs, h => by
    simp only [List.map_cons, List.nodup_cons] at h ⊢
    refine ⟨?_, nodup_advance h.2⟩
    intro hm
    apply h.1
    obtain ⟨y, hy, hy'⟩ := List.mem_map.mp hm
    obtain ⟨z, hz, rfl⟩ := List.mem_map.mp hy
    rw [core_advance, core_advance] at hy'
    simp only [_root_.Prod.mk.injEq, Nat.add_right_cancel_iff] at hy'
    exact List.mem_map.mpr ⟨z, hz, by simp [core, hy'.1, hy'.2]⟩

/-- what is known of a successor `e ∈ newStates g items` -/
structure NewOk (g : Grammar) (items : List Item) (X : Nat) (new : List Item) : Prop where
  ne : new ≠ []
  dot : ∀ n ∈ new, n.dot ≠ 0
  ok : ∀ n ∈ new, ItemOk g n
  nodup : (new.map core).Nodup
  succ : ∀ n ∈ new, ∃ src ∈ items, Resolve.nextSym g src = some X ∧ core n = (src.prod, src.dot + 1)
  all : ∀ src ∈ items, Resolve.nextSym g src = some X → (src.prod, src.dot + 1) ∈ new.map core

theorem newOk_of_mem {g : Grammar} (hg : GW g) {items : List Item} (hnd : (items.map core).Nodup)
    {e : Nat × List Item} (h : e ∈ newStates g items) : NewOk g items e.1 e.2 := by
  obtain ⟨its, h1, h2, h3⟩ := newStates_mem h
  have hsrc : ∀ src ∈ its, src ∈ items ∧ Resolve.nextSym g src = some e.1 := by
    intro src hs
    rw [h3] at hs
    obtain ⟨a, b⟩ := List.mem_filter.mp hs
    exact ⟨a, nextIs_iff.mp b⟩
  refine ⟨?_, ?_, ?_, ?_, ?_, ?_⟩
  · rw [h1]; intro hc; exact h2 (List.map_eq_nil_iff.mp hc)
  · intro n hn
    rw [h1] at hn
    obtain ⟨src, _, rfl⟩ := List.mem_map.mp hn
    simp [advance]
  · intro n hn
    rw [h1] at hn
    obtain ⟨src, hs, rfl⟩ := List.mem_map.mp hn
    obtain ⟨_, _, _, _, pr, p1, p2⟩ := nextSym_pos hg (hsrc src hs).2
    exact ⟨pr, p1, by simp only [advance]; omega⟩
  · rw [h1]
    apply nodup_advance
    rw [h3]
    exact List.Nodup.sublist (List.Sublist.map core List.filter_sublist) hnd
  · intro n hn
    rw [h1] at hn
    obtain ⟨src, hs, rfl⟩ := List.mem_map.mp hn
    exact ⟨src, (hsrc src hs).1, (hsrc src hs).2, rfl⟩
  · intro src hs hn
    rw [h1]
    have : src ∈ its := by rw [h3]; exact List.mem_filter.mpr ⟨hs, nextIs_iff.mpr hn⟩
    exact List.mem_map.mpr ⟨advance src, List.mem_map.mpr ⟨src, this, rfl⟩, rfl⟩

/-- a target all of whose dot>0 items are among the successor's items is an `X`-target of the source -/
theorem tgtOk_of_new {g : Grammar} {items : List Item} {X : Nat} {new : List Item} (hn : NewOk g items X new)
    {sts : Array State} {stc : State} (hcores : stc.items.map core = items.map core) {tgt : Nat}
    (h : ∀ st', sts[tgt]? = some st' → ∀ it ∈ st'.items, it.dot ≠ 0 → core it ∈ new.map core) :
    TgtOk g sts stc X tgt := by
  intro st' hs it hit hd
  obtain ⟨n, hn1, hn2⟩ := List.mem_map.mp (h st' hs it hit hd)
  obtain ⟨src, s1, s2, s3⟩ := hn.succ n hn1
  rw [hn2] at s3
  simp only [core, _root_.Prod.mk.injEq] at s3
  have hdot : it.dot - 1 = src.dot := by omega
  rw [hdot, s3.1, hcores]
  exact ⟨by rw [rhsAt_eq_nextSym]; exact s2, List.mem_map.mpr ⟨src, s1, rfl⟩⟩

theorem Inv.linkStep {g : Grammar} {tt : String} {rn : Option (Array Nat)} {autos : List (Nat × Nat)}
    {items : List Item} {cur X : Nat} {new : List Item} (hn : NewOk g items X new)
    {sts sts2 : Array State} (hJ : Inv g autos sts)
    (hcur : ∃ stc, sts[cur]? = some stc ∧ stc.items.map core = items.map core)
    (hstep : LinkStep g tt rn cur X new sts sts2) :
    Inv g autos sts2 ∧ ∃ stc, sts2[cur]? = some stc ∧ stc.items.map core = items.map core := by
  obtain ⟨stc0, c1, c2⟩ := hcur
  cases hstep with
  | merge i st items' stc stc' h1 h2 h3 h4 h5 =>
    have hgr := mergeState_grown h2
    have heq := (mergeState_some h2).1
    have hJ1 : Inv g autos (setItems sts i items') := hJ.setItems_grown h1 hgr
    -- the current state after the merge still has the cores of `items`
    have hc' : stc.items.map core = items.map core := by
      rw [getElem?_setItems] at h3
      by_cases hic : i = cur
      · rw [if_pos hic, c1] at h3
        simp only [Option.map_some, Option.some.injEq] at h3
        subst h3
        rw [hic, c1] at h1
        simp only [Option.some.injEq] at h1
        subst h1
        show items'.map core = _
        rw [hgr.cores, c2]
      · rw [if_neg hic, c1] at h3
        simp only [Option.some.injEq] at h3
        subst h3; exact c2
    have hsz : i < (setItems sts i items').size := by rw [size_setItems]; exact lt_size_of_getElem? h1
    have hns : ∀ a ∈ autos, i ≠ a.1 := by
      intro a ha hia
      obtain ⟨sta, s1, s2, _⟩ := hJ.starts a ha
      rw [← hia, h1] at s1
      simp only [Option.some.injEq] at s1
      subst s1
      exact stateEq_not_start heq hn.dot hn.ne s2
    have htg : TgtOk g (setItems sts i items') stc X i := by
      apply tgtOk_of_new hn hc'
      intro st' hs it hit hd
      rw [getElem?_setItems, if_pos rfl, h1] at hs
      simp only [Option.map_some, Option.some.injEq] at hs
      subst hs
      obtain ⟨it0, b1, b2, _⟩ := hgr.back it hit
      have hd0 : it0.dot ≠ 0 := by
        simp only [core, _root_.Prod.mk.injEq] at b2; omega
      rw [← b2]
      exact stateEq_cores heq hn.dot it0 b1 hd0
    have hJ2 := hJ1.link h3 h4 hsz hns htg
    subst h5
    refine ⟨hJ2, stc', by rw [get_upd h3, if_pos rfl], ?_⟩
    rw [(addTrans_ok h4).1]; exact hc'
  | push stc stc' h3 h4 h5 =>
    rw [c1] at h3
    simp only [Option.some.injEq] at h3
    subst h3
    have hJ1 : Inv g autos (sts.push (freshState g X new)) := hJ.push hn.ok hn.nodup hn.dot
    have hcl := lt_size_of_getElem? c1
    have h3' : (sts.push (freshState g X new))[cur]? = some stc0 := by
      rw [Array.getElem?_push, if_neg (by omega)]; exact c1
    have hns : ∀ a ∈ autos, sts.size ≠ a.1 := by
      intro a ha hia
      obtain ⟨sta, s1, _⟩ := hJ.starts a ha
      have := lt_size_of_getElem? s1
      omega
    have htg : TgtOk g (sts.push (freshState g X new)) stc0 X sts.size := by
      apply tgtOk_of_new hn c2
      intro st' hs it hit hd
      rw [Array.getElem?_push, if_pos rfl] at hs
      simp only [Option.some.injEq] at hs
      subst hs
      exact List.mem_map.mpr ⟨it, hit, rfl⟩
    have hJ2 := hJ1.link h3' h4 (by rw [Array.size_push]; omega) hns htg
    subst h5
    refine ⟨hJ2, stc', by rw [get_upd h3', if_pos rfl], ?_⟩
    rw [(addTrans_ok h4).1]; exact c2

end Rustemo.Table
