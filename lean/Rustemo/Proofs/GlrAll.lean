import Rustemo.Proofs.GlrEnum
/-!
# The decorated forest: canonical enumeration `all`, and `get i = all[i]?` (port of Proofs/Forest.lean)
-/
namespace Rustemo.Glr
open Rustemo Rustemo.Forest

mutual
def DNode.all : DNode → List Tree
  | .term tk => [.leaf tk.kind tk.span tk.val none]
  | .nonterm p sp cs => cs.all.map fun ts => Tree.node p sp none (TreeList.ofList ts)
  | .cut => []
def DParent.all : DParent → List Tree
  | .mk ns => ns.all
def DNList.all : DNList → List Tree
  | .nil => []
  | .cons n ns => n.all ++ ns.all
def DPList.all : DPList → List (List Tree)
  | .nil => [[]]
  | .cons p ps => p.all.flatMap (fun t => ps.all.map (fun ts => t :: ts))
end

mutual
theorem DNode.len_all : ∀ n : DNode, n.all.length = n.solutions
  | .term _ => by simp [DNode.all, DNode.solutions]
  | .nonterm _ _ cs => by simp [DNode.all, DNode.solutions, DPList.len_all cs]
  | .cut => by simp [DNode.all, DNode.solutions]
theorem DParent.len_all : ∀ p : DParent, p.all.length = p.solutions
  | .mk ns => by simp [DParent.all, DParent.solutions, DNList.len_all ns]
theorem DNList.len_all : ∀ ns : DNList, ns.all.length = ns.sum
  | .nil => by simp [DNList.all, DNList.sum]
  | .cons n ns => by simp [DNList.all, DNList.sum, DNode.len_all n, DNList.len_all ns]
theorem DPList.len_all : ∀ ps : DPList, ps.all.length = ps.prod
  | .nil => by simp [DPList.all, DPList.prod]
  | .cons p ps => by
    simp only [DPList.all, DPList.prod, List.length_flatMap, List.length_map]
    rw [← DParent.len_all p, ← DPList.len_all ps]
    induction p.all with
    | nil => simp
    | cons a l ih => simp [List.sum_cons, ih, Nat.add_mul, Nat.add_comm]
end

/- well formed: no cut, no empty parent link -/
mutual
def DNode.WFD : DNode → Prop
  | .term _ => True
  | .nonterm _ _ cs => cs.WFD
  | .cut => False
def DParent.WFD : DParent → Prop
  | .mk ns => 0 < ns.sum ∧ ns.WFD
def DNList.WFD : DNList → Prop
  | .nil => True
  | .cons n ns => n.WFD ∧ ns.WFD
def DPList.WFD : DPList → Prop
  | .nil => True
  | .cons p ps => p.WFD ∧ ps.WFD
end

theorem DPList.prod_pos : ∀ ps : DPList, ps.WFD → 0 < ps.prod
  | .nil, _ => by simp [DPList.prod]
  | .cons (.mk ns) ps, h => by
    simp only [DPList.WFD, DParent.WFD] at h
    simp only [DPList.prod, DParent.solutions]
    exact Nat.mul_pos h.1.1 (DPList.prod_pos ps h.2)

mutual
theorem DNode.get_eq : ∀ (n : DNode) (i : Nat), n.WFD → i < n.solutions → n.get i = n.all[i]?
  | .term tk, i, _, hi => by
    simp only [DNode.solutions] at hi
    have : i = 0 := by omega
    subst this; simp [DNode.get, DNode.all]
  | .nonterm p sp cs, i, hw, hi => by
    simp only [DNode.solutions] at hi
    simp only [DNode.WFD] at hw
    simp [DNode.get, DNode.all, DPList.get_eq cs i hw hi, List.getElem?_map]
  | .cut, i, hw, _ => by simp [DNode.WFD] at hw
theorem DParent.get_eq : ∀ (p : DParent) (i : Nat), p.WFD → p.get i = p.all[i]?
  | .mk ns, i, hw => by
    simp only [DParent.WFD] at hw
    simp [DParent.get, DParent.all, DNList.get_eq ns i hw.2]
theorem DNList.get_eq : ∀ (ns : DNList) (i : Nat), ns.WFD → ns.get i = ns.all[i]?
  | .nil, i, _ => by simp [DNList.get, DNList.all]
  | .cons n ns, i, hw => by
    simp only [DNList.WFD] at hw
    simp only [DNList.get, DNList.all]
    by_cases h : i < n.solutions
    · simp only [h, ↓reduceIte]
      rw [DNode.get_eq n i hw.1 h, List.getElem?_append_left (by rw [DNode.len_all]; exact h)]
    · simp only [h, ↓reduceIte]
      rw [DNList.get_eq ns _ hw.2, List.getElem?_append_right (by rw [DNode.len_all]; omega), DNode.len_all]
theorem DPList.get_eq : ∀ (ps : DPList) (i : Nat), ps.WFD → i < ps.prod → ps.get i = ps.all[i]?
  | .nil, i, _, hi => by
    simp only [DPList.prod] at hi
    have : i = 0 := by omega
    subst this; simp [DPList.get, DPList.all]
  | .cons p ps, i, hw, hi => by
    simp only [DPList.WFD] at hw
    simp only [DPList.prod] at hi
    have hpos := DPList.prod_pos ps hw.2
    have hmod : i % ps.prod < ps.prod := Nat.mod_lt _ hpos
    simp only [DPList.get, DPList.all]
    rw [DParent.get_eq p _ hw.1, DPList.get_eq ps _ hw.2 hmod]
    rw [flatMap_map_getElem? p.all ps.all (fun t ts => t :: ts) i
          (by rw [DPList.len_all]; exact hpos) (by rw [DParent.len_all, DPList.len_all]; exact hi)]
    rw [DPList.len_all]
    cases p.all[i / ps.prod]? <;> cases ps.all[i % ps.prod]? <;> rfl
end

/-- every tree of the canonical enumeration is returned by some index -/
theorem DNList.mem_all_get (ns : DNList) (hw : ns.WFD) {tr : Tree} (h : tr ∈ ns.all) : ∃ i, ns.get i = some tr := by
  obtain ⟨i, hi, he⟩ := List.getElem_of_mem h
  exact ⟨i, by rw [DNList.get_eq ns i hw, List.getElem?_eq_getElem hi, he]⟩

/- no cut + no empty parent link ⇒ well formed -/
mutual
theorem DNode.wfd_of : ∀ d : DNode, d.hasCut = false → d.NE → 0 < d.solutions ∧ d.WFD
  | .term _, _, _ => by simp [DNode.solutions, DNode.WFD]
  | .nonterm _ _ cs, hc, hn => by
    simp only [DNode.hasCut] at hc
    simp only [DNode.NE] at hn
    have := DPList.wfd_of cs hc hn
    simpa [DNode.solutions, DNode.WFD] using this
  | .cut, hc, _ => by simp [DNode.hasCut] at hc
theorem DParent.wfd_of : ∀ p : DParent, p.hasCut = false → p.NE → 0 < p.solutions ∧ p.WFD
  | .mk ns, hc, hn => by
    simp only [DParent.hasCut] at hc
    simp only [DParent.NE] at hn
    have h := DNList.wfd_of ns hc hn.2
    have hpos : 0 < ns.sum := by
      cases ns with
      | nil => exact absurd rfl hn.1
      | cons n ns' =>
        simp only [DNList.hasCut, Bool.or_eq_false_iff] at hc
        simp only [DNList.NE] at hn
        have := DNode.wfd_of n hc.1 hn.2.1
        simp only [DNList.sum]; omega
    exact ⟨by simpa [DParent.solutions] using hpos, by simp only [DParent.WFD]; exact ⟨hpos, h⟩⟩
theorem DNList.wfd_of : ∀ ns : DNList, ns.hasCut = false → ns.NE → ns.WFD
  | .nil, _, _ => by simp [DNList.WFD]
  | .cons n ns, hc, hn => by
    simp only [DNList.hasCut, Bool.or_eq_false_iff] at hc
    simp only [DNList.NE] at hn
    simp only [DNList.WFD]
    exact ⟨(DNode.wfd_of n hc.1 hn.1).2, DNList.wfd_of ns hc.2 hn.2⟩
theorem DPList.wfd_of : ∀ ps : DPList, ps.hasCut = false → ps.NE → 0 < ps.prod ∧ ps.WFD
  | .nil, _, _ => by simp [DPList.prod, DPList.WFD]
  | .cons p ps, hc, hn => by
    simp only [DPList.hasCut, Bool.or_eq_false_iff] at hc
    simp only [DPList.NE] at hn
    have h1 := DParent.wfd_of p hc.1 hn.1
    have h2 := DPList.wfd_of ps hc.2 hn.2
    simp only [DPList.prod, DPList.WFD]
    exact ⟨Nat.mul_pos h1.1 h2.1, h1.2, h2.2⟩
end

end Rustemo.Glr
