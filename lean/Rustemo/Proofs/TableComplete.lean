import Rustemo.Proofs.TableStructural2
/-!
# Table construction: a table `build` returns whose cells never had two candidates is COMPLETE

`Complete g t` (Proofs/CompleteCert.lean) is what the completeness half of C01 needs of a table: closure and
transitions carry every lookahead (`FIRST(β a)` semantically), every completed item has its reduce entry
on every lookahead, at most one action per cell.  Here it is derived from the exit condition of
`propagate_follows` (`Final.fix`, `Final.stable`), the invariant of `calc_states` (`InvC`) and the fact
that rustemo's FIRST sets are a post-fixpoint (`firstOk_ctxOf`).
-/
namespace Rustemo.Table

variable {g : Grammar}

/-! ## the cells of a raw-deterministic state -/

/-- a completed item with the terminal among its lookaheads, as `rawCandidates` counts them -/
def complB (g : Grammar) (a : Nat) (it : Item) : Bool := it.dot == g.prodLen it.prod && it.la.contains a

theorem filterMap_filter {α β} (f : α → Option β) (p : α → Bool) :
    ∀ (l : List α), (∀ x ∈ l, f x ≠ none → p x = true) → l.filterMap f = (l.filter p).filterMap f
  | [], _ => rfl
  | x :: xs, h => by
    have ih := filterMap_filter f p xs (fun y hy => h y (List.mem_cons_of_mem _ hy))
    rw [List.filterMap_cons, List.filter_cons]
    cases hf : f x with
    | none =>
      by_cases hp : p x = true
      · rw [if_pos hp, List.filterMap_cons, hf]; exact ih
      · rw [if_neg hp]; exact ih
    | some b =>
      have hp := h x List.mem_cons_self (by rw [hf]; simp)
      rw [if_pos hp, List.filterMap_cons, hf, ih]

theorem infoOf_len (g : Grammar) (p : Nat) : (Resolve.infoOf g p).len = g.prodLen p := by
  unfold Resolve.infoOf Grammar.prodLen
  cases g.prods[p]? <;> rfl

theorem isAugProd_zero (hg : GW g) (hnl : g.auglIdx = none) {p : Nat} (h : Resolve.isAugProd g p = true) : p = 0 := by
  unfold Resolve.isAugProd at h
  split at h
  · rename_i pr hpr
    rw [hnl] at h
    simp only [Bool.or_false, beq_iff_eq] at h
    have hm := Rustemo.mem_prodsOf hpr
    rw [h, hg.aug_prods] at hm
    simpa using hm
  · simp at h

theorem isAugProd_of_zero (hg : GW g) : Resolve.isAugProd g 0 = true := by
  obtain ⟨pr0, p1, p2, _⟩ := hg.aug0
  unfold Resolve.isAugProd
  rw [p1]; simp [p2]

/-- every event of a cell comes from a candidate that `rawCandidates` counts -/
theorem evOf_compl (hg : GW g) (hnl : g.auglIdx = none) {a : Nat} {it : Item}
    (haug : it.prod = 0 → 0 ∈ it.la) (h : Resolve.evOf g none a it ≠ none) : complB g a it = true := by
  unfold complB
  cases hev : Resolve.evOf g none a it with
  | none => exact absurd hev h
  | some ev =>
    cases ev with
    | accept =>
      obtain ⟨e1, e2, e3⟩ := evOf_accept hev
      have hp := isAugProd_zero hg hnl e1
      rw [infoOf_len] at e3
      simp only [Bool.and_eq_true, beq_iff_eq, List.contains_iff_mem]
      exact ⟨e3, by rw [e2]; exact haug hp⟩
    | red r =>
      obtain ⟨e1, _, e3, _⟩ := evOf_red hev
      unfold Resolve.isReducing at e1
      rw [infoOf_len] at e1
      simp only [Bool.or_false, beq_iff_eq] at e1
      simp only [Bool.and_eq_true, beq_iff_eq, List.contains_iff_mem]
      exact ⟨e1, e3⟩

/-- what is known of the final cell of terminal `a` in a state with at most one candidate -/
structure CellRaw (g : Grammar) (st : State) (a : Nat) (c : List Action) : Prop where
  det : c.length ≤ 1
  shift : ∀ s', Action.shift s' ∈ st.actions.getD a [] → Action.shift s' ∈ c
  reduce : ∀ it ∈ st.items, complB g a it = true → Resolve.isAugProd g it.prod = false →
    Action.reduce it.prod it.dot ∈ c
  accept : ∀ it ∈ st.items, it.prod = 0 → it.dot = g.prodLen 0 → a = 0 → Action.accept ∈ c

theorem cellRaw (hg : GW g) (hnl : g.auglIdx = none) {s : Settings} {st : State} (hok : StOk g st) (hc : StC g st)
    {a : Nat} {c : List Action} (hfin : finishCell g s none st a = .ok c)
    (hraw : (if st.items.any (fun it => g.rhsAt it.prod it.dot == some a) then 1 else 0) +
      (st.items.filter (complB g a)).length ≤ 1) : CellRaw g st a c := by
  unfold finishCell at hfin
  have hcell := ofOutcome_ok hfin
  have hev : Resolve.events g none st.items a = (st.items.filter (complB g a)).filterMap (Resolve.evOf g none a) := by
    unfold Resolve.events
    exact filterMap_filter _ _ _ (fun it hit h => evOf_compl hg hnl (hc.aug0 it hit) h)
  rw [hev] at hcell
  by_cases hsh : st.items.any (fun it => g.rhsAt it.prod it.dot == some a) = true
  · -- a shift: no reduction candidate
    rw [if_pos hsh] at hraw
    have hnil : st.items.filter (complB g a) = [] := List.eq_nil_of_length_eq_zero (by omega)
    rw [hnil] at hcell
    simp only [List.filterMap_nil, Resolve.cell, Outcome.ok.injEq] at hcell
    subst hcell
    refine ⟨hc.cell1 a, fun s' h => h, ?_, ?_⟩
    · intro it hit hco _
      have : it ∈ st.items.filter (complB g a) := List.mem_filter.mpr ⟨hit, hco⟩
      rw [hnil] at this; simp at this
    · intro it hit hp hd ha
      have hco : complB g a it = true := by
        unfold complB
        simp only [Bool.and_eq_true, beq_iff_eq, List.contains_iff_mem]
        exact ⟨by rw [hd, hp], by rw [ha]; exact hc.aug0 it hit hp⟩
      have : it ∈ st.items.filter (complB g a) := List.mem_filter.mpr ⟨hit, hco⟩
      rw [hnil] at this; simp at this
  · -- no shift: the cell starts empty
    rw [if_neg hsh] at hraw
    have hinit : st.actions.getD a [] = [] := by
      cases hl : st.actions.getD a [] with
      | nil => rfl
      | cons x xs =>
        exfalso
        obtain ⟨s', hs'⟩ := hok.cells a x (by rw [hl]; exact List.mem_cons_self)
        obtain ⟨cr, c1, c2⟩ := hc.cellsound a s' (by rw [hl, hs']; exact List.mem_cons_self)
        obtain ⟨it, i1, i2⟩ := List.mem_map.mp c1
        apply hsh
        rw [List.any_eq_true]
        exact ⟨it, i1, by subst i2; simpa [core] using c2⟩
    rw [hinit] at hcell
    cases hf : st.items.filter (complB g a) with
    | nil =>
      rw [hf] at hcell
      simp only [List.filterMap_nil, Resolve.cell, Outcome.ok.injEq] at hcell
      subst hcell
      refine ⟨by simp, by rw [hinit]; simp, ?_, ?_⟩
      · intro it hit hco _
        have : it ∈ st.items.filter (complB g a) := List.mem_filter.mpr ⟨hit, hco⟩
        rw [hf] at this; simp at this
      · intro it hit hp hd ha
        have hco : complB g a it = true := by
          unfold complB
          simp only [Bool.and_eq_true, beq_iff_eq, List.contains_iff_mem]
          exact ⟨by rw [hd, hp], by rw [ha]; exact hc.aug0 it hit hp⟩
        have : it ∈ st.items.filter (complB g a) := List.mem_filter.mpr ⟨hit, hco⟩
        rw [hf] at this; simp at this
    | cons x xs =>
      have hxs : xs = [] := by
        rw [hf] at hraw
        simp only [List.length_cons] at hraw
        exact List.eq_nil_of_length_eq_zero (by omega)
      subst hxs
      have hx : x ∈ st.items ∧ complB g a x = true := by
        have : x ∈ st.items.filter (complB g a) := by rw [hf]; exact List.mem_cons_self
        exact List.mem_filter.mp this
      have honly : ∀ it ∈ st.items, complB g a it = true → it = x := by
        intro it hit hco
        have : it ∈ st.items.filter (complB g a) := List.mem_filter.mpr ⟨hit, hco⟩
        rw [hf] at this
        simpa using this
      rw [hf] at hcell
      simp only [List.filterMap_cons, List.filterMap_nil] at hcell
      have hxc := hx.2
      unfold complB at hxc
      simp only [Bool.and_eq_true, beq_iff_eq, List.contains_iff_mem] at hxc
      have hred : Resolve.isReducing g none x = true := by
        unfold Resolve.isReducing
        rw [infoOf_len]; simp [hxc.1]
      by_cases hau : Resolve.isAugProd g x.prod = true
      · have hp0 := isAugProd_zero hg hnl hau
        by_cases ha0 : a = 0
        · have hevx : Resolve.evOf g none a x = some .accept := by
            unfold Resolve.evOf
            simp [hred, hau, ha0, infoOf_len, hxc.1]
          rw [hevx] at hcell
          have : c = [Action.accept] := by
            have h2 : Resolve.cell Resolve.Fixes.current (cfgOf s) (Resolve.infoOf g) (Resolve.termAssoc g a)
                (lookupPrio st.maxPrio a) [] [Resolve.Ev.accept] = .ok [Action.accept] := rfl
            rw [h2] at hcell
            simpa using hcell.symm
          subst this
          refine ⟨by simp, by rw [hinit]; simp, ?_, fun _ _ _ _ _ => List.mem_cons_self⟩
          intro it hit hco hna
          have := honly it hit hco
          subst this
          rw [hau] at hna; simp at hna
        · have hevx : Resolve.evOf g none a x = none := by
            unfold Resolve.evOf
            simp [hred, hau, ha0]
          rw [hevx] at hcell
          simp only [Resolve.cell, Outcome.ok.injEq] at hcell
          subst hcell
          refine ⟨by simp, by rw [hinit]; simp, ?_, ?_⟩
          · intro it hit hco hna
            have := honly it hit hco
            subst this
            rw [hau] at hna; simp at hna
          · intro _ _ _ _ ha; exact absurd ha ha0
      · have hau' : Resolve.isAugProd g x.prod = false := by simpa using hau
        have hevx : Resolve.evOf g none a x = some (.red ⟨x.prod, x.dot⟩) := by
          unfold Resolve.evOf
          simp [hred, hau', hxc.2]
        rw [hevx] at hcell
        have : c = [Action.reduce x.prod x.dot] := by
          have h2 : Resolve.cell Resolve.Fixes.current (cfgOf s) (Resolve.infoOf g) (Resolve.termAssoc g a)
              (lookupPrio st.maxPrio a) [] [Resolve.Ev.red ⟨x.prod, x.dot⟩] = .ok [Action.reduce x.prod x.dot] := rfl
          rw [h2] at hcell
          simpa using hcell.symm
        subst this
        refine ⟨by simp, by rw [hinit]; simp, ?_, ?_⟩
        · intro it hit hco _
          have := honly it hit hco
          subst this
          exact List.mem_cons_self
        · intro it hit hp hd ha
          have hco : complB g a it = true := by
            unfold complB
            simp only [Bool.and_eq_true, beq_iff_eq, List.contains_iff_mem]
            exact ⟨by rw [hd, hp], by rw [ha]; exact hc.aug0 it hit hp⟩
          have := honly it hit hco
          subst this
          rw [hp] at hau
          exact absurd (isAugProd_of_zero hg) hau

end Rustemo.Table

namespace Rustemo.Table

variable {g : Grammar}

/-! ## items are determined by their cores -/

theorem nodup_core_inj : ∀ {l : List Item}, (l.map core).Nodup → ∀ {a b : Item}, a ∈ l → b ∈ l →
    core a = core b → a = b
  | [], _, _, _, ha, _, _ => by simp at ha
  | x :: xs, h, a, b, ha, hb, hab => by
    simp only [List.map_cons, List.nodup_cons] at h
    rcases List.mem_cons.mp ha with h1 | h1 <;> rcases List.mem_cons.mp hb with h2 | h2
    · rw [h1, h2]
    · subst h1
      exact absurd (List.mem_map.mpr ⟨b, h2, hab.symm⟩) h.1
    · subst h2
      exact absurd (List.mem_map.mpr ⟨a, h1, hab⟩) h.1
    · exact nodup_core_inj h.2 h1 h2 hab

theorem find?_core {l : List Item} (hnd : (l.map core).Nodup) {it : Item} (hit : it ∈ l) {p d : Nat}
    (hp : it.prod = p) (hd : it.dot = d) : l.find? (fun x => x.prod == p && x.dot == d) = some it := by
  cases hf : l.find? (fun x => x.prod == p && x.dot == d) with
  | none =>
    have := List.find?_eq_none.mp hf it hit
    simp [hp, hd] at this
  | some s0 =>
    have h1 := List.mem_of_find?_eq_some hf
    have h2 := List.find?_some hf
    simp only [Bool.and_eq_true, beq_iff_eq] at h2
    have : s0 = it := nodup_core_inj hnd h1 hit (by simp [core, h2.1, h2.2, hp, hd])
    rw [this]

theorem mem_targetsOf {st : State} {X s' : Nat} (h : HasTrans g st X s') : s' ∈ targetsOf st := by
  unfold targetsOf
  rcases h with ⟨_, hm⟩ | ⟨_, hm⟩
  · apply List.mem_append_right
    rw [List.mem_flatMap]
    have hlt : X < st.actions.size := by
      rcases Nat.lt_or_ge X st.actions.size with h' | h'
      · exact h'
      · rw [Array.getD_eq_getD_getElem?, Array.getElem?_eq_none h'] at hm; simp at hm
    refine ⟨st.actions[X], by simp, ?_⟩
    rw [Array.getD_eq_getD_getElem?, Array.getElem?_eq_getElem hlt] at hm
    simp only [Option.getD_some] at hm
    exact List.mem_filterMap.mpr ⟨_, hm, rfl⟩
  · apply List.mem_append_left
    have hlt : X - g.nterms < st.gotos.size := by
      rcases Nat.lt_or_ge (X - g.nterms) st.gotos.size with h' | h'
      · exact h'
      · rw [Array.getD_eq_getD_getElem?, Array.getElem?_eq_none h'] at hm; simp at hm
    rw [Array.getD_eq_getD_getElem?, Array.getElem?_eq_getElem hlt] at hm
    simp only [Option.getD_some] at hm
    exact List.mem_filterMap.mpr ⟨some s', by rw [← hm]; simp, rfl⟩

theorem GWF_of_GW (hg : GW g) : GWF g := by
  refine ⟨fun q qr hq => (hg.prod_ok q qr hq).1, hg.aug0, ?_, ?_⟩
  · intro q qr hq hl
    have := Rustemo.mem_prodsOf hq
    rw [hl, hg.aug_prods] at this
    simpa using this
  · intro p pr hp hm
    exact ((hg.prod_ok p pr hp).2.2 _ hm).2.2.1 rfl

/-- **construction_complete**: with no Layout rule, for LALR / LALR_PAGER, a table the construction returns
    in which no cell ever had two candidates is complete -/
theorem build_complete (hg : gwf g = true) (hnl : g.auglIdx = none) {s : Settings} {fuel : Nat} {t : Table}
    (h : build g s fuel = .ok t) (htt : s.tableType ≠ "LALR_RN") (hraw : t.rawDeterministic g = true) :
    Complete g t ∧ GWF g := by
  have hG := GW.of_gwf hg
  obtain ⟨sts, autos, hF⟩ := built_final hG (build_ok h)
  have hrn := hF.rn htt
  have hI := hF.inv
  have hC := hF.invc
  -- the final state over the state after `propagate_follows`
  have acc : ∀ (i : Nat) (st' : State), t.states[i]? = some st' → ∃ st, sts[i]? = some st ∧
      st'.items = st.items ∧ st'.gotos = st.gotos ∧
      ∀ a, a < g.nterms → CellRaw g st a (st'.actions.getD a []) := by
    intro i st' hs
    obtain ⟨st, h1, h2⟩ := hF.fin i st' hs
    rw [hrn] at h2
    obtain ⟨f1, f2, _, _, _, _, f7, _⟩ := finishState_spec h2
    refine ⟨st, h1, f1, f2, ?_⟩
    intro a ha
    obtain ⟨c, c1, c2⟩ := f7 a ha
    rw [Array.getD_eq_getD_getElem?, c1]
    apply cellRaw hG hnl (hI.st i st h1) (hC.st i st h1) c2
    unfold Table.rawDeterministic at hraw
    rw [Array.all_eq_true_iff_forall_mem] at hraw
    have := hraw st' (Array.mem_of_getElem? hs)
    rw [List.all_eq_true] at this
    have := this a (List.mem_range.mpr ha)
    unfold State.rawCandidates at this
    rw [f1] at this
    simp only [decide_eq_true_eq] at this
    exact this
  have ex : ∀ (i : Nat) (st : State), sts[i]? = some st → ∃ st', t.states[i]? = some st' ∧
      st'.items = st.items ∧ st'.gotos = st.gotos ∧
      ∀ a, a < g.nterms → CellRaw g st a (st'.actions.getD a []) := by
    intro i st hs
    have hlt : i < t.states.size := by rw [hF.size]; exact lt_size_of_getElem? hs
    obtain ⟨st0, a1, a2, a3, a4⟩ := acc i t.states[i] (Array.getElem?_eq_getElem hlt)
    rw [hs] at a1
    simp only [Option.some.injEq] at a1
    subst a1
    exact ⟨_, Array.getElem?_eq_getElem hlt, a2, a3, a4⟩
  obtain ⟨fuel0, hfs⟩ := hF.first
  have hw := (firstSets_spec hG hfs).1
  have hfo := firstOk_ctxOf hG hfs
  have hnt : ∀ (p : Nat) (pr : Prod), g.prods[p]? = some pr → g.nterms ≤ pr.lhs := fun p pr hp => (hG.prod_ok p pr hp).1
  refine ⟨⟨?_, ?_, ?_, ?_, ?_, ?_⟩, GWF_of_GW hG⟩
  · -- closure
    intro si p d a pr B ⟨st', hs, it, hit, hp, hd, ha⟩ hpr hB hBn q qr hq hl b hf
    obtain ⟨st, a1, a2, _, _⟩ := acc si st' hs
    rw [a2] at hit
    obtain ⟨st0, f1, f2⟩ := hF.fix si (lt_size_of_getElem? a1)
    rw [a1] at f1
    simp only [Option.some.injEq] at f1
    subst f1
    obtain ⟨dsi, d1, d2⟩ := closureRound_fix f2 it hit
    obtain ⟨nf, n1, n2⟩ := itemDemands_nonterm d1 (by rw [hp]; exact hpr) (by rw [hd]; exact hB) hBn
    have hqm : q ∈ Canon.prodsOf g B := by rw [← hl]; exact Rustemo.mem_prodsOf hq
    obtain ⟨it', j1, j2, j3⟩ := d2 (q, nf) (by rw [n2]; exact List.mem_map.mpr ⟨q, hqm, rfl⟩)
    have hb := Rustemo.firstOf_mem g (ctxOf g t.firsts) hfo hnt _ a b hf
    have hbn : b ∈ nf := newFollow_covers hG hw n1 ha (by rw [hd]; exact hb)
    simp only [core, _root_.Prod.mk.injEq] at j2
    exact ⟨st', hs, it', by rw [a2]; exact j1, j2.1, j2.2, j3 b hbn⟩
  · -- trans
    intro si p d a pr X ⟨st', hs, it, hit, hp, hd, ha⟩ hpr hX
    obtain ⟨st, a1, a2, a3, a4⟩ := acc si st' hs
    rw [a2] at hit
    have hlt := lt_size_of_getElem? a1
    have hrhs : g.rhsAt (core it).1 (core it).2 = some X := by
      simp only [core]; unfold Grammar.rhsAt; rw [hp, hpr, hd]; exact hX
    obtain ⟨s', t1, stt, t2, t3⟩ := hC.trans si st a1 hlt (core it) (List.mem_map.mpr ⟨it, hit, rfl⟩) X hrhs
    obtain ⟨tit, u1, u2⟩ := List.mem_map.mp t3
    simp only [core, _root_.Prod.mk.injEq] at u2
    -- the transition is saturated
    have hgd : sts.getD si default = st := by rw [Array.getD_eq_getD_getElem?, a1]; rfl
    obtain ⟨si', sj', e1, e2, e3⟩ := hF.stable si hlt s' (by rw [hgd]; exact mem_targetsOf t1)
    rw [a1] at e1; rw [t2] at e2
    simp only [Option.some.injEq] at e1 e2
    subst e1 e2
    have hk : isKernel tit = true := isKernel_of_dot (by omega)
    obtain ⟨_, e4⟩ := e3 tit u1 hk
    have hfind := find?_core (hI.st si st a1).nodup hit (p := tit.prod) (d := tit.dot - 1) (by omega) (by omega)
    have hsub := e4 it hfind
    obtain ⟨stt', x1, x2, _, _⟩ := ex s' stt t2
    refine ⟨s', ?_, stt', x1, tit, by rw [x2]; exact u1, by omega, by omega, hsub a ha⟩
    unfold Table.trans
    rcases t1 with ⟨hXt, hm⟩ | ⟨hXn, hm⟩
    · rw [if_pos hXt]
      unfold Table.cell
      rw [hs]
      exact (a4 X hXt).shift s' hm
    · rw [if_neg (by omega)]
      unfold Table.goto Table.gotoNt
      rw [if_pos hXn, hs]
      simp only
      rw [a3]; exact hm
  · -- reduce
    intro si p a pr hpr ⟨st', hs, it, hit, hp, hd, ha⟩ hp0
    obtain ⟨st, a1, a2, _, a4⟩ := acc si st' hs
    rw [a2] at hit
    have hat : a < g.nterms := hF.la si st a1 it hit a ha
    have hco : complB g a it = true := by
      unfold complB Grammar.prodLen
      rw [hp, hpr]
      simp only [Bool.and_eq_true, beq_iff_eq, List.contains_iff_mem]
      exact ⟨hd, ha⟩
    have hna : Resolve.isAugProd g it.prod = false := by
      apply Bool.eq_false_iff.mpr
      intro hc
      exact hp0 (by rw [← hp]; exact isAugProd_zero hG hnl hc)
    have := (a4 a hat).reduce it hit hco hna
    unfold Table.cell
    rw [hs]
    rw [hp, hd] at this
    exact this
  · -- accept
    intro si pr hpr ⟨st', hs, it, hit, hp, hd⟩
    obtain ⟨st, a1, a2, _, a4⟩ := acc si st' hs
    rw [a2] at hit
    have := (a4 0 hG.nterms_pos).accept it hit hp (by unfold Grammar.prodLen; rw [hpr]; exact hd) rfl
    unfold Table.cell
    rw [hs]; exact this
  · -- det
    intro si a
    unfold Table.cell
    split
    · rename_i st' hs
      obtain ⟨st, a1, _, _, a4⟩ := acc si st' hs
      rcases Nat.lt_or_ge a g.nterms with h' | h'
      · exact (a4 a h').det
      · obtain ⟨st0, b1, b2⟩ := hF.fin si st' hs
        have hsz := (finishState_spec b2).2.2.2.2.1
        rw [Array.getD_eq_getD_getElem?, Array.getElem?_eq_none (by omega)]
        simp
    · simp
  · -- start
    obtain ⟨sta, s1, _, it, s3, s4, s5⟩ := hI.starts (0, 0) (by
      cases hF.autos with
      | main => simp
      | layout => simp)
    obtain ⟨st', x1, x2, _, _⟩ := ex 0 sta s1
    simp only [core, _root_.Prod.mk.injEq] at s4
    exact ⟨st', x1, it, by rw [x2]; exact s3, s4.1, s4.2, s5⟩

end Rustemo.Table
