import Rustemo.Proofs.GlrRun10
/-!
# One level of the run under `LexDet`, taken apart (for the error theorems of C12, GLR half)

`frontierStep_parts` re-runs the first half of the proof of `frontierStep_run` (Proofs/GlrRun9.lean) and EXPORTS the
intermediate graphs and what is known about them (`CFSpec` facts after `create_frontier`, `Mid` after the reducer
phase, `SI` after the shifter), which `frontierStep_run` keeps local.
-/
namespace Rustemo.Glr
open Rustemo

theorem frontierStep_parts {env : Env} (hT : TableOk env) (hC : CompleteRN env.g env.t) (hW : GWF env.g)
    (hNS : ∀ s s', Action.shift s' ∉ env.t.cell s 0) {pp : Bool} {fuel n : Nat} {tok : Nat → Tok} {P L : Nat → Pos}
    (hL : LexDet env pp fuel n tok P L) {F : Nat} (hF : F ≤ n) {st st' : St} {base base' : List Nat}
    {subs : Nat → SubFrontier} (RI : RunInv env tok P F st base subs)
    (hok : frontierStep env pp fuel F st base = .ok (st', base')) :
    ∃ (g1 : Gss) (fr : Frontier) (qs : List (List Reduction)) (st2 st3 : St) (sub0 sub : SubFrontier) (m : BaseMap)
      (done : List (Nat × Nat)),
      foldO (frontierHead env pp fuel) base (st.gss, []) = .ok (g1, fr) ∧
      initialProcess env ⟨g1, [], st.accepted⟩ fr = .ok (qs, st2) ∧
      reduceAll env fuel fr qs st2 = .ok st3 ∧
      shifter env (F + 1) st3 = .ok (st', base') ∧
      g1.edges = st.gss.edges ∧
      (∀ (j : Nat) (x : Head), g1.heads[j]? = some x →
        ∃ y : Head, st.gss.heads[j]? = some y ∧ y.frontier = x.frontier ∧ y.state = x.state) ∧
      FrameLt F st.gss g1 ∧
      StOk env F ⟨g1, [], st.accepted⟩ ∧
      FrShape (L F, (tok F).kind) fr sub0 ∧ SubOk g1 F sub0 ∧
      Mid env tok F (L F) base g1 st.accepted sub st3 ∧
      (∀ x ∈ st3.shifts, ShiftFact env F (tok F) (L F) (P (F + 1)) st3.gss x) ∧
      base' = m.map (·.2) ∧ SI env F (tok F) (P (F + 1)) st3.gss done st'.gss m ∧
      FrameLt F st.gss st'.gss := by
  unfold frontierStep at hok
  obtain ⟨⟨g1, fr⟩, hcf, hok⟩ := obind_eq_ok hok
  obtain ⟨⟨qs, st2⟩, hip, hok⟩ := obind_eq_ok hok
  obtain ⟨st3, hra, hsh⟩ := obind_eq_ok hok
  simp only at hip hra hsh
  have hst1 : ({ st with gss := g1 } : St) = ⟨g1, [], st.accepted⟩ := by
    have := RI.noshift
    cases st
    simp only at this
    subst this
    rfl
  rw [hst1] at hip
  -- the base heads
  let S : Nat → Nat := fun i => match st.gss.heads[i]? with
    | some hd => hd.state
    | none => 0
  have hS : ∀ (i : Nat) (hd : Head), st.gss.heads[i]? = some hd → S i = hd.state := by
    intro i hd hi; simp only [S, hi]
  have hb : ∀ i ∈ base, ∃ hd0 : Head, st.gss.heads[i]? = some hd0 ∧ hd0.state = S i ∧ hd0.tok = none ∧ hd0.pos = P F ∧
      hd0.frontier = F ∧ hd0.state < env.t.states.size := by
    intro i hi
    obtain ⟨hd, k1, k2, k3, k4⟩ := RI.bpos i hi
    exact ⟨hd, k1, (hS i hd k1).symm, k3, k2, k4, (RI.sok.g.heads i hd k1).range⟩
  have hinj : ∀ i ∈ base, ∀ j ∈ base, S i = S j → i = j := by
    intro i hi j hj heq
    obtain ⟨x, k1, k2, _⟩ := hb i hi
    obtain ⟨y, m1, m2, _⟩ := hb j hj
    exact RI.bfun i hi j hj x y k1 m1 (by rw [k2, m2, heq])
  unfold createFrontier at hcf
  obtain ⟨sub0, hshape, sp⟩ := createFrontier_lexdet hL hF S base st.gss g1 [] fr [] RI.nodup hinj hb
    (Or.inl ⟨rfl, rfl⟩) hcf
  have hsat1 := createFrontier_sat (A := True) (fun h => absurd True.intro h) pp fuel RI.sok.g RI.bok
  unfold createFrontier at hsat1
  rw [hcf] at hsat1
  obtain ⟨hg1, hx1, _⟩ := hsat1
  simp only at hg1 hx1
  -- heads of `g1` against heads of the old graph
  have heads1 : ∀ (j : Nat) (x : Head), g1.heads[j]? = some x →
      ∃ y : Head, st.gss.heads[j]? = some y ∧ y.frontier = x.frontier ∧ y.state = x.state := by
    intro j x hj
    by_cases hjb : j ∈ base
    · obtain ⟨hd', k1, k2, k3, _⟩ := sp.upd j hjb
      rw [hj] at k1; injection k1 with k1; subst k1
      obtain ⟨y, m1, m2, _, _, m5, _⟩ := hb j hjb
      exact ⟨y, m1, by rw [m5, k3], by rw [m2, k2]⟩
    · rw [sp.other j hjb] at hj
      exact ⟨x, hj, rfl, rfl⟩
  have gu1 : GU F g1 := RI.gu.of_heads sp.edges (fun j x hj => by
    obtain ⟨y, k1, k2, _⟩ := heads1 j x hj; exact ⟨y, k1, k2⟩)
  have hbaseF : ∀ i ∈ base, ∀ x : Head, st.gss.heads[i]? = some x → x.frontier = F := by
    intro i hi x hx
    obtain ⟨y, k1, _, _, k4⟩ := RI.bpos i hi
    rw [hx] at k1; injection k1 with k1; subst k1; exact k4
  have frame0 : FrameLt F st.gss g1 := by
    refine ⟨?_, ?_, fun e ed _ he _ _ => by rw [sp.edges]; exact he, fun e ed _ he _ _ => by rw [sp.edges] at he; exact he,
      fun _ _ _ _ _ _ _ _ => by rw [sp.nodes], ?_, fun e ed he => ⟨ed, by rw [sp.edges]; exact he, rfl, rfl, fun _ h => h⟩,
      fun n tk sp' hn => by rw [sp.nodes]; exact hn⟩
    · intro i hd hi hl
      have hib : i ∉ base := fun hib => by have := hbaseF i hib hd hi; omega
      rw [sp.other i hib]; exact hi
    · intro i hd hi hl
      have hib : i ∉ base := fun hib => by
        obtain ⟨hd', k1, _, k3, _⟩ := sp.upd i hib
        rw [hi] at k1; injection k1 with k1; subst k1; omega
      rw [sp.other i hib] at hi; exact hi
    · intro i hd hi
      by_cases hib : i ∈ base
      · obtain ⟨hd', k1, k2, k3, _⟩ := sp.upd i hib
        exact ⟨hd', k1, by rw [k2, hS i hd hi], by rw [k3, hbaseF i hib hd hi]⟩
      · exact ⟨hd, by rw [sp.other i hib]; exact hi, rfl, rfl⟩
  have hsub0 : SubOk g1 F sub0 := by
    intro s h hm
    rcases sp.sub_inv (s, h) hm with k | ⟨k1, k2, k3⟩
    · simp at k
    · obtain ⟨hd', m1, m2, m3, _, m5, _⟩ := sp.upd h k1
      exact ⟨hd', m1, by rw [m2]; exact k3.symm, m3, by rw [m5 k2]; rfl⟩
  have hfun : ∀ (s h h' : Nat), (s, h) ∈ sub0 → (s, h') ∈ sub0 → h = h' := by
    intro s h h' hm hm'
    rcases sp.sub_inv (s, h) hm with k | ⟨k1, _, k3⟩
    · simp at k
    · rcases sp.sub_inv (s, h') hm' with k' | ⟨k1', _, k3'⟩
      · simp at k'
      · exact hinj h k1 h' k1' (by rw [← k3, ← k3'])
  have hkind : ∀ (s h : Nat), (s, h) ∈ sub0 → ∃ hd : Head, g1.heads[h]? = some hd ∧ hd.tok = some (tok F) := by
    intro s h hm
    rcases sp.sub_inv (s, h) hm with k | ⟨k1, k2, _⟩
    · simp at k
    · obtain ⟨hd', m1, _, _, _, m5, _⟩ := sp.upd h k1
      exact ⟨hd', m1, m5 k2⟩
  have hlevel : ∀ (h : Nat) (hd : Head), g1.heads[h]? = some hd → hd.frontier = F → h ∈ base := by
    intro h hd hh hl
    obtain ⟨y, k1, k2, _⟩ := heads1 h hd hh
    exact RI.blevel h y k1 (by rw [k2, hl])
  have hdown : ∀ (e : Nat) (ed : Edge) (hs hd : Head), g1.edges[e]? = some ed → g1.heads[ed.src]? = some hs →
      g1.heads[ed.dst]? = some hd → hs.frontier = F → hd.frontier < F := by
    intro e ed hs hd he h1 h2 hl
    rw [sp.edges] at he
    obtain ⟨y1, k1, f1, _⟩ := heads1 _ _ h1
    obtain ⟨y2, k2, f2, _⟩ := heads1 _ _ h2
    have := RI.bdown e ed y1 y2 he k1 k2 (by rw [f1, hl])
    omega
  have htp : ∀ (h : Nat) (hd : Head), g1.heads[h]? = some hd → hd.frontier = F →
      hd.pos = L F ∧ ∀ t, hd.tok = some t → t = tok F := by
    intro h hd hh hl
    obtain ⟨hd', m1, _, _, m4, m5, m6⟩ := sp.upd h (hlevel h hd hh hl)
    rw [hh] at m1; injection m1 with m1; subst m1
    refine ⟨m4, ?_⟩
    intro t ht
    by_cases hc : env.t.cell (S h) (tok F).kind = []
    · rw [m6 hc] at ht; simp at ht
    · rw [m5 hc] at ht; injection ht with ht; exact ht.symm
  have halive : ∀ i ∈ base, ∀ hd : Head, g1.heads[i]? = some hd → env.t.cell hd.state (tok F).kind ≠ [] →
      (hd.state, i) ∈ sub0 := by
    intro i hi hd hh hne
    obtain ⟨hd', m1, m2, _⟩ := sp.upd i hi
    rw [hh] at m1; injection m1 with m1; subst m1
    rw [m2]
    exact sp.sub_new i hi (by rw [← m2]; exact hne)
  have hbase1 : ∀ i ∈ base, ∃ hd : Head, g1.heads[i]? = some hd := by
    intro i hi
    obtain ⟨hd', m1, _⟩ := sp.upd i hi
    exact ⟨hd', m1⟩
  have hbst1 : ∀ i ∈ base, ∀ hd : Head, g1.heads[i]? = some hd →
      ∃ hd0 : Head, st.gss.heads[i]? = some hd0 ∧ hd0.state = hd.state := by
    intro i hi hd hh
    obtain ⟨y, k1, _, k3⟩ := heads1 i hd hh
    exact ⟨y, k1, k3⟩
  have hbfun1 : ∀ i ∈ base, ∀ j ∈ base, ∀ (hd hd' : Head), g1.heads[i]? = some hd → g1.heads[j]? = some hd' →
      hd.state = hd'.state → i = j := by
    intro i hi j hj hd hd' hh hh' hs
    obtain ⟨x, hx, hxs⟩ := hbst1 i hi hd hh
    obtain ⟨y, hy, hys⟩ := hbst1 j hj hd' hh'
    exact RI.bfun i hi j hj x y hx hy (by rw [hxs, hys, hs])
  have hbterm1 : ∀ i ∈ base, ∀ hd : Head, g1.heads[i]? = some hd → hd.state = 0 ∨ env.t.symAt hd.state < env.g.nterms := by
    intro i hi hd hh
    obtain ⟨x, hx, hxs⟩ := hbst1 i hi hd hh
    rw [← hxs]
    exact RI.bterm i hi x hx
  have hs1 : StOk env F ⟨g1, [], st.accepted⟩ :=
    ⟨hg1, fun _ h => by simp at h, fun a h => (RI.sok.acc a h).ext hx1.ext⟩
  -- the reducer phase
  obtain ⟨sub, mid, hsubsub⟩ := reducer_phase hT hC hW hs1 gu1 hshape hsub0 hfun hkind hlevel hdown htp halive hbase1 hbfun1 hbterm1 hip hra
  -- the shifter
  have hfacts : ∀ x ∈ st3.shifts, ShiftFact env F (tok F) (L F) (P (F + 1)) st3.gss x := by
    intro x hx
    obtain ⟨hd, tk', k1, k2, k3, k4⟩ := mid.st.shifts x hx
    obtain ⟨p1, p2⟩ := mid.tp _ hd k1 k3
    have htk : tk' = tok F := p2 tk' k2
    subst htk
    refine ⟨hd, k1, k2, k3, p1, k4, ?_⟩
    rcases Nat.lt_or_ge F n with hlt | hge
    · exact (hL.step F hlt).symm
    · have hFn : F = n := by omega
      exfalso
      rw [hFn, hL.stop] at k4
      exact hNS _ _ k4
  obtain ⟨m, done, hbase', hshifts', hacc', hdone, si⟩ := shifter_run hT mid.st mid.gu hfacts hsh
  have hsat3 := shifter_sat (A := True) hT mid.st
  rw [hsh] at hsat3
  obtain ⟨hst', _, hbok', _⟩ := hsat3
  simp only at hst' hbok'
  have hmemb : ∀ h ∈ base', ∃ k, (k, h) ∈ m := by
    intro h hh
    rw [hbase'] at hh
    obtain ⟨⟨k, v⟩, hkv, heq⟩ := List.mem_map.mp hh
    simp only at heq
    subst heq
    exact ⟨k, hkv⟩
  have hframeAll : FrameLt F st.gss st'.gss := (frame0.trans mid.frame).trans (si.frame.mono (Nat.le_succ F))
  exact ⟨g1, fr, qs, st2, st3, sub0, sub, m, done, hcf, hip, hra, hsh, sp.edges, heads1, frame0, hs1, hshape, hsub0, mid,
    hfacts, hbase', si, hframeAll⟩

end Rustemo.Glr
