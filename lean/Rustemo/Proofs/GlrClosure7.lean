import Rustemo.Proofs.GlrClosure6
/-!
# Paths found are chains ending at the start head; `reducePath` keeps the uniqueness invariants
-/
namespace Rustemo.Glr
open Rustemo

theorem expandOne_chain {env : Env} {g : Gss} (hg : GInv env g) {v0 : Nat} {p : Path}
    (h : ∃ Xs, ChainEnd env.t g p.parents Xs p.root v0) :
    ∀ q ∈ expandOne g p, ∃ Xs, ChainEnd env.t g q.parents Xs q.root v0 := by
  intro q hq
  unfold expandOne at hq
  rw [List.mem_filterMap] at hq
  obtain ⟨e, he, hq⟩ := hq
  obtain ⟨ed, hed, hsrc⟩ := mem_backedges.mp he
  rw [hed] at hq
  injection hq with hq; subst hq
  obtain ⟨Xs, hc⟩ := h
  obtain ⟨hs, _, hhs, _, _, _⟩ := (hg.edges e ed hed).ends
  exact ⟨env.t.symAt hs.state :: Xs, ed, hs, _, _, hed, hhs, rfl, rfl, rfl, by rw [hsrc]; exact hc⟩

theorem expandPaths_chain {env : Env} {g : Gss} (hg : GInv env g) {v0 : Nat} :
    ∀ (n : Nat) (ps : List Path), (∀ p ∈ ps, ∃ Xs, ChainEnd env.t g p.parents Xs p.root v0) →
      ∀ q ∈ expandPaths g n ps, ∃ Xs, ChainEnd env.t g q.parents Xs q.root v0
  | 0, ps, h => by simpa [expandPaths] using h
  | n+1, ps, h => by
    simp only [expandPaths]
    apply expandPaths_chain hg n
    intro q hq
    rw [List.mem_flatMap] at hq
    obtain ⟨p, hp, hq⟩ := hq
    exact expandOne_chain hg (h p hp) q hq

/-- every path found for a reduction is a chain from its root to the start head of the reduction -/
theorem findReductionPaths_chain {env : Env} {g : Gss} (hg : GInv env g) {r : Reduction} {paths : List Path}
    {startHead : Nat} (hs : startHeadOf g r = .ok startHead) (hp : findReductionPaths g r = .ok paths) :
    ∀ q ∈ paths, ∃ Xs, ChainEnd env.t g q.parents Xs q.root startHead := by
  unfold findReductionPaths at hp
  unfold startHeadOf at hs
  cases hst : r.start with
  | node n =>
    rw [hst] at hp hs
    simp only at hp hs
    injection hp with hp; subst hp
    injection hs with hs; subst hs
    intro q hq
    simp only [List.mem_singleton] at hq
    subst hq
    exact ⟨[], rfl, rfl⟩
  | edge e =>
    rw [hst] at hp hs
    simp only at hp hs
    obtain ⟨ed, hed, hp⟩ := obind_eq_ok hp
    obtain ⟨ed', hed', hs⟩ := obind_eq_ok hs
    rw [hed] at hed'; injection hed' with hed'; subst hed'
    injection hs with hs; subst hs
    injection hp with hp; subst hp
    have hed2 := edge_eq_ok hed
    obtain ⟨hsr, _, hhs, _, _, _⟩ := (hg.edges e ed hed2).ends
    apply expandPaths_chain hg
    intro p hp
    simp only [List.mem_singleton] at hp
    subst hp
    exact ⟨[env.t.symAt hsr.state], ed, hsr, _, _, hed2, hhs, rfl, rfl, rfl, rfl, rfl⟩

/-- the root of a chain that ends in the sub-frontier is in the sub-frontier if it is on its level -/
theorem chain_root_inSub {env : Env} {g : Gss} (hg : GInv env g) {F a : Nat} {sub : SubFrontier}
    (hu : UInv F a g sub) {P Xs : List Nat} {u v : Nat} {hu' : Head} (hc : ChainEnd env.t g P Xs u v)
    (hv : InSub sub v) (hhu : g.heads[u]? = some hu') (hF : hu'.frontier = F) : InSub sub u := by
  cases P with
  | nil => rw [hc.2]; exact hv
  | cons e es =>
    obtain ⟨ed, hs, X, Xs', he, hhs, _, hdst, _, _⟩ := hc
    have h1 := hu.edgeMono e ed hs hu' he hhs (by rw [hdst]; exact hhu)
    have h2 := hu.noAbove _ hs hhs
    have := (hu.levelIn e ed hs hu' he hhs (by rw [hdst]; exact hhu) (by omega) hF).2
    rw [hdst] at this
    exact this

end Rustemo.Glr
