import Rustemo.Model.Front
/-!
# Example ASTs (witnesses of the findings, non-vacuity instances) used by `Props/C09.lean`

Each `def` is the File AST of the grammar text in its doc comment (as `tools/gramtext.py` renders it).
-/
namespace Rustemo.Front.Ex

def tA : TermRule := { name := nm "Ta", recog := some (.str (nm "a")) }
def tB : TermRule := { name := nm "Tb", recog := some (.str (nm "b")) }
def tC : TermRule := { name := nm "Tc", recog := some (.str (nm "c")) }

/-- a plain reference -/
def rf (n : String) : Assign := .ref { gsym := some (.name (nm n)), rep := none }
/-- a reference with repetition sugar -/
def rp (n : String) (op : RepOp) (sep : Option String) : Assign :=
  .ref { gsym := some (.name (nm n)), rep := some { op := op, mods := sep.map (fun s => [nm s]) } }
def alt (as : List Assign) (ms : List MetaItem := []) : Alt := { assigns := as, metas := ms }
def rule (n : String) (alts : List Alt) (ms : List MetaItem := []) : Rule := { name := nm n, alts := alts, metas := ms }
def file (rs : List Rule) (ts : List TermRule := [tA, tB, tC]) : File := { rules := some rs, terms := some ts }

/-- `E {right}: E Tb E {left} | Ta;` (F2) -/
def fF2 : File := file [rule "E" [alt [rf "E", rf "Tb", rf "E"] [.kw .left], alt [rf "Ta"]] [.kw .right]]

/-- `E {left}: E Tb E {right} | Ta;` (the direction the repository's own test checks) -/
def fF2ok : File := file [rule "E" [alt [rf "E", rf "Tb", rf "E"] [.kw .right], alt [rf "Ta"]] [.kw .left]]

/-- `S: Ta+[Tb] Tc Ta+;` (F5) -/
def fF5 : File := file [rule "S" [alt [rp "Ta" .oneOrMore (some "Tb"), rf "Tc", rp "Ta" .oneOrMore none]]]

/-- `S: A+ A1; A1: Tb; A: Ta;` (F5b: a user rule named like the helper) -/
def fF5b : File := file [rule "S" [alt [rp "A" .oneOrMore none, rf "A1"]], rule "A1" [alt [rf "Tb"]],
  rule "A" [alt [rf "Ta"]]]

/-- `S: A1 B; A1: Tb A+; A: Ta; B: Ta;` (a rule that is its own helper; a later rule is referenced) -/
def fSelf : File := file [rule "S" [alt [rf "A1", rf "B"]], rule "A1" [alt [rf "Tb", rp "A" .oneOrMore none]],
  rule "A" [alt [rf "Ta"]], rule "B" [alt [rf "Ta"]]]

/-- `A1: Tb A+; A: Ta;` (a rule that is its own helper, without a later reference) -/
def fSelf2 : File := file [rule "A1" [alt [rf "Tb", rp "A" .oneOrMore none]], rule "A" [alt [rf "Ta"]]]

/-- `S: a=EMPTY Ta;` (F18) -/
def fF18 : File := file [rule "S" [alt [.plain (nm "a") { gsym := some (.name kEMPTY), rep := none }, rf "Ta"]]]

/-- `S {99999999999}: Ta;` (F9) -/
def fBigInt : File := file [rule "S" [alt [rf "Ta"]] [.prio 99999999999]]

/-- `terminals Ta: 'a';` (F9) -/
def fTermsOnly : File := { rules := none, terms := some [tA] }

/-- `S: (Ta Tb) Ta;` (F9) -/
def fGroup : File := file [rule "S" [alt [.ref { gsym := none, rep := none }, rf "Ta"]]]

/-- `S: (Ta Tb)+ Ta;` (F9) -/
def fGroupRep : File :=
  file [rule "S" [alt [.ref { gsym := none, rep := some { op := .oneOrMore, mods := none } }, rf "Ta"]]]

/-- `S: Ta*! Tb;` (F9) -/
def fGreedy : File := file [rule "S" [alt [rp "Ta" .zeroOrMoreGreedy none, rf "Tb"]]]

/-- `S: Ta+[Tb, Tc];` (F9) -/
def fMods : File :=
  file [rule "S" [alt [.ref { gsym := some (.name (nm "Ta")), rep := some { op := .oneOrMore, mods := some [nm "Tb", nm "Tc"] } }]]]

/-- `S: Ta; terminals Ta: 'a'; Ta: 'b';` (duplicate terminal) -/
def fDupTerm : File := file [rule "S" [alt [rf "Ta"]]] [tA, { name := nm "Ta", recog := some (.str (nm "b")) }]

/-- `S: Ta; terminals Ta: 'a'; Ta: 'b'; Ta: 'c'; Ta: 'd'; Ta: 'e';` (five times the same terminal) -/
def fDupTerm5 : File := file [rule "S" [alt [rf "Ta"]]] [tA, tA, tA, tA, tA]

/-- an AST no text produces: an empty rule list -/
def fNoRule : File := { rules := some [], terms := some [tA] }

/-- an AST no text produces: the first rule has no alternative and is named like a terminal -/
def fNoAlt : File := { rules := some [{ name := nm "Ta", alts := [] }], terms := some [tA] }

/-- a regular grammar with all kinds of sugar:
`S: A? Tb*[Tc] x=Ta+ | 'c' A?; A: Ta Tb+[Tc] {left, 5} | EMPTY;` -/
def fGood : File := file
  [rule "S" [alt [rp "A" .optional none, rp "Tb" .zeroOrMore (some "Tc"),
                  .plain (nm "x") { gsym := some (.name (nm "Ta")), rep := some { op := .oneOrMore, mods := none } }],
             alt [.ref { gsym := some (.str (nm "c")), rep := none }, rp "A" .optional none]],
   rule "A" [alt [rf "Ta", rp "Tb" .oneOrMore (some "Tc")] [.kw .left, .prio 5],
             alt [.ref { gsym := some (.name kEMPTY), rep := none }]] [.kw .nops]]

/-- `S: Ta {A.b};` (a production kind that is no identifier) -/
def fKind : File := file [rule "S" [alt [rf "Ta"] [.kind (nm "A.b")]]]

/-- `S {fn}: Ta;` (an inherited kind that is a Rust keyword) -/
def fKindKw : File := file [rule "S" [alt [rf "Ta"]] [.kind (nm "fn")]]

/-- `S: Ta STOP;` -/
def fStop : File := file [rule "S" [alt [rf "Ta", rf "STOP"]]]
/-- `S: Ta STOP*;` (the reference is in the helper rule `STOP1: STOP1 STOP | STOP`) -/
def fStopSugar : File := file [rule "S" [alt [rf "Ta", rp "STOP" .zeroOrMore none]]]
/-- `S: Ta+[STOP];` -/
def fStopSep : File := file [rule "S" [alt [rp "Ta" .oneOrMore (some "STOP")]]]
/-- `S: x=STOP Ta;` -/
def fStopNamed : File := file [rule "S" [alt [.plain (nm "x") { gsym := some (.name kSTOP), rep := none }, rf "Ta"]]]

/-- the variant of `/repo` at HEAD 3da879f (= `Front.repoVariant` when this was written): everything repaired
except the separator in helper names (F5), the integer literal (F9) and helper-name clashes (F5b) -/
def v3da879f : Fixes :=
  { emptyErr := true, assocOne := true, groupErr := true, greedyErr := true, modifiersErr := true,
    noRulesErr := true, dupNameErr := true, kindIdentErr := true, stopRefErr := true }

/-- `S: Ta; AUG: Tb;` (N3: a rule named like the builder's own nonterminal) -/
def fReserved : File := file [rule "S" [alt [rf "Ta"]], rule "AUG" [alt [rf "Tb"]]]

/-- `S: Ta+ Tb;` with a terminal `Ta1: 'z'` (F5b: the terminal captures the sugar) -/
def fTermCapture : File := file [rule "S" [alt [rp "Ta" .oneOrMore none, rf "Tb"]]]
  [tA, tB, { name := nm "Ta1", recog := some (.str (nm "z")) }]

/-- `S: X A1; A1: Tb; X: A+; A: Ta;` (F5b: the user rule is declared BEFORE the sugar use) -/
def fF5bBefore : File := file [rule "S" [alt [rf "X", rf "A1"]], rule "A1" [alt [rf "Tb"]],
  rule "X" [alt [rp "A" .oneOrMore none]], rule "A" [alt [rf "Ta"]]]

/-- `S: Ta AUG;` (a reference to the augmented nonterminal: hung the table builder before repo 898fba1) -/
def fAugRef : File := file [rule "S" [alt [rf "Ta", rf "AUG"]]]
/-- `S: Ta AUG*;`, `S: Ta+[AUGL];`, `S: x=AUG Ta;` -/
def fAugSugar : File := file [rule "S" [alt [rf "Ta", rp "AUG" .zeroOrMore none]]]
def fAugSep : File := file [rule "S" [alt [rp "Ta" .oneOrMore (some "AUGL")]]]
def fAugNamed : File := file [rule "S" [alt [.plain (nm "x") { gsym := some (.name kAUG), rep := none }, rf "Ta"]]]

/-- the variant of `/repo` after C09-fix-8 and C09-fix-9 (= `Front.repoVariant` when this was written):
everything repaired except the separator in helper names (F5) and the integer literal (F9) -/
def vFix9 : Fixes := { v3da879f with reservedErr := true, helperClashErr := true }

def useOpt : Use := { base := nm "A", kind := .opt, sep := none }
def useOne : Use := { base := nm "Ta", kind := .one, sep := none }
def useOneSep : Use := { base := nm "Tb", kind := .one, sep := some (nm "Tc") }
def useZero : Use := { base := nm "Tb", kind := .zero, sep := some (nm "Tc") }

end Rustemo.Front.Ex
