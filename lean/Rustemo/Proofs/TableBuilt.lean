import Rustemo.Proofs.TablePropC
import Rustemo.Proofs.TableLa
import Rustemo.Proofs.TableJust3
/-!
# Table construction: the structural invariant holds of the states of every table `build` returns
-/
namespace Rustemo.Table

variable {g : Grammar}

theorem layoutStates_ok {fs : Array (List Nat)} {tt : String} {rn : Option (Array Nat)} {fuel : Nat}
    {sts0 sts1 : Array State} {ls : Option Nat}
    (h : layoutStates g fs tt rn fuel sts0 = .ok (ls, sts1)) :
    (g.auglIdx = none ∧ ls = none ∧ sts1 = sts0) ∨
    (∃ l, g.auglIdx = some l ∧ ls = some sts0.size ∧ calcStates g fs tt rn fuel l sts0 = .ok sts1) := by
  unfold layoutStates at h
  split at h
  · rename_i l hl
    obtain ⟨sts', h1, h2⟩ := Res.bind_ok h
    simp only [Res.ok.injEq, _root_.Prod.mk.injEq] at h2
    exact .inr ⟨l, hl, h2.1.symm, by rw [← h2.2]; exact h1⟩
  · rename_i hl
    simp only [Res.ok.injEq, _root_.Prod.mk.injEq] at h
    exact .inl ⟨hl, h.1.symm, h.2.symm⟩

/-- the automata of the table as pairs (start state, augmented production) -/
inductive AutosOf (g : Grammar) (t : Table) : List (Nat × Nat) → Prop where
  | main (h1 : g.auglIdx = none) (h2 : t.layoutState = none) : AutosOf g t [(0, 0)]
  | layout (l pl ls : Nat) (h1 : g.auglIdx = some l) (h2 : t.layoutState = some ls)
      (h3 : Canon.prodsOf g l = [pl]) (h4 : 0 < ls) : AutosOf g t [(ls, pl), (0, 0)]

/-- the states after `propagate_follows`, related to the final table -/
structure Final (g : Grammar) (s : Settings) (t : Table) (sts : Array State) (autos : List (Nat × Nat)) : Prop where
  inv : Inv g autos sts
  invc : InvC g sts.size sts.size sts
  la : LaAll g sts
  just : JInv g t.firsts autos sts
  first : ∃ fuel, firstSets g fuel = .ok t.firsts
  fix : ∀ i, i < sts.size → ∃ st, sts[i]? = some st ∧ closureRound g t.firsts st.items = .ok (st.items, false)
  stable : ∀ i, i < sts.size → ∀ j ∈ targetsOf (sts.getD i default), EdgeStable sts i j
  autos : AutosOf g t autos
  size : t.states.size = sts.size
  fin : ∀ (i : Nat) (st' : State), t.states[i]? = some st' →
    ∃ st, sts[i]? = some st ∧ finishState g s t.rnLens st = .ok st'
  rn : s.tableType ≠ "LALR_RN" → t.rnLens = none

theorem built_final (hg : GW g) {s : Settings} {fuel : Nat} {t : Table} (hb : Built g s fuel t) :
    ∃ sts autos, Final g s t sts autos := by
  obtain ⟨fs, rn, sts0, sts1, sts, ls, h1, h2, _, h4, h5, h6, ⟨fin, h7, h8⟩, h9, h10, h11⟩ := hb.ex
  have hC0 := InvC.calcStates hg (Inv.empty g) (InvC.empty g) h4
  obtain ⟨hx1, hx2⟩ := propagate_exit fuel sts1 sts h6
  have hw := (firstSets_spec hg h1).1
  have hL0 : LaAll g sts0 := LaAll.calcStates hg hw (fun i st h => by simp at h) h4
  obtain ⟨pj, hpj, hJ0⟩ := JInv.calcStates (fs := fs) hg (Inv.empty g) (InvC.empty g) (fun i st h => by simp at h) h4
  rw [hg.aug_prods] at hpj
  simp only [List.cons.injEq, and_true] at hpj
  subst hpj
  obtain ⟨p, hp, hI0⟩ := Inv.calcStates hg (Inv.empty g) h4
  rw [hg.aug_prods] at hp
  simp only [List.cons.injEq, and_true] at hp
  subst hp
  have hsz0 : 0 < sts0.size := by
    obtain ⟨st, h, _⟩ := hI0.starts (0, 0) (by simp)
    exact lt_size_of_getElem? h
  have hfin : ∀ (i : Nat) (st' : State), t.states[i]? = some st' →
      ∃ st, sts[i]? = some st ∧ finishState g s t.rnLens st = .ok st' := by
    intro i st' hi
    rw [h8] at hi
    obtain ⟨_, f2⟩ := finishStates_spec h7
    obtain ⟨st, a1, a2⟩ := f2 i st' (by simpa using hi)
    exact ⟨st, by simpa using a1, by rw [h11]; exact a2⟩
  have hsize : t.states.size = sts.size := by
    rw [h8]
    obtain ⟨f1, _⟩ := finishStates_spec h7
    simp [f1]
  have hrn : s.tableType ≠ "LALR_RN" → t.rnLens = none := by
    intro hne
    rw [h11]
    unfold rnOf at h2
    have : (s.tableType == "LALR_RN") = false := by simpa using hne
    rw [this] at h2
    simp only [Bool.false_eq_true, if_false, Res.ok.injEq] at h2
    exact h2.symm
  rcases layoutStates_ok h5 with ⟨a1, a2, a3⟩ | ⟨l, a1, a2, a3⟩
  · subst a3
    obtain ⟨hI, _⟩ := Inv.propagate hg hI0 h6
    have hC := InvC.propagate hg hI0 hC0 h6
    simp only [Array.size_empty] at hI
    simp only [Array.size_empty] at hJ0
    exact ⟨sts, _, hI, hC, hL0.propagate hw h6, by rw [h10]; exact JInv.propagate_just hg fuel _ _ hI0 hJ0 h6,
      ⟨fuel, by rw [h10]; exact h1⟩, by rw [h10]; exact hx1, hx2,
      .main a1 (by rw [h9, a2]), hsize, hfin, hrn⟩
  · obtain ⟨pl, hpl, hI1⟩ := Inv.calcStates hg hI0 a3
    have hC1 := InvC.calcStates hg hI0 hC0 a3
    obtain ⟨hI, _⟩ := Inv.propagate hg hI1 h6
    have hC := InvC.propagate hg hI1 hC1 h6
    simp only [Array.size_empty] at hI
    obtain ⟨pl', hpl', hJ1⟩ := JInv.calcStates (fs := fs) hg hI0 hC0 hJ0 a3
    rw [hpl] at hpl'
    simp only [List.cons.injEq, and_true] at hpl'
    subst hpl'
    simp only [Array.size_empty] at hJ1
    exact ⟨sts, _, hI, hC, (hL0.calcStates hg hw a3).propagate hw h6,
      by rw [h10]; exact JInv.propagate_just hg fuel _ _ hI1 hJ1 h6, ⟨fuel, by rw [h10]; exact h1⟩,
      by rw [h10]; exact hx1, hx2, .layout l pl sts0.size a1 (by rw [h9, a2]) hpl hsz0, hsize, hfin, hrn⟩

end Rustemo.Table
