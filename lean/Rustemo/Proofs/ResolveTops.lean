import Rustemo.Proofs.ResolveCell
/-!
# Maximal elements of a list under a key, incrementally (`tops`)

The REDUCE/REDUCE part of `calculate_reductions` keeps, incrementally, the reductions of maximal
rank; the documented rule keeps those no other candidate beats.  Both are `tops`.
-/
set_option linter.unusedSimpArgs false
namespace Rustemo.Resolve

variable {α : Type}

/-- the elements of `S` of maximal key, in order -/
def tops (k : α → Nat) (S : List α) : List α :=
  S.filter (fun x => S.all (fun y => decide (k y ≤ k x)))

theorem tops_nil (k : α → Nat) : tops k [] = [] := rfl

theorem tops_snoc (k : α → Nat) (S : List α) (r : α) :
    tops k (S ++ [r]) =
      (tops k S).filter (fun x => decide (k r ≤ k x)) ++
        (if S.all (fun y => decide (k y ≤ k r)) then [r] else []) := by
  simp only [tops, List.filter_append, List.all_append, List.all_cons, List.all_nil, Bool.and_true,
    List.filter_filter, List.filter_cons, List.filter_nil, Nat.le_refl, decide_true]
  congr 1
  apply List.filter_congr
  intro x _
  rw [Bool.and_comm]

theorem mem_tops {k : α → Nat} {S : List α} {x : α} :
    x ∈ tops k S ↔ x ∈ S ∧ ∀ y ∈ S, k y ≤ k x := by
  simp [tops, List.mem_filter, List.all_eq_true]

theorem tops_key_eq {k : α → Nat} {S : List α} {x y : α} (hx : x ∈ tops k S) (hy : y ∈ tops k S) :
    k x = k y := by
  obtain ⟨hx1, hx2⟩ := mem_tops.mp hx
  obtain ⟨hy1, hy2⟩ := mem_tops.mp hy
  have := hx2 y hy1
  have := hy2 x hx1
  omega

theorem exists_max (k : α → Nat) : ∀ (S : List α), S ≠ [] → ∃ x ∈ S, ∀ y ∈ S, k y ≤ k x
  | [a], _ => ⟨a, List.mem_cons_self, fun y hy => by simp at hy; subst hy; exact Nat.le_refl _⟩
  | a :: b :: t, _ => by
    obtain ⟨x, hx, hmax⟩ := exists_max k (b :: t) (by simp)
    by_cases h : k x ≤ k a
    · refine ⟨a, List.mem_cons_self, fun y hy => ?_⟩
      rcases List.mem_cons.mp hy with h1 | h1
      · subst h1; exact Nat.le_refl _
      · have := hmax y h1; omega
    · refine ⟨x, List.mem_cons_of_mem _ hx, fun y hy => ?_⟩
      rcases List.mem_cons.mp hy with h1 | h1
      · subst h1; omega
      · exact hmax y h1

theorem tops_ne_nil {k : α → Nat} {S : List α} (h : S ≠ []) : tops k S ≠ [] := by
  obtain ⟨x, hx, hmax⟩ := exists_max k S h
  exact List.ne_nil_of_mem (mem_tops.mpr ⟨hx, hmax⟩)

theorem tops_eq_nil_iff {k : α → Nat} {S : List α} : tops k S = [] ↔ S = [] := by
  constructor
  · intro h; by_cases hs : S = []
    · exact hs
    · exact absurd h (tops_ne_nil hs)
  · intro h; subst h; rfl

/-- the three ways a new element relates to the current maximal elements -/
theorem tops_snoc_lt {k : α → Nat} {S : List α} {r x : α} (hx : x ∈ tops k S) (h : k r < k x) :
    tops k (S ++ [r]) = tops k S := by
  rw [tops_snoc]
  have h1 : (tops k S).filter (fun x => decide (k r ≤ k x)) = tops k S := by
    apply List.filter_eq_self.mpr
    intro y hy
    have := tops_key_eq hx hy
    simp; omega
  have h2 : S.all (fun y => decide (k y ≤ k r)) = false := by
    apply Bool.eq_false_iff.mpr
    intro hall
    have := (List.all_eq_true.mp hall) x (mem_tops.mp hx).1
    simp at this; omega
  simp [h1, h2]

theorem tops_snoc_gt {k : α → Nat} {S : List α} {r : α} (h : ∀ x ∈ tops k S, k x < k r) :
    tops k (S ++ [r]) = [r] := by
  rw [tops_snoc]
  have h1 : (tops k S).filter (fun x => decide (k r ≤ k x)) = [] := by
    apply List.filter_eq_nil_iff.mpr
    intro y hy
    have := h y hy
    simp; omega
  have h2 : S.all (fun y => decide (k y ≤ k r)) = true := by
    apply List.all_eq_true.mpr
    intro y hy
    by_cases hs : S = []
    · subst hs; simp at hy
    · obtain ⟨x, hx, hmax⟩ := exists_max k S hs
      have hxt : x ∈ tops k S := mem_tops.mpr ⟨hx, hmax⟩
      have := h x hxt
      have := hmax y hy
      simp; omega
  simp [h1, h2]

theorem tops_snoc_eq {k : α → Nat} {S : List α} {r : α} (h : ∀ x ∈ tops k S, k x = k r) :
    tops k (S ++ [r]) = tops k S ++ [r] := by
  rw [tops_snoc]
  have h1 : (tops k S).filter (fun x => decide (k r ≤ k x)) = tops k S := by
    apply List.filter_eq_self.mpr
    intro y hy
    have := h y hy
    simp; omega
  have h2 : S.all (fun y => decide (k y ≤ k r)) = true := by
    apply List.all_eq_true.mpr
    intro y hy
    by_cases hs : S = []
    · subst hs; simp at hy
    · obtain ⟨x, hx, hmax⟩ := exists_max k S hs
      have hxt : x ∈ tops k S := mem_tops.mpr ⟨hx, hmax⟩
      have := h x hxt
      have := hmax y hy
      simp; omega
  simp [h1, h2]

theorem tops_perm {k : α → Nat} {S T : List α} (h : S.Perm T) : (tops k S).Perm (tops k T) := by
  unfold tops
  have : (fun x => S.all (fun y => decide (k y ≤ k x))) = (fun x => T.all (fun y => decide (k y ≤ k x))) := by
    funext x; exact h.all_eq
  rw [this]
  exact h.filter _

end Rustemo.Resolve
