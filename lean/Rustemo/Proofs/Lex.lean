import Rustemo.Model.Lex
/-!
# The token iterator over a sorted, flagged terminal list yields exactly the documented survivors

For a list sorted by `key` (priority, then string length, compared lexicographically) descending
with ties in grammar order and finish flags as
`sort_terminals` computes them, and ANY matching function `m`: a terminal is yielded iff it matches,
has the highest priority among the matching ones and — under most-specific — is the longest
matching string recognizer (earliest in grammar order among equally long ones) if any string of
that priority matches, a regex only if none does.
-/
namespace Rustemo.Lex

def Before (ms : Bool) (a b : TermDesc) : Prop :=
  KeyLt (key ms b) (key ms a) ∨ (key ms a = key ms b ∧ a.idx < b.idx)

def Sorted (ms : Bool) : List TermDesc → Prop
  | [] => True
  | a :: rest => (∀ b ∈ rest, Before ms a b) ∧ Sorted ms rest

/-- string recognizers are non-empty (an empty one would tie with the regexes of its priority) -/
def WFT (t : TermDesc) : Prop :=
  match t.strLen with
  | some n => 1 ≤ n
  | none => True

def Matches (m : Nat → Option Nat) (t : TermDesc) : Prop := (m t.idx).isSome = true

/-- highest priority among the matching terminals -/
def TopPrio (m : Nat → Option Nat) (S : List TermDesc) (t : TermDesc) : Prop :=
  t ∈ S ∧ Matches m t ∧ ∀ u ∈ S, Matches m u → u.prio ≤ t.prio

/-- the documented survivors of "priority, then most specific" -/
def Survives (ms : Bool) (m : Nat → Option Nat) (S : List TermDesc) (t : TermDesc) : Prop :=
  TopPrio m S t ∧ (ms = true →
    (t.isStr = true → ∀ u ∈ S, TopPrio m S u → u.isStr = true →
        u.strLen.getD 0 ≤ t.strLen.getD 0 ∧ (u.strLen.getD 0 = t.strLen.getD 0 → t.idx ≤ u.idx)) ∧
    (t.isStr = false → ∀ u ∈ S, TopPrio m S u → u.isStr = false))

/-- `Before` spelled out: higher priority, or equal priority and longer string, or a tie in
    grammar order -/
theorem before_iff {ms : Bool} {a b : TermDesc} : Before ms a b ↔
    (b.prio < a.prio ∨ (b.prio = a.prio ∧ (key ms b).2 < (key ms a).2) ∨
      (a.prio = b.prio ∧ (key ms a).2 = (key ms b).2 ∧ a.idx < b.idx)) := by
  unfold Before KeyLt
  have h1 : (key ms a).1 = a.prio := rfl
  have h2 : (key ms b).1 = b.prio := rfl
  rw [h1, h2]
  constructor
  · rintro ((h | h) | ⟨h, hi⟩)
    · exact Or.inl h
    · exact Or.inr (Or.inl h)
    · exact Or.inr (Or.inr ⟨h1 ▸ h2 ▸ congrArg (·.1) h, congrArg (·.2) h, hi⟩)
  · rintro (h | h | ⟨hp, hl, hi⟩)
    · exact Or.inl (Or.inl h)
    · exact Or.inl (Or.inr h)
    · refine Or.inr ⟨?_, hi⟩
      show ((key ms a).1, (key ms a).2) = ((key ms b).1, (key ms b).2)
      rw [h1, h2, hp, hl]

/-- no well-formedness needed any more: the priority is the first component of the key -/
theorem before_prio_le {ms : Bool} {a b : TermDesc} (h : Before ms a b) :
    b.prio ≤ a.prio := by
  rcases before_iff.mp h with h | h | h <;> omega

theorem sorted_tail {ms : Bool} {a : TermDesc} {rest : List TermDesc} (h : Sorted ms (a :: rest)) :
    Sorted ms rest := h.2

def HeadPrio (p : Nat) : List TermDesc → Prop
  | [] => True
  | b :: _ => b.prio = p

def nextDiffers (a : TermDesc) : List TermDesc → Bool
  | [] => false
  | b :: _ => b.prio != a.prio

theorem withFlags_cons_tail (ms : Bool) (a : TermDesc) (rest : List TermDesc) :
    ∃ f, withFlags ms (a :: rest) = (a, f) :: withFlags ms rest ∧
      f = ((ms && a.isStr) || nextDiffers a rest) := by
  cases rest with
  | nil => exact ⟨_, rfl, by simp [nextDiffers]⟩
  | cons b r => exact ⟨_, rfl, rfl⟩

/-- continuing inside a priority group after something matched: the rest of the group -/
theorem iter_group (ms : Bool) (m : Nat → Option Nat) (p : Nat) :
    ∀ (R : List TermDesc), Sorted ms R →
      (∀ u ∈ R, u.prio = p → ms = true → u.isStr = false) →
      HeadPrio p R →
      ∀ t l, (t, l) ∈ iter m true (withFlags ms R) ↔ (t ∈ R ∧ t.prio = p ∧ m t.idx = some l)
  | [], _, _, _, t, l => by simp [withFlags, iter]
  | b :: R', hs, hns, hhead, t, l => by
    have hbp : b.prio = p := hhead
    obtain ⟨f, hwf', hf⟩ := withFlags_cons_tail ms b R'
    rw [hwf']
    have hbstr : (ms && b.isStr) = false := by
      cases hms : ms with
      | false => simp
      | true => simp [hns b (by simp) hbp hms]
    -- elements of R' with priority p exist only if the next one has priority p
    have hnext : ∀ u ∈ R', u.prio = p → nextDiffers b R' = false := by
      intro u hu hup
      cases R' with
      | nil => simp at hu
      | cons c R'' =>
        simp only [nextDiffers, bne_eq_false_iff_eq]
        have hcb : c.prio ≤ b.prio := before_prio_le (hs.1 c (by simp))
        rcases List.mem_cons.mp hu with h | h
        · subst h; omega
        · have : u.prio ≤ c.prio := before_prio_le (hs.2.1 u h)
          omega
    have ih := iter_group ms m p R' hs.2 (fun u hu => hns u (by simp [hu]))
    simp only [iter]
    cases hmb : m b.idx with
    | some lb =>
      simp only
      cases hfl : f with
      | true =>
        -- group ends here
        simp only [↓reduceIte, List.mem_singleton, Prod.mk.injEq]
        have hno : ∀ u ∈ R', u.prio ≠ p := by
          intro u hu hup
          have := hnext u hu hup
          rw [hf, hbstr, this] at hfl
          simp at hfl
        constructor
        · rintro ⟨rfl, rfl⟩; exact ⟨by simp, hbp, hmb⟩
        · rintro ⟨hin, htp, hm⟩
          rcases List.mem_cons.mp hin with h | h
          · subst h; rw [hmb] at hm; injection hm with hm; exact ⟨rfl, hm.symm⟩
          · exact absurd htp (hno t h)
      | false =>
        simp only [Bool.false_eq_true, ↓reduceIte, List.mem_cons, Prod.mk.injEq]
        have hhead' : HeadPrio p R' := by
          rw [hf, hbstr] at hfl
          cases R' with
          | nil => trivial
          | cons c R'' =>
            simp only [nextDiffers, Bool.false_or, bne_eq_false_iff_eq] at hfl
            show c.prio = p
            omega
        rw [ih hhead' t l]
        constructor
        · rintro (⟨rfl, rfl⟩ | ⟨hin, htp, hm⟩)
          · exact ⟨Or.inl rfl, hbp, hmb⟩
          · exact ⟨Or.inr hin, htp, hm⟩
        · rintro ⟨hin, htp, hm⟩
          rcases hin with h | h
          · subst h; rw [hmb] at hm; injection hm with hm; exact Or.inl ⟨rfl, hm.symm⟩
          · exact Or.inr ⟨h, htp, hm⟩
    | none =>
      simp only [Bool.and_true]
      cases hfl : f with
      | true =>
        simp only [↓reduceIte, List.not_mem_nil, false_iff]
        have hno : ∀ u ∈ R', u.prio ≠ p := by
          intro u hu hup
          have := hnext u hu hup
          rw [hf, hbstr, this] at hfl
          simp at hfl
        rintro ⟨hin, htp, hm⟩
        rcases List.mem_cons.mp hin with h | h
        · subst h; rw [hmb] at hm; simp at hm
        · exact hno t h htp
      | false =>
        simp only [Bool.false_eq_true, ↓reduceIte]
        have hhead' : HeadPrio p R' := by
          rw [hf, hbstr] at hfl
          cases R' with
          | nil => trivial
          | cons c R'' =>
            simp only [nextDiffers, Bool.false_or, bne_eq_false_iff_eq] at hfl
            show c.prio = p
            omega
        rw [ih hhead' t l]
        constructor
        · rintro ⟨hin, htp, hm⟩; exact ⟨List.mem_cons_of_mem _ hin, htp, hm⟩
        · rintro ⟨hin, htp, hm⟩
          rcases List.mem_cons.mp hin with h | h
          · subst h; rw [hmb] at hm; simp at hm
          · exact ⟨h, htp, hm⟩


theorem topPrio_skip {m : Nat → Option Nat} {a : TermDesc} {rest : List TermDesc} (ha : m a.idx = none)
    (u : TermDesc) : TopPrio m (a :: rest) u ↔ TopPrio m rest u := by
  have hna : ¬ Matches m a := by unfold Matches; rw [ha]; simp
  constructor
  · rintro ⟨hin, hm, hall⟩
    rcases List.mem_cons.mp hin with h | h
    · subst h; exact absurd hm hna
    · exact ⟨h, hm, fun v hv hmv => hall v (List.mem_cons_of_mem _ hv) hmv⟩
  · rintro ⟨hin, hm, hall⟩
    refine ⟨List.mem_cons_of_mem _ hin, hm, ?_⟩
    intro v hv hmv
    rcases List.mem_cons.mp hv with h | h
    · subst h; exact absurd hmv hna
    · exact hall v h hmv

theorem survives_skip {ms : Bool} {m : Nat → Option Nat} {a : TermDesc} {rest : List TermDesc}
    (ha : m a.idx = none) (t : TermDesc) : Survives ms m (a :: rest) t ↔ Survives ms m rest t := by
  have hna : ¬ Matches m a := by unfold Matches; rw [ha]; simp
  have hmem : ∀ u, TopPrio m (a :: rest) u → u ∈ rest := fun u hu => ((topPrio_skip ha u).mp hu).1
  unfold Survives
  rw [topPrio_skip ha t]
  constructor
  · rintro ⟨h1, h2⟩
    refine ⟨h1, fun hms => ?_⟩
    obtain ⟨h3, h4⟩ := h2 hms
    exact ⟨fun hs u hu htu hus => h3 hs u (List.mem_cons_of_mem _ hu) ((topPrio_skip ha u).mpr htu) hus,
      fun hs u hu htu => h4 hs u (List.mem_cons_of_mem _ hu) ((topPrio_skip ha u).mpr htu)⟩
  · rintro ⟨h1, h2⟩
    refine ⟨h1, fun hms => ?_⟩
    obtain ⟨h3, h4⟩ := h2 hms
    exact ⟨fun hs u _ htu hus => h3 hs u (hmem u htu) ((topPrio_skip ha u).mp htu) hus,
      fun hs u _ htu => h4 hs u (hmem u htu) ((topPrio_skip ha u).mp htu)⟩

theorem key_str {ms : Bool} (t : TermDesc) (hms : ms = true) :
    (key ms t).2 = t.strLen.getD 0 := by unfold key; simp [hms]

theorem isStr_getD_pos {t : TermDesc} (hw : WFT t) (hs : t.isStr = true) : 1 ≤ t.strLen.getD 0 := by
  unfold TermDesc.isStr at hs
  unfold WFT at hw
  cases h : t.strLen with
  | none => rw [h] at hs; simp at hs
  | some n => rw [h] at hw; simp; exact hw

theorem notStr_getD {t : TermDesc} (hs : t.isStr = false) : t.strLen.getD 0 = 0 := by
  unfold TermDesc.isStr at hs
  cases h : t.strLen with
  | none => simp
  | some n => rw [h] at hs; simp at hs

/-- **The iterator yields exactly the documented survivors** of "highest priority, then (if
    enabled) most specific", for any matching function. -/
theorem iter_survivors (ms : Bool) (m : Nat → Option Nat) :
    ∀ (S : List TermDesc), Sorted ms S → (∀ u ∈ S, WFT u) →
      ∀ t l, (t, l) ∈ iter m false (withFlags ms S) ↔ (Survives ms m S t ∧ m t.idx = some l)
  | [], _, _, t, l => by
    simp only [withFlags, iter, List.not_mem_nil, false_iff]
    rintro ⟨⟨⟨h, _⟩, _⟩, _⟩; simp at h
  | a :: rest, hs, hwf, t, l => by
    obtain ⟨f, hwf', hf⟩ := withFlags_cons_tail ms a rest
    rw [hwf']
    have ih := iter_survivors ms m rest hs.2 (fun u hu => hwf u (by simp [hu]))
    simp only [iter]
    cases hma : m a.idx with
    | none =>
      simp only [Bool.and_false, Bool.false_eq_true, ↓reduceIte]
      rw [ih t l, survives_skip hma t]
    | some la =>
      simp only
      have hMa : Matches m a := by unfold Matches; rw [hma]; rfl
      have hprio : ∀ u ∈ rest, u.prio ≤ a.prio :=
        fun u hu => before_prio_le (hs.1 u hu)
      have hTa : TopPrio m (a :: rest) a := by
        refine ⟨by simp, hMa, ?_⟩
        intro u hu _
        rcases List.mem_cons.mp hu with h | h
        · subst h; exact Nat.le_refl _
        · exact hprio u h
      have hTop : ∀ u, TopPrio m (a :: rest) u → u.prio = a.prio := by
        intro u ⟨hin, _, hall⟩
        have h1 := hall a (by simp) hMa
        rcases List.mem_cons.mp hin with h | h
        · subst h; rfl
        · have := hprio u h; omega
      have hTopOf : ∀ u ∈ a :: rest, Matches m u → u.prio = a.prio → TopPrio m (a :: rest) u := by
        intro u hu hmu hp
        refine ⟨hu, hmu, ?_⟩
        intro v hv _
        rcases List.mem_cons.mp hv with h | h
        · subst h; omega
        · have := hprio v h; omega
      by_cases hstr : (ms && a.isStr) = true
      · -- a matching string recognizer under most-specific ends the search
        have hfl : f = true := by rw [hf, hstr]; simp
        simp only [hfl, ↓reduceIte, List.mem_singleton, Prod.mk.injEq]
        simp only [Bool.and_eq_true] at hstr
        obtain ⟨hms, hastr⟩ := hstr
        constructor
        · rintro ⟨rfl, rfl⟩
          refine ⟨⟨hTa, fun _ => ⟨fun _ u hu htu hus => ?_, fun hn => by rw [hastr] at hn; simp at hn⟩⟩, hma⟩
          rcases List.mem_cons.mp hu with h | h
          · subst h; exact ⟨Nat.le_refl _, fun _ => Nat.le_refl _⟩
          · have hb := hs.1 u h
            have hpu := hTop u htu
            rw [before_iff, key_str _ hms, key_str _ hms, hpu] at hb
            constructor
            · rcases hb with hb | hb <;> omega
            · intro heq
              rcases hb with hb | hb
              · omega
              · omega
        · rintro ⟨⟨hT, hcond⟩, hm⟩
          rcases List.mem_cons.mp hT.1 with h | h
          · subst h; rw [hma] at hm; injection hm with hm; exact ⟨rfl, hm.symm⟩
          · exfalso
            obtain ⟨h3, h4⟩ := hcond hms
            have hpt := hTop t hT
            have hb := hs.1 t h
            rw [before_iff, key_str _ hms, key_str _ hms, hpt] at hb
            cases htstr : t.isStr with
            | true =>
              obtain ⟨hle, hidx⟩ := h3 htstr a (by simp) hTa hastr
              rcases hb with hb | hb
              · omega
              · have := hidx (by omega); omega
            | false =>
              have := h4 htstr a (by simp) hTa
              rw [hastr] at this; simp at this
      · -- not a most-specific string: the rest of the priority group follows
        have hstr' : (ms && a.isStr) = false := by simpa using hstr
        -- under most-specific no string of the same priority can follow
        have hnostr : ∀ u ∈ rest, u.prio = a.prio → ms = true → u.isStr = false := by
          intro u hu hup hms
          cases hus : u.isStr with
          | false => rfl
          | true =>
            exfalso
            have hastr : a.isStr = false := by simpa [hms] using hstr'
            have hb := hs.1 u hu
            rw [before_iff, key_str _ hms, key_str _ hms, hup, notStr_getD hastr] at hb
            have := isStr_getD_pos (hwf u (by simp [hu])) hus
            rcases hb with hb | hb <;> omega
        have hsurv : ∀ u, Survives ms m (a :: rest) u ↔ TopPrio m (a :: rest) u := by
          intro u
          constructor
          · exact fun h => h.1
          · intro hT
            refine ⟨hT, fun hms => ?_⟩
            have hall : ∀ v ∈ a :: rest, TopPrio m (a :: rest) v → v.isStr = false := by
              intro v hv hTv
              rcases List.mem_cons.mp hv with h | h
              · subst h; simpa [hms] using hstr'
              · exact hnostr v h (hTop v hTv) hms
            have hu := hall u hT.1 hT
            exact ⟨fun hs' => by rw [hu] at hs'; simp at hs', fun _ => hall⟩
        rw [hsurv t]
        by_cases hnd : nextDiffers a rest = true
        · -- the group ends with `a`
          have hfl : f = true := by rw [hf, hnd]; simp
          simp only [hfl, ↓reduceIte, List.mem_singleton, Prod.mk.injEq]
          have hno : ∀ u ∈ rest, u.prio ≠ a.prio := by
            intro u hu hup
            cases rest with
            | nil => simp at hu
            | cons c r =>
              simp only [nextDiffers, bne_iff_ne, ne_eq] at hnd
              have hc := hprio c (by simp)
              rcases List.mem_cons.mp hu with h | h
              · subst h; exact hnd hup
              · have : u.prio ≤ c.prio :=
                  before_prio_le (hs.2.1 u h)
                omega
          constructor
          · rintro ⟨rfl, rfl⟩; exact ⟨hTa, hma⟩
          · rintro ⟨hT, hm⟩
            rcases List.mem_cons.mp hT.1 with h | h
            · subst h; rw [hma] at hm; injection hm with hm; exact ⟨rfl, hm.symm⟩
            · exact absurd (hTop t hT) (hno t h)
        · have hnd' : nextDiffers a rest = false := by simpa using hnd
          have hfl : f = false := by rw [hf, hstr', hnd']; rfl
          simp only [hfl, Bool.false_eq_true, ↓reduceIte, List.mem_cons, Prod.mk.injEq]
          have hhead : HeadPrio a.prio rest := by
            cases rest with
            | nil => trivial
            | cons c r =>
              simp only [nextDiffers, bne_eq_false_iff_eq] at hnd'
              exact hnd'
          rw [iter_group ms m a.prio rest hs.2 hnostr hhead t l]
          constructor
          · rintro (⟨rfl, rfl⟩ | ⟨hin, htp, hm⟩)
            · exact ⟨hTa, hma⟩
            · exact ⟨hTopOf t (List.mem_cons_of_mem _ hin) (by unfold Matches; rw [hm]; rfl) htp, hm⟩
          · rintro ⟨hT, hm⟩
            rcases List.mem_cons.mp hT.1 with h | h
            · subst h; rw [hma] at hm; injection hm with hm; exact Or.inl ⟨rfl, hm.symm⟩
            · exact Or.inr ⟨h, hTop t hT, hm⟩

end Rustemo.Lex
