import Rustemo.Proofs.TableBasic
/-!
# Table construction: more fuel never changes a result

If a run did not end in `.fuel`, every run with at least as much fuel ends in the same result.
-/
namespace Rustemo.Table

variable {g : Grammar} {fs : Array (List Nat)} {tt : String} {rn : Option (Array Nat)}

theorem bind_mono {α β} {r1 r2 : Res α} {f1 f2 : α → Res β} (hr : r1.bind f1 ≠ .fuel)
    (h1 : r1 ≠ .fuel → r2 = r1) (h2 : ∀ a, r1 = .ok a → f1 a ≠ .fuel → f2 a = f1 a) :
    r2.bind f2 = r1.bind f1 := by
  have hne : r1 ≠ .fuel := by
    intro hc; rw [hc] at hr; exact hr rfl
  rw [h1 hne]
  cases r1 with
  | ok a =>
    simp only [Res.bind_ok_eq] at hr ⊢
    exact h2 a rfl hr
  | err s => rfl
  | panic s => rfl
  | fuel => exact absurd rfl hne

theorem firstLoop_mono : ∀ (n m : Nat) (fs : Array (List Nat)), n ≤ m → firstLoop g n fs ≠ .fuel →
    firstLoop g m fs = firstLoop g n fs := by
  intro n
  induction n with
  | zero => intro m fs _ h; exact absurd rfl h
  | succ n ih =>
    intro m fs hle h
    cases m with
    | zero => omega
    | succ m =>
      unfold firstLoop at h ⊢
      split
      · rename_i fs' hp
        rw [hp] at h
        exact ih m fs' (by omega) h
      · rfl
      · rfl
      · rfl
      · rfl

theorem closure_mono : ∀ (n m : Nat) (items : List Item), n ≤ m → closure g fs n items ≠ .fuel →
    closure g fs m items = closure g fs n items := by
  intro n
  induction n with
  | zero => intro m items _ h; exact absurd rfl h
  | succ n ih =>
    intro m items hle h
    cases m with
    | zero => omega
    | succ m =>
      unfold closure at h ⊢
      split
      · rename_i its hp
        rw [hp] at h
        exact ih m its (by omega) h
      · rfl
      · rfl
      · rfl
      · rfl

theorem stepState_mono {f1 f2 cur : Nat} {sts : Array State} (hle : f1 ≤ f2)
    (h : stepState g fs tt rn f1 cur sts ≠ .fuel) :
    stepState g fs tt rn f2 cur sts = stepState g fs tt rn f1 cur sts := by
  unfold stepState at h ⊢
  split
  · rfl
  · rename_i st hst
    rw [hst] at h
    simp only at h
    exact bind_mono h (fun hne => closure_mono f1 f2 _ hle hne) (fun _ _ _ => rfl)

theorem calcLoop_mono {f1 f2 : Nat} (hf : f1 ≤ f2) : ∀ (n1 n2 cur : Nat) (sts : Array State), n1 ≤ n2 →
    calcLoop g fs tt rn f1 n1 cur sts ≠ .fuel →
    calcLoop g fs tt rn f2 n2 cur sts = calcLoop g fs tt rn f1 n1 cur sts := by
  intro n1
  induction n1 with
  | zero =>
    intro n2 cur sts _ h
    unfold calcLoop at h
    by_cases hc : cur < sts.size
    · rw [if_pos hc] at h; exact absurd rfl h
    · cases n2 with
      | zero => rfl
      | succ n2 =>
        unfold calcLoop
        rw [if_neg hc, if_neg hc]
  | succ n1 ih =>
    intro n2 cur sts hle h
    cases n2 with
    | zero => omega
    | succ n2 =>
      unfold calcLoop at h ⊢
      by_cases hc : cur < sts.size
      · rw [if_pos hc] at h
        rw [if_pos hc, if_pos hc]
        exact bind_mono h (fun hne => stepState_mono hf hne)
          (fun sts1 _ hne => ih n2 (cur + 1) sts1 (by omega) hne)
      · rw [if_neg hc, if_neg hc]

theorem calcStates_mono {f1 f2 sym : Nat} {sts : Array State} (hf : f1 ≤ f2)
    (h : calcStates g fs tt rn f1 sym sts ≠ .fuel) :
    calcStates g fs tt rn f2 sym sts = calcStates g fs tt rn f1 sym sts := by
  unfold calcStates at h ⊢
  split
  · rfl
  · split
    · rename_i p hp
      rw [hp] at h
      simp only at h
      split at h
      · rename_i hc _; simp_all
      · exact calcLoop_mono hf f1 f2 _ _ hf h
    · rfl

theorem refreshStates_mono {f1 f2 : Nat} (hf : f1 ≤ f2) : ∀ (l : List Nat) (sts : Array State),
    refreshStates g fs f1 l sts ≠ .fuel → refreshStates g fs f2 l sts = refreshStates g fs f1 l sts
  | [], _, _ => rfl
  | i :: rest, sts, h => by
    unfold refreshStates at h ⊢
    have hcl : closure g fs f1 (sts.getD i default).items ≠ .fuel := by
      intro hc; rw [hc] at h; exact h rfl
    rw [closure_mono f1 f2 _ hf hcl]
    split
    · rename_i items hcl'
      rw [hcl'] at h
      exact refreshStates_mono hf rest _ h
    · rfl
    · rfl
    · rfl

theorem propRound_mono {f1 f2 : Nat} {sts : Array State} (hf : f1 ≤ f2) (h : propRound g fs f1 sts ≠ .fuel) :
    propRound g fs f2 sts = propRound g fs f1 sts := by
  unfold propRound at h ⊢
  exact bind_mono h (fun hne => refreshStates_mono hf _ _ hne) (fun _ _ _ => rfl)

theorem propagate_mono {f1 f2 : Nat} (hf : f1 ≤ f2) : ∀ (n1 n2 : Nat) (sts : Array State), n1 ≤ n2 →
    propagate g fs f1 n1 sts ≠ .fuel → propagate g fs f2 n2 sts = propagate g fs f1 n1 sts := by
  intro n1
  induction n1 with
  | zero => intro n2 sts _ h; exact absurd rfl h
  | succ n1 ih =>
    intro n2 sts hle h
    cases n2 with
    | zero => omega
    | succ n2 =>
      unfold propagate at h ⊢
      have hr : propRound g fs f1 sts ≠ .fuel := by
        intro hc; rw [hc] at h; exact h rfl
      rw [propRound_mono hf hr]
      split
      · rename_i sts1 hp
        rw [hp] at h
        exact ih n2 sts1 (by omega) h
      · rfl
      · rfl
      · rfl
      · rfl

theorem layoutStates_mono {f1 f2 : Nat} {sts : Array State} (hf : f1 ≤ f2)
    (h : layoutStates g fs tt rn f1 sts ≠ .fuel) :
    layoutStates g fs tt rn f2 sts = layoutStates g fs tt rn f1 sts := by
  unfold layoutStates at h ⊢
  cases hl : g.auglIdx with
  | none => rfl
  | some l =>
    simp only [hl] at h ⊢
    exact bind_mono h (fun hne => calcStates_mono hf hne) (fun _ _ _ => rfl)

/-- **more fuel never changes a result** of `LRTable::new` -/
theorem build_mono (g : Grammar) (s : Settings) {n m : Nat} (hle : n ≤ m) (h : build g s n ≠ .fuel) :
    build g s m = build g s n := by
  unfold build at h ⊢
  unfold firstSets at h ⊢
  cases hfi : firstInit g with
  | none => rfl
  | some fs0 =>
    simp only [hfi] at h ⊢
    apply bind_mono h (fun hne => firstLoop_mono n m _ hle hne)
    intro fs _ h1
    apply bind_mono h1 (fun _ => rfl)
    intro rn _ h2
    cases he : emptyFirst fs with
    | some X => rfl
    | none =>
      simp only [he] at h2 ⊢
      apply bind_mono h2 (fun hne => calcStates_mono hle hne)
      intro sts0 _ h3
      apply bind_mono h3 (fun hne => layoutStates_mono hle hne)
      intro ls _ h4
      apply bind_mono h4 (fun hne => propagate_mono hle n m _ hle hne)
      intro sts _ _
      rfl

end Rustemo.Table
