import Rustemo.Proofs.CompleteCert
import Rustemo.Proofs.GlrCert
/-!
# Soundness of the completeness certificate for GLR tables (`Cert.completeRN`)
-/
namespace Rustemo

/-- what the engine's completeness argument asks of the table: lookahead post-fixpoint (closure, transitions),
    every right-nulled reduction present for each lookahead of its item, transitions functional -/
structure CompleteRN (g : Grammar) (t : Table) : Prop where
  closure : ∀ s p d a pr B, t.hasItemLA s p d a → g.prods[p]? = some pr → pr.rhs[d]? = some B →
      g.nterms ≤ B → ∀ q qr, g.prods[q]? = some qr → qr.lhs = B →
      ∀ b, FirstOf g (pr.rhs.drop (d+1)) a b → t.hasItemLA s q 0 b
  trans : ∀ s p d a pr X, t.hasItemLA s p d a → g.prods[p]? = some pr → pr.rhs[d]? = some X →
      ∃ s', t.trans g s X s' ∧ t.hasItemLA s' p (d+1) a
  reduceRN : ∀ s p d a pr, g.prods[p]? = some pr → t.hasItemLA s p d a → g.isAug p = false →
      (∀ Y ∈ pr.rhs.drop d, Nullable g Y) → Action.reduce p d ∈ t.cell s a
  accept : ∀ s p pr, g.prods[p]? = some pr → g.isAug p = true → t.hasItem s p pr.rhs.length →
      Action.accept ∈ t.cell s 0
  shiftDet : ∀ s a s1 s2, Action.shift s1 ∈ t.cell s a → Action.shift s2 ∈ t.cell s a → s1 = s2
  start : t.hasItemLA 0 0 0 0
  /-- a symbol occurring in a right-hand side is not the left-hand side of an augmented production -/
  rhs_not_aug : ∀ (p q : Nat) (pr qr : Prod), g.prods[p]? = some pr → g.prods[q]? = some qr → qr.lhs ∈ pr.rhs →
    g.isAug q = false
  /-- STOP is a lookahead only -/
  noShiftStop : ∀ s s', Action.shift s' ∉ t.cell s 0
  /-- accept only on STOP -/
  acceptStop : ∀ s a, Action.accept ∈ t.cell s a → a = 0

theorem filter_isShift_two {l : List Action} {s1 s2 : Nat} (h1 : Action.shift s1 ∈ l) (h2 : Action.shift s2 ∈ l)
    (hlen : (l.filter isShift).length ≤ 1) : s1 = s2 := by
  have m1 : Action.shift s1 ∈ l.filter isShift := List.mem_filter.mpr ⟨h1, rfl⟩
  have m2 : Action.shift s2 ∈ l.filter isShift := List.mem_filter.mpr ⟨h2, rfl⟩
  match hf : l.filter isShift, m1, m2, hlen with
  | [], m1, _, _ => simp at m1
  | [x], m1, m2, _ =>
    simp only [List.mem_singleton] at m1 m2
    rw [← m2] at m1
    injection m1
  | _ :: _ :: _, _, _, hlen => simp at hlen

theorem Cert.completeRN_sound (g : Grammar) (t : Table) (h : Cert.completeRN g t = true) :
    CompleteRN g t ∧ GWF g := by
  unfold Cert.completeRN at h
  simp only [Bool.and_eq_true] at h
  obtain ⟨⟨⟨⟨⟨⟨⟨⟨hF, hC⟩, hT⟩, hR⟩, hG⟩, hD⟩, hL⟩, hNS⟩, hAS⟩ := h
  unfold Cert.grammarOk at hG
  simp only [Bool.and_eq_true] at hG
  obtain ⟨⟨⟨hG1, hG2⟩, hG3⟩, hG4⟩ := hG
  rw [List.all_eq_true] at hG1
  have hprod : ∀ (p : Nat) (pr : Prod), g.prods[p]? = some pr → g.nterms ≤ pr.lhs ∧ g.augIdx ∉ pr.rhs := by
    intro p pr hp
    have hm : pr ∈ g.prods.toList := by
      rw [Array.mem_toList_iff]; exact Array.mem_of_getElem? hp
    have := hG1 pr hm
    simp only [Bool.and_eq_true, decide_eq_true_eq, Bool.not_eq_true'] at this
    refine ⟨this.1, ?_⟩
    intro hmem
    have hc : pr.rhs.contains g.augIdx = true := List.contains_iff_mem.mpr hmem
    rw [this.2] at hc
    simp at hc
  have hnt : ∀ (p : Nat) (pr : Prod), g.prods[p]? = some pr → g.nterms ≤ pr.lhs :=
    fun p pr hp => (hprod p pr hp).1
  have gwf : GWF g := by
    refine ⟨hnt, ?_, ?_, fun p pr hp => (hprod p pr hp).2⟩
    · split at hG2
      · rename_i pr0 hpr0
        simp only [Bool.and_eq_true, beq_iff_eq] at hG2
        exact ⟨pr0, hpr0, hG2.1, hG2.2⟩
      · simp at hG2
    · intro q qr hq hlhs
      rw [List.all_eq_true] at hG3
      have hlt : q < g.prods.size := by
        rcases Nat.lt_or_ge q g.prods.size with h' | h'
        · exact h'
        · rw [Array.getElem?_eq_none h'] at hq; simp at hq
      have := hG3 q (List.mem_range.mpr hlt)
      simp only [Bool.or_eq_true, beq_iff_eq, hq, bne_iff_ne, ne_eq] at this
      rcases this with h0 | h0
      · exact h0
      · exact absurd hlhs h0
  refine ⟨⟨?_, ?_, ?_, ?_, ?_, ?_, ?_, ?_, ?_⟩, gwf⟩
  · -- closure
    intro s p d a pr B ⟨st, hst, it, hit, hp, hd, ha⟩ hpr hB hBnt q qr hq hlhs b hf
    have := forStates_spec hC hst
    rw [List.all_eq_true] at this
    have := this it hit
    rw [hp, hpr] at this
    simp only [hd, hB] at this
    simp only [Bool.or_eq_true, decide_eq_true_eq, List.all_eq_true] at this
    rcases this with h1 | h1
    · omega
    · have hq' : q ∈ Canon.prodsOf g B := by rw [← hlhs]; exact mem_prodsOf hq
      have hb := firstOf_mem g (Canon.mkCtx g) hF hnt _ a b hf
      exact hasItemLAB_spec hst (h1 q hq' a ha b hb)
  · -- trans
    intro s p d a pr X ⟨st, hst, it, hit, hp, hd, ha⟩ hpr hX
    have := forStates_spec hT hst
    rw [List.all_eq_true] at this
    have := this it hit
    have hrhs : g.rhsAt it.prod it.dot = some X := by
      unfold Grammar.rhsAt; rw [hp, hpr, hd]; exact hX
    rw [hrhs] at this
    simp only at this
    split at this
    · simp at this
    · rename_i s' htt
      split at this
      · simp at this
      · rename_i st' hst'
        rw [List.all_eq_true] at this
        refine ⟨s', ?_, ?_⟩
        · unfold Table.transTarget at htt
          unfold Table.trans
          split at htt
          · rename_i hlt
            simp only [hlt, ↓reduceIte]
            exact findSome_shift htt
          · rename_i hlt
            simp only [hlt, ↓reduceIte]
            exact htt
        · have := hasItemLAB_spec hst' (this a ha)
          rw [hp, hd] at this
          exact this
  · -- reduceRN
    intro s p d a pr hpr ⟨st, hst, it, hit, hp, hd, ha⟩ haug hnul
    have := forStates_spec hR hst
    rw [List.all_eq_true] at this
    have := this it hit
    rw [hp, hpr] at this
    simp only [hd, haug, Bool.false_eq_true, ↓reduceIte, Bool.or_eq_true, Bool.not_eq_true'] at this
    rcases this with h1 | h1
    · exfalso
      rw [← Bool.not_eq_true, List.all_eq_true] at h1
      apply h1
      intro Y hY
      obtain ⟨ty, hv, hy⟩ := hnul Y hY
      exact tree_nullable g (Canon.mkCtx g) hF ty Y hv hy
    · rw [List.all_eq_true] at h1
      have := h1 a ha
      simpa [cell_eq hst] using this
  · -- accept
    intro s p pr hpr haug ⟨st, hst, it, hit, hp, hd⟩
    have := forStates_spec hR hst
    rw [List.all_eq_true] at this
    have := this it hit
    rw [hp, hpr] at this
    simp only [hd, List.drop_length, List.all_nil, Bool.not_true, Bool.false_or, haug, ↓reduceIte,
      bne_self_eq_false] at this
    simpa [cell_eq hst] using this
  · -- shiftDet
    intro s a s1 s2 h1 h2
    obtain ⟨st, hst, hm1⟩ := mem_cell h1
    obtain ⟨_, hst', hm2⟩ := mem_cell h2
    rw [hst] at hst'; injection hst' with hst'; subst hst'
    have := forStates_spec hD hst
    rw [List.all_eq_true] at this
    rcases Nat.lt_or_ge a st.actions.size with h' | h'
    · have := this a (List.mem_range.mpr h')
      simp only [decide_eq_true_eq] at this
      exact filter_isShift_two hm1 hm2 this
    · simp [Array.getD_eq_getD_getElem?, Array.getElem?_eq_none h'] at hm1
  · -- start
    split at hG4
    · rename_i st hst
      exact hasItemLAB_spec hst hG4
    · simp at hG4
  · -- rhs_not_aug
    intro p q pr qr hp hq hmem
    unfold Grammar.isAug
    rw [hq]
    simp only [Bool.or_eq_false_iff, beq_eq_false_iff_ne, ne_eq]
    constructor
    · intro heq
      exact (hprod p pr hp).2 (by rw [← heq]; exact hmem)
    · unfold Cert.auglOk at hL
      cases hx : g.auglIdx with
      | none => simp
      | some x =>
        rw [hx] at hL
        simp only [List.all_eq_true, Bool.not_eq_true'] at hL
        intro heq
        injection heq with heq
        have hm : pr ∈ g.prods.toList := by
          rw [Array.mem_toList_iff]; exact Array.mem_of_getElem? hp
        have := hL pr hm
        have hc : pr.rhs.contains x = true := List.contains_iff_mem.mpr (by rw [← heq]; exact hmem)
        rw [this] at hc; simp at hc
  · -- noShiftStop
    intro s s' hm
    obtain ⟨st, hst, hm'⟩ := mem_cell hm
    have := forStates_spec hNS hst
    rw [List.all_eq_true] at this
    have := this _ hm'
    simp at this
  · -- acceptStop
    intro s a hm
    obtain ⟨st, hst, hm'⟩ := mem_cell hm
    have := forStates_spec hAS hst
    have := forCells_spec this hm'
    simpa using this

/-- transitions of a certified table are functions -/
theorem CompleteRN.trans_det {g : Grammar} {t : Table} (hc : CompleteRN g t) {s X s1 s2 : Nat}
    (h1 : t.trans g s X s1) (h2 : t.trans g s X s2) : s1 = s2 := by
  unfold Table.trans at h1 h2
  by_cases hX : X < g.nterms
  · simp only [hX, ↓reduceIte] at h1 h2
    exact hc.shiftDet _ _ _ _ h1 h2
  · simp only [hX, ↓reduceIte] at h1 h2
    rw [h1] at h2; exact Option.some.inj h2

end Rustemo
