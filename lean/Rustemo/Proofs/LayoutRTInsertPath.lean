import Rustemo.Proofs.LayoutRTInsert
/-!
# Layout insertion invariance along the tokens of the parse (C14, part C at full strength)

Same lockstep simulation as `Proofs/LayoutRTInsert.lean`, but the two inputs are aligned only ALONG
THE TOKENS the first parse shifts (`PathAligned`): at the start of each of those tokens (and where
they end) all recognizers agree between the two inputs, the token text is the same, and the next
token starts after the whitespace that follows — nothing is asked about recognizer matches the parse
does not follow.  The tokens still to come are known from the result of the first run
(`runLoop_hist_ext`: the token history only grows).
-/
namespace Rustemo

theorem PathAligned.recog {env1 env2 : Env} : ∀ {l : List Tok} {p q : Nat}, PathAligned env1 env2 l p q →
    ∀ k, env1.recog k p = env2.recog k q
  | [], _, _, h => h
  | _ :: _, _, _, h => h.2.1

/-- the token history of the result extends the current one -/
theorem runLoop_hist_ext (env : Env) (nt : Ctx → Ctx × Outcome Tok) :
    ∀ (fuel : Nat) (c : Cfg) (ctx : Ctx) (r : ParseResult),
      runLoop env nt fuel c = (ctx, .ok r) → ∃ l, r.hist = l ++ c.hist := by
  intro fuel
  induction fuel with
  | zero => intro c ctx r h; simp [runLoop] at h
  | succ n ih =>
    intro c ctx r h
    unfold runLoop at h
    split at h
    · rename_i c' hstep
      obtain ⟨l, hl⟩ := ih c' ctx r h
      cases step_next_inv env nt c c' hstep with
      | shift state s' acts ctx1 tk htop hcell hnt1 hc' =>
        subst hc'
        exact ⟨l ++ [c.tok], by rw [hl]; simp⟩
      | reduce state p len fromState s' pr acts ctx1 tk htop hcell hlen hfrom hpr hgoto hrlen hnt1 hc' =>
        subst hc'
        exact ⟨l, hl⟩
    · rename_i ctx' r' hstep
      injection h with _ h2
      injection h2 with h2
      subst h2
      obtain ⟨_, _, _, _, _, _, _, _, hhist⟩ := step_done_inv env nt c ctx' r' hstep
      exact ⟨[], by simp [hhist]⟩
    · rename_i ctx' o hstep
      injection h with _ h2
      subst h2
      exact absurd rfl (step_stop_not_ok env nt c ctx' _ hstep r)

section
variable (env1 env2 : Env) (T : List Tok)

/-- configurations of the two runs that correspond; `T` is the token history of the first run's
    result (most recent first) -/
structure CRelP (c1 c2 : Cfg) : Prop where
  stack : c1.stack.map (·.state) = c2.stack.map (·.state)
  res : c1.res.map (Tree.shape env1.input) = c2.res.map (Tree.shape env2.input)
  rem : ∃ rem, T = rem.reverse ++ c1.hist ∧ PathAligned env1 env2 rem c1.ctx.pos.pos c2.ctx.pos.pos
  st1 : Stable env1 c1.ctx
  st2 : Stable env2 c2.ctx
  key : tokKey c1.tok = tokKey c2.tok
  rec1 : TokRec env1 c1.ctx c1.tok
  rec2 : TokRec env2 c2.ctx c2.tok

theorem sim_nextP (hc1 : env1.custom = none) (hc2 : env2.custom = none)
    (hg : env2.g = env1.g) (ht : env2.t = env1.t) (hlg : env2.longest = env1.longest)
    (hr1 : RecogOk env1) (hr2 : RecogOk env2) (hns : NoShiftStop env1.t)
    (pp : Bool) (c1 c2 c1' : Cfg) (hrel : CRelP env1 env2 T c1 c2)
    (hstep : step env1 (nextTokenBase env1 pp) c1 = .next c1')
    (hext : ∃ l, T = l ++ c1'.hist) :
    ∃ c2', step env2 (nextTokenBase env2 pp) c2 = .next c2' ∧ CRelP env1 env2 T c1' c2' := by
  have hkey0 := hrel.key
  unfold tokKey at hkey0
  have hkind : c1.tok.kind = c2.tok.kind := (_root_.Prod.mk.inj hkey0).1
  have hvlen : c1.tok.val.2 = c2.tok.val.2 := (_root_.Prod.mk.inj hkey0).2
  have hlenS : c1.stack.length = c2.stack.length := by
    have := congrArg List.length hrel.stack; simpa using this
  have hlenR : c1.res.length = c2.res.length := by
    have := congrArg List.length hrel.res; simpa using this
  obtain ⟨rem, hT, hpath⟩ := hrel.rem
  cases step_next_inv env1 _ c1 c1' hstep with
  | shift state s' acts ctx1 tk htop hcell hnt1 hc' =>
    have hk : c1.tok.kind ≠ 0 := by
      intro h0; apply hns state s'; rw [← h0, hcell]; simp
    obtain ⟨hv1, hrec1⟩ : c1.tok.val.1 = c1.ctx.pos.pos ∧ env1.recog c1.tok.kind c1.tok.val.1 = some c1.tok.val.2 := by
      rcases hrel.rec1 with h | h
      · exact absurd h hk
      · exact h
    obtain ⟨hv2, hrec2⟩ : c2.tok.val.1 = c2.ctx.pos.pos ∧ env2.recog c2.tok.kind c2.tok.val.1 = some c2.tok.val.2 := by
      rcases hrel.rec2 with h | h
      · exact absurd (hkind.trans h) hk
      · exact h
    have hb1 := hr1 _ _ _ hrec1
    have hb2 := hr2 _ _ _ hrec2
    have hnp1 : (shiftCtx env1 c1 s').pos.pos = c1.ctx.pos.pos + c1.tok.val.2 := by
      show (posAfter (sliceOf env1.input c1.tok.val) c1.ctx.pos).pos = _
      rw [posAfter_pos]
      have : c1.tok.val = (c1.tok.val.1, c1.tok.val.2) := rfl
      rw [this, sliceOf_length _ _ _ hb1]
    have hnp2 : (shiftCtx env2 c2 s').pos.pos = c2.ctx.pos.pos + c2.tok.val.2 := by
      show (posAfter (sliceOf env2.input c2.tok.val) c2.ctx.pos).pos = _
      rw [posAfter_pos]
      have : c2.tok.val = (c2.tok.val.1, c2.tok.val.2) := rfl
      rw [this, sliceOf_length _ _ _ hb2]
    -- the token being shifted is the next one of the path
    obtain ⟨l, hl⟩ := hext
    rw [hc'] at hl
    simp only at hl
    have hrem : rem = c1.tok :: l.reverse := by
      have h1 : rem.reverse ++ c1.hist = (l ++ [c1.tok]) ++ c1.hist := by
        rw [← hT, hl]; simp
      have h2 := List.append_cancel_right h1
      have h3 := congrArg List.reverse h2
      simpa using h3
    rw [hrem] at hpath
    obtain ⟨_, _, htext, hrest⟩ := hpath
    have hrec' : ∀ k, env1.recog k (postSkip env1 (shiftCtx env1 c1 s').pos.pos) =
        env2.recog k (postSkip env2 (shiftCtx env2 c2 s').pos.pos) := by
      rw [hnp1, hnp2, ← hvlen]
      exact hrest.recog
    obtain ⟨ctx2', tk2, hnt2, hp1, hp2, hs1, hs2, hkey, hrc1, hrc2⟩ :=
      lexSim' env1 env2 hc1 hc2 ht hlg pp (shiftCtx env1 c1 s') (shiftCtx env2 c2 s') ctx1 tk rfl hrec' hnt1
    have htop2 : topState c2.stack = some state := by rw [← topState_map hrel.stack]; exact htop
    have hcell2 : env2.t.cell state c2.tok.kind = .shift s' :: acts := by rw [ht, ← hkind]; exact hcell
    refine ⟨_, step_shift_intro env2 _ c2 state s' acts ctx2' tk2 htop2 hcell2 hnt2, ?_⟩
    subst hc'
    refine ⟨by simp [shiftItem, hrel.stack], ?_, ⟨l.reverse, by simp [hl], ?_⟩, hs1, hs2, hkey, hrc1, hrc2⟩
    · have htext' : sliceOf env1.input c1.tok.val = sliceOf env2.input c2.tok.val := by
        have e2 : c2.tok.val = (c2.ctx.pos.pos, c1.tok.val.2) := by rw [← hv2, hvlen]
        rw [e2]; exact htext
      simp only [List.map_cons, hrel.res, shiftLeaf, Tree.shape, htext', hkind]
    · show PathAligned env1 env2 l.reverse ctx1.pos.pos ctx2'.pos.pos
      rw [hp1, hp2, hnp1, hnp2, ← hvlen]
      exact hrest
  | reduce state p len fromState s' pr acts ctx1 tk htop hcell hlen hfrom hpr hgoto hrlen hnt1 hc' =>
    have hrec' : ∀ k, env1.recog k (postSkip env1 (reduceCtx c1 s').pos.pos) =
        env2.recog k (postSkip env2 (reduceCtx c2 s').pos.pos) := by
      show ∀ k, env1.recog k (postSkip env1 c1.ctx.pos.pos) = env2.recog k (postSkip env2 c2.ctx.pos.pos)
      rw [postSkip_stable env1 _ hrel.st1, postSkip_stable env2 _ hrel.st2]
      exact hpath.recog
    obtain ⟨ctx2', tk2, hnt2, hp1, hp2, hs1, hs2, hkey, hrc1, hrc2⟩ :=
      lexSim' env1 env2 hc1 hc2 ht hlg pp (reduceCtx c1 s') (reduceCtx c2 s') ctx1 tk rfl hrec' hnt1
    have htop2 : topState c2.stack = some state := by rw [← topState_map hrel.stack]; exact htop
    have hcell2 : env2.t.cell state c2.tok.kind = .reduce p len :: acts := by rw [ht, ← hkind]; exact hcell
    have hfrom2 : topState (c2.stack.drop len) = some fromState := by
      rw [← topState_map (st1 := c1.stack.drop len)]
      · exact hfrom
      · rw [List.map_drop, List.map_drop, hrel.stack]
    refine ⟨_, step_reduce_intro env2 _ c2 state p len fromState s' pr acts ctx2' tk2 htop2 hcell2
      (by omega) hfrom2 (by rw [hg]; exact hpr) (by rw [hg, ht]; exact hgoto) (by omega) hnt2, ?_⟩
    subst hc'
    have hpos1 : ctx1.pos.pos = c1.ctx.pos.pos := by
      rw [hp1]; exact postSkip_stable env1 _ hrel.st1
    have hpos2 : ctx2'.pos.pos = c2.ctx.pos.pos := by
      rw [hp2]; exact postSkip_stable env2 _ hrel.st2
    refine ⟨?_, ?_, ⟨rem, hT, ?_⟩, stable_of_pos rfl hs1, stable_of_pos rfl hs2, hkey, hrc1, hrc2⟩
    · simp only [List.map_cons, List.map_drop, hrel.stack]
    · simp only [List.map_cons, List.map_drop, hrel.res, reduceNode, Tree.shape, shapes_ofList,
        List.map_reverse, List.map_take]
    · show PathAligned env1 env2 rem ctx1.pos.pos ctx2'.pos.pos
      rw [hpos1, hpos2]; exact hpath

theorem sim_doneP (ht : env2.t = env1.t) (pp : Bool) (c1 c2 : Cfg) (ctx1 : Ctx) (r1 : ParseResult)
    (hrel : CRelP env1 env2 T c1 c2)
    (hstep : step env1 (nextTokenBase env1 pp) c1 = .done ctx1 r1) :
    ∃ ctx2 r2, step env2 (nextTokenBase env2 pp) c2 = .done ctx2 r2 ∧
      r1.tree.shape env1.input = r2.tree.shape env2.input := by
  have hkey0 := hrel.key
  unfold tokKey at hkey0
  have hkind : c1.tok.kind = c2.tok.kind := (_root_.Prod.mk.inj hkey0).1
  obtain ⟨state, acts, rest, htop, hcell, _, hres, _, _⟩ := step_done_inv env1 _ c1 ctx1 r1 hstep
  have hres2 := hrel.res
  rw [hres] at hres2
  cases hc2 : c2.res with
  | nil => rw [hc2] at hres2; simp at hres2
  | cons tr2 rest2 =>
    rw [hc2] at hres2
    simp only [List.map_cons, List.cons.injEq] at hres2
    refine ⟨c2.ctx, ⟨tr2, c2.slice, c2.hist⟩, ?_, hres2.1⟩
    exact step_accept_intro env2 _ c2 state acts tr2 rest2
      (by rw [← topState_map hrel.stack]; exact htop) (by rw [ht, ← hkind]; exact hcell) hc2

theorem runLoop_simP (hc1 : env1.custom = none) (hc2 : env2.custom = none)
    (hg : env2.g = env1.g) (ht : env2.t = env1.t) (hlg : env2.longest = env1.longest)
    (hr1 : RecogOk env1) (hr2 : RecogOk env2) (hns : NoShiftStop env1.t) (pp : Bool) :
    ∀ (fuel : Nat) (c1 c2 : Cfg) (ctx1 : Ctx) (r1 : ParseResult), r1.hist = T →
      CRelP env1 env2 T c1 c2 →
      runLoop env1 (nextTokenBase env1 pp) fuel c1 = (ctx1, .ok r1) →
      ∃ ctx2 r2, runLoop env2 (nextTokenBase env2 pp) fuel c2 = (ctx2, .ok r2) ∧
        r1.tree.shape env1.input = r2.tree.shape env2.input := by
  intro fuel
  induction fuel with
  | zero => intro c1 c2 ctx1 r1 _ _ h; simp [runLoop] at h
  | succ n ih =>
    intro c1 c2 ctx1 r1 hT hrel h
    unfold runLoop at h
    split at h
    · rename_i c1' hstep
      have hext : ∃ l, T = l ++ c1'.hist := by
        obtain ⟨l, hl⟩ := runLoop_hist_ext env1 _ n c1' ctx1 r1 h
        exact ⟨l, by rw [← hT, hl]⟩
      obtain ⟨c2', hstep2, hrel'⟩ := sim_nextP env1 env2 T hc1 hc2 hg ht hlg hr1 hr2 hns pp c1 c2 c1' hrel hstep hext
      obtain ⟨ctx2, r2, hrun2, hsh⟩ := ih c1' c2' ctx1 r1 hT hrel' h
      refine ⟨ctx2, r2, ?_, hsh⟩
      unfold runLoop
      rw [hstep2]
      exact hrun2
    · rename_i ctx1' r1' hstep
      injection h with h1 h2
      injection h2 with h2
      subst h1 h2
      obtain ⟨ctx2, r2, hstep2, hsh⟩ := sim_doneP env1 env2 T ht pp c1 c2 ctx1' r1' hrel hstep
      refine ⟨ctx2, r2, ?_, hsh⟩
      unfold runLoop
      rw [hstep2]
    · rename_i ctx1' o hstep
      injection h with _ h2
      subst h2
      exact absurd rfl (step_stop_not_ok env1 _ c1 ctx1' _ hstep r1)

end

/-- **Layout insertion invariance along the tokens of the parse.** -/
theorem parse_insertion_path (env1 env2 : Env)
    (hc1 : env1.custom = none) (hc2 : env2.custom = none)
    (hl1 : env1.t.layoutState = none)
    (hg : env2.g = env1.g) (ht : env2.t = env1.t) (hlg : env2.longest = env1.longest)
    (hr1 : RecogOk env1) (hr2 : RecogOk env2) (hns : NoShiftStop env1.t)
    (pp : Bool) (fuel : Nat) (ctx1 : Ctx) (r1 : ParseResult)
    (h : parse env1 pp fuel = (ctx1, .ok r1))
    (hal : PathAligned env1 env2 r1.hist.reverse (postSkip env1 0) (postSkip env2 0)) :
    ∃ ctx2 r2, parse env2 pp fuel = (ctx2, .ok r2) ∧
      r1.tree.shape env1.input = r2.tree.shape env2.input := by
  have hl2 : env2.t.layoutState = none := by rw [ht]; exact hl1
  have e1 : nextTokenMain env1 pp fuel = nextTokenBase env1 pp := by
    funext ctx; exact nextTokenMain_eq_base env1 hl1 pp fuel ctx
  have e2 : nextTokenMain env2 pp fuel = nextTokenBase env2 pp := by
    funext ctx; exact nextTokenMain_eq_base env2 hl2 pp fuel ctx
  unfold parse parseWith at h ⊢
  rw [e1] at h
  rw [e2]
  simp only at h ⊢
  split at h
  · rename_i ctx1' tk1 hnt1
    obtain ⟨ctx2', tk2, hnt2, hp1, hp2, hs1, hs2, hkey, hrc1, hrc2⟩ :=
      lexSim' env1 env2 hc1 hc2 ht hlg pp {} {} ctx1' tk1 rfl hal.recog hnt1
    rw [hnt2]
    simp only
    refine runLoop_simP env1 env2 r1.hist hc1 hc2 hg ht hlg hr1 hr2 hns pp fuel _ _ ctx1 r1 rfl ?_ h
    refine ⟨by simp, by simp, ⟨r1.hist.reverse, by simp, ?_⟩, hs1, hs2, hkey, hrc1, hrc2⟩
    show PathAligned env1 env2 r1.hist.reverse ctx1'.pos.pos ctx2'.pos.pos
    rw [hp1, hp2]; exact hal
  all_goals (injection h with _ h2; simp at h2)

end Rustemo
