import Rustemo.Proofs.ViableLate
/-!
# The valid-prefix property of the token-level LR parser, assembled

Hypotheses as propositions (`Structural`, `Complete`, `GWF`, accept only on STOP, `Anchored`,
`Productive`, `NonEmptyTargets`); `Props/C12.lean` instantiates them with the executable certificates.
-/
namespace Rustemo

mutual
theorem Tree.validB_sound (g : Grammar) : ∀ (t : Tree) (X : Nat), t.validB g X = true → t.Valid g X
  | .leaf a _ _ _, X, h => by
    simp only [Tree.validB, Bool.and_eq_true, beq_iff_eq, decide_eq_true_eq] at h
    exact h
  | .node p _ _ cs, X, h => by
    simp only [Tree.validB] at h
    split at h
    · rename_i pr hpr
      simp only [Bool.and_eq_true, beq_iff_eq] at h
      exact ⟨pr, hpr, h.1, TreeList.validB_sound g cs pr.rhs h.2⟩
    · simp at h
theorem TreeList.validB_sound (g : Grammar) : ∀ (ts : TreeList) (Xs : List Nat),
    ts.validB g Xs = true → ts.Valid g Xs
  | .nil, Xs, h => by
    simp only [TreeList.validB, List.isEmpty_iff] at h
    exact h
  | .cons t ts, Xs, h => by
    simp only [TreeList.validB] at h
    split at h
    · simp at h
    · rename_i X Xs'
      simp only [Bool.and_eq_true] at h
      exact ⟨X, Xs', rfl, Tree.validB_sound g t X h.1, TreeList.validB_sound g ts Xs' h.2⟩
end

/-- executable witness of a sentence -/
theorem sentence_of_validB (g : Grammar) (tr : Tree) (w : List Nat)
    (h : (tr.validB g g.startIdx && tr.yield == w) = true) : Sentence g w := by
  simp only [Bool.and_eq_true, beq_iff_eq] at h
  exact ⟨tr, Tree.validB_sound g tr _ h.1, h.2⟩

/-- **No early error** (general form).  If `q` is a viable prefix, the run on `q ++ y` reports no error
    while a token of `q` is the lookahead: an error index (tokens remaining) is at most `|y|`. -/
theorem viable_no_early_error (g : Grammar) (t : Table) (hw : GWF g) (hc : Complete g t)
    (hip : ∀ s p d, t.hasItem s p d → ∃ pr, g.prods[p]? = some pr ∧ d ≤ pr.rhs.length)
    (q y : List Nat) (hv : ViablePrefix g q) (fuel k s : Nat)
    (h : tparse g t (q ++ y) fuel = .error k s) : k ≤ y.length := by
  obtain ⟨x, tx, hvx, hy⟩ := hv
  obtain ⟨F, hF⟩ := tparse_complete g t hw hc hip tx hvx
  rw [hy] at hF
  exact trun_prefix_no_error g t x y F ⟨[], []⟩ q _ hF fuel k s h

/-- **Viable prefixes are shifted**: the run on `q ++ y` reaches a configuration in which exactly `q`
    has been shifted and `y` remains. -/
theorem viable_is_shifted (g : Grammar) (t : Table) (autos : List Auto) (hs : Structural g t autos)
    (hin : (⟨0, 0, g.startIdx⟩ : Auto) ∈ autos) (hw : GWF g) (hc : Complete g t)
    (hacc : ∀ s a, Action.accept ∈ t.cell s a → a = 0)
    (q y : List Nat) (hnz : ∀ b ∈ q, b ≠ 0) (hv : ViablePrefix g q) :
    ∃ c, Reaches g t ⟨⟨[], []⟩, q ++ y⟩ ⟨c, y⟩ ∧ c.shifted = q.reverse := by
  obtain ⟨x, tx, hvx, hy⟩ := hv
  obtain ⟨F, hF⟩ := tparse_complete g t hw hc hs.item_prod tx hvx
  rw [hy] at hF
  obtain ⟨c, hr⟩ := trun_prefix_shifted g t hacc x y F ⟨[], []⟩ q _ hnz hF
  refine ⟨c, hr, ?_⟩
  have hinv := reaches_tinv g t autos hs ⟨0, 0, g.startIdx⟩ hin rfl (q ++ y) hr (tinv_init g t _)
  have := hinv.split
  simp only at this
  have := List.append_cancel_right this
  rw [← this, List.reverse_reverse]

/-- **The error is at the first offending token** (token level).  If the run on `w` ends in
    `.error k s` (k tokens remaining, top state `s`) then, with `i = |w| - k` the index of the
    lookahead: `w.take i` is a viable prefix (it has been shifted), `w.take (i+1)` is not (when the
    lookahead is a token), `w` is not a sentence (when the lookahead is STOP), and the error was
    raised in a reachable configuration with remaining input `w.drop i` whose top state `s` has an
    empty cell for the lookahead. -/
theorem error_at_first_offending (g : Grammar) (t : Table) (autos : List Auto) (hs : Structural g t autos)
    (hA : Anchored g t autos) (hP : Productive g) (hN : NonEmptyTargets g t)
    (hin : (⟨0, 0, g.startIdx⟩ : Auto) ∈ autos) (hw : GWF g) (hc : Complete g t)
    (w : List Nat) (fuel k s : Nat) (h : tparse g t w fuel = .error k s) :
    k ≤ w.length ∧ ViablePrefix g (w.take (w.length - k)) ∧
    (k ≠ 0 → ¬ ViablePrefix g (w.take (w.length - k + 1))) ∧
    (k = 0 → ¬ Sentence g w) ∧
    ∃ c, Reaches g t ⟨⟨[], []⟩, w⟩ c ∧ c.rest = w.drop (w.length - k) ∧
         c.c.shifted.reverse = w.take (w.length - k) ∧
         s = topOf 0 c.c.stack ∧ t.cell s (lookahead c.rest) = [] := by
  have haug : ∃ pr, g.prods[0]? = some pr ∧ pr.rhs = [g.startIdx] := by
    obtain ⟨pr0, h1, _, h2⟩ := hw.aug0; exact ⟨pr0, h1, h2⟩
  obtain ⟨c, hr, he⟩ := trun_error_reaches g t fuel _ k s h
  obtain ⟨hk, hs', hcell⟩ := tstep_error_spec he
  obtain ⟨hsplit, hvia⟩ := reaches_viable g t autos hs hA hP hN hin haug w c hr
  have hlen : c.c.shifted.reverse.length + k = w.length := by
    rw [← hsplit, List.length_append, hk]
  have htake : c.c.shifted.reverse = w.take (w.length - k) := by
    have : w.length - k = c.c.shifted.reverse.length := by omega
    rw [this, ← hsplit, List.take_left]
  have hdrop : c.rest = w.drop (w.length - k) := by
    have : w.length - k = c.c.shifted.reverse.length := by omega
    rw [this, ← hsplit, List.drop_left]
  refine ⟨by omega, htake ▸ hvia, ?_, ?_, c, hr, hdrop, htake, hs', hcell⟩
  · intro hk0 hv1
    -- w = take (i+1) ++ drop (i+1): an error with k tokens remaining contradicts "no early error"
    have hsplit' : w = w.take (w.length - k + 1) ++ w.drop (w.length - k + 1) :=
      (List.take_append_drop _ _).symm
    rw [hsplit'] at h
    have := viable_no_early_error g t hw hc hs.item_prod _ _ hv1 fuel k s h
    simp only [List.length_drop] at this
    omega
  · intro hk0 ⟨tx, hvx, hy⟩
    subst hk0
    obtain ⟨F, hF⟩ := tparse_complete g t hw hc hs.item_prod tx hvx
    rw [hy] at hF
    -- the run is deterministic: accept and error cannot both be its result
    unfold tparse at h hF
    have a1 := trun_mono_result' g t fuel _ _ h (by simp) F
    have a2 := trun_mono_result' g t F _ _ hF (by simp) fuel
    rw [Nat.add_comm] at a2
    rw [a1] at a2
    simp at a2

end Rustemo
