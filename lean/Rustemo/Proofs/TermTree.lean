import Rustemo.Model.Basic
/-!
# Size of derivation trees of a cycle-free grammar (termination, C15)

`GRank`: a set `nul` of nullable nonterminals closed under the productions `U` the parser can use,
and a ranking `r` of the symbols that decreases along the unit-derivation relation
(`A → α X β`, `α β` nullable ⇒ `r X < r A`), ranks below `W`, right-hand sides no longer than `m`.

Then a tree built from `U`-productions has at most `E = (m+1)^W` nodes if its yield is empty, and at
most `2·(y−1)·K + C·(r X + 1) ≤ (2y−1)·K` nodes if its yield has `y ≥ 1` tokens and its root is `X`
(`C = 1 + m·E`, `K = C·W`): a node with two or more children that have tokens splits the yield; a
node with exactly one such child is a step down the ranking.
-/
namespace Rustemo

mutual
/-- number of nonterminal nodes (= reductions that built the tree) -/
def Tree.nodes : Tree → Nat
  | .leaf _ _ _ _ => 0
  | .node _ _ _ cs => 1 + TreeList.nodes cs
def TreeList.nodes : TreeList → Nat
  | .nil => 0
  | .cons t ts => Tree.nodes t + TreeList.nodes ts
end

mutual
/-- every node is a production satisfying `U` -/
def Tree.Uses (U : Nat → Prop) : Tree → Prop
  | .leaf _ _ _ _ => True
  | .node p _ _ cs => U p ∧ TreeList.Uses U cs
def TreeList.Uses (U : Nat → Prop) : TreeList → Prop
  | .nil => True
  | .cons t ts => Tree.Uses U t ∧ TreeList.Uses U ts
end

/-- number of children with an empty yield -/
def TreeList.eps : TreeList → Nat
  | .nil => 0
  | .cons t ts => (if t.yield = [] then 1 else 0) + ts.eps

/-- number of children with tokens -/
def TreeList.full : TreeList → Nat
  | .nil => 0
  | .cons t ts => (if t.yield = [] then 0 else 1) + ts.full

/-- `Σ (2·yᵢ − 1)` over the children with tokens -/
def TreeList.gsum : TreeList → Nat
  | .nil => 0
  | .cons t ts => (if t.yield = [] then 0 else 2 * t.yield.length - 1) + ts.gsum

def TreeList.len : TreeList → Nat
  | .nil => 0
  | .cons _ ts => 1 + ts.len

structure GRank (g : Grammar) (U : Nat → Prop) (nul : Nat → Prop) (r : Nat → Nat) (m W : Nat) : Prop where
  closed : ∀ p pr, U p → g.prods[p]? = some pr → (∀ x ∈ pr.rhs, nul x) → nul pr.lhs
  nulNT : ∀ x, nul x → g.nterms ≤ x
  unit : ∀ p pr, U p → g.prods[p]? = some pr → ∀ pre x post, pr.rhs = pre ++ x :: post →
    (∀ y ∈ pre, nul y) → (∀ y ∈ post, nul y) → g.nterms ≤ x → r x < r pr.lhs
  rhsLen : ∀ p pr, U p → g.prods[p]? = some pr → pr.rhs.length ≤ m
  lhsNT : ∀ p pr, U p → g.prods[p]? = some pr → g.nterms ≤ pr.lhs
  rlt : ∀ x, r x < W

theorem TreeList.len_valid (g : Grammar) : ∀ (cs : TreeList) (Xs : List Nat), cs.Valid g Xs → cs.len = Xs.length
  | .nil, Xs, h => by simp only [TreeList.Valid] at h; subst h; rfl
  | .cons t ts, Xs, h => by
    obtain ⟨X, Xs', rfl, _, hts⟩ := h
    simp only [TreeList.len, List.length_cons, TreeList.len_valid g ts Xs' hts]
    omega

theorem TreeList.eps_full_len : ∀ (cs : TreeList), cs.eps + cs.full = cs.len
  | .nil => rfl
  | .cons t ts => by
    have := TreeList.eps_full_len ts
    simp only [TreeList.eps, TreeList.full, TreeList.len]
    split <;> omega

theorem TreeList.gsum_full : ∀ (cs : TreeList), cs.gsum + cs.full = 2 * cs.yield.length
  | .nil => rfl
  | .cons t ts => by
    have := TreeList.gsum_full ts
    simp only [TreeList.gsum, TreeList.full, TreeList.yield, List.length_append]
    split
    · rename_i h; rw [h]; simp only [List.length_nil]; omega
    · rename_i h
      have : 0 < t.yield.length := List.length_pos_iff.mpr h
      omega

theorem TreeList.full_zero_yield : ∀ (cs : TreeList), cs.full = 0 → cs.yield = []
  | .nil, _ => rfl
  | .cons t ts, h => by
    simp only [TreeList.full] at h
    split at h
    · rename_i ht
      simp only [TreeList.yield, ht, List.nil_append]
      exact TreeList.full_zero_yield ts (by omega)
    · omega

section
variable {g : Grammar} {U : Nat → Prop} {nul : Nat → Prop} {r : Nat → Nat} {m W : Nat}

mutual
/-- the root of a tree with an empty yield is nullable -/
theorem Tree.eps_root (hg : GRank g U nul r m W) : ∀ (t : Tree) (X : Nat), t.Valid g X → t.Uses U →
    t.yield = [] → nul X
  | .leaf a _ _ _, X, _, _, hy => by simp [Tree.yield] at hy
  | .node p _ _ cs, X, hv, hu, hy => by
    obtain ⟨pr, hpr, hl, hcs⟩ := hv
    rw [← hl]
    exact hg.closed p pr hu.1 hpr (TreeList.eps_root hg cs pr.rhs hcs hu.2 hy)
theorem TreeList.eps_root (hg : GRank g U nul r m W) : ∀ (cs : TreeList) (Xs : List Nat), cs.Valid g Xs →
    cs.Uses U → cs.yield = [] → ∀ x ∈ Xs, nul x
  | .nil, Xs, hv, _, _ => by simp only [TreeList.Valid] at hv; subst hv; simp
  | .cons t ts, Xs, hv, hu, hy => by
    obtain ⟨X, Xs', rfl, ht, hts⟩ := hv
    simp only [TreeList.yield, List.append_eq_nil_iff] at hy
    intro x hx
    rcases List.mem_cons.mp hx with h | h
    · subst h; exact Tree.eps_root hg t x ht hu.1 hy.1
    · exact TreeList.eps_root hg ts Xs' hts hu.2 hy.2 x h
end

/-- in a production whose right-hand side is all nullable every symbol ranks below the left-hand side -/
theorem GRank.all_below (hg : GRank g U nul r m W) (p : Nat) (pr : Prod) (hu : U p)
    (hpr : g.prods[p]? = some pr) (hn : ∀ x ∈ pr.rhs, nul x) : ∀ x ∈ pr.rhs, r x < r pr.lhs := by
  intro x hx
  obtain ⟨pre, post, hsplit⟩ := List.append_of_mem hx
  refine hg.unit p pr hu hpr pre x post hsplit ?_ ?_ (hg.nulNT x (hn x hx))
  · intro y hy; exact hn y (by rw [hsplit]; simp [hy])
  · intro y hy; exact hn y (by rw [hsplit]; simp [hy])

theorem pow_step (m k : Nat) : 1 + m * (m + 1) ^ k ≤ (m + 1) ^ (k + 1) := by
  rw [Nat.pow_succ, Nat.mul_comm ((m + 1) ^ k) (m + 1), Nat.add_mul, Nat.one_mul]
  have : 1 ≤ (m + 1) ^ k := Nat.one_le_pow _ _ (by omega)
  omega

mutual
/-- size of a tree with an empty yield -/
theorem Tree.eps_size (hg : GRank g U nul r m W) : ∀ (t : Tree) (X : Nat), t.Valid g X → t.Uses U →
    t.yield = [] → t.nodes ≤ (m + 1) ^ (r X)
  | .leaf a _ _ _, X, _, _, hy => by simp [Tree.yield] at hy
  | .node p _ _ cs, X, hv, hu, hy => by
    obtain ⟨pr, hpr, hl, hcs⟩ := hv
    have hy' : cs.yield = [] := hy
    have hnul := TreeList.eps_root hg cs pr.rhs hcs hu.2 hy'
    have hbelow := hg.all_below p pr hu.1 hpr hnul
    have hlen := TreeList.len_valid g cs pr.rhs hcs
    have hm := hg.rhsLen p pr hu.1 hpr
    simp only [Tree.nodes]
    rw [← hl]
    cases hk : r pr.lhs with
    | zero =>
      -- no symbol can rank below 0: the right-hand side is empty
      have : pr.rhs = [] := by
        cases hrhs : pr.rhs with
        | nil => rfl
        | cons x xs => have := hbelow x (by rw [hrhs]; simp); omega
      rw [this] at hcs
      cases cs with
      | nil => simp [TreeList.nodes]
      | cons t ts => simp [TreeList.Valid] at hcs
    | succ k =>
      have hsz := TreeList.eps_size hg cs pr.rhs k hcs hu.2 hy' (fun x hx => by have := hbelow x hx; omega)
      have h1 : cs.len * (m + 1) ^ k ≤ m * (m + 1) ^ k := Nat.mul_le_mul_right _ (by omega)
      have := pow_step m k
      omega
theorem TreeList.eps_size (hg : GRank g U nul r m W) : ∀ (cs : TreeList) (Xs : List Nat) (k : Nat),
    cs.Valid g Xs → cs.Uses U → cs.yield = [] → (∀ x ∈ Xs, r x ≤ k) → cs.nodes ≤ cs.len * (m + 1) ^ k
  | .nil, _, _, _, _, _, _ => by simp [TreeList.nodes]
  | .cons t ts, Xs, k, hv, hu, hy, hr => by
    obtain ⟨X, Xs', rfl, ht, hts⟩ := hv
    simp only [TreeList.yield, List.append_eq_nil_iff] at hy
    have h1 := Tree.eps_size hg t X ht hu.1 hy.1
    have h2 := TreeList.eps_size hg ts Xs' k hts hu.2 hy.2 (fun x hx => hr x (by simp [hx]))
    have h3 : (m + 1) ^ (r X) ≤ (m + 1) ^ k := Nat.pow_le_pow_right (by omega) (hr X (by simp))
    simp only [TreeList.nodes, TreeList.len]
    rw [Nat.add_mul, Nat.one_mul]
    omega
end

/-- the constants of the bound -/
structure Consts (m W E C K : Nat) : Prop where
  hE : E = (m + 1) ^ W
  hC : C = 1 + m * E
  hK : K = C * W

theorem Consts.eps_le {m W E C K : Nat} (hc : Consts m W E C K) (hg : GRank g U nul r m W)
    (t : Tree) (X : Nat) (hv : t.Valid g X) (hu : t.Uses U) (hy : t.yield = []) : t.nodes ≤ E := by
  have h1 := Tree.eps_size hg t X hv hu hy
  have h2 : (m + 1) ^ (r X) ≤ (m + 1) ^ W := Nat.pow_le_pow_right (by omega) (Nat.le_of_lt (hg.rlt X))
  rw [hc.hE]; omega

theorem Consts.rank_le {m W E C K : Nat} (hc : Consts m W E C K) (hg : GRank g U nul r m W) (X : Nat) :
    C * (r X + 1) ≤ K := by
  rw [hc.hK]; exact Nat.mul_le_mul_left _ (hg.rlt X)

/-- all children have an empty yield -/
theorem TreeList.eps_nodes {m W E C K : Nat} (hc : Consts m W E C K) (hg : GRank g U nul r m W) :
    ∀ (cs : TreeList) (Xs : List Nat), cs.Valid g Xs → cs.Uses U → cs.full = 0 → cs.nodes ≤ cs.len * E
  | .nil, _, _, _, _ => by simp [TreeList.nodes]
  | .cons t ts, Xs, hv, hu, hf => by
    obtain ⟨X, Xs', rfl, ht, hts⟩ := hv
    simp only [TreeList.full] at hf
    split at hf
    · rename_i hy
      have h1 := hc.eps_le hg t X ht hu.1 hy
      have h2 := TreeList.eps_nodes hc hg ts Xs' hts hu.2 (by omega)
      simp only [TreeList.nodes, TreeList.len]
      rw [Nat.add_mul, Nat.one_mul]
      omega
    · omega

mutual
/-- **size of a tree with `y + 1` tokens** -/
theorem Tree.size_bound {m W E C K : Nat} (hc : Consts m W E C K) (hg : GRank g U nul r m W) :
    ∀ (t : Tree) (X : Nat), t.Valid g X → t.Uses U → ∀ y, t.yield.length = y + 1 →
      t.nodes ≤ 2 * y * K + C * (r X + 1)
  | .leaf a _ _ _, X, _, _, y, _ => by simp [Tree.nodes]
  | .node p _ _ cs, X, hv, hu, y, hy => by
    obtain ⟨pr, hpr, hl, hcs⟩ := hv
    have hy' : cs.yield.length = y + 1 := hy
    have hlen := TreeList.len_valid g cs pr.rhs hcs
    have hm := hg.rhsLen p pr hu.1 hpr
    have hef := TreeList.eps_full_len cs
    have hgf := TreeList.gsum_full cs
    have hC := hc.hC
    simp only [Tree.nodes]
    rw [← hl]
    -- how many children have tokens?
    rcases Nat.lt_or_ge cs.full 2 with hj | hj
    · rcases Nat.lt_or_ge cs.full 1 with hj0 | hj1
      · -- none: the yield would be empty
        have := TreeList.full_zero_yield cs (by omega)
        rw [this] at hy'; simp at hy'
      · -- exactly one: a step down the ranking
        have hone := TreeList.one_bound hc hg cs pr.rhs p pr [] hu.1 hpr (by simp) (by simp) hcs hu.2
          (by omega) y hy'
        have he : cs.eps * E ≤ m * E := Nat.mul_le_mul_right _ (by omega)
        have : C * (r pr.lhs + 1) = C * r pr.lhs + C := by rw [Nat.mul_add, Nat.mul_one]
        omega
    · -- two or more: the yield splits
      have hgen := TreeList.gen_bound hc hg cs pr.rhs hcs hu.2
      have he : cs.eps * E ≤ m * E := Nat.mul_le_mul_right _ (by omega)
      have hG : cs.gsum * K ≤ (2 * y) * K := Nat.mul_le_mul_right _ (by omega)
      have : C * (r pr.lhs + 1) = C * r pr.lhs + C := by rw [Nat.mul_add, Nat.mul_one]
      omega
/-- children, generously: every child with `yᵢ` tokens is charged `(2yᵢ − 1)·K` -/
theorem TreeList.gen_bound {m W E C K : Nat} (hc : Consts m W E C K) (hg : GRank g U nul r m W) :
    ∀ (cs : TreeList) (Xs : List Nat), cs.Valid g Xs → cs.Uses U → cs.nodes ≤ cs.eps * E + cs.gsum * K
  | .nil, _, _, _ => by simp [TreeList.nodes]
  | .cons t ts, Xs, hv, hu => by
    obtain ⟨X, Xs', rfl, ht, hts⟩ := hv
    have h2 := TreeList.gen_bound hc hg ts Xs' hts hu.2
    simp only [TreeList.nodes, TreeList.eps, TreeList.gsum]
    split
    · rename_i hy
      have h1 := hc.eps_le hg t X ht hu.1 hy
      rw [Nat.add_mul, Nat.one_mul, Nat.zero_add]
      omega
    · rename_i hy
      have hpos : 0 < t.yield.length := List.length_pos_iff.mpr hy
      obtain ⟨y, hyy⟩ : ∃ y, t.yield.length = y + 1 := ⟨t.yield.length - 1, by omega⟩
      have h1 := Tree.size_bound hc hg t X ht hu.1 y hyy
      have h3 := hc.rank_le hg X
      have h4 : (2 * t.yield.length - 1) * K = 2 * y * K + K := by
        have : 2 * t.yield.length - 1 = 2 * y + 1 := by omega
        rw [this, Nat.add_mul, Nat.one_mul]
      rw [Nat.add_mul (2 * t.yield.length - 1) ts.gsum K, h4, Nat.zero_add]
      omega
/-- children when exactly one of them has tokens, seen from inside the production `pr = pre ++ Xs`
    whose symbols before `Xs` are nullable: that child ranks below the left-hand side -/
theorem TreeList.one_bound {m W E C K : Nat} (hc : Consts m W E C K) (hg : GRank g U nul r m W) :
    ∀ (cs : TreeList) (Xs : List Nat) (p : Nat) (pr : Prod) (pre : List Nat), U p → g.prods[p]? = some pr →
      pr.rhs = pre ++ Xs → (∀ x ∈ pre, nul x) → cs.Valid g Xs → cs.Uses U → cs.full = 1 →
      ∀ y, cs.yield.length = y + 1 → cs.nodes ≤ cs.eps * E + 2 * y * K + C * r pr.lhs
  | .nil, _, _, _, _, _, _, _, _, _, _, hf, _, _ => by simp [TreeList.full] at hf
  | .cons t ts, Xs, p, pr, pre, hup, hpr, hsplit, hpre, hv, hu, hf, y, hy => by
    obtain ⟨X, Xs', rfl, ht, hts⟩ := hv
    simp only [TreeList.full] at hf
    simp only [TreeList.yield, List.length_append] at hy
    simp only [TreeList.nodes, TreeList.eps]
    split at hf
    · -- this child has no tokens: it is nullable, go on
      rename_i hty
      have hX := Tree.eps_root hg t X ht hu.1 hty
      have h1 := hc.eps_le hg t X ht hu.1 hty
      have h2 := TreeList.one_bound hc hg ts Xs' p pr (pre ++ [X]) hup hpr (by rw [hsplit]; simp)
        (by
          intro x hx
          rcases List.mem_append.mp hx with h | h
          · exact hpre x h
          · simp at h; subst h; exact hX)
        hts hu.2 (by omega) y (by rw [hty] at hy; simpa using hy)
      rw [if_pos hty, Nat.add_mul, Nat.one_mul]
      omega
    · -- this is the child with tokens; the rest has none
      rename_i hty
      have hrest : ts.full = 0 := by omega
      have hry := TreeList.full_zero_yield ts hrest
      have hpost := TreeList.eps_root hg ts Xs' hts hu.2 hry
      have h2 := TreeList.eps_nodes hc hg ts Xs' hts hu.2 hrest
      have hyt : t.yield.length = y + 1 := by rw [hry] at hy; simpa using hy
      have hef := TreeList.eps_full_len ts
      rw [if_neg hty, Nat.zero_add]
      have hlen2 : ts.eps = ts.len := by omega
      rw [hlen2]
      -- a terminal leaf has no nodes; a nonterminal ranks below the left-hand side
      rcases Nat.lt_or_ge X g.nterms with hterm | hnt
      · cases t with
        | leaf a sp v l => simp only [Tree.nodes]; omega
        | node q sp l cs' =>
          -- the root of a node is the left-hand side of a used production: a nonterminal
          exfalso
          obtain ⟨pr', hpr', hl', _⟩ := ht
          have := hg.lhsNT q pr' hu.1.1 hpr'
          omega
      · have hrank := hg.unit p pr hup hpr pre X Xs' hsplit hpre hpost hnt
        have h1 := Tree.size_bound hc hg t X ht hu.1 y hyt
        have h3 : C * (r X + 1) ≤ C * r pr.lhs := Nat.mul_le_mul_left _ hrank
        omega
end

end

end Rustemo
