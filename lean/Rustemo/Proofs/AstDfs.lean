import Rustemo.Model.Ast
/-!
# C11: `find_recursions` marks an edge on every reference cycle

`dfs` (Model/Ast.lean) is the DFS of `SymbolTypes::find_recursions` over the reference graph.
Invariants of the search state:

* `Inv`    — every edge `u → v` out of a finished (`visited`) node is marked, or `v` was finished
             strictly before `u` was finished for the first time (position in the `visited` list);
* `Closed` — the target of every edge out of a finished node, and of every marked edge, is finished
             or still on the DFS stack (`visiting`).

`Inv` makes finishing positions decrease strictly along unmarked edges, so no unmarked cycle can pass
through a finished node; `Closed` with the empty stack makes the finished set closed under edges, so
everything reachable from the start symbol is finished. The proof also covers the peculiarity of the
code that the start symbol is NOT put into `visiting` (it is entered a second time when a cycle leads
back to it).
-/
namespace Rustemo.Ast

/-- `u`'s reference number `i` is `v` -/
def EdgeAt (G : Graph) (u : String) (i : Nat) (v : String) : Prop :=
  ∃ es, G.edges u = some es ∧ es[i]? = some v

def Inv (G : Graph) (st : DfsSt) : Prop :=
  ∀ u ∈ st.visited, ∀ i v, EdgeAt G u i v →
    (u, i) ∈ st.flags ∨ st.visited.idxOf v < st.visited.idxOf u

def Closed (G : Graph) (visiting : List String) (st : DfsSt) : Prop :=
  (∀ u ∈ st.visited, ∀ i v, EdgeAt G u i v → v ∈ st.visited ∨ v ∈ visiting) ∧
  (∀ u i, (u, i) ∈ st.flags → ∀ v, EdgeAt G u i v → v ∈ st.visited ∨ v ∈ visiting)

/-- what one (terminating) activation guarantees -/
structure Post (G : Graph) (visiting : List String) (st st' : DfsSt) : Prop where
  inv : Inv G st'
  closed : Closed G visiting st'
  ext : ∃ l, st'.visited = st.visited ++ l
  flags : ∀ e ∈ st.flags, e ∈ st'.flags

def CallSpec (G : Graph) (call : String → List String → DfsSt → Option DfsSt) : Prop :=
  ∀ t vis s s', call t vis s = some s' → Inv G s → Closed G vis s → Post G vis s s' ∧ t ∈ s'.visited

theorem Post.refl {G : Graph} {vis : List String} {st : DfsSt} (hi : Inv G st) (hc : Closed G vis st) :
    Post G vis st st := ⟨hi, hc, ⟨[], by simp⟩, fun _ h => h⟩

theorem Post.trans {G : Graph} {vis : List String} {a b c : DfsSt} (h1 : Post G vis a b) (h2 : Post G vis b c) :
    Post G vis a c := by
  refine ⟨h2.inv, h2.closed, ?_, fun e he => h2.flags e (h1.flags e he)⟩
  obtain ⟨l1, e1⟩ := h1.ext
  obtain ⟨l2, e2⟩ := h2.ext
  exact ⟨l1 ++ l2, by rw [e2, e1, List.append_assoc]⟩

theorem mem_of_ext {a b : List String} (h : ∃ l, b = a ++ l) {x : String} (hx : x ∈ a) : x ∈ b := by
  obtain ⟨l, e⟩ := h; rw [e]; exact List.mem_append_left _ hx

/-- marking an edge whose target is on the stack -/
theorem post_flag {G : Graph} {vis : List String} {st : DfsSt} (name : String) (i : Nat) (tgt : String)
    (hi : Inv G st) (hc : Closed G vis st) (he : ∀ v, EdgeAt G name i v → v = tgt) (ht : tgt ∈ vis) :
    Post G vis st { st with flags := (name, i) :: st.flags } := by
  refine ⟨?_, ⟨?_, ?_⟩, ⟨[], by simp⟩, fun e h => List.mem_cons_of_mem _ h⟩
  · intro u hu j v hev
    rcases hi u hu j v hev with h | h
    · exact Or.inl (List.mem_cons_of_mem _ h)
    · exact Or.inr h
  · exact hc.1
  · intro u j hf v hev
    rcases List.mem_cons.mp hf with h | h
    · have h1 : u = name := congrArg Prod.fst h
      have h2 : j = i := congrArg Prod.snd h
      subst h1; subst h2
      exact Or.inr (by rw [he v hev]; exact ht)
    · exact hc.2 u j h v hev

/-- returning from the activation of `tgt`: the stack shrinks, `tgt` is finished -/
theorem closed_pop {G : Graph} {vis : List String} {tgt : String} {st : DfsSt}
    (hc : Closed G (tgt :: vis) st) (ht : tgt ∈ st.visited) : Closed G vis st := by
  refine ⟨?_, ?_⟩
  · intro u hu i v hev
    rcases hc.1 u hu i v hev with h | h
    · exact Or.inl h
    · rcases List.mem_cons.mp h with h | h
      · exact Or.inl (h ▸ ht)
      · exact Or.inr h
  · intro u i hf v hev
    rcases hc.2 u i hf v hev with h | h
    · exact Or.inl h
    · rcases List.mem_cons.mp h with h | h
      · exact Or.inl (h ▸ ht)
      · exact Or.inr h

theorem closed_push {G : Graph} {vis : List String} (tgt : String) {st : DfsSt}
    (hc : Closed G vis st) : Closed G (tgt :: vis) st :=
  ⟨fun u hu i v hev => (hc.1 u hu i v hev).imp id (List.mem_cons_of_mem _),
   fun u i hf v hev => (hc.2 u i hf v hev).imp id (List.mem_cons_of_mem _)⟩

/-- the loop over the references of `name`, starting at reference number `i` -/
theorem edgeLoop_post (G : Graph) (call : String → List String → DfsSt → Option DfsSt) (hcall : CallSpec G call)
    (name : String) (visiting : List String) (all : List String) (hall : G.edges name = some all) :
    ∀ (es : List String) (i : Nat) (st st' : DfsSt), (∀ j, es[j]? = all[i + j]?) →
      edgeLoop call name visiting es i st = some st' → Inv G st → Closed G visiting st →
      Post G visiting st st' ∧ ∀ j v, es[j]? = some v → (name, i + j) ∈ st'.flags ∨ v ∈ st'.visited := by
  intro es
  induction es with
  | nil =>
    intro i st st' _ h hi hc
    simp only [edgeLoop] at h
    cases h
    exact ⟨Post.refl hi hc, by intro j v hj; simp at hj⟩
  | cons tgt rest ih =>
    intro i st st' hes h hi hc
    have hrest : ∀ j, rest[j]? = all[(i + 1) + j]? := by
      intro j
      have := hes (j + 1)
      simp only [List.getElem?_cons_succ] at this
      rw [this]; congr 1; omega
    have htgt : all[i]? = some tgt := by
      have := hes 0
      simpa using this.symm
    have hedge : ∀ v, EdgeAt G name i v → v = tgt := by
      intro v ⟨es', he1, he2⟩
      rw [hall] at he1; cases he1
      rw [htgt] at he2; cases he2; rfl
    -- combine: a Post for the first edge, then the induction hypothesis
    have finish : ∀ (mid : DfsSt), Post G visiting st mid → ((name, i) ∈ mid.flags ∨ tgt ∈ mid.visited) →
        edgeLoop call name visiting rest (i + 1) mid = some st' →
        Post G visiting st st' ∧ ∀ j v, (tgt :: rest)[j]? = some v → (name, i + j) ∈ st'.flags ∨ v ∈ st'.visited := by
      intro mid hp hfirst hloop
      obtain ⟨hp2, hrest2⟩ := ih (i + 1) mid st' hrest hloop hp.inv hp.closed
      refine ⟨hp.trans hp2, ?_⟩
      intro j v hj
      cases j with
      | zero =>
        simp at hj; subst hj
        rcases hfirst with hf | hv
        · exact Or.inl (hp2.flags _ hf)
        · exact Or.inr (mem_of_ext hp2.ext hv)
      | succ j =>
        simp only [List.getElem?_cons_succ] at hj
        have := hrest2 j v hj
        have e : i + 1 + j = i + (j + 1) := by omega
        rw [e] at this
        exact this
    simp only [edgeLoop] at h
    split at h
    · rename_i hfl
      exact finish st (Post.refl hi hc) (Or.inl (List.contains_iff_mem.mp hfl)) h
    · split at h
      · rename_i _ hvis
        have hvis' : tgt ∈ visiting := List.contains_iff_mem.mp hvis
        exact finish _ (post_flag name i tgt hi hc hedge hvis') (Or.inl (List.mem_cons_self)) h
      · split at h
        · cases h
        · rename_i mid hmid
          obtain ⟨hp, hin⟩ := hcall tgt (tgt :: visiting) st mid hmid hi (closed_push tgt hc)
          have hp' : Post G visiting st mid := ⟨hp.inv, closed_pop hp.closed hin, hp.ext, hp.flags⟩
          exact finish mid hp' (Or.inr hin) h

theorem idxOf_append_left {l : List String} (m : List String) {x : String} (hx : x ∈ l) :
    (l ++ m).idxOf x = l.idxOf x := by
  rw [List.idxOf_append]; simp [hx]

/-- finishing `name` -/
theorem post_finish {G : Graph} {vis : List String} {st : DfsSt} (name : String)
    (hi : Inv G st) (hc : Closed G vis st)
    (hedges : ∀ j v, EdgeAt G name j v → (name, j) ∈ st.flags ∨ v ∈ st.visited) :
    Post G vis st { st with visited := st.visited ++ [name] } := by
  refine ⟨?_, ⟨?_, ?_⟩, ⟨[name], rfl⟩, fun e h => h⟩
  · intro u hu i v hev
    by_cases hold : u ∈ st.visited
    · rcases hi u hold i v hev with h | h
      · exact Or.inl h
      · refine Or.inr ?_
        have hv : v ∈ st.visited := by
          apply List.idxOf_lt_length_iff.mp
          exact Nat.lt_trans h (List.idxOf_lt_length_iff.mpr hold)
        show (st.visited ++ [name]).idxOf v < (st.visited ++ [name]).idxOf u
        rw [idxOf_append_left _ hv, idxOf_append_left _ hold]; exact h
    · have hun : u = name := by
        rcases List.mem_append.mp hu with h | h
        · exact absurd h hold
        · simpa using h
      subst hun
      rcases hedges i v hev with h | h
      · exact Or.inl h
      · refine Or.inr ?_
        show (st.visited ++ [u]).idxOf v < (st.visited ++ [u]).idxOf u
        rw [idxOf_append_left _ h, List.idxOf_append]
        simp only [hold, if_false]
        have := List.idxOf_lt_length_iff.mpr h
        omega
  · intro u hu i v hev
    rcases List.mem_append.mp hu with h | h
    · exact (hc.1 u h i v hev).imp (List.mem_append_left _) id
    · have hun : u = name := by simpa using h
      subst hun
      rcases hedges i v hev with hf | hv
      · exact (hc.2 u i hf v hev).imp (List.mem_append_left _) id
      · exact Or.inl (List.mem_append_left _ hv)
  · intro u i hf v hev
    exact (hc.2 u i hf v hev).imp (List.mem_append_left _) id

theorem dfs_spec (G : Graph) : ∀ fuel, CallSpec G (fun t vis s => dfs G fuel t vis s) := by
  intro fuel
  induction fuel with
  | zero => intro t vis s s' h; simp [dfs] at h
  | succ fuel ih =>
    intro name vis st st' h hi hc
    simp only [dfs] at h
    split at h
    · rename_i hv
      cases h
      exact ⟨Post.refl hi hc, List.contains_iff_mem.mp hv⟩
    · split at h
      · cases h
      · rename_i es hes
        split at h
        · cases h
        · rename_i mid hmid
          cases h
          obtain ⟨hp, hpe⟩ := edgeLoop_post G _ ih name vis es hes es 0 st mid (by intro j; simp) hmid hi hc
          have hedges : ∀ j v, EdgeAt G name j v → (name, j) ∈ mid.flags ∨ v ∈ mid.visited := by
            intro j v ⟨es', h1, h2⟩
            rw [hes] at h1; cases h1
            simpa using hpe j v h2
          exact ⟨hp.trans (post_finish name hp.inv hp.closed hedges), by simp⟩

/-! ## consequences for the finished search -/

theorem inv_empty (G : Graph) : Inv G {} := by intro u hu; simp at hu
theorem closed_empty (G : Graph) : Closed G [] {} := ⟨by intro u hu; simp at hu, by intro u i hf; simp at hf⟩

theorem findRecursions_post (G : Graph) (start : String) (st : DfsSt) (h : findRecursions G start = some st) :
    Inv G st ∧ Closed G [] st ∧ start ∈ st.visited := by
  obtain ⟨hp, hs⟩ := dfs_spec G (G.length + 2) start [] {} st h (inv_empty G) (closed_empty G)
  exact ⟨hp.inv, hp.closed, hs⟩

/-- reachable through references (marked or not) -/
inductive Reach (G : Graph) : String → String → Prop
  | refl (u : String) : Reach G u u
  | step {u v w : String} {i : Nat} : Reach G u v → EdgeAt G v i w → Reach G u w

/-- a path of length ≥ 1 that uses only UNMARKED references -/
inductive UnmarkedPath (G : Graph) (flags : List Edge) : String → String → Prop
  | single {u v : String} {i : Nat} : EdgeAt G u i v → (u, i) ∉ flags → UnmarkedPath G flags u v
  | cons {u v w : String} {i : Nat} : EdgeAt G u i v → (u, i) ∉ flags → UnmarkedPath G flags v w →
      UnmarkedPath G flags u w

theorem reach_visited {G : Graph} {start : String} {st : DfsSt} (hc : Closed G [] st) (hs : start ∈ st.visited)
    {u : String} (hr : Reach G start u) : u ∈ st.visited := by
  induction hr with
  | refl => exact hs
  | step _ he ih =>
    rcases hc.1 _ ih _ _ he with h | h
    · exact h
    · simp at h

theorem unmarked_decreases {G : Graph} {st : DfsSt} (hi : Inv G st) {u w : String}
    (hp : UnmarkedPath G st.flags u w) (hu : u ∈ st.visited) :
    st.visited.idxOf w < st.visited.idxOf u := by
  induction hp with
  | single he hn =>
    rcases hi _ hu _ _ he with h | h
    · exact absurd h hn
    · exact h
  | cons he hn _ ih =>
    rcases hi _ hu _ _ he with h | h
    · exact absurd h hn
    · have hv : _ ∈ st.visited :=
        List.idxOf_lt_length_iff.mp (Nat.lt_trans h (List.idxOf_lt_length_iff.mpr hu))
      exact Nat.lt_trans (ih hv) h

/-- every reference cycle through a type reachable from the start symbol contains a marked edge -/
theorem findRecursions_breaks_cycles (G : Graph) (start : String) (st : DfsSt)
    (h : findRecursions G start = some st) (u : String) (hr : Reach G start u) :
    ¬ UnmarkedPath G st.flags u u := by
  obtain ⟨hi, hc, hs⟩ := findRecursions_post G start st h
  intro hp
  exact Nat.lt_irrefl _ (unmarked_decreases hi hp (reach_visited hc hs hr))

end Rustemo.Ast
