import Rustemo.Proofs.Lex
import Rustemo.Model.LR
/-!
# Parser-side filters and the link to the LR model's `TokenIterator`
-/
namespace Rustemo.Lex

theorem foldl_max_ge (l : List (TermDesc × Nat)) (init : Nat) :
    init ≤ l.foldl (fun acc t => max acc t.2) init ∧
    ∀ u ∈ l, u.2 ≤ l.foldl (fun acc t => max acc t.2) init := by
  induction l generalizing init with
  | nil => simp
  | cons x xs ih =>
    simp only [List.foldl_cons]
    obtain ⟨h1, h2⟩ := ih (max init x.2)
    refine ⟨by omega, ?_⟩
    intro u hu
    rcases List.mem_cons.mp hu with h | h
    · subst h; omega
    · exact h2 u h

theorem foldl_max_attained (l : List (TermDesc × Nat)) (init : Nat) :
    l.foldl (fun acc t => max acc t.2) init = init ∨
    ∃ u ∈ l, u.2 = l.foldl (fun acc t => max acc t.2) init := by
  induction l generalizing init with
  | nil => simp
  | cons x xs ih =>
    simp only [List.foldl_cons]
    rcases ih (max init x.2) with h | ⟨u, hu, h⟩
    · rw [h]
      by_cases hx : x.2 ≤ init
      · left; omega
      · right; exact ⟨x, by simp, by omega⟩
    · right; exact ⟨u, List.mem_cons_of_mem _ hu, h⟩

/-- the longest-match filter keeps exactly the tokens of maximal length -/
theorem mem_longest (toks : List (TermDesc × Nat)) (t : TermDesc × Nat) :
    t ∈ toks.filter (fun t => t.2 == maxLen' toks) ↔ (t ∈ toks ∧ ∀ u ∈ toks, u.2 ≤ t.2) := by
  rw [List.mem_filter]
  unfold maxLen'
  have hge := (foldl_max_ge toks 0).2
  constructor
  · rintro ⟨hin, heq⟩
    simp only [beq_iff_eq] at heq
    exact ⟨hin, fun u hu => by rw [heq]; exact hge u hu⟩
  · rintro ⟨hin, hmax⟩
    refine ⟨hin, ?_⟩
    simp only [beq_iff_eq]
    have h1 := hge t hin
    rcases foldl_max_attained toks 0 with h | ⟨u, hu, h⟩
    · omega
    · have := hmax u hu; omega

/-- LR: the token acted on is one of the iterator's tokens, of maximal length if longest-match is on;
    none is found iff the iterator yields nothing -/
theorem lrPick_spec (longest : Bool) (toks : List (TermDesc × Nat)) :
    (∀ t, lrPick longest toks = some t → t ∈ toks ∧ (longest = true → ∀ u ∈ toks, u.2 ≤ t.2)) ∧
    (lrPick longest toks = none ↔ toks = []) := by
  unfold lrPick
  cases longest with
  | false =>
    simp only [Bool.false_eq_true, ↓reduceIte, false_implies, and_true]
    refine ⟨fun t h => List.mem_of_head? h, ?_⟩
    cases toks <;> simp
  | true =>
    simp only [↓reduceIte, true_implies]
    refine ⟨fun t h => (mem_longest toks t).mp (List.mem_of_head? h), ?_⟩
    constructor
    · intro h
      cases htoks : toks with
      | nil => rfl
      | cons x xs =>
        exfalso
        -- the maximum is attained by some element, which survives the filter
        have hne : toks ≠ [] := by rw [htoks]; simp
        have : ∃ t, t ∈ toks.filter (fun t => t.2 == maxLen' toks) := by
          unfold maxLen'
          rcases foldl_max_attained toks 0 with h0 | ⟨u, hu, hmax⟩
          · refine ⟨x, ?_⟩
            rw [List.mem_filter]
            refine ⟨by rw [htoks]; simp, ?_⟩
            have := (foldl_max_ge toks 0).2 x (by rw [htoks]; simp)
            simp only [beq_iff_eq]; omega
          · exact ⟨u, by rw [List.mem_filter]; exact ⟨hu, by simp only [beq_iff_eq]; exact hmax⟩⟩
        obtain ⟨t, ht⟩ := this
        cases hf : toks.filter (fun t => t.2 == maxLen' toks) with
        | nil => rw [hf] at ht; simp at ht
        | cons y ys => rw [hf] at h; simp at h
    · intro h; subst h; rfl

/-- GLR without grammar order: every token of maximal length (every token if longest-match is off)
    is kept and will be followed -/
theorem glrKeep_spec (longest : Bool) (toks : List (TermDesc × Nat)) (t : TermDesc × Nat) :
    t ∈ glrKeep longest false toks ↔ (t ∈ toks ∧ (longest = true → ∀ u ∈ toks, u.2 ≤ t.2)) := by
  unfold glrKeep
  cases longest with
  | false => simp
  | true => simp only [↓reduceIte, Bool.false_eq_true, true_implies]; exact mem_longest toks t

/-- GLR with grammar order keeps at most one token, one of the above -/
theorem glrKeep_order_spec (longest : Bool) (toks : List (TermDesc × Nat)) (t : TermDesc × Nat)
    (h : t ∈ glrKeep longest true toks) : t ∈ glrKeep longest false toks ∧
      (glrKeep longest true toks).length ≤ 1 := by
  unfold glrKeep at h ⊢
  simp only [↓reduceIte, Bool.false_eq_true] at h ⊢
  exact ⟨List.mem_of_mem_take h, by simp [List.length_take]; omega⟩

/-- the `TokenIterator` of the byte-level LR model is `iter` on kinds and lengths -/
theorem tokenIterAux_eq_iter (env : Rustemo.Env) (pos : Rustemo.Pos) :
    ∀ (L : List (TermDesc × Bool)) (b : Bool),
      (Rustemo.tokenIterAux env pos b (L.map fun (t, f) => (t.idx, f))).map (fun tk => (tk.kind, tk.val.2)) =
      (iter (fun k => env.recog k pos.pos) b L).map (fun (t, l) => (t.idx, l))
  | [], b => by simp [Rustemo.tokenIterAux, iter]
  | (t, f) :: rest, b => by
    simp only [List.map_cons, Rustemo.tokenIterAux, iter]
    cases hm : env.recog t.idx pos.pos with
    | some l =>
      simp only [List.map_cons]
      cases f with
      | true => simp
      | false => simp [tokenIterAux_eq_iter env pos rest true]
    | none =>
      simp only
      cases hfb : (f && b) with
      | true => simp
      | false => simp [tokenIterAux_eq_iter env pos rest b]

theorem sortedB_sound (ms : Bool) : ∀ (l : List TermDesc), sortedB ms l = true → Sorted ms l
  | [], _ => trivial
  | a :: rest, h => by
    simp only [sortedB, Bool.and_eq_true, List.all_eq_true] at h
    refine ⟨fun b hb => ?_, sortedB_sound ms rest h.2⟩
    have := h.1 b hb
    unfold beforeB at this
    simp only [Bool.or_eq_true, decide_eq_true_eq, Bool.and_eq_true, beq_iff_eq] at this
    exact this

theorem wftB_sound (t : TermDesc) (h : wftB t = true) : WFT t := by
  unfold wftB at h
  unfold WFT
  split at h
  · rename_i n hn
    rw [hn]
    simpa using h
  · rename_i hn; rw [hn]; trivial

end Rustemo.Lex
