import Rustemo.Proofs.FrontNts
import Rustemo.Proofs.FrontIdx
/-!
# Nonterminal production lists are exact

`nt.productions` lists, in order, exactly the indices of the productions whose `nonterminal` is
`nt.idx` — although helper rules are created (and their productions numbered) in the middle of the
alternative that uses them, while that alternative's own production is pushed first.
-/
namespace Rustemo.Front

/-- indices of the productions of nonterminal `i`, in vector order -/
def idxsOf (l : List GProd) (i : Nat) : List Nat := (l.filter (fun p => p.nonterminal == i)).map (·.idx)

theorem idxsOf_append (l m : List GProd) (i : Nat) : idxsOf (l ++ m) i = idxsOf l i ++ idxsOf m i := by
  unfold idxsOf
  rw [List.filter_append, List.map_append]

theorem idxsOf_none {l : List GProd} {i : Nat} (h : ∀ p, p ∈ l → p.nonterminal ≠ i) : idxsOf l i = [] := by
  unfold idxsOf
  rw [List.filter_eq_nil_iff.mpr]
  · rfl
  · intro p hp
    simpa using h p hp

theorem idxsOf_single_yes {p : GProd} {i : Nat} (h : p.nonterminal = i) : idxsOf [p] i = [p.idx] := by
  unfold idxsOf
  simp [h]

def Exact (nts : List NonTerm) (prods : List GProd) : Prop := ∀ nt, nt ∈ nts → nt.prods = idxsOf prods nt.idx

def Owned (prods : List GProd) (N : Nat) : Prop := ∀ p, p ∈ prods → p.nonterminal < N

theorem names_inj {nts : List NonTerm} (hn : (ntNames nts).Nodup) {a b : NonTerm} (ha : a ∈ nts) (hb : b ∈ nts)
    (e : a.name = b.name) : a = b := by
  unfold ntNames at hn
  induction nts with
  | nil => simp at ha
  | cons x xs ih =>
    have hn' := List.nodup_cons.mp (hn : (x.name :: xs.map (·.name)).Nodup)
    simp only [List.mem_cons] at ha hb
    rcases ha with ha | ha
    · rcases hb with hb | hb
      · rw [ha, hb]
      · exfalso
        apply hn'.1
        rw [← ha]
        show _ ∈ _
        have := List.mem_map_of_mem (f := (fun x : NonTerm => x.name)) hb
        rw [← e] at this
        exact this
    · rcases hb with hb | hb
      · exfalso
        apply hn'.1
        rw [← hb]
        have := List.mem_map_of_mem (f := (fun x : NonTerm => x.name)) ha
        rw [e] at this
        exact this
      · exact ih hn'.2 ha hb

theorem idxs_inj {nts : List NonTerm} (hn : (ntIdxs nts).Nodup) {a b : NonTerm} (ha : a ∈ nts) (hb : b ∈ nts)
    (e : a.idx = b.idx) : a = b := by
  unfold ntIdxs at hn
  induction nts with
  | nil => simp at ha
  | cons x xs ih =>
    have hn' := List.nodup_cons.mp (hn : (x.idx :: xs.map (·.idx)).Nodup)
    simp only [List.mem_cons] at ha hb
    rcases ha with ha | ha
    · rcases hb with hb | hb
      · rw [ha, hb]
      · exfalso
        apply hn'.1
        rw [← ha]
        show _ ∈ _
        have := List.mem_map_of_mem (f := (fun x : NonTerm => x.idx)) hb
        rw [← e] at this
        exact this
    · rcases hb with hb | hb
      · exfalso
        apply hn'.1
        rw [← hb]
        have := List.mem_map_of_mem (f := (fun x : NonTerm => x.idx)) ha
        rw [e] at this
        exact this
      · exact ih hn'.2 ha hb

/-- state while one alternative is processed; `P0`, `N0` = productions / nonterminal counter at its start -/
structure AccExact (P0 : List GProd) (N0 : Nat) (s : Acc) : Prop where
  prodsEq : s.1.prods = P0
  exact : Exact s.1.nts (P0 ++ s.2)
  pend : ∀ p, p ∈ s.2 → N0 ≤ p.nonterminal ∧ p.nonterminal < s.1.nextNt
  mono : N0 ≤ s.1.nextNt

theorem createHelper_exact {P0 : List GProd} {N0 : Nat} {pend : Option (Name × Nat)} {s : Acc}
    {name : Name} {ann : Option Name} {r0 r1 : List RAssign} (hown : Owned P0 N0)
    (hi : NtsInv pend s.1) (he : AccExact P0 N0 s) (habs : hasNt s.1.nts name = false) :
    AccExact P0 N0 (createHelper name ann r0 r1 s) := by
  have hnts : (createHelper name ann r0 r1 s).1.nts =
      s.1.nts ++ [{ idx := s.1.nextNt, name := name, annotation := ann, prods := [s.1.nextProd, s.1.nextProd + 1] }] :=
    insertNt_absent (nt := { idx := s.1.nextNt, name := name, annotation := ann, prods := [s.1.nextProd, s.1.nextProd + 1] }) habs
  have h2 : (createHelper name ann r0 r1 s).2 = s.2 ++
      [{ idx := s.1.nextProd, nonterminal := s.1.nextNt, ntidx := 0, rhs := r0 },
       { idx := s.1.nextProd + 1, nonterminal := s.1.nextNt, ntidx := 1, rhs := r1 }] := rfl
  constructor
  · exact he.prodsEq
  · rw [hnts, h2]
    intro nt hnt
    rw [← List.append_assoc, idxsOf_append]
    rcases List.mem_append.mp hnt with hm | hm
    · rw [he.exact nt hm]
      have hb := hi.bound nt hm
      rw [idxsOf_none (l := [_, _])]
      · simp
      · intro p hp
        simp at hp
        rcases hp with rfl | rfl <;> (show s.1.nextNt ≠ nt.idx; omega)
    · simp at hm
      subst hm
      show [s.1.nextProd, s.1.nextProd + 1] = idxsOf (P0 ++ s.2) s.1.nextNt ++ _
      rw [idxsOf_none (l := P0 ++ s.2)]
      · simp [idxsOf]
      · intro p hp
        rcases List.mem_append.mp hp with hp | hp
        · have := hown p hp
          have := he.mono
          omega
        · have := (he.pend p hp).2
          omega
  · rw [h2]
    intro p hp
    show N0 ≤ p.nonterminal ∧ p.nonterminal < s.1.nextNt + 1
    rcases List.mem_append.mp hp with hp | hp
    · have := he.pend p hp
      omega
    · simp at hp
      have := he.mono
      rcases hp with rfl | rfl <;> (show N0 ≤ s.1.nextNt ∧ s.1.nextNt < s.1.nextNt + 1; omega)
  · show N0 ≤ s.1.nextNt + 1
    have := he.mono
    omega

theorem closed_exact (fx : Fixes) (pend : Option (Name × Nat)) (P0 : List GProd) (N0 : Nat) (u : Use)
    (hown : Owned P0 N0) (hp : ∀ n r, pend = some (n, r) → u.helper fx ≠ n) :
    Closed fx (fun s => NtsInv pend s.1 ∧ AccExact P0 N0 s) u := by
  intro s hs habs
  obtain ⟨ann, r0, r1, e⟩ := createUse_eq fx u s
  rw [e]
  exact ⟨createHelper_nts hs.1 habs hp, createHelper_exact hown hs.1 hs.2 habs⟩

/-- exactness between alternatives; with a reservation `(n, r)` no production belongs to `r` yet -/
structure XExact (pend : Option (Name × Nat)) (st : XSt) : Prop where
  exact : Exact st.nts st.prods
  owned : Owned st.prods st.nextNt
  fresh : ∀ n r, pend = some (n, r) → ∀ p, p ∈ st.prods → p.nonterminal ≠ r

theorem altStep_exact {cx : Ctx} {rule : Rule} {ntIdx j : Nat} {alt : Alt} {st st' : XSt}
    {pend : Option (Name × Nat)} (hi : NtsInv pend st) (hx : XExact pend st)
    (hpend : PendFor pend st rule.name ntIdx) (hav : AltAvoids cx alt rule.name)
    (h : altStep cx rule ntIdx j alt st = .ok st') : XExact none st' := by
  have hfull := altStep_nts hi hpend hav h
  unfold altStep at h
  simp only at h
  obtain ⟨res, h1, h⟩ := Outcome.bind_eq_ok.mp h
  obtain ⟨_, _, h⟩ := Outcome.bind_eq_ok.mp h
  cases h
  have hav' : ∀ a, a ∈ alt.assigns.filter (fun a => !a.isUnnamedEmpty) →
      ∀ u, u ∈ a.symRef.uses cx.matchesMap → u.helper cx.fx ≠ rule.name :=
    fun a ha u hu => hav u (List.mem_flatMap.mpr ⟨a, ha, hu⟩)
  have hi1 : NtsInv pend ({ st with nextProd := st.nextProd + 1 } : XSt) :=
    ⟨hi.names, hi.idxs, hi.bound, fun nt hnt p hp => Nat.lt_succ_of_lt (hi.prodsB nt hnt p hp), hi.pendOk⟩
  have he0 : AccExact st.prods st.nextNt (({ st with nextProd := st.nextProd + 1 } : XSt), []) :=
    ⟨rfl, by simpa using hx.exact, by simp, Nat.le_refl _⟩
  have hP := rhsSteps_pres (cx := cx)
    (P := fun s => NtsInv pend s.1 ∧ AccExact st.prods st.nextNt s)
    (fun a ha u hu => closed_exact cx.fx pend st.prods st.nextNt u hx.owned (fun n r e => by
        cases pend with
        | none => cases e
        | some q =>
          cases e
          have : (n, r) = (rule.name, ntIdx) := hpend
          cases this
          exact hav' a ha u hu))
    (s := ({ st with nextProd := st.nextProd + 1 }, [])) ⟨hi1, he0⟩ h1
  obtain ⟨hI, hE⟩ := hP
  -- the index of the rule is below the counter at the start of the alternative
  have hr : ntIdx < st.nextNt := by
    cases pend with
    | none =>
      obtain ⟨nt0, hf0, e0⟩ := hpend
      rw [← e0]
      exact hi.bound nt0 (findNt_some hf0).1
    | some q =>
      have : q = (rule.name, ntIdx) := hpend
      subst this
      exact hi.pendOk.2.1
  have hpendNo : ∀ p, p ∈ res.2.2 → p.nonterminal ≠ ntIdx := by
    intro p hp
    have := (hE.pend p hp).1
    omega
  -- new production list
  have hprods : ∀ i, idxsOf (res.2.1.prods ++ [mkProd st.nextProd ntIdx j res.1
      (inherit cx.fx (metaOf rule.metas) (metaOf alt.metas))] ++ res.2.2) i =
      if i = ntIdx then idxsOf st.prods i ++ [st.nextProd] else idxsOf (st.prods ++ res.2.2) i := by
    intro i
    rw [hE.prodsEq, idxsOf_append, idxsOf_append, idxsOf_append]
    by_cases hi' : i = ntIdx
    · subst hi'
      simp only [if_true]
      rw [idxsOf_none hpendNo, idxsOf_single_yes (by rfl)]
      simp [mkProd]
    · simp only [hi', if_false]
      rw [idxsOf_none (l := [_])]
      · simp
      · intro p hp
        simp at hp
        subst hp
        exact fun e => hi' e.symm
  constructor
  · -- exactness
    show Exact _ (res.2.1.prods ++ [_] ++ res.2.2)
    intro y hy
    rw [hprods]
    cases pend with
    | some q =>
      have : q = (rule.name, ntIdx) := hpend
      subst this
      obtain ⟨c1, c2, c3, c4⟩ := hI.pendOk
      have hno : hasNt res.2.1.nts rule.name = false := hasNt_false.mpr c3
      simp only [hno] at hy
      rcases List.mem_append.mp hy with hm | hm
      · have hne : y.idx ≠ ntIdx := fun e => c4 (e ▸ List.mem_map_of_mem hm)
        simp only [hne, if_false]
        exact hE.exact y hm
      · simp at hm
        subst hm
        simp only [if_true]
        rw [idxsOf_none (hx.fresh rule.name ntIdx rfl)]
        rfl
    | none =>
      obtain ⟨nt0, hf0, hidx0⟩ := hpend
      have hF := rhsSteps_pres (cx := cx) (P := fun s => findNt s.1.nts rule.name = some nt0)
        (fun a _ u _ => closed_find cx.fx rule.name nt0 u)
        (s := ({ st with nextProd := st.nextProd + 1 }, [])) hf0 h1
      have hyes : hasNt res.2.1.nts rule.name = true := by
        unfold hasNt
        rw [hF]
        rfl
      simp only [hyes] at hy
      obtain ⟨x, hxm, en, ei, _, epr⟩ := mem_pushProd hy
      have hnt0 := findNt_some hF
      rw [ei]
      by_cases hxn : x.name = rule.name
      · have hx0 : x = nt0 := names_inj hI.names hxm hnt0.1 (hxn.trans hnt0.2.symm)
        have hxi : x.idx = ntIdx := by rw [hx0]; exact hidx0
        simp only [hxi, if_true]
        rcases epr with e | ⟨_, e⟩
        · -- impossible: the entry of the rule got the new production
          exfalso
          unfold pushProd at hy
          obtain ⟨z, hz, ez⟩ := List.mem_map.mp hy
          have hzx : z = x := by
            apply names_inj hI.names hz hxm
            split at ez
            · rw [← ez] at en
              exact en
            · rw [← ez] at en
              exact en
          subst hzx
          have : (z.name == rule.name) = true := by simpa using hxn
          simp only [this, if_true] at ez
          rw [← ez] at e
          simp at e
        · rw [e, hE.exact x hxm, idxsOf_append, hxi, idxsOf_none hpendNo]
          simp
      · have hxi : x.idx ≠ ntIdx := by
          intro e
          have : x = nt0 := idxs_inj hI.idxs hxm hnt0.1 (e.trans hidx0.symm)
          exact hxn (this ▸ hnt0.2)
        simp only [hxi, if_false]
        rcases epr with e | ⟨e', _⟩
        · rw [e]
          exact hE.exact x hxm
        · exact absurd e' hxn
  · -- ownership
    show Owned (res.2.1.prods ++ [_] ++ res.2.2) res.2.1.nextNt
    intro p hp
    rcases List.mem_append.mp hp with hp | hp
    · rcases List.mem_append.mp hp with hp | hp
      · rw [hE.prodsEq] at hp
        have := hx.owned p hp
        have := hE.mono
        omega
      · simp at hp
        subst hp
        show ntIdx < _
        have := hE.mono
        omega
    · exact (hE.pend p hp).2
  · intro n r e
    cases e

theorem altSteps_exact {cx : Ctx} {rule : Rule} {ntIdx : Nat} :
    ∀ {alts : List Alt} {j : Nat} {st st' : XSt} {pend : Option (Name × Nat)},
      NtsInv pend st → XExact pend st → PendFor pend st rule.name ntIdx →
      (∀ a, a ∈ alts → AltAvoids cx a rule.name) → alts ≠ [] →
      altSteps cx rule ntIdx j alts st = .ok st' → XExact none st'
  | [], _, _, _, _, _, _, _, _, hne, _ => absurd rfl hne
  | a :: as, j, st, st', pend, hi, hx, hp, hav, _, h => by
    unfold altSteps at h
    obtain ⟨st1, h1, h2⟩ := Outcome.bind_eq_ok.mp h
    obtain ⟨hi1, hp1⟩ := altStep_nts hi hp (hav a (by simp)) h1
    have hx1 := altStep_exact hi hx hp (hav a (by simp)) h1
    cases as with
    | nil =>
      cases h2
      exact hx1
    | cons b bs =>
      exact altSteps_exact hi1 hx1 hp1 (fun x hxm => hav x (by simp [hxm])) (by simp) h2

theorem ruleStep_exact {cx : Ctx} {rule : Rule} {st st' : XSt} (hi : NtsInv none st) (hx : XExact none st)
    (hav : RuleAvoids cx rule) (hne : rule.alts ≠ []) (h : ruleStep cx rule st = .ok st') : XExact none st' := by
  rcases ruleStep_ok h with ⟨nt, hf, h⟩ | ⟨hf, h⟩
  · exact altSteps_exact (pend := none) hi hx ⟨nt, hf, rfl⟩ hav hne h
  · have hi' : NtsInv (some (rule.name, st.nextNt)) ({ st with nextNt := st.nextNt + 1 } : XSt) := by
      refine ⟨hi.names, hi.idxs, fun nt hnt => Nat.lt_succ_of_lt (hi.bound nt hnt), hi.prodsB, ?_⟩
      refine ⟨?_, Nat.lt_succ_self _, findNt_none hf, ?_⟩
      · show st.nts.length + 1 = st.nextNt + 1
        rw [hi.pendOk]
      · intro hm
        obtain ⟨x, hxm, e⟩ := List.mem_map.mp hm
        have := hi.bound x hxm
        omega
    have hx' : XExact (some (rule.name, st.nextNt)) ({ st with nextNt := st.nextNt + 1 } : XSt) := by
      refine ⟨hx.exact, fun p hp => Nat.lt_succ_of_lt (hx.owned p hp), ?_⟩
      intro n r e p hp
      cases e
      have := hx.owned p hp
      omega
    exact altSteps_exact (pend := some (rule.name, st.nextNt)) hi' hx' rfl hav hne h

theorem ruleSteps_exact {cx : Ctx} :
    ∀ {rules : List Rule} {st st' : XSt}, NtsInv none st → XExact none st →
      (∀ r, r ∈ rules → RuleAvoids cx r ∧ r.alts ≠ []) → ruleSteps cx rules st = .ok st' → XExact none st'
  | [], _, _, _, hx, _, h => by
    cases h
    exact hx
  | r :: rs, st, st', hi, hx, hw, h => by
    unfold ruleSteps at h
    obtain ⟨st1, h1, h2⟩ := Outcome.bind_eq_ok.mp h
    obtain ⟨hi1, _⟩ := ruleStep_nts hi (hw r (by simp)).1 (hw r (by simp)).2 h1
    exact ruleSteps_exact hi1 (ruleStep_exact hi hx (hw r (by simp)).1 (hw r (by simp)).2 h1)
      (fun x hxm => hw x (by simp [hxm])) h2

theorem createAug_exact {a b : Name} {st : XSt} (hi : NtsInv none st) (hx : XExact none st)
    (habs : hasNt st.nts a = false) : XExact none (createAug a b st) := by
  have hnts : (createAug a b st).nts = st.nts ++ [{ idx := st.nextNt, name := a, prods := [st.nextProd] }] :=
    insertNt_absent (nt := { idx := st.nextNt, name := a, prods := [st.nextProd] }) habs
  refine ⟨?_, ?_, fun n r e => by cases e⟩
  · rw [hnts]
    show Exact _ (st.prods ++ [_])
    intro nt hnt
    rw [idxsOf_append]
    rcases List.mem_append.mp hnt with hm | hm
    · rw [hx.exact nt hm, idxsOf_none (l := [_])]
      · simp
      · intro p hp
        simp at hp
        subst hp
        have := hi.bound nt hm
        show st.nextNt ≠ nt.idx
        omega
    · simp at hm
      subst hm
      rw [idxsOf_none (l := st.prods)]
      · simp [idxsOf]
      · intro p hp
        have := hx.owned p hp
        show p.nonterminal ≠ st.nextNt
        omega
  · show Owned (st.prods ++ [_]) (st.nextNt + 1)
    intro p hp
    rcases List.mem_append.mp hp with hp | hp
    · exact Nat.lt_succ_of_lt (hx.owned p hp)
    · simp at hp
      subst hp
      exact Nat.lt_succ_self _

theorem xst0_exact : XExact none xst0 := by
  refine ⟨?_, ?_, fun n r e => by cases e⟩
  · intro nt hnt
    simp [xst0] at hnt
    subst hnt
    rfl
  · intro p hp
    simp [xst0] at hp

theorem extract_exact {cx : Ctx} {r0 : Rule} {rules : List Rule} {st : XSt}
    (hw : ∀ r, r ∈ rules → RuleAvoids cx r ∧ r.alts ≠ []) (h : extract cx r0 rules = .ok st) : XExact none st := by
  unfold extract at h
  simp only at h
  have h1 : NtsInv none (createAug kAUG r0.name xst0) := createAug_nts xst0_nts (aug_no_self)
  have x1 : XExact none (createAug kAUG r0.name xst0) := createAug_exact xst0_nts xst0_exact (aug_no_self)
  split at h
  · rename_i lr _
    exact ruleSteps_exact (createAug_nts h1 (aug_no_augl _)) (createAug_exact h1 x1 (aug_no_augl _)) hw h
  · exact ruleSteps_exact h1 x1 hw h

theorem idxsOf_rel {l l' : List GProd} (hr : All2 ProdRel l l') (i : Nat) : idxsOf l' i = idxsOf l i := by
  induction hr with
  | nil => rfl
  | cons hab _ ih =>
    obtain ⟨rhs', e, _⟩ := hab
    subst e
    unfold idxsOf at *
    simp only [List.filter_cons]
    split
    · simp only [List.map_cons]
      rw [ih]
    · exact ih

end Rustemo.Front
