import Rustemo.Proofs.FrontIdx
/-!
# Decomposition of a successful `Front.build` and the unconditional facts about its result
-/
namespace Rustemo.Front

/-- the phases of a successful build -/
structure Phases (fx : Fixes) (f : File) (g : Grammar) where
  ts : TSt
  xs : XSt × Name
  ps1 : List GProd
  ps2 : List GProd
  g0 : Grammar
  hts : termPhase fx f = .ok ts
  hxs : rulePhase fx f ts = .ok xs
  h1 : resolveInline (matchesOf f ts) xs.1.prods = .ok ps1
  h2 : resolveRefs fx.rflags ts.terms xs.1.nts ps1 = .ok ps2
  hg0 : assemble ts.terms xs.1.nts ps2 xs.2 = .ok g0
  hg : markReachable g0 = .ok g

theorem build_phases {fx : Fixes} {f : File} {g : Grammar} (h : build fx f = .ok g) : Nonempty (Phases fx f g) := by
  unfold build at h
  by_cases hb : f.big (if fx.intErr = true then int9Max else u32Max) = true
  · rw [if_pos hb] at h
    split at h <;> cases h
  · rw [if_neg hb] at h
    obtain ⟨ts, hts, h⟩ := Outcome.bind_eq_ok.mp h
    obtain ⟨xs, hxs, h⟩ := Outcome.bind_eq_ok.mp h
    obtain ⟨ps1, h1, h⟩ := Outcome.bind_eq_ok.mp h
    obtain ⟨ps2, h2, h⟩ := Outcome.bind_eq_ok.mp h
    obtain ⟨g0, hg0, hg⟩ := Outcome.bind_eq_ok.mp h
    exact ⟨⟨ts, xs, ps1, ps2, g0, hts, hxs, h1, h2, hg0, hg⟩⟩

theorem assemble_ok {terms : SMap Term} {nts : List NonTerm} {prods : List GProd} {sn : Name} {g : Grammar}
    (h : assemble terms nts prods sn = .ok g) :
    ∃ aug start, findNt nts kAUG = some aug ∧ findNt nts sn = some start ∧
      g = { prods := prods, emptyIdx := terms.length, stopIdx := 0, augIdx := terms.length + aug.idx,
            auglIdx := (findNt nts kAUGL).map (fun x => terms.length + x.idx),
            startIdx := terms.length + start.idx,
            terminals := sortTerms terms.values, nonterminals := sortNts nts } := by
  unfold assemble at h
  simp only at h
  split at h
  · cases h
  · rename_i aug haug
    split at h
    · cases h
    · rename_i start hstart
      cases h
      exact ⟨aug, start, haug, hstart, rfl⟩

theorem markReachable_ok {g0 g : Grammar} (h : markReachable g0 = .ok g) :
    ∃ m : Marks, g =
      { g0 with nonterminals := setReachNts m.nts 0 g0.nonterminals, terminals := setReachTerms m.terms 0 g0.terminals } := by
  unfold markReachable at h
  split at h
  · cases h
  · split at h
    · cases h
    · obtain ⟨m, _, h⟩ := Outcome.bind_eq_ok.mp h
      cases h
      exact ⟨m, rfl⟩

theorem rulePhase_ok {fx : Fixes} {f : File} {ts : TSt} {xs : XSt × Name} (h : rulePhase fx f ts = .ok xs) :
    (f.rules = none ∧ xs = ({ nts := [], prods := [], nextNt := 0, nextProd := 0 }, [])) ∨
    ∃ r0 rs, f.rules = some (r0 :: rs) ∧ extract (ctxOf fx f ts) r0 (r0 :: rs) = .ok xs.1 ∧ xs.2 = r0.name := by
  unfold rulePhase at h
  split at h
  · rename_i hr
    split at h
    · cases h
    · cases h
      exact Or.inl ⟨hr, rfl⟩
  · cases h
  · rename_i r0 rs hr
    obtain ⟨st, hst, h⟩ := Outcome.bind_eq_ok.mp h
    cases h
    exact Or.inr ⟨r0, rs, hr, hst, rfl⟩

/-- productions of the state after the rule phase are numbered by position -/
theorem rulePhase_xidx {fx : Fixes} {f : File} {ts : TSt} {xs : XSt × Name} (h : rulePhase fx f ts = .ok xs) :
    XIdx xs.1 := by
  rcases rulePhase_ok h with ⟨_, rfl⟩ | ⟨r0, rs, _, he, _⟩
  · exact ⟨rfl, IdxSeq.nil _⟩
  · exact extract_xidx he

/-- the productions of the built grammar are the extracted ones with their references resolved -/
theorem build_prods_rel {fx : Fixes} {f : File} {g : Grammar} (ph : Phases fx f g) :
    All2 ProdRel ph.xs.1.prods g.prods ∧ ∀ p, p ∈ g.prods → ∀ a, a ∈ p.rhs → a.index.isSome := by
  obtain ⟨aug, start, _, _, e0⟩ := assemble_ok ph.hg0
  obtain ⟨m, e⟩ := markReachable_ok ph.hg
  have e1 : g.prods = ph.g0.prods := (congrArg Grammar.prods e : _)
  have e2 : ph.g0.prods = ph.ps2 := (congrArg Grammar.prods e0 : _)
  rw [e1, e2]
  obtain ⟨r2, i2⟩ := resolveRefs_rel ph.h2
  exact ⟨forall₂_trans (R := ProdRel) (fun _ _ _ a b => ProdRel.trans a b) (resolveInline_rel ph.h1) r2, i2⟩

/-- `prods[i].idx = i` -/
theorem build_prods_idx {fx : Fixes} {f : File} {g : Grammar} (h : build fx f = .ok g) : IdxSeq g.prods 0 := by
  obtain ⟨ph⟩ := build_phases h
  exact IdxSeq.of_rel (build_prods_rel ph).1 (rulePhase_xidx ph.hxs).2

/-- every right-hand side symbol of a built grammar is resolved (`res_symbol` cannot panic) -/
theorem build_resolved {fx : Fixes} {f : File} {g : Grammar} (h : build fx f = .ok g) :
    ∀ p, p ∈ g.prods → ∀ a, a ∈ p.rhs → a.index.isSome := by
  obtain ⟨ph⟩ := build_phases h
  exact (build_prods_rel ph).2

end Rustemo.Front
