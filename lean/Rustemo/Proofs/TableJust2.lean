import Rustemo.Proofs.TableJust
import Rustemo.Proofs.TablePropC
/-!
# Table construction: `calc_states` and `propagate_follows` only ever add justified lookaheads
-/
namespace Rustemo.Table

variable {g : Grammar} {fs : Array (List Nat)} {tt : String} {rn : Option (Array Nat)}

/-! ## transitions are kept by the primitive steps -/

theorem TransLe.setItems (sts : Array State) (i : Nat) (items : List Item) : TransLe g sts (setItems sts i items) := by
  intro j st hs
  rw [getElem?_setItems]
  by_cases hij : i = j
  · rw [if_pos hij, hs]; exact ⟨_, rfl, fun _ _ ht => ht⟩
  · rw [if_neg hij]; exact ⟨st, hs, fun _ _ ht => ht⟩

theorem TransLe.push (sts : Array State) (st0 : State) : TransLe g sts (sts.push st0) := by
  intro j st hs
  refine ⟨st, ?_, fun _ _ ht => ht⟩
  rw [Array.getElem?_push, if_neg (by have := lt_size_of_getElem? hs; omega)]
  exact hs

/-- replacing a state by one that has all its transitions -/
theorem TransLe.upd {sts : Array State} {i : Nat} {st st' : State} (hi : sts[i]? = some st)
    (h : ∀ X j, HasTrans g st X j → HasTrans g st' X j) : TransLe g sts (sts.setIfInBounds i st') := by
  intro j stj hs
  rw [get_upd hi]
  by_cases hij : i = j
  · rw [if_pos hij]
    rw [← hij, hi] at hs
    simp only [Option.some.injEq] at hs
    subst hs
    exact ⟨st', rfl, h⟩
  · rw [if_neg hij]; exact ⟨stj, hs, fun _ _ ht => ht⟩

/-! ## merge -/

theorem itemPairs_fst {new : List Item} : ∀ {ks : List Item} {pairs : List (Item × Item)},
    itemPairs new ks = some pairs →
      pairs.map (·.1) = ks ∧ ∀ p ∈ pairs, p.2 ∈ new ∧ core p.2 = core p.1
  | [], pairs, h => by simp [itemPairs] at h; subst h; simp
  | x :: xs, pairs, h => by
    unfold itemPairs at h
    split at h
    · rename_i y r hy hr
      simp only [Option.some.injEq] at h
      subst h
      obtain ⟨i1, i2⟩ := itemPairs_fst hr
      refine ⟨by simp [i1], ?_⟩
      intro p hp
      rcases List.mem_cons.mp hp with h' | h'
      · subst h'
        have hsc := List.find?_some hy
        exact ⟨List.mem_of_find?_eq_some hy, sameCore_iff.mp hsc⟩
      · exact i2 p h'
    · simp at h

/-- where the lookaheads after a merge come from -/
theorem mergeItems_origin : ∀ (old : List Item) (ps : List (Item × Item)), ps.map (·.1) = old.filter isKernel →
    ∀ it' ∈ mergeItems old ps, ∃ it ∈ old, core it = core it' ∧
      ∀ a ∈ it'.la, a ∈ it.la ∨ ∃ p ∈ ps, p.1 = it ∧ a ∈ p.2.la
  | [], _, _ => by simp [mergeItems]
  | x :: xs, ps, hps => by
    unfold mergeItems
    by_cases hk : isKernel x = true
    · rw [if_pos hk]
      rw [List.filter_cons, if_pos hk] at hps
      cases ps with
      | nil => simp at hps
      | cons p ps' =>
        simp only [List.map_cons, List.cons.injEq] at hps
        intro it' hit'
        rcases List.mem_cons.mp hit' with h | h
        · subst h
          refine ⟨x, List.mem_cons_self, rfl, ?_⟩
          intro a ha
          rcases mem_union.mp ha with h' | h'
          · exact .inl h'
          · exact .inr ⟨p, List.mem_cons_self, hps.1, h'⟩
        · obtain ⟨it, i1, i2, i3⟩ := mergeItems_origin xs ps' hps.2 it' h
          refine ⟨it, List.mem_cons_of_mem _ i1, i2, ?_⟩
          intro a ha
          rcases i3 a ha with h' | ⟨q, q1, q2, q3⟩
          · exact .inl h'
          · exact .inr ⟨q, List.mem_cons_of_mem _ q1, q2, q3⟩
    · rw [if_neg hk]
      rw [List.filter_cons, if_neg hk] at hps
      intro it' hit'
      rcases List.mem_cons.mp hit' with h | h
      · subst h
        exact ⟨it', List.mem_cons_self, rfl, fun a ha => .inl ha⟩
      · obtain ⟨it, i1, i2, i3⟩ := mergeItems_origin xs ps hps it' h
        exact ⟨it, List.mem_cons_of_mem _ i1, i2, i3⟩

/-! ## one new state -/

/-- a successor item with a lookahead of its source is justified once the transition is recorded -/
theorem succ_just {autos : List (Nat × Nat)} {sts2 : Array State} {cur X tgt : Nat} {stc' : State}
    (hc : sts2[cur]? = some stc') (ht : HasTrans g stc' X tgt) {items : List Item}
    (hj : JList g fs autos sts2 cur items) {new : List Item} (hn : NewOk g items X new) {n : Item} (hnm : n ∈ new) :
    Reach g autos sts2 tgt n.prod n.dot ∧
      ∀ src ∈ items, core n = (src.prod, src.dot + 1) → ∀ a ∈ src.la, Just g fs autos sts2 tgt n.prod n.dot a := by
  obtain ⟨src, s1, s2, s3⟩ := hn.succ n hnm
  simp only [core, _root_.Prod.mk.injEq] at s3
  refine ⟨?_, ?_⟩
  · rw [s3.1, s3.2]
    exact .trans (hj src s1).1 hc s2 ht
  · intro src' h1 h2 a ha
    simp only [core, _root_.Prod.mk.injEq] at h2
    rw [h2.1, h2.2]
    have hX : g.rhsAt src'.prod src'.dot = some X := by
      have : src'.prod = src.prod ∧ src'.dot = src.dot := by omega
      rw [this.1, this.2]; exact s2
    exact .trans ((hj src' h1).2 a ha) hc hX ht

/-- the lookaheads of a successor item are those of its source items -/
theorem newStates_la_src {items : List Item} {e : Nat × List Item} (he : e ∈ newStates g items) :
    ∀ n ∈ e.2, ∃ src ∈ items, core n = (src.prod, src.dot + 1) ∧ n.la = src.la := by
  intro n hn
  obtain ⟨its, h1, _, h3⟩ := newStates_mem he
  rw [h1] at hn
  obtain ⟨src, hs, rfl⟩ := List.mem_map.mp hn
  rw [h3] at hs
  exact ⟨src, (List.mem_filter.mp hs).1, rfl, rfl⟩

theorem JInv.linkStep {autos : List (Nat × Nat)} {items : List Item} {cur : Nat} {e : Nat × List Item}
    {rest : List (Nat × List Item)} {sts sts2 : Array State} (hJ : JInv g fs autos sts)
    (hL : LinkC g cur items (e :: rest) sts) (hsnap : JList g fs autos sts cur items)
    (hn : NewOk g items e.1 e.2)
    (hsrc : ∀ n ∈ e.2, ∃ src ∈ items, core n = (src.prod, src.dot + 1) ∧ n.la = src.la)
    (hstep : LinkStep g tt rn cur e.1 e.2 sts sts2) :
    JInv g fs autos sts2 ∧ JList g fs autos sts2 cur items := by
  obtain ⟨stc0, pre, c1, c2, c3, d1, d2, d3⟩ := hL.ex
  -- the symbol `e.1` has no entry yet in the state being processed
  have hkeys : ∀ e' ∈ pre, e'.1 ≠ e.1 := by
    have := newStates_sorted g items
    rw [← c3] at this
    intro e' he'
    have := (List.pairwise_append.mp this).2.2 e' he' e List.mem_cons_self
    omega
  have hnoX : ∀ {stc : State}, stc.actions = stc0.actions → stc.gotos = stc0.gotos → ∀ j, ¬HasTrans g stc e.1 j := by
    intro stc ha hg' j ht
    rcases ht with ⟨hX, hm⟩ | ⟨hX, hm⟩
    · rw [ha, d2 e.1 hkeys] at hm; simp at hm
    · rw [hg', d3 (e.1 - g.nterms) (fun e' he' => by have := hkeys e' he'; omega)] at hm; simp at hm
  -- common part: intermediate array `sts1` with the same transitions, then the entry
  have finish : ∀ (sts1 : Array State) (stc stc' : State) (tgt : Nat), TransLe g sts sts1 →
      sts1[cur]? = some stc → stc.actions = stc0.actions → stc.gotos = stc0.gotos →
      addTrans g stc e.1 tgt = .ok stc' → sts2 = sts1.setIfInBounds cur stc' →
      (∀ (j : Nat) (stj : State), sts1[j]? = some stj → j ≠ tgt → ∃ old, sts[j]? = some old ∧ old.items = stj.items) →
      (∀ stt, sts1[tgt]? = some stt → ∀ it' ∈ stt.items,
        (∃ old it, sts[tgt]? = some old ∧ it ∈ old.items ∧ core it = core it' ∧
          ∀ a ∈ it'.la, a ∈ it.la ∨ ∃ n ∈ e.2, core n = core it' ∧ a ∈ n.la) ∨
        (it' ∈ e.2)) →
      JInv g fs autos sts2 ∧ JList g fs autos sts2 cur items := by
    intro sts1 stc stc' tgt hle hc1 hact hgot hadd hs2 hother htgt
    subst hs2
    have hle2 : TransLe g sts (sts1.setIfInBounds cur stc') :=
      hle.trans (TransLe.upd hc1 (fun Y j ht => by
        by_cases hY : Y = e.1
        · subst hY; exact absurd ht (hnoX hact hgot j)
        · exact addTrans_keeps hadd ht hY))
    have hid : ∀ e' ∈ autos, e' ∈ autos := fun _ h => h
    have hsnap2 : JList g fs autos (sts1.setIfInBounds cur stc') cur items := hsnap.mono hid hle2
    have hcur2 : (sts1.setIfInBounds cur stc')[cur]? = some stc' := by rw [get_upd hc1, if_pos rfl]
    have htr := addTrans_new hadd
    refine ⟨?_, hsnap2⟩
    intro j stj hj
    -- the state `j` of the new array over the intermediate array
    have hj1 : ∃ st1, sts1[j]? = some st1 ∧ st1.items = stj.items := by
      rw [get_upd hc1] at hj
      by_cases hcj : cur = j
      · rw [if_pos hcj] at hj; simp only [Option.some.injEq] at hj; subst hj
        exact ⟨stc, by rw [← hcj]; exact hc1, ((addTrans_ok hadd).1).symm⟩
      · rw [if_neg hcj] at hj; exact ⟨stj, hj, rfl⟩
    obtain ⟨st1, j1, j2⟩ := hj1
    rw [← j2]
    by_cases hjt : j = tgt
    · subst hjt
      intro it' hit'
      rcases htgt st1 j1 it' hit' with ⟨old, it, o1, o2, o3, o4⟩ | hnew
      · obtain ⟨r1, r2⟩ := (hJ j old o1).mono hid hle2 it o2
        simp only [core, _root_.Prod.mk.injEq] at o3
        rw [← o3.1, ← o3.2]
        refine ⟨r1, ?_⟩
        intro a ha
        rcases o4 a ha with h' | ⟨n, n1, n2, n3⟩
        · exact r2 a h'
        · obtain ⟨src, s1, s2, s3⟩ := hsrc n n1
          have := (succ_just hcur2 htr hsnap2 hn n1).2 src s1 s2 a (by rw [← s3]; exact n3)
          simp only [core, _root_.Prod.mk.injEq] at n2
          rw [o3.1, o3.2, ← n2.1, ← n2.2]
          exact this
      · obtain ⟨src, s1, s2, s3⟩ := hsrc it' hnew
        obtain ⟨r1, r2⟩ := succ_just hcur2 htr hsnap2 hn hnew
        exact ⟨r1, fun a ha => r2 src s1 s2 a (by rw [← s3]; exact ha)⟩
    · obtain ⟨old, o1, o2⟩ := hother j st1 j1 hjt
      rw [← o2]
      exact (hJ j old o1).mono hid hle2
  cases hstep with
  | merge i st items' stc stc' h1 h2 h3 h4 h5 =>
    obtain ⟨heq, pairs, p2, p3⟩ := mergeState_some h2
    obtain ⟨f1, f2⟩ := itemPairs_fst p2
    have hstc : stc.actions = stc0.actions ∧ stc.gotos = stc0.gotos := by
      rw [getElem?_setItems] at h3
      by_cases hic : i = cur
      · rw [if_pos hic, c1] at h3
        simp only [Option.map_some, Option.some.injEq] at h3
        subst h3; exact ⟨rfl, rfl⟩
      · rw [if_neg hic, c1] at h3
        simp only [Option.some.injEq] at h3
        subst h3; exact ⟨rfl, rfl⟩
    apply finish (setItems sts i items') stc stc' i (TransLe.setItems sts i items') h3 hstc.1 hstc.2 h4 h5
    · intro j stj hj hji
      rw [getElem?_setItems, if_neg (fun h => hji h.symm)] at hj
      exact ⟨stj, hj, rfl⟩
    · intro stt hstt it' hit'
      rw [getElem?_setItems, if_pos rfl, h1] at hstt
      simp only [Option.map_some, Option.some.injEq] at hstt
      subst hstt
      simp only at hit'
      subst p3
      obtain ⟨it, i1, i2, i3⟩ := mergeItems_origin st.items pairs f1 it' hit'
      left
      refine ⟨st, it, h1, i1, i2, ?_⟩
      intro a ha
      rcases i3 a ha with h' | ⟨p, q1, q2, q3⟩
      · exact .inl h'
      · obtain ⟨g1, g2⟩ := f2 p q1
        exact .inr ⟨p.2, g1, by rw [g2, q2, i2], q3⟩
  | push stc stc' h3 h4 h5 =>
    rw [c1] at h3
    simp only [Option.some.injEq] at h3
    subst h3
    have hc' : (sts.push (freshState g e.1 e.2))[cur]? = some stc0 := by
      rw [Array.getElem?_push, if_neg (by have := lt_size_of_getElem? c1; omega)]; exact c1
    apply finish _ stc0 stc' sts.size (TransLe.push sts _) hc' rfl rfl h4 h5
    · intro j stj hj hji
      rw [Array.getElem?_push, if_neg hji] at hj
      exact ⟨stj, hj, rfl⟩
    · intro stt hstt it' hit'
      rw [Array.getElem?_push, if_pos rfl] at hstt
      simp only [Option.some.injEq] at hstt
      subst hstt
      exact .inr hit'

end Rustemo.Table
