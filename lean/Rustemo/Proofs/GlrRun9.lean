import Rustemo.Proofs.GlrRun8
/-!
# One level of the run under `LexDet`: the run invariant
-/
namespace Rustemo.Glr
open Rustemo

theorem GU.of_heads {F : Nat} {g g' : Gss} (h : GU F g) (he : g'.edges = g.edges)
    (hh : ∀ (j : Nat) (x : Head), g'.heads[j]? = some x → ∃ y : Head, g.heads[j]? = some y ∧ y.frontier = x.frontier) :
    GU F g' := by
  constructor
  · intro e e' ed ed' h1 h2 hs hd
    rw [he] at h1 h2
    exact h.edgeUniq e e' ed ed' h1 h2 hs hd
  · intro e ed hs hd h1 h2 h3
    rw [he] at h1
    obtain ⟨y1, k1, f1⟩ := hh _ _ h2
    obtain ⟨y2, k2, f2⟩ := hh _ _ h3
    have := h.edgeMono e ed y1 y2 h1 k1 k2
    omega
  · intro j x hj
    obtain ⟨y, k, f⟩ := hh _ _ hj
    have := h.noAbove j y k
    omega

/-- the invariant of the main loop before level `F`, under `LexDet` -/
structure RunInv (env : Env) (tok : Nat → Tok) (P : Nat → Pos) (F : Nat) (st : St) (base : List Nat)
    (subs : Nat → SubFrontier) : Prop where
  sok : StOk env F st
  noshift : st.shifts = []
  bok : BaseOk st.gss F base
  gu : GU F st.gss
  nodup : base.Nodup
  bpos : ∀ h ∈ base, ∃ hd : Head, st.gss.heads[h]? = some hd ∧ hd.pos = P F ∧ hd.tok = none ∧ hd.frontier = F
  bfun : ∀ h ∈ base, ∀ h' ∈ base, ∀ (hd hd' : Head), st.gss.heads[h]? = some hd → st.gss.heads[h']? = some hd' →
    hd.state = hd'.state → h = h'
  blevel : ∀ (h : Nat) (hd : Head), st.gss.heads[h]? = some hd → hd.frontier = F → h ∈ base
  bdown : ∀ (e : Nat) (ed : Edge) (hs hd : Head), st.gss.edges[e]? = some ed → st.gss.heads[ed.src]? = some hs →
    st.gss.heads[ed.dst]? = some hd → hs.frontier = F → hd.frontier < F
  done : ∀ k, k < F → LevelDone env st.gss tok k (subs k)
  acc : ∀ k, k < F → ∀ (s u : Nat), (s, u) ∈ subs k → Action.accept ∈ env.t.cell s (tok k).kind → u ∈ st.accepted
  start : (F = 0 ∧ base = [0] ∧ ∃ hd : Head, st.gss.heads[0]? = some hd ∧ hd.state = 0) ∨
    (0 < F ∧ (env.t.cell 0 (tok 0).kind ≠ [] → (0, 0) ∈ subs 0))
  /-- every lookahead token of a finished level is the token of that level -/
  toks : ∀ (h : Nat) (hd : Head), st.gss.heads[h]? = some hd → hd.frontier < F → ∀ t, hd.tok = some t → t = tok hd.frontier
  /-- a head whose state is entered on a terminal was shifted: on the token of the level below -/
  hsym : ∀ (h : Nat) (hd : Head) (k : Nat), st.gss.heads[h]? = some hd → hd.frontier = k + 1 →
    env.t.symAt hd.state < env.g.nterms → env.t.symAt hd.state = (tok k).kind
  /-- one head per level and state -/
  hfun : ∀ (h h' : Nat) (hd hd' : Head), st.gss.heads[h]? = some hd → st.gss.heads[h']? = some hd' →
    hd.frontier = hd'.frontier → hd.state = hd'.state → h = h'
  /-- a base head is the start head or sits in a state entered on a terminal -/
  bterm : ∀ h ∈ base, ∀ hd : Head, st.gss.heads[h]? = some hd → hd.state = 0 ∨ env.t.symAt hd.state < env.g.nterms

theorem frontierStep_run {env : Env} (hT : TableOk env) (hC : CompleteRN env.g env.t) (hW : GWF env.g)
    (hNS : ∀ s s', Action.shift s' ∉ env.t.cell s 0) {pp : Bool} {fuel n : Nat} {tok : Nat → Tok} {P L : Nat → Pos}
    (hL : LexDet env pp fuel n tok P L) {F : Nat} (hF : F ≤ n) {st st' : St} {base base' : List Nat}
    {subs : Nat → SubFrontier} (RI : RunInv env tok P F st base subs)
    (hok : frontierStep env pp fuel F st base = .ok (st', base')) :
    (F = n → base' = []) ∧ ∃ sub, RunInv env tok P (F + 1) st' base' (fun k => if k = F then sub else subs k) := by
  unfold frontierStep at hok
  obtain ⟨⟨g1, fr⟩, hcf, hok⟩ := obind_eq_ok hok
  obtain ⟨⟨qs, st2⟩, hip, hok⟩ := obind_eq_ok hok
  obtain ⟨st3, hra, hsh⟩ := obind_eq_ok hok
  simp only at hip hra hsh
  have hst1 : ({ st with gss := g1 } : St) = ⟨g1, [], st.accepted⟩ := by
    have := RI.noshift
    cases st
    simp only at this
    subst this
    rfl
  rw [hst1] at hip
  -- the base heads
  let S : Nat → Nat := fun i => match st.gss.heads[i]? with
    | some hd => hd.state
    | none => 0
  have hS : ∀ (i : Nat) (hd : Head), st.gss.heads[i]? = some hd → S i = hd.state := by
    intro i hd hi; simp only [S, hi]
  have hb : ∀ i ∈ base, ∃ hd0 : Head, st.gss.heads[i]? = some hd0 ∧ hd0.state = S i ∧ hd0.tok = none ∧ hd0.pos = P F ∧
      hd0.frontier = F ∧ hd0.state < env.t.states.size := by
    intro i hi
    obtain ⟨hd, k1, k2, k3, k4⟩ := RI.bpos i hi
    exact ⟨hd, k1, (hS i hd k1).symm, k3, k2, k4, (RI.sok.g.heads i hd k1).range⟩
  have hinj : ∀ i ∈ base, ∀ j ∈ base, S i = S j → i = j := by
    intro i hi j hj heq
    obtain ⟨x, k1, k2, _⟩ := hb i hi
    obtain ⟨y, m1, m2, _⟩ := hb j hj
    exact RI.bfun i hi j hj x y k1 m1 (by rw [k2, m2, heq])
  unfold createFrontier at hcf
  obtain ⟨sub0, hshape, sp⟩ := createFrontier_lexdet hL hF S base st.gss g1 [] fr [] RI.nodup hinj hb
    (Or.inl ⟨rfl, rfl⟩) hcf
  have hsat1 := createFrontier_sat (A := True) (fun h => absurd True.intro h) pp fuel RI.sok.g RI.bok
  unfold createFrontier at hsat1
  rw [hcf] at hsat1
  obtain ⟨hg1, hx1, _⟩ := hsat1
  simp only at hg1 hx1
  -- heads of `g1` against heads of the old graph
  have heads1 : ∀ (j : Nat) (x : Head), g1.heads[j]? = some x →
      ∃ y : Head, st.gss.heads[j]? = some y ∧ y.frontier = x.frontier ∧ y.state = x.state := by
    intro j x hj
    by_cases hjb : j ∈ base
    · obtain ⟨hd', k1, k2, k3, _⟩ := sp.upd j hjb
      rw [hj] at k1; injection k1 with k1; subst k1
      obtain ⟨y, m1, m2, _, _, m5, _⟩ := hb j hjb
      exact ⟨y, m1, by rw [m5, k3], by rw [m2, k2]⟩
    · rw [sp.other j hjb] at hj
      exact ⟨x, hj, rfl, rfl⟩
  have gu1 : GU F g1 := RI.gu.of_heads sp.edges (fun j x hj => by
    obtain ⟨y, k1, k2, _⟩ := heads1 j x hj; exact ⟨y, k1, k2⟩)
  have hbaseF : ∀ i ∈ base, ∀ x : Head, st.gss.heads[i]? = some x → x.frontier = F := by
    intro i hi x hx
    obtain ⟨y, k1, _, _, k4⟩ := RI.bpos i hi
    rw [hx] at k1; injection k1 with k1; subst k1; exact k4
  have frame0 : FrameLt F st.gss g1 := by
    refine ⟨?_, ?_, fun e ed _ he _ _ => by rw [sp.edges]; exact he, fun e ed _ he _ _ => by rw [sp.edges] at he; exact he,
      fun _ _ _ _ _ _ _ _ => by rw [sp.nodes], ?_, fun e ed he => ⟨ed, by rw [sp.edges]; exact he, rfl, rfl, fun _ h => h⟩,
      fun n tk sp' hn => by rw [sp.nodes]; exact hn⟩
    · intro i hd hi hl
      have hib : i ∉ base := fun hib => by have := hbaseF i hib hd hi; omega
      rw [sp.other i hib]; exact hi
    · intro i hd hi hl
      have hib : i ∉ base := fun hib => by
        obtain ⟨hd', k1, _, k3, _⟩ := sp.upd i hib
        rw [hi] at k1; injection k1 with k1; subst k1; omega
      rw [sp.other i hib] at hi; exact hi
    · intro i hd hi
      by_cases hib : i ∈ base
      · obtain ⟨hd', k1, k2, k3, _⟩ := sp.upd i hib
        exact ⟨hd', k1, by rw [k2, hS i hd hi], by rw [k3, hbaseF i hib hd hi]⟩
      · exact ⟨hd, by rw [sp.other i hib]; exact hi, rfl, rfl⟩
  have hsub0 : SubOk g1 F sub0 := by
    intro s h hm
    rcases sp.sub_inv (s, h) hm with k | ⟨k1, k2, k3⟩
    · simp at k
    · obtain ⟨hd', m1, m2, m3, _, m5, _⟩ := sp.upd h k1
      exact ⟨hd', m1, by rw [m2]; exact k3.symm, m3, by rw [m5 k2]; rfl⟩
  have hfun : ∀ (s h h' : Nat), (s, h) ∈ sub0 → (s, h') ∈ sub0 → h = h' := by
    intro s h h' hm hm'
    rcases sp.sub_inv (s, h) hm with k | ⟨k1, _, k3⟩
    · simp at k
    · rcases sp.sub_inv (s, h') hm' with k' | ⟨k1', _, k3'⟩
      · simp at k'
      · exact hinj h k1 h' k1' (by rw [← k3, ← k3'])
  have hkind : ∀ (s h : Nat), (s, h) ∈ sub0 → ∃ hd : Head, g1.heads[h]? = some hd ∧ hd.tok = some (tok F) := by
    intro s h hm
    rcases sp.sub_inv (s, h) hm with k | ⟨k1, k2, _⟩
    · simp at k
    · obtain ⟨hd', m1, _, _, _, m5, _⟩ := sp.upd h k1
      exact ⟨hd', m1, m5 k2⟩
  have hlevel : ∀ (h : Nat) (hd : Head), g1.heads[h]? = some hd → hd.frontier = F → h ∈ base := by
    intro h hd hh hl
    obtain ⟨y, k1, k2, _⟩ := heads1 h hd hh
    exact RI.blevel h y k1 (by rw [k2, hl])
  have hdown : ∀ (e : Nat) (ed : Edge) (hs hd : Head), g1.edges[e]? = some ed → g1.heads[ed.src]? = some hs →
      g1.heads[ed.dst]? = some hd → hs.frontier = F → hd.frontier < F := by
    intro e ed hs hd he h1 h2 hl
    rw [sp.edges] at he
    obtain ⟨y1, k1, f1, _⟩ := heads1 _ _ h1
    obtain ⟨y2, k2, f2, _⟩ := heads1 _ _ h2
    have := RI.bdown e ed y1 y2 he k1 k2 (by rw [f1, hl])
    omega
  have htp : ∀ (h : Nat) (hd : Head), g1.heads[h]? = some hd → hd.frontier = F →
      hd.pos = L F ∧ ∀ t, hd.tok = some t → t = tok F := by
    intro h hd hh hl
    obtain ⟨hd', m1, _, _, m4, m5, m6⟩ := sp.upd h (hlevel h hd hh hl)
    rw [hh] at m1; injection m1 with m1; subst m1
    refine ⟨m4, ?_⟩
    intro t ht
    by_cases hc : env.t.cell (S h) (tok F).kind = []
    · rw [m6 hc] at ht; simp at ht
    · rw [m5 hc] at ht; injection ht with ht; exact ht.symm
  have halive : ∀ i ∈ base, ∀ hd : Head, g1.heads[i]? = some hd → env.t.cell hd.state (tok F).kind ≠ [] →
      (hd.state, i) ∈ sub0 := by
    intro i hi hd hh hne
    obtain ⟨hd', m1, m2, _⟩ := sp.upd i hi
    rw [hh] at m1; injection m1 with m1; subst m1
    rw [m2]
    exact sp.sub_new i hi (by rw [← m2]; exact hne)
  have hbase1 : ∀ i ∈ base, ∃ hd : Head, g1.heads[i]? = some hd := by
    intro i hi
    obtain ⟨hd', m1, _⟩ := sp.upd i hi
    exact ⟨hd', m1⟩
  have hbst1 : ∀ i ∈ base, ∀ hd : Head, g1.heads[i]? = some hd →
      ∃ hd0 : Head, st.gss.heads[i]? = some hd0 ∧ hd0.state = hd.state := by
    intro i hi hd hh
    obtain ⟨y, k1, _, k3⟩ := heads1 i hd hh
    exact ⟨y, k1, k3⟩
  have hbfun1 : ∀ i ∈ base, ∀ j ∈ base, ∀ (hd hd' : Head), g1.heads[i]? = some hd → g1.heads[j]? = some hd' →
      hd.state = hd'.state → i = j := by
    intro i hi j hj hd hd' hh hh' hs
    obtain ⟨x, hx, hxs⟩ := hbst1 i hi hd hh
    obtain ⟨y, hy, hys⟩ := hbst1 j hj hd' hh'
    exact RI.bfun i hi j hj x y hx hy (by rw [hxs, hys, hs])
  have hbterm1 : ∀ i ∈ base, ∀ hd : Head, g1.heads[i]? = some hd → hd.state = 0 ∨ env.t.symAt hd.state < env.g.nterms := by
    intro i hi hd hh
    obtain ⟨x, hx, hxs⟩ := hbst1 i hi hd hh
    rw [← hxs]
    exact RI.bterm i hi x hx
  have hs1 : StOk env F ⟨g1, [], st.accepted⟩ :=
    ⟨hg1, fun _ h => by simp at h, fun a h => (RI.sok.acc a h).ext hx1.ext⟩
  -- the reducer phase
  obtain ⟨sub, mid, hsubsub⟩ := reducer_phase hT hC hW hs1 gu1 hshape hsub0 hfun hkind hlevel hdown htp halive hbase1 hbfun1 hbterm1 hip hra
  -- the shifter
  have hfacts : ∀ x ∈ st3.shifts, ShiftFact env F (tok F) (L F) (P (F + 1)) st3.gss x := by
    intro x hx
    obtain ⟨hd, tk', k1, k2, k3, k4⟩ := mid.st.shifts x hx
    obtain ⟨p1, p2⟩ := mid.tp _ hd k1 k3
    have htk : tk' = tok F := p2 tk' k2
    subst htk
    refine ⟨hd, k1, k2, k3, p1, k4, ?_⟩
    rcases Nat.lt_or_ge F n with hlt | hge
    · exact (hL.step F hlt).symm
    · have hFn : F = n := by omega
      exfalso
      rw [hFn, hL.stop] at k4
      exact hNS _ _ k4
  obtain ⟨m, done, hbase', hshifts', hacc', hdone, si⟩ := shifter_run hT mid.st mid.gu hfacts hsh
  have hsat3 := shifter_sat (A := True) hT mid.st
  rw [hsh] at hsat3
  obtain ⟨hst', _, hbok', _⟩ := hsat3
  simp only at hst' hbok'
  have hmemb : ∀ h ∈ base', ∃ k, (k, h) ∈ m := by
    intro h hh
    rw [hbase'] at hh
    obtain ⟨⟨k, v⟩, hkv, heq⟩ := List.mem_map.mp hh
    simp only at heq
    subst heq
    exact ⟨k, hkv⟩
  have hframeAll : FrameLt F st.gss st'.gss := (frame0.trans mid.frame).trans (si.frame.mono (Nat.le_succ F))
  refine ⟨?_, sub, hst', hshifts', hbok', si.gu, ?_, ?_, ?_, ?_, ?_, ?_, ?_, ?_, ?_, ?_, ?_, ?_⟩
  · -- STOP is not shifted: nothing after the last level
    intro hFn
    have hnil : st3.shifts = [] := by
      cases hsl : st3.shifts with
      | nil => rfl
      | cons x rest =>
        exfalso
        obtain ⟨hd, _, _, _, _, k4, _⟩ := hfacts x (by rw [hsl]; simp)
        rw [hFn, hL.stop] at k4
        exact hNS _ _ k4
    unfold shifter at hsh
    rw [hnil] at hsh
    simp only [foldO, obind] at hsh
    injection hsh with hsh
    injection hsh with _ e2
    rw [← e2]; rfl
  · -- nodup
    rw [hbase']
    unfold List.Nodup
    rw [List.pairwise_map]
    apply List.Pairwise.imp_of_mem _ si.keys
    intro x y hx hy hne heq
    apply hne
    obtain ⟨k1, _, hv, k2, k3, _⟩ := si.map x.1 x.2 hx
    obtain ⟨m1, _, hv', m2, m3, _⟩ := si.map y.1 y.2 hy
    rw [heq] at k2
    rw [k2] at m2; injection m2 with m2; subst m2
    exact Prod.ext (by rw [← k3, ← m3]) (by rw [k1, m1])
  · intro h hh
    obtain ⟨k, hk⟩ := hmemb h hh
    obtain ⟨_, _, hv, k2, _, k4, k5, k6⟩ := si.map k h hk
    exact ⟨hv, k2, k5, k6, k4⟩
  · intro h hh h' hh' hd hd' k1 k1' hs
    obtain ⟨k, hk⟩ := hmemb h hh
    obtain ⟨k', hk'⟩ := hmemb h' hh'
    obtain ⟨p1, _, hv, m2, m3, _⟩ := si.map k h hk
    obtain ⟨p1', _, hv', m2', m3', _⟩ := si.map k' h' hk'
    rw [k1] at m2; injection m2 with m2; subst m2
    rw [k1'] at m2'; injection m2' with m2'; subst m2'
    have hkk : k = k' := Prod.ext (by rw [← m3, ← m3', hs]) (by rw [p1, p1'])
    have := pairwise_key_unique si.keys (k, h) hk (k', h') hk' hkk
    injection this
  · intro h hd hh hl
    obtain ⟨k, hk⟩ := si.level h hd hh hl
    rw [hbase']
    exact List.mem_map.mpr ⟨(k, h), hk, rfl⟩
  · intro e ed hs hd he h1 h2 hl
    obtain ⟨y, k1, k2⟩ := si.down e ed hs he h1 hl
    rw [h2] at k1; injection k1 with k1; subst k1; omega
  · -- done
    intro k hk
    by_cases hkF : k = F
    · subst hkF
      simp only [↓reduceIte]
      have hr := mid.red.frame si.frame (Nat.lt_succ_self k) hst'.g si.gu
      refine ⟨hr.subOk, hr.closed, ?_, hr.alive⟩
      intro s u s' hs hact
      exact si.shifted _ (hdone _ (mid.sc s u s' hs hact))
    · simp only [hkF, ↓reduceIte]
      exact (RI.done k (by omega)).frame hframeAll (by omega) hst'.g si.gu
  · -- accepted
    intro k hk s u hs hact
    rw [hacc']
    by_cases hkF : k = F
    · subst hkF
      simp only [↓reduceIte] at hs
      exact mid.ac s u hs hact
    · simp only [hkF, ↓reduceIte] at hs
      exact mid.am _ (RI.acc k (by omega) s u hs hact)
  · right
    refine ⟨Nat.succ_pos F, ?_⟩
    intro halive0
    rcases RI.start with ⟨hF0, hb0, hd0, hh0, hs0⟩ | ⟨hpos, hm⟩
    · subst hF0
      simp only [↓reduceIte]
      apply hsubsub
      have h0b : 0 ∈ base := by rw [hb0]; simp
      have hS0 : S 0 = 0 := by rw [hS 0 hd0 hh0, hs0]
      have := sp.sub_new 0 h0b (by rw [hS0]; exact halive0)
      rw [hS0] at this
      exact this
    · have : ¬ 0 = F := by omega
      simp only [this, ↓reduceIte]
      exact hm halive0
  · -- tokens of finished levels
    intro h hd hh hl t ht
    rcases Nat.lt_or_ge hd.frontier F with hlt | hge
    · exact RI.toks h hd (hframeAll.heads_bwd h hd hh hlt) hlt t ht
    · have hF' : hd.frontier = F := by omega
      have h3 := si.frame.heads_bwd h hd hh (by omega)
      rw [hF']
      exact (mid.tp h hd h3 hF').2 t ht
  · -- heads entered on a terminal
    intro h hd k hh hk hsy
    rcases Nat.lt_or_ge hd.frontier F with hlt | hge
    · exact RI.hsym h hd k (hframeAll.heads_bwd h hd hh hlt) hk hsy
    · rcases Nat.lt_or_ge F hd.frontier with hgt | hle
      · -- a head the shifter created
        have hF1 : hd.frontier = F + 1 := by
          have := si.gu.noAbove h hd hh; omega
        obtain ⟨k', hk'⟩ := si.level h hd hh hF1
        obtain ⟨_, q2, hv, q3, q4, _⟩ := si.map k' h hk'
        rw [hh] at q3; injection q3 with q3; subst q3
        have : k = F := by omega
        subst this
        rw [q4]; exact q2
      · have hF' : hd.frontier = F := by omega
        have h3 := si.frame.heads_bwd h hd hh (by omega)
        rcases mid.nsym h hd h3 hF' with hb' | hnt
        · -- a base head: its state is the one it had before this level
          obtain ⟨hd0, q1, q2, _⟩ := hb h hb'
          obtain ⟨hd1, r1, r2, _⟩ := frame0.mono_heads h hd0 q1
          obtain ⟨hd3, r3, r4, _⟩ := mid.frame.mono_heads h hd1 r1
          rw [h3] at r3; injection r3 with r3; subst r3
          have hst : hd.state = hd0.state := by rw [r4, r2]
          rw [hst] at hsy ⊢
          exact RI.hsym h hd0 k q1 (by rw [← hk, hF']; exact (hbaseF h hb' hd0 q1)) hsy
        · omega
  · -- one head per level and state
    intro h h' hd hd' hh hh' hl hs
    rcases Nat.lt_or_ge hd.frontier F with hlt | hge
    · exact RI.hfun h h' hd hd' (hframeAll.heads_bwd h hd hh hlt) (hframeAll.heads_bwd h' hd' hh' (by omega)) hl hs
    · rcases Nat.lt_or_ge F hd.frontier with hgt | hle
      · have hF1 : hd.frontier = F + 1 := by
          have := si.gu.noAbove h hd hh; omega
        obtain ⟨k, hk⟩ := si.level h hd hh hF1
        obtain ⟨k', hk'⟩ := si.level h' hd' hh' (by omega)
        obtain ⟨p1, _, hv, m2, m3, _⟩ := si.map k h hk
        obtain ⟨p1', _, hv', m2', m3', _⟩ := si.map k' h' hk'
        rw [hh] at m2; injection m2 with m2; subst m2
        rw [hh'] at m2'; injection m2' with m2'; subst m2'
        have hkk : k = k' := Prod.ext (by rw [← m3, ← m3', hs]) (by rw [p1, p1'])
        have := pairwise_key_unique si.keys (k, h) hk (k', h') hk' hkk
        injection this
      · have hF' : hd.frontier = F := by omega
        exact mid.hfunF h h' hd hd' (si.frame.heads_bwd h hd hh (by omega)) (si.frame.heads_bwd h' hd' hh' (by omega))
          hF' (by omega) hs
  · -- the next base: states entered on the token just shifted
    intro h hh hd hhd
    right
    obtain ⟨k, hk⟩ := hmemb h hh
    obtain ⟨_, q2, hv, q3, q4, _⟩ := si.map k h hk
    rw [hhd] at q3; injection q3 with q3; subst q3
    rw [q4, q2]
    rcases Nat.lt_or_ge F n with hlt | hge
    · exact (hL.terms F hlt).2
    · exfalso
      have hFn : F = n := by omega
      have hnil : st3.shifts = [] := by
        cases hsl : st3.shifts with
        | nil => rfl
        | cons x rest =>
          exfalso
          obtain ⟨_, _, _, _, _, k4, _⟩ := hfacts x (by rw [hsl]; simp)
          rw [hFn, hL.stop] at k4
          exact hNS _ _ k4
      have hb0 : base' = [] := by
        have hsh' := hsh
        unfold shifter at hsh'
        rw [hnil] at hsh'
        simp only [foldO, obind] at hsh'
        injection hsh' with hsh'
        injection hsh' with _ e2
        rw [← e2]; rfl
      rw [hb0] at hh
      simp at hh

end Rustemo.Glr
