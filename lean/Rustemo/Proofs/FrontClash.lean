import Rustemo.Proofs.FrontGen
/-!
# A successful rule phase has passed `clashCheck` for every use it met

With `helperClashErr` (C09-fix-9) this means: no helper name of a use that reaches the builder is the name
of a rule or of a terminal — the classes `helperCapture` / `selfHelper` are diagnostics, not hypotheses.
-/
namespace Rustemo.Front

theorem ensureUses_clash {cx : Ctx} : ∀ {us : List Use} {s s' : Acc}, ensureUses cx us s = .ok s' →
    ∀ u, u ∈ us → clashCheck cx (u.helper cx.fx) = .ok ()
  | [], _, _, _, u, hu => by simp at hu
  | v :: vs, s, s', h, u, hu => by
    unfold ensureUses at h
    obtain ⟨s1, h1, h2⟩ := Outcome.bind_eq_ok.mp h
    rcases List.mem_cons.mp hu with rfl | hu
    · unfold ensureUse at h1
      obtain ⟨x, hx, _⟩ := Outcome.bind_eq_ok.mp h1
      exact hx
    · exact ensureUses_clash h2 u hu

theorem desugar_clash {cx : Ctx} {r : SymRef} {s : Acc} {res : Option GSym × Acc}
    (h : desugar cx r s = .ok res) : ∀ u, u ∈ r.uses cx.matchesMap → clashCheck cx (u.helper cx.fx) = .ok () := by
  intro u hu
  cases hr : r.rep with
  | none =>
    unfold SymRef.uses at hu
    rw [hr] at hu
    simp at hu
  | some o =>
    obtain ⟨x, hb, hd, _⟩ := desugar_some hr h
    have huse : r.uses cx.matchesMap = opUses x r.sep o.op := by
      unfold SymRef.uses
      rw [hr, hb]
    rw [huse] at hu
    unfold desugarOp at hd
    cases hop : o.op with
    | zeroOrMore | oneOrMore | optional =>
      rw [hop] at hd hu
      obtain ⟨s1, h1, h2⟩ := Outcome.bind_eq_ok.mp hd
      exact ensureUses_clash h1 u hu
    | zeroOrMoreGreedy | oneOrMoreGreedy | optionalGreedy =>
      rw [hop] at hu
      simp [opUses] at hu

theorem rhsSteps_clash {cx : Ctx} : ∀ {as : List Assign} {s : Acc} {res : List RAssign × Acc},
    rhsSteps cx as s = .ok res → ∀ a, a ∈ as → ∀ u, u ∈ a.symRef.uses cx.matchesMap →
      clashCheck cx (u.helper cx.fx) = .ok ()
  | [], _, _, _, a, ha => by simp at ha
  | b :: bs, s, res, h, a, ha => by
    unfold rhsSteps at h
    obtain ⟨r1, h1, h⟩ := Outcome.bind_eq_ok.mp h
    obtain ⟨r2, h2, h⟩ := Outcome.bind_eq_ok.mp h
    intro u hu
    rcases List.mem_cons.mp ha with rfl | ha
    · obtain ⟨d, hd, _⟩ := assignStep_state h1
      exact desugar_clash hd u hu
    · exact rhsSteps_clash h2 a ha u hu

theorem altStep_clash {cx : Ctx} {rule : Rule} {ntIdx j : Nat} {alt : Alt} {st st' : XSt}
    (h : altStep cx rule ntIdx j alt st = .ok st') :
    ∀ u, u ∈ altUses cx.matchesMap alt → clashCheck cx (u.helper cx.fx) = .ok () := by
  intro u hu
  unfold altUses at hu
  obtain ⟨a, ha, hua⟩ := List.mem_flatMap.mp hu
  unfold altStep at h
  simp only at h
  obtain ⟨res, h1, _⟩ := Outcome.bind_eq_ok.mp h
  exact rhsSteps_clash h1 a ha u hua

theorem altSteps_clash {cx : Ctx} {rule : Rule} {ntIdx : Nat} :
    ∀ {alts : List Alt} {j : Nat} {st st' : XSt}, altSteps cx rule ntIdx j alts st = .ok st' →
      ∀ a, a ∈ alts → ∀ u, u ∈ altUses cx.matchesMap a → clashCheck cx (u.helper cx.fx) = .ok ()
  | [], _, _, _, _, a, ha => by simp at ha
  | b :: bs, j, st, st', h, a, ha => by
    unfold altSteps at h
    obtain ⟨st1, h1, h2⟩ := Outcome.bind_eq_ok.mp h
    rcases List.mem_cons.mp ha with rfl | ha
    · exact altStep_clash h1
    · exact altSteps_clash h2 a ha

theorem ruleSteps_clash {cx : Ctx} :
    ∀ {rules : List Rule} {st st' : XSt}, ruleSteps cx rules st = .ok st' →
      ∀ u, u ∈ rulesUses cx.matchesMap rules → clashCheck cx (u.helper cx.fx) = .ok ()
  | [], _, _, _, u, hu => by simp [rulesUses] at hu
  | r :: rs, st, st', h, u, hu => by
    unfold ruleSteps at h
    obtain ⟨st1, h1, h2⟩ := Outcome.bind_eq_ok.mp h
    unfold rulesUses at hu
    simp only [List.flatMap_cons, List.mem_append] at hu
    rcases hu with hu | hu
    · unfold ruleUses at hu
      obtain ⟨a, ha, hua⟩ := List.mem_flatMap.mp hu
      rcases ruleStep_ok h1 with ⟨nt, _, h1⟩ | ⟨_, h1⟩
      · exact altSteps_clash h1 a ha u hua
      · exact altSteps_clash h1 a ha u hua
    · exact ruleSteps_clash h2 u hu

theorem clashCheck_free {cx : Ctx} {n : Name} (hf : cx.fx.helperClashErr = true) (h : clashCheck cx n = .ok ()) :
    n ∉ cx.ruleNames ∧ n ∉ cx.termNames := by
  unfold clashCheck at h
  rw [hf] at h
  simp only [Bool.true_and] at h
  split at h
  · cases h
  · rename_i hn
    simp only [Bool.or_eq_true, not_or, Bool.not_eq_true] at hn
    constructor
    · intro hm
      have : cx.ruleNames.contains n = true := by simpa using hm
      rw [this] at hn
      exact absurd hn.1 (by simp)
    · intro hm
      have : cx.termNames.contains n = true := by simpa using hm
      rw [this] at hn
      exact absurd hn.2 (by simp)

/-- with `helperClashErr`, after a successful rule phase no helper name is a rule or terminal name -/
theorem extract_clashFree {cx : Ctx} {r0 : Rule} {rules : List Rule} {st : XSt}
    (hf : cx.fx.helperClashErr = true) (h : extract cx r0 rules = .ok st) :
    ∀ u, u ∈ rulesUses cx.matchesMap rules → u.helper cx.fx ∉ cx.ruleNames ∧ u.helper cx.fx ∉ cx.termNames := by
  unfold extract at h
  simp only at h
  intro u hu
  exact clashCheck_free hf (ruleSteps_clash h u hu)

/-- every processed rule passed `ruleCheck` -/
theorem ruleSteps_checked {cx : Ctx} : ∀ {rules : List Rule} {st st' : XSt}, ruleSteps cx rules st = .ok st' →
    ∀ r, r ∈ rules → ruleCheck cx r = .ok ()
  | [], _, _, _, r, hr => by simp at hr
  | x :: xs, st, st', h, r, hr => by
    unfold ruleSteps at h
    obtain ⟨st1, h1, h2⟩ := Outcome.bind_eq_ok.mp h
    rcases List.mem_cons.mp hr with rfl | hr
    · exact ruleStep_checked h1
    · exact ruleSteps_checked h2 r hr

theorem ruleCheck_notTerm {cx : Ctx} {r : Rule} (h : ruleCheck cx r = .ok ()) :
    (cx.fx.dupNameErr && cx.termNames.contains r.name) = false := by
  unfold ruleCheck at h
  split at h
  · cases h
  · split at h
    · cases h
    · split at h
      · cases h
      · rename_i hn
        simpa using hn

theorem ruleCheck_notReserved {cx : Ctx} {r : Rule} (h : ruleCheck cx r = .ok ()) :
    (cx.fx.reservedErr && [kEMPTY, kAUG, kAUGL].contains r.name) = false := by
  unfold ruleCheck at h
  split at h
  · cases h
  · split at h
    · cases h
    · rename_i hn
      simpa using hn

end Rustemo.Front
