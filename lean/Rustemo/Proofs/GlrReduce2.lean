import Rustemo.Proofs.GlrReduce1
/-!
# One reduction path preserves the invariant and reaches no panic site (`reducePath`)
-/
namespace Rustemo.Glr
open Rustemo

variable {A : Prop}

structure RInv (env : Env) (F : Nat) (rs : RState) : Prop where
  g : GInv env rs.gss
  sub : SubOk rs.gss F rs.sub
  lists : ListsOk env rs.gss F rs.queue rs.shifts rs.accepted

/-- replacing the children of a nonterminal node that sits on edge `e` -/
theorem GInv.setNode {env : Env} {g : Gss} (hg : GInv env g) {e n : Nat} {ed : Edge} {hs : Head}
    (he : g.edges[e]? = some ed) (hhs : g.heads[ed.src]? = some hs) (hn : n ∈ ed.poss)
    {p : Nat} {sp : Span} {l : Option Slice} {ch parents : List Nat}
    (hnd : g.nodes[n]? = some (.nonterm p sp l ch))
    (hfit : NodeFits env g (.nonterm p sp l parents) (env.t.symAt hs.state) ed.dst hs.frontier) :
    GInv env { g with nodes := g.nodes.setIfInBounds n (.nonterm p sp l parents) } ∧
    Ext g { g with nodes := g.nodes.setIfInBounds n (.nonterm p sp l parents) } := by
  have hx : Ext g { g with nodes := g.nodes.setIfInBounds n (.nonterm p sp l parents) } :=
    ⟨fun _ hd h => ⟨hd, h, rfl, rfl, fun _ h => h⟩, fun _ ed h => ⟨ed, h, rfl, rfl⟩⟩
  have hlt := lt_of_getElem?_some hnd
  have hnotterm : ¬ isTermNode g n := by
    rintro ⟨tk, sp', h⟩; rw [hnd] at h; simp at h
  have hnodes : ∀ m, ({ g with nodes := g.nodes.setIfInBounds n (.nonterm p sp l parents) } : Gss).nodes[m]? =
      if n = m then some (.nonterm p sp l parents) else g.nodes[m]? := by
    intro m
    simp only [Array.getElem?_setIfInBounds, hlt, ↓reduceIte]
  refine ⟨⟨hg.heads, ?_, ?_⟩, hx⟩
  · intro e' ed' he'
    have hok := hg.edges e' ed' he'
    obtain ⟨hs', hd', hhs', hhd', htr, hposs⟩ := hok.ends
    refine ⟨⟨hs', hd', hhs', hhd', htr, ?_⟩, hok.poss_ne⟩
    intro m hm
    by_cases hmn : n = m
    · subst hmn
      have hee : e' = e := hg.uniq e' e ed' ed n he' he hm hn hnotterm
      subst hee
      rw [he] at he'; injection he' with he'; subst he'
      rw [hhs] at hhs'; injection hhs' with hhs'; subst hhs'
      exact ⟨_, by rw [hnodes]; simp, NodeFits.ext hx hfit⟩
    · obtain ⟨nd', hnd', hfit'⟩ := hposs m hm
      exact ⟨nd', by rw [hnodes]; simp [hmn, hnd'], NodeFits.ext hx hfit'⟩
  · intro e1 e2 ed1 ed2 m he1 he2 hm1 hm2 hnt
    apply hg.uniq e1 e2 ed1 ed2 m he1 he2 hm1 hm2
    rintro ⟨tk, sp', h⟩
    apply hnt
    by_cases hmn : n = m
    · subst hmn; rw [hnd] at h; simp at h
    · exact ⟨tk, sp', by rw [hnodes]; simp [hmn, h]⟩

theorem replaceChildren_inv {env : Env} {g : Gss} (hg : GInv env g) {e : Nat} {ed : Edge} {hs : Head}
    (he : g.edges[e]? = some ed) (hhs : g.heads[ed.src]? = some hs)
    {prod : Nat} {pr : Prod} {parents : List Nat} (hpr : env.g.prods[prod]? = some pr)
    (hl : pr.lhs = env.t.symAt hs.state) (hlen : parents.length ≤ pr.rhs.length)
    (hnul : ∀ Y ∈ pr.rhs.drop parents.length, Nullable env.g Y)
    (hch : ChildrenOk env.t g parents (pr.rhs.take parents.length) ed.dst hs.frontier) :
    ∀ (ns : List Nat), (∀ n ∈ ns, n ∈ ed.poss) →
      GInv env (replaceChildren g prod parents ns) ∧ Ext g (replaceChildren g prod parents ns)
  | [], _ => ⟨hg, Ext.refl g⟩
  | n :: rest, hns => by
    have hrest := replaceChildren_inv hg he hhs hpr hl hlen hnul hch rest (fun m hm => hns m (by simp [hm]))
    simp only [replaceChildren]
    split
    · rename_i nd hnd
      split
      · rename_i hext
        cases nd with
        | term tk sp => simp [extends?] at hext
        | nonterm p sp l ch =>
          simp only [extends?, Bool.and_eq_true, beq_iff_eq] at hext
          obtain ⟨⟨hp, _⟩, _⟩ := hext
          subst hp
          simp only [setChildren]
          exact GInv.setNode hg he hhs (hns n (by simp)) hnd ⟨pr, hpr, hl, hlen, hnul, hch⟩
      · exact hrest
    · exact hrest

/-- a new nonterminal node is packed onto an edge -/
theorem newSolution_ok {env : Env} {g2 : Gss} {x : Option Nat} (hg2 : GInvX env g2 x) {edge : Nat} {ed : Edge}
    (hxe : x = none ∨ x = some edge) (hed : g2.edges[edge]? = some ed) {hd : Head} (hhd : g2.heads[ed.src]? = some hd)
    {prod : Nat} {pr : Prod} (hpr : env.g.prods[prod]? = some pr) (hl : pr.lhs = env.t.symAt hd.state)
    {parents : List Nat} (hlen : parents.length ≤ pr.rhs.length)
    (hnul : ∀ Y ∈ pr.rhs.drop parents.length, Nullable env.g Y)
    (hch : ChildrenOk env.t g2 parents (pr.rhs.take parents.length) ed.dst hd.frontier)
    (span : Span) (lay : Option Slice) :
    GInv env ((g2.addNode (.nonterm prod span lay parents)).1.pushPoss edge (g2.addNode (.nonterm prod span lay parents)).2) ∧
    Ext g2 ((g2.addNode (.nonterm prod span lay parents)).1.pushPoss edge (g2.addNode (.nonterm prod span lay parents)).2) := by
  have hx3 := ext_addNode g2 (.nonterm prod span lay parents)
  have hg3 := hg2.addNode (.nonterm prod span lay parents)
  refine ⟨?_, hx3.trans (ext_pushPoss _ _ _)⟩
  apply hg3.pushPoss edge _ ed (.nonterm prod span lay parents) hd hxe
  · exact hed
  · rw [addNode_nodes, addNode_idx, if_pos rfl]
  · exact hhd
  · exact NodeFits.ext hx3 ⟨pr, hpr, hl, hlen, hnul, hch⟩
  · intro e' ed' he' hmem
    obtain ⟨_, _, _, _, _, hposs⟩ := (hg2.edges e' ed' he').ends
    obtain ⟨nd, hnd, _⟩ := hposs _ hmem
    have := lt_of_getElem?_some hnd
    simp at this

end Rustemo.Glr
