import Rustemo.Proofs.GenWF
/-!
# C08 — the nested-arrays layout answers every query as the table
-/
namespace Rustemo
namespace Gen

theorem cell_eq {t : Table} {s a : Nat} {st : State} (hst : t.states[s]? = some st)
    (ha : a < st.actions.size) : t.cell s a = st.actions[a] := by
  simp [Table.cell, hst, Array.getD_eq_getD_getElem?, Array.getElem?_eq_getElem ha]

theorem gotoNt_eq {t : Table} {s n : Nat} {st : State} (hst : t.states[s]? = some st)
    (hn : n < st.gotos.size) : t.gotoNt s n = st.gotos[n] := by
  simp [Table.gotoNt, hst, Array.getD_eq_getD_getElem?, Array.getElem?_eq_getElem hn]

theorem arrays_actions {g : Grammar} {t : Table} (w : WFP g t) {s a : Nat}
    (hs : s < t.states.size) (ha : a < g.nterms) :
    (arraysCore g t).actionsQ (enums g t) s a = .ok ((t.cell s a).map (encode g)) := by
  have hst : t.states[s]? = some t.states[s] := Array.getElem?_eq_getElem hs
  have ok := w.state hst
  have ha' : a < (t.states[s]).actions.size := by rw [ok.aw]; exact ha
  have hcell : ∀ x ∈ (t.states[s]).actions[a], actOk g t x = true :=
    ok.acts _ (by simp [Array.mem_toList_iff])
  have h1 : (arraysCore g t).actions[s]? =
      some ((t.states[s]).actions.toList.map (arrCell g t (maxActions t))) := by
    simp [arraysCore, List.getElem?_map, hst]
  have h2 : ((t.states[s]).actions.toList.map (arrCell g t (maxActions t)))[a]? =
      some (arrCell g t (maxActions t) (t.states[s]).actions[a]) := by
    simp [List.getElem?_map, Array.getElem?_eq_getElem ha']
  unfold ArrCode.actionsQ
  rw [h1]
  simp only
  rw [h2]
  simp only
  rw [evalCell_arrCell w _ hcell]
  simp only
  rw [takeWhile_pad CAct.notError CAct.error rfl]
  · rw [cell_eq hst ha']
  · intro x hx
    obtain ⟨y, _, rfl⟩ := List.mem_map.mp hx
    exact encode_notError g y

/-- what `goto` answers according to the table: the target state, or a panic -/
def gotoSpec (t : Table) (s n : Nat) (r : Res Nat) : Prop :=
  match t.gotoNt s n with
  | some s' => r = .ok s'
  | none => r.isPanic = true

theorem arrays_goto {g : Grammar} {t : Table} (w : WFP g t) {s n : Nat}
    (hs : s < t.states.size) (hn : n < g.nnonterms) :
    gotoSpec t s n ((arraysCore g t).gotoQ (enums g t) s n) := by
  have hst : t.states[s]? = some t.states[s] := Array.getElem?_eq_getElem hs
  have ok := w.state hst
  have hn' : n < (t.states[s]).gotos.size := by rw [ok.gw]; exact hn
  have hg : gotoOk t (t.states[s]).gotos[n] = true := ok.gotos _ (by simp [Array.mem_toList_iff])
  have h1 : (arraysCore g t).gotos[s]? =
      some ((t.states[s]).gotos.toList.map (arrGotoEntry g t)) := by
    simp [arraysCore, List.getElem?_map, hst]
  have h2 : ((t.states[s]).gotos.toList.map (arrGotoEntry g t))[n]? =
      some (arrGotoEntry g t (t.states[s]).gotos[n]) := by
    simp [List.getElem?_map, Array.getElem?_eq_getElem hn']
  unfold gotoSpec ArrCode.gotoQ
  rw [h1]
  simp only
  rw [h2, gotoNt_eq hst hn']
  cases hx : (t.states[s]).gotos[n] with
  | none => simp [arrGotoEntry, Res.isPanic]
  | some s' =>
    have hs' : s' < t.states.size := by simpa [gotoOk, hx] using hg
    simp [arrGotoEntry, resolve_state w hs']

theorem arrays_expected {g : Grammar} {t : Table} (w : WFP g t) {s : Nat} (hs : s < t.states.size) :
    (arraysCore g t).expectedQ (enums g t) s = .ok (t.sorted s) := by
  unfold ArrCode.expectedQ
  exact expectedOf_rows w hs

end Gen
end Rustemo
