import Rustemo.Model.Cli
/-!
# C17: the command line means what it is documented to mean

`Cli.toSettings` (the transcription of `main`, call by call) equals `Doc.settingsOf` (the
documented meaning, one equation per setting) for every environment and every `Cli` value.
The domain is a finite product of booleans / enums / options times pass-through strings, so the
proof is a case split on everything a builder branches on followed by `simp`.
-/
namespace Rustemo.Cfg

set_option linter.unusedSimpArgs false in
theorem toSettings_eq_settingsOf (env : Env) (cli : Cli) :
    Cli.toSettings env cli = Doc.settingsOf env cli := by
  obtain ⟨force, dot, noactions, trace, gf, oroot, aroot, ps, nsoe, tt, algo, gtt, lt, it, bt, bli,
    lms, llm, lgo, fr, pp, nsw, pt, excl, verb⟩ := cli
  have split : ∀ (o : Option Bool), o = none ∨ o = some true ∨ o = some false := by
    intro o; cases o with
    | none => simp
    | some b => cases b <;> simp
  rcases split lgo with h | h | h <;> subst h <;>
  cases algo <;> cases lms <;> cases llm <;> cases oroot <;> cases aroot <;> cases trace <;>
    simp [Cli.toSettings, Doc.settingsOf, Doc.settings, Doc.rejected, Doc.isGlr, Settings.new,
      Settings.setForce, Settings.setDot, Settings.setActions, Settings.setTrace, Settings.setExclude,
      Settings.setPreferShifts, Settings.setPreferShiftsOverEmpty, Settings.setFancyRegex,
      Settings.setPartialParse, Settings.setSkipWs, Settings.setTableType, Settings.setPrintTable,
      Settings.setParserAlgo, Settings.setGeneratorTableType, Settings.setLexerType,
      Settings.setBuilderType, Settings.setBuilderLocInfo, Settings.setInputType,
      Settings.setMostSpecific, Settings.setLongestMatch, Settings.setGrammarOrder,
      Settings.setOutDirRoot, Settings.setOutDirActionsRoot, applyOpt, applyOptRes, Res.bind]

end Rustemo.Cfg
