import Rustemo.Proofs.LayoutRTStep
import Rustemo.Proofs.LRSound
/-!
# Partial parsing is conservative (C02, open part)

`partial_parse` only changes what `next_token` answers when NO token is found (`noToken`: a synthetic
STOP instead of an error).  A run with partial parsing off that is accepted never took that branch,
so the same run with partial parsing on makes the same steps and returns the same result: same tree,
same final context.  Any lexer (string lexer, Layout rule, user lexer), any input, any table.
-/
namespace Rustemo

/-- `nt2` answers what `nt1` answers whenever `nt1` delivers a token -/
def NtExt (nt1 nt2 : Ctx → Ctx × Outcome Tok) : Prop :=
  ∀ ctx ctx' tk, nt1 ctx = (ctx', .ok tk) → nt2 ctx = (ctx', .ok tk)

theorem runLoop_ext (env : Env) (nt1 nt2 : Ctx → Ctx × Outcome Tok) (hext : NtExt nt1 nt2) :
    ∀ (fuel : Nat) (c : Cfg) (ctx : Ctx) (r : ParseResult),
      runLoop env nt1 fuel c = (ctx, .ok r) → runLoop env nt2 fuel c = (ctx, .ok r) := by
  intro fuel
  induction fuel with
  | zero => intro c ctx r h; simp [runLoop] at h
  | succ n ih =>
    intro c ctx r h
    unfold runLoop at h ⊢
    split at h
    · rename_i c' hstep
      have hstep2 : step env nt2 c = .next c' := by
        cases step_next_inv env nt1 c c' hstep with
        | shift state s' acts ctx1 tk htop hcell hnt1 hc' =>
          rw [hc']
          exact step_shift_intro env nt2 c state s' acts ctx1 tk htop hcell (hext _ _ _ hnt1)
        | reduce state p len fromState s' pr acts ctx1 tk htop hcell hlen hfrom hpr hgoto hrlen hnt1 hc' =>
          rw [hc']
          exact step_reduce_intro env nt2 c state p len fromState s' pr acts ctx1 tk htop hcell hlen hfrom
            hpr hgoto hrlen (hext _ _ _ hnt1)
      rw [hstep2]
      exact ih c' ctx r h
    · rename_i ctx' r' hstep
      obtain ⟨state, acts, rest, htop, hcell, hctx, hres, hslice, hhist⟩ := step_done_inv env nt1 c ctx' r' hstep
      have hstep2 : step env nt2 c = .done ctx' r' := by
        rw [step_accept_intro env nt2 c state acts r'.tree rest htop hcell hres, hctx]
        congr 1
        cases r' with
        | mk tree slice hist => simp only at hslice hhist; rw [hslice, hhist]
      rw [hstep2]
      exact h
    · rename_i ctx' o hstep
      injection h with _ h2
      subst h2
      exact absurd rfl (step_stop_not_ok env nt1 c ctx' _ hstep r)

theorem parseWith_ext (env : Env) (nt1 nt2 : Ctx → Ctx × Outcome Tok) (hext : NtExt nt1 nt2)
    (start : Nat) (ctx0 : Ctx) (fuel : Nat) (ctx : Ctx) (r : ParseResult)
    (h : parseWith env nt1 start ctx0 fuel = (ctx, .ok r)) :
    parseWith env nt2 start ctx0 fuel = (ctx, .ok r) := by
  unfold parseWith at h ⊢
  simp only at h ⊢
  split at h
  · rename_i ctx1 tk hnt1
    rw [hext _ _ _ hnt1]
    exact runLoop_ext env nt1 nt2 hext fuel _ ctx r h
  all_goals (injection h with _ h2; simp at h2)

theorem noToken_false_not_ok (env : Env) (ctx ctx' : Ctx) (tk : Tok) :
    noToken env false ctx ≠ (ctx', .ok tk) := by
  unfold noToken
  simp only [Bool.false_and, Bool.false_eq_true, ↓reduceIte]
  split <;> (intro h; injection h with _ h2; simp at h2)

theorem ntBase_partial_ext (env : Env) : NtExt (nextTokenBase env false) (nextTokenBase env true) := by
  intro ctx ctx' tk h
  unfold nextTokenBase at h ⊢
  generalize lexNext env ctx (env.t.sorted ctx.state) = lx at h ⊢
  obtain ⟨ctx1, toks⟩ := lx
  simp only at h ⊢
  split
  · rename_i tk' hpick
    rw [hpick] at h
    exact h
  · rename_i hpick
    rw [hpick] at h
    exact absurd h (noToken_false_not_ok env _ _ _)

theorem ntMain_partial_ext (env : Env) (fuel : Nat) :
    NtExt (nextTokenMain env false fuel) (nextTokenMain env true fuel) := by
  intro ctx ctx' tk h
  unfold nextTokenMain at h ⊢
  generalize lexNext env ctx (env.t.sorted ctx.state) = lx at h ⊢
  obtain ⟨ctx1, toks⟩ := lx
  simp only at h ⊢
  split
  · rename_i tk' hpick
    rw [hpick] at h
    exact h
  · rename_i hpick
    rw [hpick] at h
    simp only at h
    split
    · rename_i hl
      rw [hl] at h
      exact absurd h (noToken_false_not_ok env _ _ _)
    · rename_i ls hl
      rw [hl] at h
      simp only at h
      generalize layoutParse env ls ctx1 fuel = lp at h ⊢
      obtain ⟨cx, r⟩ := lp
      simp only at h ⊢
      split
      · rename_i pr
        simp only at h
        split
        · rename_i off len hslice
          rw [hslice] at h
          simp only at h
          split
          · rename_i hlen
            rw [if_pos hlen] at h
            exact ntBase_partial_ext env _ _ _ h
          · rename_i hlen
            rw [if_neg hlen] at h
            exact absurd h (noToken_false_not_ok env _ _ _)
        · rename_i hslice
          rw [hslice] at h
          exact absurd h (noToken_false_not_ok env _ _ _)
      · exact absurd h (noToken_false_not_ok env _ _ _)
      · injection h with _ h2; simp at h2
      · injection h with _ h2; simp at h2

/-- **Partial parsing is conservative**: what `parse` accepts without partial parsing it accepts with
    it, with the same tree, slice, token history and final context. -/
theorem parse_partial_conservative (env : Env) (fuel : Nat) (ctx : Ctx) (r : ParseResult)
    (h : parse env false fuel = (ctx, .ok r)) : parse env true fuel = (ctx, .ok r) := by
  unfold parse at h ⊢
  exact parseWith_ext env _ _ (ntMain_partial_ext env fuel) 0 {} fuel ctx r h

end Rustemo
