import Rustemo.Model.Gen
/-! A concrete ambiguous grammar and the GLR table rustemo builds for it (`S: S S | Ta;`), used by the
non-vacuity examples of C08: state 3 has a two-action cell (MAX_ACTIONS = 2, other cells are padded
with `Error`), states 1–3 have no empty cell (no `_ => vec![]` arm), state 0 has one; states 1 has no
goto (`goto_invalid`). -/
namespace Rustemo.Gen.Example

def tm (n : String) : Terminal :=
  { name := n, prio := 10, assoc := .none, recog := none, hasContent := false, reachable := true }

/-- terminals STOP(0) Ta(1); nonterminals EMPTY(2) AUG(3) S(4); prods 0: AUG→S, 1: S→S S, 2: S→Ta -/
def g : Grammar :=
  { nterms := 2, nnonterms := 3,
    prods := #[{ lhs := 3, rhs := [4] }, { lhs := 4, rhs := [4, 4] }, { lhs := 4, rhs := [1], ntidx := 1 }],
    terms := #[tm "STOP", tm "Ta"], ntNames := #["EMPTY", "AUG", "S"],
    emptyIdx := 2, augIdx := 3, startIdx := 4 }

/-- the same grammar with the production kind `{P2}` on `S: S S`: both productions are named `SP2` -/
def gDup : Grammar :=
  { g with prods := #[{ lhs := 3, rhs := [4] }, { lhs := 4, rhs := [4, 4], kind := some "P2" },
                      { lhs := 4, rhs := [1], ntidx := 1 }] }

def t : Table :=
  { states := #[
      { symbol := 3, items := [], actions := #[[], [.shift 1]], gotos := #[none, none, some 2],
        sorted := [(1, true)] },
      { symbol := 1, items := [], actions := #[[.reduce 2 1], [.reduce 2 1]], gotos := #[none, none, none],
        sorted := [(0, true), (1, true)] },
      { symbol := 4, items := [], actions := #[[.accept], [.shift 1]], gotos := #[none, none, some 3],
        sorted := [(0, true), (1, true)] },
      { symbol := 4, items := [], actions := #[[.reduce 1 2], [.shift 1, .reduce 1 2]],
        gotos := #[none, none, some 3], sorted := [(0, true), (1, true)] }] }

end Rustemo.Gen.Example
