import Rustemo.Proofs.GlrRun6
/-!
# The shifter under `LexDet`: every recorded shift is performed, lower levels are framed, the next base
-/
namespace Rustemo.Glr
open Rustemo

/-! ## the map of new heads -/

theorem baseGet_none {k : Nat × Pos} {m : BaseMap} (h : baseGet k m = none) : ∀ x ∈ m, x.1 ≠ k := by
  intro x hx heq
  unfold baseGet at h
  cases hf : m.find? (fun e => e.1 == k) with
  | none =>
    rw [List.find?_eq_none] at hf
    have := hf x hx
    simp [heq] at this
  | some e => rw [hf] at h; simp at h

theorem mem_baseInsert_self (k : Nat × Pos) (h : Nat) : ∀ (m : BaseMap), (k, h) ∈ baseInsert k h m
  | [] => by simp [baseInsert]
  | (k', h') :: rest => by
    simp only [baseInsert]
    split
    · simp
    · split
      · simp
      · exact List.mem_cons_of_mem _ (mem_baseInsert_self k h rest)

theorem mem_baseInsert_of_mem {k : Nat × Pos} {h : Nat} : ∀ {m : BaseMap} {x : (Nat × Pos) × Nat}, x ∈ m → x.1 ≠ k →
    x ∈ baseInsert k h m
  | [], x, hx, _ => by simp at hx
  | (k', h') :: rest, x, hx, hne => by
    simp only [baseInsert]
    split
    · exact List.mem_cons_of_mem _ hx
    · split
      · rename_i heq
        simp only [beq_iff_eq] at heq
        rcases List.mem_cons.mp hx with h1 | h1
        · rw [h1] at hne; exact absurd heq.symm hne
        · exact List.mem_cons_of_mem _ h1
      · rcases List.mem_cons.mp hx with h1 | h1
        · rw [h1]; exact List.mem_cons_self
        · exact List.mem_cons_of_mem _ (mem_baseInsert_of_mem h1 hne)

theorem baseInsert_pairwise {k : Nat × Pos} {h : Nat} : ∀ {m : BaseMap},
    m.Pairwise (fun x y => x.1 ≠ y.1) → (∀ x ∈ m, x.1 ≠ k) → (baseInsert k h m).Pairwise (fun x y => x.1 ≠ y.1)
  | [], _, _ => by simp [baseInsert]
  | (k', h') :: rest, hp, hne => by
    have hp' := List.pairwise_cons.mp hp
    simp only [baseInsert]
    split
    · exact List.pairwise_cons.mpr ⟨fun y hy => (hne y hy).symm, hp⟩
    · split
      · rename_i heq
        simp only [beq_iff_eq] at heq
        exact absurd heq.symm (hne (k', h') (by simp))
      · refine List.pairwise_cons.mpr ⟨?_, baseInsert_pairwise hp'.2 (fun x hx => hne x (by simp [hx]))⟩
        intro y hy
        rcases mem_baseInsert hy with h1 | h1
        · rw [h1]; exact hne (k', h') (by simp)
        · exact hp'.1 y h1

theorem pairwise_key_unique {m : BaseMap} : m.Pairwise (fun x y => x.1 ≠ y.1) → ∀ x ∈ m, ∀ y ∈ m, x.1 = y.1 → x = y := by
  induction m with
  | nil => intro _ x hx; simp at hx
  | cons a rest ih =>
    intro hp x hx y hy heq
    have hp' := List.pairwise_cons.mp hp
    rcases List.mem_cons.mp hx with h1 | h1 <;> rcases List.mem_cons.mp hy with h2 | h2
    · rw [h1, h2]
    · rw [h1] at heq; exact absurd heq (hp'.1 y h2)
    · rw [h2] at heq; exact absurd heq.symm (hp'.1 x h1)
    · exact ih hp'.2 x h1 y h2 heq

/-! ## one terminal possibility added -/

theorem frame_addNode' (F : Nat) {g : Gss}
    (hp : ∀ (e : Nat) (ed : Edge) (n : Nat), g.edges[e]? = some ed → n ∈ ed.poss → n < g.nodes.size) (nd : SNode) :
    FrameLt F g (g.addNode nd).1 := by
  refine ⟨fun _ _ h _ => h, fun _ _ h _ => h, fun _ _ _ he _ _ => he, fun _ _ _ he _ _ => he, ?_,
    fun _ hd h => ⟨hd, h, rfl, rfl⟩, fun _ ed he => ⟨ed, he, rfl, rfl, fun _ hn => hn⟩, ?_⟩
  · intro e ed hs n he _ _ hn
    have := hp e ed n he hn
    rw [addNode_nodes]
    have hne : ¬ n = g.nodes.size := by omega
    simp [hne]
  · intro n tk sp hn; exact addNode_old hn

theorem ginv_poss {env : Env} {g : Gss} {x : Option Nat} (hg : GInvX env g x) :
    ∀ (e : Nat) (ed : Edge) (n : Nat), g.edges[e]? = some ed → n ∈ ed.poss → n < g.nodes.size := by
  intro e ed n he hn
  obtain ⟨_, _, _, _, _, hp⟩ := (hg.edges e ed he).ends
  obtain ⟨nd', hnd', _⟩ := hp n hn
  exact lt_of_getElem?_some hnd'

theorem addSolution_run {F : Nat} {g : Gss}
    (hp : ∀ (e : Nat) (ed : Edge) (n : Nat), g.edges[e]? = some ed → n ∈ ed.poss → n < g.nodes.size)
    (hu : GU (F + 1) g) {src dst : Nat} {hs hd : Head}
    (tk : Tok) (sp : Span) (hhs : g.heads[src]? = some hs) (hhd : g.heads[dst]? = some hd)
    (hsl : hs.frontier = F + 1) (hdl : hd.frontier = F)
    (g2 : Gss) (hg2 : g2 = (g.addNode (.term tk sp)).1.addSolution src dst g.nodes.size) :
    FrameLt (F + 1) g g2 ∧ GU (F + 1) g2 ∧ g2.heads = g.heads ∧
    (∃ (e : Nat) (ed : Edge), g2.edges[e]? = some ed ∧ ed.src = src ∧ ed.dst = dst ∧ g.nodes.size ∈ ed.poss) ∧
    g2.nodes[g.nodes.size]? = some (.term tk sp) ∧
    (∀ (e : Nat) (ed : Edge), g2.edges[e]? = some ed →
      (∃ ed0 : Edge, g.edges[e]? = some ed0 ∧ ed0.src = ed.src ∧ ed0.dst = ed.dst) ∨ (ed.src = src ∧ ed.dst = dst)) := by
  subst hg2
  have f1 : FrameLt (F + 1) g (g.addNode (.term tk sp)).1 := frame_addNode' (F + 1) hp _
  have u1 : GU (F + 1) (g.addNode (.term tk sp)).1 := hu.of_same rfl (fun e ed he => ⟨ed, he, rfl, rfl⟩)
  have hnew : (g.addNode (.term tk sp)).1.nodes[g.nodes.size]? = some (.term tk sp) := by
    rw [addNode_nodes, if_pos rfl]
  unfold Gss.addSolution
  cases hb : (g.addNode (.term tk sp)).1.edgeBetween src dst with
  | some e =>
    simp only
    obtain ⟨ed, hed, hsrc, hdst⟩ := edgeBetween_some hb
    have hpe := pushPoss_edges (g.addNode (.term tk sp)).1 e g.nodes.size ed hed
    refine ⟨f1.trans (frame_pushPoss (F + 1) _ e _ ed hs hed (by rw [hsrc]; exact hhs) (by omega)), ?_, by simp,
      ⟨e, { ed with poss := ed.poss ++ [g.nodes.size] }, by rw [hpe]; simp, hsrc, hdst, by simp⟩,
      by rw [pushPoss_nodes]; exact hnew, ?_⟩
    · apply u1.of_same (by simp)
      intro e' ed' he'
      rw [hpe] at he'
      split at he'
      · rename_i heq; subst heq; injection he' with he'; subst he'; exact ⟨ed, hed, rfl, rfl⟩
      · exact ⟨ed', he', rfl, rfl⟩
    · intro e' ed' he'
      rw [hpe] at he'
      split at he'
      · rename_i heq; subst heq; injection he' with he'; subst he'; exact Or.inl ⟨ed, hed, rfl, rfl⟩
      · exact Or.inl ⟨ed', he', rfl, rfl⟩
  | none =>
    simp only
    have hnone := edgeBetween_none hb
    refine ⟨f1.trans (frame_addEdge (F + 1) _ src dst _ hs hhs (by omega)), ?_, rfl,
      ⟨g.edges.size, ⟨src, dst, [g.nodes.size]⟩, by rw [addEdge_edges]; simp, rfl, rfl, by simp⟩, hnew, ?_⟩
    · apply u1.addEdge _ hhs hhd (by omega)
      intro e ed he hsrc hdst
      exact hnone e ed he hsrc hdst
    · intro e' ed' he'
      rw [addEdge_edges] at he'
      split at he'
      · injection he' with he'; subst he'; exact Or.inr ⟨rfl, rfl⟩
      · exact Or.inl ⟨ed', he', rfl, rfl⟩

/-- a performed shift: the new-level head for the target state, its edge down with the terminal node -/
def ShiftedW (g : Gss) (F : Nat) (tk : Tok) (x : Nat × Nat) : Prop :=
  ∃ (v : Nat) (hv : Head) (e : Nat) (ed : Edge) (n : Nat) (sp : Span), g.heads[v]? = some hv ∧ hv.state = x.2 ∧
    hv.frontier = F + 1 ∧ g.edges[e]? = some ed ∧ ed.src = v ∧ ed.dst = x.1 ∧ n ∈ ed.poss ∧
    g.nodes[n]? = some (.term tk sp)

theorem ShiftedW.frame {g g' : Gss} {F F' : Nat} {tk : Tok} {x : Nat × Nat} (h : ShiftedW g F tk x)
    (hf : FrameLt F' g g') : ShiftedW g' F tk x := by
  obtain ⟨v, hv, e, ed, n, sp, h1, h2, h3, h4, h5, h6, h7, h8⟩ := h
  obtain ⟨hv', k1, k2, k3⟩ := hf.mono_heads v hv h1
  obtain ⟨ed', m1, m2, m3, m4⟩ := hf.mono_edges e ed h4
  exact ⟨v, hv', e, ed', n, sp, k1, by rw [k2, h2], by rw [k3, h3], m1, by rw [m2, h5], by rw [m3, h6], m4 n h7,
    hf.mono_terms n _ sp h8⟩

/-- invariant of the shifter loop -/
structure SI (env : Env) (F : Nat) (tk : Tok) (PF1 : Pos) (g0 : Gss) (done : List (Nat × Nat)) (g : Gss) (m : BaseMap) :
    Prop where
  ginv : GInv env g
  frame : FrameLt (F + 1) g0 g
  gu : GU (F + 1) g
  map : ∀ k v, (k, v) ∈ m → k.2 = PF1 ∧ env.t.symAt k.1 = tk.kind ∧ ∃ hv : Head, g.heads[v]? = some hv ∧ hv.state = k.1 ∧
    hv.frontier = F + 1 ∧ hv.pos = PF1 ∧ hv.tok = none
  keys : m.Pairwise (fun x y => x.1 ≠ y.1)
  level : ∀ (h : Nat) (hd : Head), g.heads[h]? = some hd → hd.frontier = F + 1 → ∃ k, (k, h) ∈ m
  shifted : ∀ x ∈ done, ShiftedW g F tk x
  down : ∀ (e : Nat) (ed : Edge) (hs : Head), g.edges[e]? = some ed → g.heads[ed.src]? = some hs → hs.frontier = F + 1 →
    ∃ hd : Head, g.heads[ed.dst]? = some hd ∧ hd.frontier = F

theorem shiftOne_run {env : Env} (hT : TableOk env) {F : Nat} {tk : Tok} {LF PF1 : Pos} {g0 g g' : Gss} {m m' : BaseMap}
    {done : List (Nat × Nat)} (hI : SI env F tk PF1 g0 done g m) (hmo : MapOk g (F + 1) m) {x : Nat × Nat} {hd : Head}
    (hhd : g.heads[x.1]? = some hd) (htk : hd.tok = some tk) (hF : hd.frontier = F) (hpos : hd.pos = LF)
    (hact : Action.shift x.2 ∈ env.t.cell hd.state tk.kind) (hP : posAfter (sliceOf env.input tk.val) LF = PF1)
    (hok : shiftOne env (F + 1) (g, m) x = .ok (g', m')) :
    SI env F tk PF1 g0 (x :: done) g' m' ∧ MapOk g' (F + 1) m' := by
  have hsat := shiftOne_sat (A := True) hT hI.ginv hmo ⟨hd, tk, hhd, htk, hF, hact⟩
  rw [hok] at hsat
  obtain ⟨hg', _, hmo'⟩ := hsat
  refine ⟨?_, hmo'⟩
  unfold shiftOne at hok
  simp only [head_sat' _ _ _ hhd, obind, tokOf_ok htk, hpos, hP] at hok
  split at hok
  · -- the head exists
    rename_i v hget
    obtain ⟨hk2, _, hv, hhv, hvs, hvf, hvp, hvt⟩ := hI.map _ _ (baseGet_mem hget)
    simp only [head_sat' _ _ _ hhv, obind, addNode_idx] at hok
    injection hok with hok
    injection hok with e1 e2
    subst e2
    obtain ⟨f, u, hh, ⟨e, ed, w1, w2, w3, w4⟩, hn, hed⟩ := addSolution_run (ginv_poss hI.ginv) hI.gu tk tk.span hhv hhd hvf hF _ rfl
    rw [e1] at f u hh w1 hn hed
    refine ⟨hg', hI.frame.trans f, u, ?_, hI.keys, ?_, ?_, ?_⟩
    · intro k v' hkv
      obtain ⟨k1, k1', x', k2, k3⟩ := hI.map k v' hkv
      exact ⟨k1, k1', x', by rw [hh]; exact k2, k3⟩
    · intro h hd' hh' hl; rw [hh] at hh'; exact hI.level h hd' hh' hl
    · intro y hy
      rcases List.mem_cons.mp hy with heq | hr
      · rw [heq]
        exact ⟨v, hv, e, ed, g.nodes.size, tk.span, by rw [hh]; exact hhv, hvs, hvf, w1, w2, w3, w4, hn⟩
      · exact (hI.shifted y hr).frame f
    · intro e' ed' hs he' hhs hsl
      rw [hh] at hhs ⊢
      rcases hed e' ed' he' with ⟨ed0, k1, k2, k3⟩ | ⟨k1, k2⟩
      · rw [← k3]; exact hI.down e' ed0 hs k1 (by rw [k2]; exact hhs) hsl
      · rw [k2]; exact ⟨hd, hhd, hF⟩
  · -- a new head
    rename_i hget
    simp only [addNode_idx, addHead_idx, addHead_nodes] at hok
    injection hok with hok
    injection hok with e1 e2
    generalize hnh : (⟨x.2, F + 1, PF1, tk.span, none, none⟩ : Head) = nh at e1
    have hsrcs := ginv_srcs hI.ginv
    have f0 : FrameLt (F + 1) g (g.addHead nh).1 := frame_addHead (F + 1) g nh (by rw [← hnh]; exact Nat.le_refl _)
    have u0 : GU (F + 1) (g.addHead nh).1 := hI.gu.addHead nh (by rw [← hnh]; exact Nat.le_refl _) hsrcs
    have hnhd : (g.addHead nh).1.heads[g.heads.size]? = some nh := by rw [addHead_heads, if_pos rfl]
    have hhd0 : (g.addHead nh).1.heads[x.1]? = some hd := f0.heads_fwd _ hd hhd (by omega)
    obtain ⟨f, u, hh, ⟨e, ed, w1, w2, w3, w4⟩, hn, hed⟩ := addSolution_run (g := (g.addHead nh).1)
      (show ∀ (e : Nat) (ed : Edge) (n : Nat), (g.addHead nh).1.edges[e]? = some ed → n ∈ ed.poss →
        n < (g.addHead nh).1.nodes.size from ginv_poss (g := g) hI.ginv) u0 tk tk.span hnhd hhd0 (by rw [← hnh]) hF _ rfl
    simp only [addHead_nodes] at f u hh w1 w4 hn hed
    rw [e1] at f u hh w1 hn hed
    have hold : ∀ (i : Nat) (y : Head), g.heads[i]? = some y → g'.heads[i]? = some y := by
      intro i y hi
      rw [hh, addHead_heads]
      have := lt_of_getElem?_some hi
      have : ¬ i = g.heads.size := by omega
      simp [this, hi]
    have hnew : g'.heads[g.heads.size]? = some nh := by rw [hh]; exact hnhd
    have hkne := baseGet_none hget
    refine ⟨hg', hI.frame.trans (f0.trans f), u, ?_, ?_, ?_, ?_, ?_⟩
    · intro k v' hkv
      rw [← e2] at hkv
      rcases mem_baseInsert hkv with heq | hr
      · injection heq with j1 j2
        subst j1; subst j2
        have hterm := hT.s.shift_term _ _ _ hact
        have htrans : env.t.trans env.g hd.state tk.kind x.2 := by
          unfold Table.trans; simp only [hterm, ↓reduceIte]; exact hact
        exact ⟨rfl, hT.sym _ _ _ htrans, nh, hnew, by rw [← hnh], by rw [← hnh], by rw [← hnh], by rw [← hnh]⟩
      · obtain ⟨k1, k1', x', k2, k3⟩ := hI.map k v' hr
        exact ⟨k1, k1', x', hold _ _ k2, k3⟩
    · rw [← e2]; exact baseInsert_pairwise hI.keys hkne
    · intro h hd' hh' hl
      rw [hh, addHead_heads] at hh'
      rw [← e2]
      split at hh'
      · rename_i heq; rw [heq]; exact ⟨_, mem_baseInsert_self _ _ _⟩
      · obtain ⟨k, hk⟩ := hI.level h hd' hh' hl
        exact ⟨k, mem_baseInsert_of_mem hk (hkne _ hk)⟩
    · intro y hy
      rcases List.mem_cons.mp hy with heq | hr
      · rw [heq]
        exact ⟨g.heads.size, nh, e, ed, g.nodes.size, tk.span, hnew, by rw [← hnh], by rw [← hnh], w1, w2, w3, w4, hn⟩
      · exact (hI.shifted y hr).frame (f0.trans f)
    · intro e' ed' hs he' hhs hsl
      rcases hed e' ed' he' with ⟨ed0, k1, k2, k3⟩ | ⟨k1, k2⟩
      · simp only [addHead_edges] at k1
        obtain ⟨hlt, _⟩ := hsrcs e' ed0 k1
        have hhs0 : g.heads[ed0.src]? = some hs := by
          rw [hh, addHead_heads, ← k2] at hhs
          have : ¬ ed0.src = g.heads.size := by omega
          simpa [this] using hhs
        obtain ⟨y, hy, hyl⟩ := hI.down e' ed0 hs k1 hhs0 hsl
        rw [← k3]
        exact ⟨y, hold _ _ hy, hyl⟩
      · rw [k2]; exact ⟨hd, hold _ _ hhd, hF⟩

/-- what is known about a recorded shift under `LexDet` -/
def ShiftFact (env : Env) (F : Nat) (tk : Tok) (LF PF1 : Pos) (g0 : Gss) (x : Nat × Nat) : Prop :=
  ∃ hd : Head, g0.heads[x.1]? = some hd ∧ hd.tok = some tk ∧ hd.frontier = F ∧ hd.pos = LF ∧
    Action.shift x.2 ∈ env.t.cell hd.state tk.kind ∧ posAfter (sliceOf env.input tk.val) LF = PF1

theorem shifter_fold {env : Env} (hT : TableOk env) {F : Nat} {tk : Tok} {LF PF1 : Pos} {g0 : Gss} :
    ∀ (l done : List (Nat × Nat)) (g g' : Gss) (m m' : BaseMap), SI env F tk PF1 g0 done g m → MapOk g (F + 1) m →
      (∀ x ∈ l, ShiftFact env F tk LF PF1 g0 x) → foldO (shiftOne env (F + 1)) l (g, m) = .ok (g', m') →
      ∃ done', (∀ x, x ∈ l ∨ x ∈ done → x ∈ done') ∧ SI env F tk PF1 g0 done' g' m'
  | [], done, g, g', m, m', hI, _, _, h => by
    simp only [foldO] at h
    injection h with h
    injection h with h1 h2
    subst h1; subst h2
    exact ⟨done, fun x hx => by simpa using hx, hI⟩
  | x :: rest, done, g, g', m, m', hI, hmo, hl, h => by
    simp only [foldO] at h
    obtain ⟨⟨g1, m1⟩, h1, h2⟩ := obind_eq_ok h
    obtain ⟨hd, k1, k2, k3, k4, k5, k6⟩ := hl x (by simp)
    have hhd : g.heads[x.1]? = some hd := hI.frame.heads_fwd _ hd k1 (by omega)
    obtain ⟨hI1, hmo1⟩ := shiftOne_run hT hI hmo hhd k2 k3 k4 k5 k6 h1
    obtain ⟨done', hd', hI'⟩ := shifter_fold hT rest (x :: done) g1 g' m1 m' hI1 hmo1 (fun y hy => hl y (by simp [hy])) h2
    refine ⟨done', ?_, hI'⟩
    intro y hy
    apply hd'
    rcases hy with hy | hy
    · rcases List.mem_cons.mp hy with heq | hr
      · right; rw [heq]; simp
      · exact Or.inl hr
    · right; simp [hy]

/-- **the shifter**: lower levels framed, every recorded shift performed, the next base described -/
theorem shifter_run {env : Env} (hT : TableOk env) {F : Nat} {tk : Tok} {LF PF1 : Pos} {st st' : St} {base' : List Nat}
    (hs : StOk env F st) (hu : GU F st.gss) (hl : ∀ x ∈ st.shifts, ShiftFact env F tk LF PF1 st.gss x)
    (hok : shifter env (F + 1) st = .ok (st', base')) :
    ∃ (m : BaseMap) (done : List (Nat × Nat)), base' = m.map (·.2) ∧ st'.shifts = [] ∧ st'.accepted = st.accepted ∧
      (∀ x ∈ st.shifts, x ∈ done) ∧ SI env F tk PF1 st.gss done st'.gss m := by
  unfold shifter at hok
  obtain ⟨⟨g', m⟩, h1, h2⟩ := obind_eq_ok hok
  injection h2 with h2
  injection h2 with e1 e2
  have hI0 : SI env F tk PF1 st.gss [] st.gss [] := by
    refine ⟨hs.g, FrameLt.refl _ _, hu.mono (Nat.le_succ F), fun _ _ h => by simp at h, List.Pairwise.nil, ?_,
      fun _ h => by simp at h, ?_⟩
    · intro h hd hh hlv
      have := hu.noAbove h hd hh
      omega
    · intro e ed x he hx hlv
      have := hu.noAbove _ x hx
      omega
  obtain ⟨done, hd, hI⟩ := shifter_fold hT st.shifts [] st.gss g' [] m hI0 (fun _ _ h => by simp at h) hl h1
  refine ⟨m, done, e2.symm, by rw [← e1], by rw [← e1], fun x hx => hd x (Or.inl hx), by rw [← e1]; exact hI⟩

end Rustemo.Glr
