import Rustemo.Model.Front.Doc
/-!
# Generic preservation principle for the desugaring layer of the builder

Everything `desugar_regex` does to the builder state is a sequence of `createUse` calls, each on a
helper name that is absent.  A predicate on `Acc` that is closed under those calls is preserved by
`desugarOp`, `desugar`, `assignStep` and `rhsSteps`.
-/
namespace Rustemo.Front

theorem Outcome.bind_eq_ok {α β ε : Type} {x : Outcome α ε} {f : α → Outcome β ε} {b : β} :
    x.bind f = .ok b ↔ ∃ a, x = .ok a ∧ f a = .ok b := by
  cases x with
  | ok a => simp [Outcome.bind]
  | err e => simp [Outcome.bind]
  | panic s => simp [Outcome.bind]

theorem Outcome.bind_ne_panic {α β ε : Type} {x : Outcome α ε} {f : α → Outcome β ε}
    (hx : ∀ s, x ≠ .panic s) (hf : ∀ a, x = .ok a → ∀ s, f a ≠ .panic s) : ∀ s, x.bind f ≠ .panic s := by
  cases x with
  | ok a => exact hf a rfl
  | err e => intro s h; cases h
  | panic s => exact absurd rfl (hx s)

/-- `P` survives the creation of the helper of `u` whenever that helper is absent -/
def Closed (fx : Fixes) (P : Acc → Prop) (u : Use) : Prop :=
  ∀ s, P s → hasNt s.1.nts (u.helper fx) = false → P (createUse fx u s)

theorem clashCheck_ok {cx : Ctx} {n : Name} {x : Unit} (_h : clashCheck cx n = .ok x) : True := trivial

theorem ensureUse_eq {cx : Ctx} {u : Use} {s s' : Acc} (h : ensureUse cx u s = .ok s') :
    s' = if hasNt s.1.nts (u.helper cx.fx) then s else createUse cx.fx u s := by
  unfold ensureUse at h
  obtain ⟨_, _, h2⟩ := Outcome.bind_eq_ok.mp h
  cases h2
  rfl

theorem ensureUse_pres {cx : Ctx} {u : Use} {s s' : Acc} {P : Acc → Prop}
    (hc : Closed cx.fx P u) (hs : P s) (h : ensureUse cx u s = .ok s') : P s' := by
  rw [ensureUse_eq h]
  by_cases hn : hasNt s.1.nts (u.helper cx.fx) = true
  · simpa [hn] using hs
  · have hn' : hasNt s.1.nts (u.helper cx.fx) = false := by simpa using hn
    simpa [hn'] using hc s hs hn'

theorem ensureUses_pres {cx : Ctx} {P : Acc → Prop} :
    ∀ {us : List Use} {s s' : Acc}, (∀ u, u ∈ us → Closed cx.fx P u) → P s →
      ensureUses cx us s = .ok s' → P s'
  | [], s, s', _, hs, h => by
    cases h
    exact hs
  | u :: us, s, s', hc, hs, h => by
    unfold ensureUses at h
    obtain ⟨s1, h1, h2⟩ := Outcome.bind_eq_ok.mp h
    exact ensureUses_pres (fun v hv => hc v (by simp [hv]))
      (ensureUse_pres (hc u (by simp)) hs h1) h2

theorem desugarOp_pres {cx : Ctx} {P : Acc → Prop} {op : RepOp} {x : Name} {sep : Option Name}
    {s : Acc} {r : Name × Acc}
    (hc : ∀ u, u ∈ opUses x sep op → Closed cx.fx P u) (hs : P s)
    (h : desugarOp cx op x sep s = .ok r) : P r.2 := by
  unfold desugarOp at h
  cases op with
  | zeroOrMore | oneOrMore | optional =>
    obtain ⟨s1, h1, h2⟩ := Outcome.bind_eq_ok.mp h
    cases h2
    exact ensureUses_pres hc hs h1
  | zeroOrMoreGreedy | oneOrMoreGreedy | optionalGreedy =>
    simp only at h
    split at h <;> cases h

theorem desugarOp_name {cx : Ctx} {op : RepOp} {x : Name} {sep : Option Name} {s : Acc} {r : Name × Acc}
    (h : desugarOp cx op x sep s = .ok r) : r.1 = opName cx.fx x sep op ∧ op.greedy = false := by
  unfold desugarOp at h
  cases op with
  | zeroOrMore | oneOrMore | optional =>
    obtain ⟨s1, _, h2⟩ := Outcome.bind_eq_ok.mp h
    cases h2
    exact ⟨rfl, rfl⟩
  | zeroOrMoreGreedy | oneOrMoreGreedy | optionalGreedy =>
    simp only at h
    split at h <;> cases h

theorem modifierOf_sep {fx : Fixes} {r : SymRef} {o : RepOper} {sep : Option Name}
    (hr : r.rep = some o) (h : modifierOf fx o.mods = .ok sep) : r.sep = sep := by
  unfold SymRef.sep
  rw [hr]
  unfold modifierOf at h
  split at h
  · cases h; simp [*]
  · split at h
    · cases h
    · cases h; simp [*]
  · split at h <;> cases h

theorem refType_base {cx : Ctx} {r : SymRef} {x : Name} (h : refType cx r.gsym = .ok x) :
    r.baseName cx.matchesMap = some x := by
  unfold SymRef.baseName
  unfold refType at h
  split at h
  · split at h <;> cases h
  · cases h; simp [*]
  · rename_i s hs
    split at h
    · rename_i tn i hg
      cases h
      simp [hs, hg]
    · cases h

/-- what a successful `desugar` of a sugared reference did -/
theorem desugar_some {cx : Ctx} {r : SymRef} {o : RepOper} {s : Acc} {res : Option GSym × Acc}
    (hr : r.rep = some o) (h : desugar cx r s = .ok res) :
    ∃ x, r.baseName cx.matchesMap = some x ∧
      desugarOp cx o.op x r.sep s = .ok (opName cx.fx x r.sep o.op, res.2) ∧
      res.1 = some (.name (opName cx.fx x r.sep o.op)) := by
  unfold desugar at h
  rw [hr] at h
  simp only at h
  obtain ⟨sep, h1, h⟩ := Outcome.bind_eq_ok.mp h
  obtain ⟨x, h2, h⟩ := Outcome.bind_eq_ok.mp h
  obtain ⟨rr, h3, h⟩ := Outcome.bind_eq_ok.mp h
  cases h
  have hsep := modifierOf_sep hr h1
  subst hsep
  have hn := (desugarOp_name h3).1
  refine ⟨x, refType_base h2, ?_, ?_⟩
  · rw [h3, ← hn]
  · simp [hn]

theorem desugar_none {cx : Ctx} {r : SymRef} {s : Acc} {res : Option GSym × Acc}
    (hr : r.rep = none) (h : desugar cx r s = .ok res) : res = (r.gsym, s) := by
  unfold desugar at h
  rw [hr] at h
  cases h
  rfl

theorem desugar_pres {cx : Ctx} {P : Acc → Prop} {r : SymRef} {s : Acc} {res : Option GSym × Acc}
    (hc : ∀ u, u ∈ r.uses cx.matchesMap → Closed cx.fx P u) (hs : P s)
    (h : desugar cx r s = .ok res) : P res.2 := by
  cases hr : r.rep with
  | none =>
    rw [desugar_none hr h]
    exact hs
  | some o =>
    obtain ⟨x, hb, hd, _⟩ := desugar_some hr h
    have hu : r.uses cx.matchesMap = opUses x r.sep o.op := by
      unfold SymRef.uses
      rw [hr, hb]
    rw [hu] at hc
    exact desugarOp_pres hc hs hd

theorem assignStep_state {cx : Ctx} {a : Assign} {s : Acc} {res : RAssign × Acc}
    (h : assignStep cx a s = .ok res) :
    ∃ d, desugar cx a.symRef s = .ok d ∧ res.2 = d.2 ∧ d.1 = some res.1.sym ∧
      res.1.name = a.aname ∧ res.1.isBool = a.isBool ∧ res.1.index = none := by
  unfold assignStep at h
  simp only at h
  split at h
  · cases h
  · split at h
    · cases h
    · obtain ⟨_, _, h⟩ := Outcome.bind_eq_ok.mp h
      obtain ⟨d, hd, h⟩ := Outcome.bind_eq_ok.mp h
      obtain ⟨g, hg, h⟩ := Outcome.bind_eq_ok.mp h
      cases h
      refine ⟨d, hd, rfl, ?_, rfl, rfl, rfl⟩
      unfold unwrapGsym at hg
      split at hg
      · cases hg; simp [*]
      · split at hg <;> cases hg

theorem assignStep_pres {cx : Ctx} {P : Acc → Prop} {a : Assign} {s : Acc} {res : RAssign × Acc}
    (hc : ∀ u, u ∈ a.symRef.uses cx.matchesMap → Closed cx.fx P u) (hs : P s)
    (h : assignStep cx a s = .ok res) : P res.2 := by
  obtain ⟨d, hd, e, _⟩ := assignStep_state h
  rw [e]
  exact desugar_pres hc hs hd

theorem rhsSteps_pres {cx : Ctx} {P : Acc → Prop} :
    ∀ {as : List Assign} {s : Acc} {res : List RAssign × Acc},
      (∀ a, a ∈ as → ∀ u, u ∈ a.symRef.uses cx.matchesMap → Closed cx.fx P u) → P s →
      rhsSteps cx as s = .ok res → P res.2
  | [], s, res, _, hs, h => by
    cases h
    exact hs
  | a :: as, s, res, hc, hs, h => by
    unfold rhsSteps at h
    obtain ⟨r1, h1, h⟩ := Outcome.bind_eq_ok.mp h
    obtain ⟨r2, h2, h⟩ := Outcome.bind_eq_ok.mp h
    cases h
    exact rhsSteps_pres (as := as) (res := r2) (fun b hb => hc b (by simp [hb]))
      (assignStep_pres (hc a (by simp)) hs h1) h2

/-- the two ways a rule is processed, after its name passed `ruleCheck` -/
theorem ruleStep_ok {cx : Ctx} {rule : Rule} {st st' : XSt} (h : ruleStep cx rule st = .ok st') :
    (∃ nt, findNt st.nts rule.name = some nt ∧ altSteps cx rule nt.idx 0 rule.alts st = .ok st') ∨
    (findNt st.nts rule.name = none ∧
      altSteps cx rule st.nextNt 0 rule.alts { st with nextNt := st.nextNt + 1 } = .ok st') := by
  unfold ruleStep at h
  obtain ⟨_, _, h⟩ := Outcome.bind_eq_ok.mp h
  split at h
  · rename_i nt hf
    exact Or.inl ⟨nt, hf, h⟩
  · rename_i hf
    exact Or.inr ⟨hf, h⟩

theorem ruleStep_checked {cx : Ctx} {rule : Rule} {st st' : XSt} (h : ruleStep cx rule st = .ok st') :
    ruleCheck cx rule = .ok () := by
  unfold ruleStep at h
  obtain ⟨u, hu, _⟩ := Outcome.bind_eq_ok.mp h
  exact hu

end Rustemo.Front
