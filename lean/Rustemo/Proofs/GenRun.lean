import Rustemo.Model.LR
import Rustemo.Proofs.GenFunctions
import Rustemo.Proofs.GenEnums
/-!
# C08 — equal answers to every query ⇒ equal parser runs

The LR runtime model (`Model/LR.lean`) consults the table only through `cell`, `goto`, `sorted`
and `layoutState` (`ParserDefinition::{actions, goto, expected_token_kinds}`,
`State::default_layout`).  Two tables that agree on these produce the same run on every input.
-/
namespace Rustemo
namespace Gen

/-- `t2` answers every query of the runtime as `t1` does -/
structure QueryEq (g : Grammar) (t1 t2 : Table) : Prop where
  cell : ∀ s a, t2.cell s a = t1.cell s a
  goto : ∀ s A, t2.goto g s A = t1.goto g s A
  sorted : ∀ s, t2.sorted s = t1.sorted s
  layout : t2.layoutState = t1.layoutState

section congr
variable (env : Env) (t2 : Table)

theorem tokenIterAux_congr (pos : Pos) :
    ∀ (l : List (Nat × Bool)) (m : Bool),
      tokenIterAux { env with t := t2 } pos m l = tokenIterAux env pos m l
  | [], _ => by simp only [tokenIterAux]
  | (k, fin) :: rest, m => by
    simp only [tokenIterAux, tokenIterAux_congr pos rest]

theorem tokenIter_congr (pos : Pos) (l : List (Nat × Bool)) :
    tokenIter { env with t := t2 } pos l = tokenIter env pos l := by
  simp only [tokenIter, tokenIterAux_congr]

theorem lexNext_congr (ctx : Ctx) (exp : List (Nat × Bool)) :
    lexNext { env with t := t2 } ctx exp = lexNext env ctx exp := by
  simp only [lexNext, tokenIter_congr]
  rfl

variable (h : QueryEq env.g env.t t2)
include h

theorem noToken_congr (pp : Bool) (ctx : Ctx) :
    noToken { env with t := t2 } pp ctx = noToken env pp ctx := by
  simp only [noToken, h.sorted]

theorem nextTokenBase_congr (pp : Bool) (ctx : Ctx) :
    nextTokenBase { env with t := t2 } pp ctx = nextTokenBase env pp ctx := by
  simp only [nextTokenBase, lexNext_congr, noToken_congr env t2 h, h.sorted]

theorem step_congr (nt : Ctx → Ctx × Outcome Tok) (c : Cfg) :
    step { env with t := t2 } nt c = step env nt c := by
  simp only [step, h.cell, h.goto]

theorem runLoop_congr (nt : Ctx → Ctx × Outcome Tok) :
    ∀ (fuel : Nat) (c : Cfg), runLoop { env with t := t2 } nt fuel c = runLoop env nt fuel c
  | 0, _ => rfl
  | fuel + 1, c => by
    simp only [runLoop, step_congr env t2 h, runLoop_congr nt fuel]

theorem parseWith_congr (nt : Ctx → Ctx × Outcome Tok) (start : Nat) (ctx : Ctx) (fuel : Nat) :
    parseWith { env with t := t2 } nt start ctx fuel = parseWith env nt start ctx fuel := by
  simp only [parseWith, runLoop_congr env t2 h]

theorem layoutParse_congr (ls : Nat) (ctx : Ctx) (fuel : Nat) :
    layoutParse { env with t := t2 } ls ctx fuel = layoutParse env ls ctx fuel := by
  have : nextTokenBase { env with t := t2 } true = nextTokenBase env true :=
    funext (nextTokenBase_congr env t2 h true)
  simp only [layoutParse, this, parseWith_congr env t2 h]

theorem nextTokenMain_congr (pp : Bool) (fuel : Nat) (ctx : Ctx) :
    nextTokenMain { env with t := t2 } pp fuel ctx = nextTokenMain env pp fuel ctx := by
  simp only [nextTokenMain, lexNext_congr, h.sorted, h.layout, noToken_congr env t2 h,
    nextTokenBase_congr env t2 h, layoutParse_congr env t2 h]

/-- a parser run depends on the table only through the answers to the queries -/
theorem parse_congr (pp : Bool) (fuel : Nat) :
    parse { env with t := t2 } pp fuel = parse env pp fuel := by
  have : nextTokenMain { env with t := t2 } pp fuel = nextTokenMain env pp fuel :=
    funext (nextTokenMain_congr env t2 h pp fuel)
  simp only [parse, this, parseWith_congr env t2 h]

end congr

/-! ## the table a generated parser definition denotes -/

/-- the `ProdKind` value `k` back to the production it was generated for -/
def decode (g : Grammar) : CAct → Option Action
  | .shift s => some (.shift s)
  | .reduce k l => ((userProds g)[k]?).map (fun p => Action.reduce p l)
  | .accept => some .accept
  | .error => none

def okOr {α : Type} (d : α) : Res α → α
  | .ok a => a
  | _ => d

def okOpt {α : Type} : Res α → Option α
  | .ok a => some a
  | _ => none

/-- a table assembled from answers to all queries -/
def tableOf (ns na nn : Nat) (act : Nat → Nat → List Action) (goto : Nat → Nat → Option Nat)
    (exp : Nat → List (Nat × Bool)) (layout : Option Nat) : Table :=
  { states := ((List.range ns).map (fun s =>
      ({ symbol := 0, items := [],
         actions := ((List.range na).map (act s)).toArray,
         gotos := ((List.range nn).map (goto s)).toArray,
         sorted := exp s } : State))).toArray
    layoutState := layout }

theorem tableOf_cell (ns na nn : Nat) (act goto exp layout) (s a : Nat) :
    (tableOf ns na nn act goto exp layout).cell s a = if s < ns ∧ a < na then act s a else [] := by
  unfold tableOf Table.cell
  by_cases hs : s < ns
  · by_cases ha : a < na
    · simp [hs, ha, Array.getD_eq_getD_getElem?]
    · simp [hs, ha, Array.getD_eq_getD_getElem?]
  · simp [hs]

theorem tableOf_gotoNt (ns na nn : Nat) (act goto exp layout) (s n : Nat) :
    (tableOf ns na nn act goto exp layout).gotoNt s n = if s < ns ∧ n < nn then goto s n else none := by
  unfold tableOf Table.gotoNt
  by_cases hs : s < ns
  · by_cases hn : n < nn
    · simp [hs, hn, Array.getD_eq_getD_getElem?]
    · simp [hs, hn, Array.getD_eq_getD_getElem?]
  · simp [hs]

theorem tableOf_sorted (ns na nn : Nat) (act goto exp layout) (s : Nat) :
    (tableOf ns na nn act goto exp layout).sorted s = if s < ns then exp s else [] := by
  unfold tableOf Table.sorted
  by_cases hs : s < ns
  · simp [hs]
  · simp [hs]

/-- the table denoted by the Arrays code -/
def arraysTable (g : Grammar) (t : Table) : Table :=
  let c := arraysCore g t
  let e := enums g t
  tableOf c.stateCount c.terminalCount c.nonterminalCount
    (fun s a => (okOr [] (c.actionsQ e s a)).filterMap (decode g))
    (fun s n => okOpt (c.gotoQ e s n))
    (fun s => okOr [] (c.expectedQ e s))
    (okOr none e.layoutQ)

/-- the table denoted by the Functions code -/
def functionsTable (g : Grammar) (t : Table) : Table :=
  let c := functionsCore g t
  let e := enums g t
  tableOf c.stateCount c.terminalCount (enums g t).nonterms.length
    (fun s a => (okOr [] (c.actionsQ e s a)).filterMap (decode g))
    (fun s n => okOpt (c.gotoQ e s n))
    (fun s => okOr [] (c.expectedQ e s))
    (okOr none e.layoutQ)

theorem decode_encode {g : Grammar} {t : Table} {a : Action} (ha : actOk g t a = true) :
    decode g (encode g a) = some a := by
  cases a with
  | shift s => rfl
  | reduce p l =>
    simp only [actOk, Bool.and_eq_true, Bool.not_eq_true'] at ha
    have hp : p ∈ userProds g := mem_userProds.mpr ⟨prodOk_lt ha.1, ha.2⟩
    simp [encode, decode, userProds_getElem?_kindIdx hp]
  | accept => rfl

theorem filterMap_decode_encode {g : Grammar} {t : Table} :
    ∀ (cell : List Action), (∀ a ∈ cell, actOk g t a = true) →
      (cell.map (encode g)).filterMap (decode g) = cell
  | [], _ => rfl
  | a :: rest, H => by
    have ha := decode_encode (H a (by simp))
    have hr := filterMap_decode_encode rest (fun b hb => H b (by simp [hb]))
    simp [ha, hr]

theorem okOpt_gotoSpec {t : Table} {s n : Nat} {r : Res Nat} (h : gotoSpec t s n r) :
    okOpt r = t.gotoNt s n := by
  unfold gotoSpec at h
  cases hg : t.gotoNt s n with
  | none =>
    rw [hg] at h
    cases r <;> simp_all [okOpt, Res.isPanic]
  | some s' =>
    rw [hg] at h
    simp only at h
    subst h
    rfl

theorem cell_out_of_range {g : Grammar} {t : Table} (w : WFP g t) {s a : Nat}
    (h : ¬ (s < t.states.size ∧ a < g.nterms)) : t.cell s a = [] := by
  unfold Table.cell
  cases hst : t.states[s]? with
  | none => rfl
  | some st =>
    have hs : s < t.states.size := (Array.getElem?_eq_some_iff.mp hst).1
    have ha : ¬ a < g.nterms := fun ha => h ⟨hs, ha⟩
    have ok := w.state hst
    have : ¬ a < st.actions.size := by rw [ok.aw]; exact ha
    simp [Array.getD_eq_getD_getElem?, Array.getElem?_eq_none (Nat.le_of_not_lt this)]

theorem gotoNt_out_of_range {g : Grammar} {t : Table} (w : WFP g t) {s n : Nat}
    (h : ¬ (s < t.states.size ∧ n < g.nnonterms)) : t.gotoNt s n = none := by
  unfold Table.gotoNt
  cases hst : t.states[s]? with
  | none => rfl
  | some st =>
    have hs : s < t.states.size := (Array.getElem?_eq_some_iff.mp hst).1
    have hn : ¬ n < g.nnonterms := fun hn => h ⟨hs, hn⟩
    have ok := w.state hst
    have : ¬ n < st.gotos.size := by rw [ok.gw]; exact hn
    simp [Array.getD_eq_getD_getElem?, Array.getElem?_eq_none (Nat.le_of_not_lt this)]

theorem sorted_out_of_range {t : Table} {s : Nat} (h : ¬ s < t.states.size) : t.sorted s = [] := by
  unfold Table.sorted
  rw [Array.getElem?_eq_none (Nat.le_of_not_lt h)]

theorem cell_actOk {g : Grammar} {t : Table} (w : WFP g t) {s a : Nat}
    (hs : s < t.states.size) (ha : a < g.nterms) : ∀ x ∈ t.cell s a, actOk g t x = true := by
  have hst : t.states[s]? = some t.states[s] := Array.getElem?_eq_getElem hs
  have ok := w.state hst
  have ha' : a < (t.states[s]).actions.size := by rw [ok.aw]; exact ha
  rw [cell_eq hst ha']
  exact ok.acts _ (by simp [Array.mem_toList_iff])

theorem goto_of_gotoNt {g : Grammar} {t1 t2 : Table} (h : ∀ s n, t2.gotoNt s n = t1.gotoNt s n) :
    ∀ s A, t2.goto g s A = t1.goto g s A := by
  intro s A
  simp only [Table.goto, h]

theorem arraysTable_cell (g : Grammar) (t : Table) (s a : Nat) :
    (arraysTable g t).cell s a = if s < t.states.size ∧ a < g.nterms then
      (okOr [] ((arraysCore g t).actionsQ (enums g t) s a)).filterMap (decode g) else [] :=
  tableOf_cell _ _ _ _ _ _ _ s a

theorem arraysTable_gotoNt (g : Grammar) (t : Table) (s n : Nat) :
    (arraysTable g t).gotoNt s n = if s < t.states.size ∧ n < g.nnonterms then
      okOpt ((arraysCore g t).gotoQ (enums g t) s n) else none :=
  tableOf_gotoNt _ _ _ _ _ _ _ s n

theorem arraysTable_sorted (g : Grammar) (t : Table) (s : Nat) :
    (arraysTable g t).sorted s = if s < t.states.size then
      okOr [] ((arraysCore g t).expectedQ (enums g t) s) else [] :=
  tableOf_sorted _ _ _ _ _ _ _ s

theorem arraysTable_queryEq {g : Grammar} {t : Table} (w : WFP g t) :
    QueryEq g t (arraysTable g t) := by
  refine ⟨?_, goto_of_gotoNt ?_, ?_, ?_⟩
  · intro s a
    rw [arraysTable_cell]
    split
    · next h =>
      rw [arrays_actions w h.1 h.2]
      exact filterMap_decode_encode _ (cell_actOk w h.1 h.2)
    · next h => exact (cell_out_of_range w h).symm
  · intro s n
    rw [arraysTable_gotoNt]
    split
    · next h => exact okOpt_gotoSpec (arrays_goto w h.1 h.2)
    · next h => exact (gotoNt_out_of_range w h).symm
  · intro s
    rw [arraysTable_sorted]
    split
    · next h => rw [arrays_expected w h]; rfl
    · next h => exact (sorted_out_of_range h).symm
  · show okOr none (enums g t).layoutQ = t.layoutState
    rw [layout_faithful w]; rfl

theorem functionsTable_cell (g : Grammar) (t : Table) (s a : Nat) :
    (functionsTable g t).cell s a = if s < t.states.size ∧ a < g.nterms then
      (okOr [] ((functionsCore g t).actionsQ (enums g t) s a)).filterMap (decode g) else [] :=
  tableOf_cell _ _ _ _ _ _ _ s a

theorem functionsTable_gotoNt (g : Grammar) (t : Table) (s n : Nat) :
    (functionsTable g t).gotoNt s n = if s < t.states.size ∧ n < (enums g t).nonterms.length then
      okOpt ((functionsCore g t).gotoQ (enums g t) s n) else none :=
  tableOf_gotoNt _ _ _ _ _ _ _ s n

theorem functionsTable_sorted (g : Grammar) (t : Table) (s : Nat) :
    (functionsTable g t).sorted s = if s < t.states.size then
      okOr [] ((functionsCore g t).expectedQ (enums g t) s) else [] :=
  tableOf_sorted _ _ _ _ _ _ _ s

theorem functionsTable_queryEq {g : Grammar} {t : Table} (w : WFP g t) :
    QueryEq g t (functionsTable g t) := by
  have hlen := (enum_lengths w).2.2.1
  refine ⟨?_, goto_of_gotoNt ?_, ?_, ?_⟩
  · intro s a
    rw [functionsTable_cell]
    split
    · next h =>
      rw [functions_actions w h.1 h.2]
      exact filterMap_decode_encode _ (cell_actOk w h.1 h.2)
    · next h => exact (cell_out_of_range w h).symm
  · intro s n
    rw [functionsTable_gotoNt, hlen]
    split
    · next h => exact okOpt_gotoSpec (functions_goto w h.1 h.2)
    · next h => exact (gotoNt_out_of_range w h).symm
  · intro s
    rw [functionsTable_sorted]
    split
    · next h => rw [functions_expected w h]; rfl
    · next h => exact (sorted_out_of_range h).symm
  · show okOr none (enums g t).layoutQ = t.layoutState
    rw [layout_faithful w]; rfl

end Gen
end Rustemo
