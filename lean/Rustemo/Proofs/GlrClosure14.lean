import Rustemo.Proofs.GlrClosure13
/-!
# The new-solution case of `reducePath` and the closure invariant
-/
namespace Rustemo.Glr
open Rustemo

theorem closure_new {env : Env} (hT : TableOk env) (hC : CompleteRN env.g env.t) {F a : Nat}
    {rs : RState} (hI : RInv env F rs) (hU : UInv F a rs.gss rs.sub)
    {p0 len0 : Nat} {pr0 : Prod} {startHead : Nat} {sh : Head} {tk : Tok} {q : Path}
    (pc : PathCtx env F a rs p0 len0 pr0 startHead sh tk q) {rest : List Path}
    (hinv : RCInvR env F a rs (Rem p0 len0 (q :: rest)))
    {hr : Head} (hhr : rs.gss.heads[q.root]? = some hr) {s' : Nat}
    (hgoto : env.t.goto env.g hr.state pr0.lhs = some s')
    {g1 : Gss} {sub1 : SubFrontier} {hA : Nat} {hc : Bool}
    (hf : findOrCreateHead rs.gss rs.sub sh s' = .ok (g1, sub1, hA, hc))
    {ed : Edge} (hed : (findOrCreateEdge g1 hA q.root).1.edges[(findOrCreateEdge g1 hA q.root).2.1]? = some ed)
    (span : Span) {rs' : RState}
    (hrs0 : rs' = rpNew env rs p0 q hr s' tk.kind g1 sub1 hA hc span)
    (hI' : RInv env F rs') :
    UInv F a rs'.gss rs'.sub ∧ RCInvR env F a rs' (Rem p0 len0 rest) := by
  -- stages
  have hgss' : rs'.gss = ((findOrCreateEdge g1 hA q.root).1.addNode (.nonterm p0 span hr.lay q.parents)).1.pushPoss
      (findOrCreateEdge g1 hA q.root).2.1 (findOrCreateEdge g1 hA q.root).1.nodes.size := by rw [hrs0]; rfl
  have hsub' : rs'.sub = sub1 := by rw [hrs0]; rfl
  have hqueue' : rs'.queue = (registerActions hA (findOrCreateEdge g1 hA q.root).2.1 hc (findOrCreateEdge g1 hA q.root).2.2
      (env.t.cell s' tk.kind) (rs.queue, rs.shifts, rs.accepted)).1 := by rw [hrs0]; rfl
  clear hrs0
  obtain ⟨gr1, he1, hn1, hold1, hnew1⟩ := grow_head hf q.root
  generalize hrs1 : ({ rs with gss := g1, sub := sub1 } : RState) = rs1 at gr1
  have hg1 : rs1.gss = g1 := by rw [← hrs1]
  have hsub1 : rs1.sub = sub1 := by rw [← hrs1]
  have hq1 : rs1.queue = rs.queue := by rw [← hrs1]
  obtain ⟨gr2, hh2, hn2, hold2, hnew2⟩ := grow_edge rs1 hA q.root
  rw [hg1] at gr2 hh2 hn2 hold2 hnew2
  generalize hE : findOrCreateEdge g1 hA q.root = E at hed hgss' hqueue' gr2 hh2 hn2 hold2 hnew2
  obtain ⟨g2, e, ec⟩ := E
  simp only at hed hgss' hqueue' gr2 hh2 hn2 hold2 hnew2
  generalize hrs2 : ({ rs1 with gss := g2 } : RState) = rs2 at gr2
  have hg2 : rs2.gss = g2 := by rw [← hrs2]
  have hsub2 : rs2.sub = sub1 := by rw [← hrs2, hsub1]
  have hq2 : rs2.queue = rs.queue := by rw [← hrs2, hq1]
  have gr3 := grow_push rs2 rs' e ed (by rw [hg2]; exact hed) (.nonterm p0 span hr.lay q.parents) hA q.root
    (by rw [hg2]; exact hgss') (by rw [hsub2]; exact hsub')
    (by rw [hq2, hqueue']; exact registerActions_queue_mono hA e hc ec (env.t.cell s' tk.kind) (rs.queue, rs.shifts, rs.accepted))
  have hgrow : Grow rs rs' (if hc then some hA else none) (if ec then some e else none) hA q.root :=
    (gr1.trans gr2 (Or.inl ⟨rfl, rfl⟩) (Or.inr ⟨rfl, rfl⟩)).trans gr3 (Or.inl ⟨rfl, rfl⟩) (Or.inl ⟨rfl, rfl⟩)
  -- facts about the pieces
  have hsrcs : ∀ (e' : Nat) (ed' : Edge), rs.gss.edges[e']? = some ed' →
      ed'.src < rs.gss.heads.size ∧ ed'.dst < rs.gss.heads.size := by
    intro e' ed' he'
    obtain ⟨hs, hd, hhs, hhd, _⟩ := (hI.g.edges e' ed' he').ends
    exact ⟨lt_of_getElem?_some hhs, lt_of_getElem?_some hhd⟩
  -- stage invariants
  have hU1 : UInv F a g1 sub1 := by
    cases hc with
    | false => obtain ⟨k1, k2, _⟩ := hold1 rfl; rw [k1, k2]; exact hU
    | true =>
      obtain ⟨k1, k2, k3, k4⟩ := hnew1 rfl
      rw [k3, k4]
      exact hU.addHead hI.sub _ s' k1 pc.hshF pc.htk pc.hka hsrcs
  have hrootsub : hr.frontier = F → InSub sub1 q.root := by
    intro hF
    obtain ⟨s, hm⟩ := chain_root_inSub hI.g hU pc.hqc pc.hshsub hhr hF
    rw [← hsub1]
    exact ⟨s, gr1.sub_old _ hm⟩
  have hget1 : sfGet s' sub1 = some hA := by
    cases hc with
    | false => obtain ⟨_, k2, k3⟩ := hold1 rfl; rw [k2]; exact k3
    | true =>
      obtain ⟨_, k2, _, k4⟩ := hnew1 rfl
      rw [k4, k2]
      exact sfGet_of_mem (by rw [← k4]; exact hU1.subFun) (mem_sfInsert_self _ _ _)
  have hU' : UInv F a rs'.gss rs'.sub := by
    have hU2 : UInv F a g2 sub1 := by
      cases ec with
      | false => obtain ⟨k1, _⟩ := hold2 rfl; rw [k1]; exact hU1
      | true =>
        obtain ⟨k1, _, k3⟩ := hnew2 rfl
        rw [k3]
        obtain ⟨ha1, hha1, _, hhaF1, _⟩ := (hsub' ▸ hI'.sub) _ _ (sfGet_mem hget1)
        -- heads of g1
        have hha1' : g1.heads[hA]? = some ha1 := by
          have : rs'.gss.heads = g1.heads := by rw [hgss']; simp [hh2]
          rw [← this]; exact hha1
        have hhr1 : g1.heads[q.root]? = some hr := by
          have := gr1.heads_old _ _ hhr
          rw [hg1] at this; exact this
        exact hU1.addEdge hha1' hhr1 hhaF1 ⟨s', sfGet_mem hget1⟩ k1 hrootsub
    rw [hsub']
    apply hU2.of_same
    · rw [hgss']; simp
    · intro e' ed' he'
      rw [hgss'] at he'
      rw [pushPoss_edges _ e _ ed (by simpa using hed)] at he'
      split at he'
      · rename_i heq; subst heq
        injection he' with he'; subst he'
        exact ⟨ed, hed, rfl, rfl⟩
      · exact ⟨ed', by simpa using he', rfl, rfl⟩
  refine ⟨hU', ?_⟩
  -- the head `hA` and the edge `e` in the final graph
  obtain ⟨ha, hha, hhas, hhaF, _⟩ := hI'.sub _ _ (sfGet_mem (hsub' ▸ hget1))
  have hedge : ed.src = hA ∧ ed.dst = q.root := by
    cases ec with
    | false =>
      obtain ⟨k1, k2⟩ := hold2 rfl
      obtain ⟨ed0, k3, k4, k5⟩ := edgeBetween_some k2
      rw [k1] at hed; rw [hed] at k3; injection k3 with k3; subst k3
      exact ⟨k4, k5⟩
    | true =>
      obtain ⟨_, k2, k3⟩ := hnew2 rfl
      rw [k3, k2, addEdge_edges, if_pos rfl] at hed
      injection hed with hed; subst hed
      exact ⟨rfl, rfl⟩
  have hed' : rs'.gss.edges[e]? = some { ed with poss := ed.poss ++ [g2.nodes.size] } := by
    rw [hgss']
    rw [pushPoss_edges _ e _ ed (by simpa using hed)]; simp
  have hnd' : rs'.gss.nodes[g2.nodes.size]? = some (.nonterm p0 span hr.lay q.parents) := by
    rw [hgss']; simp
  have hnodes : ∀ (n : Nat) (nd : SNode), rs.gss.nodes[n]? = some nd → rs'.gss.nodes[n]? = some nd := by
    intro n nd h
    rw [hgss']; simp only [pushPoss_nodes]
    apply addNode_old
    rw [hn2, hn1]; exact h
  have hqc' : ChainEnd env.t rs'.gss q.parents (pr0.rhs.take q.parents.length) q.root startHead := by
    rw [pc.hql]; exact hgrow.chain_fwd pc.hqc
  have hsh' : rs'.gss.heads[startHead]? = some sh := hgrow.heads_old _ _ pc.hsh
  intro u p pr P s'' hk
  by_cases hcase1 : ∃ e' ∈ P, (if ec then some e else none) = some e'
  · -- the chain runs over the new edge: the reduction of its prefix up to that edge was just registered
    right; left
    obtain ⟨e', he'P, hnew⟩ := hcase1
    have hec : ec = true := by cases ec <;> simp at hnew ⊢
    subst hec
    simp only [↓reduceIte, Option.some.injEq] at hnew
    subst hnew
    obtain ⟨i, hi, hget⟩ := List.getElem_of_mem he'P
    have hgi : P[i]? = some e := by rw [List.getElem?_eq_getElem hi, hget]
    -- the prefix up to and including the new edge ends at `hA`
    obtain ⟨v, hcP, _⟩ := hk.chain
    obtain ⟨w, hcw, _⟩ := ChainEnd.split (i+1) hcP
    have htake : P.take (i+1) = P.take i ++ [e] := by
      rw [List.take_add_one]; simp [hgi]
    have hw : w = hA := by
      rw [htake] at hcw
      obtain ⟨_, ed'', _, hed'', hsrc'', _⟩ := ChainEnd.last hcw
      rw [hed'] at hed''; injection hed'' with hed''; subst hed''
      simp only at hsrc''
      rw [← hsrc'', hedge.1]
    rw [hw] at hcw
    have hlen1 : (P.take (i+1)).length = i + 1 := by simp; omega
    obtain ⟨hu', hhu', hitem, _⟩ := hk.root
    have hitem' := chain_items hC hI'.g hk.prod (a := a) 0 hcw
      (by simp only [List.drop_zero, hlen1, List.take_take]; congr 1; omega) hhu' hha hitem
    rw [hlen1, Nat.zero_add, hhas] at hitem'
    have hnul := hk.nullOk (i+1) (by omega) hA ha (by
      have : (pr.rhs.take P.length).take (i+1) = pr.rhs.take (i+1) := by
        rw [List.take_take]; congr 1; omega
      rw [← this]; exact hcw) hha hhaF
    have hred := hC.reduceRN _ p (i+1) a pr hk.prod hitem' hk.notAug hnul
    obtain ⟨r, hr1, hr2, hr3, hr4⟩ := registerActions_mem hA e hc true (env.t.cell s' tk.kind)
      (rs.queue, rs.shifts, rs.accepted) (by rw [pc.hka]; exact hred) (Or.inl ⟨rfl, by omega⟩)
    refine ⟨r, by rw [hqueue']; exact hr1, hr2, by omega, ?_⟩
    rw [hr4]
    simp only [show i + 1 > 0 by omega, ↓reduceIte]
    exact ⟨by omega, by rw [hr3]; simpa using hgi⟩
  · by_cases hcase2 : (if hc then some hA else none) = some u
    · -- the root is the new head: only the empty chain, its empty reduction was just registered
      right; left
      have hhc : hc = true := by cases hc <;> simp at hcase2 ⊢
      subst hhc
      simp only [↓reduceIte, Option.some.injEq] at hcase2
      subst hcase2
      have hP : P = [] := by
        obtain ⟨v, hcP, _⟩ := hk.chain
        rcases ChainEnd.root_cases hcP with h | ⟨e', he', ed'', hed'', hdst''⟩
        · exact h
        · exfalso
          rcases hgrow.edges_new e' ed'' hed'' with ⟨ed0, k1, _, k3⟩ | ⟨k1, _, _⟩
          · obtain ⟨_, hd0, _, hhd0, _⟩ := (hI.g.edges e' ed0 k1).ends
            have := hgrow.nh_fresh hA (by simp)
            rw [k3, hdst'', this] at hhd0
            simp at hhd0
          · exact hcase1 ⟨e', he', k1⟩
      subst hP
      obtain ⟨hu', hhu', hitem, _⟩ := hk.root
      rw [hha] at hhu'; injection hhu' with hhu'; subst hhu'
      rw [hhas] at hitem
      have hnul := hk.nullOk 0 (by simp) hA ha ⟨by simp, rfl⟩ hha hhaF
      have hred := hC.reduceRN _ p 0 a pr hk.prod hitem hk.notAug (by simpa using hnul)
      obtain ⟨r, hr1, hr2, hr3, hr4⟩ := registerActions_mem hA e true ec (env.t.cell s' tk.kind)
        (rs.queue, rs.shifts, rs.accepted) (by rw [pc.hka]; exact hred) (Or.inr rfl)
      refine ⟨r, by rw [hqueue']; exact hr1, hr2, by omega, ?_⟩
      rw [hr4]
      simp only [Nat.lt_irrefl, ↓reduceIte, gt_iff_lt]
      exact ⟨hr3, trivial⟩
    · -- an old chain
      have hk0 := hgrow.kchain_back hI.g hk (fun e' he' hx => hcase1 ⟨e', he', hx⟩) hcase2
      rcases hinv u p pr P s'' hk0 with hcov | hpend | hrem
      · exact Or.inl (hgrow.covered_fwd hU' hnodes hcov)
      · exact Or.inr (Or.inl (hgrow.pending_fwd hpend))
      · rcases rem_cons hrem with ⟨hp, hlen, hpar, hroot⟩ | h
        · left
          subst hp; subst hroot
          obtain ⟨hprq, hs⟩ := kchain_goto_eq hk pc.hpr0 (hgrow.heads_old _ _ hhr) hgoto
          subst hprq; subst hs
          exact covered_of_path_node hC hI'.g hU' hI'.sub hqc' hsh' pc.hshF (hsub' ▸ hget1) hed' hedge.1 hedge.2
            (by simp) hnd' (List.prefix_refl _) hk (by rw [pc.hql, ← hpar])
        · exact Or.inr (Or.inr h)

end Rustemo.Glr
