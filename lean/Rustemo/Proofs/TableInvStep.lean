import Rustemo.Proofs.TableInv
/-!
# Table construction: `Inv` is kept by replacing a state by one with more lookaheads / more dot-0 items,
by pushing a fresh state, and by recording a transition
-/
namespace Rustemo.Table

theorem get_upd {sts : Array State} {i j : Nat} {st st' : State} (hi : sts[i]? = some st) :
    (sts.setIfInBounds i st')[j]? = if i = j then some st' else sts[j]? := by
  rw [Array.getElem?_setIfInBounds]
  by_cases h : i = j
  · rw [if_pos h, if_pos h, if_pos (lt_size_of_getElem? hi)]
  · rw [if_neg h, if_neg h]

theorem setItems_eq {sts : Array State} {i : Nat} {st : State} (hi : sts[i]? = some st) (items : List Item) :
    setItems sts i items = sts.setIfInBounds i { st with items := items } := by
  apply Array.ext_getElem?
  intro j
  rw [getElem?_setItems, get_upd hi]
  by_cases h : i = j
  · subst h; simp [hi]
  · simp [h]

/-- replacing a state by one with the same ACTION/GOTO entries, at least the same items with at least the
    same lookaheads, and otherwise only new dot-0 items of non-augmented productions -/
theorem Inv.update {g : Grammar} {autos : List (Nat × Nat)} {sts : Array State} (h : Inv g autos sts)
    {i : Nat} {st st' : State} (hi : sts[i]? = some st) (hok : StOk g st')
    (ha : st'.actions = st.actions) (hgo : st'.gotos = st.gotos)
    (hmono : ∀ it ∈ st.items, ∃ it' ∈ st'.items, core it' = core it ∧ Sub it.la it'.la)
    (hback : ∀ it' ∈ st'.items, (∃ it ∈ st.items, core it = core it') ∨ (it'.dot = 0 ∧ ¬AugProd g it'.prod)) :
    Inv g autos (sts.setIfInBounds i st') := by
  have hcore : ∀ c ∈ st.items.map core, c ∈ st'.items.map core := by
    intro c hc
    obtain ⟨it, h1, h2⟩ := List.mem_map.mp hc
    obtain ⟨it', h3, h4, _⟩ := hmono it h1
    exact List.mem_map.mpr ⟨it', h3, h4.trans h2⟩
  have hdot : ∀ {a b : Item}, core a = core b → a.dot = b.dot ∧ a.prod = b.prod := by
    intro a b hab
    simp only [core, _root_.Prod.mk.injEq] at hab
    exact ⟨hab.2, hab.1⟩
  refine ⟨?_, ?_, ?_, ?_⟩
  · intro j stj hj
    rw [get_upd hi] at hj
    by_cases hij : i = j
    · rw [if_pos hij] at hj; simp only [Option.some.injEq] at hj; subst hj; exact hok
    · rw [if_neg hij] at hj; exact h.st j stj hj
  · intro a ha'
    obtain ⟨sta, h1, h2, it, h3, h4, h5⟩ := h.starts a ha'
    by_cases hia : i = a.1
    · rw [← hia, hi] at h1
      simp only [Option.some.injEq] at h1
      subst h1
      refine ⟨st', by rw [get_upd hi, if_pos hia], ?_, ?_⟩
      · intro it' hit'
        rcases hback it' hit' with ⟨it0, h6, h7⟩ | h6
        · rw [← (hdot h7).1]; exact h2 it0 h6
        · exact h6.1
      · obtain ⟨it', h6, h7, h8⟩ := hmono it h3
        exact ⟨it', h6, h7.trans h4, h8 0 h5⟩
    · exact ⟨sta, by rw [get_upd hi, if_neg hia]; exact h1, h2, it, h3, h4, h5⟩
  · intro j stj hj it' hit' hd hau
    rw [get_upd hi] at hj
    by_cases hij : i = j
    · rw [if_pos hij] at hj; simp only [Option.some.injEq] at hj; subst hj
      rcases hback it' hit' with ⟨it0, h6, h7⟩ | h6
      · have := h.augs i st hi it0 h6 (by rw [(hdot h7).1]; exact hd) (by rw [(hdot h7).2]; exact hau)
        rw [(hdot h7).2, hij] at this
        exact this
      · exact absurd hau h6.2
    · rw [if_neg hij] at hj; exact h.augs j stj hj it' hit' hd hau
  · intro j stj hj X s' ht
    rw [get_upd hi] at hj
    -- the old version of the source state
    have hsrc : ∃ old, sts[j]? = some old ∧ HasTrans g old X s' ∧
        ∀ c ∈ old.items.map core, c ∈ stj.items.map core := by
      by_cases hij : i = j
      · rw [if_pos hij] at hj; simp only [Option.some.injEq] at hj; subst hj
        refine ⟨st, by rw [← hij]; exact hi, ?_, hcore⟩
        unfold HasTrans at ht ⊢
        rw [ha, hgo] at ht
        exact ht
      · rw [if_neg hij] at hj
        exact ⟨stj, hj, ht, fun c hc => hc⟩
    obtain ⟨old, ho1, ho2, ho3⟩ := hsrc
    obtain ⟨t1, t2, t3⟩ := h.trans j old ho1 X s' ho2
    refine ⟨by rw [Array.size_setIfInBounds]; exact t1, t2, ?_⟩
    intro st'' hs'' it hit hd
    rw [get_upd hi] at hs''
    by_cases his : i = s'
    · rw [if_pos his] at hs''; simp only [Option.some.injEq] at hs''; subst hs''
      rcases hback it hit with ⟨it0, h6, h7⟩ | h6
      · have hd0 : it0.dot ≠ 0 := by rw [(hdot h7).1]; exact hd
        have := t3 st (by rw [← his]; exact hi) it0 h6 hd0
        rw [(hdot h7).1, (hdot h7).2] at this
        exact ⟨this.1, ho3 _ this.2⟩
      · exact absurd h6.1 hd
    · rw [if_neg his] at hs''
      have := t3 st'' hs'' it hit hd
      exact ⟨this.1, ho3 _ this.2⟩

/-- a `Grown` item list with well-formed items -/
theorem Inv.setItems_grown {g : Grammar} {autos : List (Nat × Nat)} {sts : Array State} (h : Inv g autos sts)
    {i : Nat} {st : State} (hi : sts[i]? = some st) {items : List Item} (hgr : Grown st.items items) :
    Inv g autos (setItems sts i items) := by
  rw [setItems_eq hi]
  have hst := h.st i st hi
  apply h.update hi
  · refine ⟨hst.asize, hst.gsize, ?_, ?_, hst.cells⟩
    · intro it hit
      obtain ⟨it0, h1, h2, _⟩ := hgr.back it hit
      obtain ⟨pr, h3, h4⟩ := hst.items it0 h1
      simp only [core, _root_.Prod.mk.injEq] at h2
      exact ⟨pr, by rw [← h2.1]; exact h3, by rw [← h2.2]; exact h4⟩
    · show (items.map core).Nodup
      rw [hgr.cores]; exact hst.nodup
  · rfl
  · rfl
  · exact hgr.mono
  · intro it' hit'
    obtain ⟨it0, h1, h2, _⟩ := hgr.back it' hit'
    exact .inl ⟨it0, h1, h2⟩

end Rustemo.Table
