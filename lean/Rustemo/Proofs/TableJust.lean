import Rustemo.Proofs.TableCalcC2
/-!
# Table construction: every lookahead is JUSTIFIED (no item and no lookahead is invented)

Defined from the grammar, rustemo's FIRST sets `fs`, the start items `autos` and the TRANSITIONS recorded
in the states `sts` (before conflict resolution) alone — not from the computed item sets:

* `Reach … i p d`: the item `(p, d)` belongs to state `i` by the LR(0) rules (start item, closure, transition);
* `Just … i p d a`: the lookahead `a` of that item is derivable from the STOP of a start item by the three
  LALR(1) rules — spontaneous generation (`gen`: `a ∈ FIRST(β)` for a closure item of `[A → α.Bβ]`),
  propagation inside a state (`prop`: β nullable) and propagation along a transition (`trans`).
-/
namespace Rustemo.Table

inductive Reach (g : Grammar) (autos : List (Nat × Nat)) (sts : Array State) : Nat → Nat → Nat → Prop where
  | start {i p : Nat} (h : (i, p) ∈ autos) : Reach g autos sts i p 0
  | clos {i p d : Nat} {pr : Prod} {B q : Nat} (hr : Reach g autos sts i p d) (hp : g.prods[p]? = some pr)
      (hB : pr.rhs[d]? = some B) (hn : g.nterms ≤ B) (hq : q ∈ Canon.prodsOf g B) : Reach g autos sts i q 0
  | trans {i p d X j : Nat} {st : State} (hr : Reach g autos sts i p d) (hs : sts[i]? = some st)
      (hX : g.rhsAt p d = some X) (ht : HasTrans g st X j) : Reach g autos sts j p (d + 1)

inductive Just (g : Grammar) (fs : Array (List Nat)) (autos : List (Nat × Nat)) (sts : Array State) :
    Nat → Nat → Nat → Nat → Prop where
  | start {i p : Nat} (h : (i, p) ∈ autos) : Just g fs autos sts i p 0 0
  | gen {i p d : Nat} {pr : Prod} {B q : Nat} {f : List Nat} {b : Nat}
      (hr : Reach g autos sts i p d) (hp : g.prods[p]? = some pr)
      (hB : pr.rhs[d]? = some B) (hn : g.nterms ≤ B) (hq : q ∈ Canon.prodsOf g B) (hlt : d + 1 < pr.rhs.length)
      (hf : firstsOf g fs (pr.rhs.drop (d + 1)) = some f) (hb : b ∈ f) (hne : b ≠ g.emptyIdx) :
      Just g fs autos sts i q 0 b
  | prop {i p d a : Nat} {pr : Prod} {B q : Nat} (hj : Just g fs autos sts i p d a)
      (hp : g.prods[p]? = some pr) (hB : pr.rhs[d]? = some B) (hn : g.nterms ≤ B) (hq : q ∈ Canon.prodsOf g B)
      (hnul : d + 1 < pr.rhs.length → ∃ f, firstsOf g fs (pr.rhs.drop (d + 1)) = some f ∧ g.emptyIdx ∈ f) :
      Just g fs autos sts i q 0 a
  | trans {i p d a X j : Nat} {st : State} (hj : Just g fs autos sts i p d a) (hs : sts[i]? = some st)
      (hX : g.rhsAt p d = some X) (ht : HasTrans g st X j) : Just g fs autos sts j p (d + 1) a

variable {g : Grammar} {fs : Array (List Nat)}

/-- `sts'` has at least the start items and transitions of `sts` -/
def TransLe (g : Grammar) (sts sts' : Array State) : Prop :=
  ∀ (i : Nat) (st : State), sts[i]? = some st → ∃ st', sts'[i]? = some st' ∧ ∀ X j, HasTrans g st X j → HasTrans g st' X j

theorem TransLe.refl (g : Grammar) (sts : Array State) : TransLe g sts sts :=
  fun _ st h => ⟨st, h, fun _ _ ht => ht⟩

theorem TransLe.trans {a b c : Array State} (h1 : TransLe g a b) (h2 : TransLe g b c) : TransLe g a c := by
  intro i st hs
  obtain ⟨st1, s1, s2⟩ := h1 i st hs
  obtain ⟨st2, t1, t2⟩ := h2 i st1 s1
  exact ⟨st2, t1, fun X j ht => t2 X j (s2 X j ht)⟩

theorem Reach.mono {autos autos' : List (Nat × Nat)} {sts sts' : Array State} (ha : ∀ e ∈ autos, e ∈ autos')
    (hs : TransLe g sts sts') {i p d : Nat} (h : Reach g autos sts i p d) : Reach g autos' sts' i p d := by
  induction h with
  | start h => exact .start (ha _ h)
  | clos _ hp hB hn hq ih => exact .clos ih hp hB hn hq
  | trans _ hs' hX ht ih =>
    obtain ⟨st', s1, s3⟩ := hs _ _ hs'
    exact .trans ih s1 hX (s3 _ _ ht)

theorem Just.mono {autos autos' : List (Nat × Nat)} {sts sts' : Array State} (ha : ∀ e ∈ autos, e ∈ autos')
    (hs : TransLe g sts sts') {i p d a : Nat} (h : Just g fs autos sts i p d a) : Just g fs autos' sts' i p d a := by
  induction h with
  | start h => exact .start (ha _ h)
  | gen hr hp hB hn hq hlt hf hb hne => exact .gen (hr.mono ha hs) hp hB hn hq hlt hf hb hne
  | prop _ hp hB hn hq hnul ih => exact .prop ih hp hB hn hq hnul
  | trans _ hs' hX ht ih =>
    obtain ⟨st', s1, s3⟩ := hs _ _ hs'
    exact .trans ih s1 hX (s3 _ _ ht)

/-- every item of the list belongs to state `i` and all its lookaheads are justified -/
def JList (g : Grammar) (fs : Array (List Nat)) (autos : List (Nat × Nat)) (sts : Array State) (i : Nat)
    (items : List Item) : Prop :=
  ∀ it ∈ items, Reach g autos sts i it.prod it.dot ∧ ∀ a ∈ it.la, Just g fs autos sts i it.prod it.dot a

def JInv (g : Grammar) (fs : Array (List Nat)) (autos : List (Nat × Nat)) (sts : Array State) : Prop :=
  ∀ (i : Nat) (st : State), sts[i]? = some st → JList g fs autos sts i st.items

theorem JList.mono {autos autos' : List (Nat × Nat)} {sts sts' : Array State} (ha : ∀ e ∈ autos, e ∈ autos')
    (hs : TransLe g sts sts') {i : Nat} {items : List Item} (h : JList g fs autos sts i items) :
    JList g fs autos' sts' i items :=
  fun it hit => ⟨(h it hit).1.mono ha hs, fun a ha' => ((h it hit).2 a ha').mono ha hs⟩

/-! ## closure -/

/-- what the closure hands to the items of the nonterminal right of the dot is justified -/
theorem newFollow_just {autos : List (Nat × Nat)} {sts : Array State} {i : Nat} {it : Item}
    (hr : Reach g autos sts i it.prod it.dot)
    (hj : ∀ a ∈ it.la, Just g fs autos sts i it.prod it.dot a) {pr : Prod} (hp : g.prods[it.prod]? = some pr)
    {B : Nat} (hB : pr.rhs[it.dot]? = some B) (hn : g.nterms ≤ B) {q : Nat} (hq : q ∈ Canon.prodsOf g B)
    {nf : List Nat} (h : newFollow g fs pr it = some nf) : ∀ b ∈ nf, Just g fs autos sts i q 0 b := by
  unfold newFollow at h
  by_cases hlt : it.dot + 1 < pr.rhs.length
  · rw [if_pos hlt] at h
    split at h
    · simp at h
    · rename_i f hf
      split at h
      · rename_i hcE
        simp only [Option.some.injEq] at h
        subst h
        intro b hb
        rcases mem_union.mp hb with h' | h'
        · obtain ⟨b1, b2⟩ := List.mem_filter.mp h'
          exact .gen hr hp hB hn hq hlt hf b1 (by simpa using b2)
        · exact .prop (hj b h') hp hB hn hq (fun _ => ⟨f, hf, by simpa using hcE⟩)
      · rename_i hcE
        simp only [Option.some.injEq] at h
        subst h
        intro b hb
        refine .gen hr hp hB hn hq hlt hf hb ?_
        intro he
        apply hcE
        rw [← he]; simpa using hb
  · rw [if_neg hlt] at h
    simp only [Option.some.injEq] at h
    subst h
    intro b hb
    exact .prop (hj b hb) hp hB hn hq (fun hc' => absurd hc' hlt)

theorem closure_just {autos : List (Nat × Nat)} {sts : Array State} {i n : Nat} {items items' : List Item}
    (h : closure g fs n items = .ok items') (hj : JList g fs autos sts i items) : JList g fs autos sts i items' := by
  apply closure_induct (g := g) (fs := fs) (JList g fs autos sts i)
    (fun d => Reach g autos sts i d.1 0 ∧ ∀ b ∈ d.2, Just g fs autos sts i d.1 0 b) _ _ n items items' h hj
  · intro its hP it hit dsi hdsi d hd
    unfold itemDemands at hdsi
    split at hdsi
    · simp only [Res.ok.injEq] at hdsi; subst hdsi; simp at hd
    · rename_i pr hpr
      split at hdsi
      · simp only [Res.ok.injEq] at hdsi; subst hdsi; simp at hd
      · rename_i B hB
        split at hdsi
        · simp only [Res.ok.injEq] at hdsi; subst hdsi; simp at hd
        · rename_i hBt
          split at hdsi
          · simp at hdsi
          · rename_i nf hnf
            split at hdsi
            · simp only [Res.ok.injEq] at hdsi
              subst hdsi
              obtain ⟨q, hq, rfl⟩ := List.mem_map.mp hd
              obtain ⟨r1, r2⟩ := hP it hit
              exact ⟨.clos r1 hpr hB (by omega) hq, newFollow_just r1 r2 hpr hB (by omega) hq hnf⟩
            · simp at hdsi
  · intro its d hP hQ it' hit'
    rcases addDemand_origin2 d its it' hit' with ⟨it0, h1, h2, h3⟩ | h1
    · simp only [core, _root_.Prod.mk.injEq] at h2
      obtain ⟨r1, r2⟩ := hP it0 h1
      rw [← h2.1, ← h2.2]
      refine ⟨r1, ?_⟩
      intro a ha
      rcases h3 a ha with h' | ⟨h', hc⟩
      · exact r2 a h'
      · simp only [core, _root_.Prod.mk.injEq] at hc
        rw [h2.1, h2.2, hc.1, hc.2]
        exact hQ.2 a h'
    · subst h1
      exact ⟨hQ.1, hQ.2⟩

end Rustemo.Table
