import Rustemo.Model.Front.Build
/-!
# `sortByKey`: a list with pairwise different keys `< length` is sorted into "position = key"
-/
namespace Rustemo.Front

variable {α : Type}

theorem mem_insertByKey (key : α → Nat) (t x : α) : ∀ l : List α, x ∈ insertByKey key t l ↔ x = t ∨ x ∈ l
  | [] => by simp [insertByKey]
  | y :: ys => by
    unfold insertByKey
    split
    · simp
    · simp [mem_insertByKey key t x ys]
      constructor
      · rintro (h | h | h)
        · exact Or.inr (Or.inl h)
        · exact Or.inl h
        · exact Or.inr (Or.inr h)
      · rintro (h | h | h)
        · exact Or.inr (Or.inl h)
        · exact Or.inl h
        · exact Or.inr (Or.inr h)

theorem length_insertByKey (key : α → Nat) (t : α) : ∀ l : List α, (insertByKey key t l).length = l.length + 1
  | [] => rfl
  | y :: ys => by
    unfold insertByKey
    split
    · simp
    · simp [length_insertByKey key t ys]

theorem mem_sortByKey (key : α → Nat) (x : α) : ∀ l : List α, x ∈ sortByKey key l ↔ x ∈ l
  | [] => by simp [sortByKey]
  | y :: ys => by
    show x ∈ insertByKey key y (sortByKey key ys) ↔ _
    rw [mem_insertByKey, mem_sortByKey key x ys]
    simp

theorem length_sortByKey (key : α → Nat) : ∀ l : List α, (sortByKey key l).length = l.length
  | [] => rfl
  | y :: ys => by
    show (insertByKey key y (sortByKey key ys)).length = _
    rw [length_insertByKey, length_sortByKey key ys]
    rfl

/-- strictly increasing keys -/
def StrictSorted (key : α → Nat) (l : List α) : Prop := l.Pairwise (fun a b => key a < key b)

theorem insertByKey_strict (key : α → Nat) (t : α) :
    ∀ l : List α, StrictSorted key l → (∀ x, x ∈ l → key x ≠ key t) → StrictSorted key (insertByKey key t l)
  | [], _, _ => by simp [insertByKey, StrictSorted]
  | y :: ys, hs, hne => by
    unfold insertByKey
    have hs' := List.pairwise_cons.mp hs
    split
    · rename_i hle
      have hlt : key t < key y := Nat.lt_of_le_of_ne hle (fun e => hne y (by simp) e.symm)
      refine List.pairwise_cons.mpr ⟨?_, hs⟩
      intro z hz
      rcases List.mem_cons.mp hz with rfl | hz
      · exact hlt
      · exact Nat.lt_trans hlt (hs'.1 z hz)
    · rename_i hgt
      refine List.pairwise_cons.mpr ⟨?_, insertByKey_strict key t ys hs'.2 (fun x hx => hne x (by simp [hx]))⟩
      intro z hz
      rcases (mem_insertByKey key t z ys).mp hz with rfl | hz
      · omega
      · exact hs'.1 z hz

theorem sortByKey_strict (key : α → Nat) :
    ∀ l : List α, (l.map key).Nodup → StrictSorted key (sortByKey key l)
  | [], _ => by simp [sortByKey, StrictSorted]
  | y :: ys, hn => by
    have hn' : (∀ x, x ∈ ys → ¬ key x = key y) ∧ (ys.map key).Nodup := by simpa using hn
    show StrictSorted key (insertByKey key y (sortByKey key ys))
    apply insertByKey_strict key y _ (sortByKey_strict key ys hn'.2)
    intro x hx e
    rw [mem_sortByKey] at hx
    exact hn'.1 x hx e

/-- a strictly increasing list inside `[lo, hi)` has at most `hi - lo` elements -/
theorem strict_length_le (key : α → Nat) : ∀ (l : List α) (lo hi : Nat), StrictSorted key l →
    (∀ x, x ∈ l → lo ≤ key x ∧ key x < hi) → l.length ≤ hi - lo
  | [], _, _, _, _ => by simp
  | y :: ys, lo, hi, hs, hb => by
    have hs' := List.pairwise_cons.mp hs
    have hy := hb y (by simp)
    have := strict_length_le key ys (key y + 1) hi hs'.2 (fun x hx => ⟨hs'.1 x hx, (hb x (by simp [hx])).2⟩)
    simp
    omega

/-- a strictly increasing list of `n` elements with keys in `[a, a+n)` has key `a + i` at position `i` -/
theorem strict_pos (key : α → Nat) : ∀ (l : List α) (a : Nat), StrictSorted key l →
    (∀ x, x ∈ l → a ≤ key x ∧ key x < a + l.length) → ∀ (i : Nat) x, l[i]? = some x → key x = a + i
  | [], _, _, _, i, x, h => by simp at h
  | y :: ys, a, hs, hb, i, x, h => by
    have hs' := List.pairwise_cons.mp hs
    have hy := hb y (by simp)
    have hlen := strict_length_le key ys (key y + 1) (a + (y :: ys).length) hs'.2
      (fun z hz => ⟨hs'.1 z hz, (hb z (by simp [hz])).2⟩)
    have hl : (y :: ys).length = ys.length + 1 := rfl
    rw [hl] at hlen hy
    have hya : key y = a := by omega
    cases i with
    | zero =>
      simp at h
      subst h
      simpa using hya
    | succ i =>
      simp at h
      have := strict_pos key ys (a + 1) hs'.2 (fun z hz => by
        have h1 := hs'.1 z hz
        have h2 := (hb z (by simp [hz])).2
        simp at h2
        omega) i x h
      omega

/-- `Vec::sort()` puts every element at the position of its key -/
theorem sortByKey_pos (key : α → Nat) (l : List α) (hn : (l.map key).Nodup) (hb : ∀ x, x ∈ l → key x < l.length)
    (i : Nat) (x : α) (h : (sortByKey key l)[i]? = some x) : key x = i := by
  have := strict_pos key (sortByKey key l) 0 (sortByKey_strict key l hn)
    (fun z hz => by
      rw [mem_sortByKey] at hz
      rw [length_sortByKey]
      exact ⟨Nat.zero_le _, by simpa using hb z hz⟩) i x h
  simpa using this

end Rustemo.Front
