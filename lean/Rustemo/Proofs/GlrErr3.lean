import Rustemo.Proofs.GlrErr1
import Rustemo.Proofs.GlrErr2
import Rustemo.Proofs.ViablePrefix
/-!
# The error of the GLR engine under `LexDet`: where the run stops

The main loop once more (as in Proofs/GlrRun10.lean), now also tracking the `lastBase` argument of `mainLoop` — the
last non-empty frontier base, from whose first head `make_error` takes the position — the positions of the heads of
finished levels (`L level`), and an arbitrary extra invariant `X` of the graph that is kept by every level.
-/
namespace Rustemo.Glr
open Rustemo

/-- what the error theorems need besides `RunInv` -/
structure ErrInv (L : Nat → Pos) (F : Nat) (st : St) (base lastBase : List Nat) : Prop where
  /-- heads of finished levels stay where `find_lookaheads` left them -/
  lpos : ∀ (h : Nat) (hd : Head), st.gss.heads[h]? = some hd → hd.frontier < F → hd.pos = L hd.frontier
  /-- when the base is empty, `lastBase` is the (non-empty) base of the level before -/
  last : base = [] → ∃ b rest, lastBase = b :: rest ∧
    ∀ h ∈ lastBase, ∃ hd : Head, st.gss.heads[h]? = some hd ∧ hd.frontier + 1 = F

/-- an invariant of the graph that every level keeps (under the run invariant) -/
def StepKeeps (env : Env) (pp : Bool) (fuel n : Nat) (tok : Nat → Tok) (P : Nat → Pos) (X : Nat → St → Prop) : Prop :=
  ∀ (F : Nat) (st st' : St) (base base' : List Nat) (subs : Nat → SubFrontier), RunInv env tok P F st base subs → F ≤ n →
    X F st → frontierStep env pp fuel F st base = .ok (st', base') → X (F + 1) st'

theorem frontierStep_err {env : Env} (hT : TableOk env) (hC : CompleteRN env.g env.t) (hW : GWF env.g)
    {pp : Bool} {fuel n : Nat} {tok : Nat → Tok} {P L : Nat → Pos}
    (hL : LexDet env pp fuel n tok P L) {F : Nat} (hF : F ≤ n) {st st' : St} {base base' lastBase : List Nat}
    {subs : Nat → SubFrontier} (RI : RunInv env tok P F st base subs) (hne : base ≠ [])
    (EI : ErrInv L F st base lastBase) (hok : frontierStep env pp fuel F st base = .ok (st', base')) :
    ErrInv L (F + 1) st' base' (if base'.isEmpty then base else lastBase) := by
  obtain ⟨g1, fr, qs, st2, st3, sub0, sub, m, done, _, _, _, _, _, _, _, _, _, _, mid, _, _, si, hframe⟩ :=
    frontierStep_parts hT hC hW hC.noShiftStop hL hF RI hok
  constructor
  · intro h hd hh hl
    rcases Nat.lt_or_ge hd.frontier F with hlt | hge
    · exact EI.lpos h hd (hframe.heads_bwd h hd hh hlt) hlt
    · have hF' : hd.frontier = F := by omega
      have h3 := si.frame.heads_bwd h hd hh (by omega)
      rw [hF']
      exact (mid.tp h hd h3 hF').1
  · intro hb
    subst hb
    simp only [List.isEmpty_nil, ↓reduceIte]
    cases base with
    | nil => exact absurd rfl hne
    | cons b rest =>
      refine ⟨b, rest, rfl, ?_⟩
      intro h hh
      obtain ⟨hd, k1, _, _, k4⟩ := RI.bpos h hh
      obtain ⟨hd', m1, _, m3⟩ := hframe.mono_heads h hd k1
      exact ⟨hd', m1, by rw [m3, k4]⟩

/-- the state in which the main loop ends, with the error book-keeping -/
def FinalE (env : Env) (n : Nat) (tok : Nat → Tok) (P L : Nat → Pos) (X : Nat → St → Prop) (o : Outcome GlrResult) :
    Prop :=
  ∃ (F : Nat) (st : St) (lastBase : List Nat) (subs : Nat → SubFrontier), RunInv env tok P F st [] subs ∧ F ≤ n + 1 ∧
    ErrInv L F st [] lastBase ∧ X F st ∧
    o = (if !st.accepted.isEmpty then .ok ⟨st.gss, forestRoots st.gss st.accepted⟩ else makeError env st.gss lastBase)

theorem mainLoop_finalE {env : Env} (hT : TableOk env) (hC : CompleteRN env.g env.t) (hW : GWF env.g)
    {pp : Bool} {fuel n : Nat} {tok : Nat → Tok} {P L : Nat → Pos} (hL : LexDet env pp fuel n tok P L)
    {X : Nat → St → Prop} (hX : StepKeeps env pp fuel n tok P X) :
    ∀ (cnt F : Nat) (st : St) (base lastBase : List Nat) (subs : Nat → SubFrontier),
      RunInv env tok P F st base subs → F ≤ n + 1 → (F = n + 1 → base = []) → ErrInv L F st base lastBase → X F st →
      (mainLoop env pp fuel cnt F st base lastBase = .fuel) ∨ (∃ s, mainLoop env pp fuel cnt F st base lastBase = .panic s) ∨
      FinalE env n tok P L X (mainLoop env pp fuel cnt F st base lastBase)
  | 0, _, _, _, _, _, _, _, _, _, _ => by simp [mainLoop]
  | cnt+1, F, st, base, lastBase, subs, RI, hF, hlast, EI, hx => by
    unfold mainLoop
    cases base with
    | nil =>
      right; right
      exact ⟨F, st, lastBase, subs, RI, hF, EI, hx, rfl⟩
    | cons b rest =>
      simp only
      have hFn : F ≤ n := by
        rcases Nat.lt_or_ge n F with hlt | hge
        · have := hlast (by omega); simp at this
        · exact hge
      cases hstep : frontierStep env pp fuel F st (b :: rest) with
      | ok x =>
        obtain ⟨st', base'⟩ := x
        simp only [obind]
        obtain ⟨hlast', sub, RI'⟩ := frontierStep_run hT hC hW hC.noShiftStop hL hFn RI hstep
        have EI' := frontierStep_err hT hC hW hL hFn RI (by simp) EI hstep
        exact mainLoop_finalE hT hC hW hL hX cnt (F + 1) st' base' _ _ RI' (by omega) (fun heq => hlast' (by omega)) EI'
          (hX F st st' (b :: rest) base' subs RI hFn hx hstep)
      | err e => exact absurd hstep (frontierStep_noerr env pp fuel F st (b :: rest) e)
      | panic s => right; left; exact ⟨s, by simp [obind]⟩
      | fuel => left; simp [obind]

theorem parse_finalE {env : Env} (hT : TableOk env) (hC : CompleteRN env.g env.t) (hW : GWF env.g)
    {pp : Bool} {fuel n : Nat} {tok : Nat → Tok} {P L : Nat → Pos} (hL : LexDet env pp fuel n tok P L)
    {X : Nat → St → Prop} (hX : StepKeeps env pp fuel n tok P X)
    (hX0 : X 0 { gss := (({} : Gss).addHead startHead).1 }) :
    (parse env pp fuel = .fuel) ∨ (∃ s, parse env pp fuel = .panic s) ∨ FinalE env n tok P L X (parse env pp fuel) := by
  unfold parse
  simp only
  refine mainLoop_finalE hT hC hW hL hX fuel 0 _ _ [] (fun _ => []) (runInv_start hT hL.p0 _)
    (Nat.zero_le _) (fun h0 => by omega) ⟨fun _ _ _ h => by omega, fun h => ?_⟩ hX0
  simp [Gss.addHead] at h

/-! ## the error -/

theorem obind_eq_err {α β : Type} {o : Outcome α} {f : α → Outcome β} {e : PErr} (h : obind o f = .err e) :
    o = .err e ∨ ∃ a, o = .ok a ∧ f a = .err e := by
  cases o with
  | ok a => exact Or.inr ⟨a, rfl, h⟩
  | err e' => simp only [obind] at h; injection h with h; subst h; exact Or.inl rfl
  | panic s => simp [obind] at h
  | fuel => simp [obind] at h

theorem expectedOf_noerr (env : Env) (g : Gss) : ∀ (l : List Nat), NoErr (expectedOf env g l)
  | [] => NoErr.ok _
  | h :: rest => by
    unfold expectedOf
    exact NoErr.bind (head_noerr g h) fun _ => NoErr.bind (expectedOf_noerr env g rest) fun _ => NoErr.ok _

/-- `make_error`: position of the first head of the last frontier base, non-empty list of expected kinds -/
theorem makeError_err {env : Env} {g : Gss} {lastBase : List Nat} {e : PErr} (h : makeError env g lastBase = .err e) :
    ∃ (b : Nat) (rest : List Nat) (hd : Head) (ks : List Nat), lastBase = b :: rest ∧ g.heads[b]? = some hd ∧
      e = .expected hd.pos ks ∧ ks ≠ [] := by
  unfold makeError at h
  rcases obind_eq_err h with h1 | ⟨ex, _, h1⟩
  · exact absurd h1 (expectedOf_noerr env g lastBase e)
  · cases lastBase with
    | nil => simp at h1
    | cons b rest =>
      simp only at h1
      rcases obind_eq_err h1 with h2 | ⟨hd, hhd, h2⟩
      · exact absurd h2 (head_noerr g b e)
      · split at h2
        · simp at h2
        · rename_i hne
          injection h2 with h2
          exact ⟨b, rest, hd, _, rfl, head_eq_ok hhd, h2.symm, fun h0 => hne h0⟩

theorem kindsOf_snoc (tok : Nat → Tok) (k : Nat) : kindsOf tok 0 (k + 1) = kindsOf tok 0 k ++ [(tok k).kind] := by
  rw [kindsOf_append tok (Nat.zero_le k) (Nat.le_succ k), kindsOf_cons tok (Nat.lt_succ_self k), kindsOf_self]

/-- **The error of a `Final` state.**  With `k + 1` = the number of levels the run created: the position is `L k`
    (where `find_lookaheads` left the heads of level `k`: the start of token `k`); the engine did NOT stop early —
    no sentence begins with `tok 0 … tok k` (if `k < n`), the input is not a sentence (if `k = n`); the extra
    invariant holds of the final graph, which has a head of level `k`. -/
theorem finalE_error {env : Env} (hT : TableOk env) (hC : CompleteRN env.g env.t) (hW : GWF env.g)
    {pp : Bool} {fuel n : Nat} {tok : Nat → Tok} {P L : Nat → Pos} (hL : LexDet env pp fuel n tok P L)
    {X : Nat → St → Prop} {o : Outcome GlrResult} (hfin : FinalE env n tok P L X o) {e : PErr} (he : o = .err e) :
    ∃ (k : Nat) (ks : List Nat), k ≤ n ∧ e = .expected (L k) ks ∧ ks ≠ [] ∧
      (k < n → ¬ ViablePrefix env.g (kindsOf tok 0 (k + 1))) ∧ (k = n → ¬ Sentence env.g (kindsOf tok 0 n)) ∧
      ∃ (st : St) (subs : Nat → SubFrontier) (b : Nat) (hd : Head), RunInv env tok P (k + 1) st [] subs ∧ X (k + 1) st ∧
        st.gss.heads[b]? = some hd ∧ hd.frontier = k := by
  obtain ⟨F, st, lastBase, subs, RI, hF, EI, hx, ho⟩ := hfin
  rw [he] at ho
  have hacc : st.accepted.isEmpty = true := by
    cases hh : st.accepted.isEmpty with
    | true => rfl
    | false => rw [hh] at ho; simp at ho
  rw [hacc] at ho
  simp only [Bool.not_true, Bool.false_eq_true, ↓reduceIte] at ho
  obtain ⟨b, rest, hd, ks, hlb, hhd, hee, hks⟩ := makeError_err ho.symm
  obtain ⟨b', rest', hlb', hall⟩ := EI.last rfl
  obtain ⟨hd', hhd', hfr⟩ := hall b (by rw [hlb]; simp)
  rw [hhd] at hhd'; injection hhd' with hhd'; subst hhd'
  have hpos := EI.lpos b hd hhd (by omega)
  have hFk : F = hd.frontier + 1 := hfr.symm
  subst hFk
  refine ⟨hd.frontier, ks, by omega, by rw [hee, hpos], hks, ?_, ?_, st, subs, b, hd, RI, hx, hhd, rfl⟩
  · -- no early error: a viable token would have been shifted
    intro hkn ⟨rest2, T, hv, hy⟩
    rw [kindsOf_snoc, List.append_assoc] at hy
    simp only [List.singleton_append] at hy
    have halive0 : env.t.cell 0 (tok 0).kind ≠ [] := by
      obtain ⟨pr0, hpr0, _, hr0⟩ := hW.aug0
      apply live_tree hC hW T env.g.startIdx hv 0 0 0 0 pr0 0 (tok 0).kind hC.start hpr0 (by rw [hr0]; rfl)
        ⟨.nil, by rw [hr0]; simp [TreeList.Valid], by simp [TreeList.yield]⟩
      rw [hy, List.append_assoc]
      simp only [List.cons_append]
      exact kindsOf_head' (Nat.zero_le _) _
    have A : AllDone env st.gss tok hd.frontier subs :=
      ⟨hT, hC, hW, RI.sok.g, fun j hj => RI.done j (by omega)⟩
    have hstart : (0, 0) ∈ subs 0 := by
      rcases RI.start with ⟨h0, _⟩ | ⟨_, hm⟩
      · omega
      · exact hm halive0
    obtain ⟨v, hv', hhv, hvf⟩ := head_of_viable A hstart T hv rest2 hy
    have := RI.blevel v hv' hhv hvf
    simp at this
  · -- a sentence is accepted
    intro hkn ⟨T, hv, hy⟩
    have halive0 : env.t.cell 0 (tok 0).kind ≠ [] := by
      obtain ⟨pr0, hpr0, _, hr0⟩ := hW.aug0
      apply live_tree hC hW T env.g.startIdx hv 0 0 0 0 pr0 0 (tok 0).kind hC.start hpr0 (by rw [hr0]; rfl)
        ⟨.nil, by rw [hr0]; simp [TreeList.Valid], by simp [TreeList.yield]⟩
      rw [hy]
      exact kindsOf_head (Nat.zero_le n) 0 hL.stop.symm
    have hgood := final_complete hT hC hW hL halive0 T hv hy
      (o := makeError env st.gss lastBase) ⟨hd.frontier + 1, st, lastBase, subs, RI, hF, by rw [hacc]; rfl⟩
    rw [← ho] at hgood
    exact hgood

end Rustemo.Glr
