import Rustemo.Proofs.TableCalcInv2
/-!
# Table construction: `propagate_follows` keeps `Inv`; shape of `finishStates` and of `build`
-/
namespace Rustemo.Table

variable {g : Grammar} {fs : Array (List Nat)}

theorem Inv.closeAt (hg : GW g) {autos : List (Nat × Nat)} {sts : Array State} (hJ : Inv g autos sts)
    {fuel i : Nat} {st : State} {items : List Item} (hi : sts[i]? = some st)
    (hc : closure g fs fuel st.items = .ok items) : Inv g autos (setItems sts i items) := by
  have hst := hJ.st i st hi
  have hrel := closure_rel hc hst.items hst.nodup
  rw [setItems_eq hi]
  apply hJ.update hi
  · exact ⟨hst.asize, hst.gsize, hrel.ok, hrel.nodup, hst.cells⟩
  · rfl
  · rfl
  · exact hrel.mono
  · intro it' hit'
    rcases hrel.back it' hit' with ⟨it0, h', h'', _⟩ | ⟨h', h''⟩
    · exact .inl ⟨it0, h', h''⟩
    · exact .inr ⟨h', h''.not_aug hg⟩

theorem Inv.propagate (hg : GW g) {autos : List (Nat × Nat)} {fuel n : Nat} {sts sts' : Array State}
    (hJ : Inv g autos sts) (h : propagate g fs fuel n sts = .ok sts') :
    Inv g autos sts' ∧ sts'.size = sts.size := by
  apply propagate_induct (g := g) (fs := fs) (fuel := fuel) (Inv g autos) _ _ n sts sts' h hJ
  · intro s i st items hJ' hi hc
    exact hJ'.closeAt hg hi hc
  · intro s s' i j ch hJ' hi he
    obtain ⟨sj, items, h1, h2, h3⟩ := propEdge_grown hi he
    subst h3
    exact ⟨hJ'.setItems_grown h1 h2, size_setItems _ _ _⟩

/-! ## `finishStates` -/

theorem finishCells_spec {s : Settings} {rn : Option (Array Nat)} {st : State} :
    ∀ {ts : List Nat} {cells : List (List Action)}, finishCells g s rn st ts = .ok cells →
      cells.length = ts.length ∧ ∀ (k t : Nat), ts[k]? = some t → ∃ c, cells[k]? = some c ∧ finishCell g s rn st t = .ok c
  | [], cells, h => by
    simp only [finishCells, Res.ok.injEq] at h
    subst h; simp
  | t :: rest, cells, h => by
    unfold finishCells at h
    obtain ⟨c, h1, h2⟩ := Res.bind_ok h
    obtain ⟨r, h3, h4⟩ := Res.bind_ok h2
    simp only [Res.ok.injEq] at h4
    subst h4
    obtain ⟨i1, i2⟩ := finishCells_spec h3
    refine ⟨by simp [i1], ?_⟩
    intro k t' hk
    cases k with
    | zero =>
      simp only [List.getElem?_cons_zero, Option.some.injEq] at hk
      subst hk
      exact ⟨c, by simp, h1⟩
    | succ k =>
      simp only [List.getElem?_cons_succ] at hk ⊢
      exact i2 k t' hk

theorem finishState_spec {s : Settings} {rn : Option (Array Nat)} {st st' : State}
    (h : finishState g s rn st = .ok st') :
    st'.items = st.items ∧ st'.gotos = st.gotos ∧ st'.symbol = st.symbol ∧ st'.maxPrio = st.maxPrio ∧
    st'.actions.size = g.nterms ∧ followsInRange g rn st = true ∧
    (∀ t, t < g.nterms → ∃ c, st'.actions[t]? = some c ∧ finishCell g s rn st t = .ok c) ∧
    sortedOf g s st'.actions.toList = .ok st'.sorted := by
  unfold finishState at h
  by_cases hf : followsInRange g rn st = true
  · simp only [hf, Bool.not_true, Bool.false_eq_true, if_false] at h
    obtain ⟨cells, h1, h2⟩ := Res.bind_ok h
    obtain ⟨sorted, h3, h4⟩ := Res.bind_ok h2
    simp only [Res.ok.injEq] at h4
    subst h4
    obtain ⟨c1, c2⟩ := finishCells_spec h1
    refine ⟨rfl, rfl, rfl, rfl, by simp [c1], hf, ?_, by simpa using h3⟩
    intro t ht
    obtain ⟨c, c3, c4⟩ := c2 t t (List.getElem?_range ht)
    exact ⟨c, by simpa using c3, c4⟩
  · simp [hf] at h

theorem finishStates_spec {s : Settings} {rn : Option (Array Nat)} :
    ∀ {l fin : List State}, finishStates g s rn l = .ok fin →
      fin.length = l.length ∧ ∀ (i : Nat) (st' : State), fin[i]? = some st' → ∃ st, l[i]? = some st ∧ finishState g s rn st = .ok st'
  | [], fin, h => by
    simp only [finishStates, Res.ok.injEq] at h
    subst h; simp
  | st :: rest, fin, h => by
    unfold finishStates at h
    obtain ⟨st1, h1, h2⟩ := Res.bind_ok h
    obtain ⟨r, h3, h4⟩ := Res.bind_ok h2
    simp only [Res.ok.injEq] at h4
    subst h4
    obtain ⟨i1, i2⟩ := finishStates_spec h3
    refine ⟨by simp [i1], ?_⟩
    intro i st' hi
    cases i with
    | zero =>
      simp only [List.getElem?_cons_zero, Option.some.injEq] at hi
      subst hi
      exact ⟨st, by simp, h1⟩
    | succ i =>
      simp only [List.getElem?_cons_succ] at hi ⊢
      exact i2 i st' hi

/-! ## `build` -/

/-- the phases of a successful construction -/
structure Built (g : Grammar) (s : Settings) (fuel : Nat) (t : Table) : Prop where
  ex : ∃ (fs : Array (List Nat)) (rn : Option (Array Nat)) (sts0 sts1 sts : Array State) (ls : Option Nat),
    firstSets g fuel = .ok fs ∧ rnOf g s fs = .ok rn ∧ emptyFirst fs = none ∧
    calcStates g fs s.tableType rn fuel g.augIdx #[] = .ok sts0 ∧
    layoutStates g fs s.tableType rn fuel sts0 = .ok (ls, sts1) ∧
    propagate g fs fuel fuel sts1 = .ok sts ∧
    (∃ fin, finishStates g s rn sts.toList = .ok fin ∧ t.states = fin.toArray) ∧
    t.layoutState = ls ∧ t.firsts = fs ∧ t.rnLens = rn

theorem build_ok {s : Settings} {fuel : Nat} {t : Table} (h : build g s fuel = .ok t) : Built g s fuel t := by
  unfold build at h
  obtain ⟨fs, h1, h2⟩ := Res.bind_ok h
  obtain ⟨rn, h3, h4⟩ := Res.bind_ok h2
  split at h4
  · simp at h4
  · rename_i he
    obtain ⟨sts0, h5, h6⟩ := Res.bind_ok h4
    obtain ⟨ls, h7, h8⟩ := Res.bind_ok h6
    obtain ⟨sts, h9, h10⟩ := Res.bind_ok h8
    obtain ⟨fin, h11, h12⟩ := Res.bind_ok h10
    simp only [Res.ok.injEq] at h12
    subst h12
    exact ⟨fs, rn, sts0, ls.2, sts, ls.1, h1, h3, he, h5, h7, h9, ⟨fin, h11, rfl⟩, rfl, rfl, rfl⟩

end Rustemo.Table
