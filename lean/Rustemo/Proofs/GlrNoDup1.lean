import Rustemo.Proofs.GlrAll
import Rustemo.Proofs.GlrSameDeriv
/-!
# No duplicates, list level: products of alternatives, first difference of two lists, nodes with the same derivation
-/
namespace Rustemo.Glr
open Rustemo

/-- the enumeration order of `DPList.all` on plain lists -/
def prodL {α : Type} : List (List α) → List (List α)
  | [] => [[]]
  | l :: ls => l.flatMap (fun t => (prodL ls).map (fun ts => t :: ts))

theorem all_listToDP : ∀ (ps : List DParent), (listToDP ps).all = prodL (ps.map DParent.all)
  | [] => by simp [listToDP, DPList.all, prodL]
  | p :: ps => by simp [listToDP, DPList.all, prodL, all_listToDP ps]

theorem all_listToDN : ∀ (ns : List DNode), (listToDN ns).all = (ns.map DNode.all).flatten
  | [] => by simp [listToDN, DNList.all]
  | n :: ns => by simp [listToDN, DNList.all, all_listToDN ns]

/-- a member of the product takes its `i`-th component from the `i`-th factor -/
theorem prodL_mem {α : Type} : ∀ (ls : List (List α)) (ts : List α), ts ∈ prodL ls →
    ts.length = ls.length ∧ ∀ (i : Nat) (t : α), ts[i]? = some t → ∃ l, ls[i]? = some l ∧ t ∈ l
  | [], ts, h => by
    simp only [prodL, List.mem_singleton] at h
    subst h
    exact ⟨rfl, fun i t hi => by simp at hi⟩
  | l :: ls, ts, h => by
    simp only [prodL, List.mem_flatMap, List.mem_map] at h
    obtain ⟨t0, ht0, ts0, hts0, rfl⟩ := h
    obtain ⟨hlen, hmem⟩ := prodL_mem ls ts0 hts0
    refine ⟨by simp [hlen], ?_⟩
    intro i t hi
    cases i with
    | zero => simp only [List.getElem?_cons_zero, Option.some.injEq] at hi; subst hi; exact ⟨l, rfl, ht0⟩
    | succ i => simpa using hmem i t (by simpa using hi)

/-- two different members of a product of pairwise-unrelated alternatives differ in a component -/
theorem prodL_pairwise {α : Type} {R : α → α → Prop} : ∀ (ls : List (List α)), (∀ l ∈ ls, l.Pairwise (fun a b => ¬ R a b)) →
    (prodL ls).Pairwise (fun ts ts' => ∃ (k : Nat) (t t' : α), ts[k]? = some t ∧ ts'[k]? = some t' ∧ ¬ R t t')
  | [], _ => by simp [prodL]
  | l :: ls, h => by
    have ih := prodL_pairwise ls (fun l' hl' => h l' (by simp [hl']))
    simp only [prodL]
    rw [List.pairwise_flatMap]
    constructor
    · intro t _
      rw [List.pairwise_map]
      apply ih.imp
      rintro ts ts' ⟨k, a, b, h1, h2, h3⟩
      exact ⟨k + 1, a, b, by simpa using h1, by simpa using h2, h3⟩
    · apply (h l (by simp)).imp
      intro a b hab x hx y hy
      simp only [List.mem_map] at hx hy
      obtain ⟨xs, _, rfl⟩ := hx
      obtain ⟨ys, _, rfl⟩ := hy
      exact ⟨0, a, b, by simp, by simp, hab⟩

/-- two lists neither of which is a prefix of the other differ at a first index -/
theorem first_diff : ∀ (a b : List Nat), ¬ (a <+: b ∨ b <+: a) →
    ∃ (i : Nat) (x y : Nat), a[i]? = some x ∧ b[i]? = some y ∧ x ≠ y ∧ a.take i = b.take i
  | [], b, h => absurd (Or.inl (List.nil_prefix)) h
  | a :: as, [], h => absurd (Or.inr (List.nil_prefix)) h
  | a :: as, b :: bs, h => by
    by_cases hab : a = b
    · subst hab
      have h' : ¬ (as <+: bs ∨ bs <+: as) := by
        intro hc
        apply h
        rcases hc with hc | hc
        · exact Or.inl (List.cons_prefix_cons.mpr ⟨rfl, hc⟩)
        · exact Or.inr (List.cons_prefix_cons.mpr ⟨rfl, hc⟩)
      obtain ⟨i, x, y, h1, h2, h3, h4⟩ := first_diff as bs h'
      exact ⟨i + 1, x, y, by simpa using h1, by simpa using h2, h3, by simp [h4]⟩
    · exact ⟨0, a, b, by simp, by simp, hab, by simp⟩

/-- elisions of one list of full children: the components both keep are elisions of one child -/
theorem listElision_common : ∀ (fs : TreeList) (ts ts' : List Tree), TreeList.ElisionOf fs (TreeList.ofList ts) →
    TreeList.ElisionOf fs (TreeList.ofList ts') →
    ∀ (k : Nat) (t t' : Tree), ts[k]? = some t → ts'[k]? = some t' → Tree.SameDerivation t t'
  | .nil, ts, ts', h1, _, k, t, t', hk, _ => by
    simp only [TreeList.ElisionOf] at h1
    cases ts with
    | nil => simp at hk
    | cons _ _ => simp [TreeList.ofList] at h1
  | .cons f fs, [], _, _, _, k, t, t', hk, _ => by simp at hk
  | .cons f fs, _ :: _, [], _, _, k, t, t', _, hk' => by simp at hk'
  | .cons f fs, a :: as, b :: bs, h1, h2, k, t, t', hk, hk' => by
    simp only [TreeList.ofList, TreeList.ElisionOf] at h1 h2
    cases k with
    | zero =>
      simp only [List.getElem?_cons_zero, Option.some.injEq] at hk hk'
      subst hk; subst hk'
      exact ⟨f, h1.1, h2.1⟩
    | succ k =>
      exact listElision_common fs as bs h1.2 h2.2 k t t' (by simpa using hk) (by simpa using hk')

/-- two nodes that are the same derivation: same production, and the children both keep are the same derivations -/
theorem sameDerivation_node {p p' : Nat} {sp sp' : Span} {l l' : Option Slice} {ts ts' : List Tree}
    (h : Tree.SameDerivation (.node p sp l (TreeList.ofList ts)) (.node p' sp' l' (TreeList.ofList ts'))) :
    p = p' ∧ ∀ (k : Nat) (t t' : Tree), ts[k]? = some t → ts'[k]? = some t' → Tree.SameDerivation t t' := by
  obtain ⟨full, h1, h2⟩ := h
  cases full with
  | leaf a _ _ _ => simp [Tree.ElisionOf] at h1
  | node q _ _ fs =>
    simp only [Tree.ElisionOf] at h1 h2
    exact ⟨by rw [← h1.1, ← h2.1], listElision_common fs ts ts' h1.2 h2.2⟩

theorem not_sameDerivation_leaf_node {a : Nat} {sp : Span} {v : Slice} {l : Option Slice} {p : Nat} {sp' : Span}
    {l' : Option Slice} {cs : TreeList} : ¬ Tree.SameDerivation (.leaf a sp v l) (.node p sp' l' cs) := by
  rintro ⟨full, h1, h2⟩
  cases full with
  | leaf _ _ _ _ => simp [Tree.ElisionOf] at h2
  | node _ _ _ _ => simp [Tree.ElisionOf] at h1

end Rustemo.Glr
