import Rustemo.Proofs.GlrRun9
import Rustemo.Proofs.GlrPush3
import Rustemo.Proofs.GlrNoErr
/-!
# Completeness of the engine under `LexDet`: the main loop and `parse`
-/
namespace Rustemo.Glr
open Rustemo

/-- what the completeness theorem says about an outcome: no error; a result holds the tree -/
def Good (full : Tree) (o : Outcome GlrResult) : Prop :=
  match o with
  | .ok r => ∃ (m k : Nat) (tr : Tree), m ∈ r.roots ∧ InU r.gss k m tr ∧ Tree.EqElide full tr
  | .err _ => False
  | _ => True

theorem mem_forestRoots {g : Gss} {accepted : List Nat} {v e m : Nat} {ed : Edge} (hv : v ∈ accepted)
    (he : g.edges[e]? = some ed) (hsrc : ed.src = v) (hm : m ∈ ed.poss) : m ∈ forestRoots g accepted := by
  unfold forestRoots
  rw [List.mem_flatMap]
  refine ⟨v, hv, ?_⟩
  rw [List.mem_flatMap]
  exact ⟨e, mem_backedges.mpr ⟨ed, he, hsrc⟩, by rw [possOf_eq he]; exact hm⟩

/-- the state in which the main loop ends: the invariant with an empty base -/
def Final (env : Env) (n : Nat) (tok : Nat → Tok) (P : Nat → Pos) (o : Outcome GlrResult) : Prop :=
  ∃ (F : Nat) (st : St) (lastBase : List Nat) (subs : Nat → SubFrontier), RunInv env tok P F st [] subs ∧ F ≤ n + 1 ∧
    o = (if !st.accepted.isEmpty then .ok ⟨st.gss, forestRoots st.gss st.accepted⟩ else makeError env st.gss lastBase)

/-- the main loop under `LexDet`: it runs out of fuel, panics, or ends in a `Final` state -/
theorem mainLoop_final {env : Env} (hT : TableOk env) (hC : CompleteRN env.g env.t) (hW : GWF env.g)
    {pp : Bool} {fuel n : Nat} {tok : Nat → Tok} {P L : Nat → Pos} (hL : LexDet env pp fuel n tok P L) :
    ∀ (cnt F : Nat) (st : St) (base lastBase : List Nat) (subs : Nat → SubFrontier),
      RunInv env tok P F st base subs → F ≤ n + 1 → (F = n + 1 → base = []) →
      (mainLoop env pp fuel cnt F st base lastBase = .fuel) ∨ (∃ s, mainLoop env pp fuel cnt F st base lastBase = .panic s) ∨
      Final env n tok P (mainLoop env pp fuel cnt F st base lastBase)
  | 0, _, _, _, _, _, _, _, _ => by simp [mainLoop]
  | cnt+1, F, st, base, lastBase, subs, RI, hF, hlast => by
    unfold mainLoop
    cases base with
    | nil =>
      right; right
      exact ⟨F, st, lastBase, subs, RI, hF, rfl⟩
    | cons b rest =>
      simp only
      have hFn : F ≤ n := by
        rcases Nat.lt_or_ge n F with hlt | hge
        · have := hlast (by omega); simp at this
        · exact hge
      cases hstep : frontierStep env pp fuel F st (b :: rest) with
      | ok x =>
        obtain ⟨st', base'⟩ := x
        simp only [obind]
        obtain ⟨hlast', sub, RI'⟩ := frontierStep_run hT hC hW hC.noShiftStop hL hFn RI hstep
        exact mainLoop_final hT hC hW hL cnt (F + 1) st' base' _ _ RI' (by omega) (fun heq => hlast' (by omega))
      | err e => exact absurd hstep (frontierStep_noerr env pp fuel F st (b :: rest) e)
      | panic s => right; left; exact ⟨s, by simp [obind]⟩
      | fuel => left; simp [obind]

/-- in a `Final` state reached on a sentence the derivation tree is among the roots -/
theorem final_complete {env : Env} (hT : TableOk env) (hC : CompleteRN env.g env.t) (hW : GWF env.g)
    {pp : Bool} {fuel n : Nat} {tok : Nat → Tok} {P L : Nat → Pos} (hL : LexDet env pp fuel n tok P L)
    (halive0 : env.t.cell 0 (tok 0).kind ≠ [])
    (full : Tree) (hv : full.Valid env.g env.g.startIdx) (hy : full.yield = kindsOf tok 0 n)
    {o : Outcome GlrResult} (hfin : Final env n tok P o) : Good full o := by
  obtain ⟨F, st, lastBase, subs, RI, hF, ho⟩ := hfin
  have A : AllDone env st.gss tok n (fun k => if k < F then subs k else []) := by
    refine ⟨hT, hC, hW, RI.sok.g, ?_⟩
    intro k _
    by_cases hk : k < F
    · simp only [hk, ↓reduceIte]; exact RI.done k hk
    · simp only [hk, ↓reduceIte]
      refine ⟨fun _ _ h => by simp at h, ?_, fun _ _ _ h => by simp at h, ?_⟩
      · intro u p pr Pc s' hkc
        obtain ⟨v, _, s, hin⟩ := hkc.chain
        simp at hin
      · intro h' hd hh hl _
        exfalso
        rcases Nat.lt_or_ge F k with hlt | hge
        · have := RI.gu.noAbove h' hd hh; omega
        · have : k = F := by omega
          subst this
          have := RI.blevel h' hd hh hl
          simp at this
  have hstart : (0, 0) ∈ (fun k => if k < F then subs k else []) 0 := by
    rcases RI.start with ⟨_, hb, _⟩ | ⟨hpos, hm⟩
    · simp at hb
    · simp only [hpos, ↓reduceIte]; exact hm halive0
  obtain ⟨s', v, e, ed, m, k, tr, hin, hacc, he, hsrc, _, hm, hinu, heq⟩ :=
    accept_of_allDone A hstart hL.stop full hv hy
  have hnF : n < F := by
    rcases Nat.lt_or_ge n F with hlt | hge
    · exact hlt
    · have : ¬ n < F := by omega
      simp only [this, ↓reduceIte] at hin
      simp at hin
  simp only [hnF, ↓reduceIte] at hin
  have hvacc : v ∈ st.accepted := RI.acc n hnF s' v hin (by rw [hL.stop]; exact hacc)
  have hne : st.accepted.isEmpty = false := by
    cases hx : st.accepted with
    | nil => rw [hx] at hvacc; simp at hvacc
    | cons _ _ => rfl
  rw [ho]
  simp only [hne, Bool.not_false, ↓reduceIte, Good]
  exact ⟨m, k, tr, mem_forestRoots hvacc he hsrc hm, hinu, heq⟩

/-- the run invariant holds at the start -/
theorem runInv_start {env : Env} (hT : TableOk env) {tok : Nat → Tok} {P : Nat → Pos} (hp0 : P 0 = Pos.start)
    (subs : Nat → SubFrontier) :
    RunInv env tok P 0 { gss := (({} : Gss).addHead startHead).1 } [(({} : Gss).addHead startHead).2] subs := by
  have hstart : (({} : Gss).addHead startHead).1.heads[0]? = some startHead := by
    rw [addHead_heads]; rfl
  have hheads : ∀ (h : Nat) (hd : Head), (({} : Gss).addHead startHead).1.heads[h]? = some hd → h = 0 ∧ hd = startHead := by
    intro h hd hh
    rw [addHead_heads] at hh
    split at hh
    · rename_i heq; injection hh with hh; exact ⟨heq, hh.symm⟩
    · simp at hh
  have hnoedge : ∀ (e : Nat) (ed : Edge), (({} : Gss).addHead startHead).1.edges[e]? = some ed → False := by
    intro e ed he; simp [Gss.addHead] at he
  have hg : GInv env (({} : Gss).addHead startHead).1 := by
    constructor
    · intro h hd hh
      obtain ⟨_, rfl⟩ := hheads h hd hh
      exact ⟨hT.tot.start_ok, Or.inl ⟨rfl, rfl⟩, by decide, by intro tk h; simp [startHead] at h⟩
    · intro e ed he; exact absurd (hnoedge e ed he) id
    · intro e e' ed ed' n he; exact absurd (hnoedge e ed he) id
  refine ⟨⟨hg, fun _ h => by simp at h, fun _ h => by simp at h⟩, rfl, ?_, ?_, by simp, ?_, ?_, ?_, ?_,
    fun k hk => by omega, fun k hk => by omega, Or.inl ⟨rfl, rfl, startHead, hstart, rfl⟩,
    fun h hd hh hl => by omega, ?_, ?_, ?_⟩
  · intro h hh
    simp only [addHead_idx, List.mem_singleton] at hh
    subst hh
    exact ⟨⟨startHead, hstart, rfl⟩, fun e ed he => absurd (hnoedge e ed he) id⟩
  · refine ⟨fun e e' ed ed' he => absurd (hnoedge e ed he) id, fun e ed hs hd he => absurd (hnoedge e ed he) id, ?_⟩
    intro h hd hh
    obtain ⟨_, rfl⟩ := hheads h hd hh
    simp [startHead]
  · intro h hh
    simp only [addHead_idx, List.mem_singleton] at hh
    subst hh
    exact ⟨startHead, hstart, by rw [hp0]; rfl, rfl, rfl⟩
  · intro h hh h' hh' _ _ _ _ _
    simp only [addHead_idx, List.mem_singleton] at hh hh'
    rw [hh, hh']
  · intro h hd hh _
    obtain ⟨h0, _⟩ := hheads h hd hh
    simp [h0]
  · intro e ed hs hd he; exact absurd (hnoedge e ed he) id
  · intro h hd k hh hk
    obtain ⟨_, rfl⟩ := hheads h hd hh
    simp [startHead] at hk
  · intro h h' hd hd' hh hh' _ _
    rw [(hheads h hd hh).1, (hheads h' hd' hh').1]
  · intro h hh hd hhd
    obtain ⟨_, rfl⟩ := hheads h hd hhd
    exact Or.inl rfl

/-- the whole run under `LexDet`: fuel, panic, or a `Final` state -/
theorem parse_final {env : Env} (hT : TableOk env) (hC : CompleteRN env.g env.t) (hW : GWF env.g)
    {pp : Bool} {fuel n : Nat} {tok : Nat → Tok} {P L : Nat → Pos} (hL : LexDet env pp fuel n tok P L) :
    (parse env pp fuel = .fuel) ∨ (∃ s, parse env pp fuel = .panic s) ∨ Final env n tok P (parse env pp fuel) := by
  unfold parse
  simp only
  exact mainLoop_final hT hC hW hL fuel 0 _ _ [] (fun _ => []) (runInv_start hT hL.p0 _)
    (Nat.zero_le _) (fun h0 => by omega)

/-- **Completeness of the engine.**  On a certified table, under `LexDet`, with STOP never shifted: if the token kinds
    are a sentence with derivation tree `full`, `Glr.parse` does not return an error, and every result has a root
    possibility that unfolds to a tree equal to `full` modulo elision. -/
theorem parse_complete_roots {env : Env} (hT : TableOk env) (hC : CompleteRN env.g env.t) (hW : GWF env.g)
    (hNS : ∀ s s', Action.shift s' ∉ env.t.cell s 0) {pp : Bool} {fuel n : Nat} {tok : Nat → Tok} {P L : Nat → Pos}
    (hL : LexDet env pp fuel n tok P L) (full : Tree) (hv : full.Valid env.g env.g.startIdx)
    (hy : full.yield = kindsOf tok 0 n) : Good full (parse env pp fuel) := by
  -- state 0 has an action on the first token
  have halive0 : env.t.cell 0 (tok 0).kind ≠ [] := by
    obtain ⟨pr0, hpr0, _, hr0⟩ := hW.aug0
    apply live_tree hC hW full env.g.startIdx hv 0 0 0 0 pr0 0 (tok 0).kind hC.start hpr0 (by rw [hr0]; rfl)
      ⟨.nil, by rw [hr0]; simp [TreeList.Valid], by simp [TreeList.yield]⟩
    rw [hy]
    exact kindsOf_head (Nat.zero_le n) 0 hL.stop.symm
  rcases parse_final hT hC hW hL with h | ⟨s, h⟩ | h
  · rw [h]; simp [Good]
  · rw [h]; simp [Good]
  · exact final_complete hT hC hW hL halive0 full hv hy h

end Rustemo.Glr
