import Rustemo.Proofs.FrontBuild
/-!
# With `kindIdentErr` every production kind of a built grammar is a Rust identifier
(what the generator's `format_ident!` on production kinds needs; repo commit 15a0fce)
-/
namespace Rustemo.Front

def KindsOk (l : List GProd) : Prop := ∀ p, p ∈ l → ∀ k, p.kind = some k → identOk k = true

theorem KindsOk.append {l m : List GProd} (hl : KindsOk l) (hm : KindsOk m) : KindsOk (l ++ m) := by
  intro p hp
  rcases List.mem_append.mp hp with h | h
  · exact hl p h
  · exact hm p h

theorem kindCheck_ok {fx : Fixes} {m : Meta} {u : Unit} (hf : fx.kindIdentErr = true)
    (h : kindCheck fx m = .ok u) : ∀ k, kindOfMeta m = some k → identOk k = true := by
  intro k hk
  unfold kindCheck at h
  rw [hk] at h
  simp only [hf, Bool.true_and] at h
  cases hi : identOk k with
  | true => rfl
  | false =>
    rw [hi] at h
    simp at h

theorem closed_kinds (fx : Fixes) (u : Use) : Closed fx (fun s => KindsOk s.1.prods ∧ KindsOk s.2) u := by
  intro s hs _
  refine ⟨?_, ?_⟩
  · unfold createUse createOptional createOne createZero createHelper
    cases u.kind <;> exact hs.1
  · unfold createUse createOptional createOne createZero createHelper
    cases u.kind <;>
    · apply KindsOk.append hs.2
      intro p hp k hk
      simp at hp
      rcases hp with rfl | rfl <;> cases hk

theorem altStep_kinds {cx : Ctx} {rule : Rule} {nt j : Nat} {alt : Alt} {st st' : XSt}
    (hf : cx.fx.kindIdentErr = true) (hx : KindsOk st.prods) (h : altStep cx rule nt j alt st = .ok st') :
    KindsOk st'.prods := by
  unfold altStep at h
  simp only at h
  obtain ⟨res, h1, h⟩ := Outcome.bind_eq_ok.mp h
  obtain ⟨u, hu, h⟩ := Outcome.bind_eq_ok.mp h
  cases h
  have hP := rhsSteps_pres (cx := cx) (P := fun s => KindsOk s.1.prods ∧ KindsOk s.2)
    (fun _ _ u _ => closed_kinds cx.fx u)
    (s := ({ st with nextProd := st.nextProd + 1 }, [])) ⟨hx, by intro p hp; simp at hp⟩ h1
  show KindsOk (res.2.1.prods ++ [_] ++ res.2.2)
  apply KindsOk.append (KindsOk.append hP.1 _) hP.2
  intro p hp k hk
  simp at hp
  subst hp
  exact kindCheck_ok hf hu k hk

theorem altSteps_kinds {cx : Ctx} {rule : Rule} {nt : Nat} (hf : cx.fx.kindIdentErr = true) :
    ∀ {alts : List Alt} {j : Nat} {st st' : XSt}, KindsOk st.prods → altSteps cx rule nt j alts st = .ok st' →
      KindsOk st'.prods
  | [], _, _, _, hx, h => by
    cases h
    exact hx
  | a :: as, j, st, st', hx, h => by
    unfold altSteps at h
    obtain ⟨st1, h1, h2⟩ := Outcome.bind_eq_ok.mp h
    exact altSteps_kinds hf (altStep_kinds hf hx h1) h2

theorem ruleSteps_kinds {cx : Ctx} (hf : cx.fx.kindIdentErr = true) :
    ∀ {rules : List Rule} {st st' : XSt}, KindsOk st.prods → ruleSteps cx rules st = .ok st' → KindsOk st'.prods
  | [], _, _, hx, h => by
    cases h
    exact hx
  | r :: rs, st, st', hx, h => by
    unfold ruleSteps at h
    obtain ⟨st1, h1, h2⟩ := Outcome.bind_eq_ok.mp h
    refine ruleSteps_kinds hf ?_ h2
    rcases ruleStep_ok h1 with ⟨nt, hfn, h1⟩ | ⟨hfn, h1⟩
    · exact altSteps_kinds hf hx h1
    · exact altSteps_kinds (st := { st with nextNt := st.nextNt + 1 }) hf hx h1

theorem createAug_kinds {a b : Name} {st : XSt} (hx : KindsOk st.prods) : KindsOk (createAug a b st).prods := by
  show KindsOk (st.prods ++ [_])
  apply KindsOk.append hx
  intro p hp k hk
  simp at hp
  subst hp
  cases hk

theorem extract_kinds {cx : Ctx} {r0 : Rule} {rules : List Rule} {st : XSt} (hf : cx.fx.kindIdentErr = true)
    (h : extract cx r0 rules = .ok st) : KindsOk st.prods := by
  unfold extract at h
  simp only at h
  refine ruleSteps_kinds hf ?_ h
  have h0 : KindsOk xst0.prods := by intro p hp; simp [xst0] at hp
  split
  · exact createAug_kinds (createAug_kinds h0)
  · exact createAug_kinds h0

/-- every production kind of a grammar built by a variant with `kindIdentErr` is a Rust identifier -/
theorem build_kinds {fx : Fixes} {f : File} {g : Grammar} (hf : fx.kindIdentErr = true) (h : build fx f = .ok g) :
    ∀ p, p ∈ g.prods → ∀ k, p.kind = some k → identOk k = true := by
  obtain ⟨ph⟩ := build_phases h
  have hrel := (build_prods_rel ph).1
  have hk : KindsOk ph.xs.1.prods := by
    rcases rulePhase_ok ph.hxs with ⟨_, hx⟩ | ⟨r0, rs, _, hext, _⟩
    · rw [hx]
      intro p hp
      simp at hp
    · exact extract_kinds (cx := ctxOf fx f ph.ts) hf hext
  intro p hp k hkk
  obtain ⟨i, hi⟩ := List.getElem?_of_mem hp
  obtain ⟨q, hq, rhs', e, _⟩ := forall₂_get hrel i p hi
  rw [e] at hkk
  exact hk q (List.mem_of_getElem? hq) k hkk

end Rustemo.Front
