import Rustemo.Proofs.GlrClosure11
/-!
# The fold case of `reducePath` and the closure invariant
-/
namespace Rustemo.Glr
open Rustemo

theorem closure_fold {env : Env} (hT : TableOk env) (hC : CompleteRN env.g env.t) (hW : GWF env.g) {F a : Nat}
    {rs : RState} (hI : RInv env F rs) (hU : UInv F a rs.gss rs.sub)
    {p0 len0 : Nat} {pr0 : Prod} {startHead : Nat} {sh : Head} {tk : Tok} {q : Path}
    (pc : PathCtx env F a rs p0 len0 pr0 startHead sh tk q) {rest : List Path}
    (hinv : RCInvR env F a rs (Rem p0 len0 (q :: rest)))
    {hr : Head} (hhr : rs.gss.heads[q.root]? = some hr) {s' : Nat}
    (hgoto : env.t.goto env.g hr.state pr0.lhs = some s')
    {hA e : Nat} {ed : Edge} (hget : sfGet s' rs.sub = some hA) (hed : rs.gss.edges[e]? = some ed)
    (hsrc : ed.src = hA) (hdst : ed.dst = q.root) (hdiff : allDiffer rs.gss p0 q.parents ed.poss = false)
    {rs' : RState} (hrs' : rs' = { rs with gss := replaceChildren rs.gss p0 q.parents ed.poss })
    (hI' : RInv env F rs') :
    UInv F a rs'.gss rs'.sub ∧ RCInvR env F a rs' (Rem p0 len0 rest) := by
  have hspec := replaceChildren_spec rs.gss p0 q.parents ed.poss
  have hheads : rs'.gss.heads = rs.gss.heads := by
    rw [hrs']; cases hspec with
    | same h1 _ => simp only; rw [h1]
    | one _ _ _ _ _ _ _ _ h5 _ _ => exact h5
  have hedges : rs'.gss.edges = rs.gss.edges := by
    rw [hrs']; cases hspec with
    | same h1 _ => simp only; rw [h1]
    | one _ _ _ _ _ _ _ _ _ h6 _ => exact h6
  have hsubeq : rs'.sub = rs.sub := by rw [hrs']
  have hqueue : rs'.queue = rs.queue := by rw [hrs']
  have hU' : UInv F a rs'.gss rs'.sub := by
    rw [hsubeq]
    exact hU.of_same hheads (fun e ed' he => ⟨ed', by rw [← hedges]; exact he, rfl, rfl⟩)
  refine ⟨hU', ?_⟩
  have hgrow : Grow rs rs' none none hA q.root := by
    refine ⟨fun i hd h => by rw [hheads]; exact h, fun i hd h => Or.inl (by rw [← hheads]; exact h),
      fun e ed h => ⟨ed, by rw [hedges]; exact h, rfl, rfl, fun n hn => hn⟩,
      fun e ed' h => Or.inl ⟨ed', by rw [← hedges]; exact h, rfl, rfl⟩,
      fun x h => by rw [hsubeq]; exact h, fun x h => Or.inl (by rw [← hsubeq]; exact h),
      fun r h => by rw [hqueue]; exact h, fun i h => by simp at h, fun e h => by simp at h⟩
  -- the head of the edge is entered on the production's left-hand side
  obtain ⟨ha, hha, hhas, hhaF, _⟩ := hI.sub _ _ (sfGet_mem hget)
  have hA' : env.g.nterms ≤ pr0.lhs := hW.lhs_nonterm _ _ pc.hpr0
  have htr2 : env.t.trans env.g hr.state pr0.lhs s' := by
    unfold Table.trans
    have : ¬ pr0.lhs < env.g.nterms := by omega
    simp only [this, ↓reduceIte]; exact hgoto
  have hsymA : env.t.symAt ha.state = pr0.lhs := by rw [hhas]; exact hT.sym _ _ _ htr2
  have hnoterm := no_term_on_goto_edge hW hI.g hed (by rw [hsrc]; exact hha) pc.hpr0 hsymA
  -- after the fold some possibility extends the path
  obtain ⟨nC, hnC, spC, lC, CC, hndC, hQC⟩ := fold_covers hdiff hnoterm
  have hndC' : rs'.gss.nodes[nC]? = some (.nonterm p0 spC lC CC) := by rw [hrs']; exact hndC
  have hed' : rs'.gss.edges[e]? = some ed := by rw [hedges]; exact hed
  have hget' : sfGet s' rs'.sub = some hA := by rw [hsubeq]; exact hget
  have hqc' : ChainEnd env.t rs'.gss q.parents (pr0.rhs.take q.parents.length) q.root startHead := by
    rw [pc.hql]; exact hgrow.chain_fwd pc.hqc
  have hsh' : rs'.gss.heads[startHead]? = some sh := by rw [hheads]; exact pc.hsh
  intro u p pr P s'' hk
  have hk0 := hgrow.kchain_back hI.g hk (fun e _ => by simp) (by simp)
  rcases hinv u p pr P s'' hk0 with hcov | hpend | hrem
  · -- covered before: the covering node may be the one whose children were replaced
    left
    obtain ⟨hA1, e1, ed1, n, sp, l, C, k1, k2, k3, k4, k5, k6, k7⟩ := hcov
    cases hspec with
    | same h1 _ =>
      exact ⟨hA1, e1, ed1, n, sp, l, C, by rw [hsubeq]; exact k1, by rw [hedges]; exact k2, k3, k4, k5,
        by rw [hrs']; simp only; rw [h1]; exact k6, k7⟩
    | one n0 sp0 l0 C0 m1 m2 m3 m4 m5 m6 m7 =>
      have hnodes' : ∀ m, rs'.gss.nodes[m]? = if n0 = m then some (.nonterm p0 sp0 l0 q.parents) else rs.gss.nodes[m]? := by
        intro m; rw [hrs']; exact m7 m
      by_cases hn0 : n0 = n
      · subst hn0
        rw [m2] at k6; injection k6 with k6; injection k6 with kp ksp kl kC
        subst kp; subst kC
        -- the node sits on edge `e` only
        have hnt : ¬ isTermNode rs.gss n0 := by
          rintro ⟨tk', sp', h⟩; rw [m2] at h; simp at h
        have hee : e1 = e := hI.g.uniq e1 e ed1 ed n0 k2 hed k5 m1 hnt
        subst hee
        rw [hed] at k2; injection k2 with k2; subst k2
        have hu0 : u = q.root := by rw [← k4, hdst]
        subst hu0
        obtain ⟨hprq, hs⟩ := kchain_goto_eq hk pc.hpr0 (by rw [hheads]; exact hhr) hgoto
        subst hprq
        refine ⟨hA1, e1, ed, n0, sp0, l0, q.parents, by rw [hsubeq]; exact k1, hed', k3, k4, k5,
          by rw [hnodes']; simp, ?_⟩
        have hC0Q : C0 <+: q.parents := by
          rcases (zipEq_iff _ _).mp m4 with h | h
          · have := h.length_le; omega
          · exact h
        rcases k7 with h | h
        · -- the old children are a prefix of the chain: compare the chain with the path beyond them
          obtain ⟨v, hcP, _⟩ := hk.chain
          -- the old children end on level F
          obtain ⟨hs1, hd1, hhs1, _, _, hposs1⟩ := (hI.g.edges e1 ed hed).ends
          obtain ⟨nd1, hnd1, hfit1⟩ := hposs1 n0 k5
          rw [m2] at hnd1; injection hnd1 with hnd1; subst hnd1
          obtain ⟨pr1, hpr1, _, _, _, hch1⟩ := hfit1
          have := pc.hpr0; rw [hpr1] at this; injection this with this; subst this
          obtain ⟨vC, hvC, hcC, hhvC, hFvC⟩ := ChildrenOk.toChain hch1
          rw [hsrc, hha] at hhs1; injection hhs1 with hhs1; subst hhs1
          have hPC : P.take C0.length = C0 := by
            obtain ⟨t, ht⟩ := h; rw [← ht]; simp
          have hQCt : q.parents.take C0.length = C0 := by
            obtain ⟨t, ht⟩ := hC0Q; rw [← ht]; simp
          have := comparable_of_common_prefix hC hI'.g hU' hI'.sub (rhs := pr1.rhs) hcP hqc' C0.length
            (by rw [hPC, hQCt]) (w := vC) ⟨_, by rw [hPC, ← hdst]; exact hgrow.chain_fwd hcC⟩
            (by rw [hheads]; exact hhvC) (by rw [hFvC, hhaF])
          exact this.symm
        · exact Or.inr (h.trans hC0Q)
      · exact ⟨hA1, e1, ed1, n, sp, l, C, by rw [hsubeq]; exact k1, by rw [hedges]; exact k2, k3, k4, k5,
          by rw [hnodes']; simp [hn0, k6], k7⟩
  · exact Or.inr (Or.inl (hgrow.pending_fwd hpend))
  · rcases rem_cons hrem with ⟨hp, hlen, hpar, hroot⟩ | h
    · left
      subst hp; subst hroot
      obtain ⟨hprq, hs⟩ := kchain_goto_eq hk pc.hpr0 (by rw [hheads]; exact hhr) hgoto
      subst hprq; subst hs
      exact covered_of_path_node hC hI'.g hU' hI'.sub hqc' hsh' pc.hshF hget' hed' hsrc hdst hnC hndC' hQC hk
        (by rw [pc.hql, ← hpar])
    · exact Or.inr (Or.inr h)

end Rustemo.Glr
