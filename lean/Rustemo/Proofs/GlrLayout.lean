import Rustemo.Proofs.GlrTop
/-!
# The nested LR layout parser never panics on a right-nulled table

`C15_lr_no_panic` needs `Cert.structural`, which a table with right-nulled reduce entries fails.  The panic
freedom of the LR loop only needs the path facts (an item with dot `d` on top means `d` stack entries above a
state holding the initial item), which hold of `StructuralRN` as well.  This discharges `LayoutSafe` from an
executable certificate for EVERY table the engine is run on (`Cert.glrLayout`).
-/
namespace Rustemo.Glr
open Rustemo

/-- the stack spells a path of the automaton (no claim about the trees) -/
def PathInv' (g : Grammar) (t : Table) (start : Nat) : List (Nat × Tree) → Prop
  | [] => True
  | (s, _) :: below => (∃ X, t.trans g (topOf start below) X s) ∧ PathInv' g t start below

theorem pathInv'_drop (g : Grammar) (t : Table) (start : Nat) (st : List (Nat × Tree)) (n : Nat) :
    PathInv' g t start st → PathInv' g t start (st.drop n) := by
  induction n generalizing st with
  | zero => simp
  | succ n ih =>
    cases st with
    | nil => simp [PathInv']
    | cons e b =>
      obtain ⟨s, tr⟩ := e
      intro h; simpa using ih b h.2

theorem path_lemma' (g : Grammar) (t : Table) (autos : List Auto) (hs : StructuralRN g t autos)
    (au : Auto) (hin : au ∈ autos) (start : Nat) (hstart : start = au.start) :
    ∀ (d : Nat) (st : List (Nat × Tree)) (p : Nat), PathInv' g t start st →
      t.hasItem (topOf start st) p d → d ≤ st.length ∧ t.hasItem (topOf start (st.drop d)) p 0 := by
  intro d
  induction d with
  | zero => intro st p _ hi; exact ⟨Nat.zero_le _, by simpa using hi⟩
  | succ d ih =>
    intro st p hp hi
    cases st with
    | nil =>
      have := hs.start_items au hin p (d+1) (by rw [← hstart]; simpa [topOf] using hi)
      omega
    | cons e below =>
      obtain ⟨s, tr⟩ := e
      obtain ⟨⟨X, htr⟩, hbelow⟩ := hp
      have hi' : t.hasItem s p (d+1) := by simpa [topOf] using hi
      obtain ⟨_, hsrc⟩ := hs.target_items _ X s p d htr hi'
      obtain ⟨hlen, h0⟩ := ih below p hbelow hsrc
      exact ⟨by simp; omega, by simpa using h0⟩

theorem cstep_preserves' (g : Grammar) (t : Table) (autos : List Auto) (hs : StructuralRN g t autos) (start : Nat)
    (leafOf : Nat → Tree) (nodeOf : Nat → List Tree → Tree) (c c' : CCfg) (a : Nat)
    (hinv : PathInv' g t start c.stack)
    (hstep : cstepWith g t start leafOf nodeOf c a = .shift c' ∨
             cstepWith g t start leafOf nodeOf c a = .reduce c') : PathInv' g t start c'.stack := by
  unfold cstepWith at hstep
  split at hstep
  · simp at hstep
  · rename_i act acts hcell
    have hmem : act ∈ t.cell (topOf start c.stack) a := by rw [hcell]; simp
    split at hstep
    · rename_i s'
      have hc : c' = ⟨(s', leafOf a) :: c.stack, a :: c.shifted⟩ := by
        rcases hstep with h | h
        · injection h with h; exact h.symm
        · simp at h
      subst hc
      have hterm := hs.shift_term _ _ _ hmem
      exact ⟨⟨a, by unfold Table.trans; simp [hterm, hmem]⟩, hinv⟩
    · rename_i p len
      split at hstep
      · simp at hstep
      · split at hstep
        · simp at hstep
        · rename_i pr hpr
          split at hstep
          · simp at hstep
          · rename_i s' hgoto
            have hc : c' = ⟨(s', nodeOf p ((c.stack.take len).reverse.map (·.2))) :: c.stack.drop len,
                             c.shifted⟩ := by
              rcases hstep with h | h
              · simp at h
              · injection h with h; exact h.symm
            subst hc
            have hA : g.nterms ≤ pr.lhs := by
              unfold Table.goto at hgoto
              split at hgoto
              · assumption
              · simp at hgoto
            refine ⟨⟨pr.lhs, ?_⟩, pathInv'_drop g t start _ _ hinv⟩
            unfold Table.trans
            have : ¬ pr.lhs < g.nterms := by omega
            simp only [this, ↓reduceIte]
            exact hgoto
    · split at hstep <;> simp at hstep

theorem step_no_panic' (env : Env) (nt : Ctx → Ctx × Outcome Tok) (autos : List Auto) (au : Auto) (hin : au ∈ autos)
    (start : Nat) (hstart : start = au.start) (c : Cfg)
    (hs : StructuralRN env.g env.t autos) (ht : Total env.g env.t start)
    (hnt : NtGood env.t nt) (hf : FInv start c) (hc : PathInv' env.g env.t start c.abs.stack) :
    StepNotPanic (step env nt c) := by
  have htop := topState_abs hf.len hf.bottom
  unfold step
  rw [htop]
  simp only
  split
  · trivial
  · rename_i act acts hcell
    have hcell' : env.t.cell (topOf start (absStack c)) c.tok.kind = act :: acts := hcell
    have hmem : act ∈ env.t.cell (topOf start c.abs.stack) c.tok.kind := by
      show act ∈ env.t.cell (topOf start (absStack c)) c.tok.kind
      rw [hcell']; simp
    split
    · rename_i s'
      apply liftTok_notPanic
      exact (hnt _ (ht.shift_range _ _ _ hmem)).1
    · rename_i p len
      obtain ⟨hitem, pr, hpr, _, _⟩ := hs.reduce_item _ _ _ _ hmem
      obtain ⟨hlen, h0⟩ := path_lemma' env.g env.t autos hs au hin start hstart len c.abs.stack p hc hitem
      have habs : c.abs.stack.length = c.res.length := by
        show (absStack c).length = c.res.length
        simp only [absStack, List.length_zip, List.length_map]
        have := hf.len; omega
      have hl1 : ¬ c.stack.length < len := by have := hf.len; omega
      simp only [hl1, ↓reduceIte]
      have hlt : len < c.stack.length := by have := hf.len; omega
      have hlen2 : (c.stack.drop len).length = (c.res.drop len).length + 1 := by
        simp only [List.length_drop]; have := hf.len; omega
      have hbot2 : (c.stack.drop len).getLast?.map (·.state) = some start := by
        rw [getLast?_drop _ _ hlt]; exact hf.bottom
      have htop2 := topState_abs hlen2 hbot2
      rw [htop2]
      simp only [hpr]
      have hdropabs : c.abs.stack.drop len =
          ((c.stack.drop len).map (·.state)).zip (c.res.drop len) := by
        show (absStack c).drop len = _
        simp [absStack, List.zip, List.drop_zipWith, List.map_drop]
      rw [hdropabs] at h0
      obtain ⟨s', hgoto⟩ := ht.goto_total _ p pr h0 hpr (ht.no_reduce_aug _ _ _ _ hmem)
      rw [hgoto]
      simp only
      have hl2 : ¬ c.res.length < len := by omega
      simp only [hl2, ↓reduceIte]
      apply liftTok_notPanic
      exact (hnt _ (ht.goto_range _ _ _ hgoto)).1
    · obtain ⟨au', _, pr, hpr, _, hitem⟩ := hs.accept_item _ _ hmem
      obtain ⟨hlen, _⟩ := path_lemma' env.g env.t autos hs au hin start hstart 1 c.abs.stack au'.aug hc hitem
      have habs : c.abs.stack.length = c.res.length := by
        show (absStack c).length = c.res.length
        simp only [absStack, List.length_zip, List.length_map]
        have := hf.len; omega
      split
      · rename_i hres
        have h0 : c.abs.stack.length = 0 := by rw [habs, hres]; rfl
        omega
      · trivial

theorem runLoop_no_panic' (env : Env) (nt : Ctx → Ctx × Outcome Tok) (autos : List Auto) (au : Auto) (hin : au ∈ autos)
    (start : Nat) (hstart : start = au.start)
    (hs : StructuralRN env.g env.t autos) (ht : Total env.g env.t start) (hnt : NtGood env.t nt) :
    ∀ (fuel : Nat) (c : Cfg), FInv start c → PathInv' env.g env.t start c.abs.stack →
      NotPanic (runLoop env nt fuel c).2 := by
  intro fuel
  induction fuel with
  | zero => intro c _ _; simp [runLoop, NotPanic]
  | succ n ih =>
    intro c hf hc
    unfold runLoop
    have hsp := step_no_panic' env nt autos au hin start hstart c hs ht hnt hf hc
    split
    · rename_i c' hstep
      obtain ⟨hf', leafOf, nodeOf, _, hcs⟩ := step_refines env nt start c c' hf hstep
      have hc' := cstep_preserves' env.g env.t autos hs start leafOf nodeOf c.abs c'.abs c.tok.kind hc hcs
      exact ih c' hf' hc'
    · simp [NotPanic]
    · rename_i ctx o hstep
      rw [hstep] at hsp
      exact hsp

theorem parseWith_no_panic' (env : Env) (nt : Ctx → Ctx × Outcome Tok) (autos : List Auto) (au : Auto) (hin : au ∈ autos)
    (start : Nat) (hstart : start = au.start)
    (hs : StructuralRN env.g env.t autos) (ht : Total env.g env.t start) (hnt : NtGood env.t nt)
    (ctx0 : Ctx) (h0 : ctx0.state < env.t.states.size) (fuel : Nat) :
    NotPanic (parseWith env nt start ctx0 fuel).2 := by
  unfold parseWith
  simp only
  have hn := (hnt ctx0 h0).1
  split
  · exact runLoop_no_panic' env nt autos au hin start hstart hs ht hnt fuel _ ⟨by simp, by simp⟩
      (by simp [Cfg.abs, absStack, PathInv'])
  · simp [NotPanic]
  · rename_i hnt1; rw [hnt1] at hn; simp [NotPanic] at hn
  · simp [NotPanic]

/-- `LayoutSafe` from the certificates: the layout automaton is one of the automata of the structural
    certificate and passes `Cert.total` -/
theorem layoutSafe_of_cert (env : Env) (hcert : Cert.glr env.g env.t = true)
    (hlay : Cert.glrLayout env.g env.t = true) : LayoutSafe env := by
  intro ls hls ctx fuel
  have hT := tableOk_of_cert env hcert
  unfold Cert.glrLayout at hlay
  rw [hls] at hlay
  simp only [Bool.and_eq_true, List.any_eq_true, beq_iff_eq] at hlay
  obtain ⟨⟨au, hau, hst⟩, htl⟩ := hlay
  have hTl := Cert.total_sound _ _ _ htl
  unfold layoutParse
  exact parseWith_no_panic' env _ (autosOf env.g env.t) au hau ls hst.symm hT.s hTl (ntGood_base env ls hTl true) _
    hTl.start_ok fuel

end Rustemo.Glr
