import Rustemo.Proofs.GlrFrontier
/-!
# `shifter`
-/
namespace Rustemo.Glr
open Rustemo

variable {A : Prop}

/-- the shifter's map of new heads: on level `F'`, no lookahead yet, terminal-only parent links -/
def MapOk (g : Gss) (F' : Nat) (m : BaseMap) : Prop :=
  ∀ k i, (k, i) ∈ m → (∃ hd : Head, g.heads[i]? = some hd ∧ hd.state = k.1 ∧ hd.frontier = F') ∧ TermEdges g i

theorem mem_baseInsert {k : Nat × Pos} {h : Nat} : ∀ {m : BaseMap} {x : (Nat × Pos) × Nat},
    x ∈ baseInsert k h m → x = (k, h) ∨ x ∈ m
  | [], x, hx => by simp [baseInsert] at hx; exact Or.inl hx
  | (k', h') :: rest, x, hx => by
    simp only [baseInsert] at hx
    split at hx
    · rcases List.mem_cons.mp hx with h1 | h1
      · exact Or.inl h1
      · exact Or.inr h1
    · split at hx
      · rcases List.mem_cons.mp hx with h1 | h1
        · exact Or.inl h1
        · exact Or.inr (List.mem_cons_of_mem _ h1)
      · rcases List.mem_cons.mp hx with h1 | h1
        · exact Or.inr (by rw [h1]; exact List.mem_cons_self)
        · rcases mem_baseInsert h1 with h2 | h2
          · exact Or.inl h2
          · exact Or.inr (List.mem_cons_of_mem _ h2)

theorem baseGet_mem {k : Nat × Pos} {h : Nat} {m : BaseMap} (hg : baseGet k m = some h) : (k, h) ∈ m := by
  unfold baseGet at hg
  cases hf : m.find? (fun e => e.1 == k) with
  | none => rw [hf] at hg; simp at hg
  | some e =>
    rw [hf] at hg
    simp only [Option.map_some, Option.some.injEq] at hg
    have h1 := List.mem_of_find?_eq_some hf
    have h2 := List.find?_some hf
    simp only [beq_iff_eq] at h2
    have : e = (k, h) := by cases e; simp_all
    rw [← this]; exact h1

/-- a terminal node packed on the edge `src → dst` (existing or new) -/
theorem addSolution_term {env : Env} {g : Gss} (hg : GInv env g) {src dst : Nat} {hs hd : Head} {tk : Tok} {sp : Span}
    (hhs : g.heads[src]? = some hs) (hhd : g.heads[dst]? = some hd)
    (htr : env.t.trans env.g hd.state (env.t.symAt hs.state) hs.state)
    (hk : tk.kind = env.t.symAt hs.state) (hterm : tk.kind < env.g.nterms) (hlvl : hd.frontier + 1 = hs.frontier) :
    GInv env ((g.addNode (.term tk sp)).1.addSolution src dst g.nodes.size) ∧
    Ext g ((g.addNode (.term tk sp)).1.addSolution src dst g.nodes.size) ∧
    ((g.addNode (.term tk sp)).1.addSolution src dst g.nodes.size).heads = g.heads ∧
    (∀ (e : Nat) (ed : Edge), ((g.addNode (.term tk sp)).1.addSolution src dst g.nodes.size).edges[e]? = some ed →
      ∀ n ∈ ed.poss, (∃ ed0 : Edge, g.edges[e]? = some ed0 ∧ ed0.src = ed.src ∧ n ∈ ed0.poss) ∨ (n = g.nodes.size ∧ ed.src = src)) ∧
    (∀ (n : Nat) (nd : SNode), g.nodes[n]? = some nd → ((g.addNode (.term tk sp)).1.addSolution src dst g.nodes.size).nodes[n]? = some nd) ∧
    isTermNode ((g.addNode (.term tk sp)).1.addSolution src dst g.nodes.size) g.nodes.size := by
  have hx1 := ext_addNode g (.term tk sp)
  have hg1 := hg.addNode (.term tk sp)
  have hnew : (g.addNode (.term tk sp)).1.nodes[g.nodes.size]? = some (.term tk sp) := by
    rw [addNode_nodes, if_pos rfl]
  have hfit : NodeFits env (g.addNode (.term tk sp)).1 (.term tk sp) (env.t.symAt hs.state) dst hs.frontier :=
    ⟨hk, by rw [← hk]; exact hterm, hd, hhd, hlvl⟩
  have hfresh : ∀ (e' : Nat) (ed' : Edge), (g.addNode (.term tk sp)).1.edges[e']? = some ed' → g.nodes.size ∉ ed'.poss := by
    intro e' ed' he' hmem
    obtain ⟨_, _, _, _, _, hposs⟩ := (hg.edges e' ed' he').ends
    obtain ⟨nd, hnd, _⟩ := hposs _ hmem
    have := lt_of_getElem?_some hnd
    omega
  unfold Gss.addSolution
  cases hb : (g.addNode (.term tk sp)).1.edgeBetween src dst with
  | some e =>
    simp only
    obtain ⟨ed, hed, hsrc, hdst⟩ := edgeBetween_some hb
    have hgp := hg1.pushPoss e g.nodes.size ed (.term tk sp) hs (Or.inl rfl) hed hnew (by rw [hsrc]; exact hhs)
      (by rw [hdst]; exact hfit) hfresh
    refine ⟨hgp, hx1.trans (ext_pushPoss _ _ _), by simp, ?_, ?_, ?_⟩
    · intro e' ed' he' n hn
      rw [pushPoss_edges _ e _ ed hed] at he'
      split at he'
      · rename_i heq; subst heq
        injection he' with he'; subst he'
        simp only [List.mem_append, List.mem_singleton] at hn
        rcases hn with hn | hn
        · exact Or.inl ⟨ed, hed, rfl, hn⟩
        · exact Or.inr ⟨hn, hsrc⟩
      · exact Or.inl ⟨ed', he', rfl, hn⟩
    · intro n nd hn; rw [pushPoss_nodes]; exact addNode_old hn
    · exact ⟨tk, sp, by rw [pushPoss_nodes]; exact hnew⟩
  | none =>
    simp only
    have hga := GInvX.addEdge hg1 src dst [g.nodes.size] hs hd hhs hhd htr
      (by
        intro n hn
        simp only [List.mem_singleton] at hn; subst hn
        exact ⟨⟨tk, sp, hnew⟩, _, hnew, hfit⟩)
    simp only [List.cons_ne_self, ↓reduceIte, reduceCtorEq] at hga
    refine ⟨hga, hx1.trans (ext_addEdge _ _ _ _), rfl, ?_, ?_, ?_⟩
    · intro e' ed' he' n hn
      rw [addEdge_edges] at he'
      split at he'
      · injection he' with he'; subst he'
        simp only [List.mem_singleton] at hn
        exact Or.inr ⟨hn, rfl⟩
      · exact Or.inl ⟨ed', he', rfl, hn⟩
    · intro n nd hn; exact addNode_old hn
    · exact ⟨tk, sp, hnew⟩

theorem tokOf_ok {hd : Head} {tk : Tok} (h : hd.tok = some tk) : tokOf hd = .ok tk := by
  unfold tokOf; rw [h]

theorem shiftOne_sat {env : Env} (hT : TableOk env) {F : Nat} {g : Gss} {m : BaseMap} (hg : GInv env g)
    (hm : MapOk g (F + 1) m) {sh : Nat × Nat} (hsh : ShiftOk env g F sh) :
    Sat A (fun r => GInv env r.1 ∧ Ext g r.1 ∧ MapOk r.1 (F + 1) r.2) (shiftOne env (F + 1) (g, m) sh) := by
  obtain ⟨hd, tk, hhd, htk, hF, hact⟩ := hsh
  have hterm := hT.s.shift_term _ _ _ hact
  have htrans : env.t.trans env.g hd.state tk.kind sh.2 := by
    unfold Table.trans; simp only [hterm, ↓reduceIte]; exact hact
  have hsym : env.t.symAt sh.2 = tk.kind := hT.sym _ _ _ htrans
  have hokd := hg.heads _ hd hhd
  unfold shiftOne
  simp only
  rw [head_sat' _ _ _ hhd]
  simp only [obind]
  rw [tokOf_ok htk]
  simp only
  -- terminal edges survive `addSolution` of a terminal node
  have keepTerm : ∀ {g0 : Gss} {src dst : Nat} {sp : Span},
      (∀ (e : Nat) (ed : Edge), ((g0.addNode (.term tk sp)).1.addSolution src dst g0.nodes.size).edges[e]? = some ed →
        ∀ n ∈ ed.poss, (∃ ed0 : Edge, g0.edges[e]? = some ed0 ∧ ed0.src = ed.src ∧ n ∈ ed0.poss) ∨ (n = g0.nodes.size ∧ ed.src = src)) →
      (∀ (n : Nat) (nd : SNode), g0.nodes[n]? = some nd → ((g0.addNode (.term tk sp)).1.addSolution src dst g0.nodes.size).nodes[n]? = some nd) →
      isTermNode ((g0.addNode (.term tk sp)).1.addSolution src dst g0.nodes.size) g0.nodes.size →
      ∀ i, TermEdges g0 i → TermEdges ((g0.addNode (.term tk sp)).1.addSolution src dst g0.nodes.size) i := by
    intro g0 src dst sp h4 h5 h6 i hti e ed he hsrc n hn
    rcases h4 e ed he n hn with ⟨ed0, hed0, hs0, hn0⟩ | ⟨hn0, _⟩
    · exact (hti e ed0 hed0 (by rw [hs0, hsrc]) n hn0).mono h5
    · rw [hn0]; exact h6
  split
  · -- a head for (state, position) exists already
    rename_i shifted hget
    obtain ⟨⟨shd, hshd, hss, hsf⟩, hste⟩ := hm _ _ (baseGet_mem hget)
    rw [head_sat' _ _ _ hshd]
    simp only [obind, addNode_idx]
    obtain ⟨k1, k2, k3, k4, k5, k6⟩ := addSolution_term (sp := tk.span) hg hshd hhd
      (by rw [hss]; simp only; rw [hsym]; exact htrans)
      (by rw [hss]; simp only; rw [hsym]) hterm (by rw [hsf, hF])
    refine ⟨k1, k2, ?_⟩
    intro k i hki
    obtain ⟨⟨hdi, hhdi, h1, h2⟩, hti⟩ := hm k i hki
    exact ⟨⟨hdi, by rw [k3]; exact hhdi, h1, h2⟩, keepTerm k4 k5 k6 i hti⟩
  · -- a new head
    rename_i hget
    simp only [addNode_idx, addHead_idx, addHead_nodes]
    generalize hnh : (⟨sh.2, F + 1, posAfter (sliceOf env.input tk.val) hd.pos, tk.span, none, none⟩ : Head) = nh
    have hoknh : HeadOk env nh := by
      rw [← hnh]
      refine ⟨hT.tot.shift_range _ _ _ hact, Or.inr fun au hau heq => hT.s.no_into_start au hau _ _ (by
        have : sh.2 = au.start := heq
        rw [← this]; exact htrans), ?_, by intro tk' h; simp at h⟩
      exact posLe_trans (show posLe tk.span.s hd.pos from hokd.tok tk htk) (posAfter_le _ _)
    have hg0 := hg.addHead nh hoknh
    have hx0 := ext_addHead g nh
    have hnhd : (g.addHead nh).1.heads[g.heads.size]? = some nh := by rw [addHead_heads, if_pos rfl]
    obtain ⟨hd', hhd', hds', hdf', _⟩ := hx0.heads _ hd hhd
    have hnhs : nh.state = sh.2 := by rw [← hnh]
    have hnhf : nh.frontier = F + 1 := by rw [← hnh]
    obtain ⟨k1, k2, k3, k4, k5, k6⟩ := addSolution_term (sp := tk.span) hg0 hnhd hhd'
      (by rw [hnhs, hds', hsym]; exact htrans) (by rw [hnhs, hsym]) hterm (by rw [hdf', hF, hnhf])
    simp only [addHead_nodes] at k1 k2 k3 k4 k5 k6
    refine ⟨k1, hx0.trans k2, ?_⟩
    intro k i hki
    rcases mem_baseInsert hki with heq | hold
    · injection heq with e1 e2; subst e1 e2
      refine ⟨⟨nh, by rw [k3]; exact hnhd, hnhs, hnhf⟩, ?_⟩
      apply keepTerm k4 k5 k6
      intro e ed he hsrc
      obtain ⟨hs0, _, hhs0, _⟩ := (hg.edges e ed he).ends
      have := lt_of_getElem?_some hhs0
      omega
    · obtain ⟨⟨hdi, hhdi, h1, h2⟩, hti⟩ := hm k i hold
      obtain ⟨hdi', hhdi', h1', h2', _⟩ := hx0.heads _ hdi hhdi
      exact ⟨⟨hdi', by rw [k3]; exact hhdi', by rw [h1', h1], by rw [h2', h2]⟩, keepTerm k4 k5 k6 i hti⟩

theorem shifter_sat {env : Env} (hT : TableOk env) {F : Nat} {st : St} (hs : StOk env F st) :
    Sat A (fun r => StOk env (F + 1) r.1 ∧ Ext st.gss r.1.gss ∧ BaseOk r.1.gss (F + 1) r.2 ∧ r.1.accepted = st.accepted)
      (shifter env (F + 1) st) := by
  unfold shifter
  apply Sat.bind (foldO_sat (I := fun r => GInv env r.1 ∧ Ext st.gss r.1 ∧ MapOk r.1 (F + 1) r.2) st.shifts (st.gss, [])
    ⟨hs.g, Ext.refl _, fun _ _ h => by simp at h⟩
    (fun acc sh hsh ⟨h1, h2, h3⟩ => (shiftOne_sat hT h1 h3 ((hs.shifts sh hsh).ext h2)).mono
      fun r ⟨k1, k2, k3⟩ => ⟨k1, h2.trans k2, k3⟩))
  rintro ⟨g', m⟩ ⟨h1, h2, h3⟩
  refine ⟨⟨h1, fun _ h => by simp at h, fun h hh => (hs.acc h hh).ext h2⟩, h2, ?_, rfl⟩
  intro i hi
  simp only [List.mem_map] at hi
  obtain ⟨⟨k, i'⟩, hki, rfl⟩ := hi
  obtain ⟨⟨hd, hhd, _, hf⟩, hte⟩ := h3 k i' hki
  exact ⟨⟨hd, hhd, hf⟩, hte⟩

end Rustemo.Glr
