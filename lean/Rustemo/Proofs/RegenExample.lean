import Rustemo.Proofs.Regen
/-!
# Concrete actions files used by the counterexample and non-vacuity statements of C18

Grammar (witness of finding F17, reproduced against the real compiler by `tools/props/c18.py`):

    S: Ka A Num;   A: x=Num y=Id | EMPTY;   terminals  Ka: 'a';  Num: /\d+/;  Id: /[a-z]+/;

The default builder generates for `A` the group `struct ANoO {..}` + `type A = Option<ANoO>;`,
guarded by the single name `A`.
-/
namespace Rustemo.Regen.Example

def hdr : List Item :=
  [⟨.other, "", "use rustemo :: Token as RustemoToken ;"⟩,
   ⟨.other, "", "use super :: g :: { TokenKind , Context } ;"⟩,
   ⟨.type, "Input", "pub type Input = str ;"⟩,
   ⟨.type, "Ctx", "pub type Ctx < 'i > = Context < 'i , Input > ;"⟩,
   ⟨.type, "Token", "pub type Token < 'i > = RustemoToken < 'i , Input , TokenKind > ;"⟩]

def numT : Item := ⟨.type, "Num", "pub type Num = String ;"⟩
def numF : Item := ⟨.fn, "num", "pub fn num (_ctx : & Ctx , token : Token) -> Num { token . value . into () }"⟩
def idT : Item := ⟨.type, "Id", "pub type Id = String ;"⟩
def idF : Item := ⟨.fn, "id", "pub fn id (_ctx : & Ctx , token : Token) -> Id { token . value . into () }"⟩
def sS : Item := ⟨.struct, "S", "pub struct S { pub a : A , pub num : Num }"⟩
def sC1 : Item := ⟨.fn, "s_c1", "pub fn s_c1 (_ctx : & Ctx , a : A , num : Num) -> S { S { a , num } }"⟩
def aNoO : Item := ⟨.struct, "ANoO", "pub struct ANoO { pub x : Num , pub y : Id }"⟩
def aAlias : Item := ⟨.type, "A", "pub type A = Option < ANoO > ;"⟩
def aC1 : Item := ⟨.fn, "a_c1", "pub fn a_c1 (_ctx : & Ctx , x : Num , y : Id) -> A { Some (ANoO { x , y }) }"⟩
def aEmpty : Item := ⟨.fn, "a_empty", "pub fn a_empty (_ctx : & Ctx) -> A { None }"⟩

/-- what the generator wants for the grammar above -/
def needed : List Group :=
  [.ty numT, .act numF, .ty idT, .act idF, .nt "S" [sS], .act sC1,
   .nt "A" [aNoO, aAlias], .act aC1, .act aEmpty]

/-- the pristine file -/
def pristine : List Item := hdr ++ allItems needed

/-- user edit 1 (F17): only the alias `type A = Option<ANoO>;` deleted -/
def aliasDeleted : List Item := pristine.filter (fun i => i != aAlias)

/-- user edit 2: body of `a_c1` rewritten, helper struct + import added, `num` and the whole group
    of `A` deleted -/
def userEdited : List Item :=
  [⟨.other, "", "use std :: collections :: HashMap ;"⟩] ++ hdr ++
  [numT, idT, idF, ⟨.struct, "UserStruct", "pub struct UserStruct { pub a : u8 }"⟩, sS, sC1,
   ⟨.fn, "a_c1", "pub fn a_c1 (_ctx : & Ctx , x : Num , y : Id) -> A { todo ! () }"⟩, aEmpty]

/-- user edit 3 (tutorial style): all types of `A` replaced by the user's own `type A = f32;` -/
def retyped : List Item :=
  hdr ++ [numT, numF, idT, idF, sS, sC1, ⟨.type, "A", "pub type A = f32 ;"⟩, aC1, aEmpty]

end Rustemo.Regen.Example
