import Rustemo.Proofs.ResolveTotal
/-!
# Whole cell histories (`Resolve.cell`) and `max_prior_for_term`
-/
set_option linter.unusedSimpArgs false
namespace Rustemo.Resolve
open Rustemo

theorem accepts_cons_accept (es : List Ev) : accepts (.accept :: es) = accepts es + 1 := by
  simp [accepts, List.filter]

theorem accepts_cons_red (r : Red) (es : List Ev) : accepts (.red r :: es) = accepts es := by
  have : (Ev.red r == Ev.accept) = false := by simp
  simp [accepts, List.filter, this]

theorem shiftLikes_append_accept (c : List Action) : shiftLikes (c ++ [.accept]) = shiftLikes c + 1 := by
  simp [shiftLikes, List.filter_append, List.filter]

theorem cell_nil (fx : Fixes) (cfg : Cfg) (info : Nat → PInfo) (ta : Assoc) (sp : Option Nat)
    (c : List Action) : cell fx cfg info ta sp c [] = .ok c := rfl

theorem cell_cons_red (fx : Fixes) (cfg : Cfg) (info : Nat → PInfo) (ta : Assoc) (sp : Option Nat)
    (c : List Action) (r : Red) (es : List Ev) :
    cell fx cfg info ta sp c (.red r :: es) =
      bindO (addReduce fx cfg info ta sp r c) (fun c' => cell fx cfg info ta sp c' es) := rfl

theorem cell_cons_accept (fx : Fixes) (cfg : Cfg) (info : Nat → PInfo) (ta : Assoc) (sp : Option Nat)
    (c : List Action) (es : List Ev) :
    cell fx cfg info ta sp c (.accept :: es) = cell fx cfg info ta sp (c ++ [.accept]) es := rfl

/-- **Nothing is invented over a whole history.** -/
theorem mem_cell (fx : Fixes) (cfg : Cfg) (info : Nat → PInfo) (ta : Assoc) (sp : Option Nat)
    (evs : List Ev) : ∀ (init c : List Action), cell fx cfg info ta sp init evs = .ok c →
    ∀ a ∈ c, a ∈ init ∨ (a = .accept ∧ Ev.accept ∈ evs) ∨
      ∃ r, Ev.red r ∈ evs ∧ a = .reduce r.prod r.pos := by
  induction evs with
  | nil => intro init c h a ha; injection h with h; subst h; exact .inl ha
  | cons e es ih =>
    intro init c h a ha
    cases e with
    | accept =>
      rw [cell_cons_accept] at h
      rcases ih _ _ h a ha with h1 | h1 | ⟨r, h1, h2⟩
      · rcases List.mem_append.mp h1 with h1 | h1
        · exact .inl h1
        · exact .inr (.inl ⟨by simpa using h1, List.mem_cons_self⟩)
      · exact .inr (.inl ⟨h1.1, List.mem_cons_of_mem _ h1.2⟩)
      · exact .inr (.inr ⟨r, List.mem_cons_of_mem _ h1, h2⟩)
    | red r =>
      rw [cell_cons_red] at h
      cases hs : addReduce fx cfg info ta sp r init with
      | ok c1 =>
        rw [hs] at h
        rcases ih _ _ h a ha with h1 | h1 | ⟨r', h1, h2⟩
        · rcases mem_addReduce _ _ _ _ _ _ _ _ hs a h1 with h3 | h3
          · exact .inl h3
          · exact .inr (.inr ⟨r, List.mem_cons_self, h3⟩)
        · exact .inr (.inl ⟨h1.1, List.mem_cons_of_mem _ h1.2⟩)
        · exact .inr (.inr ⟨r', List.mem_cons_of_mem _ h1, h2⟩)
      | panic s => rw [hs] at h; cases h
      | err e => rw [hs] at h; cases h
      | fuel => rw [hs] at h; cases h

theorem SpOk.step {sp : Option Nat} {cell c : List Action} {new : Action} (h : SpOk sp cell)
    (hnew : ∀ s, new ≠ .shift s) (hm : ∀ a ∈ c, a ∈ cell ∨ a = new) : SpOk sp c := by
  rcases h with h | h
  · exact .inl h
  · refine .inr (fun s hs => ?_)
    rcases hm _ hs with h1 | h1
    · exact h s h1
    · exact hnew s h1.symm

/-- **The repaired code never panics over a whole history**, provided `calc_states` and the
    completed augmented item together contribute at most one SHIFT/ACCEPT to the cell and the
    state's `max_prior_for_term` has an entry whenever the cell has a SHIFT. -/
theorem cell_total (fx : Fixes) (hn : fx.noAssert = true) (cfg : Cfg) (info : Nat → PInfo)
    (ta : Assoc) (sp : Option Nat) (evs : List Ev) : ∀ (init : List Action),
    shiftLikes init + accepts evs ≤ 1 → SpOk sp init →
    ∃ c, cell fx cfg info ta sp init evs = .ok c := by
  induction evs with
  | nil => intro init _ _; exact ⟨init, rfl⟩
  | cons e es ih =>
    intro init h1 h2
    cases e with
    | accept =>
      rw [cell_cons_accept]
      apply ih
      · rw [accepts_cons_accept] at h1; rw [shiftLikes_append_accept]; omega
      · exact h2.step (new := .accept) (fun s => by simp) (fun a ha => by simpa using ha)
    | red r =>
      rw [cell_cons_red]
      rw [accepts_cons_red] at h1
      have h1' : shiftLikes init ≤ 1 := by omega
      obtain ⟨c1, hc1⟩ := addReduce_total fx hn cfg info ta sp r init h1' h2
      rw [hc1]
      simp only [bindO]
      apply ih
      · have := (shape_addReduce _ _ _ _ _ _ _ _ hc1).shiftLikes_le
        omega
      · exact h2.step (new := .reduce r.prod r.pos) (fun s => by simp)
          (fun a ha => mem_addReduce _ _ _ _ _ _ _ _ hc1 a ha)

/-! ## `max_prior_for_term` -/

theorem maxOpt_spec (acc : Option Nat) (p : Nat) :
    ∃ x, maxOpt acc p = some x ∧ p ≤ x ∧ (∀ a, acc = some a → a ≤ x) ∧ (x = p ∨ acc = some x) := by
  cases acc with
  | none => exact ⟨p, rfl, Nat.le_refl _, by simp, .inl rfl⟩
  | some a =>
    refine ⟨max a p, rfl, by omega, ?_, ?_⟩
    · intro a' h; injection h with h; subst h; omega
    · by_cases h : a ≤ p
      · left; omega
      · right; congr 1; omega

theorem maxPrior_foldl (g : Grammar) (t : Nat) (items : List Item) : ∀ (acc : Option Nat),
    let res := items.foldl (fun acc it =>
      if nextSym g it == some t then maxOpt acc (infoOf g it.prod).prio else acc) acc
    (res = none ↔ acc = none ∧ ∀ it ∈ items, nextSym g it ≠ some t) ∧
    (∀ m, res = some m →
      (∀ a, acc = some a → a ≤ m) ∧
      (∀ it ∈ items, nextSym g it = some t → (infoOf g it.prod).prio ≤ m) ∧
      (acc = some m ∨ ∃ it ∈ items, nextSym g it = some t ∧ (infoOf g it.prod).prio = m)) := by
  induction items with
  | nil =>
    intro acc
    simp only [List.foldl_nil, List.not_mem_nil, false_imp_iff, implies_true, and_true, false_and,
      exists_false, or_false, true_and]
    intro m h; subst h
    exact ⟨fun a ha => by injection ha with ha; omega, rfl⟩
  | cons it its ih =>
    intro acc
    simp only [List.foldl_cons]
    by_cases hn : nextSym g it = some t
    · simp only [hn, beq_self_eq_true, if_true]
      obtain ⟨x, hx, hpx, hax, hxx⟩ := maxOpt_spec acc (infoOf g it.prod).prio
      have := ih (maxOpt acc (infoOf g it.prod).prio)
      simp only at this
      rw [hx] at this ⊢
      obtain ⟨ih1, ih2⟩ := this
      constructor
      · constructor
        · intro h
          have := (ih1.mp h).1
          cases this
        · rintro ⟨_, h⟩; exact absurd hn (h it List.mem_cons_self)
      · intro m hm
        obtain ⟨ha, hb, hc⟩ := ih2 m hm
        have hxm : x ≤ m := ha x rfl
        refine ⟨?_, ?_, ?_⟩
        · intro a haa
          have := hax a haa
          omega
        · intro it' hit' hn'
          rcases List.mem_cons.mp hit' with h | h
          · subst h; omega
          · exact hb it' h hn'
        · rcases hc with hc | ⟨it', h1, h2, h3⟩
          · injection hc with hc
            subst hc
            rcases hxx with h | h
            · right; exact ⟨it, List.mem_cons_self, hn, h.symm⟩
            · left; exact h
          · right; exact ⟨it', List.mem_cons_of_mem _ h1, h2, h3⟩
    · have hb : (nextSym g it == some t) = false := by simpa using hn
      simp only [hb, Bool.false_eq_true, if_false]
      have := ih acc
      simp only at this
      obtain ⟨ih1, ih2⟩ := this
      constructor
      · rw [ih1]
        constructor
        · rintro ⟨h1, h2⟩
          exact ⟨h1, fun it' hit' => by
            rcases List.mem_cons.mp hit' with h | h
            · subst h; exact hn
            · exact h2 it' h⟩
        · rintro ⟨h1, h2⟩
          exact ⟨h1, fun it' hit' => h2 it' (List.mem_cons_of_mem _ hit')⟩
      · intro m hm
        obtain ⟨ha, hb', hc⟩ := ih2 m hm
        refine ⟨ha, ?_, ?_⟩
        · intro it' hit' hn'
          rcases List.mem_cons.mp hit' with h | h
          · subst h; exact absurd hn' hn
          · exact hb' it' h hn'
        · rcases hc with hc | ⟨it', h1, h2, h3⟩
          · exact .inl hc
          · exact .inr ⟨it', List.mem_cons_of_mem _ h1, h2, h3⟩

end Rustemo.Resolve

namespace Rustemo.Resolve
open Rustemo

theorem bindO_ok_right {α} (x : Outcome α) : bindO x (fun c => Outcome.ok c) = x := by
  cases x <;> rfl

/-- two reducing items meeting an empty cell: the second meets the first alone -/
theorem cell_two_reds (fx : Fixes) (cfg : Cfg) (info : Nat → PInfo) (ta : Assoc) (sp : Option Nat)
    (r1 r2 : Red) :
    cell fx cfg info ta sp [] [.red r1, .red r2] =
      addReduce fx cfg info ta sp r2 [.reduce r1.prod r1.pos] := by
  have a1 : addReduce fx cfg info ta sp r1 [] = .ok [.reduce r1.prod r1.pos] := by simp [addReduce]
  rw [cell_cons_red, a1]
  simp only [bindO]
  rw [cell_cons_red]
  exact bindO_ok_right _

theorem pos_zero_iff {info : Nat → PInfo} {r : Red} (h : (r.pos == 0) = ((info r.prod).len == 0)) :
    r.pos = 0 ↔ (info r.prod).len = 0 := by
  rw [← beq_iff_eq, h, beq_iff_eq]

end Rustemo.Resolve
