import Rustemo.Proofs.TableStructural
import Rustemo.Model.GlrCert
/-!
# Table construction: the structural certificates hold of every table `build` returns
-/
namespace Rustemo.Table

variable {g : Grammar}

theorem structural_of_facts {t : Table} {R : State → Nat → Nat → Prop} (hF : Facts g t R)
    (hR : ∀ st p len, R st p len → st.hasItemB p len = true ∧
      (match g.prods[p]? with
       | some pr => pr.rhs.length == len
       | none => false) = true) :
    Cert.structural g t (autosOf g t) = true := by
  unfold Cert.structural
  simp only [Bool.and_eq_true]
  refine ⟨⟨⟨⟨?_, ?_⟩, ?_⟩, ?_⟩, ?_⟩
  · apply forStates_intro
    intro i st hs
    rw [List.all_eq_true]
    intro it hit
    obtain ⟨pr, h1, h2⟩ := hF.items i st hs it hit
    rw [h1]; simpa using h2
  · apply forStates_intro
    intro i st hs
    rw [List.all_eq_true]
    intro it hit
    rw [List.all_eq_true]
    intro a ha
    obtain ⟨h1, h2⟩ := hF.autos i st hs it hit a ha
    simp only [Bool.and_eq_true, Bool.or_eq_true, bne_iff_ne, ne_eq, beq_iff_eq, Bool.not_eq_true',
      Bool.and_eq_false_iff, beq_eq_false_iff_ne]
    refine ⟨?_, ?_⟩
    · by_cases hia : i = a.start
      · exact .inr (h1 hia)
      · exact .inl hia
    · by_cases hia : i = a.start
      · exact .inl hia
      · right
        by_cases hp : it.prod = a.aug
        · right; intro hd; exact hia (h2 hp hd)
        · exact .inl hp
  · apply forStates_intro
    intro i st hs
    simp only [Bool.and_eq_true, decide_eq_true_eq]
    refine ⟨by rw [hF.asize i st hs]; exact Nat.le_refl _, ?_⟩
    apply forCells_intro
    intro a act hact
    cases act with
    | shift s' =>
      obtain ⟨h1, h2⟩ := hF.shift i st hs a s' hact
      simp only [Bool.and_eq_true, List.all_eq_true, bne_iff_ne, ne_eq]
      exact ⟨h1, h2⟩
    | reduce p len =>
      obtain ⟨h1, h2⟩ := hR st p len (hF.reduce i st hs a p len hact)
      simp only [Bool.and_eq_true]
      exact ⟨h1, h2⟩
    | accept =>
      obtain ⟨au, h1, pr, h2, h3, h4⟩ := hF.accept i st hs a hact
      simp only [List.any_eq_true, Bool.and_eq_true]
      exact ⟨au, h1, by rw [h2]; simp [h3], hasItemB_intro h4⟩
  · apply forStates_intro
    intro i st hs
    apply forGotos_intro
    intro j s' hj
    obtain ⟨h1, h2⟩ := hF.goto i st hs j s' hj
    simp only [Bool.and_eq_true, List.all_eq_true, bne_iff_ne, ne_eq]
    exact ⟨h1, h2⟩
  · rw [List.all_eq_true]
    intro a ha
    rw [List.all_eq_true]
    intro b hb
    simp only [Bool.or_eq_true, bne_iff_ne, ne_eq, decide_eq_true_eq]
    by_cases hab : a.start = b.start
    · exact .inr (hF.distinct a ha b hb hab)
    · exact .inl hab

theorem structuralRN_of_facts {t : Table} {R : State → Nat → Nat → Prop} (hF : Facts g t R) (nul : List Nat)
    (hR : ∀ st p len, R st p len → st.hasItemB p len = true ∧
      (match g.prods[p]? with
       | some pr => decide (len ≤ pr.rhs.length) && (pr.rhs.drop len).all (fun Y => nul.contains Y)
       | none => false) = true) :
    Cert.structuralRN g t (autosOf g t) nul = true := by
  unfold Cert.structuralRN
  simp only [Bool.and_eq_true]
  refine ⟨⟨⟨⟨?_, ?_⟩, ?_⟩, ?_⟩, ?_⟩
  · apply forStates_intro
    intro i st hs
    rw [List.all_eq_true]
    intro it hit
    obtain ⟨pr, h1, h2⟩ := hF.items i st hs it hit
    rw [h1]; simpa using h2
  · apply forStates_intro
    intro i st hs
    rw [List.all_eq_true]
    intro it hit
    rw [List.all_eq_true]
    intro a ha
    obtain ⟨h1, h2⟩ := hF.autos i st hs it hit a ha
    simp only [Bool.and_eq_true, Bool.or_eq_true, bne_iff_ne, ne_eq, beq_iff_eq, Bool.not_eq_true',
      Bool.and_eq_false_iff, beq_eq_false_iff_ne]
    refine ⟨?_, ?_⟩
    · by_cases hia : i = a.start
      · exact .inr (h1 hia)
      · exact .inl hia
    · by_cases hia : i = a.start
      · exact .inl hia
      · right
        by_cases hp : it.prod = a.aug
        · right; intro hd; exact hia (h2 hp hd)
        · exact .inl hp
  · apply forStates_intro
    intro i st hs
    simp only [Bool.and_eq_true, decide_eq_true_eq]
    refine ⟨by rw [hF.asize i st hs]; exact Nat.le_refl _, ?_⟩
    apply forCells_intro
    intro a act hact
    cases act with
    | shift s' =>
      obtain ⟨h1, h2⟩ := hF.shift i st hs a s' hact
      simp only [Bool.and_eq_true, List.all_eq_true, bne_iff_ne, ne_eq]
      exact ⟨h1, h2⟩
    | reduce p len =>
      obtain ⟨h1, h2⟩ := hR st p len (hF.reduce i st hs a p len hact)
      simp only [Bool.and_eq_true]
      exact ⟨h1, h2⟩
    | accept =>
      obtain ⟨au, h1, pr, h2, h3, h4⟩ := hF.accept i st hs a hact
      simp only [List.any_eq_true, Bool.and_eq_true]
      exact ⟨au, h1, by rw [h2]; simp [h3], hasItemB_intro h4⟩
  · apply forStates_intro
    intro i st hs
    apply forGotos_intro
    intro j s' hj
    obtain ⟨h1, h2⟩ := hF.goto i st hs j s' hj
    simp only [Bool.and_eq_true, List.all_eq_true, bne_iff_ne, ne_eq]
    exact ⟨h1, h2⟩
  · rw [List.all_eq_true]
    intro a ha
    rw [List.all_eq_true]
    intro b hb
    simp only [Bool.or_eq_true, bne_iff_ne, ne_eq, decide_eq_true_eq]
    by_cases hab : a.start = b.start
    · exact .inr (hF.distinct a ha b hb hab)
    · exact .inl hab

/-- **construction_structural** (LALR, LALR_PAGER): whatever grammar, settings and fuel, a table the
    construction returns passes the structural certificate over all its automata -/
theorem build_structural (hg : gwf g = true) {s : Settings} {fuel : Nat} {t : Table}
    (h : build g s fuel = .ok t) (htt : s.tableType ≠ "LALR_RN") :
    Cert.structural g t (autosOf g t) = true := by
  have hG := GW.of_gwf hg
  obtain ⟨sts, autos, hF⟩ := built_final hG (build_ok h)
  have hfacts := final_facts hG hF
  apply structural_of_facts hfacts
  rintro st p len ⟨it, h1, ⟨pr, hp, _⟩, h2, h3, h4, _⟩
  refine ⟨hasItemB_intro (List.mem_map.mpr ⟨it, h1, by simp [core, h2, h3]⟩), ?_⟩
  rw [hF.rn htt] at h4
  unfold Resolve.isReducing Resolve.infoOf at h4
  rw [hp] at h4
  simp only [Bool.or_false, beq_iff_eq] at h4
  rw [← h2, hp]
  simp only [beq_iff_eq]
  omega

end Rustemo.Table

namespace Rustemo.Table

variable {g : Grammar}

/-- ACCEPT only ever sits in the STOP column (any table type) -/
theorem build_accept_stop (hg : gwf g = true) {s : Settings} {fuel : Nat} {t : Table}
    (h : build g s fuel = .ok t) : ∀ si a, Action.accept ∈ t.cell si a → a = 0 := by
  have hG := GW.of_gwf hg
  obtain ⟨sts, autos, hF⟩ := built_final hG (build_ok h)
  intro si a hm
  obtain ⟨st', hs, hm'⟩ := Rustemo.mem_cell hm
  obtain ⟨st, h1, h2⟩ := hF.fin si st' hs
  obtain ⟨_, hc⟩ := final_cell h2 hm'
  rcases hc with hc | ⟨_, it, _, i2⟩ | ⟨_, _, _, _, hc⟩
  · obtain ⟨s', hs'⟩ := (hF.inv.st si st h1).cells a _ hc
    cases hs'
  · exact (evOf_accept i2).2.1
  · cases hc

end Rustemo.Table
