import Rustemo.Proofs.FrontTotal
import Rustemo.Proofs.FrontClash
/-!
# `Front.build` never panics on a `Safe` AST
-/
namespace Rustemo.Front

/-! ## before resolution no assignment carries an index -/

def AllNone (l : List GProd) : Prop := ∀ p, p ∈ l → ∀ a, a ∈ p.rhs → a.index = none

theorem AllNone.append {l m : List GProd} (hl : AllNone l) (hm : AllNone m) : AllNone (l ++ m) := by
  intro p hp
  rcases List.mem_append.mp hp with h | h
  · exact hl p h
  · exact hm p h

theorem closed_allNone (fx : Fixes) (u : Use) : Closed fx (fun s => AllNone s.1.prods ∧ AllNone s.2) u := by
  intro s hs _
  refine ⟨?_, ?_⟩
  · unfold createUse createOptional createOne createZero createHelper
    cases u.kind <;> exact hs.1
  · unfold createUse
    cases hk : u.kind with
    | opt =>
      apply AllNone.append hs.2
      intro p hp a ha
      simp at hp
      rcases hp with rfl | rfl
      · simp [resolving] at ha
        subst ha
        rfl
      · simp at ha
    | one =>
      apply AllNone.append hs.2
      intro p hp a ha
      simp at hp
      rcases hp with rfl | rfl
      · simp only at ha
        unfold oneRhs0 at ha
        split at ha
        · simp [resolving] at ha
          rcases ha with rfl | rfl <;> rfl
        · simp [resolving] at ha
          rcases ha with rfl | rfl | rfl <;> rfl
      · simp [resolving] at ha
        subst ha
        rfl
    | zero =>
      apply AllNone.append hs.2
      intro p hp a ha
      simp at hp
      rcases hp with rfl | rfl
      · simp [resolving] at ha
        subst ha
        rfl
      · simp at ha

theorem rhsSteps_index {cx : Ctx} : ∀ {as : List Assign} {s : Acc} {res : List RAssign × Acc},
    rhsSteps cx as s = .ok res → ∀ a, a ∈ res.1 → a.index = none
  | [], s, res, h, a, ha => by
    cases h
    simp at ha
  | b :: bs, s, res, h, a, ha => by
    unfold rhsSteps at h
    obtain ⟨r1, h1, h⟩ := Outcome.bind_eq_ok.mp h
    obtain ⟨r2, h2, h⟩ := Outcome.bind_eq_ok.mp h
    cases h
    rcases List.mem_cons.mp ha with rfl | ha
    · obtain ⟨_, _, _, _, _, _, e⟩ := assignStep_state h1
      exact e
    · exact rhsSteps_index h2 a ha

theorem altStep_allNone {cx : Ctx} {rule : Rule} {nt j : Nat} {alt : Alt} {st st' : XSt}
    (hx : AllNone st.prods) (h : altStep cx rule nt j alt st = .ok st') : AllNone st'.prods := by
  unfold altStep at h
  simp only at h
  obtain ⟨res, h1, h⟩ := Outcome.bind_eq_ok.mp h
  obtain ⟨_, _, h⟩ := Outcome.bind_eq_ok.mp h
  cases h
  have hP := rhsSteps_pres (cx := cx) (P := fun s => AllNone s.1.prods ∧ AllNone s.2)
    (fun _ _ u _ => closed_allNone cx.fx u)
    (s := ({ st with nextProd := st.nextProd + 1 }, [])) ⟨hx, by intro p hp; simp at hp⟩ h1
  show AllNone (res.2.1.prods ++ [_] ++ res.2.2)
  apply AllNone.append (AllNone.append hP.1 _) hP.2
  intro p hp a ha
  simp at hp
  subst hp
  exact rhsSteps_index h1 a ha

theorem altSteps_allNone {cx : Ctx} {rule : Rule} {nt : Nat} :
    ∀ {alts : List Alt} {j : Nat} {st st' : XSt}, AllNone st.prods → altSteps cx rule nt j alts st = .ok st' →
      AllNone st'.prods
  | [], _, _, _, hx, h => by
    cases h
    exact hx
  | a :: as, j, st, st', hx, h => by
    unfold altSteps at h
    obtain ⟨st1, h1, h2⟩ := Outcome.bind_eq_ok.mp h
    exact altSteps_allNone (altStep_allNone hx h1) h2

theorem ruleSteps_allNone {cx : Ctx} :
    ∀ {rules : List Rule} {st st' : XSt}, AllNone st.prods → ruleSteps cx rules st = .ok st' → AllNone st'.prods
  | [], _, _, hx, h => by
    cases h
    exact hx
  | r :: rs, st, st', hx, h => by
    unfold ruleSteps at h
    obtain ⟨st1, h1, h2⟩ := Outcome.bind_eq_ok.mp h
    refine ruleSteps_allNone ?_ h2
    rcases ruleStep_ok h1 with ⟨nt, hf, h1⟩ | ⟨hf, h1⟩
    · exact altSteps_allNone hx h1
    · exact altSteps_allNone (st := { st with nextNt := st.nextNt + 1 }) hx h1

theorem createAug_allNone {a b : Name} {st : XSt} (hx : AllNone st.prods) : AllNone (createAug a b st).prods := by
  show AllNone (st.prods ++ [_])
  apply AllNone.append hx
  intro p hp x hxm
  simp at hp
  subst hp
  simp [resolving] at hxm
  subst hxm
  rfl

theorem extract_allNone {cx : Ctx} {r0 : Rule} {rules : List Rule} {st : XSt}
    (h : extract cx r0 rules = .ok st) : AllNone st.prods := by
  unfold extract at h
  simp only at h
  refine ruleSteps_allNone ?_ h
  have h0 : AllNone xst0.prods := by intro p hp; simp [xst0] at hp
  split
  · exact createAug_allNone (createAug_allNone h0)
  · exact createAug_allNone h0

/-! ## the hypothesis of the totality theorem -/

/-- ASTs outside the classes of the panic witnesses.  Each field is one finding class:
`ints` F9 (integer literal), `rules0` (an empty rule list: no text produces one), `rules` F9
(terminals-only file), `refs` F9 (groups, greedy operators, several modifiers), `alts` (a rule without
alternative: no text produces one), `dupT` (duplicate terminal names, unless the variant rejects them), `selfH` (unless the variant reports helper-name clashes: a rule named like a
helper of its own references). -/
structure Safe (fx : Fixes) (f : File) : Prop where
  ints : fx.intErr = true ∨ f.big u32Max = false
  rules0 : f.rules ≠ some []
  rules : fx.noRulesErr = true ∨ f.rules ≠ none
  refs : ∀ r, r ∈ f.ruleList → RuleSafe fx r
  alts : ∀ r, r ∈ f.ruleList → r.alts ≠ []
  dupT : fx.dupNameErr = true ∨ f.dupTerminal = false
  selfH : fx.helperClashErr = true ∨ f.selfHelper fx = false

theorem staticMatches_eq {fx : Fixes} {f : File} {ts : TSt} (h : termPhase fx f = .ok ts) :
    staticMatches fx f = matchesOf f ts := by
  unfold staticMatches
  rw [h]

theorem ruleAvoids_of_selfHelper {fx : Fixes} {f : File} {ts : TSt} (h : termPhase fx f = .ok ts)
    (hs : f.selfHelper fx = false) (r : Rule) (hr : r ∈ f.ruleList) : RuleAvoids (ctxOf fx f ts) r := by
  intro alt halt u hu e
  unfold File.selfHelper at hs
  rw [staticMatches_eq h] at hs
  have : (f.ruleList.any (Rule.selfHelper fx (matchesOf f ts))) = true := by
    apply List.any_eq_true.mpr
    refine ⟨r, hr, ?_⟩
    unfold Rule.selfHelper
    apply List.any_eq_true.mpr
    have e' : u.helper fx = r.name := e
    exact ⟨u, List.mem_flatMap.mpr ⟨alt, halt, hu⟩, by simpa using e'⟩
  rw [this] at hs
  cases hs

/-- no rule's own uses generate its name: by the static class, or (C09-fix-9) because the rule phase
checked every helper name against the rule names -/
theorem ruleAvoids_of_ext {fx : Fixes} {f : File} {ts : TSt} {r0 : Rule} {rs : List Rule} {st : XSt}
    (hs : fx.helperClashErr = true ∨ f.selfHelper fx = false) (hts : termPhase fx f = .ok ts)
    (hrl : f.ruleList = r0 :: rs) (hext : extract (ctxOf fx f ts) r0 (r0 :: rs) = .ok st)
    (r : Rule) (hr : r ∈ f.ruleList) : RuleAvoids (ctxOf fx f ts) r := by
  rcases hs with hflag | hs
  · intro alt halt u hu e
    have hmem : u ∈ rulesUses (ctxOf fx f ts).matchesMap (r0 :: rs) := by
      rw [← hrl]
      unfold rulesUses ruleUses
      exact List.mem_flatMap.mpr ⟨r, hr, List.mem_flatMap.mpr ⟨alt, halt, hu⟩⟩
    have := (extract_clashFree (cx := ctxOf fx f ts) hflag hext u hmem).1
    apply this
    rw [e]
    show r.name ∈ ruleNamesOf f
    unfold ruleNamesOf
    exact List.mem_map_of_mem (f := (·.name)) (show r ∈ f.rules.getD [] from hr)
  · exact ruleAvoids_of_selfHelper hts hs r hr

theorem length_setReachNts (m : List Nat) : ∀ (i : Nat) (l : List NonTerm), (setReachNts m i l).length = l.length
  | _, [] => rfl
  | i, x :: xs => by
    unfold setReachNts
    simp [length_setReachNts m (i + 1) xs]

theorem length_setReachTerms (m : List Nat) : ∀ (i : Nat) (l : List Term), (setReachTerms m i l).length = l.length
  | _, [] => rfl
  | i, x :: xs => by
    unfold setReachTerms
    simp [length_setReachTerms m (i + 1) xs]

theorem all2_length {α β : Type} {R : α → β → Prop} : ∀ {l : List α} {l' : List β}, All2 R l l' → l.length = l'.length :=
  forall₂_length

/-- C16, builder part: the grammar builder never panics on a `Safe` AST, for every variant -/
theorem build_total (fx : Fixes) (f : File) (hs : Safe fx f) : NoPanic (build fx f) := by
  unfold build
  apply NoPanic.ite
  · intro hbig
    rcases hs.ints with h | h
    · simp only [h, if_true]
      exact NoPanic.err _
    · cases hi : fx.intErr with
      | true => simp only [if_true]; exact NoPanic.err _
      | false =>
        rw [hi] at hbig
        simp only [Bool.false_eq_true, if_false] at hbig
        rw [h] at hbig
        cases hbig
  intro _
  -- terminals
  apply NoPanic.bind
  · unfold termPhase
    split
    · exact NoPanic.ok _
    · exact collectTerms_np _ _ _
  intro ts hts
  obtain ⟨hT, hTk, _⟩ := termPhase_inv hs.dupT hts
  -- rules
  apply NoPanic.bind
  · unfold rulePhase
    split
    · exact NoPanic.ite (fun _ => NoPanic.err _) (fun _ => NoPanic.ok _)
    · rename_i hr
      exact absurd hr hs.rules0
    · rename_i r0 rs hr
      apply NoPanic.bind
      · unfold extract
        simp only
        apply ruleSteps_np
        intro r hrm
        exact hs.refs r (by simp [File.ruleList, hr]; simpa using hrm)
      · intro _ _
        exact NoPanic.ok _
  intro xs hxs
  -- a rule list exists
  rcases rulePhase_ok hxs with ⟨hnone, _⟩ | ⟨r0, rs, hr, hext, hname⟩
  · -- terminals-only: `rulePhase` is `.ok` only without the repair; then `Safe` is violated
    exfalso
    rcases hs.rules with h | h
    · unfold rulePhase at hxs
      rw [hnone] at hxs
      simp only [h, if_true] at hxs
      cases hxs
    · exact h hnone
  have hrl : f.ruleList = r0 :: rs := by simp [File.ruleList, hr]
  have hw : ∀ r, r ∈ r0 :: rs → RuleAvoids (ctxOf fx f ts) r ∧ r.alts ≠ [] := by
    intro r hrm
    exact ⟨ruleAvoids_of_ext hs.selfH hts hrl hext r (hrl ▸ hrm), hs.alts r (hrl ▸ hrm)⟩
  obtain ⟨hN, hAug, hRules⟩ := extract_nts hw hext
  have hX := extract_xidx hext
  have hNone := extract_allNone hext
  -- resolution
  apply NoPanic.bind (resolveInline_np _ _)
  intro ps1 h1
  apply NoPanic.bind (resolveRefs_np (resolveInline_done h1))
  intro ps2 h2
  -- bounds of the resolved indices
  have hmm : ∀ s tn i, (matchesOf f ts).get? s = some (tn, i) → i < ts.terms.length + xs.1.nts.length := by
    intro s tn i hg
    unfold matchesOf at hg
    split at hg
    · simp at hg
    · obtain ⟨kv, hkv, _, e, _⟩ := buildMatches_get? ts.terms hg
      have := hT.bound kv hkv
      rw [← e, hT.count]
      omega
  have hb0 : ∀ p, p ∈ xs.1.prods → ∀ a, a ∈ p.rhs → IdxBelow (ts.terms.length + xs.1.nts.length) a := by
    intro p hp a ha i hi
    rw [hNone p hp a ha] at hi
    cases hi
  have hb1 := resolveInline_below hmm hb0 h1
  have hb2 := resolveRefs_below (B := ts.terms.length + xs.1.nts.length)
    (fun k t hk => by
      have := (terms_get? hT hk).1
      omega)
    (fun nt hnt => by
      have := hN.bound nt hnt
      have e : xs.1.nts.length = xs.1.nextNt := hN.pendOk
      omega) hb1 h2
  obtain ⟨rel2, isSome2⟩ := resolveRefs_rel h2
  have rel1 := resolveInline_rel h1
  have hlen : ps2.length = xs.1.nextProd := by
    rw [← all2_length rel2, ← all2_length rel1]
    exact hX.1
  -- assembly
  obtain ⟨aug, haug⟩ := findNt_of_mem (hasNt_true.mp hAug)
  obtain ⟨start, hstart⟩ := findNt_of_mem (hasNt_true.mp (hRules r0 (by simp)))
  apply NoPanic.bind
  · unfold assemble
    simp only
    rw [haug]
    simp only
    rw [hname, hstart]
    exact NoPanic.ok _
  intro g0 hg0
  obtain ⟨aug', start', haug', hstart', e0⟩ := assemble_ok hg0
  rw [hname, hstart] at hstart'
  cases hstart'
  -- reachability
  apply markReachable_np
  subst e0
  constructor
  · intro p hp s hsym
    show s < (sortTerms ts.terms.values).length + (sortNts xs.1.nts).length
    unfold sortTerms sortNts
    rw [length_sortByKey, length_sortByKey]
    unfold SMap.values
    rw [List.length_map]
    unfold GProd.rhsSyms at hsym
    obtain ⟨a, ha, e⟩ := List.mem_map.mp hsym
    have hsome := isSome2 p hp a ha
    cases hi : a.index with
    | none => rw [hi] at hsome; cases hsome
    | some i =>
      have := hb2 p hp a ha i hi
      rw [← e]
      unfold RAssign.symbol
      rw [hi]
      exact this
  · intro nt hnt p hp
    show p < ps2.length
    rw [hlen]
    unfold sortNts at hnt
    rw [mem_sortByKey] at hnt
    exact hN.prodsB nt hnt p hp
  · show (sortTerms ts.terms.values).length ≤ ts.terms.length + start.idx ∧
      ts.terms.length + start.idx - (sortTerms ts.terms.values).length < (sortNts xs.1.nts).length
    unfold sortTerms sortNts
    rw [length_sortByKey, length_sortByKey]
    unfold SMap.values
    rw [List.length_map]
    have := hN.bound start (findNt_some hstart).1
    have e : xs.1.nts.length = xs.1.nextNt := hN.pendOk
    omega

end Rustemo.Front
