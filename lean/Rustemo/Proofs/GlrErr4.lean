import Rustemo.Proofs.GlrRun11
import Rustemo.Proofs.ViableLate
/-!
# No late error: every head of the graph structured stack spells a viable prefix

`JInv`: a SEMANTIC invariant of the graph under `LexDet` — every edge `src → dst` is *derivable* (the accessing symbol
of `state(src)` derives the token kinds of the levels `level(dst) … level(src) - 1`), and every head is connected to
the start head by a chain of edges.  It only depends on the (state, level) of heads and the (src, dst) of edges,
which never change, so it is kept by everything except the creation of an edge or head (`JInv.ext`).  From it and
the local invariant `GInv`: every head has an LR stack (`PathInv`) with its state on top whose yield is the token
kinds of the levels below it (`stack_of_conn`); hence (viable-prefix lemma of the LR half, re-proved here from the
right-nulled structural certificate) these tokens are a prefix of a sentence, and the tokens below an accepting
head are a sentence.
-/
namespace Rustemo.Glr
open Rustemo

/-- `X` derives the token kinds of the levels `i … j-1` -/
def DerK (env : Env) (tok : Nat → Tok) (X i j : Nat) : Prop :=
  i ≤ j ∧ ∃ t : Tree, t.Valid env.g X ∧ t.yield = kindsOf tok i j

def EdgeDer (env : Env) (tok : Nat → Tok) (g : Gss) (ed : Edge) : Prop :=
  ∃ hs hd : Head, g.heads[ed.src]? = some hs ∧ g.heads[ed.dst]? = some hd ∧
    DerK env tok (env.t.symAt hs.state) hd.frontier hs.frontier

/-- connected to head 0 by a chain of edges -/
inductive Conn (g : Gss) : Nat → Prop
  | start : Conn g 0
  | step (e : Nat) (ed : Edge) : g.edges[e]? = some ed → Conn g ed.dst → Conn g ed.src

structure JInv (env : Env) (tok : Nat → Tok) (g : Gss) : Prop where
  h0 : ∃ hd : Head, g.heads[0]? = some hd ∧ hd.state = 0 ∧ hd.frontier = 0
  ed : ∀ (e : Nat) (ed : Edge), g.edges[e]? = some ed → EdgeDer env tok g ed
  conn : ∀ (h : Nat) (hd : Head), g.heads[h]? = some hd → Conn g h

theorem Conn.ext {g g' : Gss} (hx : Ext g g') {h : Nat} (hc : Conn g h) : Conn g' h := by
  induction hc with
  | start => exact Conn.start
  | step e ed he _ ih =>
    obtain ⟨ed', he', hs, hd⟩ := hx.edges e ed he
    rw [← hs]
    exact Conn.step e ed' he' (by rw [hd]; exact ih)

theorem EdgeDer.ext {env : Env} {tok : Nat → Tok} {g g' : Gss} (hx : Ext g g') {ed ed' : Edge} (h : EdgeDer env tok g ed)
    (hs : ed'.src = ed.src) (hd : ed'.dst = ed.dst) : EdgeDer env tok g' ed' := by
  obtain ⟨a, b, ha, hb, hder⟩ := h
  obtain ⟨a', ha', as, af, _⟩ := hx.heads _ a ha
  obtain ⟨b', hb', _, bf, _⟩ := hx.heads _ b hb
  exact ⟨a', b', by rw [hs]; exact ha', by rw [hd]; exact hb', by rw [as, af, bf]; exact hder⟩

/-- the invariant is kept by an extension whose NEW edges are derivable and whose NEW heads are connected -/
theorem JInv.ext {env : Env} {tok : Nat → Tok} {g g' : Gss} (hJ : JInv env tok g) (hx : Ext g g')
    (hne : ∀ (e : Nat) (ed : Edge), g'.edges[e]? = some ed → g.edges[e]? = none → EdgeDer env tok g' ed)
    (hnh : ∀ (h : Nat) (hd : Head), g'.heads[h]? = some hd → g.heads[h]? = none → Conn g' h) : JInv env tok g' := by
  constructor
  · obtain ⟨hd, h1, h2, h3⟩ := hJ.h0
    obtain ⟨hd', k1, k2, k3, _⟩ := hx.heads 0 hd h1
    exact ⟨hd', k1, by rw [k2, h2], by rw [k3, h3]⟩
  · intro e ed' he'
    cases ho : g.edges[e]? with
    | none => exact hne e ed' he' ho
    | some ed =>
      obtain ⟨ed'', he'', hs, hd⟩ := hx.edges e ed ho
      rw [he'] at he''; injection he'' with he''; subst he''
      exact (hJ.ed e ed ho).ext hx hs hd
  · intro h hd' hh'
    cases ho : g.heads[h]? with
    | none => exact hnh h hd' hh' ho
    | some hd => exact (hJ.conn h hd ho).ext hx

/-- graphs with the same edges (up to possibilities) and heads (up to position / lookahead) -/
theorem JInv.same {env : Env} {tok : Nat → Tok} {g g' : Gss} (hJ : JInv env tok g) (hx : Ext g g')
    (he : g'.edges.size = g.edges.size) (hh : g'.heads.size = g.heads.size) : JInv env tok g' := by
  apply hJ.ext hx
  · intro e ed h1 h2
    have := lt_of_getElem?_some h1
    rw [Array.getElem?_eq_none_iff] at h2
    omega
  · intro h hd h1 h2
    have := lt_of_getElem?_some h1
    rw [Array.getElem?_eq_none_iff] at h2
    omega

/-- **every head has an LR stack**: a path of the automaton from state 0 to its state whose trees derive the token
    kinds of the levels below it -/
theorem stack_of_conn {env : Env} {tok : Nat → Tok} {g : Gss} (hg : GInv env g) (hJ : JInv env tok g) :
    ∀ (h : Nat), Conn g h → ∀ hd : Head, g.heads[h]? = some hd →
      ∃ st : List (Nat × Tree), PathInv env.g env.t 0 st ∧ topOf 0 st = hd.state ∧ yields st = kindsOf tok 0 hd.frontier := by
  intro h hc
  induction hc with
  | start =>
    intro hd hh
    obtain ⟨hd0, h1, h2, h3⟩ := hJ.h0
    rw [hh] at h1; injection h1 with h1; subst h1
    exact ⟨[], trivial, by rw [h2]; rfl, by rw [h3, kindsOf_self]; rfl⟩
  | step e ed he _ ih =>
    intro hd hh
    obtain ⟨a, b, ha, hb, hle, t, hv, hy⟩ := hJ.ed e ed he
    rw [hh] at ha; injection ha with ha; subst ha
    obtain ⟨a', b', ha', hb', htr, _⟩ := (hg.edges e ed he).ends
    rw [hh] at ha'; injection ha' with ha'; subst ha'
    rw [hb] at hb'; injection hb' with hb'; subst hb'
    obtain ⟨st, hp, htop, hyl⟩ := ih b hb
    refine ⟨(hd.state, t) :: st, ⟨⟨_, hv, by rw [htop]; exact htr⟩, hp⟩, rfl, ?_⟩
    simp only [yields]
    rw [hyl, hy, ← kindsOf_append tok (Nat.zero_le _) hle]

/-! ## the LR arguments on a right-nulled structural table (`path_lemma`, `viable_item` of the LR half use
    `Structural`; only fields that `StructuralRN` has as well) -/

theorem path_lemmaRN (g : Grammar) (t : Table) (autos : List Auto) (hs : StructuralRN g t autos)
    (au : Auto) (hin : au ∈ autos) (start : Nat) (hstart : start = au.start) :
    ∀ (d : Nat) (st : List (Nat × Tree)) (p : Nat), PathInv g t start st →
      t.hasItem (topOf start st) p d →
      d ≤ st.length ∧ t.hasItem (topOf start (st.drop d)) p 0 ∧
      ∃ pr, g.prods[p]? = some pr ∧ ValidList g ((st.take d).reverse.map (·.2)) (pr.rhs.take d)
        ∧ d ≤ pr.rhs.length := by
  intro d
  induction d with
  | zero =>
    intro st p _ hi
    obtain ⟨pr, hpr, _⟩ := hs.item_prod _ p 0 hi
    exact ⟨Nat.zero_le _, by simpa using hi, pr, hpr, by simp [ValidList], Nat.zero_le _⟩
  | succ d ih =>
    intro st p hp hi
    cases st with
    | nil =>
      have := hs.start_items au hin p (d+1) (by rw [← hstart]; simpa [topOf] using hi)
      omega
    | cons e below =>
      obtain ⟨s, tr⟩ := e
      obtain ⟨⟨X, hv, htr⟩, hbelow⟩ := hp
      have hi' : t.hasItem s p (d+1) := by simpa [topOf] using hi
      obtain ⟨⟨pr, hpr, hX⟩, hsrc⟩ := hs.target_items _ X s p d htr hi'
      obtain ⟨hlen, h0, pr', hpr', hvl, hdl⟩ := ih below p hbelow hsrc
      have : pr' = pr := by rw [hpr] at hpr'; exact (Option.some.inj hpr').symm
      subst this
      have hlt : d < pr'.rhs.length := by
        rcases Nat.lt_or_ge d pr'.rhs.length with h | h
        · exact h
        · simp [List.getElem?_eq_none h] at hX
      refine ⟨by simp; omega, by simpa using h0, pr', hpr, ?_, by omega⟩
      have htake : pr'.rhs.take (d+1) = pr'.rhs.take d ++ [X] := by
        rw [List.take_add_one]; simp [hX]
      rw [htake]
      simp only [List.take_succ_cons, List.reverse_cons, List.map_append, List.map_cons, List.map_nil]
      exact validList_append g _ _ _ _ hvl ⟨X, [], rfl, hv, rfl⟩

theorem stack_nil_of_top_startRN (g : Grammar) (t : Table) (autos : List Auto) (hs : StructuralRN g t autos)
    (a : Auto) (ha : a ∈ autos) (start : Nat) (st : List (Nat × Tree)) (hp : PathInv g t start st)
    (htop : topOf start st = a.start) : st = [] := by
  cases st with
  | nil => rfl
  | cons e below =>
    obtain ⟨s1, tr⟩ := e
    obtain ⟨⟨X, _, htr⟩, _⟩ := hp
    simp only [topOf] at htop
    rw [htop] at htr
    exact absurd htr (hs.no_into_start a ha _ _)

/-- the viable-prefix lemma (`viable_item` of Proofs/ViableLate.lean) on a right-nulled structural table -/
theorem viable_itemRN (g : Grammar) (t : Table) (autos : List Auto) (hs : StructuralRN g t autos)
    (hA : Anchored g t autos) (hP : Productive g)
    (au : Auto) (hin : au ∈ autos) (start : Nat) (hstart : start = au.start)
    (haug : ∃ pr, g.prods[au.aug]? = some pr ∧ pr.rhs = [au.sym]) :
    ∀ (n : Nat) (st : List (Nat × Tree)), st.length = n → PathInv g t start st →
      ∀ q e, Anch g t autos (topOf start st) q e → t.hasItem (topOf start st) q e →
      ∀ prq, g.prods[q]? = some prq → ∀ ts : List Tree, ValidList g ts (prq.rhs.drop e) →
      ∃ (T : Tree) (rest : List Nat), T.Valid g au.sym ∧
        T.yield = yields st ++ (ts.map Tree.yield).flatten ++ rest := by
  intro n
  induction n using Nat.strongRecOn with
  | _ n ih =>
    intro st hlen hpath q e hanch
    induction hanch with
    | kernel q d hi0 =>
      intro hi prq hprq ts hts
      obtain ⟨hle, h0, pr, hpr, hvl, hdl⟩ :=
        path_lemmaRN g t autos hs au hin start hstart (d+1) st q hpath hi
      have : pr = prq := by rw [hprq] at hpr; exact (Option.some.inj hpr).symm
      subst this
      have hlen' : (st.drop (d+1)).length < n := by simp only [List.length_drop]; omega
      have hvl' : ValidList g ((st.take (d+1)).reverse.map (·.2) ++ ts) (pr.rhs.drop 0) := by
        have := validList_append g _ _ _ _ hvl hts
        rwa [List.take_append_drop] at this
      obtain ⟨T, rest, hT, hy⟩ := ih _ hlen' (st.drop (d+1)) rfl (pathInv_drop g t start st (d+1) hpath)
        q 0 (hA _ q 0 h0) h0 pr hprq _ hvl'
      refine ⟨T, rest, hT, ?_⟩
      rw [hy, flatten_yields_append, yields_take_drop st (d+1)]
      simp [List.append_assoc]
    | aug a ha hsa hia =>
      intro _ prq hprq ts hts
      have hnil := stack_nil_of_top_startRN g t autos hs a ha start st hpath hsa
      subst hnil
      have hau : a = au := hs.distinct a ha au hin (by rw [← hsa, ← hstart]; rfl)
      subst hau
      obtain ⟨pr, hpr, hrhs⟩ := haug
      have : pr = prq := by rw [hprq] at hpr; exact (Option.some.inj hpr).symm
      subst this
      rw [hrhs] at hts
      simp only [List.drop_zero] at hts
      cases ts with
      | nil => simp [ValidList] at hts
      | cons T ts' =>
        obtain ⟨X, Xs', hX, hv, hl⟩ := hts
        injection hX with hX1 hX2
        subst hX1 hX2
        cases ts' with
        | nil => exact ⟨T, [], hv, by simp [yields]⟩
        | cons T2 ts'' =>
          obtain ⟨_, _, hX', _, _⟩ := hl
          simp at hX'
    | clos q e p prq pr _ hiq hprq hpr hrhs hip ihq =>
      intro _ prp hprp ts hts
      have : prp = pr := by rw [hpr] at hprp; exact (Option.some.inj hprp).symm
      subst this
      simp only [List.drop_zero] at hts
      obtain ⟨ts2, hts2⟩ := validList_of_drop g hP q prq hprq (e+1)
      have hTp : (Tree.mk p ts).Valid g prp.lhs := by
        simp only [Tree.mk, Tree.Valid]
        exact ⟨prp, hpr, rfl, validList_ofList g ts prp.rhs hts⟩
      have hdrop : prq.rhs.drop e = prp.lhs :: prq.rhs.drop (e+1) := by
        have hlt : e < prq.rhs.length := by
          rcases Nat.lt_or_ge e prq.rhs.length with h | h
          · exact h
          · simp [List.getElem?_eq_none h] at hrhs
        rw [List.drop_eq_getElem_cons hlt]
        congr 1
        rw [List.getElem?_eq_getElem hlt] at hrhs
        exact Option.some.inj hrhs
      have hvl : ValidList g (Tree.mk p ts :: ts2) (prq.rhs.drop e) := by
        rw [hdrop]; exact ⟨prp.lhs, _, rfl, hTp, hts2⟩
      obtain ⟨T, rest, hT, hy⟩ := ihq hiq prq hprq _ hvl
      refine ⟨T, (ts2.map Tree.yield).flatten ++ rest, hT, ?_⟩
      rw [hy]
      simp [Tree.mk, Tree.yield, yield_ofList, List.append_assoc]

/-- what `Cert.viable` establishes -/
structure ViableOk (env : Env) : Prop where
  anch : Anchored env.g env.t (autosOf env.g env.t)
  prod : Productive env.g
  nonempty : NonEmptyTargets env.g env.t

/-- the yield of a path of the automaton is a viable prefix -/
theorem viable_of_stack {env : Env} (hT : TableOk env) (hW : GWF env.g) (hV : ViableOk env) (st : List (Nat × Tree))
    (hp : PathInv env.g env.t 0 st) : ViablePrefix env.g (yields st) := by
  obtain ⟨p, d, hi⟩ := top_has_item env.g env.t hV.nonempty st hp
  obtain ⟨pr, hpr, _⟩ := hT.s.item_prod _ p d hi
  obtain ⟨ts, hts⟩ := validList_of_drop env.g hV.prod p pr hpr d
  obtain ⟨pr0, hpr0, _, hr0⟩ := hW.aug0
  obtain ⟨T, rest, hTv, hy⟩ := viable_itemRN env.g env.t _ hT.s hV.anch hV.prod ⟨0, 0, env.g.startIdx⟩ (main_auto_mem env) 0 rfl
    ⟨pr0, hpr0, hr0⟩ st.length st rfl hp p d (hV.anch _ p d hi) hi pr hpr ts hts
  exact ⟨(ts.map Tree.yield).flatten ++ rest, T, hTv, by rw [hy, List.append_assoc]⟩

/-- the yield of a path of the automaton that ends in an accepting state is a sentence -/
theorem sentence_of_accept_stack {env : Env} (hT : TableOk env) (st : List (Nat × Tree))
    (hp : PathInv env.g env.t 0 st) {x : Nat} (hacc : Action.accept ∈ env.t.cell (topOf 0 st) x) :
    Sentence env.g (yields st) := by
  obtain ⟨au, hau, pr, hpr, hrhs, hitem⟩ := hT.s.accept_item _ _ hacc
  have hmain := main_auto_mem env
  obtain ⟨hle, h0, pr', hpr', hvl, _⟩ :=
    path_lemmaRN env.g env.t _ hT.s ⟨0, 0, env.g.startIdx⟩ hmain 0 rfl 1 st au.aug hp hitem
  rw [hpr] at hpr'; injection hpr' with hpr'; subst hpr'
  have hst := hT.s.aug_start_only au hau _ h0
  have hnil := stack_nil_of_top_startRN env.g env.t _ hT.s au hau 0 (st.drop 1) (pathInv_drop env.g env.t 0 st 1 hp) hst
  rw [hnil] at hst
  have haueq : au = ⟨0, 0, env.g.startIdx⟩ := hT.s.distinct au hau _ hmain (by rw [← hst]; rfl)
  cases st with
  | nil => simp at hle
  | cons e below =>
    obtain ⟨s, T⟩ := e
    simp only [List.drop_succ_cons, List.drop_zero] at hnil
    subst hnil
    rw [hrhs] at hvl
    simp only [List.take_succ_cons, List.take_zero, List.reverse_cons, List.reverse_nil, List.nil_append, List.map_cons,
      List.map_nil] at hvl
    obtain ⟨X, Xs', hX, hv, _⟩ := hvl
    injection hX with hX1 _
    subst hX1
    refine ⟨T, by rw [haueq] at hv; exact hv, by simp [yields]⟩

/-- soundness of `Cert.viable` in this packaging -/
theorem viableOk_of_cert (env : Env) (h : Cert.viable env.g env.t (autosOf env.g env.t) = true) : ViableOk env := by
  unfold Cert.viable at h
  simp only [Bool.and_eq_true] at h
  obtain ⟨⟨h1, h2⟩, h3⟩ := h
  exact ⟨Cert.anchored_sound _ _ _ h2, Cert.productive_sound _ h1, Cert.targetsNonEmpty_sound _ _ h3⟩

end Rustemo.Glr
