import Rustemo.Proofs.Cli
/-!
# C17: exactly which command lines make `main` panic
-/

namespace Rustemo.Cfg

theorem processGrammarPanics_doc (env : Env) (cli : Cli) :
    (Doc.settings env cli).processGrammarPanics =
      ((cli.outdirRoot.isSome || cli.outdirActionsRoot.isSome || env.outDir.isSome) &&
        env.manifestDir.isNone) := by
  unfold Settings.processGrammarPanics Doc.settings
  cases cli.outdirRoot <;> cases cli.outdirActionsRoot <;> cases env.outDir <;> simp

/-- `main` panics exactly (i) on `--lexical-disamb-grammar-order=false` without `-p glr` and
(ii) for a FILE argument when an output root is in force (`-o`, `-a` or `OUT_DIR`) and
`CARGO_MANIFEST_DIR` is not set. -/
theorem plan_panic_iff (env : Env) (cli : Cli) (isFile : Bool) (site : PanicSite) :
    Cli.plan env cli isFile = .panic site ↔
      (site = .grammarOrderLR ∧ Doc.rejected cli = true) ∨
      (site = .rootDirUnset ∧ Doc.rejected cli = false ∧ isFile = true ∧ env.manifestDir = none ∧
        (cli.outdirRoot.isSome = true ∨ cli.outdirActionsRoot.isSome = true ∨ env.outDir.isSome = true)) := by
  unfold Cli.plan
  rw [toSettings_eq_settingsOf]
  unfold Doc.settingsOf
  by_cases hr : Doc.rejected cli = true
  · simp only [hr, if_true, Res.bind]
    constructor
    · intro h; injection h with h; exact Or.inl ⟨h.symm, trivial⟩
    · rintro (⟨h, _⟩ | ⟨_, h, _⟩)
      · rw [h]
      · exact absurd h (by simp)
  · have hr' : Doc.rejected cli = false := by simpa using hr
    simp only [hr', Bool.false_eq_true, if_false, Res.bind, processGrammarPanics_doc]
    cases isFile with
    | false => simp
    | true =>
      cases hm : env.manifestDir with
      | some d => simp
      | none =>
        by_cases hb : (cli.outdirRoot.isSome || cli.outdirActionsRoot.isSome || env.outDir.isSome) = true
        · have hb' : cli.outdirRoot.isSome = true ∨ cli.outdirActionsRoot.isSome = true ∨ env.outDir.isSome = true := by
            simpa [Bool.or_eq_true, or_assoc] using hb
          simp only [hb, Option.isNone_none, Bool.and_self, if_true]
          constructor
          · intro h; injection h with h; exact Or.inr ⟨h.symm, trivial, trivial, trivial, hb'⟩
          · rintro (⟨_, h⟩ | ⟨h, _⟩)
            · exact absurd h (by simp)
            · rw [h]
        · have hb2 : (cli.outdirRoot.isSome || cli.outdirActionsRoot.isSome || env.outDir.isSome) = false := by
            simpa using hb
          have hb' : ¬ (cli.outdirRoot.isSome = true ∨ cli.outdirActionsRoot.isSome = true ∨ env.outDir.isSome = true) := by
            simpa [Bool.or_eq_true, or_assoc] using hb
          simp only [hb2, Bool.false_and, Bool.false_eq_true, if_false]
          constructor
          · intro h; cases h
          · rintro (⟨_, h⟩ | ⟨_, _, _, _, h⟩)
            · exact absurd h (by simp)
            · exact absurd h hb'

end Rustemo.Cfg
