import Rustemo.Proofs.TableComplete
/-!
# Table construction: the lookahead sets are EXACTLY the justified ones

`Final.just` (every lookahead is justified) and its converse: in the finished automaton every reachable item
is present and every justified lookahead is in its set (from `InvC`, the closure fixpoints `Final.fix` and the
saturated transitions `Final.stable`).  Together: the lookahead sets of the model construction are the least
solution of the LALR(1) generation / propagation equations over the constructed automaton.
-/
namespace Rustemo.Table

variable {g : Grammar}

theorem hasTrans_fun {st : State} (hc : StC g st) {X j1 j2 : Nat} (h1 : HasTrans g st X j1)
    (h2 : HasTrans g st X j2) : j1 = j2 := by
  rcases h1 with ⟨a1, b1⟩ | ⟨a1, b1⟩ <;> rcases h2 with ⟨a2, b2⟩ | ⟨a2, b2⟩
  · have hl := hc.cell1 X
    cases hcell : st.actions.getD X [] with
    | nil => rw [hcell] at b1; simp at b1
    | cons x xs =>
      rw [hcell] at b1 b2 hl
      have : xs = [] := by
        simp only [List.length_cons] at hl
        exact List.eq_nil_of_length_eq_zero (by omega)
      subst this
      simp only [List.mem_singleton] at b1 b2
      rw [← b1] at b2
      injection b2 with b2
      exact b2.symm
  · omega
  · omega
  · rw [b1] at b2; injection b2

/-- the target of a recorded transition holds the advanced item -/
theorem Final.target_core {s : Settings} {t : Table} {sts : Array State} {autos : List (Nat × Nat)}
    (hF : Final g s t sts autos) {i : Nat} {st : State} (hs : sts[i]? = some st) {p d X j : Nat}
    (hc : (p, d) ∈ st.items.map core) (hX : g.rhsAt p d = some X) (ht : HasTrans g st X j) :
    ∃ sj, sts[j]? = some sj ∧ (p, d + 1) ∈ sj.items.map core := by
  obtain ⟨s', t1, stt, t2, t3⟩ := hF.invc.trans i st hs (lt_size_of_getElem? hs) (p, d) hc X hX
  have := hasTrans_fun (hF.invc.st i st hs) t1 ht
  subst this
  exact ⟨stt, t2, t3⟩

theorem Final.reach_present {s : Settings} {t : Table} {sts : Array State} {autos : List (Nat × Nat)}
    (hF : Final g s t sts autos) {i p d : Nat} (h : Reach g autos sts i p d) :
    ∃ st, sts[i]? = some st ∧ (p, d) ∈ st.items.map core := by
  induction h with
  | start h =>
    obtain ⟨st, s1, _, it, s3, s4, _⟩ := hF.inv.starts _ h
    exact ⟨st, s1, List.mem_map.mpr ⟨it, s3, s4⟩⟩
  | clos _ hp hB hn hq ih =>
    obtain ⟨st, s1, s2⟩ := ih
    refine ⟨st, s1, ?_⟩
    apply hF.invc.closed _ st s1 (lt_size_of_getElem? s1) _ s2 _ _ hn _ hq
    unfold Grammar.rhsAt
    simp only [hp]; exact hB
  | trans _ hs hX ht ih =>
    obtain ⟨st, s1, s2⟩ := ih
    rw [hs] at s1
    simp only [Option.some.injEq] at s1
    subst s1
    exact hF.target_core hs s2 hX ht

/-- **every justified lookahead is in the set of its item** -/
theorem Final.just_present (_hg : GW g) {s : Settings} {t : Table} {sts : Array State} {autos : List (Nat × Nat)}
    (hF : Final g s t sts autos) {i p d a : Nat} (h : Just g t.firsts autos sts i p d a) :
    ∃ st it, sts[i]? = some st ∧ it ∈ st.items ∧ core it = (p, d) ∧ a ∈ it.la := by
  -- a closure item receives what `newFollow` hands down (the state is a closure fixpoint)
  have closes : ∀ {i : Nat} {st : State} {it : Item} {pr : Prod} {B q : Nat}, sts[i]? = some st → it ∈ st.items →
      g.prods[it.prod]? = some pr → pr.rhs[it.dot]? = some B → g.nterms ≤ B → q ∈ Canon.prodsOf g B →
      ∃ nf it', newFollow g t.firsts pr it = some nf ∧ it' ∈ st.items ∧ core it' = (q, 0) ∧ Sub nf it'.la := by
    intro i st it pr B q hs hit hp hB hn hq
    obtain ⟨st0, f1, f2⟩ := hF.fix i (lt_size_of_getElem? hs)
    rw [hs] at f1
    simp only [Option.some.injEq] at f1
    subst f1
    obtain ⟨dsi, d1, d2⟩ := closureRound_fix f2 it hit
    obtain ⟨nf, n1, n2⟩ := itemDemands_nonterm d1 hp hB hn
    obtain ⟨it', j1, j2, j3⟩ := d2 (q, nf) (by rw [n2]; exact List.mem_map.mpr ⟨q, hq, rfl⟩)
    exact ⟨nf, it', n1, j1, j2, j3⟩
  induction h with
  | start h =>
    obtain ⟨st, s1, _, it, s3, s4, s5⟩ := hF.inv.starts _ h
    exact ⟨st, it, s1, s3, s4, s5⟩
  | @gen i p d pr B q f b hr hp hB hn hq hlt hf hb hne =>
    obtain ⟨st, s1, s2⟩ := hF.reach_present hr
    obtain ⟨it, i1, i2⟩ := List.mem_map.mp s2
    simp only [core, _root_.Prod.mk.injEq] at i2
    obtain ⟨nf, it', n1, n2, n3, n4⟩ := closes s1 i1 (by rw [i2.1]; exact hp) (by rw [i2.2]; exact hB) hn hq
    refine ⟨st, it', s1, n2, n3, n4 b ?_⟩
    unfold newFollow at n1
    rw [i2.2, if_pos hlt, hf] at n1
    simp only at n1
    split at n1
    · simp only [Option.some.injEq] at n1
      subst n1
      exact mem_union.mpr (.inl (List.mem_filter.mpr ⟨hb, by simpa using hne⟩))
    · simp only [Option.some.injEq] at n1
      subst n1; exact hb
  | @prop i p d a pr B q _ hp hB hn hq hnul ih =>
    obtain ⟨st, it, s1, s2, s3, s4⟩ := ih
    simp only [core, _root_.Prod.mk.injEq] at s3
    obtain ⟨nf, it', n1, n2, n3, n4⟩ := closes s1 s2 (by rw [s3.1]; exact hp) (by rw [s3.2]; exact hB) hn hq
    refine ⟨st, it', s1, n2, n3, n4 a ?_⟩
    unfold newFollow at n1
    rw [s3.2] at n1
    by_cases hlt : d + 1 < pr.rhs.length
    · obtain ⟨f, hf, he⟩ := hnul hlt
      rw [if_pos hlt, hf] at n1
      simp only at n1
      rw [if_pos (by simpa using he)] at n1
      simp only [Option.some.injEq] at n1
      subst n1
      exact mem_union.mpr (.inr s4)
    · rw [if_neg hlt] at n1
      simp only [Option.some.injEq] at n1
      subst n1; exact s4
  | @trans i p d a X j st0 _ hs hX ht ih =>
    obtain ⟨st, it, s1, s2, s3, s4⟩ := ih
    rw [hs] at s1
    simp only [Option.some.injEq] at s1
    subst s1
    have hlt := lt_size_of_getElem? hs
    obtain ⟨sj, t2, t3⟩ := hF.target_core hs (List.mem_map.mpr ⟨it, s2, s3⟩) hX ht
    obtain ⟨tit, u1, u2⟩ := List.mem_map.mp t3
    simp only [core, _root_.Prod.mk.injEq] at u2 s3
    have hgd : sts.getD i default = st0 := by rw [Array.getD_eq_getD_getElem?, hs]; rfl
    obtain ⟨si', sj', e1, e2, e3⟩ := hF.stable i hlt j (by rw [hgd]; exact mem_targetsOf ht)
    rw [hs] at e1; rw [t2] at e2
    simp only [Option.some.injEq] at e1 e2
    subst e1 e2
    have hk : isKernel tit = true := isKernel_of_dot (by omega)
    obtain ⟨_, e4⟩ := e3 tit u1 hk
    have hfind := find?_core (hF.inv.st i st0 hs).nodup s2 (p := tit.prod) (d := tit.dot - 1) (by omega) (by omega)
    exact ⟨sj, tit, t2, u1, by simp [core, u2.1, u2.2], e4 it hfind a s4⟩

/-- **the lookahead sets are exactly the justified ones** -/
theorem build_lookaheads_exact (hg : gwf g = true) {s : Settings} {fuel : Nat} {t : Table}
    (h : build g s fuel = .ok t) :
    ∃ (sts : Array State) (autos : List (Nat × Nat)), AutosOf g t autos ∧ sts.size = t.states.size ∧
      (∀ (i : Nat) (st' : State), t.states[i]? = some st' → ∃ st, sts[i]? = some st ∧ st'.items = st.items ∧
        st'.gotos = st.gotos ∧ ∀ a s', Action.shift s' ∈ st'.actions.getD a [] → Action.shift s' ∈ st.actions.getD a []) ∧
      ∀ i p d a, (∃ st it, sts[i]? = some st ∧ it ∈ st.items ∧ it.prod = p ∧ it.dot = d ∧ a ∈ it.la) ↔
        Just g t.firsts autos sts i p d a := by
  have hG := GW.of_gwf hg
  obtain ⟨sts, autos, hF⟩ := built_final hG (build_ok h)
  refine ⟨sts, autos, hF.autos, hF.size.symm, ?_, ?_⟩
  · intro i st' hs
    obtain ⟨st, h1, h2⟩ := hF.fin i st' hs
    obtain ⟨f1, f2, _⟩ := finishState_spec h2
    refine ⟨st, h1, f1, f2, ?_⟩
    intro a s' hm
    obtain ⟨_, hc⟩ := final_cell h2 hm
    rcases hc with hc | ⟨hc, _⟩ | ⟨_, _, _, _, hc⟩
    · exact hc
    · cases hc
    · cases hc
  · intro i p d a
    constructor
    · rintro ⟨st, it, h1, h2, rfl, rfl, h5⟩
      exact (hF.just i st h1 it h2).2 a h5
    · intro hj
      obtain ⟨st, it, s1, s2, s3, s4⟩ := hF.just_present hG hj
      simp only [core, _root_.Prod.mk.injEq] at s3
      exact ⟨st, it, s1, s2, s3.1, s3.2, s4⟩

end Rustemo.Table
