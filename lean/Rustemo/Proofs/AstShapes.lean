import Rustemo.Proofs.AstTokens
/-!
# C10: the class predicate of F7 is the hypothesis of the token theorem

`hasRightVec ts = false` (no Vec-kind rule with the vector on the right, decided by the driver for every
grammar of a run) implies `Supported (shapesOf g ts false)`. Plus the element-level statements about
vectors and optionals.
-/
namespace Rustemo.Ast

theorem actOf_vecPush_false {nt : String} {t : SymType} {c : Choice} (h : actOf nt t c = .vecPush false) :
    ∃ r b, t.kind = .vec r b ∧ ∃ st a f, c.kind = .struct st [a, f] ∧ (f.refType == nt) = true := by
  unfold actOf at h
  split at h
  · rename_i r b hk
    refine ⟨r, b, hk, ?_⟩
    split at h
    · cases h
    · rename_i st a f hc
      refine ⟨st, a, f, hc, ?_⟩
      simp only [Act.vecPush.injEq, Bool.not_eq_false'] at h
      exact h
    all_goals cases h
  · split at h <;> cases h
  · split at h <;> cases h
  · split at h <;> cases h
  · cases h

theorem mem_enumFrom {α} : ∀ (l : List α) (n : Nat) (x : Nat × α), x ∈ enumFrom n l → x.2 ∈ l
  | [], _, _, h => by simp [enumFrom] at h
  | a :: as, n, x, h => by
    simp only [enumFrom, List.mem_cons] at h
    rcases h with h | h
    · subst h; simp
    · exact List.mem_cons_of_mem _ (mem_enumFrom as (n + 1) x h)

/-- no right-recursive Vec rule ⇒ the shapes of the code as it is are supported -/
theorem supported_of_no_right_vec (g : AGrammar) (ts : List SymType) (h : hasRightVec ts = false) :
    Supported (shapesOf g ts false) := by
  right
  intro p hp hact
  simp only [shapesOf, List.mem_map] at hp
  obtain ⟨ip, _, rfl⟩ := hp
  unfold shapeOfProd at hact
  split at hact
  · rename_i t c ht hc
    simp only at hact
    obtain ⟨r, b, hk, st, a, f, hck, hf⟩ := actOf_vecPush_false hact
    have htm : t ∈ ts := List.mem_of_find?_eq_some ht
    have htn : (t.name == ip.2.nt) = true := by
      have := List.find?_some ht
      simpa using this
    have hcm : c ∈ t.choices := by
      unfold choiceOfProd at hc
      rw [ht] at hc
      exact List.mem_of_getElem? hc
    have : hasRightVec ts = true := by
      unfold hasRightVec
      rw [List.any_eq_true]
      refine ⟨t, htm, ?_⟩
      rw [hk]
      simp only
      rw [List.any_eq_true]
      refine ⟨c, hcm, ?_⟩
      rw [hck]
      simp only
      have e : t.name = ip.2.nt := by simpa using htn
      rw [e]; exact hf
    rw [h] at this; cases this
  · simp at hact

/-! ## vectors and optionals, element level -/

/-- left recursion `A: A B`: the new element goes after the elements collected so far (input order) -/
theorem vec_left_in_order (loc fixed opt : Bool) (as : List Val) (b : Val) :
    applyAct loc fixed opt (.vecPush true) [.vec as, b] = .ok (.vec (as ++ [b])) := rfl

/-- right recursion `A: B A`, the code as it is: the element that comes FIRST in the input is appended LAST -/
theorem vec_right_as_is (loc opt : Bool) (as : List Val) (b : Val) :
    applyAct loc false opt (.vecPush false) [b, .vec as] = .ok (.vec (as ++ [b])) := rfl

/-- right recursion, repaired: the element goes to the front -/
theorem vec_right_fixed (loc opt : Bool) (as : List Val) (b : Val) :
    applyAct loc true opt (.vecPush false) [b, .vec as] = .ok (.vec (b :: as)) := rfl

def Act.isVec : Act → Bool
  | .vecEmpty => true
  | .vecOne => true
  | .vecPush _ => true
  | _ => false

/-- an optional (non-Vec) rule yields `None` exactly for its EMPTY alternative, `Some _` otherwise -/
theorem optional_none_iff_empty (loc fixed : Bool) (act : Act) (ps : List Val) (v : Val)
    (hv : act.isVec = false) (h : applyAct loc fixed true act ps = .ok v) :
    (v = .none ↔ act = .empty) ∧ (act ≠ .empty → ∃ w, v = .some w) := by
  unfold applyAct at h
  split at h
  · cases h; simp [wrapSome]
  · split at h
    · cases h; simp [wrapSome]
    · cases h
  · cases h; simp [wrapSome]
  · cases h; simp
  all_goals first | (simp [Act.isVec] at hv; done) | cases h

end Rustemo.Ast
