import Rustemo.Proofs.GlrClosure2
/-!
# `find_reduction_paths` finds every chain (breadth first search is complete)
-/
namespace Rustemo.Glr
open Rustemo

/-- the last link of a chain -/
theorem ChainEnd.last {t : Table} {g : Gss} {pre Xs : List Nat} {e u w : Nat}
    (h : ChainEnd t g (pre ++ [e]) Xs u w) :
    ∃ (w' : Nat) (ed : Edge), ChainEnd t g pre (Xs.take pre.length) u w' ∧ g.edges[e]? = some ed ∧ ed.src = w ∧ ed.dst = w' := by
  obtain ⟨w', h1, h2⟩ := ChainEnd.split pre.length h
  simp only [List.take_left', List.drop_left'] at h1 h2
  obtain ⟨ed, hs, X, Xs', he, _, _, hdst, _, hr⟩ := h2
  exact ⟨w', ed, h1, he, hr.2, hdst⟩

theorem expandPaths_complete {t : Table} {g : Gss} :
    ∀ (n : Nat) (pre suf Xs : List Nat) (u w : Nat) (ps : List Path), ChainEnd t g pre Xs u w → pre.length = n →
      ⟨suf, w⟩ ∈ ps → ⟨pre ++ suf, u⟩ ∈ expandPaths g n ps
  | 0, pre, suf, Xs, u, w, ps, h, hn, hm => by
    have : pre = [] := List.eq_nil_of_length_eq_zero hn
    subst this
    rw [h.2]
    simpa [expandPaths] using hm
  | n+1, pre, suf, Xs, u, w, ps, h, hn, hm => by
    rcases List.eq_nil_or_concat pre with hnil | ⟨pre', e, hpre⟩
    · subst hnil; simp at hn
    · rw [List.concat_eq_append] at hpre
      subst hpre
      obtain ⟨w', ed, h1, he, hsrc, hdst⟩ := ChainEnd.last h
      simp only [expandPaths]
      have hlen : pre'.length = n := by simp at hn; exact hn
      have hmem : (⟨e :: suf, w'⟩ : Path) ∈ ps.flatMap (expandOne g) := by
        rw [List.mem_flatMap]
        refine ⟨⟨suf, w⟩, hm, ?_⟩
        unfold expandOne
        rw [List.mem_filterMap]
        exact ⟨e, mem_backedges.mpr ⟨ed, he, hsrc⟩, by rw [he]; simp only; rw [hdst]⟩
      have := expandPaths_complete n pre' (e :: suf) _ u w' _ h1 hlen hmem
      simpa using this

/-- every chain of the reduction's length that ends with its start edge (or the empty chain at its start node)
    is among the paths found -/
theorem findReductionPaths_complete {t : Table} {g : Gss} {r : Reduction} {paths : List Path}
    (hp : findReductionPaths g r = .ok paths) {P Xs : List Nat} {u v : Nat} (hc : ChainEnd t g P Xs u v)
    (hlen : P.length = r.len)
    (hstart : match r.start with
      | .edge e => 0 < r.len ∧ P[r.len - 1]? = some e
      | .node n => r.len = 0 ∧ n = u) :
    ⟨P, u⟩ ∈ paths := by
  unfold findReductionPaths at hp
  cases hs : r.start with
  | node n =>
    rw [hs] at hp hstart
    simp only at hp hstart
    injection hp with hp; subst hp
    have : P = [] := List.eq_nil_of_length_eq_zero (by omega)
    subst this
    simp [hstart.2]
  | edge e =>
    rw [hs] at hp hstart
    simp only at hp hstart
    obtain ⟨hpos, hlast⟩ := hstart
    cases hed : g.edges[e]? with
    | none => simp [Gss.edge, hed, obind] at hp
    | some ed =>
      simp only [Gss.edge, hed, obind] at hp
      injection hp with hp; subst hp
      -- P = pre ++ [e]
      rcases List.eq_nil_or_concat P with hnil | ⟨pre, e', hP⟩
      · subst hnil; simp at hlen; omega
      · rw [List.concat_eq_append] at hP
        subst hP
        have hl : pre.length = r.len - 1 := by simp at hlen; omega
        have he' : e' = e := by
          rw [← hl, List.getElem?_concat_length] at hlast
          exact Option.some.inj hlast
        subst he'
        obtain ⟨w', ed', h1, he2, hsrc, hdst⟩ := ChainEnd.last hc
        rw [hed] at he2; injection he2 with he2; subst he2
        have := expandPaths_complete (r.len - 1) pre [e'] _ u w' [⟨[e'], ed.dst⟩] h1 hl (by rw [hdst]; simp)
        exact this

end Rustemo.Glr
