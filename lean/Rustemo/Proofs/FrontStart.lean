import Rustemo.Proofs.FrontFinal
/-!
# References resolve to the symbols they name; the first rule is the start symbol
-/
namespace Rustemo.Front

theorem all2_mem' {α β : Type} {R : α → β → Prop} : ∀ {l : List α} {l' : List β}, All2 R l l' →
    ∀ b, b ∈ l' → ∃ a, a ∈ l ∧ R a b
  | _, [], _, b, hb => by simp at hb
  | _, y :: ys, h, b, hb => by
    cases h with
    | cons hr t =>
      rcases List.mem_cons.mp hb with rfl | hb
      · exact ⟨_, by simp, hr⟩
      · obtain ⟨a, ha, r⟩ := all2_mem' t b hb
        exact ⟨a, by simp [ha], r⟩

theorem Facts.term_at_mem {fx : Fixes} {f : File} {g : Grammar} (F : Facts fx f g) {kv : Name × Term}
    (hmem : kv ∈ F.ts.terms) :
    ∃ y, g.terminals[kv.2.idx]? = some y ∧ y.name = kv.1 ∧ y.recog = kv.2.recog ∧ kv.2.idx < g.nT := by
  have hm : kv.2 ∈ sortTerms F.ts.terms.values := by
    unfold sortTerms
    rw [mem_sortByKey]
    unfold SMap.values
    exact List.mem_map.mpr ⟨kv, hmem, rfl⟩
  obtain ⟨j, hj⟩ := List.getElem?_of_mem hm
  have hpos := sortTerms_pos F.tinv j kv.2 hj
  subst hpos
  rw [F.terms]
  refine ⟨_, setReachTerms_get' _ _ _ _ _ hj, F.tinv.named _ hmem, rfl, ?_⟩
  rw [F.nT_eq, F.tinv.count]
  exact F.tinv.bound _ hmem

/-- every right-hand side symbol is a symbol of the referenced name / the terminal declared with the
referenced string -/
theorem build_resolves {fx : Fixes} {f : File} {g : Grammar} (hr : Regular fx f) (h : build fx f = .ok g) :
    ∀ p, p ∈ g.prods → ∀ a, a ∈ p.rhs →
      (∀ n, a.sym = .name n → IsSym g n a.symbol) ∧
      (∀ s, a.sym = .str s → ∃ t, g.terminals[a.symbol]? = some t ∧ t.recog = some (.str s) ∧ a.symbol < g.nT) := by
  obtain ⟨F⟩ := build_facts hr h
  have hres := resolve_spec F.hres1 F.hres2
  have hnone := extract_allNone F.hext
  intro p hp a ha
  obtain ⟨p0, hp0, rhs', e, rr⟩ := all2_mem' hres p hp
  subst e
  obtain ⟨a0, ha0, r1, r2, r3, r4⟩ := all2_mem' rr a ha
  have h0 := r4 (hnone p0 hp0 a0 ha0)
  constructor
  · intro n hn
    obtain ⟨hsome, he⟩ := h0.1 n (r2 ▸ hn)
    unfold RAssign.symbol
    cases hi : a.index with
    | none => rw [hi] at hsome; cases hsome
    | some i =>
      rw [hi] at he
      exact F.resName_isSym he.symm
  · intro s hs
    obtain ⟨tn, i, hg, hi⟩ := h0.2 s (r2 ▸ hs)
    unfold RAssign.symbol
    rw [hi]
    simp only [Option.getD_some]
    unfold matchesOf at hg
    split at hg
    · simp at hg
    · obtain ⟨kv, hkv, _, ei, erec⟩ := buildMatches_get? F.ts.terms hg
      obtain ⟨y, hy, _, hyr, hlt⟩ := F.term_at_mem hkv
      rw [ei] at hy hlt
      exact ⟨y, hy, hyr.trans erec, hlt⟩

/-! ## AUG and the start symbol -/

/-- the AUG entry and its production stay what `create_aug_nt_and_production` made them -/
def AugOk (p0 : GProd) (nts : List NonTerm) (prods : List GProd) : Prop :=
  findNt nts kAUG = some { idx := 1, name := kAUG, prods := [0] } ∧ prods[0]? = some p0

theorem altStep_aug {cx : Ctx} {rule : Rule} {ntIdx j : Nat} {alt : Alt} {st st' : XSt} {p0 : GProd}
    (hne : rule.name ≠ kAUG) (ha : AugOk p0 st.nts st.prods) (h : altStep cx rule ntIdx j alt st = .ok st') :
    AugOk p0 st'.nts st'.prods := by
  unfold altStep at h
  simp only at h
  obtain ⟨res, h1, h⟩ := Outcome.bind_eq_ok.mp h
  obtain ⟨_, _, h⟩ := Outcome.bind_eq_ok.mp h
  cases h
  have hP := rhsSteps_pres (cx := cx)
    (P := fun s => findNt s.1.nts kAUG = some { idx := 1, name := kAUG, prods := [0] } ∧ s.1.prods = st.prods)
    (fun a _ u _ => closed_and cx.fx (closed_find cx.fx kAUG _ u)
      (fun s hs _ => by
        obtain ⟨ann, r0, r1, e⟩ := createUse_eq cx.fx u s
        rw [e]
        exact hs))
    (s := ({ st with nextProd := st.nextProd + 1 }, [])) ⟨ha.1, rfl⟩ h1
  constructor
  · show findNt (if hasNt res.2.1.nts rule.name = true then _ else _) kAUG = _
    split
    · rw [findNt_pushProd hP.1]
      have : ((kAUG : Name) == rule.name) = false := by
        simpa using fun e => hne e.symm
      simp [this]
    · exact findNt_append_left _ hP.1
  · show (res.2.1.prods ++ [_] ++ res.2.2)[0]? = some p0
    rw [hP.2, List.append_assoc]
    exact getElem?_append_left' ha.2

theorem altSteps_aug {cx : Ctx} {rule : Rule} {ntIdx : Nat} {p0 : GProd} (hne : rule.name ≠ kAUG) :
    ∀ {alts : List Alt} {j : Nat} {st st' : XSt}, AugOk p0 st.nts st.prods →
      altSteps cx rule ntIdx j alts st = .ok st' → AugOk p0 st'.nts st'.prods
  | [], _, _, _, ha, h => by
    cases h
    exact ha
  | a :: as, j, st, st', ha, h => by
    unfold altSteps at h
    obtain ⟨st1, h1, h2⟩ := Outcome.bind_eq_ok.mp h
    exact altSteps_aug hne (altStep_aug hne ha h1) h2

theorem ruleSteps_aug {cx : Ctx} {p0 : GProd} :
    ∀ {rules : List Rule} {st st' : XSt}, (∀ r, r ∈ rules → r.name ≠ kAUG) → AugOk p0 st.nts st.prods →
      ruleSteps cx rules st = .ok st' → AugOk p0 st'.nts st'.prods
  | [], _, _, _, ha, h => by
    cases h
    exact ha
  | r :: rs, st, st', hne, ha, h => by
    unfold ruleSteps at h
    obtain ⟨st1, h1, h2⟩ := Outcome.bind_eq_ok.mp h
    refine ruleSteps_aug (fun x hx => hne x (by simp [hx])) ?_ h2
    rcases ruleStep_ok h1 with ⟨nt, hf, h1⟩ | ⟨hf, h1⟩
    · exact altSteps_aug (hne r (by simp)) ha h1
    · exact altSteps_aug (st := { st with nextNt := st.nextNt + 1 }) (hne r (by simp)) ha h1

theorem extract_aug {cx : Ctx} {r0 : Rule} {rules : List Rule} {st : XSt}
    (hne : ∀ r, r ∈ rules → r.name ≠ kAUG) (h : extract cx r0 rules = .ok st) :
    AugOk { idx := 0, nonterminal := 1, rhs := [resolving r0.name] } st.nts st.prods := by
  unfold extract at h
  simp only at h
  refine ruleSteps_aug hne ?_ h
  split
  · exact ⟨rfl, rfl⟩
  · exact ⟨rfl, rfl⟩

/-- a variant that rejects rules named like a terminal has checked every processed rule -/
theorem ruleSteps_notTerm {cx : Ctx} {rules : List Rule} {st st' : XSt} (h : ruleSteps cx rules st = .ok st')
    (r : Rule) (hr : r ∈ rules) : (cx.fx.dupNameErr && cx.termNames.contains r.name) = false :=
  ruleCheck_notTerm (ruleSteps_checked h r hr)

/-- the first rule is the start symbol, and AUG is the single production `AUG: <first rule>` -/
theorem build_start {fx : Fixes} {f : File} {g : Grammar} (hc : Clean fx f)
    (hrt : fx.dupNameErr = true ∨ f.ruleIsTerminal = false)
    (h : build fx f = .ok g) (r0 : Rule) (rs : List Rule) (hrules : f.rules = some (r0 :: rs)) :
    ∃ (start aug : NonTerm) (p0 : GProd), g.nonterminals[start.idx]? = some start ∧ start.name = r0.name ∧
      g.startIdx = g.nT + start.idx ∧
      g.nonterminals[aug.idx]? = some aug ∧ aug.name = kAUG ∧ g.augIdx = g.nT + aug.idx ∧ aug.prods = [0] ∧
      g.prods[0]? = some p0 ∧ p0.nonterminal = aug.idx ∧ p0.rhsSyms = [g.startIdx] := by
  obtain ⟨F⟩ := build_facts hc.regular h
  have e0 : F.r0 = r0 ∧ F.rs = rs := by
    have := F.hrules
    rw [hrules] at this
    cases this
    exact ⟨rfl, rfl⟩
  obtain ⟨e1, e2⟩ := e0
  have hne : ∀ r, r ∈ F.r0 :: F.rs → r.name ≠ kAUG := by
    intro r hr
    have : r.name ∈ ruleNamesOf f := by
      unfold ruleNamesOf
      rw [F.hrules]
      exact List.mem_map_of_mem hr
    exact ((hc.derived F).2.2 _ this).2.1
  obtain ⟨haug, hp0⟩ := extract_aug hne F.hext
  -- start
  obtain ⟨hms, hns⟩ := findNt_some F.hstart
  obtain ⟨ys, hys, hysn, _, _, hysi⟩ := F.nt_at hms
  -- aug
  have haugeq : F.aug = { idx := 1, name := kAUG, prods := [0] } := by
    have := F.haug
    rw [haug] at this
    exact (Option.some.inj this).symm
  obtain ⟨hma, _⟩ := findNt_some haug
  obtain ⟨ya, hya, hyan, hyap, _, hyai⟩ := F.nt_at hma
  -- production 0
  have hres := resolve_spec F.hres1 F.hres2
  obtain ⟨p0', hp0', rhs', e', rr⟩ := forall₂_get' hres 0 _ hp0
  have hnT := F.nT_eq
  -- its symbol
  obtain ⟨b, bs, eb, hb, hbs⟩ := all2_cons_left rr
  have := all2_nil_left hbs
  subst this
  obtain ⟨_, _, _, hb4⟩ := hb
  obtain ⟨hsome, he⟩ := (hb4 rfl).1 F.r0.name rfl
  have hnot : F.ts.terms.get? F.r0.name = none := by
    apply SMap.get?_none_iff.mpr
    intro hk
    have hk' := (F.tkeys _).mp hk
    rcases hrt with hflag | hrt
    · have hext := F.hext
      unfold extract at hext
      simp only at hext
      have := ruleSteps_notTerm hext F.r0 (by simp)
      have hfx : (ctxOf fx f F.ts).fx.dupNameErr = true := hflag
      rw [hfx] at this
      simp only [Bool.true_and] at this
      have hc' : (ctxOf fx f F.ts).termNames.contains F.r0.name = true := by
        show (kSTOP :: termNamesOf f).contains F.r0.name = true
        simpa using hk'
      rw [hc'] at this
      cases this
    · unfold File.ruleIsTerminal at hrt
      have : (ruleNamesOf f).any (fun r => (kSTOP :: termNamesOf f).contains r) = true := by
        apply List.any_eq_true.mpr
        refine ⟨F.r0.name, ?_, by simpa using hk'⟩
        unfold ruleNamesOf
        rw [F.hrules]
        simp
      rw [this] at hrt
      cases hrt
  have hsym : b.symbol = g.startIdx := by
    unfold resName at he
    rw [hnot, F.hstart] at he
    simp only [Option.map_some] at he
    unfold RAssign.symbol
    rw [he, F.eStart]
    simp only [Option.getD_some]
    omega
  refine ⟨ys, ya, p0', by rw [hysi]; exact hys, by rw [hysn, hns, e1], ?_, by rw [hyai]; exact hya, hyan, ?_,
    hyap, hp0', ?_, ?_⟩
  · rw [F.eStart, hnT, hysi]
  · rw [F.eAug, hnT, hyai, haugeq]
  · rw [e', hyai]
  · rw [e']
    show rhs'.map RAssign.symbol = _
    rw [eb]
    simp [hsym]

end Rustemo.Front
