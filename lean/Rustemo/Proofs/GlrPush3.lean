import Rustemo.Proofs.GlrPush2
/-!
# From "all levels done" to the forest: the derivation tree is returned by some index
-/
namespace Rustemo.Glr
open Rustemo

/-- **Completeness from the closure properties.**  If in the final graph every level `k ≤ n` is done (its
    sub-frontier is closed under reductions, every shift on `tok k` was performed, every head alive on `tok k` is in
    it), the start head is in level 0 and `tok n` is STOP, then for every derivation tree of the token kinds there
    is a head of level `n` in a state that accepts on STOP with an edge down to the start head carrying a
    possibility that unfolds to a tree equal to it modulo elision. -/
theorem accept_of_allDone {env : Env} {g : Gss} {tok : Nat → Tok} {n : Nat} {subs : Nat → SubFrontier}
    (A : AllDone env g tok n subs) (hstart : (0, 0) ∈ subs 0) (hstop : (tok n).kind = 0)
    (full : Tree) (hv : full.Valid env.g env.g.startIdx) (hy : full.yield = kindsOf tok 0 n) :
    ∃ (s' v e : Nat) (ed : Edge) (m k : Nat) (tr : Tree), (s', v) ∈ subs n ∧ Action.accept ∈ env.t.cell s' 0 ∧
      g.edges[e]? = some ed ∧ ed.src = v ∧ ed.dst = 0 ∧ m ∈ ed.poss ∧ InU g k m tr ∧ Tree.EqElide full tr := by
  obtain ⟨pr0, hpr0, hl0, hr0⟩ := A.hW.aug0
  have haug0 : env.g.isAug 0 = true := by
    unfold Grammar.isAug; rw [hpr0]; simp [hl0]
  obtain ⟨s', v, e, ed, m, k, tr, _, hin, hi', he, hsrc, hdst, hm, hinu, heq⟩ :=
    push_tree_gss A full env.g.startIdx hv 0 n (Nat.zero_le _) (Nat.le_refl _) hy 0 0 0 0 0 pr0 hstart A.hC.start hpr0
      (by rw [hr0]; rfl)
      ⟨.nil, by rw [hr0]; simp [TreeList.Valid], by simp [TreeList.yield, hstop]⟩
      (fun _ => ⟨rfl, by rw [hr0]; rfl⟩)
  have hacc := A.hC.accept s' 0 pr0 hpr0 haug0 (by rw [hr0]; exact hi'.toItem)
  exact ⟨s', v, e, ed, m, k, tr, hin, hacc, he, hsrc, hdst, hm, hinu, heq⟩

/-- the tree is returned by `getTree` when the accepting head is among the accepted heads of the result and the
    unfolding is not cut -/
theorem getTree_of_root {env : Env} {r : GlrResult} (hr : ResultOk env r) (hc : r.droots.hasCut = false)
    {m k : Nat} {tr : Tree} (hm : m ∈ r.roots) (hinu : InU r.gss k m tr) : ∃ i, r.getTree i = some tr := by
  unfold GlrResult.getTree
  have hNE : r.droots.NE := by
    unfold GlrResult.droots
    apply listToDN_NE
    intro d hd
    rw [List.mem_map] at hd
    obtain ⟨m', hm', rfl⟩ := hd
    obtain ⟨e, ed, _, _, hed, hmem, _⟩ := hr.roots m' hm'
    exact unfold_NE hr.g _ e ed m' hed hmem
  have hwf := DNList.wfd_of r.droots hc hNE
  apply DNList.mem_all_get _ hwf
  unfold GlrResult.droots
  rw [mem_all_listToDN]
  refine ⟨unfoldNode r.gss (r.gss.nodes.size + 1) m, List.mem_map.mpr ⟨m, hm, rfl⟩, ?_⟩
  -- no cut below this root
  have hcm : (unfoldNode r.gss (r.gss.nodes.size + 1) m).hasCut = false := by
    unfold GlrResult.droots at hc
    rw [hasCut_listToDN, List.any_map, List.any_eq_false] at hc
    simpa using hc m hm
  exact inU_fixed hcm hinu

end Rustemo.Glr
