import Rustemo.Proofs.TablePropC
import Rustemo.Proofs.ResolveCell
/-!
# Table construction never panics, part 3: the invariant behind `calculate_reductions`

`InvP`: no state holds items of two different augmented productions (`AugSep`: at most one ACCEPT event per
cell), and `max_prior_for_term` has an entry for every terminal with a SHIFT (`PrioOk`: the `BTreeMap`
index in the SHIFT/REDUCE resolution cannot fail).
-/
namespace Rustemo.Table

variable {g : Grammar} {fs : Array (List Nat)} {tt : String} {rn : Option (Array Nat)}

def AugSep (g : Grammar) (items : List Item) : Prop :=
  ∀ it1 ∈ items, ∀ it2 ∈ items, AugProd g it1.prod → AugProd g it2.prod → it1.prod = it2.prod

def PrioOk (st : State) : Prop :=
  ∀ a s', Action.shift s' ∈ st.actions.getD a [] → lookupPrio st.maxPrio a ≠ none

def InvP (g : Grammar) (sts : Array State) : Prop :=
  ∀ (i : Nat) (st : State), sts[i]? = some st → AugSep g st.items ∧ PrioOk st

/-- items whose productions are old ones or not augmented -/
theorem AugSep.of_back {old new : List Item} (h : AugSep g old)
    (hb : ∀ it' ∈ new, (∃ it ∈ old, it.prod = it'.prod) ∨ ¬AugProd g it'.prod) : AugSep g new := by
  intro a ha b hb' h1 h2
  rcases hb a ha with ⟨a0, a1, a2⟩ | hna
  · rcases hb b hb' with ⟨b0, b1, b2⟩ | hnb
    · rw [← a2, ← b2]
      exact h a0 a1 b0 b1 (by rw [a2]; exact h1) (by rw [b2]; exact h2)
    · exact absurd h2 hnb
  · exact absurd h1 hna

theorem AugSep.grown {old new : List Item} (h : AugSep g old) (hgr : Grown old new) : AugSep g new := by
  apply h.of_back
  intro it' hit'
  obtain ⟨it0, b1, b2, _⟩ := hgr.back it' hit'
  simp only [core, _root_.Prod.mk.injEq] at b2
  exact .inl ⟨it0, b1, b2.1⟩

theorem AugSep.closure (hg : GW g) {old new : List Item} (h : AugSep g old) (hrel : ClosureRel g old new) :
    AugSep g new := by
  apply h.of_back
  intro it' hit'
  rcases hrel.back it' hit' with ⟨it0, b1, b2, _⟩ | ⟨_, b2⟩
  · simp only [core, _root_.Prod.mk.injEq] at b2
    exact .inl ⟨it0, b1, b2.1⟩
  · exact .inr (b2.not_aug hg)

theorem InvP.set_items {sts : Array State} (h : InvP g sts) {i : Nat} {st : State} (hi : sts[i]? = some st)
    {items : List Item} (hs : AugSep g items) : InvP g (setItems sts i items) := by
  intro j stj hj
  rw [getElem?_setItems] at hj
  by_cases hij : i = j
  · rw [if_pos hij, ← hij, hi] at hj
    simp only [Option.map_some, Option.some.injEq] at hj
    subst hj
    exact ⟨hs, (h i st hi).2⟩
  · rw [if_neg hij] at hj; exact h j stj hj

/-! ## `max_prior_for_term` -/

theorem maxPrior_some {items : List Item} {t : Nat} {it : Item} (hit : it ∈ items)
    (hn : Resolve.nextSym g it = some t) : Resolve.maxPrior g items t ≠ none := by
  have := (Resolve.maxPrior_foldl g t items none).1
  intro hc
  unfold Resolve.maxPrior at hc
  exact (this.mp hc).2 it hit hn

theorem lookupPrio_maxPrioOf {items : List Item} {t : Nat} (ht : t < g.nterms) {it : Item} (hit : it ∈ items)
    (hn : Resolve.nextSym g it = some t) : lookupPrio (maxPrioOf g items) t ≠ none := by
  unfold lookupPrio
  cases hm : Resolve.maxPrior g items t with
  | none => exact absurd hm (maxPrior_some hit hn)
  | some p =>
    have hmem : (t, p) ∈ maxPrioOf g items := by
      unfold maxPrioOf
      exact List.mem_filterMap.mpr ⟨t, List.mem_range.mpr ht, by rw [hm]; rfl⟩
    cases hf : (maxPrioOf g items).find? (fun e => e.1 == t) with
    | none =>
      have := List.find?_eq_none.mp hf (t, p) hmem
      simp at this
    | some e => simp

/-! ## through `calc_states` -/

theorem InvP.linkStep {cur X : Nat} {new : List Item} {items : List Item} {sts sts2 : Array State}
    (h : InvP g sts) (hnew : AugSep g new)
    (hcur : ∃ stc, sts[cur]? = some stc ∧ stc.maxPrio = maxPrioOf g items)
    (hsrc : X < g.nterms → ∃ it ∈ items, Resolve.nextSym g it = some X)
    (hstep : LinkStep g tt rn cur X new sts sts2) :
    InvP g sts2 ∧ ∃ stc, sts2[cur]? = some stc ∧ stc.maxPrio = maxPrioOf g items := by
  obtain ⟨stc0, c1, c2⟩ := hcur
  have hadd : ∀ {sts1 : Array State} {stc stc' : State} {tgt : Nat}, InvP g sts1 → sts1[cur]? = some stc →
      stc.maxPrio = maxPrioOf g items → addTrans g stc X tgt = .ok stc' →
      InvP g (sts1.setIfInBounds cur stc') ∧
        ∃ s, (sts1.setIfInBounds cur stc')[cur]? = some s ∧ s.maxPrio = maxPrioOf g items := by
    intro sts1 stc stc' tgt h1 hc hmp ha
    obtain ⟨a1, _, _, a4, a5, _⟩ := addTrans_ok ha
    refine ⟨?_, stc', by rw [get_upd hc, if_pos rfl], by rw [a4]; exact hmp⟩
    intro j stj hj
    rw [get_upd hc] at hj
    by_cases hcj : cur = j
    · rw [if_pos hcj] at hj; simp only [Option.some.injEq] at hj; subst hj
      refine ⟨by rw [a1]; exact (h1 cur stc hc).1, ?_⟩
      intro a s' hs
      rw [a5] at hs
      rw [a4]
      by_cases hca : X < g.nterms ∧ a = X
      · rw [if_pos hca] at hs
        obtain ⟨it, i1, i2⟩ := hsrc hca.1
        rw [hmp, hca.2]
        exact lookupPrio_maxPrioOf hca.1 i1 i2
      · rw [if_neg hca] at hs
        exact (h1 cur stc hc).2 a s' hs
    · rw [if_neg hcj] at hj; exact h1 j stj hj
  cases hstep with
  | merge i st items' stc stc' h1 h2 h3 h4 h5 =>
    subst h5
    have hgr := mergeState_grown h2
    have hP1 : InvP g (setItems sts i items') := h.set_items h1 ((h i st h1).1.grown hgr)
    have hmp : stc.maxPrio = maxPrioOf g items := by
      rw [getElem?_setItems] at h3
      by_cases hic : i = cur
      · rw [if_pos hic, c1] at h3
        simp only [Option.map_some, Option.some.injEq] at h3
        subst h3; exact c2
      · rw [if_neg hic, c1] at h3
        simp only [Option.some.injEq] at h3
        subst h3; exact c2
    exact hadd hP1 h3 hmp h4
  | push stc stc' h3 h4 h5 =>
    subst h5
    rw [c1] at h3
    simp only [Option.some.injEq] at h3
    subst h3
    have hP1 : InvP g (sts.push (freshState g X new)) := by
      intro j stj hj
      rw [Array.getElem?_push] at hj
      by_cases hjs : j = sts.size
      · rw [if_pos hjs] at hj; simp only [Option.some.injEq] at hj; subst hj
        refine ⟨hnew, ?_⟩
        intro a s' hs
        rw [freshState_cell] at hs; simp at hs
      · rw [if_neg hjs] at hj; exact h j stj hj
    have hc' : (sts.push (freshState g X new))[cur]? = some stc0 := by
      rw [Array.getElem?_push, if_neg (by have := lt_size_of_getElem? c1; omega)]; exact c1
    exact hadd hP1 hc' c2 h4

theorem newStates_augSep {items : List Item} (h : AugSep g items) : ∀ e ∈ newStates g items, AugSep g e.2 := by
  intro e he
  apply h.of_back
  intro n hn
  obtain ⟨its, h1, _, h3⟩ := newStates_mem he
  rw [h1] at hn
  obtain ⟨src, hs, rfl⟩ := List.mem_map.mp hn
  rw [h3] at hs
  exact .inl ⟨src, (List.mem_filter.mp hs).1, rfl⟩

theorem InvP.stepState (hg : GW g) {autos : List (Nat × Nat)} {fuel cur : Nat} {sts sts' : Array State}
    (hI : Inv g autos sts) (hC : InvC g cur cur sts) (hP : InvP g sts) (hc : cur < sts.size)
    (h : stepState g fs tt rn fuel cur sts = .ok sts') : InvP g sts' := by
  obtain ⟨st, items, st', h1, h2, h3, h4⟩ := stepState_ok hc h
  have hst := hI.st cur st h1
  have hrel := closure_rel h2 hst.items hst.nodup
  have hid := acceptInit_id hg h3
  subst hid
  have hu := hC.fresh cur st h1 (Nat.le_refl _)
  have hsep := (hP cur st h1).1.closure hg hrel
  have hP1 : InvP g (sts.setIfInBounds cur { st with items := items, maxPrio := maxPrioOf g items }) := by
    intro j stj hj
    rw [get_upd h1] at hj
    by_cases hcj : cur = j
    · rw [if_pos hcj] at hj; simp only [Option.some.injEq] at hj; subst hj
      refine ⟨hsep, ?_⟩
      intro a s' hs
      simp only at hs
      rw [hu.1 a] at hs; simp at hs
    · rw [if_neg hcj] at hj; exact hP j stj hj
  have hres := linkStates_induct (g := g) (tt := tt) (rn := rn) (cur := cur)
    (fun s => InvP g s ∧ ∃ stc, s[cur]? = some stc ∧ stc.maxPrio = maxPrioOf g items)
    (fun e => AugSep g e.2 ∧ (e.1 < g.nterms → ∃ it ∈ items, Resolve.nextSym g it = some e.1))
    (fun s s2 e hJ hG _ hstep => InvP.linkStep hJ.1 hG.1 hJ.2 hG.2 hstep)
    (newStates g items) _ sts' (by
      intro e he
      refine ⟨newStates_augSep hsep e he, fun _ => ?_⟩
      obtain ⟨its, _, i2, i3⟩ := newStates_mem he
      cases hl : its with
      | nil => exact absurd hl i2
      | cons x xs =>
        have : x ∈ items.filter (nextIs g e.1) := by rw [← i3, hl]; exact List.mem_cons_self
        exact ⟨x, (List.mem_filter.mp this).1, nextIs_iff.mp (List.mem_filter.mp this).2⟩)
    (by rw [Array.size_setIfInBounds]; exact hc) h4
    ⟨hP1, { st with items := items, maxPrio := maxPrioOf g items }, by rw [get_upd h1, if_pos rfl], rfl⟩
  exact hres.1.1

theorem InvP.calcStates (hg : GW g) {autos : List (Nat × Nat)} {fuel sym : Nat} {sts sts' : Array State}
    (hI : Inv g autos sts) (hC : InvC g sts.size sts.size sts) (hP : InvP g sts)
    (h : calcStates g fs tt rn fuel sym sts = .ok sts') : InvP g sts' := by
  obtain ⟨_, _, p, h1, h2⟩ := calcStates_ok h
  obtain ⟨pr, hp, _⟩ := prodsOf_mem (by rw [h1]; exact List.mem_cons_self : p ∈ Canon.prodsOf g sym)
  have hI0 := hI.pushStart (sym := sym) hp
  have hC0 : InvC g sts.size sts.size (sts.push (freshState g sym [⟨p, 0, [0]⟩])) :=
    hC.push (Nat.le_refl _) (Nat.le_refl _) (by
      intro it hit _
      simp only [List.mem_singleton] at hit
      subst hit; simp)
  have hP0 : InvP g (sts.push (freshState g sym [⟨p, 0, [0]⟩])) := by
    intro j stj hj
    rw [Array.getElem?_push] at hj
    by_cases hjs : j = sts.size
    · rw [if_pos hjs] at hj; simp only [Option.some.injEq] at hj; subst hj
      refine ⟨?_, ?_⟩
      · intro a ha b hb _ _
        simp only [freshState, List.mem_singleton] at ha hb
        rw [ha, hb]
      · intro a s' hs
        rw [freshState_cell] at hs; simp at hs
    · rw [if_neg hjs] at hj; exact hP j stj hj
  obtain ⟨_, hJ, _⟩ := calcLoop_induct (g := g) (fs := fs) (tt := tt) (rn := rn) (fuel := fuel)
    (fun c s => (Inv g ((sts.size, p) :: autos) s ∧ InvC g c c s) ∧ InvP g s)
    (fun c s s' hJ' hc hs => ⟨⟨(Inv.stepState hg hJ'.1.1 hc hs).1, InvC.stepState hg hJ'.1.1 hJ'.1.2 hc hs⟩,
      InvP.stepState hg hJ'.1.1 hJ'.1.2 hJ'.2 hc hs⟩)
    fuel sts.size _ sts' h2 ⟨⟨hI0, hC0⟩, hP0⟩
  exact hJ.2

theorem InvP.propagate (hg : GW g) {autos : List (Nat × Nat)} {fuel n : Nat} {sts sts' : Array State}
    (hI : Inv g autos sts) (hP : InvP g sts) (h : propagate g fs fuel n sts = .ok sts') : InvP g sts' := by
  have := propagate_induct (g := g) (fs := fs) (fuel := fuel)
    (fun s => Inv g autos s ∧ InvP g s) ?_ ?_ n sts sts' h ⟨hI, hP⟩
  · exact this.1.2
  · intro s i st items hJ hi hc
    have hst := hJ.1.st i st hi
    have hrel := closure_rel hc hst.items hst.nodup
    exact ⟨hJ.1.closeAt hg hi hc, hJ.2.set_items hi ((hJ.2 i st hi).1.closure hg hrel)⟩
  · intro s s' i j ch hJ hi he
    obtain ⟨sj, items, h1, h2, h3⟩ := propEdge_grown hi he
    subst h3
    exact ⟨⟨hJ.1.setItems_grown h1 h2, hJ.2.set_items h1 ((hJ.2 j sj h1).1.grown h2)⟩, size_setItems _ _ _⟩

end Rustemo.Table
