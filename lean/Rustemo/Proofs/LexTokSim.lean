import Rustemo.Proofs.LexTok
/-!
# One iteration of the byte-level loop = one token-level step (single-character terminals)

`Sim c tc`: the byte-level configuration `c` (stack of states, result stack, lexer context, token
ahead) and the token-level configuration `tc` have the same state stack, the lexer stands at the byte
offset of the first remaining token, and the token ahead is that token, already known to have a
non-empty cell.  `step_sim`: `LR.step` then does exactly what `tstep` does, and afterwards lexes the
next token against the new top state — succeeding iff `tstep` would not report an error next.
-/
namespace Rustemo

structure Sim (env : Env) (c : Cfg) (tc : TCfg) : Prop where
  states : c.stack.map (·.state) = tc.c.stack.map (·.1) ++ [0]
  res : c.res.length = tc.c.stack.length
  cstate : c.ctx.state = topOf 0 tc.c.stack
  le : c.ctx.pos.pos ≤ env.input.length
  rest : tc.rest = toksFrom env.g env.input c.ctx.pos.pos
  tok : c.tok = tokAt env c.ctx.pos (lookahead tc.rest)
  cell : env.t.cell (topOf 0 tc.c.stack) (lookahead tc.rest) ≠ []

theorem topState_of_states {stack : List StackItem} {st : List (Nat × Tree)}
    (h : stack.map (·.state) = st.map (·.1) ++ [0]) : topState stack = some (topOf 0 st) := by
  cases stack with
  | nil => simp at h
  | cons x xs =>
    cases st with
    | nil => simp at h; simp [topState, topOf, h.1]
    | cons e es =>
      simp only [List.map_cons, List.cons_append, List.cons.injEq] at h
      simp [topState, topOf, h.1]

theorem states_drop {stack : List StackItem} {st : List (Nat × Tree)}
    (h : stack.map (·.state) = st.map (·.1) ++ [0]) (n : Nat) (hn : n ≤ st.length) :
    (stack.drop n).map (·.state) = (st.drop n).map (·.1) ++ [0] := by
  rw [List.map_drop, h, List.drop_append_of_le_length (by simpa using hn), ← List.map_drop]

theorem states_length {stack : List StackItem} {st : List (Nat × Tree)}
    (h : stack.map (·.state) = st.map (·.1) ++ [0]) : stack.length = st.length + 1 := by
  have := congrArg List.length h
  simpa using this

/-! ### what `tstep` does, by the head of the cell -/

theorem tstep_shift' (g : Grammar) (t : Table) (st : List (Nat × Tree)) (sh : List Nat) (a : Nat)
    (rest : List Nat) (s' : Nat) (acts : List Action)
    (hcell : t.cell (topOf 0 st) a = Action.shift s' :: acts) :
    tstep g t ⟨⟨st, sh⟩, a :: rest⟩ = .next ⟨⟨(s', Tree.tok a) :: st, a :: sh⟩, rest⟩ := by
  unfold tstep
  simp only [lookahead, List.headD_cons, hcell]
  simp [cstep, cstepWith, hcell]

/-- the configuration after a reduction -/
def reduced (st : List (Nat × Tree)) (sh : List Nat) (p len s' : Nat) : CCfg :=
  ⟨(s', Tree.mk p ((st.take len).reverse.map (·.2))) :: st.drop len, sh⟩

theorem tstep_reduce' (g : Grammar) (t : Table) (st : List (Nat × Tree)) (sh : List Nat)
    (rest : List Nat) (p len : Nat) (acts : List Action)
    (hcell : t.cell (topOf 0 st) (lookahead rest) = Action.reduce p len :: acts) :
    tstep g t ⟨⟨st, sh⟩, rest⟩ =
      if st.length < len then .panic "split_off"
      else
        match g.prods[p]? with
        | none => .panic "prod.into()"
        | some pr =>
          match t.goto g (topOf 0 (st.drop len)) pr.lhs with
          | none => .panic "goto"
          | some s' => .next ⟨reduced st sh p len s', rest⟩ := by
  unfold tstep
  simp only [hcell]
  simp only [cstep, cstepWith, hcell, reduced]
  by_cases hl : st.length < len
  · simp [hl]
  · simp only [hl, ↓reduceIte]
    cases hp : g.prods[p]? with
    | none => simp
    | some pr =>
      simp only
      cases hg : t.goto g (topOf 0 (st.drop len)) pr.lhs with
      | none => simp
      | some s' => simp

theorem tstep_accept' (g : Grammar) (t : Table) (st : List (Nat × Tree)) (sh : List Nat)
    (rest : List Nat) (acts : List Action)
    (hcell : t.cell (topOf 0 st) (lookahead rest) = Action.accept :: acts) :
    tstep g t ⟨⟨st, sh⟩, rest⟩ =
      match st with
      | [] => .panic "res_stack.pop().unwrap()"
      | (_, tr) :: _ => .accept tr := by
  unfold tstep
  simp only [hcell]
  simp only [cstep, cstepWith, hcell]
  cases st with
  | nil => simp
  | cons e es => simp

/-! ### what `LR.step` does, by the head of the cell -/

theorem step_shift (env : Env) (nt : Ctx → Ctx × Outcome Tok) (c : Cfg) (s s' : Nat) (acts : List Action)
    (htop : topState c.stack = some s) (hcell : env.t.cell s c.tok.kind = Action.shift s' :: acts) :
    step env nt c =
      liftTok (c.tok :: c.hist)
        (⟨s', ⟨c.ctx.pos, posAfter (sliceOf env.input c.tok.val) c.ctx.pos⟩⟩ :: c.stack)
        (Tree.leaf c.tok.kind c.tok.span c.tok.val c.ctx.lay :: c.res) c.slice
        (nt { c.ctx with span := ⟨c.ctx.pos, posAfter (sliceOf env.input c.tok.val) c.ctx.pos⟩,
                         pos := posAfter (sliceOf env.input c.tok.val) c.ctx.pos, state := s',
                         lay := none }) none := by
  unfold step
  simp only [htop, hcell]

theorem step_reduce (env : Env) (nt : Ctx → Ctx × Outcome Tok) (c : Cfg) (s p len : Nat)
    (acts : List Action) (htop : topState c.stack = some s)
    (hcell : env.t.cell s c.tok.kind = Action.reduce p len :: acts)
    (hlen : ¬ c.stack.length < len) (from_ : Nat) (hfrom : topState (c.stack.drop len) = some from_)
    (pr : Prod) (hpr : env.g.prods[p]? = some pr) (s' : Nat)
    (hgoto : env.t.goto env.g from_ pr.lhs = some s') (hres : ¬ c.res.length < len) :
    step env nt c =
      liftTok c.hist
        (⟨s', reduceSpan (c.stack.take len) c.ctx.span⟩ :: c.stack.drop len)
        (Tree.node p (reduceSpan (c.stack.take len) c.ctx.span) (childrenLay (c.res.take len).reverse)
            (TreeList.ofList (c.res.take len).reverse) :: c.res.drop len)
        (some ((reduceSpan (c.stack.take len) c.ctx.span).s.pos,
               (reduceSpan (c.stack.take len) c.ctx.span).e.pos -
               (reduceSpan (c.stack.take len) c.ctx.span).s.pos))
        (nt { c.ctx with span := c.ctx.span, state := s' }) (some (c.ctx.lay, c.ctx.pos.pos)) := by
  unfold step
  simp only [htop, hcell, hlen, ↓reduceIte, hfrom, hpr, hgoto, hres]

theorem step_reduce_panic (env : Env) (nt : Ctx → Ctx × Outcome Tok) (c : Cfg) (s p len : Nat)
    (acts : List Action) (htop : topState c.stack = some s)
    (hcell : env.t.cell s c.tok.kind = Action.reduce p len :: acts)
    (h : c.stack.length < len ∨ topState (c.stack.drop len) = none ∨ env.g.prods[p]? = none ∨
         ∃ from_ pr, topState (c.stack.drop len) = some from_ ∧ env.g.prods[p]? = some pr ∧
           env.t.goto env.g from_ pr.lhs = none) :
    ∃ m, step env nt c = .stop c.ctx (.panic m) := by
  unfold step
  simp only [htop, hcell]
  by_cases hl : c.stack.length < len
  · refine ⟨"split_off", ?_⟩
    simp [hl]
  · simp only [hl, ↓reduceIte]
    cases hf : topState (c.stack.drop len) with
    | none => exact ⟨_, rfl⟩
    | some from_ =>
      simp only
      cases hp : env.g.prods[p]? with
      | none => exact ⟨_, rfl⟩
      | some pr =>
        simp only
        cases hg : env.t.goto env.g from_ pr.lhs with
        | none => exact ⟨_, rfl⟩
        | some s' =>
          exfalso
          rcases h with h | h | h | ⟨f2, pr2, h1, h2, h3⟩
          · exact hl h
          · rw [hf] at h; simp at h
          · rw [hp] at h; simp at h
          · rw [hf] at h1; rw [hp] at h2
            injection h1 with h1; injection h2 with h2
            subst h1 h2
            rw [hg] at h3; simp at h3

theorem step_accept (env : Env) (nt : Ctx → Ctx × Outcome Tok) (c : Cfg) (s : Nat) (acts : List Action)
    (htop : topState c.stack = some s) (hcell : env.t.cell s c.tok.kind = Action.accept :: acts) :
    step env nt c =
      match c.res with
      | [] => .stop c.ctx (.panic "res_stack.pop().unwrap()")
      | tr :: _ => .done c.ctx ⟨tr, c.slice, c.hist⟩ := by
  unfold step
  simp only [htop, hcell]
  cases c.res <;> rfl

/-! ### after the action: lex against the new top state -/

/-- outcome of the step `c ⟶` (stack, res, … , lex in `ctx1`) against the token-level successor `tc'` -/
theorem lift_sim (env : Env) (he : CharEnv env) (hc : SingleChar env.g env.t) (fuel : Nat)
    (hist : List Tok) (stack : List StackItem) (res : List Tree) (slice : Option Slice)
    (keep : Option (Option Slice × Nat)) (ctx1 : Ctx) (tc' : TCfg)
    (hstates : stack.map (·.state) = tc'.c.stack.map (·.1) ++ [0])
    (hres : res.length = tc'.c.stack.length)
    (hstate : ctx1.state = topOf 0 tc'.c.stack)
    (hrange : ctx1.state < env.t.states.size)
    (hle : ctx1.pos.pos ≤ env.input.length)
    (hrest : tc'.rest = toksFrom env.g env.input ctx1.pos.pos) :
    (env.t.cell (topOf 0 tc'.c.stack) (lookahead tc'.rest) ≠ [] →
      ∃ c', liftTok hist stack res slice (nextTokenMain env false fuel ctx1) keep = .next c' ∧ Sim env c' tc') ∧
    (env.t.cell (topOf 0 tc'.c.stack) (lookahead tc'.rest) = [] →
      ∃ ctx p, liftTok hist stack res slice (nextTokenMain env false fuel ctx1) keep =
          .stop ctx (.err (.expected p ((env.t.sorted (topOf 0 tc'.c.stack)).map (·.1)))) ∧
        p.pos + tc'.rest.length = env.input.length) := by
  obtain ⟨hok, herr⟩ := nt_spec env he hc fuel ctx1 hle (lookahead tc'.rest) (by rw [hrest])
  rw [hstate] at hok herr
  constructor
  · intro hcell
    obtain ⟨ctx', hnt, hpos, hst, _⟩ := hok hcell
    rw [hnt]
    cases keep with
    | none =>
      refine ⟨_, rfl, ⟨hstates, hres, ?_, ?_, ?_, ?_, hcell⟩⟩
      · simp only; exact hst
      · simp only; rw [hpos]; exact hle
      · simp only; rw [hpos]; exact hrest
      · simp only; rw [hpos]
    | some lp =>
      obtain ⟨l, p0⟩ := lp
      refine ⟨_, rfl, ⟨hstates, hres, ?_, ?_, ?_, ?_, hcell⟩⟩
      · simp only; exact hst
      · simp only; rw [hpos]; exact hle
      · simp only; rw [hpos]; exact hrest
      · simp only; rw [hpos]
  · intro hcell
    obtain ⟨ctx', hnt⟩ := herr hcell (hstate ▸ hrange)
    rw [hnt]
    refine ⟨ctx', ctx1.pos, rfl, ?_⟩
    rw [hrest, toksFrom_length]
    omega

/-- **Step simulation.** -/
theorem step_sim (env : Env) (he : CharEnv env) (hc : SingleChar env.g env.t) (fuel : Nat)
    (c : Cfg) (tc : TCfg) (hsim : Sim env c tc) :
    match tstep env.g env.t tc with
    | .next tc' =>
      (env.t.cell (topOf 0 tc'.c.stack) (lookahead tc'.rest) ≠ [] →
        ∃ c', step env (nextTokenMain env false fuel) c = .next c' ∧ Sim env c' tc') ∧
      (env.t.cell (topOf 0 tc'.c.stack) (lookahead tc'.rest) = [] →
        ∃ ctx p, step env (nextTokenMain env false fuel) c =
            .stop ctx (.err (.expected p ((env.t.sorted (topOf 0 tc'.c.stack)).map (·.1)))) ∧
          p.pos + tc'.rest.length = env.input.length)
    | .accept _ => ∃ ctx r, step env (nextTokenMain env false fuel) c = .done ctx r
    | .panic _ => ∃ ctx m, step env (nextTokenMain env false fuel) c = .stop ctx (.panic m)
    | .error _ _ => False := by
  obtain ⟨⟨st, sh⟩, rest⟩ := tc
  have htop := topState_of_states hsim.states
  have hkind : c.tok.kind = lookahead rest := by rw [hsim.tok]; rfl
  have hslen := states_length hsim.states
  simp only at htop hslen
  cases hcell : env.t.cell (topOf 0 st) (lookahead rest) with
  | nil => exact absurd hcell hsim.cell
  | cons act acts =>
    have hcell' : env.t.cell (topOf 0 st) c.tok.kind = act :: acts := by rw [hkind]; exact hcell
    cases act with
    | shift s' =>
      -- the lookahead is a token (STOP is never shifted)
      cases hr : rest with
      | nil =>
        exfalso
        rw [hr] at hcell
        simp only [lookahead, List.headD_nil] at hcell
        exact hc.noShiftStop (topOf 0 st) s' (by rw [hcell]; simp)
      | cons a rest' =>
        subst hr
        simp only [lookahead, List.headD_cons] at hcell hkind hcell'
        rw [tstep_shift' env.g env.t st sh a rest' s' acts hcell]
        simp only
        have hrest := hsim.rest
        simp only at hrest
        have hlt : c.ctx.pos.pos < env.input.length := by
          rcases Nat.lt_or_ge c.ctx.pos.pos env.input.length with h | h
          · exact h
          · rw [toksFrom_nil h] at hrest; simp at hrest
        rw [toksFrom_cons hlt] at hrest
        injection hrest with _ hrest'
        have hval : c.tok.val = (c.ctx.pos.pos, 1) := by
          rw [hsim.tok]; simp [tokAt, tokLen]; omega
        have hslice : (sliceOf env.input c.tok.val).length = 1 := by
          rw [hval]; simp [sliceOf]; omega
        have hnewpos : (posAfter (sliceOf env.input c.tok.val) c.ctx.pos).pos = c.ctx.pos.pos + 1 := by
          simp [posAfter, hslice]
        rw [step_shift env _ c (topOf 0 st) s' acts htop hcell']
        refine lift_sim env he hc fuel _ _ _ _ _ _ ⟨⟨(s', Tree.tok a) :: st, a :: sh⟩, rest'⟩
          ?_ ?_ ?_ ?_ ?_ ?_
        · simp [hsim.states]
        · simp [hsim.res]
        · simp [topOf]
        · exact hc.shift_range (topOf 0 st) a s' (by rw [hcell]; simp)
        · simp only [hnewpos]; omega
        · simp only [hnewpos]; exact hrest'
    | reduce p len =>
      rw [tstep_reduce' env.g env.t st sh rest p len acts hcell]
      by_cases hl : st.length < len
      · simp only [hl, ↓reduceIte]
        -- byte level: either `split_off` or the stack below is empty
        have : c.stack.length < len ∨ topState (c.stack.drop len) = none := by
          rcases Nat.lt_or_ge c.stack.length len with h | h
          · exact Or.inl h
          · right
            have : c.stack.drop len = [] := List.drop_eq_nil_of_le (by omega)
            rw [this]; rfl
        obtain ⟨m, hm⟩ := step_reduce_panic env _ c (topOf 0 st) p len acts htop hcell'
          (by rcases this with h | h
              · exact Or.inl h
              · exact Or.inr (Or.inl h))
        exact ⟨_, m, hm⟩
      · simp only [hl, ↓reduceIte]
        have hle : len ≤ st.length := by omega
        have hdrop := states_drop hsim.states len hle
        have hfrom := topState_of_states hdrop
        simp only at hfrom
        cases hp : env.g.prods[p]? with
        | none =>
          simp only
          obtain ⟨m, hm⟩ := step_reduce_panic env _ c (topOf 0 st) p len acts htop hcell'
            (Or.inr (Or.inr (Or.inl hp)))
          exact ⟨_, m, hm⟩
        | some pr =>
          simp only
          cases hg : env.t.goto env.g (topOf 0 (st.drop len)) pr.lhs with
          | none =>
            simp only
            obtain ⟨m, hm⟩ := step_reduce_panic env _ c (topOf 0 st) p len acts htop hcell'
              (Or.inr (Or.inr (Or.inr ⟨_, pr, hfrom, hp, hg⟩)))
            exact ⟨_, m, hm⟩
          | some s' =>
            simp only
            have hres := hsim.res
            simp only at hres
            rw [step_reduce env _ c (topOf 0 st) p len acts htop hcell' (by omega) _ hfrom pr hp s' hg
              (by omega)]
            refine lift_sim env he hc fuel _ _ _ _ _ _ ⟨reduced st sh p len s', rest⟩ ?_ ?_ ?_ ?_ ?_ ?_
            · simp [reduced, hdrop]
            · simp [reduced, hres]
            · simp [reduced, topOf]
            · exact hc.goto_range _ _ s' hg
            · exact hsim.le
            · exact hsim.rest
    | accept =>
      rw [tstep_accept' env.g env.t st sh rest acts hcell, step_accept env _ c (topOf 0 st) acts htop hcell']
      have hres := hsim.res
      simp only at hres
      cases st with
      | nil =>
        have : c.res = [] := List.eq_nil_of_length_eq_zero (by simpa using hres)
        simp only [this]
        exact ⟨_, _, rfl⟩
      | cons e es =>
        cases hcr : c.res with
        | nil => rw [hcr] at hres; simp at hres
        | cons tr rs => exact ⟨_, _, rfl⟩

end Rustemo
