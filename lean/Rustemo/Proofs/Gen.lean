import Rustemo.Model.Gen
/-!
# C08 — list lemmas behind the faithfulness of the generated table code

* padding is invisible: `takeWhile (¬Error)` / `map_while` over `real ++ replicate k pad` return `real`
* `resolve` (path → discriminant) inverts "the i-th variant name" when names are pairwise different
* a `match` over arms with pairwise different patterns selects the one arm of the scrutinee
-/
namespace Rustemo
namespace Gen

/-! ## `allSome` -/

theorem allSome_map_of_forall {α β : Type} (f : β → Option α) (h : β → α) :
    ∀ (l : List β), (∀ x ∈ l, f x = some (h x)) → allSome (l.map f) = some (l.map h)
  | [], _ => rfl
  | x :: rest, H => by
    have hx : f x = some (h x) := H x (by simp)
    have hr := allSome_map_of_forall f h rest (fun y hy => H y (by simp [hy]))
    simp [List.map, allSome, hx, hr]

/-! ## padding -/

theorem takeWhile_pad {α : Type} (p : α → Bool) (e : α) (he : p e = false) :
    ∀ (l : List α) (k : Nat), (∀ x ∈ l, p x = true) → (l ++ List.replicate k e).takeWhile p = l
  | [], 0, _ => by simp
  | [], k + 1, _ => by simp [List.replicate_succ, he]
  | x :: rest, k, H => by
    have hx : p x = true := H x (by simp)
    have hr := takeWhile_pad p e he rest k (fun y hy => H y (by simp [hy]))
    simp [hx, hr]

theorem mapWhileSome_pad {α : Type} :
    ∀ (l : List α) (k : Nat), mapWhileSome (l.map some ++ List.replicate k none) = l
  | [], 0 => by simp [mapWhileSome]
  | [], k + 1 => by simp [List.replicate_succ, mapWhileSome]
  | x :: rest, k => by
    have hr := mapWhileSome_pad rest k
    simp [mapWhileSome, hr]

/-! ## `listMax` (`Iterator::max`) -/

theorem le_listMax : ∀ (l : List Nat) (x : Nat), x ∈ l → x ≤ listMax l
  | [], _, h => by simp at h
  | y :: rest, x, h => by
    have hm : listMax (y :: rest) = max y (listMax rest) := rfl
    rw [hm]
    rcases List.mem_cons.mp h with h | h
    · subst h; exact Nat.le_max_left _ _
    · exact Nat.le_trans (le_listMax rest x h) (Nat.le_max_right _ _)

/-! ## `resolve` -/

theorem resolve_getElem {names : List String} (hn : names.Nodup) {i : Nat} (hi : i < names.length) :
    resolve names names[i] = some i := by
  unfold resolve
  rw [hn.idxOf_getElem i hi]
  simp [hi]

theorem resolve_of_getElem? {names : List String} (hn : names.Nodup) {i : Nat} {n : String}
    (h : names[i]? = some n) : resolve names n = some i := by
  obtain ⟨hi, rfl⟩ := List.getElem?_eq_some_iff.mp h
  exact resolve_getElem hn hi

/-- `resolve` of the image of the i-th element under the naming function -/
theorem resolve_map {β : Type} (f : β → String) {l : List β} (hn : (l.map f).Nodup) {i : Nat} {x : β}
    (h : l[i]? = some x) : resolve (l.map f) (f x) = some i := by
  apply resolve_of_getElem? hn
  simp [h]

theorem idxOf_getElem? {l : List Nat} (hn : l.Nodup) {i x : Nat} (h : l[i]? = some x) :
    l.idxOf x = i := by
  obtain ⟨hi, rfl⟩ := List.getElem?_eq_some_iff.mp h
  exact hn.idxOf_getElem i hi

/-! ## selecting a `match` arm -/

theorem find?_eq_some_of_unique {α : Type} (p : α → Bool) (x0 : α) (l : List α)
    (hm : x0 ∈ l) (hp : p x0 = true) (H : ∀ x ∈ l, p x = true → x = x0) : l.find? p = some x0 := by
  cases h : l.find? p with
  | none => exact absurd hp (List.find?_eq_none.mp h x0 hm)
  | some y =>
    have hy : p y = true := List.find?_some h
    have hmem : y ∈ l := List.mem_of_find?_eq_some h
    rw [H y hmem hy]

end Gen
end Rustemo
