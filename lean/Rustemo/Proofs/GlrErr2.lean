import Rustemo.Proofs.GlrPush3
import Rustemo.Proofs.GlrRun11
/-!
# No early error: a viable token is shifted

The forward induction of `push_tree_gss` carried out along the SPINE of a derivation tree of a sentence that
EXTENDS the tokens `tok 0 … tok k`: the sub-trees left of the spine are complete derivations of tokens of the
finished levels (pushed by `push_tree_gss`); the spine ends in the leaf `tok k`, whose shift was performed
(`LevelDone.shifted`).  Only the levels `≤ k` have to be done — what follows the token does not matter.
-/
namespace Rustemo.Glr
open Rustemo

theorem kindsOf_head' {tok : Nat → Tok} {i j : Nat} (hij : i ≤ j) (rest : List Nat) :
    (kindsOf tok i j ++ (tok j).kind :: rest).head? = some (tok i).kind := by
  rcases Nat.lt_or_ge i j with h | h
  · rw [kindsOf_cons tok h]; simp
  · have : i = j := by omega
    subst this; simp [kindsOf_self]

mutual
theorem push_spine {env : Env} {g : Gss} {tok : Nat → Tok} {k : Nat} {subs : Nat → SubFrontier}
    (A : AllDone env g tok k subs) :
    ∀ (T : Tree) (X : Nat), T.Valid env.g X → ∀ (i : Nat), i ≤ k → ∀ (rest : List Nat),
      T.yield = kindsOf tok i k ++ (tok k).kind :: rest →
      ∀ (s u q d b : Nat) (pr : Prod), (s, u) ∈ subs i → env.t.hasItemLA s q d b → env.g.prods[q]? = some pr →
        pr.rhs[d]? = some X → (∃ a', FirstOf env.g (pr.rhs.drop (d+1)) b a') →
        ∃ (v : Nat) (hv : Head), g.heads[v]? = some hv ∧ hv.frontier = k + 1
  | .leaf a sp val l, X, hv, i, hik, rest, hy, s, u, q, d, b, pr, hsu, hi, hpr, hX, _ => by
    obtain ⟨rfl, hterm⟩ := hv
    simp only [Tree.yield] at hy
    have hlen := congrArg List.length hy
    simp only [List.length_cons, List.length_nil, List.length_append, kindsOf_length] at hlen
    have hik' : i = k := by omega
    subst hik'
    rw [kindsOf_self] at hy
    simp only [List.nil_append, List.cons.injEq] at hy
    obtain ⟨ha, _⟩ := hy
    subst ha
    obtain ⟨s', htr, _⟩ := A.hC.trans _ q d b pr _ hi hpr hX
    have hsh : Action.shift s' ∈ env.t.cell s (tok i).kind := by
      unfold Table.trans at htr; simpa [hterm] using htr
    obtain ⟨v, hv, e, ed, nn, spn, k1, k2, k3, _⟩ := (A.done i (Nat.le_refl _)).shifted s u s' hsu hsh
    exact ⟨v, hv, k1, k3⟩
  | .node p sp l cs, X, hv, i, hik, rest, hy, s, u, q, d, b, pr, hsu, hi, hpr, hX, hfirst => by
    obtain ⟨a', hfirst⟩ := hfirst
    obtain ⟨pr', hpr', hlhs, hcs⟩ := hv
    have hXnt : env.g.nterms ≤ X := hlhs ▸ A.hW.lhs_nonterm p pr' hpr'
    have hi0 := A.hC.closure _ q d b pr X hi hpr hX hXnt p pr' hpr' hlhs a' hfirst
    have hpaug : env.g.isAug p = false :=
      A.hC.rhs_not_aug q p pr pr' hpr hpr' (by rw [hlhs]; exact List.mem_of_getElem? hX)
    exact push_spine_list A cs pr'.rhs hcs i hik rest (by simpa [Tree.yield] using hy) s u p 0 a' pr' hsu hi0 hpr'
      (by simp) hpaug
theorem push_spine_list {env : Env} {g : Gss} {tok : Nat → Tok} {k : Nat} {subs : Nat → SubFrontier}
    (A : AllDone env g tok k subs) :
    ∀ (cs : TreeList) (Xs : List Nat), cs.Valid env.g Xs → ∀ (i : Nat), i ≤ k → ∀ (rest : List Nat),
      cs.yield = kindsOf tok i k ++ (tok k).kind :: rest →
      ∀ (s u p d b : Nat) (pr : Prod), (s, u) ∈ subs i → env.t.hasItemLA s p d b → env.g.prods[p]? = some pr →
        pr.rhs.drop d = Xs → env.g.isAug p = false →
        ∃ (v : Nat) (hv : Head), g.heads[v]? = some hv ∧ hv.frontier = k + 1
  | .nil, Xs, hv, i, hik, rest, hy, s, u, p, d, b, pr, hsu, hi, hpr, hdrop, haug => by
    simp [TreeList.yield] at hy
  | .cons c cs, Xs, hv, i, hik, rest, hy, s, u, p, d, b, pr, hsu, hi, hpr, hdrop, haug => by
    obtain ⟨Y, Xs', rfl, hvc, hvcs⟩ := hv
    simp only [TreeList.yield] at hy
    have hY : pr.rhs[d]? = some Y := by
      have := congrArg List.head? hdrop
      simpa [List.head?_drop] using this
    have hdrop' : pr.rhs.drop (d+1) = Xs' := by
      have := congrArg List.tail hdrop
      simpa [List.tail_drop] using this
    -- `c` lies left of the token: push it and go on with its right siblings
    have key : ∀ a' : List Nat, kindsOf tok i k = c.yield ++ a' → cs.yield = a' ++ (tok k).kind :: rest →
        ∃ (v : Nat) (hv : Head), g.heads[v]? = some hv ∧ hv.frontier = k + 1 := by
      intro a' h1 h2
      obtain ⟨i', hi1, hi2, hy1, hy2⟩ := kindsOf_split hik h1.symm
      subst hy2
      have hfirst : FirstOf env.g (pr.rhs.drop (d+1)) b (tok i').kind :=
        ⟨cs, hdrop' ▸ hvcs, by rw [h2, List.append_assoc]; exact kindsOf_head' hi2 _⟩
      obtain ⟨s1, v1, e, ed, m, kk, tr, htr, hin1, hi1', _⟩ :=
        push_tree_gss A c Y hvc i i' hi1 hi2 hy1 s u p d b pr hsu hi hpr hY hfirst
          (fun h => by rw [haug] at h; simp at h)
      exact push_spine_list A cs Xs' hvcs i' hi2 rest h2 s1 v1 p (d+1) b pr hin1 hi1' hpr hdrop' haug
    rcases List.append_eq_append_iff.mp hy with ⟨a', h1, h2⟩ | ⟨c', h1, h2⟩
    · exact key a' h1 h2
    · cases c' with
      | nil => exact key [] (by simpa using h1.symm) (by simpa using h2.symm)
      | cons x c'' =>
        simp only [List.cons_append, List.cons.injEq] at h2
        obtain ⟨hx, hrest⟩ := h2
        subst hx
        -- the token is a leaf of `c`
        have hne : ∃ a', FirstOf env.g (pr.rhs.drop (d+1)) b a' := by
          cases hh : cs.yield ++ [b] with
          | nil => simp at hh
          | cons y ys => exact ⟨y, cs, hdrop' ▸ hvcs, by rw [hh]; rfl⟩
        exact push_spine A c Y hvc i hik c'' h1 s u p d b pr hsu hi hpr hY hne
end

/-- **A viable token is shifted.**  If the levels `0 … k` of the graph are done, the start head is in the
    sub-frontier of level 0, and some sentence begins with the token kinds of `tok 0 … tok k`, then the graph has a
    head of level `k + 1`. -/
theorem head_of_viable {env : Env} {g : Gss} {tok : Nat → Tok} {k : Nat} {subs : Nat → SubFrontier}
    (A : AllDone env g tok k subs) (hstart : (0, 0) ∈ subs 0) (T : Tree) (hv : T.Valid env.g env.g.startIdx)
    (rest : List Nat) (hy : T.yield = kindsOf tok 0 k ++ (tok k).kind :: rest) :
    ∃ (v : Nat) (hd : Head), g.heads[v]? = some hd ∧ hd.frontier = k + 1 := by
  obtain ⟨pr0, hpr0, _, hr0⟩ := A.hW.aug0
  exact push_spine A T env.g.startIdx hv 0 (Nat.zero_le _) rest hy 0 0 0 0 0 pr0 hstart A.hC.start hpr0
    (by rw [hr0]; rfl) ⟨0, .nil, by rw [hr0]; simp [TreeList.Valid], by simp [TreeList.yield]⟩

end Rustemo.Glr
