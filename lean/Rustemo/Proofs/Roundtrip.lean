import Rustemo.Proofs.LexOk
import Rustemo.Proofs.LRSound
/-!
# The generic tree is lossless (C14, default whitespace skipping)

Invariant `RInv`: the leaves on the result stack, each preceded by its stored layout, concatenate to
the input up to the end `E` of the last shifted token, and the layout ahead is exactly the input
between `E` and the current position.
-/
namespace Rustemo

def layBytes (input : List Nat) : Option Slice → List Nat
  | some s => sliceOf input s
  | none => []

mutual
def Tree.flat (input : List Nat) : Tree → List Nat
  | .leaf _ _ v l => layBytes input l ++ sliceOf input v
  | .node _ _ _ cs => TreeList.flat input cs
def TreeList.flat (input : List Nat) : TreeList → List Nat
  | .nil => []
  | .cons t ts => Tree.flat input t ++ TreeList.flat input ts
end

/-- concatenation over the result stack (top first) in input order -/
def flatRes (input : List Nat) (res : List Tree) : List Nat :=
  (res.reverse.map (Tree.flat input)).flatten

theorem flat_ofList (input : List Nat) (l : List Tree) :
    (TreeList.ofList l).flat input = (l.map (Tree.flat input)).flatten := by
  induction l with
  | nil => simp [TreeList.ofList, TreeList.flat]
  | cons t ts ih => simp [TreeList.ofList, TreeList.flat, ih]

theorem flatRes_take_drop (input : List Nat) (res : List Tree) (n : Nat) :
    flatRes input res =
      flatRes input (res.drop n) ++ (((res.take n).reverse).map (Tree.flat input)).flatten := by
  unfold flatRes
  have h : res.reverse = (res.drop n).reverse ++ (res.take n).reverse := by
    rw [← List.reverse_append, List.take_append_drop]
  rw [h, List.map_append, List.flatten_append]

/-- end offset of the last shifted token -/
def endOf : List Tok → Nat
  | [] => 0
  | tk :: _ => tk.val.1 + tk.val.2

def LayOk (E : Nat) (ctx : Ctx) : Prop :=
  match ctx.lay with
  | some (o, l) => o = E ∧ o + l = ctx.pos.pos
  | none => ctx.pos.pos = E

/-- lexing again from this context does not move -/
def Stable (env : Env) (ctx : Ctx) : Prop :=
  env.skipWs = true → wsCharLen (env.input.drop ctx.pos.pos) = 0

def TokIn (input : List Nat) (ctx : Ctx) (tk : Tok) : Prop :=
  tk.kind = 0 ∨ (tk.val.1 = ctx.pos.pos ∧ tk.val.1 + tk.val.2 ≤ input.length)

structure RInv (env : Env) (c : Cfg) : Prop where
  flat : flatRes env.input c.res = env.input.take (endOf c.hist)
  le : endOf c.hist ≤ c.ctx.pos.pos
  lay : LayOk (endOf c.hist) c.ctx
  tok : TokIn env.input c.ctx c.tok
  stable : Stable env c.ctx

theorem posAfter_pos (bytes : List Nat) (p : Pos) : (posAfter bytes p).pos = p.pos + bytes.length := rfl

theorem sliceOf_length (input : List Nat) (o l : Nat) (h : o + l ≤ input.length) :
    (sliceOf input (o, l)).length = l := by
  unfold sliceOf; simp only [List.length_take, List.length_drop]; omega

theorem take_append_slice (input : List Nat) (a b : Nat) (hab : a ≤ b) :
    input.take a ++ sliceOf input (a, b - a) = input.take b := by
  unfold sliceOf
  simp only
  have : b = a + (b - a) := by omega
  conv => rhs; rw [this, List.take_add]

theorem slice_append_slice (input : List Nat) (a b c : Nat) (hab : a ≤ b) (hbc : b ≤ c) :
    sliceOf input (a, b - a) ++ sliceOf input (b, c - b) = sliceOf input (a, c - a) := by
  unfold sliceOf
  simp only
  have h1 : c - a = (b - a) + (c - b) := by omega
  rw [h1, List.take_add, List.drop_drop]
  congr 3
  omega

/-- greedy whitespace skipping is idempotent: nothing is left to skip -/
theorem wsPrefixLen_stable : ∀ (fuel : Nat) (bs : List Nat), bs.length ≤ fuel →
    wsCharLen (bs.drop (wsPrefixLen fuel bs)) = 0
  | 0, bs, h => by
    have : bs = [] := List.eq_nil_of_length_eq_zero (by omega)
    subst this; simp [wsPrefixLen, wsCharLen]
  | fuel+1, bs, h => by
    unfold wsPrefixLen
    simp only
    split
    · rename_i h0; simpa using h0
    · rename_i h0
      have hle := wsCharLen_le bs
      have hpos : 0 < wsCharLen bs := Nat.pos_of_ne_zero h0
      have := wsPrefixLen_stable fuel (bs.drop (wsCharLen bs)) (by simp only [List.length_drop]; omega)
      rw [List.drop_drop] at this
      exact this

/-- what one lexing round does to the context (string lexer) -/
theorem lexNext_lay (env : Env) (hc : env.custom = none) (ctx : Ctx) (exp : List (Nat × Bool)) :
    let n := if env.skipWs then wsPrefixLen (env.input.drop ctx.pos.pos).length (env.input.drop ctx.pos.pos) else 0
    (lexNext env ctx exp).1.pos.pos = ctx.pos.pos + n ∧
    (lexNext env ctx exp).1.lay =
      (if env.skipWs then (if n > 0 then some (ctx.pos.pos, n) else none) else ctx.lay) ∧
    Stable env (lexNext env ctx exp).1 := by
  unfold lexNext
  rw [hc]
  simp only
  cases hsk : env.skipWs with
  | false =>
    simp only [Bool.false_eq_true, ↓reduceIte, Nat.add_zero, true_and]
    intro h; rw [hsk] at h; simp at h
  | true =>
    simp only [↓reduceIte]
    unfold skip
    simp only
    split
    · rename_i hn
      refine ⟨?_, by simp [hn], ?_⟩
      · rw [posAfter_pos]
        congr 1
        have := wsPrefixLen_le (env.input.drop ctx.pos.pos).length (env.input.drop ctx.pos.pos)
        simp only [List.length_take]
        omega
      · intro _
        simp only
        rw [posAfter_pos]
        have hle := wsPrefixLen_le (env.input.drop ctx.pos.pos).length (env.input.drop ctx.pos.pos)
        have hl : ((env.input.drop ctx.pos.pos).take
            (wsPrefixLen (env.input.drop ctx.pos.pos).length (env.input.drop ctx.pos.pos))).length =
            wsPrefixLen (env.input.drop ctx.pos.pos).length (env.input.drop ctx.pos.pos) := by
          simp only [List.length_take]; omega
        rw [hl, ← List.drop_drop]
        exact wsPrefixLen_stable _ _ (Nat.le_refl _)
    · rename_i hn
      have h0 : wsPrefixLen (env.input.drop ctx.pos.pos).length (env.input.drop ctx.pos.pos) = 0 := by omega
      have h0' : wsPrefixLen (env.input.length - ctx.pos.pos) (env.input.drop ctx.pos.pos) = 0 := by
        simpa [List.length_drop] using h0
      refine ⟨by simp [h0'], by simp [h0'], ?_⟩
      intro _
      simp only
      have := wsPrefixLen_stable (env.input.drop ctx.pos.pos).length (env.input.drop ctx.pos.pos) (Nat.le_refl _)
      rw [h0] at this
      simpa using this

theorem stable_n_zero (env : Env) (ctx : Ctx) (h : Stable env ctx) :
    (if env.skipWs then wsPrefixLen (env.input.drop ctx.pos.pos).length (env.input.drop ctx.pos.pos) else 0) = 0 := by
  cases hsk : env.skipWs with
  | false => simp
  | true =>
    simp only [↓reduceIte]
    have h0 := h hsk
    cases hl : (env.input.drop ctx.pos.pos).length with
    | zero => simp [wsPrefixLen]
    | succ n => unfold wsPrefixLen; simp [h0]


theorem tokenIterAux_val (env : Env) (hr : RecogOk env) (pos : Pos) :
    ∀ (exp : List (Nat × Bool)) (m : Bool) (tk : Tok), tk ∈ tokenIterAux env pos m exp →
      tk.val.1 = pos.pos ∧ tk.val.1 + tk.val.2 ≤ env.input.length
  | [], m, tk, h => by simp [tokenIterAux] at h
  | (k, fin) :: rest, m, tk, h => by
    unfold tokenIterAux at h
    split at h
    · rename_i l hl
      rcases List.mem_cons.mp h with h | h
      · subst h; exact ⟨rfl, hr k pos.pos l hl⟩
      · split at h
        · simp at h
        · exact tokenIterAux_val env hr pos rest true tk h
    · split at h
      · simp at h
      · exact tokenIterAux_val env hr pos rest m tk h

def wsN (env : Env) (ctx : Ctx) : Nat :=
  if env.skipWs then wsPrefixLen (env.input.drop ctx.pos.pos).length (env.input.drop ctx.pos.pos) else 0

def layAfter (env : Env) (ctx : Ctx) : Option Slice :=
  if env.skipWs then (if wsN env ctx > 0 then some (ctx.pos.pos, wsN env ctx) else none) else ctx.lay

/-- what `next_token` does to the context, and where the token it returns lies -/
def NtLay (env : Env) (nt : Ctx → Ctx × Outcome Tok) : Prop :=
  ∀ ctx ctx' o, nt ctx = (ctx', o) →
    ctx'.pos.pos = ctx.pos.pos + wsN env ctx ∧ ctx'.lay = layAfter env ctx ∧ Stable env ctx' ∧
    ∀ tk, o = .ok tk → TokIn env.input ctx' tk

theorem lexNext_tokens_val (env : Env) (hc : env.custom = none) (hr : RecogOk env) (ctx : Ctx)
    (exp : List (Nat × Bool)) :
    ∀ tk ∈ (lexNext env ctx exp).2,
      tk.val.1 = (lexNext env ctx exp).1.pos.pos ∧ tk.val.1 + tk.val.2 ≤ env.input.length := by
  unfold lexNext
  rw [hc]
  simp only
  intro tk h
  exact tokenIterAux_val env hr _ exp false tk h

theorem ntLay_base (env : Env) (hc : env.custom = none) (hr : RecogOk env) (pp : Bool) :
    NtLay env (nextTokenBase env pp) := by
  intro ctx ctx' o hn
  unfold nextTokenBase at hn
  have hl := lexNext_lay env hc ctx (env.t.sorted ctx.state)
  have hv := lexNext_tokens_val env hc hr ctx (env.t.sorted ctx.state)
  simp only at hl
  generalize lexNext env ctx (env.t.sorted ctx.state) = lx at hn hl hv
  obtain ⟨ctx1, toks⟩ := lx
  simp only at hn hl hv
  obtain ⟨hpos, hlay, hst⟩ := hl
  split at hn
  · rename_i tk hpick
    injection hn with h1 h2
    subst h1 h2
    refine ⟨hpos, hlay, hst, ?_⟩
    intro tk' htk'
    injection htk' with htk'
    subst htk'
    exact Or.inr (hv tk (pickToken_mem hpick))
  · unfold noToken at hn
    simp only at hn
    split at hn
    · injection hn with h1 h2
      subst h1 h2
      exact ⟨hpos, hlay, hst, by intro tk htk; injection htk with htk; subst htk; exact Or.inl rfl⟩
    · split at hn <;>
      · injection hn with h1 h2
        subst h1 h2
        exact ⟨hpos, hlay, hst, by intro tk htk; simp at htk⟩

theorem nextTokenMain_eq_base (env : Env) (hl : env.t.layoutState = none) (pp : Bool) (fuel : Nat)
    (ctx : Ctx) : nextTokenMain env pp fuel ctx = nextTokenBase env pp ctx := by
  unfold nextTokenMain nextTokenBase
  generalize lexNext env ctx (env.t.sorted ctx.state) = lx
  obtain ⟨ctx1, toks⟩ := lx
  simp only
  split
  · rfl
  · rw [hl]

/-- re-lexing that did not move keeps the layout ahead -/
theorem mergeLay_same (l : Option Slice) (p : Nat) : mergeLay l p p = l := by
  simp [mergeLay]

/-- one iteration of the parser loop preserves the round-trip invariant -/
theorem step_roundtrip (env : Env) (nt : Ctx → Ctx × Outcome Tok) (c c' : Cfg)
    (hnt : NtLay env nt) (hns : NoShiftStop env.t)
    (hlen : c.stack.length = c.res.length + 1)
    (hinv : RInv env c) (hstep : step env nt c = .next c') : RInv env c' := by
  unfold step at hstep
  simp only at hstep
  split at hstep
  · simp at hstep
  · rename_i state hstate
    split at hstep
    · simp at hstep
    · rename_i act acts hcell
      split at hstep
      · -- shift
        rename_i s'
        obtain ⟨hst, hres, hhist, _⟩ := liftTok_next hstep
        have hk : c.tok.kind ≠ 0 := by
          intro h0; apply hns state s'; rw [← h0, hcell]; simp
        obtain ⟨hv1, hv2⟩ : c.tok.val.1 = c.ctx.pos.pos ∧ c.tok.val.1 + c.tok.val.2 ≤ env.input.length := by
          rcases hinv.tok with h | h
          · exact absurd h hk
          · exact h
        -- the context handed to the lexer
        generalize hctx0 : ({ c.ctx with
            span := ⟨c.ctx.pos, posAfter (sliceOf env.input c.tok.val) c.ctx.pos⟩,
            pos := posAfter (sliceOf env.input c.tok.val) c.ctx.pos, state := s', lay := none } : Ctx) = ctx0 at hstep
        have hp0 : ctx0.pos.pos = c.tok.val.1 + c.tok.val.2 := by
          rw [← hctx0]
          simp only [posAfter_pos]
          have : c.tok.val = (c.tok.val.1, c.tok.val.2) := rfl
          rw [this, sliceOf_length _ _ _ hv2, hv1]
        have hl0 : ctx0.lay = none := by rw [← hctx0]
        unfold liftTok at hstep
        split at hstep
        · rename_i ctx1 tk hnt1
          injection hstep with hc'
          subst hc'
          obtain ⟨hpos1, hlay1, hst1, htok1⟩ := hnt ctx0 ctx1 _ hnt1
          have hE : endOf (c.tok :: c.hist) = c.tok.val.1 + c.tok.val.2 := rfl
          refine ⟨?_, ?_, ?_, htok1 tk rfl, hst1⟩
          · -- flat
            simp only [hE]
            unfold flatRes
            simp only [List.reverse_cons, List.map_append, List.map_cons, List.map_nil,
              List.flatten_append, List.flatten_cons, List.flatten_nil, List.append_nil, Tree.flat]
            have hf := hinv.flat
            unfold flatRes at hf
            rw [hf]
            have hle := hinv.le
            -- layout bytes are the input between E and the token
            have hlayb : layBytes env.input c.ctx.lay =
                sliceOf env.input (endOf c.hist, c.ctx.pos.pos - endOf c.hist) := by
              have := hinv.lay
              unfold LayOk at this
              unfold layBytes
              split at this
              · rename_i o l hl
                rw [hl]
                obtain ⟨h1, h2⟩ := this
                simp only
                congr 2
                · omega
              · rename_i hl
                rw [hl]
                simp only
                unfold sliceOf
                simp [this]
            rw [hlayb]
            have hval : sliceOf env.input c.tok.val =
                sliceOf env.input (c.ctx.pos.pos, (c.tok.val.1 + c.tok.val.2) - c.ctx.pos.pos) := by
              have : c.tok.val = (c.tok.val.1, c.tok.val.2) := rfl
              rw [this, hv1]
              congr 2
              omega
            rw [hval, slice_append_slice _ _ _ _ hle (by omega),
              take_append_slice _ _ _ (by omega)]
          · simp only [hE]; omega
          · simp only [hE]
            unfold LayOk
            show (match ctx1.lay with
              | some (o, l) => o = c.tok.val.1 + c.tok.val.2 ∧ o + l = ctx1.pos.pos
              | none => ctx1.pos.pos = c.tok.val.1 + c.tok.val.2)
            rw [hlay1]
            unfold layAfter
            cases hsk : env.skipWs with
            | false =>
              have hn0 : wsN env ctx0 = 0 := by unfold wsN; simp [hsk]
              simp only [Bool.false_eq_true, ↓reduceIte, hl0]
              omega
            | true =>
              simp only [↓reduceIte]
              by_cases hn : wsN env ctx0 > 0
              · simp only [hn, ↓reduceIte]
                exact ⟨hp0, by omega⟩
              · simp only [hn, ↓reduceIte]
                omega
        all_goals simp at hstep
      · -- reduce
        rename_i p len
        split at hstep
        · simp at hstep
        · split at hstep
          · simp at hstep
          · split at hstep
            · simp at hstep
            · split at hstep
              · simp at hstep
              · rename_i s'' hgoto
                split at hstep
                · simp at hstep
                · rename_i hrlen
                  generalize hctx0 : ({ c.ctx with span := c.ctx.span, state := s'' } : Ctx) = ctx0 at hstep
                  have hp0 : ctx0.pos = c.ctx.pos := by rw [← hctx0]
                  have hl0 : ctx0.lay = c.ctx.lay := by rw [← hctx0]
                  unfold liftTok at hstep
                  split at hstep
                  · rename_i ctx1 tk hnt1
                    injection hstep with hc'
                    subst hc'
                    obtain ⟨hpos1, hlay1, hst1, htok1⟩ := hnt ctx0 ctx1 _ hnt1
                    have hn0 : wsN env ctx0 = 0 := by
                      unfold wsN; rw [hp0]; exact stable_n_zero env c.ctx hinv.stable
                    have hpos1' : ctx1.pos.pos = c.ctx.pos.pos := by rw [hpos1, hn0, hp0]; rfl
                    refine ⟨?_, ?_, ?_, ?_, ?_⟩
                    · -- flat: the node's leaves are its children's leaves
                      simp only
                      have := flatRes_take_drop env.input c.res len
                      rw [← hinv.flat, this]
                      unfold flatRes
                      simp only [List.reverse_cons, List.map_append, List.map_cons, List.map_nil,
                        List.flatten_append, List.flatten_cons, List.flatten_nil, List.append_nil,
                        Tree.flat, flat_ofList]
                    · simp only; rw [hpos1']; exact hinv.le
                    · simp only
                      have := hinv.lay
                      unfold LayOk at this ⊢
                      simp only
                      rw [hpos1', mergeLay_same]
                      exact this
                    · have := htok1 tk rfl
                      unfold TokIn at this ⊢
                      simp only
                      exact this
                    · intro hsk
                      simp only
                      exact hst1 hsk
                  all_goals simp at hstep
      · split at hstep <;> simp at hstep


theorem step_done_res (env : Env) (nt : Ctx → Ctx × Outcome Tok) (c : Cfg) (ctx : Ctx)
    (r : ParseResult) (h : step env nt c = .done ctx r) :
    ctx = c.ctx ∧ ∃ rest, c.res = r.tree :: rest := by
  unfold step at h
  simp only at h
  split at h
  · simp at h
  · split at h
    · simp at h
    · split at h
      · exact absurd h liftTok_not_done
      · split at h
        · simp at h
        · split at h
          · simp at h
          · split at h
            · simp at h
            · split at h
              · simp at h
              · split at h
                · simp at h
                · exact absurd h liftTok_not_done
      · split at h
        · simp at h
        · rename_i tr rest hres
          injection h with h1 h2
          subst h1 h2
          exact ⟨rfl, rest, hres⟩

theorem runLoop_roundtrip (env : Env) (nt : Ctx → Ctx × Outcome Tok) (autos : List Auto)
    (hs : Structural env.g env.t autos) (au : Auto) (hin : au ∈ autos) (start : Nat)
    (hstart : start = au.start) (hnt : NtLay env nt) (hns : NoShiftStop env.t) :
    ∀ (fuel : Nat) (c : Cfg) (ctx : Ctx) (r : ParseResult),
      FInv start c → CInv env.g env.t start c.abs → RInv env c →
      runLoop env nt fuel c = (ctx, .ok r) →
      Tree.flat env.input r.tree ++ layBytes env.input ctx.lay = env.input.take ctx.pos.pos := by
  intro fuel
  induction fuel with
  | zero => intro c ctx r _ _ _ h; simp [runLoop] at h
  | succ n ih =>
    intro c ctx r hf hc hr h
    unfold runLoop at h
    split at h
    · rename_i c' hstep
      obtain ⟨hf', leafOf, nodeOf, hd, hcs⟩ := step_refines env nt start c c' hf hstep
      have hc' := cstep_preserves env.g env.t autos hs au hin start hstart leafOf nodeOf hd c.abs c'.abs c.tok.kind hc hcs
      exact ih c' ctx r hf' hc' (step_roundtrip env nt c c' hnt hns hf.len hr hstep) h
    · rename_i ctx' r' hstep
      injection h with h1 h2
      injection h2 with h2
      subst h1 h2
      obtain ⟨hctx, rest, hres⟩ := step_done_res env nt c ctx' r' hstep
      obtain ⟨hacc, _⟩ := step_done_refines env nt start c ctx' r' hf hstep
      obtain ⟨_, _, hlen1⟩ := cstep_accept_sound env.g env.t autos hs au hin start hstart Tree.tok Tree.mk
        c.abs c.tok.kind r'.tree hc hacc
      have hrest : rest = [] := by
        have : c.abs.stack.length = c.res.length := by
          show (absStack c).length = c.res.length
          simp only [absStack, List.length_zip, List.length_map]
          have := hf.len; omega
        rw [this, hres] at hlen1
        simp at hlen1
        exact hlen1
      subst hrest
      have hflat := hr.flat
      rw [hres] at hflat
      have hflat' : Tree.flat env.input r'.tree = env.input.take (endOf c.hist) := by
        simpa [flatRes] using hflat
      rw [hflat', hctx]
      have hl := hr.lay
      have hle := hr.le
      unfold LayOk at hl
      unfold layBytes
      split at hl
      · rename_i o l hlay
        rw [hlay]
        obtain ⟨h1, h2⟩ := hl
        simp only
        have : (o, l) = (endOf c.hist, c.ctx.pos.pos - endOf c.hist) := by
          congr 1
          omega
        rw [this]
        exact take_append_slice _ _ _ hle
      · rename_i hlay
        rw [hlay]
        simp [hl]
    · rename_i ctx' o hstep
      injection h with _ h2
      subst h2
      exact absurd rfl (step_stop_not_ok env nt c ctx' _ hstep r)

/-- **Round trip** for the default string lexer with whitespace skipping (no Layout rule) -/
theorem parse_roundtrip (env : Env) (hc : env.custom = none) (hl : env.t.layoutState = none)
    (hr : RecogOk env) (hns : NoShiftStop env.t)
    (hs : Structural env.g env.t (autosOf env.g env.t))
    (pp : Bool) (fuel : Nat) (ctx : Ctx) (r : ParseResult)
    (h : parse env pp fuel = (ctx, .ok r)) :
    Tree.flat env.input r.tree ++ layBytes env.input ctx.lay = env.input.take ctx.pos.pos := by
  unfold parse parseWith at h
  simp only at h
  have hnt : NtLay env (nextTokenMain env pp fuel) := by
    intro ctx ctx' o hn
    rw [nextTokenMain_eq_base env hl] at hn
    exact ntLay_base env hc hr pp ctx ctx' o hn
  split at h
  · rename_i ctx1 tk hnt1
    obtain ⟨hpos1, hlay1, hst1, htok1⟩ := hnt _ ctx1 _ hnt1
    refine runLoop_roundtrip env _ (autosOf env.g env.t) hs ⟨0, 0, env.g.startIdx⟩
      (by unfold autosOf; exact List.mem_cons_self) 0 rfl hnt hns fuel _ ctx r
      ⟨by simp, by simp⟩
      ⟨by simp [Cfg.abs, absStack, PathInv], by simp [Cfg.abs, absStack, yields]⟩ ?_ h
    refine ⟨by simp [flatRes, endOf], by simp [endOf], ?_, htok1 tk rfl, hst1⟩
    unfold LayOk
    simp only [endOf]
    rw [hlay1]
    unfold layAfter
    have hp0 : ({} : Ctx).pos.pos = 0 := rfl
    have hps : Pos.start.pos = 0 := rfl
    rw [hp0] at hpos1
    cases hsk : env.skipWs with
    | false =>
      have hn0 : wsN env {} = 0 := by unfold wsN; simp [hsk]
      simp only [Bool.false_eq_true, ↓reduceIte]
      show (match (none : Option Slice) with
        | some (o, l) => o = 0 ∧ o + l = ctx1.pos.pos
        | none => ctx1.pos.pos = 0)
      simp only
      omega
    | true =>
      simp only [↓reduceIte]
      by_cases hn : wsN env {} > 0
      · simp only [hn, ↓reduceIte]
        exact ⟨hp0, by omega⟩
      · simp only [hn, ↓reduceIte]
        omega
  all_goals (injection h with _ h2; simp at h2)

end Rustemo
