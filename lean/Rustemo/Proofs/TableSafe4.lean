import Rustemo.Proofs.TableSafe2
import Rustemo.Proofs.TableSafe3
import Rustemo.Proofs.TableLa
import Rustemo.Proofs.TableStructural
/-!
# Table construction never panics, part 4: `calculate_reductions`, `sort_terminals`, `LRTable::new`
-/
namespace Rustemo.Table

variable {g : Grammar} {fs : Array (List Nat)}

/-! ## at most one ACCEPT event per cell -/

theorem filter_le_one {P : Item → Bool} : ∀ {l : List Item}, (l.map core).Nodup →
    (∀ a ∈ l, ∀ b ∈ l, P a = true → P b = true → core a = core b) → (l.filter P).length ≤ 1
  | [], _, _ => by simp
  | x :: xs, hnd, h => by
    simp only [List.map_cons, List.nodup_cons] at hnd
    rw [List.filter_cons]
    by_cases hx : P x = true
    · rw [if_pos hx]
      have : xs.filter P = [] := by
        apply List.filter_eq_nil_iff.mpr
        intro y hy hpy
        have := h x List.mem_cons_self y (List.mem_cons_of_mem _ hy) hx hpy
        exact hnd.1 (List.mem_map.mpr ⟨y, hy, this.symm⟩)
      rw [this]; simp
    · rw [if_neg hx]
      exact filter_le_one hnd.2 (fun a ha b hb => h a (List.mem_cons_of_mem _ ha) b (List.mem_cons_of_mem _ hb))

theorem accepts_filterMap (f : Item → Option Resolve.Ev) : ∀ (l : List Item),
    Resolve.accepts (l.filterMap f) = (l.filter fun it => f it == some Resolve.Ev.accept).length
  | [] => rfl
  | x :: xs => by
    rw [List.filterMap_cons, List.filter_cons]
    cases hf : f x with
    | none => simp [accepts_filterMap f xs]
    | some e =>
      cases e with
      | accept =>
        simp only [beq_self_eq_true, if_true, List.length_cons]
        rw [Resolve.accepts_cons_accept, accepts_filterMap f xs]
      | red r =>
        have : (some (Resolve.Ev.red r) == some Resolve.Ev.accept) = false := by simp
        simp only [this, Bool.false_eq_true, if_false]
        rw [Resolve.accepts_cons_red, accepts_filterMap f xs]

theorem augProd_of_isAugProd {p : Nat} (h : Resolve.isAugProd g p = true) : AugProd g p := by
  unfold Resolve.isAugProd at h
  split at h
  · rename_i pr hpr
    simp only [Bool.or_eq_true, beq_iff_eq] at h
    refine ⟨pr, hpr, ?_⟩
    rcases h with h | h
    · exact .inl h
    · cases hl : g.auglIdx with
      | none => rw [hl] at h; simp at h
      | some l =>
        rw [hl] at h
        simp only [beq_iff_eq] at h
        exact .inr (by rw [h])
  · simp at h

theorem finishCell_ok (hg : GW g) (s : Settings) (rn : Option (Array Nat)) {st : State} (hok : StOk g st)
    (hc : StC g st) (hsep : AugSep g st.items) (hpr : PrioOk st) (t : Nat) :
    ∃ c, finishCell g s rn st t = .ok c := by
  unfold finishCell
  have hinit1 := hc.cell1 t
  -- a SHIFT for STOP is impossible
  have hnoshift0 : t = 0 → st.actions.getD t [] = [] := by
    intro ht
    cases hl : st.actions.getD t [] with
    | nil => rfl
    | cons x xs =>
      exfalso
      obtain ⟨s', hs'⟩ := hok.cells t x (by rw [hl]; exact List.mem_cons_self)
      obtain ⟨cr, c1, c2⟩ := hc.cellsound t s' (by rw [hl, hs']; exact List.mem_cons_self)
      obtain ⟨it, i1, i2⟩ := List.mem_map.mp c1
      subst i2
      have : Resolve.nextSym g it = some t := c2
      have := (nextSym_pos hg this).1
      omega
  have hacc : Resolve.shiftLikes (st.actions.getD t []) + Resolve.accepts (Resolve.events g rn st.items t) ≤ 1 := by
    unfold Resolve.events
    rw [accepts_filterMap]
    have hle : (st.items.filter fun it => Resolve.evOf g rn t it == some Resolve.Ev.accept).length ≤ 1 := by
      apply filter_le_one hok.nodup
      intro a ha b hb pa pb
      simp only [beq_iff_eq] at pa pb
      obtain ⟨a1, _, a3⟩ := evOf_accept pa
      obtain ⟨b1, _, b3⟩ := evOf_accept pb
      have := hsep a ha b hb (augProd_of_isAugProd a1) (augProd_of_isAugProd b1)
      simp only [core, _root_.Prod.mk.injEq]
      exact ⟨this, by rw [a3, b3, this]⟩
    have hsl : Resolve.shiftLikes (st.actions.getD t []) ≤ 1 := by
      unfold Resolve.shiftLikes
      exact Nat.le_trans (List.length_filter_le _ _) hinit1
    cases hf : st.items.filter (fun it => Resolve.evOf g rn t it == some Resolve.Ev.accept) with
    | nil => simp only [List.length_nil, Nat.add_zero]; exact hsl
    | cons x xs =>
      have hx : x ∈ st.items.filter (fun it => Resolve.evOf g rn t it == some Resolve.Ev.accept) := by
        rw [hf]; exact List.mem_cons_self
      have := (List.mem_filter.mp hx).2
      simp only [beq_iff_eq] at this
      have ht0 := (evOf_accept this).2.1
      rw [hnoshift0 ht0]
      rw [hf] at hle
      simp only [Resolve.shiftLikes, List.filter_nil, List.length_nil, Nat.zero_add]
      exact hle
  have hsp : Resolve.SpOk (lookupPrio st.maxPrio t) (st.actions.getD t []) := by
    unfold Resolve.SpOk
    by_cases hex : ∃ s', Action.shift s' ∈ st.actions.getD t []
    · obtain ⟨s', hs'⟩ := hex
      exact .inl (hpr t s' hs')
    · exact .inr (fun s' hs' => hex ⟨s', hs'⟩)
  obtain ⟨c, hcell⟩ := Resolve.cell_total Resolve.Fixes.current (by decide) (cfgOf s) (Resolve.infoOf g)
    (Resolve.termAssoc g t) (lookupPrio st.maxPrio t) (Resolve.events g rn st.items t) _ hacc hsp
  rw [hcell]
  exact ⟨c, rfl⟩

theorem finishCells_ok (hg : GW g) (s : Settings) (rn : Option (Array Nat)) {st : State} (hok : StOk g st)
    (hc : StC g st) (hsep : AugSep g st.items) (hpr : PrioOk st) : ∀ (ts : List Nat),
    ∃ cells, finishCells g s rn st ts = .ok cells
  | [] => ⟨[], rfl⟩
  | t :: rest => by
    obtain ⟨c, h1⟩ := finishCell_ok hg s rn hok hc hsep hpr t
    obtain ⟨r, h2⟩ := finishCells_ok hg s rn hok hc hsep hpr rest
    unfold finishCells
    rw [h1, h2]
    exact ⟨_, rfl⟩

/-! ## `sort_terminals` -/

theorem termDescs_ok (hg : GW g) : ∀ (ts : List Nat), (∀ t ∈ ts, t < g.nterms) →
    ∃ descs, termDescs g ts = some descs
  | [], _ => ⟨[], rfl⟩
  | t :: rest, h => by
    have ht := h t List.mem_cons_self
    have hlt : t < g.terms.size := by rw [hg.terms_size]; exact ht
    obtain ⟨r, h1⟩ := termDescs_ok hg rest (fun x hx => h x (List.mem_cons_of_mem _ hx))
    have hget : g.terms[t]? = some g.terms[t] := Array.getElem?_eq_getElem hlt
    unfold termDescs termDesc
    rw [hget, h1]
    exact ⟨_, rfl⟩

/-- `sort_terminals` has no panic site besides `terminals[term]`: the sort key is a pair, compared
    lexicographically, there is no arithmetic on the priority -/
theorem sortedOf_ok (hg : GW g) (s : Settings) {cells : List (List Action)} (hlen : cells.length = g.nterms) :
    ∃ r, sortedOf g s cells = .ok r := by
  unfold sortedOf
  obtain ⟨descs, h1⟩ := termDescs_ok hg ((List.range cells.length).filter fun t => !(cells.getD t []).isEmpty)
    (fun t ht => by rw [← hlen]; exact List.mem_range.mp (List.mem_filter.mp ht).1)
  simp only [h1]
  exact ⟨_, rfl⟩

theorem finishCells_length {s : Settings} {rn : Option (Array Nat)} {st : State} :
    ∀ {ts : List Nat} {cells : List (List Action)}, finishCells g s rn st ts = .ok cells → cells.length = ts.length :=
  fun h => (finishCells_spec h).1

theorem finishState_ok (hg : GW g) (s : Settings) (rn : Option (Array Nat)) {st : State} (hok : StOk g st)
    (hc : StC g st) (hsep : AugSep g st.items) (hpr : PrioOk st) (hla : ∀ it ∈ st.items, ∀ a ∈ it.la, a < g.nterms) :
    ∃ st', finishState g s rn st = .ok st' := by
  unfold finishState
  have hf : followsInRange g rn st = true := by
    unfold followsInRange
    rw [List.all_eq_true]
    intro it hit
    simp only [Bool.or_eq_true, Bool.not_eq_true']
    by_cases hr : Resolve.isReducing g rn it = true
    · right
      split
      · simp only [Bool.or_eq_true, decide_eq_true_eq]
        exact .inr hg.nterms_pos
      · rw [List.all_eq_true]
        intro a ha
        simpa using hla it hit a ha
    · left; simpa using hr
  simp only [hf, Bool.not_true, Bool.false_eq_true, if_false]
  obtain ⟨cells, h1⟩ := finishCells_ok hg s rn hok hc hsep hpr (List.range g.nterms)
  have hlen : cells.length = g.nterms := by rw [finishCells_length h1]; simp
  obtain ⟨sorted, h2⟩ := sortedOf_ok hg s hlen
  rw [h1]
  simp only [Res.bind_ok_eq, h2]
  exact ⟨_, rfl⟩

theorem finishStates_ok (hg : GW g) (s : Settings) (rn : Option (Array Nat)) : ∀ (l : List State),
    (∀ st ∈ l, StOk g st ∧ StC g st ∧ AugSep g st.items ∧ PrioOk st ∧ ∀ it ∈ st.items, ∀ a ∈ it.la, a < g.nterms) →
    ∃ fin, finishStates g s rn l = .ok fin
  | [], _ => ⟨[], rfl⟩
  | st :: rest, h => by
    obtain ⟨a1, a2, a3, a4, a5⟩ := h st List.mem_cons_self
    obtain ⟨st', h1⟩ := finishState_ok hg s rn a1 a2 a3 a4 a5
    obtain ⟨r, h2⟩ := finishStates_ok hg s rn rest (fun x hx => h x (List.mem_cons_of_mem _ hx))
    unfold finishStates
    rw [h1, h2]
    exact ⟨_, rfl⟩

/-! ## `LRTable::new` -/

/-- the outcome is a table, the "First set empty" error, or out of fuel -/
def Res.NoPanic {α} (r : Res α) : Prop := ∀ site, r ≠ .panic site

theorem Res.Safe.noPanic {α} {r : Res α} (h : r.Safe) : r.NoPanic := by
  intro site hc
  rcases h with ⟨a, ha⟩ | h
  · rw [ha] at hc; cases hc
  · rw [h] at hc; cases hc

/-- **`LRTable::new` never panics**: for a well-formed grammar, whatever the settings and the fuel, every
    `unwrap`, index, `assert!` and checked arithmetic of the construction is unreachable -/
theorem build_no_panic (hg : gwf g = true) (s : Settings) (fuel : Nat) : (build g s fuel).NoPanic := by
  have hG := GW.of_gwf hg
  unfold build
  rcases firstSets_safe hG fuel with ⟨fs, hfs⟩ | hfs
  case inr => rw [hfs]; intro site hc; cases hc
  rw [hfs]
  simp only [Res.bind_ok_eq]
  have hw := (firstSets_spec hG hfs).1
  obtain ⟨rn, hrn⟩ := rnOf_ok hG hw s
  rw [hrn]
  simp only [Res.bind_ok_eq]
  split
  · intro site hc; cases hc
  · apply Res.Safe.noPanic
    have hsafe0 : (calcStates g fs s.tableType rn fuel g.augIdx #[]).Safe :=
      calcStates_safe hG hw (Inv.empty g) hG.aug_ge hG.aug_lt hG.aug_prods
    apply Res.Safe.bind hsafe0
    intro sts0 h0
    obtain ⟨p0, _, hI0⟩ := Inv.calcStates hG (Inv.empty g) h0
    have hC0 := InvC.calcStates hG (Inv.empty g) (InvC.empty g) h0
    have hL0 : LaAll g sts0 := LaAll.calcStates hG hw (fun i st h => by simp at h) h0
    have hP0 : InvP g sts0 := InvP.calcStates hG (Inv.empty g) (InvC.empty g) (fun i st h => by simp at h) h0
    -- the layout automaton
    have hlay : (layoutStates g fs s.tableType rn fuel sts0).Safe ∧
        ∀ ls, layoutStates g fs s.tableType rn fuel sts0 = .ok ls →
          ∃ autos, Inv g autos ls.2 ∧ InvC g ls.2.size ls.2.size ls.2 ∧ LaAll g ls.2 ∧ InvP g ls.2 := by
      unfold layoutStates
      cases hl : g.auglIdx with
      | none =>
        simp only
        refine ⟨.inl ⟨_, rfl⟩, ?_⟩
        intro ls hls
        simp only [Res.ok.injEq] at hls
        subst hls
        exact ⟨_, hI0, hC0, hL0, hP0⟩
      | some l =>
        simp only
        obtain ⟨l1, l2, _, pl, prl, l4, _, _⟩ := hG.augl l hl
        have hs1 : (calcStates g fs s.tableType rn fuel l sts0).Safe := calcStates_safe hG hw hI0 l1 l2 l4
        refine ⟨hs1.bind (fun sts1 _ => .inl ⟨_, rfl⟩), ?_⟩
        intro ls hls
        obtain ⟨sts1, h1, h2⟩ := Res.bind_ok hls
        simp only [Res.ok.injEq] at h2
        subst h2
        obtain ⟨_, _, hI1⟩ := Inv.calcStates hG hI0 h1
        exact ⟨_, hI1, InvC.calcStates hG hI0 hC0 h1, hL0.calcStates hG hw h1, InvP.calcStates hG hI0 hC0 hP0 h1⟩
    apply Res.Safe.bind hlay.1
    intro ls hls
    obtain ⟨autos, hI1, hC1, hL1, hP1⟩ := hlay.2 ls hls
    apply Res.Safe.bind (propagate_safe hG hw fuel ls.2 hI1)
    intro sts hsts
    obtain ⟨hI, _⟩ := Inv.propagate hG hI1 hsts
    have hC := InvC.propagate hG hI1 hC1 hsts
    have hL := hL1.propagate hw hsts
    have hP := InvP.propagate hG hI1 hP1 hsts
    obtain ⟨fin, hfin⟩ := finishStates_ok hG s rn sts.toList (by
      intro st hst
      obtain ⟨i, hi, hget⟩ := List.getElem_of_mem hst
      simp only [Array.length_toList] at hi
      simp only [Array.getElem_toList] at hget
      have h1 : sts[i]? = some st := by rw [Array.getElem?_eq_getElem hi, hget]
      exact ⟨hI.st i st h1, hC.st i st h1, (hP i st h1).1, (hP i st h1).2, hL i st h1⟩)
    rw [hfin]
    exact .inl ⟨_, rfl⟩

end Rustemo.Table
