import Rustemo.Proofs.GlrMain
import Rustemo.Proofs.GlrCompleteCert
/-!
# Reduction closure of the GSS (towards completeness): definitions and basic lemmas

For one run of the reducer over a sub-frontier (level `F`, lookahead kind `a`): a *chain* from a root head `u`
spelling a prefix of a production `p` whose initial item (with lookahead `a`) is in the state of `u`, ending at a
head of the sub-frontier, with the rest of the production nullable, is *covered* when the edge from the head for
the goto state down to `u` carries a possibility of `p` whose children list is prefix-comparable with the chain,
and *pending* when a reduction for one of its prefixes waits in the queue.
-/
namespace Rustemo.Glr
open Rustemo

/-- chain of parent links from the root head `u` to the end head `v`, spelling `Xs` -/
def ChainEnd (t : Table) (g : Gss) : List Nat → List Nat → Nat → Nat → Prop
  | [], Xs, u, v => Xs = [] ∧ u = v
  | e :: es, Xs, u, v => ∃ (ed : Edge) (hs : Head) (X : Nat) (Xs' : List Nat), g.edges[e]? = some ed ∧
      g.heads[ed.src]? = some hs ∧ Xs = X :: Xs' ∧ ed.dst = u ∧ t.symAt hs.state = X ∧ ChainEnd t g es Xs' ed.src v

theorem ChainEnd.length {t : Table} {g : Gss} : ∀ {P Xs : List Nat} {u v : Nat}, ChainEnd t g P Xs u v →
    P.length = Xs.length
  | [], _, _, _, h => by rw [h.1]
  | _ :: es, _, _, _, h => by
    obtain ⟨ed, hs, X, Xs', _, _, rfl, _, _, hr⟩ := h
    simp [ChainEnd.length hr]

theorem ChainEnd.ext {t : Table} {g g' : Gss} (hx : Ext g g') : ∀ {P Xs : List Nat} {u v : Nat},
    ChainEnd t g P Xs u v → ChainEnd t g' P Xs u v
  | [], _, _, _, h => h
  | e :: es, _, _, _, h => by
    obtain ⟨ed, hs, X, Xs', he, hh, hXs, hdst, hsym, hr⟩ := h
    obtain ⟨ed', he', hsrc', hdst'⟩ := hx.edges e ed he
    obtain ⟨hs', hh', hst', _, _⟩ := hx.heads _ hs hh
    exact ⟨ed', hs', X, Xs', he', by rw [hsrc']; exact hh', hXs, by rw [hdst', hdst], by rw [hst', hsym],
      by rw [hsrc']; exact ChainEnd.ext hx hr⟩

/-- a chain ending at a head of level `j` is what `NodeFits` asks of a children list -/
theorem ChainEnd.toChildren {t : Table} {g : Gss} : ∀ {P Xs : List Nat} {u v : Nat} {hv : Head},
    ChainEnd t g P Xs u v → g.heads[v]? = some hv → ChildrenOk t g P Xs u hv.frontier
  | [], _, _, _, _, h, hh => ⟨h.1, _, by rw [h.2]; exact hh, rfl⟩
  | _ :: _, _, _, _, _, h, hh => by
    obtain ⟨ed, hs, X, Xs', he, hhs, hXs, hdst, hsym, hr⟩ := h
    exact ⟨ed, hs, X, Xs', he, hhs, hXs, hdst, hsym, ChainEnd.toChildren hr hh⟩

theorem ChildrenOk.toChain {t : Table} {g : Gss} : ∀ {P Xs : List Nat} {u j : Nat},
    ChildrenOk t g P Xs u j → ∃ (v : Nat) (hv : Head), ChainEnd t g P Xs u v ∧ g.heads[v]? = some hv ∧ hv.frontier = j
  | [], _, u, _, h => ⟨u, h.2.choose, ⟨h.1, rfl⟩, h.2.choose_spec.1, h.2.choose_spec.2⟩
  | _ :: _, _, _, _, h => by
    obtain ⟨ed, hs, X, Xs', he, hhs, hXs, hdst, hsym, hr⟩ := h
    obtain ⟨v, hv, hc, hh, hf⟩ := ChildrenOk.toChain hr
    exact ⟨v, hv, ⟨ed, hs, X, Xs', he, hhs, hXs, hdst, hsym, hc⟩, hh, hf⟩

/-- split a chain -/
theorem ChainEnd.append {t : Table} {g : Gss} : ∀ {P1 P2 Xs1 Xs2 : List Nat} {u w v : Nat},
    ChainEnd t g P1 Xs1 u w → ChainEnd t g P2 Xs2 w v → ChainEnd t g (P1 ++ P2) (Xs1 ++ Xs2) u v
  | [], _, _, _, _, _, _, h1, h2 => by rw [h1.1, h1.2]; simpa using h2
  | _ :: _, _, _, _, _, _, _, h1, h2 => by
    obtain ⟨ed, hs, X, Xs', he, hhs, hXs, hdst, hsym, hr⟩ := h1
    subst hXs
    exact ⟨ed, hs, X, Xs' ++ _, he, hhs, by simp, hdst, hsym, ChainEnd.append hr h2⟩

theorem ChainEnd.split {t : Table} {g : Gss} : ∀ (i : Nat) {P Xs : List Nat} {u v : Nat},
    ChainEnd t g P Xs u v → ∃ w, ChainEnd t g (P.take i) (Xs.take i) u w ∧ ChainEnd t g (P.drop i) (Xs.drop i) w v
  | 0, _, _, u, _, h => ⟨u, ⟨rfl, rfl⟩, by simpa using h⟩
  | i+1, [], _, u, _, h => ⟨u, by rw [h.1]; exact ⟨rfl, rfl⟩, by rw [h.1]; exact ⟨rfl, h.2⟩⟩
  | i+1, e :: es, _, _, _, h => by
    obtain ⟨ed, hs, X, Xs', he, hhs, hXs, hdst, hsym, hr⟩ := h
    subst hXs
    obtain ⟨w, h1, h2⟩ := ChainEnd.split i hr
    exact ⟨w, ⟨ed, hs, X, _, he, hhs, by simp, hdst, hsym, h1⟩, by simpa using h2⟩

/-! ## `zipEq` is prefix comparability -/

theorem zipEq_iff : ∀ (a b : List Nat), zipEq a b = true ↔ (a <+: b ∨ b <+: a)
  | [], b => by simp [zipEq]
  | a :: as, [] => by simp [zipEq]
  | a :: as, b :: bs => by
    simp only [zipEq, Bool.and_eq_true, beq_iff_eq, zipEq_iff as bs, List.cons_prefix_cons]
    constructor
    · rintro ⟨rfl, h | h⟩
      · exact Or.inl ⟨rfl, h⟩
      · exact Or.inr ⟨rfl, h⟩
    · rintro (⟨rfl, h⟩ | ⟨rfl, h⟩)
      · exact ⟨rfl, Or.inl h⟩
      · exact ⟨rfl, Or.inr h⟩

end Rustemo.Glr
