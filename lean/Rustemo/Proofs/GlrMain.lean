import Rustemo.Proofs.GlrShift
/-!
# The main loop: every result of `Glr.parse` satisfies the GSS invariant, its roots are possibilities on
edges from an accepting head down to the start head, and no panic site is reached
-/
namespace Rustemo.Glr
open Rustemo

variable {A : Prop}

/-- a root possibility of the forest: packed on an edge from a head whose state is entered on the start
    symbol down to a head of level 0 -/
def RootOk (env : Env) (g : Gss) (n : Nat) : Prop :=
  ∃ (e : Nat) (ed : Edge) (hs hd : Head), g.edges[e]? = some ed ∧ n ∈ ed.poss ∧ g.heads[ed.src]? = some hs ∧
    g.heads[ed.dst]? = some hd ∧ hd.frontier = 0 ∧ env.t.symAt hs.state = env.g.startIdx

structure ResultOk (env : Env) (r : GlrResult) : Prop where
  g : GInv env r.gss
  roots : ∀ n ∈ r.roots, RootOk env r.gss n

theorem forestRoots_ok {env : Env} (hT : TableOk env) {g : Gss} (hg : GInv env g) {accepted : List Nat}
    (hacc : ∀ h ∈ accepted, AccOk env g h) : ∀ n ∈ forestRoots g accepted, RootOk env g n := by
  intro n hn
  unfold forestRoots at hn
  simp only [List.mem_flatMap] at hn
  obtain ⟨h, hh, e, he, hn⟩ := hn
  obtain ⟨ed, hed, hsrc⟩ := mem_backedges.mp he
  rw [possOf_eq hed] at hn
  obtain ⟨hda, tka, hhda, _, hact⟩ := hacc h hh
  obtain ⟨au, hau, pr, hpr, hrhs, hitem⟩ := hT.s.accept_item _ _ hact
  obtain ⟨hs, hd, hhs, hhd, htr, _⟩ := (hg.edges e ed hed).ends
  rw [hsrc, hhda] at hhs; injection hhs with hhs; subst hhs
  obtain ⟨⟨pr', hpr', hX⟩, hitem0⟩ := hT.s.target_items _ _ _ _ 0 htr hitem
  rw [hpr] at hpr'; injection hpr' with hpr'; subst hpr'
  have hstart := hT.s.aug_start_only au hau _ hitem0
  have hokd := hg.heads _ hd hhd
  have h0 : hd.state = 0 ∧ hd.frontier = 0 := by
    rcases hokd.start with h | h
    · exact h
    · exact absurd hstart (h au hau)
  have hmain : au = ⟨0, 0, env.g.startIdx⟩ :=
    hT.s.distinct au hau _ (main_auto_mem env) (by rw [← hstart, h0.1])
  rw [hrhs] at hX
  simp only [List.getElem?_cons_zero, Option.some.injEq] at hX
  refine ⟨e, ed, hda, hd, hed, hn, by rw [hsrc]; exact hhda, hhd, h0.2, ?_⟩
  rw [← hX, hmain]

theorem dedup_ne_nil : ∀ (l : List Nat), l ≠ [] → dedup l [] ≠ []
  | [], h => absurd rfl h
  | x :: rest, _ => by simp [dedup]

theorem expectedOf_sat {env : Env} (hT : TableOk env) {g : Gss} (hg : GInv env g) :
    ∀ (l : List Nat), (∀ h ∈ l, ∃ hd : Head, g.heads[h]? = some hd) →
      Sat A (fun ex => l ≠ [] → ex ≠ []) (expectedOf env g l)
  | [], _ => by simp [expectedOf, Sat]
  | h :: rest, hl => by
    obtain ⟨hd, hhd⟩ := hl h (by simp)
    simp only [expectedOf]
    rw [head_sat' _ _ _ hhd]
    simp only [obind]
    apply Sat.bind (expectedOf_sat hT hg rest (fun h' hh' => hl h' (by simp [hh'])))
    intro more _ _
    have hr := (hg.heads _ hd hhd).range
    have hget : env.t.states[hd.state]? = some env.t.states[hd.state] := Array.getElem?_eq_getElem hr
    have hne := hT.tot.sorted_ne _ _ hget
    have : env.t.sorted hd.state = env.t.states[hd.state].sorted := by unfold Table.sorted; rw [hget]
    rw [this]
    cases hsrt : env.t.states[hd.state].sorted with
    | nil => exact absurd hsrt hne
    | cons x xs => simp

theorem makeError_sat {env : Env} (hT : TableOk env) {g : Gss} (hg : GInv env g) {lastBase : List Nat}
    (hne : lastBase ≠ []) (hl : ∀ h ∈ lastBase, ∃ hd : Head, g.heads[h]? = some hd) :
    Sat A (ResultOk env) (makeError env g lastBase) := by
  unfold makeError
  apply Sat.bind (expectedOf_sat hT hg lastBase hl)
  intro ex hex
  cases lastBase with
  | nil => exact absurd rfl hne
  | cons h rest =>
    simp only
    obtain ⟨hd, hhd⟩ := hl h (by simp)
    rw [head_sat' _ _ _ hhd]
    simp only [obind]
    have := dedup_ne_nil ex (hex (by simp))
    split
    · rename_i heq; exact absurd heq this
    · trivial

theorem frontierStep_sat {env : Env} (hT : TableOk env) (hl : ¬ A → LayoutSafe env) (pp : Bool) (fuel : Nat) {F : Nat}
    {st : St} (hs : StOk env F st) {base : List Nat} (hb : BaseOk st.gss F base) :
    Sat A (fun r => StOk env (F + 1) r.1 ∧ Ext st.gss r.1.gss ∧ BaseOk r.1.gss (F + 1) r.2)
      (frontierStep env pp fuel F st base) := by
  unfold frontierStep
  apply Sat.bind (createFrontier_sat hl pp fuel hs.g hb)
  rintro ⟨g1, fr⟩ ⟨hg1, hx1, hfr⟩
  have hs1 : StOk env F { st with gss := g1 } :=
    ⟨hg1, fun s h => (hs.shifts s h).ext hx1.ext, fun a h => (hs.acc a h).ext hx1.ext⟩
  apply Sat.bind (initialProcess_sat hT hs1 hfr)
  rintro ⟨qs, st2⟩ ⟨hs2, hg2, hq⟩
  simp only at hs2 hg2 hq ⊢
  apply Sat.bind (reduceAll_sat hT fuel fr qs st2 hs2 (by rw [hg2]; exact hfr) (by rw [hg2]; exact hq))
  rintro st3 ⟨hs3, hx3⟩
  rw [hg2] at hx3
  exact (shifter_sat hT hs3).mono fun r ⟨k1, k2, k3, _⟩ => ⟨k1, (hx1.ext.trans hx3).trans k2, k3⟩

theorem mainLoop_sat {env : Env} (hT : TableOk env) (hl : ¬ A → LayoutSafe env) (pp : Bool) (fuel : Nat) :
    ∀ (n F : Nat) (st : St) (base lastBase : List Nat), StOk env F st → BaseOk st.gss F base →
      (base = [] → lastBase ≠ []) → (∀ h ∈ lastBase, ∃ hd : Head, st.gss.heads[h]? = some hd) →
      Sat A (ResultOk env) (mainLoop env pp fuel n F st base lastBase)
  | 0, _, _, _, _, _, _, _, _ => trivial
  | n+1, F, st, base, lastBase, hs, hb, hne, hlast => by
    unfold mainLoop
    cases base with
    | nil =>
      simp only
      split
      · exact ⟨hs.g, forestRoots_ok hT hs.g hs.acc⟩
      · exact makeError_sat hT hs.g (hne rfl) hlast
    | cons b rest =>
      simp only
      apply Sat.bind (frontierStep_sat hT hl pp fuel hs hb)
      rintro ⟨st', base'⟩ ⟨hs', hx', hb'⟩
      apply mainLoop_sat hT hl pp fuel n (F + 1) st' base' _ hs' hb'
      · intro hnil
        simp only [hnil, List.isEmpty_nil, ↓reduceIte]
        simp
      · intro h hh
        split at hh
        · obtain ⟨⟨hd, hhd, _⟩, _⟩ := hb h hh
          obtain ⟨hd', hhd', _⟩ := hx'.heads _ hd hhd
          exact ⟨hd', hhd'⟩
        · obtain ⟨hd, hhd⟩ := hlast h hh
          obtain ⟨hd', hhd', _⟩ := hx'.heads _ hd hhd
          exact ⟨hd', hhd'⟩

/-- **The engine invariant.** Under the certificate facts, `Glr.parse` never reaches a panic site, and every
    result satisfies the GSS invariant with well-placed roots. -/
theorem parse_sat {env : Env} (hT : TableOk env) (hl : ¬ A → LayoutSafe env) (pp : Bool) (fuel : Nat) :
    Sat A (ResultOk env) (parse env pp fuel) := by
  unfold parse
  simp only
  have hstart : (({} : Gss).addHead startHead).1.heads[0]? = some startHead := by
    rw [addHead_heads]; rfl
  have hg : GInv env (({} : Gss).addHead startHead).1 := by
    constructor
    · intro h hd hh
      rw [addHead_heads] at hh
      split at hh
      · injection hh with hh; subst hh
        exact ⟨hT.tot.start_ok, Or.inl ⟨rfl, rfl⟩, by decide, by intro tk h; simp [startHead] at h⟩
      · simp at hh
    · intro e ed he; simp [Gss.addHead] at he
    · intro e e' ed ed' n he; simp [Gss.addHead] at he
  apply mainLoop_sat hT hl pp fuel fuel 0 _ _ [] ⟨hg, fun _ h => by simp at h, fun _ h => by simp at h⟩
  · intro h hh
    simp only [addHead_idx, List.mem_singleton] at hh
    subst hh
    exact ⟨⟨startHead, hstart, rfl⟩, fun e ed he => by simp [Gss.addHead] at he⟩
  · intro h; simp [Gss.addHead] at h
  · intro h hh; simp at hh

end Rustemo.Glr
