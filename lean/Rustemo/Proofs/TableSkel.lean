import Rustemo.Proofs.TableBasic
/-!
# Table construction: the shape of a successful run of `calc_states` and `propagate_follows`

Inversion lemmas: a successful run is a sequence of primitive steps (`LinkStep`: merge-or-push followed by
the GOTO / SHIFT entry; `OpenStep`: closure and accept entry of the state taken from the queue; `PropStep`…),
so that every invariant is proved once per primitive step (`*_induct`).
-/
namespace Rustemo.Table

variable {g : Grammar} {fs : Array (List Nat)} {tt : String} {rn : Option (Array Nat)}

theorem tryMerge_some {sts : Array State} {new : List Item} :
    ∀ {order : List Nat} {i : Nat} {sts' : Array State},
      tryMerge g tt rn sts new order = .ok (some (i, sts')) →
      ∃ st items', sts[i]? = some st ∧ mergeState g tt rn st.items new = .ok (some items') ∧
        sts' = setItems sts i items' := by
  intro order
  induction order with
  | nil => intro i sts' h; simp [tryMerge] at h
  | cons j rest ih =>
    intro i sts' h
    unfold tryMerge at h
    split at h
    · exact ih h
    · rename_i st hst
      split at h
      · rename_i items' hm
        simp only [Res.ok.injEq, Option.some.injEq, _root_.Prod.mk.injEq] at h
        obtain ⟨h1, h2⟩ := h
        subst h1
        exact ⟨st, items', hst, hm, h2.symm⟩
      · exact ih h
      · simp at h
      · simp at h
      · simp at h

/-- one new state handled by the `for mut new_state in new_states` loop -/
inductive LinkStep (g : Grammar) (tt : String) (rn : Option (Array Nat)) (cur X : Nat) (new : List Item)
    (sts sts2 : Array State) : Prop where
  | merge (i : Nat) (st : State) (items' : List Item) (stc stc' : State)
      (h1 : sts[i]? = some st) (h2 : mergeState g tt rn st.items new = .ok (some items'))
      (h3 : (setItems sts i items')[cur]? = some stc) (h4 : addTrans g stc X i = .ok stc')
      (h5 : sts2 = (setItems sts i items').setIfInBounds cur stc') : LinkStep g tt rn cur X new sts sts2
  | push (stc stc' : State)
      (h3 : sts[cur]? = some stc) (h4 : addTrans g stc X sts.size = .ok stc')
      (h5 : sts2 = (sts.push (freshState g X new)).setIfInBounds cur stc') : LinkStep g tt rn cur X new sts sts2

theorem linkTo_ok {cur X tgt : Nat} {sts sts2 : Array State} (hc : cur < sts.size)
    (h : linkTo g cur X tgt sts = .ok sts2) :
    ∃ stc stc', sts[cur]? = some stc ∧ addTrans g stc X tgt = .ok stc' ∧ sts2 = sts.setIfInBounds cur stc' := by
  unfold linkTo at h
  split at h
  · rename_i hn
    rw [Array.getElem?_eq_getElem hc] at hn
    simp at hn
  · rename_i stc hstc
    split at h
    · rename_i stc' ha
      simp only [Res.ok.injEq] at h
      exact ⟨stc, stc', hstc, ha, h.symm⟩
    · simp at h
    · simp at h
    · simp at h

theorem size_setItems (sts : Array State) (i : Nat) (items : List Item) : (setItems sts i items).size = sts.size := by
  simp [setItems]

theorem LinkStep.size_le {cur X : Nat} {new : List Item} {sts sts2 : Array State}
    (h : LinkStep g tt rn cur X new sts sts2) : sts.size ≤ sts2.size := by
  cases h with
  | merge i st items' stc stc' h1 h2 h3 h4 h5 => subst h5; simp [size_setItems]
  | push stc stc' h3 h4 h5 => subst h5; simp

/-- induction over the new states of one processed state -/
theorem linkStates_induct {cur : Nat} (J : Array State → Prop) (G : Nat × List Item → Prop)
    (hstep : ∀ sts sts2 e, J sts → G e → cur < sts.size → LinkStep g tt rn cur e.1 e.2 sts sts2 → J sts2) :
    ∀ (groups : List (Nat × List Item)) (sts sts' : Array State), (∀ e ∈ groups, G e) → cur < sts.size →
      linkStates g tt rn cur groups sts = .ok sts' → J sts → J sts' ∧ sts.size ≤ sts'.size := by
  intro groups
  induction groups with
  | nil =>
    intro sts sts' _ _ h hJ
    simp only [linkStates, Res.ok.injEq] at h
    subst h; exact ⟨hJ, Nat.le_refl _⟩
  | cons e rest ih =>
    intro sts sts' hG hc h hJ
    obtain ⟨X, items⟩ := e
    unfold linkStates at h
    split at h
    · rename_i tgt sts1 hm
      obtain ⟨st, items', h1, h2, h3⟩ := tryMerge_some hm
      obtain ⟨sts2, hl, hrest⟩ := Res.bind_ok h
      have hc1 : cur < sts1.size := by rw [h3, size_setItems]; exact hc
      obtain ⟨stc, stc', h4, h5, h6⟩ := linkTo_ok hc1 hl
      have hstep' : LinkStep g tt rn cur X items sts sts2 :=
        .merge tgt st items' stc stc' h1 h2 (by rw [← h3]; exact h4) h5 (by rw [← h3]; exact h6)
      have hJ2 := hstep sts sts2 (X, items) hJ (hG _ List.mem_cons_self) hc hstep'
      have hsz := hstep'.size_le
      obtain ⟨r1, r2⟩ := ih sts2 sts' (fun e he => hG e (List.mem_cons_of_mem _ he)) (by omega) hrest hJ2
      exact ⟨r1, by omega⟩
    · rename_i hm
      obtain ⟨sts2, hl, hrest⟩ := Res.bind_ok h
      have hc1 : cur < (sts.push (freshState g X items)).size := by simp; omega
      obtain ⟨stc, stc', h4, h5, h6⟩ := linkTo_ok hc1 hl
      have h4' : sts[cur]? = some stc := by
        rw [Array.getElem?_push] at h4
        rw [if_neg (by omega)] at h4
        exact h4
      have hstep' : LinkStep g tt rn cur X items sts sts2 := .push stc stc' h4' h5 h6
      have hJ2 := hstep sts sts2 (X, items) hJ (hG _ List.mem_cons_self) hc hstep'
      have hsz := hstep'.size_le
      obtain ⟨r1, r2⟩ := ih sts2 sts' (fun e he => hG e (List.mem_cons_of_mem _ he)) (by omega) hrest hJ2
      exact ⟨r1, by omega⟩
    · simp at h
    · simp at h
    · simp at h

/-- the same induction with an invariant that knows which new states are still to come -/
theorem linkStates_induct' {cur : Nat} (J : List (Nat × List Item) → Array State → Prop)
    (hstep : ∀ sts sts2 e rest, J (e :: rest) sts → cur < sts.size → LinkStep g tt rn cur e.1 e.2 sts sts2 →
      J rest sts2) :
    ∀ (groups : List (Nat × List Item)) (sts sts' : Array State), cur < sts.size →
      linkStates g tt rn cur groups sts = .ok sts' → J groups sts → J [] sts' ∧ sts.size ≤ sts'.size := by
  intro groups
  induction groups with
  | nil =>
    intro sts sts' _ h hJ
    simp only [linkStates, Res.ok.injEq] at h
    subst h; exact ⟨hJ, Nat.le_refl _⟩
  | cons e rest ih =>
    intro sts sts' hc h hJ
    obtain ⟨X, items⟩ := e
    unfold linkStates at h
    split at h
    · rename_i tgt sts1 hm
      obtain ⟨st, items', h1, h2, h3⟩ := tryMerge_some hm
      obtain ⟨sts2, hl, hrest⟩ := Res.bind_ok h
      have hc1 : cur < sts1.size := by rw [h3, size_setItems]; exact hc
      obtain ⟨stc, stc', h4, h5, h6⟩ := linkTo_ok hc1 hl
      have hstep' : LinkStep g tt rn cur X items sts sts2 :=
        .merge tgt st items' stc stc' h1 h2 (by rw [← h3]; exact h4) h5 (by rw [← h3]; exact h6)
      have hJ2 := hstep sts sts2 (X, items) rest hJ hc hstep'
      have hsz := hstep'.size_le
      obtain ⟨r1, r2⟩ := ih sts2 sts' (by omega) hrest hJ2
      exact ⟨r1, by omega⟩
    · rename_i hm
      obtain ⟨sts2, hl, hrest⟩ := Res.bind_ok h
      have hc1 : cur < (sts.push (freshState g X items)).size := by simp; omega
      obtain ⟨stc, stc', h4, h5, h6⟩ := linkTo_ok hc1 hl
      have h4' : sts[cur]? = some stc := by
        rw [Array.getElem?_push] at h4
        rw [if_neg (by omega)] at h4
        exact h4
      have hstep' : LinkStep g tt rn cur X items sts sts2 := .push stc stc' h4' h5 h6
      have hJ2 := hstep sts sts2 (X, items) rest hJ hc hstep'
      have hsz := hstep'.size_le
      obtain ⟨r1, r2⟩ := ih sts2 sts' (by omega) hrest hJ2
      exact ⟨r1, by omega⟩
    · simp at h
    · simp at h
    · simp at h

/-! ## `stepState`, `calcLoop`, `calcStates` -/

theorem stepState_ok {fuel cur : Nat} {sts sts' : Array State} (hc : cur < sts.size)
    (h : stepState g fs tt rn fuel cur sts = .ok sts') :
    ∃ st items st', sts[cur]? = some st ∧ closure g fs fuel st.items = .ok items ∧
      acceptInit { st with items := items, maxPrio := maxPrioOf g items } (perNextSymbol g items) = .ok st' ∧
      linkStates g tt rn cur (newStates g items) (sts.setIfInBounds cur st') = .ok sts' := by
  unfold stepState at h
  split at h
  · rename_i hn
    rw [Array.getElem?_eq_getElem hc] at hn
    simp at hn
  · rename_i st hst
    obtain ⟨items, h1, h2⟩ := Res.bind_ok h
    obtain ⟨st', h3, h4⟩ := Res.bind_ok h2
    exact ⟨st, items, st', hst, h1, h3, h4⟩

/-- induction over the states taken from the queue -/
theorem calcLoop_induct {fuel : Nat} (J : Nat → Array State → Prop)
    (hstep : ∀ cur sts sts', J cur sts → cur < sts.size → stepState g fs tt rn fuel cur sts = .ok sts' →
      J (cur + 1) sts') :
    ∀ (n cur : Nat) (sts sts' : Array State), calcLoop g fs tt rn fuel n cur sts = .ok sts' → J cur sts →
      ∃ cur', J cur' sts' ∧ sts'.size ≤ cur' := by
  intro n
  induction n with
  | zero =>
    intro cur sts sts' h hJ
    unfold calcLoop at h
    split at h
    · simp at h
    · simp only [Res.ok.injEq] at h
      subst h
      exact ⟨cur, hJ, by omega⟩
  | succ n ih =>
    intro cur sts sts' h hJ
    unfold calcLoop at h
    split at h
    · rename_i hc
      obtain ⟨sts1, h1, h2⟩ := Res.bind_ok h
      exact ih (cur + 1) sts1 sts' h2 (hstep cur sts sts1 hJ hc h1)
    · simp only [Res.ok.injEq] at h
      subst h
      exact ⟨cur, hJ, by omega⟩

theorem calcStates_ok {fuel startSym : Nat} {sts sts' : Array State}
    (h : calcStates g fs tt rn fuel startSym sts = .ok sts') :
    g.nterms ≤ startSym ∧ startSym - g.nterms < g.nnonterms ∧ ∃ p, Canon.prodsOf g startSym = [p] ∧
      calcLoop g fs tt rn fuel fuel sts.size (sts.push (freshState g startSym [⟨p, 0, [0]⟩])) = .ok sts' := by
  unfold calcStates at h
  split at h
  · simp at h
  · rename_i hs
    simp only [Bool.or_eq_true, decide_eq_true_eq, not_or, Nat.not_lt, Nat.not_le] at hs
    split at h
    · rename_i p hp
      exact ⟨hs.1, hs.2, p, hp, h⟩
    · simp at h

/-! ## `propagate_follows` -/

theorem refreshStates_induct {fuel : Nat} (J : Array State → Prop)
    (hstep : ∀ sts i st items, J sts → sts[i]? = some st → closure g fs fuel st.items = .ok items →
      J (setItems sts i items)) :
    ∀ (l : List Nat) (sts sts' : Array State), (∀ i ∈ l, i < sts.size) →
      refreshStates g fs fuel l sts = .ok sts' → J sts → J sts' ∧ sts'.size = sts.size := by
  intro l
  induction l with
  | nil =>
    intro sts sts' _ h hJ
    simp only [refreshStates, Res.ok.injEq] at h
    subst h; exact ⟨hJ, rfl⟩
  | cons i rest ih =>
    intro sts sts' hl h hJ
    unfold refreshStates at h
    split at h
    · rename_i items hcl
      have hi : i < sts.size := hl i List.mem_cons_self
      have hget : sts[i]? = some (sts.getD i default) := by
        rw [Array.getD_eq_getD_getElem?, Array.getElem?_eq_getElem hi]; rfl
      have hJ1 := hstep sts i _ items hJ hget hcl
      obtain ⟨r1, r2⟩ := ih (setItems sts i items) sts'
        (fun j hj => by rw [size_setItems]; exact hl j (List.mem_cons_of_mem _ hj)) h hJ1
      exact ⟨r1, by rw [r2, size_setItems]⟩
    · simp at h
    · simp at h
    · simp at h

/-- one (source state, target state) pair of `propagate_follows` -/
theorem propEdge_ok {sts sts' : Array State} {i j : Nat} {ch : Bool} (hi : i < sts.size)
    (h : propEdge sts i j = .ok (sts', ch)) :
    ∃ si sj items, sts[i]? = some si ∧ sts[j]? = some sj ∧
      propItems (if i = j then none else some si.items) [] sj.items false = .ok (items, ch) ∧
      sts' = setItems sts j items := by
  unfold propEdge at h
  split at h
  · rename_i si sj hsi hsj
    split at h
    · rename_i items ch' hp
      simp only [Res.ok.injEq, _root_.Prod.mk.injEq] at h
      obtain ⟨h1, h2⟩ := h
      subst h2
      exact ⟨si, sj, items, hsi, hsj, hp, h1.symm⟩
    · simp at h
    · simp at h
    · simp at h
  · simp at h
  · rename_i hn _
    rw [Array.getElem?_eq_getElem hi] at hn
    simp at hn

theorem propTargets_induct (J : Array State → Prop) {i : Nat}
    (hstep : ∀ sts sts' j ch, J sts → i < sts.size → propEdge sts i j = .ok (sts', ch) → J sts' ∧ sts'.size = sts.size) :
    ∀ (l : List Nat) (sts sts' : Array State) (ch ch' : Bool), i < sts.size →
      propTargets i l sts ch = .ok (sts', ch') → J sts → J sts' ∧ sts'.size = sts.size := by
  intro l
  induction l with
  | nil =>
    intro sts sts' ch ch' _ h hJ
    simp only [propTargets, Res.ok.injEq, _root_.Prod.mk.injEq] at h
    obtain ⟨h1, _⟩ := h
    subst h1; exact ⟨hJ, rfl⟩
  | cons j rest ih =>
    intro sts sts' ch ch' hi h hJ
    unfold propTargets at h
    split at h
    · rename_i sts1 c he
      obtain ⟨h1, h2⟩ := hstep sts sts1 j c hJ hi he
      obtain ⟨r1, r2⟩ := ih sts1 sts' _ ch' (by omega) h h1
      exact ⟨r1, by omega⟩
    · simp at h
    · simp at h
    · simp at h

theorem propStates_induct (J : Array State → Prop)
    (hstep : ∀ sts sts' i j ch, J sts → i < sts.size → propEdge sts i j = .ok (sts', ch) →
      J sts' ∧ sts'.size = sts.size) :
    ∀ (l : List Nat) (sts sts' : Array State) (ch ch' : Bool), (∀ i ∈ l, i < sts.size) →
      propStates l sts ch = .ok (sts', ch') → J sts → J sts' ∧ sts'.size = sts.size := by
  intro l
  induction l with
  | nil =>
    intro sts sts' ch ch' _ h hJ
    simp only [propStates, Res.ok.injEq, _root_.Prod.mk.injEq] at h
    obtain ⟨h1, _⟩ := h
    subst h1; exact ⟨hJ, rfl⟩
  | cons i rest ih =>
    intro sts sts' ch ch' hl h hJ
    unfold propStates at h
    split at h
    · rename_i sts1 c he
      have hi := hl i List.mem_cons_self
      obtain ⟨h1, h2⟩ := propTargets_induct J (fun s s' j c hJ' hi' he' => hstep s s' i j c hJ' hi' he')
        _ sts sts1 false c hi he hJ
      obtain ⟨r1, r2⟩ := ih sts1 sts' _ ch'
        (fun k hk => by rw [h2]; exact hl k (List.mem_cons_of_mem _ hk)) h h1
      exact ⟨r1, by omega⟩
    · simp at h
    · simp at h
    · simp at h

/-- induction over the whole of `propagate_follows`: closure refreshes and edge propagations -/
theorem propagate_induct {fuel : Nat} (J : Array State → Prop)
    (hclose : ∀ sts i st items, J sts → sts[i]? = some st → closure g fs fuel st.items = .ok items →
      J (setItems sts i items))
    (hedge : ∀ sts sts' i j ch, J sts → i < sts.size → propEdge sts i j = .ok (sts', ch) →
      J sts' ∧ sts'.size = sts.size) :
    ∀ (n : Nat) (sts sts' : Array State), propagate g fs fuel n sts = .ok sts' → J sts →
      J sts' ∧ sts'.size = sts.size := by
  intro n
  induction n with
  | zero => intro sts sts' h; simp [propagate] at h
  | succ n ih =>
    intro sts sts' h hJ
    unfold propagate at h
    have hround : ∀ r, propRound g fs fuel sts = .ok r → J r.1 ∧ r.1.size = sts.size := by
      intro r hr
      unfold propRound at hr
      obtain ⟨sts1, h1, h2⟩ := Res.bind_ok hr
      obtain ⟨a1, a2⟩ := refreshStates_induct J hclose _ sts sts1
        (fun i hi => List.mem_range.mp hi) h1 hJ
      obtain ⟨b1, b2⟩ := propStates_induct J hedge _ sts1 r.1 false r.2
        (fun i hi => List.mem_range.mp hi) h2 a1
      exact ⟨b1, by omega⟩
    split at h
    · rename_i sts1 hr
      obtain ⟨c1, c2⟩ := hround _ hr
      obtain ⟨r1, r2⟩ := ih sts1 sts' h c1
      exact ⟨r1, by simp only at c2; omega⟩
    · rename_i sts1 hr
      simp only [Res.ok.injEq] at h
      subst h
      exact hround _ hr
    · simp at h
    · simp at h
    · simp at h

end Rustemo.Table
