import Rustemo.Proofs.TLR
/-!
# Valid-prefix property, half 1: prefix locality and "no early error"

A step of the token-level parser depends only on the configuration and the *head* of the remaining
input (`tstep_cons_congr`).  Hence two runs on inputs with a common prefix coincide step for step
until that prefix is consumed; if one of them accepts, the other cannot report an error while a token
of the common prefix is the lookahead (`trun_prefix_no_error`), and — when accept sits only in the
STOP column — it does shift the whole common prefix (`trun_prefix_shifted`).
-/
namespace Rustemo

def ViablePrefix (g : Grammar) (p : List Nat) : Prop := ∃ rest, Sentence g (p ++ rest)

theorem viablePrefix_of_sentence {g : Grammar} {w : List Nat} (h : Sentence g w) : ViablePrefix g w :=
  ⟨[], by simpa using h⟩

theorem viablePrefix_take {g : Grammar} {p : List Nat} (h : ViablePrefix g p) (n : Nat) :
    ViablePrefix g (p.take n) := by
  obtain ⟨rest, hs⟩ := h
  refine ⟨p.drop n ++ rest, ?_⟩
  rw [← List.append_assoc, List.take_append_drop]; exact hs

theorem viablePrefix_nil_iff {g : Grammar} : ViablePrefix g [] ↔ ∃ w, Sentence g w := by
  constructor
  · intro ⟨r, h⟩; exact ⟨r, by simpa using h⟩
  · intro ⟨w, h⟩; exact ⟨w, by simpa using h⟩

/-- what one step does, as a function of the core configuration and the head `b` of the input only -/
inductive HeadStep where
  | error (s : Nat)
  | reduce (c : CCfg)
  | shift (c : CCfg)
  | accept (tr : Tree)
  | panic (site : String)

def headStep (g : Grammar) (t : Table) (c : CCfg) (b : Nat) : HeadStep :=
  if t.cell (topOf 0 c.stack) b = [] then .error (topOf 0 c.stack)
  else
    match cstep g t 0 c b with
    | .reduce c' => .reduce c'
    | .shift c' => .shift c'
    | .accept tr => .accept tr
    | .panic s => .panic s

def HeadStep.toT (b : Nat) (r : List Nat) : HeadStep → TStep
  | .error s => .error (r.length + 1) s
  | .reduce c' => .next ⟨c', b :: r⟩
  | .shift c' => .next ⟨c', r⟩
  | .accept tr => .accept tr
  | .panic s => .panic s

/-- **Prefix locality**: the step taken with a non-empty remaining input `b :: r` is a function of the
    configuration and `b`; `r` is only carried along. -/
theorem tstep_cons (g : Grammar) (t : Table) (c : CCfg) (b : Nat) (r : List Nat) :
    tstep g t ⟨c, b :: r⟩ = (headStep g t c b).toT b r := by
  unfold tstep headStep
  simp only [lookahead, List.headD_cons, List.length_cons]
  by_cases hcell : t.cell (topOf 0 c.stack) b = []
  · simp [hcell, HeadStep.toT]
  · simp only [hcell, ↓reduceIte]
    cases cstep g t 0 c b <;> simp [HeadStep.toT]

theorem cstep_accept_mem {g : Grammar} {t : Table} {c : CCfg} {b : Nat} {tr : Tree}
    (h : cstep g t 0 c b = .accept tr) : Action.accept ∈ t.cell (topOf 0 c.stack) b := by
  unfold cstep cstepWith at h
  split at h
  · simp at h
  · rename_i act acts hcell
    rw [hcell]
    cases act with
    | shift s' => simp at h
    | reduce p len =>
      simp only at h
      repeat' split at h
      all_goals simp at h
    | accept => simp

/-- the error index never exceeds the number of remaining tokens -/
theorem trun_error_le (g : Grammar) (t : Table) : ∀ (n : Nat) (c : TCfg) (k s : Nat),
    trun g t n c = .error k s → k ≤ c.rest.length := by
  intro n
  induction n with
  | zero => intro c k s h; simp [trun] at h
  | succ n ih =>
    intro c k s h
    unfold trun at h
    split at h
    · rename_i c' hstep
      have hle := ih c' k s h
      -- a step never lengthens the remaining input
      have : c'.rest.length ≤ c.rest.length := by
        unfold tstep at hstep
        simp only at hstep
        split at hstep
        · simp at hstep
        · split at hstep
          · injection hstep with hstep; subst hstep; exact Nat.le_refl _
          · split at hstep
            · simp at hstep
            · rename_i a rest' hrest
              injection hstep with hstep; subst hstep
              simp [hrest]
          · simp at hstep
          · simp at hstep
      omega
    · simp at h
    · rename_i k' s' hstep
      injection h with h1 h2
      subst h1
      unfold tstep at hstep
      simp only at hstep
      split at hstep
      · injection hstep with h1 _; omega
      · split at hstep
        · simp at hstep
        · split at hstep <;> simp at hstep
        · simp at hstep
        · simp at hstep
    · simp at h

/-- **No early error.**  If the run from `⟨c, q ++ x⟩` accepts, then the run from `⟨c, q ++ y⟩` (same
    configuration, common prefix `q` of the remaining input) never reports an error while a token of
    `q` is the lookahead: an error index is at most `|y|`. -/
theorem trun_prefix_no_error (g : Grammar) (t : Table) (x y : List Nat) :
    ∀ (F : Nat) (c : CCfg) (q : List Nat) (tr : Tree), trun g t F ⟨c, q ++ x⟩ = .accept tr →
      ∀ (n k s : Nat), trun g t n ⟨c, q ++ y⟩ = .error k s → k ≤ y.length := by
  intro F
  induction F with
  | zero => intro c q tr h; simp [trun] at h
  | succ F ih =>
    intro c q tr h n k s he
    cases q with
    | nil => simpa using trun_error_le g t n ⟨c, y⟩ k s (by simpa using he)
    | cons b q' =>
      cases n with
      | zero => simp [trun] at he
      | succ n =>
        unfold trun at h he
        simp only [List.cons_append, tstep_cons] at h he
        cases hh : headStep g t c b with
        | error s' => rw [hh] at h; simp [HeadStep.toT] at h
        | reduce c' =>
          rw [hh] at h he
          simp only [HeadStep.toT] at h he
          exact ih c' (b :: q') tr h n k s he
        | shift c' =>
          rw [hh] at h he
          simp only [HeadStep.toT] at h he
          exact ih c' q' tr h n k s he
        | accept tr' => rw [hh] at he; simp [HeadStep.toT] at he
        | panic m => rw [hh] at h; simp [HeadStep.toT] at h

/-- If accept sits only in the STOP column and no token of the common prefix `q` is STOP, the second
    run consumes all of `q`: it reaches a configuration whose remaining input is exactly `y`. -/
theorem trun_prefix_shifted (g : Grammar) (t : Table) (hacc : ∀ s a, Action.accept ∈ t.cell s a → a = 0)
    (x y : List Nat) :
    ∀ (F : Nat) (c : CCfg) (q : List Nat) (tr : Tree), (∀ b ∈ q, b ≠ 0) →
      trun g t F ⟨c, q ++ x⟩ = .accept tr → ∃ c', Reaches g t ⟨c, q ++ y⟩ ⟨c', y⟩ := by
  intro F
  induction F with
  | zero => intro c q tr _ h; simp [trun] at h
  | succ F ih =>
    intro c q tr hnz h
    cases q with
    | nil => exact ⟨c, by simpa using Reaches.refl _⟩
    | cons b q' =>
      unfold trun at h
      simp only [List.cons_append, tstep_cons] at h
      cases hh : headStep g t c b with
      | error s' => rw [hh] at h; simp [HeadStep.toT] at h
      | reduce c' =>
        rw [hh] at h
        simp only [HeadStep.toT] at h
        obtain ⟨c'', hr⟩ := ih c' (b :: q') tr hnz h
        refine ⟨c'', .more _ ⟨c', b :: q' ++ y⟩ _ ?_ hr⟩
        simp only [List.cons_append, tstep_cons, hh, HeadStep.toT]
      | shift c' =>
        rw [hh] at h
        simp only [HeadStep.toT] at h
        obtain ⟨c'', hr⟩ := ih c' q' tr (fun b' hb' => hnz b' (List.mem_cons_of_mem _ hb')) h
        refine ⟨c'', .more _ ⟨c', q' ++ y⟩ _ ?_ hr⟩
        simp only [List.cons_append, tstep_cons, hh, HeadStep.toT]
      | accept tr' =>
        exfalso
        -- accept with lookahead `b ≠ 0`
        apply hnz b List.mem_cons_self
        apply hacc (topOf 0 c.stack)
        unfold headStep at hh
        split at hh
        · simp at hh
        · split at hh
          · simp at hh
          · simp at hh
          · rename_i tr2 hcs; exact cstep_accept_mem hcs
          · simp at hh
      | panic m => rw [hh] at h; simp [HeadStep.toT] at h

/-- a run that ends in an error passed through a configuration whose step is that error -/
theorem trun_error_reaches (g : Grammar) (t : Table) : ∀ (n : Nat) (c : TCfg) (k s : Nat),
    trun g t n c = .error k s → ∃ c', Reaches g t c c' ∧ tstep g t c' = .error k s := by
  intro n
  induction n with
  | zero => intro c k s h; simp [trun] at h
  | succ n ih =>
    intro c k s h
    unfold trun at h
    split at h
    · rename_i c1 hstep
      obtain ⟨c', hr, he⟩ := ih c1 k s h
      exact ⟨c', .more _ _ _ hstep hr, he⟩
    · simp at h
    · rename_i k' s' hstep
      injection h with h1 h2
      subst h1 h2
      exact ⟨c, .refl _, hstep⟩
    · simp at h

theorem tstep_error_spec {g : Grammar} {t : Table} {c : TCfg} {k s : Nat} (h : tstep g t c = .error k s) :
    k = c.rest.length ∧ s = topOf 0 c.c.stack ∧ t.cell s (lookahead c.rest) = [] := by
  unfold tstep at h
  simp only at h
  split at h
  · rename_i hcell
    injection h with h1 h2
    subst h1 h2
    exact ⟨rfl, rfl, hcell⟩
  · split at h
    · simp at h
    · split at h <;> simp at h
    · simp at h
    · simp at h

/-- the token-level invariant holds along every run from the initial configuration -/
theorem reaches_tinv (g : Grammar) (t : Table) (autos : List Auto) (hs : Structural g t autos)
    (au : Auto) (hin : au ∈ autos) (h0 : 0 = au.start) (w : List Nat) {c c' : TCfg}
    (hr : Reaches g t c c') (hinv : TInv g t w c) : TInv g t w c' := by
  induction hr with
  | refl => exact hinv
  | more c c1 c2 hstep _ ih => exact ih (tstep_preserves g t autos hs au hin h0 w c c1 hinv hstep)

theorem tinv_init (g : Grammar) (t : Table) (w : List Nat) : TInv g t w ⟨⟨[], []⟩, w⟩ :=
  ⟨cinv_init g t 0, by simp⟩

/-- a finished run keeps its result when given more fuel -/
theorem trun_mono_result' (g : Grammar) (t : Table) : ∀ (n : Nat) (c : TCfg) (r : TResult),
    trun g t n c = r → r ≠ .fuel → ∀ k, trun g t (n + k) c = r := by
  intro n
  induction n with
  | zero => intro c r h hr; simp [trun] at h; exact absurd h.symm hr
  | succ n ih =>
    intro c r h hr k
    have : n + 1 + k = (n + k) + 1 := by omega
    rw [this]
    unfold trun at h ⊢
    split at h
    · rename_i c' hstep
      exact ih c' r h hr k
    · exact h
    · exact h
    · exact h

end Rustemo
