import Rustemo.Proofs.LayoutRTStep
import Rustemo.Proofs.LexOk
/-!
# Sibling spans are ordered and contained in their parent (C13, open part)

`Tree.Ordered`: at every node the spans of the children, in order, are disjoint and ascending and lie
inside the node's span (`SibAsc`), every span has start ≤ end.  An empty nonterminal (zero-width by
`SpanOk`) therefore lies between the end of its left neighbour and the start of its right neighbour,
at every level; with containment this orders all leaves of the tree.

Invariant `OInv`: the spans on the parse stack (above the bottom entry) are ascending and end at or
before `ctx.span.e` (the end of the last shifted token), which is at or before the position.  It
needs of `next_token` only that it leaves the span alone and never moves the position backwards
(`NtMono`) — true of the main parser's `next_token` since the layout parser no longer overwrites the
span (repo fix 8db9d03).
-/
namespace Rustemo

/-- spans in input order are ascending, disjoint, and lie in `[a, b]` -/
def SibAsc : List Span → Nat → Nat → Prop
  | [], a, b => a ≤ b
  | x :: r, a, b => a ≤ x.s.pos ∧ x.s.pos ≤ x.e.pos ∧ SibAsc r x.e.pos b

mutual
def Tree.Ordered : Tree → Prop
  | .leaf _ sp _ _ => sp.s.pos ≤ sp.e.pos
  | .node _ sp _ cs => SibAsc (TreeList.spans cs) sp.s.pos sp.e.pos ∧ TreeList.Ordered cs
def TreeList.Ordered : TreeList → Prop
  | .nil => True
  | .cons t ts => Tree.Ordered t ∧ TreeList.Ordered ts
def TreeList.spans : TreeList → List Span
  | .nil => []
  | .cons t ts => Tree.span t :: TreeList.spans ts
end

theorem spans_ofList (l : List Tree) : (TreeList.ofList l).spans = l.map Tree.span := by
  induction l with
  | nil => simp [TreeList.ofList, TreeList.spans]
  | cons t ts ih => simp [TreeList.ofList, TreeList.spans, ih]

theorem ordered_ofList (l : List Tree) (h : ∀ t ∈ l, t.Ordered) : (TreeList.ofList l).Ordered := by
  induction l with
  | nil => simp [TreeList.ofList, TreeList.Ordered]
  | cons t ts ih =>
    simp only [TreeList.ofList, TreeList.Ordered]
    exact ⟨h t (by simp), ih (fun x hx => h x (by simp [hx]))⟩

theorem SibAsc.le : ∀ {l : List Span} {a b : Nat}, SibAsc l a b → a ≤ b
  | [], _, _, h => h
  | x :: r, a, b, h => by
    obtain ⟨h1, h2, h3⟩ := h
    have := SibAsc.le h3
    omega

theorem sibAsc_append (x : Span) : ∀ (l : List Span) (a m b : Nat), SibAsc l a m → m ≤ x.s.pos →
    x.s.pos ≤ x.e.pos → x.e.pos ≤ b → SibAsc (l ++ [x]) a b
  | [], a, m, b, h, h1, h2, h3 => by
    simp only [List.nil_append, SibAsc]
    have : a ≤ m := h
    exact ⟨by omega, h2, h3⟩
  | y :: r, a, m, b, h, h1, h2, h3 => by
    obtain ⟨ha, hy, hr⟩ := h
    simp only [List.cons_append, SibAsc]
    exact ⟨ha, hy, sibAsc_append x r _ m b hr h1 h2 h3⟩

/-- spans of stack items (top first) are ascending towards the top and end at or before `b` -/
def OChain : List StackItem → Nat → Prop
  | [], _ => True
  | it :: below, b => it.span.s.pos ≤ it.span.e.pos ∧ it.span.e.pos ≤ b ∧ OChain below it.span.s.pos

theorem ochain_mono : ∀ (l : List StackItem) (b b' : Nat), OChain l b → b ≤ b' → OChain l b'
  | [], _, _, _, _ => trivial
  | it :: below, b, b', h, hb => ⟨h.1, by have := h.2.1; omega, h.2.2⟩

theorem ochain_take : ∀ (n : Nat) (it : StackItem) (below : List StackItem) (b : Nat),
    OChain (it :: below) b → n ≤ below.length →
    ∃ first, (it :: below.take n).getLast? = some first ∧
      OChain (below.drop n) first.span.s.pos ∧
      SibAsc ((it :: below.take n).reverse.map (·.span)) first.span.s.pos it.span.e.pos
  | 0, it, below, b, h, _ => by
    obtain ⟨h1, _, h3⟩ := h
    refine ⟨it, by simp, by simpa using h3, ?_⟩
    simp only [List.take_zero, List.reverse_cons, List.reverse_nil, List.nil_append, List.map_cons,
      List.map_nil, SibAsc]
    exact ⟨Nat.le_refl _, h1, Nat.le_refl _⟩
  | n+1, it, below, b, h, hn => by
    cases below with
    | nil => simp at hn
    | cons it2 below2 =>
      obtain ⟨h1, _, h3⟩ := h
      obtain ⟨first, hf, hch, hsa⟩ := ochain_take n it2 below2 _ h3 (by simpa using hn)
      refine ⟨first, ?_, by simpa using hch, ?_⟩
      · simp only [List.take_succ_cons]
        rw [List.getLast?_cons_cons]
        exact hf
      · simp only [List.take_succ_cons, List.reverse_cons, List.map_append, List.map_cons, List.map_nil]
        have := sibAsc_append it.span _ _ _ it.span.e.pos
          (by simpa [List.reverse_cons, List.map_append] using hsa) h3.2.1 h1 (Nat.le_refl _)
        simpa using this

/-- `next_token` leaves the span alone and never moves backwards -/
def NtMono (nt : Ctx → Ctx × Outcome Tok) : Prop :=
  ∀ ctx ctx' tk, nt ctx = (ctx', .ok tk) → ctx'.span = ctx.span ∧ ctx.pos.pos ≤ ctx'.pos.pos

structure OInv (c : Cfg) : Prop where
  stack : ∃ items bottom, c.stack = items ++ [bottom] ∧ OChain items c.ctx.span.e.pos
  spanE : c.ctx.span.e.pos ≤ c.ctx.pos.pos
  trees : ∀ t ∈ c.res, t.Ordered

theorem step_oinv (env : Env) (nt : Ctx → Ctx × Outcome Tok) (c c' : Cfg) (hnt : NtMono nt)
    (hns : NoShiftStop env.t) (hs : SInv env.input c) (hinv : OInv c) (hstep : step env nt c = .next c') : OInv c' := by
  obtain ⟨items, bottom, hstack, hchain⟩ := hinv.stack
  cases step_next_inv env nt c c' hstep with
  | shift state s' acts ctx1 tk htop hcell hnt1 hc' =>
    obtain ⟨hsp, hpos⟩ := hnt _ _ _ hnt1
    subst hc'
    have hnp : c.ctx.pos.pos ≤ (posAfter (sliceOf env.input c.tok.val) c.ctx.pos).pos := by
      show c.ctx.pos.pos ≤ c.ctx.pos.pos + _
      omega
    refine ⟨⟨shiftItem env c s' :: items, bottom, by simp [hstack], ?_⟩, ?_, ?_⟩
    · show OChain (shiftItem env c s' :: items) ctx1.span.e.pos
      rw [hsp]
      refine ⟨hnp, Nat.le_refl _, ?_⟩
      exact ochain_mono items _ _ hchain hinv.spanE
    · show ctx1.span.e.pos ≤ ctx1.pos.pos
      rw [hsp]; exact hpos
    · intro t ht
      rcases List.mem_cons.mp ht with h | h
      · subst h
        -- the leaf's span is the token's span: start = position, end = posOf (start + length)
        simp only [shiftLeaf, Tree.Ordered]
        rcases hs.tok with hk | ⟨hv1, hv2, hspan⟩
        · -- STOP is never shifted
          exfalso
          apply hns state s'
          rw [← hk, hcell]; simp
        · rw [hspan]
          simp only
          rw [posOf_pos env.input _ hv2, ← hv1]
          omega
      · exact hinv.trees t h
  | reduce state p len fromState s' pr acts ctx1 tk htop hcell hlen hfrom hpr hgoto hrlen hnt1 hc' =>
    obtain ⟨hsp, hpos⟩ := hnt _ _ _ hnt1
    have hlen' : len ≤ items.length := by
      rcases Nat.lt_or_ge items.length len with h | h
      · exfalso
        have : c.stack.drop len = [] := by
          apply List.drop_eq_nil_of_le; rw [hstack]; simp; omega
        rw [this] at hfrom; simp [topState] at hfrom
      · exact h
    have htake : c.stack.take len = items.take len := by
      rw [hstack, List.take_append_of_le_length hlen']
    have hdrop : c.stack.drop len = items.drop len ++ [bottom] := by
      rw [hstack, List.drop_append_of_le_length hlen']
    have halign := map_span_take hs.align hrlen
    subst hc'
    have hsp' : ctx1.span = c.ctx.span := hsp
    -- the reduction span, the chain below it and the children's spans
    have key : (reduceSpan (items.take len) c.ctx.span).s.pos ≤ (reduceSpan (items.take len) c.ctx.span).e.pos ∧
        (reduceSpan (items.take len) c.ctx.span).e.pos ≤ c.ctx.span.e.pos ∧
        OChain (items.drop len) (reduceSpan (items.take len) c.ctx.span).s.pos ∧
        SibAsc (((items.take len).reverse).map (·.span))
          (reduceSpan (items.take len) c.ctx.span).s.pos (reduceSpan (items.take len) c.ctx.span).e.pos := by
      cases len with
      | zero =>
        simp only [List.take_zero, List.drop_zero, reduceSpan, List.getLast?_nil, List.reverse_nil,
          List.map_nil, SibAsc]
        exact ⟨Nat.le_refl _, Nat.le_refl _, hchain, Nat.le_refl _⟩
      | succ n =>
        cases hit : items with
        | nil => rw [hit] at hlen'; simp at hlen'
        | cons it below =>
          rw [hit] at hchain hlen'
          obtain ⟨first, hf, hch, hsa⟩ := ochain_take n it below _ hchain (by simpa using hlen')
          simp only [List.take_succ_cons, List.drop_succ_cons, reduceSpan, hf, List.head?_cons]
          exact ⟨SibAsc.le hsa, hchain.2.1, hch, hsa⟩
    obtain ⟨k1, k2, k3, k4⟩ := key
    refine ⟨⟨⟨s', reduceSpan (c.stack.take len) c.ctx.span⟩ :: items.drop len, bottom, by simp [hdrop], ?_⟩,
      ?_, ?_⟩
    · show OChain _ ctx1.span.e.pos
      rw [hsp', htake]
      exact ⟨k1, k2, k3⟩
    · show ctx1.span.e.pos ≤ ctx1.pos.pos
      rw [hsp']
      have : c.ctx.pos.pos ≤ ctx1.pos.pos := hpos
      have := hinv.spanE
      omega
    · intro t ht
      rcases List.mem_cons.mp ht with h | h
      · subst h
        simp only [reduceNode, Tree.Ordered, spans_ofList]
        refine ⟨?_, ordered_ofList _ ?_⟩
        · rw [List.map_reverse, ← halign, htake, ← List.map_reverse]
          exact k4
        · intro x hx
          exact hinv.trees x (List.mem_of_mem_take (List.mem_reverse.mp hx))
      · exact hinv.trees t (List.mem_of_mem_drop h)

theorem runLoop_oinv (env : Env) (nt : Ctx → Ctx × Outcome Tok) (hnt : NtMono nt)
    (hntok : NtOk env.input nt) (hns : NoShiftStop env.t) :
    ∀ (fuel : Nat) (c : Cfg) (ctx : Ctx) (r : ParseResult), SInv env.input c → OInv c →
      runLoop env nt fuel c = (ctx, .ok r) → r.tree.Ordered := by
  intro fuel
  induction fuel with
  | zero => intro c ctx r _ _ h; simp [runLoop] at h
  | succ n ih =>
    intro c ctx r hs hinv h
    unfold runLoop at h
    split at h
    · rename_i c' hstep
      exact ih c' ctx r (step_spans env nt c c' hntok hns hs hstep)
        (step_oinv env nt c c' hnt hns hs hinv hstep) h
    · rename_i ctx' r' hstep
      injection h with _ h2
      injection h2 with h2
      subst h2
      obtain ⟨_, _, rest, _, _, _, hres, _, _⟩ := step_done_inv env nt c ctx' r' hstep
      exact hinv.trees _ (by rw [hres]; simp)
    · rename_i ctx' o hstep
      injection h with _ h2
      subst h2
      exact absurd rfl (step_stop_not_ok' env nt c ctx' _ hstep r)

/-! ## `next_token` is monotone -/

theorem lexNext_mono (env : Env) (ctx : Ctx) (exp : List (Nat × Bool)) :
    (lexNext env ctx exp).1.span = ctx.span ∧ ctx.pos.pos ≤ (lexNext env ctx exp).1.pos.pos := by
  unfold lexNext
  split
  · exact ⟨rfl, Nat.le_refl _⟩
  · simp only
    split
    · unfold skip
      simp only
      split
      · refine ⟨rfl, ?_⟩
        show ctx.pos.pos ≤ ctx.pos.pos + _
        omega
      · exact ⟨rfl, Nat.le_refl _⟩
    · exact ⟨rfl, Nat.le_refl _⟩

theorem noToken_ctx (env : Env) (pp : Bool) (ctx : Ctx) : (noToken env pp ctx).1 = ctx := by
  unfold noToken
  simp only
  split
  · rfl
  · split <;> rfl

/-- every outcome -/
theorem ntBase_mono (env : Env) (pp : Bool) (ctx ctx' : Ctx) (o : Outcome Tok)
    (h : nextTokenBase env pp ctx = (ctx', o)) : ctx'.span = ctx.span ∧ ctx.pos.pos ≤ ctx'.pos.pos := by
  unfold nextTokenBase at h
  have hm := lexNext_mono env ctx (env.t.sorted ctx.state)
  generalize lexNext env ctx (env.t.sorted ctx.state) = lx at h hm
  obtain ⟨ctx1, toks⟩ := lx
  simp only at h hm
  split at h
  · injection h with h1 _; rw [← h1]; exact hm
  · have := noToken_ctx env pp ctx1
    rw [h] at this
    simp only at this
    rw [this]; exact hm

theorem runLoop_pos_mono (env : Env) (nt : Ctx → Ctx × Outcome Tok)
    (hnt : ∀ ctx ctx' o, nt ctx = (ctx', o) → ctx.pos.pos ≤ ctx'.pos.pos) :
    ∀ (fuel : Nat) (c : Cfg) (ctx : Ctx) (o : Outcome ParseResult),
      runLoop env nt fuel c = (ctx, o) → c.ctx.pos.pos ≤ ctx.pos.pos := by
  intro fuel
  induction fuel with
  | zero =>
    intro c ctx o h
    simp only [runLoop] at h
    injection h with h1 _
    rw [← h1]; exact Nat.le_refl _
  | succ n ih =>
    intro c ctx o h
    unfold runLoop at h
    split at h
    · rename_i c' hstep
      have := ih c' ctx o h
      refine Nat.le_trans ?_ this
      cases step_next_inv env nt c c' hstep with
      | shift state s' acts ctx1 tk htop hcell hnt1 hc' =>
        subst hc'
        have h1 := hnt _ _ _ hnt1
        have h2 : c.ctx.pos.pos ≤ (shiftCtx env c s').pos.pos := by
          show c.ctx.pos.pos ≤ c.ctx.pos.pos + _
          omega
        exact Nat.le_trans h2 h1
      | reduce state p len fromState s' pr acts ctx1 tk htop hcell hlen hfrom hpr hgoto hrlen hnt1 hc' =>
        subst hc'
        exact hnt (reduceCtx c s') ctx1 _ hnt1
    · rename_i ctx' r' hstep
      injection h with h1 _
      obtain ⟨_, _, _, _, _, hctx, _⟩ := step_done_inv env nt c ctx' r' hstep
      rw [← h1, hctx]; exact Nat.le_refl _
    · rename_i ctx' o' hstep
      injection h with h1 _
      rw [← h1]
      cases step_stop_inv env nt c ctx' o' hstep with
      | panic site h ho => rw [h]; exact Nat.le_refl _
      | noAction state htop hcell h ho => rw [h]; exact Nat.le_refl _
      | shift state s' acts o'' htop hcell hnt1 hno ho =>
        have h1 := hnt _ _ _ hnt1
        have h2 : c.ctx.pos.pos ≤ (shiftCtx env c s').pos.pos := by
          show c.ctx.pos.pos ≤ c.ctx.pos.pos + _
          omega
        exact Nat.le_trans h2 h1
      | reduce state p len fromState s' pr acts o'' htop hcell hlen hfrom hpr hgoto hnt1 hno ho =>
        exact hnt (reduceCtx c s') _ _ hnt1

theorem layoutParse_pos_mono (env : Env) (ls : Nat) (ctx : Ctx) (fuel : Nat) (cx : Ctx)
    (o : Outcome ParseResult) (h : layoutParse env ls ctx fuel = (cx, o)) : ctx.pos.pos ≤ cx.pos.pos := by
  have hnt : ∀ c c' o, nextTokenBase env true c = (c', o) → c.pos.pos ≤ c'.pos.pos :=
    fun c c' o h => (ntBase_mono env true c c' o h).2
  unfold layoutParse parseWith at h
  simp only at h
  split at h
  · rename_i ctx1 tk hnt1
    have h1 := hnt _ _ _ hnt1
    have h2 := runLoop_pos_mono env _ hnt fuel _ cx o h
    exact Nat.le_trans h1 h2
  all_goals
    rename_i ctx1 _ hnt1
    have h1 := hnt _ _ _ hnt1
    injection h with h2 _
    rw [← h2]; exact h1

theorem ntMono_main (env : Env) (pp : Bool) (fuel : Nat) : NtMono (nextTokenMain env pp fuel) := by
  intro ctx ctx' tk h
  unfold nextTokenMain at h
  have hm := lexNext_mono env ctx (env.t.sorted ctx.state)
  generalize lexNext env ctx (env.t.sorted ctx.state) = lx at h hm
  obtain ⟨ctx1, toks⟩ := lx
  simp only at h hm
  split at h
  · injection h with h1 _; rw [← h1]; exact hm
  · split at h
    · have := noToken_ctx env pp ctx1
      rw [h] at this
      simp only at this
      rw [this]; exact hm
    · rename_i ls hl
      generalize hlp : layoutParse env ls ctx1 fuel = lp at h
      obtain ⟨cx, r⟩ := lp
      have hpm := layoutParse_pos_mono env ls ctx1 fuel cx r hlp
      simp only at h
      have hno : ∀ (c0 : Ctx), c0.span = ctx1.span → c0.pos = ctx1.pos →
          noToken env pp c0 = (ctx', Outcome.ok tk) → ctx'.span = ctx.span ∧ ctx.pos.pos ≤ ctx'.pos.pos := by
        intro c0 hs0 hp0 hn
        have := noToken_ctx env pp c0
        rw [hn] at this
        simp only at this
        rw [this, hs0, hp0]
        exact ⟨hm.1, hm.2⟩
      split at h
      · split at h
        · split at h
          · obtain ⟨h1, h2⟩ := ntBase_mono env pp _ ctx' _ h
            simp only at h1 h2
            rw [h1]
            exact ⟨hm.1, Nat.le_trans hm.2 (Nat.le_trans hpm h2)⟩
          · exact hno { cx with state := ctx1.state, span := ctx1.span, pos := ctx1.pos } rfl rfl h
        · exact hno { cx with state := ctx1.state, span := ctx1.span, pos := ctx1.pos } rfl rfl h
      · exact hno { cx with state := ctx1.state, span := ctx1.span, pos := ctx1.pos } rfl rfl h
      · injection h with _ h2; simp at h2
      · injection h with _ h2; simp at h2

/-- **Ordering.** every tree returned by the LR parser model is `Ordered` -/
theorem parse_ordered (env : Env) (hc : env.custom = none) (hr : RecogOk env) (hns : NoShiftStop env.t)
    (pp : Bool) (fuel : Nat) (ctx : Ctx) (r : ParseResult)
    (h : parse env pp fuel = (ctx, .ok r)) : r.tree.Ordered := by
  have hntok := ntOk_main env hc hr hns pp fuel
  have hmono := ntMono_main env pp fuel
  unfold parse parseWith at h
  simp only at h
  have h0 : CtxOk env.input ({} : Ctx) := by
    have hs : PosOk env.input Pos.start := by
      unfold PosOk posOf Pos.start; simp [posAfter, lastNl]
    exact ⟨hs, hs, hs⟩
  split at h
  · rename_i ctx1 tk hnt1
    obtain ⟨hc1, ht1⟩ := hntok _ _ _ h0 hnt1
    obtain ⟨hsp, hpos⟩ := hmono _ _ _ hnt1
    refine runLoop_oinv env _ hmono hntok hns fuel _ ctx r
      ⟨by simp, hc1, by simp, by simp, ht1 tk rfl⟩ ?_ h
    refine ⟨⟨[], StackItem.mk 0 ({} : Ctx).span, by simp, trivial⟩, ?_, by simp⟩
    show ctx1.span.e.pos ≤ ctx1.pos.pos
    rw [hsp]
    exact hpos
  all_goals (injection h with _ h2; simp at h2)

end Rustemo
