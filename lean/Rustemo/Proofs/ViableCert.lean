import Rustemo.Model.CertViable
import Rustemo.Proofs.CertSound
/-!
# Soundness of the executable certificates of `Model/CertViable.lean`

`Cert.productive g = true → Productive g` (every right-hand-side symbol has a derivation tree),
`Cert.anchored g t autos = true → Anchored g t autos` (every item of every state is reachable inside
its state from a kernel item by closure steps — a well-founded justification, `Anch`),
`Cert.targetsNonEmpty t = true → NonEmptyTargets g t`.
-/
namespace Rustemo

/-! ## productive -/

def HasTree (g : Grammar) (X : Nat) : Prop := ∃ tr : Tree, tr.Valid g X

/-- every symbol occurring in a right-hand side derives a terminal string -/
def Productive (g : Grammar) : Prop :=
  ∀ (p : Nat) (pr : Prod), g.prods[p]? = some pr → ∀ X ∈ pr.rhs, HasTree g X

theorem validList_of_hasTree (g : Grammar) : ∀ (Xs : List Nat), (∀ X ∈ Xs, HasTree g X) →
    ∃ l : List Tree, ValidList g l Xs
  | [], _ => ⟨[], rfl⟩
  | X :: Xs, h => by
    obtain ⟨tr, htr⟩ := h X List.mem_cons_self
    obtain ⟨l, hl⟩ := validList_of_hasTree g Xs (fun Y hY => h Y (List.mem_cons_of_mem _ hY))
    exact ⟨tr :: l, X, Xs, rfl, htr, hl⟩

theorem hasTree_prod (g : Grammar) (p : Nat) (pr : Prod) (hp : g.prods[p]? = some pr)
    (h : ∀ X ∈ pr.rhs, HasTree g X) : HasTree g pr.lhs := by
  obtain ⟨l, hl⟩ := validList_of_hasTree g pr.rhs h
  refine ⟨Tree.mk p l, ?_⟩
  simp only [Tree.mk, Tree.Valid]
  exact ⟨pr, hp, rfl, validList_ofList g l pr.rhs hl⟩

theorem rhsKnown_sound (g : Grammar) (known rhs : List Nat) (hk : ∀ Y ∈ known, HasTree g Y)
    (h : Cert.rhsKnown g known rhs = true) : ∀ X ∈ rhs, HasTree g X := by
  intro X hX
  unfold Cert.rhsKnown at h
  rw [List.all_eq_true] at h
  have := h X hX
  simp only [Bool.or_eq_true, decide_eq_true_eq, List.contains_iff_mem] at this
  rcases this with hlt | hmem
  · exact ⟨Tree.tok X, by simp [Tree.tok, Tree.Valid, hlt]⟩
  · exact hk X hmem

theorem prodStep_sound (g : Grammar) (known : List Nat) (hk : ∀ Y ∈ known, HasTree g Y) :
    ∀ Y ∈ Cert.prodStep g known, HasTree g Y := by
  intro Y hY
  unfold Cert.prodStep at hY
  rw [List.mem_append] at hY
  rcases hY with hY | hY
  · exact hk Y hY
  · rw [List.mem_map] at hY
    obtain ⟨pr, hpr, rfl⟩ := hY
    rw [List.mem_filter] at hpr
    obtain ⟨hmem, hcond⟩ := hpr
    simp only [Bool.and_eq_true] at hcond
    obtain ⟨p, hlt, hget⟩ := List.getElem_of_mem hmem
    have hp : g.prods[p]? = some pr := by
      have hlt' : p < g.prods.size := by simpa using hlt
      rw [Array.getElem?_eq_getElem hlt']
      simpa using hget
    exact hasTree_prod g p pr hp (rhsKnown_sound g known pr.rhs hk hcond.2)

theorem prodIter_sound (g : Grammar) : ∀ (n : Nat) (known : List Nat), (∀ Y ∈ known, HasTree g Y) →
    ∀ Y ∈ Cert.prodIter g n known, HasTree g Y := by
  intro n
  induction n with
  | zero => intro known hk; simpa [Cert.prodIter] using hk
  | succ n ih =>
    intro known hk
    unfold Cert.prodIter
    simp only
    split
    · exact hk
    · exact ih _ (prodStep_sound g known hk)

theorem Cert.productive_sound (g : Grammar) (h : Cert.productive g = true) : Productive g := by
  intro p pr hp X hX
  unfold Cert.productive at h
  simp only at h
  rw [List.all_eq_true] at h
  have hm : pr ∈ g.prods.toList := by
    rw [Array.mem_toList_iff]; exact Array.mem_of_getElem? hp
  exact rhsKnown_sound g _ pr.rhs
    (prodIter_sound g _ [] (by simp)) (h pr hm) X hX

/-! ## anchored -/

/-- `Anch g t autos s p d`: item `[p, d]` of state `s` has a well-founded justification: it is a kernel
    item, or the augmented item of an automaton starting in `s`, or demanded (closure) by a justified
    item of the same state -/
inductive Anch (g : Grammar) (t : Table) (autos : List Auto) (s : Nat) : Nat → Nat → Prop
  | kernel (p d : Nat) : t.hasItem s p (d+1) → Anch g t autos s p (d+1)
  | aug (a : Auto) : a ∈ autos → s = a.start → t.hasItem s a.aug 0 → Anch g t autos s a.aug 0
  | clos (q e p : Nat) (prq pr : Prod) : Anch g t autos s q e → t.hasItem s q e →
      g.prods[q]? = some prq → g.prods[p]? = some pr → prq.rhs[e]? = some pr.lhs →
      t.hasItem s p 0 → Anch g t autos s p 0

def Anchored (g : Grammar) (t : Table) (autos : List Auto) : Prop :=
  ∀ s p d, t.hasItem s p d → Anch g t autos s p d

/-- the invariant of the marking loop for state `s` -/
def AnchInv (g : Grammar) (t : Table) (autos : List Auto) (s : Nat) (st : State) (anch : List Item) : Prop :=
  ∀ it ∈ anch, it ∈ st.items ∧ Anch g t autos s it.prod it.dot

theorem anchInv_init (g : Grammar) (t : Table) (autos : List Auto) (s : Nat) (st : State)
    (hst : t.states[s]? = some st) :
    AnchInv g t autos s st (st.items.filter (Cert.isKernel autos s)) := by
  intro it hit
  rw [List.mem_filter] at hit
  obtain ⟨hmem, hk⟩ := hit
  refine ⟨hmem, ?_⟩
  have hi : t.hasItem s it.prod it.dot := ⟨st, hst, it, hmem, rfl, rfl⟩
  cases hd : it.dot with
  | succ d => rw [hd] at hi; exact .kernel _ d hi
  | zero =>
    unfold Cert.isKernel at hk
    simp only [hd, bne_self_eq_false, Bool.false_or, List.any_eq_true, Bool.and_eq_true,
      beq_iff_eq] at hk
    obtain ⟨a, ha, hstart, haug⟩ := hk
    rw [hd] at hi
    rw [← haug]
    exact .aug a ha hstart.symm (by rw [haug]; exact hi)

theorem anchStep_inv (g : Grammar) (t : Table) (autos : List Auto) (s : Nat) (st : State)
    (hst : t.states[s]? = some st) (anch : List Item) (h : AnchInv g t autos s st anch) :
    AnchInv g t autos s st (Cert.anchStep g st.items anch) := by
  intro it hit
  unfold Cert.anchStep at hit
  rw [List.mem_append] at hit
  rcases hit with hit | hit
  · exact h it hit
  · rw [List.mem_filter] at hit
    obtain ⟨hmem, hc⟩ := hit
    simp only [Bool.and_eq_true, beq_iff_eq, List.any_eq_true] at hc
    obtain ⟨hd, jt, hjt, hdem⟩ := hc
    refine ⟨hmem, ?_⟩
    obtain ⟨hjmem, hja⟩ := h jt hjt
    unfold Cert.demands at hdem
    split at hdem
    · rename_i pr hpr
      unfold Grammar.rhsAt at hdem
      split at hdem
      · rename_i prq hprq
        rw [hd]
        exact .clos jt.prod jt.dot it.prod prq pr hja ⟨st, hst, jt, hjmem, rfl, rfl⟩ hprq hpr
          (by simpa using hdem) ⟨st, hst, it, hmem, rfl, hd⟩
      · simp at hdem
    · simp at hdem

theorem anchIter_inv (g : Grammar) (t : Table) (autos : List Auto) (s : Nat) (st : State)
    (hst : t.states[s]? = some st) : ∀ (n : Nat) (anch : List Item), AnchInv g t autos s st anch →
    AnchInv g t autos s st (Cert.anchIter g st.items n anch) := by
  intro n
  induction n with
  | zero => intro anch h; simpa [Cert.anchIter] using h
  | succ n ih =>
    intro anch h
    unfold Cert.anchIter
    split
    · exact h
    · exact ih _ (anchStep_inv g t autos s st hst anch h)

theorem Cert.anchored_sound (g : Grammar) (t : Table) (autos : List Auto)
    (h : Cert.anchored g t autos = true) : Anchored g t autos := by
  intro s p d ⟨st, hst, it, hit, hp, hd⟩
  have := forStates_spec h hst
  unfold Cert.anchoredState at this
  simp only at this
  rw [List.all_eq_true] at this
  have hc := this it hit
  rw [List.contains_iff_mem] at hc
  have := (anchIter_inv g t autos s st hst _ _ (anchInv_init g t autos s st hst) it hc).2
  rw [hp, hd] at this
  exact this

/-! ## non-empty states -/

structure NonEmptyTargets (g : Grammar) (t : Table) : Prop where
  start : ∃ p d, t.hasItem 0 p d
  target : ∀ s X s', t.trans g s X s' → ∃ p d, t.hasItem s' p d

theorem stateNonEmpty_spec {t : Table} {s : Nat} (h : t.stateNonEmpty s = true) : ∃ p d, t.hasItem s p d := by
  unfold Table.stateNonEmpty at h
  split at h
  · rename_i st hst
    cases hi : st.items with
    | nil => simp [hi] at h
    | cons it rest => exact ⟨it.prod, it.dot, st, hst, it, by simp [hi], rfl, rfl⟩
  · simp at h

theorem Cert.targetsNonEmpty_sound (g : Grammar) (t : Table) (h : Cert.targetsNonEmpty t = true) :
    NonEmptyTargets g t := by
  unfold Cert.targetsNonEmpty at h
  simp only [Bool.and_eq_true] at h
  obtain ⟨h0, hall⟩ := h
  refine ⟨stateNonEmpty_spec h0, ?_⟩
  intro s X s' htr
  unfold Table.trans at htr
  split at htr
  · obtain ⟨st, hst, hm⟩ := mem_cell htr
    have := forStates_spec hall hst
    simp only [Bool.and_eq_true] at this
    have := forCells_spec this.1 hm
    exact stateNonEmpty_spec this
  · obtain ⟨_, st, hst, hm⟩ := goto_spec htr
    have := forStates_spec hall hst
    simp only [Bool.and_eq_true] at this
    have := forGotos_spec this.2 hm
    exact stateNonEmpty_spec this

end Rustemo
