import Rustemo.Proofs.First
import Rustemo.Proofs.CertSound
/-!
# Soundness of the executable completeness certificate
`Cert.complete g t = true → Complete g t ∧ GWF g`.
-/
namespace Rustemo

def Table.hasItemLA (t : Table) (s p d a : Nat) : Prop :=
  ∃ st, t.states[s]? = some st ∧ ∃ it ∈ st.items, it.prod = p ∧ it.dot = d ∧ a ∈ it.la

theorem Table.hasItemLA.toItem {t : Table} {s p d a : Nat} (h : t.hasItemLA s p d a) : t.hasItem s p d := by
  obtain ⟨st, h1, it, h2, h3, h4, _⟩ := h; exact ⟨st, h1, it, h2, h3, h4⟩

/-- semantic FIRST of `β a`: `b` is the first token of some string derived from `β` followed by `a` -/
def FirstOf (g : Grammar) (β : List Nat) (a b : Nat) : Prop :=
  ∃ ts : TreeList, ts.Valid g β ∧ (ts.yield ++ [a]).head? = some b

structure Complete (g : Grammar) (t : Table) : Prop where
  closure : ∀ s p d a pr B, t.hasItemLA s p d a → g.prods[p]? = some pr → pr.rhs[d]? = some B →
      g.nterms ≤ B → ∀ q qr, g.prods[q]? = some qr → qr.lhs = B →
      ∀ b, FirstOf g (pr.rhs.drop (d+1)) a b → t.hasItemLA s q 0 b
  trans : ∀ s p d a pr X, t.hasItemLA s p d a → g.prods[p]? = some pr → pr.rhs[d]? = some X →
      ∃ s', t.trans g s X s' ∧ t.hasItemLA s' p (d+1) a
  reduce : ∀ s p a pr, g.prods[p]? = some pr → t.hasItemLA s p pr.rhs.length a → p ≠ 0 →
      Action.reduce p pr.rhs.length ∈ t.cell s a
  accept : ∀ s pr, g.prods[0]? = some pr → t.hasItem s 0 pr.rhs.length → Action.accept ∈ t.cell s 0
  det : ∀ s a, (t.cell s a).length ≤ 1
  start : t.hasItemLA 0 0 0 0

structure GWF (g : Grammar) : Prop where
  lhs_nonterm : ∀ (q : Nat) (qr : Prod), g.prods[q]? = some qr → g.nterms ≤ qr.lhs
  aug0 : ∃ pr0, g.prods[0]? = some pr0 ∧ pr0.lhs = g.augIdx ∧ pr0.rhs = [g.startIdx]
  aug_unique : ∀ (q : Nat) (qr : Prod), g.prods[q]? = some qr → qr.lhs = g.augIdx → q = 0
  aug_not_rhs : ∀ (p : Nat) (pr : Prod), g.prods[p]? = some pr → g.augIdx ∉ pr.rhs

theorem hasItemLAB_spec {t : Table} {s : Nat} {st : State} (hs : t.states[s]? = some st) {p d a : Nat}
    (h : st.hasItemLAB p d a = true) : t.hasItemLA s p d a := by
  unfold State.hasItemLAB at h
  rw [List.any_eq_true] at h
  obtain ⟨it, hit, hpd⟩ := h
  simp only [Bool.and_eq_true, beq_iff_eq, List.contains_iff_mem] at hpd
  exact ⟨st, hs, it, hit, hpd.1.1, hpd.1.2, hpd.2⟩

theorem mem_prodsOf {g : Grammar} {q : Nat} {qr : Prod} (h : g.prods[q]? = some qr) :
    q ∈ Canon.prodsOf g qr.lhs := by
  unfold Canon.prodsOf
  rw [List.mem_filter]
  have hlt : q < g.prods.size := by
    rcases Nat.lt_or_ge q g.prods.size with h' | h'
    · exact h'
    · rw [Array.getElem?_eq_none h'] at h; simp at h
  exact ⟨List.mem_range.mpr hlt, by simp [h]⟩

theorem firstOf_mem (g : Grammar) (c : Canon.Ctx) (h : Cert.firstOk g c = true)
    (hnt : ∀ (p : Nat) (pr : Prod), g.prods[p]? = some pr → g.nterms ≤ pr.lhs)
    (β : List Nat) (a b : Nat) (hf : FirstOf g β a b) : b ∈ firstBetaList g c β a := by
  obtain ⟨ts, hv, hh⟩ := hf
  unfold firstBetaList
  cases hy : ts.yield with
  | nil =>
    rw [hy] at hh
    simp only [List.nil_append, List.head?_cons, Option.some.injEq] at hh
    have hall := treelist_nullable g c h ts β hv hy
    have : (β.all fun X => c.nul.contains X) = true := by
      rw [List.all_eq_true]; exact hall
    rw [List.mem_append]
    right
    simp only [this, ↓reduceIte, List.mem_singleton]
    exact hh.symm
  | cons b' rest =>
    rw [hy] at hh
    simp only [List.cons_append, List.head?_cons, Option.some.injEq] at hh
    subst hh
    have := treelist_first g c h hnt ts β b' rest hv hy
    simp [this]

theorem findSome_shift {l : List Action} {s' : Nat} (h : l.findSome? shiftTarget = some s') :
    Action.shift s' ∈ l := by
  induction l with
  | nil => simp at h
  | cons a as ih =>
    simp only [List.findSome?_cons] at h
    cases a with
    | shift s =>
      simp only [shiftTarget] at h
      injection h with h; subst h; simp
    | reduce p len => simp only [shiftTarget] at h; exact List.mem_cons_of_mem _ (ih h)
    | accept => simp only [shiftTarget] at h; exact List.mem_cons_of_mem _ (ih h)

theorem cell_eq {t : Table} {s : Nat} {st : State} (hs : t.states[s]? = some st) (a : Nat) :
    t.cell s a = st.actions.getD a [] := by
  unfold Table.cell; rw [hs]

theorem Cert.complete_sound (g : Grammar) (t : Table) (h : Cert.complete g t = true) :
    Complete g t ∧ GWF g := by
  unfold Cert.complete at h
  simp only [Bool.and_eq_true] at h
  obtain ⟨⟨⟨⟨⟨hF, hC⟩, hT⟩, hR⟩, hD⟩, hG⟩ := h
  -- grammar well-formedness
  unfold Cert.grammarOk at hG
  simp only [Bool.and_eq_true] at hG
  obtain ⟨⟨⟨hG1, hG2⟩, hG3⟩, hG4⟩ := hG
  rw [List.all_eq_true] at hG1
  have hprod : ∀ (p : Nat) (pr : Prod), g.prods[p]? = some pr → g.nterms ≤ pr.lhs ∧ g.augIdx ∉ pr.rhs := by
    intro p pr hp
    have hm : pr ∈ g.prods.toList := by
      rw [Array.mem_toList_iff]; exact Array.mem_of_getElem? hp
    have := hG1 pr hm
    simp only [Bool.and_eq_true, decide_eq_true_eq, Bool.not_eq_true'] at this
    refine ⟨this.1, ?_⟩
    intro hmem
    have hc : pr.rhs.contains g.augIdx = true := List.contains_iff_mem.mpr hmem
    rw [this.2] at hc
    simp at hc
  have hnt : ∀ (p : Nat) (pr : Prod), g.prods[p]? = some pr → g.nterms ≤ pr.lhs :=
    fun p pr hp => (hprod p pr hp).1
  have gwf : GWF g := by
    refine ⟨hnt, ?_, ?_, fun p pr hp => (hprod p pr hp).2⟩
    · split at hG2
      · rename_i pr0 hpr0
        simp only [Bool.and_eq_true, beq_iff_eq] at hG2
        exact ⟨pr0, hpr0, hG2.1, hG2.2⟩
      · simp at hG2
    · intro q qr hq hlhs
      rw [List.all_eq_true] at hG3
      have hlt : q < g.prods.size := by
        rcases Nat.lt_or_ge q g.prods.size with h' | h'
        · exact h'
        · rw [Array.getElem?_eq_none h'] at hq; simp at hq
      have := hG3 q (List.mem_range.mpr hlt)
      simp only [Bool.or_eq_true, beq_iff_eq, hq, bne_iff_ne, ne_eq] at this
      rcases this with h0 | h0
      · exact h0
      · exact absurd hlhs h0
  refine ⟨⟨?_, ?_, ?_, ?_, ?_, ?_⟩, gwf⟩
  · -- closure
    intro s p d a pr B ⟨st, hst, it, hit, hp, hd, ha⟩ hpr hB hBnt q qr hq hlhs b hf
    have := forStates_spec hC hst
    rw [List.all_eq_true] at this
    have := this it hit
    rw [hp, hpr] at this
    simp only [hd, hB] at this
    simp only [Bool.or_eq_true, decide_eq_true_eq, List.all_eq_true] at this
    rcases this with h1 | h1
    · omega
    · have hq' : q ∈ Canon.prodsOf g B := by rw [← hlhs]; exact mem_prodsOf hq
      have hb := firstOf_mem g (Canon.mkCtx g) hF hnt _ a b hf
      exact hasItemLAB_spec hst (h1 q hq' a ha b hb)
  · -- trans
    intro s p d a pr X ⟨st, hst, it, hit, hp, hd, ha⟩ hpr hX
    have := forStates_spec hT hst
    rw [List.all_eq_true] at this
    have := this it hit
    have hrhs : g.rhsAt it.prod it.dot = some X := by
      unfold Grammar.rhsAt; rw [hp, hpr, hd]; exact hX
    rw [hrhs] at this
    simp only at this
    split at this
    · simp at this
    · rename_i s' htt
      split at this
      · simp at this
      · rename_i st' hst'
        rw [List.all_eq_true] at this
        refine ⟨s', ?_, ?_⟩
        · unfold Table.transTarget at htt
          unfold Table.trans
          split at htt
          · rename_i hlt
            simp only [hlt, ↓reduceIte]
            exact findSome_shift htt
          · rename_i hlt
            simp only [hlt, ↓reduceIte]
            exact htt
        · have := hasItemLAB_spec hst' (this a ha)
          rw [hp, hd] at this
          exact this
  · -- reduce
    intro s p a pr hpr ⟨st, hst, it, hit, hp, hd, ha⟩ hp0
    have := forStates_spec hR hst
    rw [List.all_eq_true] at this
    have := this it hit
    rw [hp, hpr] at this
    simp only [hd, bne_self_eq_false, Bool.false_or] at this
    have hne : (p == 0) = false := by simp [hp0]
    simp only [hne, Bool.false_eq_true, ↓reduceIte, List.all_eq_true] at this
    have := this a ha
    simpa using this
  · -- accept
    intro s pr hpr ⟨st, hst, it, hit, hp, hd⟩
    have := forStates_spec hR hst
    rw [List.all_eq_true] at this
    have := this it hit
    rw [hp, hpr] at this
    simp only [hd, bne_self_eq_false, Bool.false_or, beq_self_eq_true, ↓reduceIte] at this
    simpa using this
  · -- det
    intro s a
    unfold Table.cell
    split
    · rename_i st hst
      have := forStates_spec hD hst
      rw [List.all_eq_true] at this
      rcases Nat.lt_or_ge a st.actions.size with h' | h'
      · have := this a (List.mem_range.mpr h')
        simpa using this
      · simp [Array.getD_eq_getD_getElem?, Array.getElem?_eq_none h']
    · simp
  · -- start
    split at hG4
    · rename_i st hst
      exact hasItemLAB_spec hst hG4
    · simp at hG4

end Rustemo
