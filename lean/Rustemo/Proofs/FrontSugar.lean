import Rustemo.Proofs.FrontResolve
import Rustemo.Proofs.FrontLang
/-!
# The helper rule of every use of repetition sugar, in the built grammar

`helper_core`: for a regular file whose uses name their helpers unambiguously and apart from rule
and terminal names, the built grammar has a nonterminal named `u.helper` whose productions are
exactly the two documented right-hand sides (as resolved symbols).
-/
namespace Rustemo.Front

/-! ## every use gets its helper entry -/

theorem closed_has (fx : Fixes) (n : Name) (u : Use) : Closed fx (fun s => hasNt s.1.nts n = true) u := by
  intro s hs habs
  obtain ⟨nt, hf⟩ := findNt_of_mem (hasNt_true.mp hs)
  have := closed_find fx n nt u s hf habs
  unfold hasNt
  rw [this]
  rfl

theorem ensureUses_present {cx : Ctx} : ∀ {us : List Use} {s s' : Acc}, ensureUses cx us s = .ok s' →
    ∀ u, u ∈ us → hasNt s'.1.nts (u.helper cx.fx) = true
  | [], _, _, _, u, hu => by simp at hu
  | v :: vs, s, s', h, u, hu => by
    unfold ensureUses at h
    obtain ⟨s1, h1, h2⟩ := Outcome.bind_eq_ok.mp h
    rcases List.mem_cons.mp hu with rfl | hu
    · have hs1 : hasNt s1.1.nts (u.helper cx.fx) = true := by
        rw [ensureUse_eq h1]
        by_cases hn : hasNt s.1.nts (u.helper cx.fx) = true
        · simp [hn]
        · have hn' : hasNt s.1.nts (u.helper cx.fx) = false := by simpa using hn
          simp only [hn', Bool.false_eq_true, if_false]
          obtain ⟨ann, r0, r1, e⟩ := createUse_eq cx.fx u s
          rw [e]
          show hasNt (insertNt _ s.1.nts) _ = true
          rw [insertNt_absent hn']
          exact hasNt_append_single s.1.nts
            { idx := s.1.nextNt, name := u.helper cx.fx, annotation := ann, prods := [s.1.nextProd, s.1.nextProd + 1] }
      exact ensureUses_pres (P := fun s => hasNt s.1.nts (u.helper cx.fx) = true)
        (fun w _ => closed_has cx.fx _ w) hs1 h2
    · exact ensureUses_present h2 u hu

theorem desugar_present {cx : Ctx} {r : SymRef} {s : Acc} {res : Option GSym × Acc}
    (h : desugar cx r s = .ok res) : ∀ u, u ∈ r.uses cx.matchesMap → hasNt res.2.1.nts (u.helper cx.fx) = true := by
  intro u hu
  cases hr : r.rep with
  | none =>
    unfold SymRef.uses at hu
    rw [hr] at hu
    simp at hu
  | some o =>
    obtain ⟨x, hb, hd, _⟩ := desugar_some hr h
    have huse : r.uses cx.matchesMap = opUses x r.sep o.op := by
      unfold SymRef.uses
      rw [hr, hb]
    rw [huse] at hu
    unfold desugarOp at hd
    cases hop : o.op with
    | zeroOrMore | oneOrMore | optional =>
      rw [hop] at hd hu
      obtain ⟨s1, h1, h2⟩ := Outcome.bind_eq_ok.mp hd
      cases h2
      exact ensureUses_present h1 u hu
    | zeroOrMoreGreedy | oneOrMoreGreedy | optionalGreedy =>
      rw [hop] at hu
      simp [opUses] at hu

theorem rhsSteps_present {cx : Ctx} : ∀ {as : List Assign} {s : Acc} {res : List RAssign × Acc},
    rhsSteps cx as s = .ok res → ∀ a, a ∈ as → ∀ u, u ∈ a.symRef.uses cx.matchesMap →
      hasNt res.2.1.nts (u.helper cx.fx) = true
  | [], _, _, _, a, ha => by simp at ha
  | b :: bs, s, res, h, a, ha => by
    unfold rhsSteps at h
    obtain ⟨r1, h1, h⟩ := Outcome.bind_eq_ok.mp h
    obtain ⟨r2, h2, h⟩ := Outcome.bind_eq_ok.mp h
    cases h
    intro u hu
    rcases List.mem_cons.mp ha with rfl | ha
    · obtain ⟨d, hd, e, _⟩ := assignStep_state h1
      have := desugar_present hd u hu
      rw [← e] at this
      exact rhsSteps_pres (cx := cx) (as := bs) (res := r2) (P := fun s => hasNt s.1.nts (u.helper cx.fx) = true)
        (fun _ _ w _ => closed_has cx.fx _ w) this h2
    · exact rhsSteps_present h2 a ha u hu

theorem altStep_present {cx : Ctx} {rule : Rule} {ntIdx j : Nat} {alt : Alt} {st st' : XSt}
    (h : altStep cx rule ntIdx j alt st = .ok st') :
    ∀ u, u ∈ altUses cx.matchesMap alt → hasNt st'.nts (u.helper cx.fx) = true := by
  intro u hu
  unfold altUses at hu
  obtain ⟨a, ha, hua⟩ := List.mem_flatMap.mp hu
  unfold altStep at h
  simp only at h
  obtain ⟨res, h1, h⟩ := Outcome.bind_eq_ok.mp h
  obtain ⟨_, _, h⟩ := Outcome.bind_eq_ok.mp h
  cases h
  have hp := rhsSteps_present h1 a ha u hua
  obtain ⟨nt0, hf0⟩ := findNt_of_mem (hasNt_true.mp hp)
  show hasNt (if hasNt res.2.1.nts rule.name = true then _ else _) _ = true
  split
  · unfold hasNt
    rw [findNt_pushProd hf0]
    rfl
  · unfold hasNt
    rw [findNt_append_left _ hf0]
    rfl

theorem altSteps_present {cx : Ctx} {rule : Rule} {ntIdx : Nat} :
    ∀ {alts : List Alt} {j : Nat} {st st' : XSt}, altSteps cx rule ntIdx j alts st = .ok st' →
      ∀ a, a ∈ alts → ∀ u, u ∈ altUses cx.matchesMap a → hasNt st'.nts (u.helper cx.fx) = true
  | [], _, _, _, _, a, ha => by simp at ha
  | b :: bs, j, st, st', h, a, ha => by
    unfold altSteps at h
    obtain ⟨st1, h1, h2⟩ := Outcome.bind_eq_ok.mp h
    intro u hu
    rcases List.mem_cons.mp ha with rfl | ha
    · exact altSteps_keeps (altStep_present h1 u hu) h2
    · exact altSteps_present h2 a ha u hu

theorem ruleSteps_present {cx : Ctx} :
    ∀ {rules : List Rule} {st st' : XSt}, ruleSteps cx rules st = .ok st' →
      ∀ u, u ∈ rulesUses cx.matchesMap rules → hasNt st'.nts (u.helper cx.fx) = true
  | [], _, _, _, u, hu => by simp [rulesUses] at hu
  | r :: rs, st, st', h, u, hu => by
    unfold ruleSteps at h
    obtain ⟨st1, h1, h2⟩ := Outcome.bind_eq_ok.mp h
    unfold rulesUses at hu
    simp only [List.flatMap_cons, List.mem_append] at hu
    rcases hu with hu | hu
    · apply ruleSteps_keeps _ h2
      unfold ruleUses at hu
      obtain ⟨a, ha, hua⟩ := List.mem_flatMap.mp hu
      rcases ruleStep_ok h1 with ⟨nt, hf, h1⟩ | ⟨hf, h1⟩
      · exact altSteps_present h1 a ha u hua
      · exact altSteps_present h1 a ha u hua
    · exact ruleSteps_present h2 u hu

/-! ## uses of the file = uses met while the rules are processed -/

theorem mem_file_uses {fx : Fixes} {f : File} {u : Use} :
    u ∈ f.uses fx ↔ u ∈ rulesUses (staticMatches fx f) f.ruleList := by
  unfold File.uses File.sugarRefs File.allAssigns File.allAlts rulesUses ruleUses altUses
  simp only [List.mem_flatMap, List.mem_map, List.mem_filter]
  constructor
  · rintro ⟨r, ⟨a, ⟨⟨alt, ⟨rule, hrule, halt⟩, ha⟩, hf⟩, rfl⟩, hu⟩
    exact ⟨rule, hrule, alt, halt, a, ⟨ha, hf⟩, hu⟩
  · rintro ⟨rule, hrule, alt, halt, a, ⟨ha, hf⟩, hu⟩
    exact ⟨a.symRef, ⟨a, ⟨⟨alt, ⟨rule, hrule, halt⟩, ha⟩, hf⟩, rfl⟩, hu⟩

/-! ## from names to symbols -/

def Use.names0 (fx : Fixes) (u : Use) : List Name :=
  match u.kind with
  | .opt => [u.base]
  | .one =>
    match u.sep with
    | none => [u.helper fx, u.base]
    | some sp => [u.helper fx, sp, u.base]
  | .zero => [helperName fx u.base .oneOrMore u.sep]

def Use.names1 (u : Use) : List Name :=
  match u.kind with
  | .opt => []
  | .one => [u.base]
  | .zero => []

theorem Use.rhs0_eq (fx : Fixes) (u : Use) : u.rhs0 fx = (u.names0 fx).map resolving := by
  unfold Use.rhs0 Use.names0 oneRhs0
  cases u.kind with
  | opt => rfl
  | zero => rfl
  | one => cases u.sep <;> rfl

theorem Use.rhs1_eq (u : Use) : u.rhs1 = u.names1.map resolving := by
  unfold Use.rhs1 Use.names1
  cases u.kind <;> rfl

theorem all2_mem {α β : Type} {R : α → β → Prop} : ∀ {l : List α} {l' : List β}, All2 R l l' →
    ∀ a, a ∈ l → ∃ b, b ∈ l' ∧ R a b
  | [], _, _, a, ha => by simp at ha
  | x :: xs, _, h, a, ha => by
    cases h with
    | cons hr t =>
      rcases List.mem_cons.mp ha with rfl | ha
      · exact ⟨_, by simp, hr⟩
      · obtain ⟨b, hb, r⟩ := all2_mem t a ha
        exact ⟨b, by simp [hb], r⟩

/-- symbols a list of plain name references resolves to -/
theorem syms_of_names {mm : SMap (Name × Nat)} {terms : SMap Term} {nts : List NonTerm} :
    ∀ {ns : List Name} {rhs' : List RAssign}, All2 (ResOk mm terms nts) (ns.map resolving) rhs' →
      All2 (fun n s => resName terms nts n = some s) ns (rhs'.map RAssign.symbol)
  | [], _, h => by
    cases h
    exact .nil
  | n :: ns, _, h => by
    cases h with
    | cons hr t =>
      rename_i b l'
      refine .cons ?_ (syms_of_names t)
      obtain ⟨_, _, _, h4⟩ := hr
      obtain ⟨hsome, he⟩ := (h4 rfl).1 n rfl
      unfold RAssign.symbol
      cases hi : b.index with
      | none => rw [hi] at hsome; cases hsome
      | some i =>
        rw [hi] at he
        simpa using he.symm

/-- core: the helper nonterminal of a use, with exactly the documented (resolved) right-hand sides -/
theorem helper_core {fx : Fixes} {f : File} {g : Grammar} (hr : Regular fx f)
    (hU : UsesOk fx (f.uses fx) (ruleNamesOf f))
    (hT : ∀ u, u ∈ f.uses fx → u.helper fx ∉ kSTOP :: termNamesOf f)
    (h : build fx f = .ok g) (F : Facts fx f g) (u : Use) (hu : u ∈ f.uses fx) :
    ∃ (nt : NonTerm) (s0 s1 : List Nat), g.nonterminals[nt.idx]? = some nt ∧ nt.name = u.helper fx ∧ nt.annotation = u.ann ∧
      HasExactly g nt.idx [s0, s1] ∧
      resName F.ts.terms F.st.nts (u.helper fx) = some (g.nT + nt.idx) ∧
      All2 (fun n s => resName F.ts.terms F.st.nts n = some s) (u.names0 fx) s0 ∧
      All2 (fun n s => resName F.ts.terms F.st.nts n = some s) u.names1 s1 := by
  have hcons := build_consistent hr h
  have hrl : f.ruleList = F.r0 :: F.rs := by simp [File.ruleList, F.hrules]
  have hmm : staticMatches fx f = (ctxOf fx f F.ts).matchesMap := staticMatches_eq F.hts
  have hsub : ∀ v, v ∈ rulesUses (ctxOf fx f F.ts).matchesMap (F.r0 :: F.rs) → v ∈ f.uses fx := by
    intro v hv
    rw [mem_file_uses, hmm, hrl]
    exact hv
  have hrn : ∀ r, r ∈ F.r0 :: F.rs → r.name ∈ ruleNamesOf f := by
    intro r hrm
    unfold ruleNamesOf
    rw [F.hrules]
    exact List.mem_map_of_mem hrm
  have hH := extract_helpers (cx := ctxOf fx f F.ts) hU hrn hsub F.hext
  -- the entry exists
  have hpres : hasNt F.st.nts (u.helper fx) = true := by
    have hext := F.hext
    unfold extract at hext
    simp only at hext
    have hu' : u ∈ rulesUses (ctxOf fx f F.ts).matchesMap (F.r0 :: F.rs) := by
      rw [← hmm, ← hrl, ← mem_file_uses]
      exact hu
    exact ruleSteps_present hext u hu'
  obtain ⟨nt0, hf0⟩ := findNt_of_mem (hasNt_true.mp hpres)
  obtain ⟨hm0, hname0⟩ := findNt_some hf0
  obtain ⟨pa, pb, hpa, hpb, hprods, hra, hrb, hna, hnb, hann, _⟩ := hH nt0 hm0 u hu hname0
  -- in the built grammar
  obtain ⟨y, hy, hyn, hyp, hya, hyi⟩ := F.nt_at hm0
  have hres := resolve_spec F.hres1 F.hres2
  obtain ⟨pa', hpa', rhsa, ea, ra⟩ := all2_mem hres pa hpa
  obtain ⟨pb', hpb', rhsb, eb, rb⟩ := all2_mem hres pb hpb
  rw [hra, Use.rhs0_eq] at ra
  rw [hrb, Use.rhs1_eq] at rb
  have sa := syms_of_names ra
  have sb := syms_of_names rb
  have hnT := F.nT_eq
  refine ⟨y, rhsa.map RAssign.symbol, rhsb.map RAssign.symbol, by rw [hyi]; exact hy, hyn.trans hname0,
    hya.trans hann, ?_, ?_, sa, sb⟩
  · -- exactly these two
    constructor
    · intro p hp hpn
      have hlist := hcons.lists y (List.mem_of_getElem? hy)
      rw [hyp, hprods, hyi] at hlist
      have hpi : p.idx ∈ idxsOf g.prods nt0.idx := by
        unfold idxsOf
        apply List.mem_map.mpr
        refine ⟨p, List.mem_filter.mpr ⟨hp, ?_⟩, rfl⟩
        rw [hyi] at hpn
        simpa using hpn
      rw [← hlist] at hpi
      -- same index, same production
      have same : ∀ q, q ∈ g.prods → q.idx = p.idx → q = p := by
        intro q hq e
        obtain ⟨i, hi⟩ := List.getElem?_of_mem hq
        obtain ⟨k, hk⟩ := List.getElem?_of_mem hp
        have h1 := hcons.prods i q hi
        have h2 := hcons.prods k p hk
        have : i = k := by omega
        subst this
        rw [hi] at hk
        cases hk
        rfl
      simp only [List.mem_cons, List.mem_nil_iff, or_false] at hpi ⊢
      rcases hpi with e | e
      · left
        have : pa' = p := same pa' hpa' (by rw [ea]; exact e.symm)
        rw [← this, ea]
        rfl
      · right
        have : pb' = p := same pb' hpb' (by rw [eb]; exact e.symm)
        rw [← this, eb]
        rfl
    · intro r hrm
      simp only [List.mem_cons, List.mem_nil_iff, or_false] at hrm
      rcases hrm with rfl | rfl
      · exact ⟨pa', hpa', by rw [ea, hyi]; exact hna, by rw [ea]; rfl⟩
      · exact ⟨pb', hpb', by rw [eb, hyi]; exact hnb, by rw [eb]; rfl⟩
  · -- the helper's own name resolves to its nonterminal
    unfold resName
    have hnot : F.ts.terms.get? (u.helper fx) = none := by
      apply SMap.get?_none_iff.mpr
      intro hk
      exact hT u hu ((F.tkeys _).mp hk)
    rw [hnot, hf0]
    simp only [Option.map_some]
    rw [hnT, hyi]
    congr 1
    omega

end Rustemo.Front
