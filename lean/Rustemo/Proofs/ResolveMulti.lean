import Rustemo.Proofs.ResolveTops
/-!
# Any number of candidates: the repaired algorithm computes the documented two-phase rule
-/
set_option linter.unusedSimpArgs false
namespace Rustemo.Resolve
open Rustemo

def bonus (cfg : Cfg) (info : Nat → PInfo) (r : Red) : Nat :=
  if !cfg.glr && !((info r.prod).len == 0) then 1 else 0

/-- rank of a reduction among reductions: priority, then (LR only) non-empty before EMPTY -/
def rkey (cfg : Cfg) (info : Nat → PInfo) (r : Red) : Nat := 2 * (info r.prod).prio + bonus cfg info r

theorem bonus_le (cfg : Cfg) (info : Nat → PInfo) (r : Red) : bonus cfg info r ≤ 1 := by
  unfold bonus; split <;> omega

theorem rrBeats_key (cfg : Cfg) (info : Nat → PInfo) (a b : Red) :
    Doc.rrBeats cfg (candOf info a) (candOf info b) = decide (rkey cfg info b < rkey cfg info a) := by
  unfold Doc.rrBeats rkey bonus candOf
  simp only
  generalize (info a.prod).prio = pa
  generalize (info b.prod).prio = pb
  rw [Bool.eq_iff_iff]
  rcases Nat.lt_trichotomy pa pb with h | h | h
  · rw [Nat.compare_eq_lt.mpr h]
    simp only [Doc.resolveRR, decide_eq_true_eq]
    constructor
    · intro h'; exact absurd h' (by decide)
    · intro h'; exfalso; revert h'; split <;> split <;> omega
  · rw [Nat.compare_eq_eq.mpr h, h]
    cases cfg.glr <;> cases ((info a.prod).len == 0) <;> cases ((info b.prod).len == 0) <;>
      simp [Doc.resolveRR]
  · rw [Nat.compare_eq_gt.mpr h]
    simp only [Doc.resolveRR, decide_eq_true_eq]
    constructor
    · intro _; split <;> split <;> omega
    · intro _; decide

/-- the documented survivors of the REDUCE/REDUCE phase are the reductions of maximal rank -/
theorem doc_rr_tops (cfg : Cfg) (info : Nat → PInfo) (S : List Red) :
    ((S.map (candOf info)).filter (fun c => (S.map (candOf info)).all (fun c' => !Doc.rrBeats cfg c' c))).map (·.act)
      = (tops (rkey cfg info) S).map Red.act := by
  rw [List.filter_map, List.map_map]
  unfold tops
  have : ((fun c => (S.map (candOf info)).all (fun c' => !Doc.rrBeats cfg c' c)) ∘ candOf info) =
      (fun x => S.all (fun y => decide (rkey cfg info y ≤ rkey cfg info x))) := by
    funext x
    simp only [Function.comp, List.all_map]
    apply congrArg (fun f => List.all S f)
    funext y
    show (!Doc.rrBeats cfg (candOf info y) (candOf info x)) = _
    rw [rrBeats_key, Bool.eq_iff_iff]
    simp [Nat.not_lt]
  rw [this]
  rfl

/-! ## The REDUCE/REDUCE part on reductions instead of actions -/

/-- `rrStep` (with C05-fix-3) seen on the list of reductions the cell holds -/
def rrAbs (cfg : Cfg) (info : Nat → PInfo) (r : Red) (K : List Red) : List Red :=
  if K.isEmpty then K ++ [r]
  else if K.all (fun x => decide ((info r.prod).prio < (info x.prod).prio)) then K
  else if K.all (fun x => decide ((info r.prod).prio > (info x.prod).prio)) then [r]
  else if cfg.glr then K ++ [r]
  else if (info r.prod).len > 0 then K.filter (fun x => !(x.pos == 0)) ++ [r]
  else if K.all (fun x => x.pos == 0) then K ++ [r]
  else K

theorem filter_pre {p : Action → Bool} {pre : List Action} (h : ∀ a ∈ pre, p a = true) :
    pre.filter p = pre := List.filter_eq_self.mpr h

theorem filter_notReduce_acts (K : List Red) :
    (K.map Red.act).filter (fun a => !isReduce a) = [] := by
  apply List.filter_eq_nil_iff.mpr
  intro a ha
  obtain ⟨x, _, rfl⟩ := List.mem_map.mp ha
  simp [Red.act]

theorem filter_shiftLike_acts (K : List Red) :
    (K.map Red.act).filter isShiftLike = [] := by
  apply List.filter_eq_nil_iff.mpr
  intro a ha
  obtain ⟨x, _, rfl⟩ := List.mem_map.mp ha
  simp [Red.act]

theorem filter_notShiftLike_acts (K : List Red) :
    (K.map Red.act).filter (fun a => !isShiftLike a) = K.map Red.act := by
  apply List.filter_eq_self.mpr
  intro a ha
  obtain ⟨x, _, rfl⟩ := List.mem_map.mp ha
  simp [Red.act]

theorem filter_notEmpty_acts (K : List Red) :
    (K.map Red.act).filter (fun a => !isEmptyReduce a) =
      (K.filter (fun x => !(x.pos == 0))).map Red.act := by
  rw [List.filter_map]
  rfl

theorem rrStep_acts (fx : Fixes) (h3 : fx.emptyRR = true) (cfg : Cfg) (info : Nat → PInfo) (r : Red)
    (pre : List Action) (hpre : ∀ a ∈ pre, isShiftLike a = true) (K : List Red) :
    rrStep fx cfg info r (K.map Red.act) (pre ++ K.map Red.act) =
      pre ++ (rrAbs cfg info r K).map Red.act := by
  have hpre1 : pre.filter (fun a => !isReduce a) = pre :=
    filter_pre (fun a ha => by
      cases a with
      | reduce p l => exact absurd (hpre _ ha) (by simp)
      | shift s => rfl
      | accept => rfl)
  have hpre2 : pre.filter (fun a => !isEmptyReduce a) = pre :=
    filter_pre (fun a ha => by
      cases a with
      | reduce p l => exact absurd (hpre _ ha) (by simp)
      | shift s => rfl
      | accept => rfl)
  unfold rrStep rrAbs rrLR
  simp only [List.isEmpty_map, List.map_map, List.all_map, h3, if_true]
  have e1 : ((fun x => decide ((info r.prod).prio < x)) ∘ actPrio info ∘ Red.act) =
      (fun x => decide ((info r.prod).prio < (info x.prod).prio)) := rfl
  have e2 : ((fun x => decide ((info r.prod).prio > x)) ∘ actPrio info ∘ Red.act) =
      (fun x => decide ((info r.prod).prio > (info x.prod).prio)) := rfl
  have e3 : (isEmptyReduce ∘ Red.act) = (fun x : Red => x.pos == 0) := rfl
  rw [e1, e2, e3]
  split
  · simp [Red.act, List.append_assoc]
  · split
    · rfl
    · split
      · simp [List.filter_append, hpre1, filter_notReduce_acts, Red.act]
      · split
        · simp [Red.act, List.append_assoc]
        · split
          · simp [List.filter_append, hpre2, filter_notEmpty_acts, Red.act, List.append_assoc]
          · split
            · simp [Red.act, List.append_assoc]
            · rfl

end Rustemo.Resolve

namespace Rustemo.Resolve
open Rustemo

theorem all_true_of {α} {p : α → Bool} {l : List α} (h : ∀ x ∈ l, p x = true) : l.all p = true :=
  List.all_eq_true.mpr h

theorem all_false_of {α} {p : α → Bool} {l : List α} {x : α} (hx : x ∈ l) (h : p x = false) :
    l.all p = false := by
  apply Bool.eq_false_iff.mpr
  intro hall
  have := List.all_eq_true.mp hall x hx
  rw [h] at this; cases this

/-- **The incremental REDUCE/REDUCE part keeps exactly the reductions of maximal rank.** -/
theorem rrAbs_tops (cfg : Cfg) (info : Nat → PInfo) (S : List Red) (r : Red) (hpos : PosOk info S) :
    rrAbs cfg info r (tops (rkey cfg info) S) = tops (rkey cfg info) (S ++ [r]) := by
  by_cases hS : S = []
  · subst hS; simp [rrAbs, tops]
  · have hK : tops (rkey cfg info) S ≠ [] := tops_ne_nil hS
    obtain ⟨x0, hx0⟩ := List.exists_mem_of_ne_nil _ hK
    have hkey : ∀ x ∈ tops (rkey cfg info) S, rkey cfg info x = rkey cfg info x0 :=
      fun x hx => tops_key_eq hx hx0
    have hprio : ∀ x ∈ tops (rkey cfg info) S, (info x.prod).prio = (info x0.prod).prio ∧
        bonus cfg info x = bonus cfg info x0 := by
      intro x hx
      have := hkey x hx
      have := bonus_le cfg info x
      have := bonus_le cfg info x0
      unfold rkey at *
      omega
    have hsub : ∀ x ∈ tops (rkey cfg info) S, x ∈ S := fun x hx => (mem_tops.mp hx).1
    unfold rrAbs
    rw [if_neg (by simpa using hK)]
    rcases Nat.lt_trichotomy (info r.prod).prio (info x0.prod).prio with hlt | heq | hgt
    · -- lower priority: dropped
      rw [if_pos (all_true_of (fun x hx => by have := (hprio x hx).1; simp; omega))]
      symm
      apply tops_snoc_lt hx0
      have := bonus_le cfg info r
      unfold rkey; omega
    · -- equal priority
      rw [if_neg (by rw [all_false_of hx0 (by simp; omega)]; simp)]
      rw [if_neg (by rw [all_false_of hx0 (by simp; omega)]; simp)]
      cases hg : cfg.glr
      · simp only [Bool.false_eq_true, if_false]
        have hb : ∀ x, bonus cfg info x = if (info x.prod).len == 0 then 0 else 1 := by
          intro x; unfold bonus; rw [hg]; cases ((info x.prod).len == 0) <;> rfl
        by_cases hr : (info r.prod).len > 0
        · rw [if_pos hr]
          have hbr : bonus cfg info r = 1 := by
            rw [hb]; have : ((info r.prod).len == 0) = false := by simp; omega
            rw [this]; rfl
          rcases Bool.eq_false_or_eq_true ((info x0.prod).len == 0) with h0 | h0
          · -- the cell holds EMPTY reductions: evicted
            have hf : (tops (rkey cfg info) S).filter (fun x => !(x.pos == 0)) = [] := by
              apply List.filter_eq_nil_iff.mpr
              intro x hx
              have h1 := (hprio x hx).2
              rw [hb, hb, h0] at h1
              rw [hpos x (hsub x hx)]
              cases hl : ((info x.prod).len == 0)
              · rw [hl] at h1; simp at h1
              · simp
            rw [hf]
            symm
            simp only [List.nil_append]
            apply tops_snoc_gt
            intro x hx
            have h1 := hprio x hx
            have h2 : bonus cfg info x0 = 0 := by rw [hb, h0]; rfl
            unfold rkey; omega
          · -- the cell holds non-empty reductions: joined
            have hf : (tops (rkey cfg info) S).filter (fun x => !(x.pos == 0)) = tops (rkey cfg info) S := by
              apply List.filter_eq_self.mpr
              intro x hx
              have h1 := (hprio x hx).2
              rw [hb, hb, h0] at h1
              rw [hpos x (hsub x hx)]
              cases hl : ((info x.prod).len == 0)
              · rfl
              · rw [hl] at h1; simp at h1
            rw [hf]
            symm
            apply tops_snoc_eq
            intro x hx
            have h1 := hprio x hx
            have h2 : bonus cfg info x0 = 1 := by rw [hb, h0]; rfl
            unfold rkey; omega
        · rw [if_neg hr]
          have hbr : bonus cfg info r = 0 := by
            rw [hb]; have : ((info r.prod).len == 0) = true := by simp; omega
            rw [this]; rfl
          rcases Bool.eq_false_or_eq_true ((info x0.prod).len == 0) with h0 | h0
          · -- all EMPTY: unresolvable, joined
            rw [if_pos (all_true_of (fun x hx => by
              have h1 := (hprio x hx).2
              rw [hb, hb, h0] at h1
              rw [hpos x (hsub x hx)]
              cases hl : ((info x.prod).len == 0)
              · rw [hl] at h1; simp at h1
              · rfl))]
            symm
            apply tops_snoc_eq
            intro x hx
            have h1 := hprio x hx
            have h2 : bonus cfg info x0 = 0 := by rw [hb, h0]; rfl
            unfold rkey; omega
          · -- non-empty reductions are preferred: the new EMPTY one is dropped
            rw [if_neg (by
              rw [all_false_of hx0 (by rw [hpos x0 (hsub x0 hx0)]; exact h0)]; simp)]
            symm
            apply tops_snoc_lt hx0
            have h2 : bonus cfg info x0 = 1 := by rw [hb, h0]; rfl
            unfold rkey; omega
      · simp only [if_true]
        have hb : ∀ x, bonus cfg info x = 0 := by
          intro x; unfold bonus; rw [hg]; rfl
        symm
        apply tops_snoc_eq
        intro x hx
        have h1 := hprio x hx
        unfold rkey; rw [hb, hb]; omega
    · -- higher priority: replaces
      rw [if_neg (by rw [all_false_of hx0 (by simp; omega)]; simp)]
      rw [if_pos (all_true_of (fun x hx => by have := (hprio x hx).1; simp; omega))]
      symm
      apply tops_snoc_gt
      intro x hx
      have h1 := hprio x hx
      have := bonus_le cfg info x0
      unfold rkey; omega

end Rustemo.Resolve
