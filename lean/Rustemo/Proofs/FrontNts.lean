import Rustemo.Proofs.FrontGen
import Rustemo.Proofs.FrontSort
/-!
# The `nonterminals` map while rules are processed

`NtsInv pend st`: names pairwise different, indices pairwise different and `< next_nonterm_idx`,
production lists inside the production counter, and — the point — every index handed out by
`get_nonterm_idx` belongs to exactly one entry, except the one reserved (`pend`) for the rule whose
first alternative is being processed.  This needs that no helper created meanwhile has the rule's
name (class `helperCapture`); a rule named like its own helper (`A1: … A+ …`) leaves its index
unassigned for good.
-/
namespace Rustemo.Front

def ntNames (nts : List NonTerm) : List Name := nts.map (·.name)
def ntIdxs (nts : List NonTerm) : List Nat := nts.map (·.idx)

theorem findNt_some {nts : List NonTerm} {n : Name} {nt : NonTerm} (h : findNt nts n = some nt) :
    nt ∈ nts ∧ nt.name = n := by
  unfold findNt at h
  have h1 := List.mem_of_find?_eq_some h
  have h2 := List.find?_some h
  exact ⟨h1, by simpa using h2⟩

theorem findNt_none {nts : List NonTerm} {n : Name} (h : findNt nts n = none) : n ∉ ntNames nts := by
  unfold findNt at h
  intro hm
  obtain ⟨x, hx, e⟩ := List.mem_map.mp hm
  have := List.find?_eq_none.mp h x hx
  simp [e] at this

theorem findNt_of_mem {nts : List NonTerm} {n : Name} (h : n ∈ ntNames nts) : ∃ nt, findNt nts n = some nt := by
  cases hf : findNt nts n with
  | some nt => exact ⟨nt, rfl⟩
  | none => exact absurd h (findNt_none hf)

theorem hasNt_false {nts : List NonTerm} {n : Name} : hasNt nts n = false ↔ n ∉ ntNames nts := by
  unfold hasNt
  constructor
  · intro h
    cases hf : findNt nts n with
    | some nt => simp [hf] at h
    | none => exact findNt_none hf
  · intro h
    cases hf : findNt nts n with
    | some nt => exact absurd (by
        have := findNt_some hf
        exact List.mem_map.mpr ⟨nt, this.1, this.2⟩) h
    | none => rfl

theorem hasNt_true {nts : List NonTerm} {n : Name} : hasNt nts n = true ↔ n ∈ ntNames nts := by
  constructor
  · intro h
    by_cases hm : n ∈ ntNames nts
    · exact hm
    · rw [hasNt_false.mpr hm] at h
      cases h
  · intro h
    cases hh : hasNt nts n with
    | true => rfl
    | false => exact absurd h (hasNt_false.mp hh)

theorem insertNt_absent {nt : NonTerm} {nts : List NonTerm} (h : hasNt nts nt.name = false) :
    insertNt nt nts = nts ++ [nt] := by
  unfold insertNt
  simp [h]

theorem findNt_append_left {nts : List NonTerm} {n : Name} {nt : NonTerm} (x : List NonTerm)
    (h : findNt nts n = some nt) : findNt (nts ++ x) n = some nt := by
  unfold findNt at *
  rw [List.find?_append, h]
  rfl

theorem findNt_append_right {nts : List NonTerm} {n : Name} (x : List NonTerm)
    (h : findNt nts n = none) : findNt (nts ++ x) n = findNt x n := by
  unfold findNt at *
  rw [List.find?_append, h]
  rfl

theorem ntNames_pushProd (n : Name) (k : Nat) (nts : List NonTerm) : ntNames (pushProd n k nts) = ntNames nts := by
  unfold ntNames pushProd
  rw [List.map_map]
  apply List.map_congr_left
  intro x _
  simp only [Function.comp]
  split <;> rfl

theorem ntIdxs_pushProd (n : Name) (k : Nat) (nts : List NonTerm) : ntIdxs (pushProd n k nts) = ntIdxs nts := by
  unfold ntIdxs pushProd
  rw [List.map_map]
  apply List.map_congr_left
  intro x _
  simp only [Function.comp]
  split <;> rfl

theorem mem_pushProd {n : Name} {k : Nat} {nts : List NonTerm} {y : NonTerm} (h : y ∈ pushProd n k nts) :
    ∃ x, x ∈ nts ∧ y.name = x.name ∧ y.idx = x.idx ∧ y.annotation = x.annotation ∧
      (y.prods = x.prods ∨ (x.name = n ∧ y.prods = x.prods ++ [k])) := by
  unfold pushProd at h
  obtain ⟨x, hx, e⟩ := List.mem_map.mp h
  refine ⟨x, hx, ?_⟩
  split at e
  · rename_i hn
    subst e
    exact ⟨rfl, rfl, rfl, Or.inr ⟨by simpa using hn, rfl⟩⟩
  · subst e
    exact ⟨rfl, rfl, rfl, Or.inl rfl⟩

theorem findNt_pushProd {n m : Name} {k : Nat} {nts : List NonTerm} {nt : NonTerm} (h : findNt nts m = some nt) :
    findNt (pushProd n k nts) m = some (if nt.name == n then { nt with prods := nt.prods ++ [k] } else nt) := by
  unfold findNt pushProd at *
  induction nts with
  | nil => simp at h
  | cons x xs ih =>
    simp only [List.map_cons, List.find?_cons] at *
    by_cases hx : (x.name == m) = true
    · simp only [hx] at h
      cases h
      by_cases hn : (nt.name == n) = true
      · simp [hn, hx]
      · simp [hn, hx]
    · have hx' : (x.name == m) = false := by simpa using hx
      simp only [hx'] at h
      have : ((if (x.name == n) = true then { x with prods := x.prods ++ [k] } else x).name == m) = false := by
        split <;> exact hx'
      simp only [this]
      exact ih h

/-- `pend = some (n, r)`: rule name `n` has no entry yet, index `r` is reserved for it -/
structure NtsInv (pend : Option (Name × Nat)) (st : XSt) : Prop where
  names : (ntNames st.nts).Nodup
  idxs : (ntIdxs st.nts).Nodup
  bound : ∀ nt, nt ∈ st.nts → nt.idx < st.nextNt
  prodsB : ∀ nt, nt ∈ st.nts → ∀ p, p ∈ nt.prods → p < st.nextProd
  pendOk : match pend with
    | none => st.nts.length = st.nextNt
    | some (n, r) => st.nts.length + 1 = st.nextNt ∧ r < st.nextNt ∧ n ∉ ntNames st.nts ∧ r ∉ ntIdxs st.nts

theorem createHelper_nts {pend : Option (Name × Nat)} {s : Acc} {name : Name} {ann : Option Name}
    {r0 r1 : List RAssign} (hi : NtsInv pend s.1) (habs : hasNt s.1.nts name = false)
    (hp : ∀ n r, pend = some (n, r) → name ≠ n) : NtsInv pend (createHelper name ann r0 r1 s).1 := by
  have hnts : (createHelper name ann r0 r1 s).1.nts =
      s.1.nts ++ [{ idx := s.1.nextNt, name := name, annotation := ann, prods := [s.1.nextProd, s.1.nextProd + 1] }] :=
    insertNt_absent (nt := { idx := s.1.nextNt, name := name, annotation := ann, prods := [s.1.nextProd, s.1.nextProd + 1] }) habs
  have hnn : (createHelper name ann r0 r1 s).1.nextNt = s.1.nextNt + 1 := rfl
  have hnp : (createHelper name ann r0 r1 s).1.nextProd = s.1.nextProd + 2 := rfl
  have habs' := hasNt_false.mp habs
  have hfresh : s.1.nextNt ∉ ntIdxs s.1.nts := by
    intro hm
    obtain ⟨x, hx, e⟩ := List.mem_map.mp hm
    have := hi.bound x hx
    omega
  constructor
  · rw [hnts]
    unfold ntNames at *
    rw [List.map_append, List.nodup_append]
    refine ⟨hi.names, by simp, ?_⟩
    intro a ha b hb
    simp at hb
    subst hb
    intro e
    exact habs' (e ▸ ha)
  · rw [hnts]
    unfold ntIdxs at *
    rw [List.map_append, List.nodup_append]
    refine ⟨hi.idxs, by simp, ?_⟩
    intro a ha b hb
    simp at hb
    subst hb
    intro e
    exact hfresh (e ▸ ha)
  · rw [hnts, hnn]
    intro nt hnt
    rcases List.mem_append.mp hnt with h | h
    · exact Nat.lt_succ_of_lt (hi.bound nt h)
    · simp at h
      subst h
      exact Nat.lt_succ_self _
  · rw [hnts, hnp]
    intro nt hnt p hp
    rcases List.mem_append.mp hnt with h | h
    · exact Nat.lt_of_lt_of_le (hi.prodsB nt h p hp) (by omega)
    · simp at h
      subst h
      simp at hp
      omega
  · rw [hnts, hnn]
    have := hi.pendOk
    cases pend with
    | none =>
      simp only at this ⊢
      simp
      exact this
    | some q =>
      obtain ⟨n, r⟩ := q
      simp only at this ⊢
      obtain ⟨h1, h2, h3, h4⟩ := this
      refine ⟨by simp; omega, by omega, ?_, ?_⟩
      · unfold ntNames at *
        rw [List.map_append]
        intro hm
        rcases List.mem_append.mp hm with hm | hm
        · exact h3 hm
        · simp at hm
          exact hp n r rfl hm.symm
      · unfold ntIdxs at *
        rw [List.map_append]
        intro hm
        rcases List.mem_append.mp hm with hm | hm
        · exact h4 hm
        · simp at hm
          omega

theorem createUse_eq (fx : Fixes) (u : Use) (s : Acc) :
    ∃ ann r0 r1, createUse fx u s = createHelper (u.helper fx) ann r0 r1 s := by
  unfold createUse
  cases u.kind
  · exact ⟨_, _, _, rfl⟩
  · exact ⟨_, _, _, rfl⟩
  · exact ⟨_, _, _, rfl⟩

theorem closed_nts (fx : Fixes) (pend : Option (Name × Nat)) (u : Use)
    (hp : ∀ n r, pend = some (n, r) → u.helper fx ≠ n) : Closed fx (fun s => NtsInv pend s.1) u := by
  intro s hs habs
  obtain ⟨ann, r0, r1, e⟩ := createUse_eq fx u s
  rw [e]
  exact createHelper_nts hs habs hp

/-- an entry that exists is never removed or changed by helper creation -/
theorem closed_find (fx : Fixes) (n : Name) (nt : NonTerm) (u : Use) :
    Closed fx (fun s => findNt s.1.nts n = some nt) u := by
  intro s hs habs
  obtain ⟨ann, r0, r1, e⟩ := createUse_eq fx u s
  rw [e]
  show findNt (insertNt _ s.1.nts) n = some nt
  rw [insertNt_absent habs]
  exact findNt_append_left _ hs

/-- the production counter never decreases -/
theorem closed_nextProd (fx : Fixes) (k : Nat) (u : Use) : Closed fx (fun s => k ≤ s.1.nextProd) u := by
  intro s hs _
  obtain ⟨ann, r0, r1, e⟩ := createUse_eq fx u s
  rw [e]
  show k ≤ s.1.nextProd + 2
  omega

theorem closed_and (fx : Fixes) {P Q : Acc → Prop} {u : Use} (hp : Closed fx P u) (hq : Closed fx Q u) :
    Closed fx (fun s => P s ∧ Q s) u :=
  fun s hs habs => ⟨hp s hs.1 habs, hq s hs.2 habs⟩

/-- no use inside the alternative generates the name `n` -/
def AltAvoids (cx : Ctx) (alt : Alt) (n : Name) : Prop :=
  ∀ u, u ∈ altUses cx.matchesMap alt → u.helper cx.fx ≠ n

/-- what the alternative is processed with: the rule's entry, or the reservation for it -/
def PendFor (pend : Option (Name × Nat)) (st : XSt) (name : Name) (ntIdx : Nat) : Prop :=
  match pend with
  | none => ∃ nt, findNt st.nts name = some nt ∧ nt.idx = ntIdx
  | some q => q = (name, ntIdx)

theorem altStep_nts {cx : Ctx} {rule : Rule} {ntIdx j : Nat} {alt : Alt} {st st' : XSt}
    {pend : Option (Name × Nat)} (hi : NtsInv pend st) (hpend : PendFor pend st rule.name ntIdx)
    (hav : AltAvoids cx alt rule.name) (h : altStep cx rule ntIdx j alt st = .ok st') :
    NtsInv none st' ∧ PendFor none st' rule.name ntIdx := by
  unfold altStep at h
  simp only at h
  obtain ⟨res, h1, h⟩ := Outcome.bind_eq_ok.mp h
  obtain ⟨_, _, h⟩ := Outcome.bind_eq_ok.mp h
  cases h
  have hav' : ∀ a, a ∈ alt.assigns.filter (fun a => !a.isUnnamedEmpty) →
      ∀ u, u ∈ a.symRef.uses cx.matchesMap → u.helper cx.fx ≠ rule.name :=
    fun a ha u hu => hav u (List.mem_flatMap.mpr ⟨a, ha, hu⟩)
  -- the invariant and the counter
  have hi1 : NtsInv pend ({ st with nextProd := st.nextProd + 1 } : XSt) :=
    ⟨hi.names, hi.idxs, hi.bound, fun nt hnt p hp => Nat.lt_succ_of_lt (hi.prodsB nt hnt p hp), hi.pendOk⟩
  have hP := rhsSteps_pres (cx := cx) (P := fun s => NtsInv pend s.1 ∧ st.nextProd + 1 ≤ s.1.nextProd)
    (fun a ha u hu => closed_and cx.fx
      (closed_nts cx.fx pend u (fun n r e => by
        cases pend with
        | none => cases e
        | some q =>
          cases e
          have : (n, r) = (rule.name, ntIdx) := hpend
          cases this
          exact hav' a ha u hu))
      (closed_nextProd cx.fx _ u))
    (s := ({ st with nextProd := st.nextProd + 1 }, [])) ⟨hi1, Nat.le_refl _⟩ h1
  obtain ⟨hI, hk⟩ := hP
  cases pend with
  | some q =>
    have : q = (rule.name, ntIdx) := hpend
    subst this
    obtain ⟨c1, c2, c3, c4⟩ := hI.pendOk
    have hno : hasNt res.2.1.nts rule.name = false := hasNt_false.mpr c3
    simp only [hno]
    constructor
    · constructor
      · show (ntNames (res.2.1.nts ++ [_])).Nodup
        unfold ntNames at *
        rw [List.map_append, List.nodup_append]
        refine ⟨hI.names, by simp, ?_⟩
        intro a ha b hb
        simp at hb
        subst hb
        intro e
        exact c3 (e ▸ ha)
      · show (ntIdxs (res.2.1.nts ++ [_])).Nodup
        unfold ntIdxs at *
        rw [List.map_append, List.nodup_append]
        refine ⟨hI.idxs, by simp, ?_⟩
        intro a ha b hb
        simp at hb
        subst hb
        intro e
        exact c4 (e ▸ ha)
      · intro nt hnt
        rcases List.mem_append.mp hnt with hm | hm
        · exact hI.bound nt hm
        · simp at hm
          subst hm
          exact c2
      · intro nt hnt p hp
        rcases List.mem_append.mp hnt with hm | hm
        · exact hI.prodsB nt hm p hp
        · simp at hm
          subst hm
          simp at hp
          subst hp
          exact hk
      · show (res.2.1.nts ++ [_]).length = res.2.1.nextNt
        simp
        exact c1
    · refine ⟨{ idx := ntIdx, name := rule.name, annotation := rule.annotation, prods := [st.nextProd] }, ?_, rfl⟩
      show findNt (res.2.1.nts ++ [_]) rule.name = some _
      rw [findNt_append_right _ (by
        cases hf : findNt res.2.1.nts rule.name with
        | none => rfl
        | some x =>
          have := findNt_some hf
          exact absurd (List.mem_map.mpr ⟨x, this.1, this.2⟩) c3)]
      simp [findNt]
  | none =>
    obtain ⟨nt0, hf0, hidx0⟩ := hpend
    -- the rule's entry survives the helper creations
    have hF := rhsSteps_pres (cx := cx) (P := fun s => findNt s.1.nts rule.name = some nt0)
      (fun a _ u _ => closed_find cx.fx rule.name nt0 u)
      (s := ({ st with nextProd := st.nextProd + 1 }, [])) hf0 h1
    have hyes : hasNt res.2.1.nts rule.name = true := by
      unfold hasNt
      rw [hF]
      rfl
    simp only [hyes]
    constructor
    · constructor
      · show (ntNames (pushProd _ _ _)).Nodup
        rw [ntNames_pushProd]
        exact hI.names
      · show (ntIdxs (pushProd _ _ _)).Nodup
        rw [ntIdxs_pushProd]
        exact hI.idxs
      · intro nt hnt
        obtain ⟨x, hx, _, e, _⟩ := mem_pushProd hnt
        rw [e]
        exact hI.bound x hx
      · intro nt hnt p hp
        obtain ⟨x, hx, _, _, _, e⟩ := mem_pushProd hnt
        rcases e with e | ⟨_, e⟩
        · rw [e] at hp
          exact hI.prodsB x hx p hp
        · rw [e] at hp
          rcases List.mem_append.mp hp with hp | hp
          · exact hI.prodsB x hx p hp
          · simp at hp
            subst hp
            exact hk
      · show (pushProd _ _ _).length = res.2.1.nextNt
        unfold pushProd
        rw [List.length_map]
        exact hI.pendOk
    · refine ⟨_, findNt_pushProd hF, ?_⟩
      split <;> exact hidx0

theorem altSteps_nts {cx : Ctx} {rule : Rule} {ntIdx : Nat} :
    ∀ {alts : List Alt} {j : Nat} {st st' : XSt} {pend : Option (Name × Nat)},
      NtsInv pend st → PendFor pend st rule.name ntIdx → (∀ a, a ∈ alts → AltAvoids cx a rule.name) →
      alts ≠ [] → altSteps cx rule ntIdx j alts st = .ok st' →
      NtsInv none st' ∧ PendFor none st' rule.name ntIdx
  | [], _, _, _, _, _, _, _, hne, _ => absurd rfl hne
  | a :: as, j, st, st', pend, hi, hp, hav, _, h => by
    unfold altSteps at h
    obtain ⟨st1, h1, h2⟩ := Outcome.bind_eq_ok.mp h
    obtain ⟨hi1, hp1⟩ := altStep_nts hi hp (hav a (by simp)) h1
    cases as with
    | nil =>
      cases h2
      exact ⟨hi1, hp1⟩
    | cons b bs =>
      exact altSteps_nts hi1 hp1 (fun x hx => hav x (by simp [hx])) (by simp) h2

/-- no use inside the rule generates the rule's own name -/
def RuleAvoids (cx : Ctx) (rule : Rule) : Prop := ∀ a, a ∈ rule.alts → AltAvoids cx a rule.name

theorem ruleStep_nts {cx : Ctx} {rule : Rule} {st st' : XSt} (hi : NtsInv none st)
    (hav : RuleAvoids cx rule) (hne : rule.alts ≠ []) (h : ruleStep cx rule st = .ok st') :
    NtsInv none st' ∧ ∃ nt, findNt st'.nts rule.name = some nt := by
  rcases ruleStep_ok h with ⟨nt, hf, h⟩ | ⟨hf, h⟩
  · obtain ⟨r1, nt', r2, _⟩ := altSteps_nts (pend := none) hi ⟨nt, hf, rfl⟩ hav hne h
    exact ⟨r1, nt', r2⟩
  · have hi' : NtsInv (some (rule.name, st.nextNt)) ({ st with nextNt := st.nextNt + 1 } : XSt) := by
      refine ⟨hi.names, hi.idxs, fun nt hnt => Nat.lt_succ_of_lt (hi.bound nt hnt), hi.prodsB, ?_⟩
      refine ⟨?_, Nat.lt_succ_self _, findNt_none hf, ?_⟩
      · show st.nts.length + 1 = st.nextNt + 1
        rw [hi.pendOk]
      · intro hm
        obtain ⟨x, hx, e⟩ := List.mem_map.mp hm
        have := hi.bound x hx
        omega
    obtain ⟨r1, nt', r2, _⟩ := altSteps_nts (pend := some (rule.name, st.nextNt)) hi' rfl hav hne h
    exact ⟨r1, nt', r2⟩

/-- an entry, once there, stays (possibly with more productions) -/
theorem altStep_keeps {cx : Ctx} {rule : Rule} {ntIdx j : Nat} {alt : Alt} {st st' : XSt} {n : Name}
    (hn : hasNt st.nts n = true) (h : altStep cx rule ntIdx j alt st = .ok st') : hasNt st'.nts n = true := by
  unfold altStep at h
  simp only at h
  obtain ⟨res, h1, h⟩ := Outcome.bind_eq_ok.mp h
  obtain ⟨_, _, h⟩ := Outcome.bind_eq_ok.mp h
  cases h
  obtain ⟨nt0, hf0⟩ := findNt_of_mem (hasNt_true.mp hn)
  have hF := rhsSteps_pres (cx := cx) (P := fun s => findNt s.1.nts n = some nt0)
    (fun a _ u _ => closed_find cx.fx n nt0 u)
    (s := ({ st with nextProd := st.nextProd + 1 }, [])) hf0 h1
  show hasNt (if hasNt res.2.1.nts rule.name = true then _ else _) n = true
  split
  · unfold hasNt
    rw [findNt_pushProd hF]
    rfl
  · unfold hasNt
    rw [findNt_append_left _ hF]
    rfl

theorem altSteps_keeps {cx : Ctx} {rule : Rule} {ntIdx : Nat} {n : Name} :
    ∀ {alts : List Alt} {j : Nat} {st st' : XSt}, hasNt st.nts n = true →
      altSteps cx rule ntIdx j alts st = .ok st' → hasNt st'.nts n = true
  | [], _, _, _, hn, h => by
    cases h
    exact hn
  | a :: as, j, st, st', hn, h => by
    unfold altSteps at h
    obtain ⟨st1, h1, h2⟩ := Outcome.bind_eq_ok.mp h
    exact altSteps_keeps (altStep_keeps hn h1) h2

theorem ruleStep_keeps {cx : Ctx} {rule : Rule} {st st' : XSt} {n : Name}
    (hn : hasNt st.nts n = true) (h : ruleStep cx rule st = .ok st') : hasNt st'.nts n = true := by
  rcases ruleStep_ok h with ⟨nt, hf, h⟩ | ⟨hf, h⟩
  · exact altSteps_keeps hn h
  · exact altSteps_keeps (st := { st with nextNt := st.nextNt + 1 }) hn h

theorem ruleSteps_keeps {cx : Ctx} {n : Name} :
    ∀ {rules : List Rule} {st st' : XSt}, hasNt st.nts n = true → ruleSteps cx rules st = .ok st' →
      hasNt st'.nts n = true
  | [], _, _, hn, h => by
    cases h
    exact hn
  | r :: rs, st, st', hn, h => by
    unfold ruleSteps at h
    obtain ⟨st1, h1, h2⟩ := Outcome.bind_eq_ok.mp h
    exact ruleSteps_keeps (ruleStep_keeps hn h1) h2

theorem ruleSteps_nts {cx : Ctx} :
    ∀ {rules : List Rule} {st st' : XSt}, NtsInv none st → (∀ r, r ∈ rules → RuleAvoids cx r ∧ r.alts ≠ []) →
      ruleSteps cx rules st = .ok st' →
      NtsInv none st' ∧ ∀ r, r ∈ rules → hasNt st'.nts r.name = true
  | [], _, _, hi, _, h => by
    cases h
    exact ⟨hi, by simp⟩
  | r :: rs, st, st', hi, hw, h => by
    unfold ruleSteps at h
    obtain ⟨st1, h1, h2⟩ := Outcome.bind_eq_ok.mp h
    obtain ⟨hi1, nt, hf⟩ := ruleStep_nts hi (hw r (by simp)).1 (hw r (by simp)).2 h1
    obtain ⟨hi2, hall⟩ := ruleSteps_nts hi1 (fun x hx => hw x (by simp [hx])) h2
    refine ⟨hi2, ?_⟩
    intro x hx
    rcases List.mem_cons.mp hx with rfl | hx
    · apply ruleSteps_keeps _ h2
      unfold hasNt
      rw [hf]
      rfl
    · exact hall x hx

theorem createAug_nts {a b : Name} {st : XSt} (hi : NtsInv none st) (habs : hasNt st.nts a = false) :
    NtsInv none (createAug a b st) := by
  have hnts : (createAug a b st).nts = st.nts ++ [{ idx := st.nextNt, name := a, prods := [st.nextProd] }] :=
    insertNt_absent (nt := { idx := st.nextNt, name := a, prods := [st.nextProd] }) habs
  have habs' := hasNt_false.mp habs
  constructor
  · rw [hnts]
    unfold ntNames at *
    rw [List.map_append, List.nodup_append]
    refine ⟨hi.names, by simp, ?_⟩
    intro x hx y hy
    simp at hy
    subst hy
    intro e
    exact habs' (e ▸ hx)
  · rw [hnts]
    unfold ntIdxs at *
    rw [List.map_append, List.nodup_append]
    refine ⟨hi.idxs, by simp, ?_⟩
    intro x hx y hy
    simp at hy
    subst hy
    intro e
    obtain ⟨z, hz, ez⟩ := List.mem_map.mp hx
    have := hi.bound z hz
    omega
  · rw [hnts]
    intro nt hnt
    show nt.idx < st.nextNt + 1
    rcases List.mem_append.mp hnt with h | h
    · exact Nat.lt_succ_of_lt (hi.bound nt h)
    · simp at h
      subst h
      exact Nat.lt_succ_self _
  · rw [hnts]
    intro nt hnt p hp
    show p < st.nextProd + 1
    rcases List.mem_append.mp hnt with h | h
    · exact Nat.lt_succ_of_lt (hi.prodsB nt h p hp)
    · simp at h
      subst h
      simp at hp
      omega
  · rw [hnts]
    show (st.nts ++ [_]).length = st.nextNt + 1
    simp
    exact hi.pendOk

theorem xst0_nts : NtsInv none xst0 := by
  refine ⟨by simp [xst0, ntNames], by simp [xst0, ntIdxs], ?_, ?_, rfl⟩
  · intro nt hnt
    simp [xst0] at hnt
    subst hnt
    exact Nat.zero_lt_one
  · intro nt hnt p hp
    simp [xst0] at hnt
    subst hnt
    simp at hp

theorem hasNt_append_single (nts : List NonTerm) (x : NonTerm) : hasNt (nts ++ [x]) x.name = true := by
  apply hasNt_true.mpr
  unfold ntNames
  simp

theorem aug_no_self : hasNt xst0.nts kAUG = false := rfl
theorem aug_has (b : Name) : hasNt (createAug kAUG b xst0).nts kAUG = true := rfl
theorem aug_no_augl (b : Name) : hasNt (createAug kAUG b xst0).nts kAUGL = false := rfl
theorem augl_has (b c : Name) : hasNt (createAug kAUGL c (createAug kAUG b xst0)).nts kAUG = true := rfl

/-- state after the rule phase, for files whose rules avoid their own helper names -/
theorem extract_nts {cx : Ctx} {r0 : Rule} {rules : List Rule} {st : XSt}
    (hw : ∀ r, r ∈ rules → RuleAvoids cx r ∧ r.alts ≠ []) (h : extract cx r0 rules = .ok st) :
    NtsInv none st ∧ hasNt st.nts kAUG = true ∧ ∀ r, r ∈ rules → hasNt st.nts r.name = true := by
  unfold extract at h
  simp only at h
  have h1 : NtsInv none (createAug kAUG r0.name xst0) := createAug_nts xst0_nts (by decide)
  have ha1 : hasNt (createAug kAUG r0.name xst0).nts kAUG = true := by first | exact aug_has _ | exact aug_no_augl _ | exact augl_has _ _
  split at h
  · rename_i lr _
    have h2 : NtsInv none (createAug kAUGL lr.name (createAug kAUG r0.name xst0)) :=
      createAug_nts h1 (by first | exact aug_has _ | exact aug_no_augl _ | exact augl_has _ _)
    have ha2 : hasNt (createAug kAUGL lr.name (createAug kAUG r0.name xst0)).nts kAUG = true := by first | exact aug_has _ | exact aug_no_augl _ | exact augl_has _ _
    obtain ⟨r1, r2⟩ := ruleSteps_nts h2 hw h
    exact ⟨r1, ruleSteps_keeps ha2 h, r2⟩
  · obtain ⟨r1, r2⟩ := ruleSteps_nts h1 hw h
    exact ⟨r1, ruleSteps_keeps ha1 h, r2⟩

/-- the nonterminal vector is indexed by `idx` -/
theorem sortNts_pos {st : XSt} (hi : NtsInv none st) (i : Nat) (nt : NonTerm)
    (h : (sortNts st.nts)[i]? = some nt) : nt.idx = i := by
  apply sortByKey_pos NonTerm.idx st.nts hi.idxs _ i nt h
  intro x hx
  have := hi.bound x hx
  have e : st.nts.length = st.nextNt := hi.pendOk
  omega

end Rustemo.Front
