import Rustemo.Proofs.GlrRun10
import Rustemo.Proofs.GlrTop
/-!
# Under `LexDet` every tree of a result has the whole token string as its yield
-/
namespace Rustemo.Glr
open Rustemo

theorem makeError_not_ok (env : Env) (g : Gss) (lastBase : List Nat) (r : GlrResult) :
    makeError env g lastBase ≠ .ok r := by
  intro h
  unfold makeError at h
  obtain ⟨ex, _, h⟩ := obind_eq_ok h
  split at h
  · simp at h
  · obtain ⟨hd, _, h⟩ := obind_eq_ok h
    split at h <;> simp at h

theorem kindsOf_cons (tok : Nat → Tok) {i j : Nat} (h : i < j) : kindsOf tok i j = (tok i).kind :: kindsOf tok (i + 1) j := by
  unfold kindsOf
  have : j - i = (j - (i + 1)) + 1 := by omega
  rw [this, List.range'_succ]
  simp

/-- the kinds of tokens shifted on consecutive levels are the kinds of the tokens of those levels -/
theorem leaves_kinds {env : Env} {g : Gss} {tok : Nat → Tok} (hg : GInv env g)
    (hsym : ∀ (h : Nat) (hd : Head) (k : Nat), g.heads[h]? = some hd → hd.frontier = k + 1 →
      env.t.symAt hd.state < env.g.nterms → env.t.symAt hd.state = (tok k).kind) :
    ∀ (toks : List Tok) (i j : Nat), LeavesAt g toks i j → toks.map (·.kind) = kindsOf tok i j
  | [], i, j, h => by
    simp only [LeavesAt] at h
    subst h
    simp [kindsOf_self]
  | tk :: rest, i, j, h => by
    obtain ⟨⟨e, ed, hd, n, sp, he, hhd, hl, hn, hnd⟩, hr⟩ := h
    have hlen := LeavesAt.length hr
    rw [kindsOf_cons tok (by omega : i < j), List.map_cons, leaves_kinds hg hsym rest (i + 1) j hr]
    congr 1
    obtain ⟨hs', hd', hhs', hhd', _, hposs⟩ := (hg.edges e ed he).ends
    obtain ⟨nd, hnd', hfit⟩ := hposs n hn
    rw [hnd] at hnd'; injection hnd' with hnd'; subst hnd'
    obtain ⟨hk, hterm, hd'', hhd'', hlv⟩ := hfit
    rw [hhd] at hhd''; injection hhd'' with hhd''; subst hhd''
    rw [hk]
    exact hsym _ hs' i hhs' (by omega) hterm

/-- an edge that starts at an accepted head goes down to level 0 and its symbol is the start symbol -/
theorem accepted_edge {env : Env} (hT : TableOk env) {g : Gss} (hg : GInv env g) {v : Nat} (hacc : AccOk env g v)
    {e : Nat} {ed : Edge} (hed : g.edges[e]? = some ed) (hsrc : ed.src = v) :
    ∃ hs hd : Head, g.heads[ed.src]? = some hs ∧ g.heads[ed.dst]? = some hd ∧ hd.frontier = 0 ∧
      env.t.symAt hs.state = env.g.startIdx ∧ hd.state = 0 := by
  obtain ⟨hda, tka, hhda, _, hact⟩ := hacc
  obtain ⟨au, hau, pr, hpr, hrhs, hitem⟩ := hT.s.accept_item _ _ hact
  obtain ⟨hs, hd, hhs, hhd, htr, _⟩ := (hg.edges e ed hed).ends
  have hhs0 := hhs
  rw [hsrc, hhda] at hhs; injection hhs with hhs; subst hhs
  obtain ⟨⟨pr', hpr', hX⟩, hitem0⟩ := hT.s.target_items _ _ _ _ 0 htr hitem
  rw [hpr] at hpr'; injection hpr' with hpr'; subst hpr'
  have hstart := hT.s.aug_start_only au hau _ hitem0
  have hokd := hg.heads _ hd hhd
  have h0 : hd.state = 0 ∧ hd.frontier = 0 := by
    rcases hokd.start with h | h
    · exact h
    · exact absurd hstart (h au hau)
  have hmain : au = ⟨0, 0, env.g.startIdx⟩ :=
    hT.s.distinct au hau _ (main_auto_mem env) (by rw [← hstart, h0.1])
  rw [hrhs] at hX
  simp only [List.getElem?_cons_zero, Option.some.injEq] at hX
  exact ⟨hda, hd, hhs0, hhd, h0.2, by rw [← hX, hmain], h0.1⟩

/-- **the trees of a result under `LexDet`**: derivation trees modulo elision of the WHOLE token string -/
theorem final_trees {env : Env} (hT : TableOk env) (hC : CompleteRN env.g env.t)
    {pp : Bool} {fuel n : Nat} {tok : Nat → Tok} {P L : Nat → Pos} (hL : LexDet env pp fuel n tok P L)
    {o : Outcome GlrResult} (hfin : Final env n tok P o) {r : GlrResult} (ho : o = .ok r) {i : Nat} {tr : Tree}
    (h : r.getTree i = some tr) : tr.ValidElided env.g env.g.startIdx ∧ tr.yield = kindsOf tok 0 n := by
  obtain ⟨F, st, lastBase, subs, RI, hF, hoe⟩ := hfin
  rw [ho] at hoe
  have hr : r = ⟨st.gss, forestRoots st.gss st.accepted⟩ := by
    split at hoe
    · injection hoe
    · exact absurd hoe.symm (makeError_not_ok _ _ _ _)
  subst hr
  have hg := RI.sok.g
  unfold GlrResult.getTree GlrResult.droots at h
  obtain ⟨d, hd, j, hj⟩ := get_listToDN _ _ _ h
  rw [List.mem_map] at hd
  obtain ⟨m, hm, rfl⟩ := hd
  simp only at hm hj
  unfold forestRoots at hm
  simp only [List.mem_flatMap] at hm
  obtain ⟨v, hv, e, he, hm⟩ := hm
  obtain ⟨ed, hed, hsrc⟩ := mem_backedges.mp he
  rw [possOf_eq hed] at hm
  have hacc := RI.sok.acc v hv
  obtain ⟨hs, hd0, hhs, hhd, hl0, hsy, _⟩ := accepted_edge hT hg hacc hed hsrc
  have htree := unfold_ok hg _ e ed hs hd0 m hed hm hhs hhd j tr hj
  rw [hsy, hl0] at htree
  obtain ⟨hval, hleaves⟩ := htree
  -- the accepted head is on the last level
  obtain ⟨hda, tka, hhda, htka, hact⟩ := hacc
  rw [hsrc, hhda] at hhs; injection hhs with hhs; subst hhs
  have hk0 : tka.kind = 0 := hC.acceptStop _ _ hact
  have hlt : hda.frontier < F := by
    rcases Nat.lt_or_ge hda.frontier F with hlt | hge
    · exact hlt
    · have := RI.gu.noAbove v hda hhda
      have heq : hda.frontier = F := by omega
      have := RI.blevel v hda hhda heq
      simp at this
  have htk := RI.toks v hda hhda hlt tka htka
  have hlv : hda.frontier = n := by
    rcases Nat.lt_or_ge hda.frontier n with h1 | h1
    · have := (hL.terms hda.frontier h1).1
      rw [← htk, hk0] at this
      omega
    · omega
  rw [hlv] at hleaves
  refine ⟨hval, ?_⟩
  rw [← (toksOf_kinds).1 tr]
  exact leaves_kinds hg RI.hsym _ 0 n hleaves

/-- the same for `parse` -/
theorem parse_trees {env : Env} (hT : TableOk env) (hC : CompleteRN env.g env.t) (hW : GWF env.g)
    {pp : Bool} {fuel n : Nat} {tok : Nat → Tok} {P L : Nat → Pos} (hL : LexDet env pp fuel n tok P L)
    {r : GlrResult} (ho : parse env pp fuel = .ok r) {i : Nat} {tr : Tree} (h : r.getTree i = some tr) :
    tr.ValidElided env.g env.g.startIdx ∧ tr.yield = kindsOf tok 0 n := by
  rcases parse_final hT hC hW hL with h1 | ⟨s, h1⟩ | h1
  · rw [h1] at ho; cases ho
  · rw [h1] at ho; cases ho
  · exact final_trees hT hC hL h1 ho h

end Rustemo.Glr
