import Rustemo.Proofs.ResolveMulti
/-!
# Whole-cell theorem: the repaired incremental algorithm = the documented two-phase rule
-/
set_option linter.unusedSimpArgs false
namespace Rustemo.Resolve
open Rustemo

def preOf (cfg : Cfg) (info : Nat → PInfo) (ta : Assoc) (shp : Nat) (sh : Action) (P : List Red) :
    List Action :=
  if P.all (fun r => dSR cfg info ta shp r != .reduce) then [sh] else []

def survOf (cfg : Cfg) (info : Nat → PInfo) (ta : Assoc) (shp : Nat) (P : List Red) : List Red :=
  P.filter (fun r => dSR cfg info ta shp r != .shift)

/-- the cell the documented rule prescribes for shift `sh` and the reducing items `P` -/
def invCell (cfg : Cfg) (info : Nat → PInfo) (ta : Assoc) (shp : Nat) (sh : Action) (P : List Red) :
    List Action :=
  preOf cfg info ta shp sh P ++ (tops (rkey cfg info) (survOf cfg info ta shp P)).map Red.act

theorem doc_cell_shift (cfg : Cfg) (info : Nat → PInfo) (ta : Assoc) (shp : Nat) (sh : Action)
    (P : List Red) :
    Doc.resolveCell cfg ta (some (sh, shp)) (P.map (candOf info)) = invCell cfg info ta shp sh P := by
  have hs : (P.map (candOf info)).filter (fun c => Doc.srOf cfg ta shp c != .shift) =
      (survOf cfg info ta shp P).map (candOf info) := by
    rw [List.filter_map]; rfl
  have ha : (P.map (candOf info)).all (fun c => Doc.srOf cfg ta shp c != .reduce) =
      P.all (fun r => dSR cfg info ta shp r != .reduce) := by
    rw [List.all_map]; rfl
  unfold Doc.resolveCell invCell preOf
  simp only [hs, ha, doc_rr_tops]

theorem doc_cell_noshift (cfg : Cfg) (info : Nat → PInfo) (ta : Assoc) (P : List Red) :
    Doc.resolveCell cfg ta none (P.map (candOf info)) = (tops (rkey cfg info) P).map Red.act := by
  unfold Doc.resolveCell
  simp only
  rw [doc_rr_tops]

theorem docSR_reduce_le {cfg : Cfg} {i : PInfo} {ta : Assoc} {shp : Nat}
    (h : docSR cfg i ta shp = .reduce) : shp ≤ i.prio := by
  by_cases hlt : i.prio < shp
  · unfold docSR at h
    rw [Nat.compare_eq_lt.mpr hlt] at h
    simp [Doc.resolveSR] at h
  · omega

theorem survOf_snoc (cfg : Cfg) (info : Nat → PInfo) (ta : Assoc) (shp : Nat) (P : List Red) (r : Red) :
    survOf cfg info ta shp (P ++ [r]) =
      survOf cfg info ta shp P ++ (if dSR cfg info ta shp r != .shift then [r] else []) := by
  unfold survOf
  rw [List.filter_append]
  congr 1
  cases h : (dSR cfg info ta shp r != .shift) <;> simp [List.filter, h]

theorem preOf_snoc (cfg : Cfg) (info : Nat → PInfo) (ta : Assoc) (shp : Nat) (sh : Action)
    (P : List Red) (r : Red) :
    preOf cfg info ta shp sh (P ++ [r]) =
      if dSR cfg info ta shp r != .reduce then preOf cfg info ta shp sh P else [] := by
  unfold preOf
  simp only [List.all_append, List.all_cons, List.all_nil, Bool.and_true]
  cases (P.all fun r => dSR cfg info ta shp r != Keep.reduce) <;>
    cases (dSR cfg info ta shp r != Keep.reduce) <;> rfl

theorem PosOk.sub {info : Nat → PInfo} {S T : List Red} (h : PosOk info T) (hs : ∀ x ∈ S, x ∈ T) :
    PosOk info S := fun x hx => h x (hs x hx)

/-- **The step preserves the documented cell.** -/
theorem step_inv (fx : Fixes) (h1 : fx.termAssoc = true) (h2 : fx.noAssert = true)
    (h3 : fx.emptyRR = true) (cfg : Cfg) (info : Nat → PInfo) (ta : Assoc) (sp : Option Nat)
    (sh : Action) (hsh : isShiftLike sh = true) (shp : Nat) (hp : shiftPrio sp sh = some shp)
    (P : List Red) (r : Red) (hpos : PosOk info P)
    (hmix : dSR cfg info ta shp r = .shift → (∃ p ∈ P, dSR cfg info ta shp p = .reduce) →
      (info r.prod).prio < shp) :
    addReduce fx cfg info ta sp r (invCell cfg info ta shp sh P) =
      .ok (invCell cfg info ta shp sh (P ++ [r])) := by
  have hposS : PosOk info (survOf cfg info ta shp P) :=
    hpos.sub (fun x hx => (List.mem_filter.mp hx).1)
  -- the shape of the cell
  have hpre : ∀ a ∈ preOf cfg info ta shp sh P, isShiftLike a = true := by
    intro a ha; unfold preOf at ha; split at ha
    · simp at ha; subst ha; exact hsh
    · cases ha
  have hshifts : (invCell cfg info ta shp sh P).filter isShiftLike = preOf cfg info ta shp sh P := by
    unfold invCell
    rw [List.filter_append, filter_pre hpre, filter_shiftLike_acts, List.append_nil]
  have hreds : (invCell cfg info ta shp sh P).filter (fun a => !isShiftLike a) =
      (tops (rkey cfg info) (survOf cfg info ta shp P)).map Red.act := by
    unfold invCell
    rw [List.filter_append, filter_notShiftLike_acts]
    have : (preOf cfg info ta shp sh P).filter (fun a => !isShiftLike a) = [] :=
      List.filter_eq_nil_iff.mpr (fun a ha => by simp [hpre a ha])
    rw [this, List.nil_append]
  have hlen : ¬ (preOf cfg info ta shp sh P).length > 1 := by
    unfold preOf; split <;> simp
  cases hall : P.all (fun r => dSR cfg info ta shp r != .reduce)
  · -- some earlier reduction beat the shift: it is gone from the cell
    have hpreE : preOf cfg info ta shp sh P = [] := by unfold preOf; rw [hall]; rfl
    obtain ⟨p, hpP, hpD⟩ : ∃ p ∈ P, dSR cfg info ta shp p = .reduce := by
      have := hall
      simp only [List.all_eq_false] at this
      obtain ⟨p, hp1, hp2⟩ := this
      exact ⟨p, hp1, by simpa using hp2⟩
    have hpS : p ∈ survOf cfg info ta shp P :=
      List.mem_filter.mpr ⟨hpP, by rw [hpD]; decide⟩
    have hK : tops (rkey cfg info) (survOf cfg info ta shp P) ≠ [] :=
      tops_ne_nil (List.ne_nil_of_mem hpS)
    have hne : (invCell cfg info ta shp sh P).isEmpty = false := by
      unfold invCell; rw [hpreE]; simpa using hK
    unfold addReduce
    rw [hne]
    simp only [Bool.false_eq_true, if_false, hshifts, hreds, hpreE, List.length_nil,
      Nat.not_lt_zero, gt_iff_lt, List.head?_nil, onShift]
    have hr := all_isReduce_filter (invCell cfg info ta shp sh P)
    rw [hreds] at hr
    rw [hr]
    simp only [Bool.not_true, Bool.false_eq_true, if_false]
    have hcell : invCell cfg info ta shp sh P =
        [] ++ (tops (rkey cfg info) (survOf cfg info ta shp P)).map Red.act := by
      unfold invCell; rw [hpreE]
    rw [hcell, rrStep_acts fx h3 cfg info r [] (by simp), rrAbs_tops cfg info _ r hposS]
    congr 1
    unfold invCell
    rw [preOf_snoc, hpreE, survOf_snoc]
    have : (if (dSR cfg info ta shp r != Keep.reduce) = true then ([] : List Action) else []) = [] := by
      split <;> rfl
    rw [this]
    congr 2
    cases hd : (dSR cfg info ta shp r != .shift)
    · -- the new reduction loses to the (absent) shift: by priority, so it is below the cell anyway
      simp only [Bool.false_eq_true, if_false, List.append_nil]
      have hds : dSR cfg info ta shp r = .shift := by simpa using hd
      have hlt := hmix hds ⟨p, hpP, hpD⟩
      obtain ⟨x0, hx0⟩ := List.exists_mem_of_ne_nil _ hK
      apply tops_snoc_lt hx0
      have hp1 : shp ≤ (info p.prod).prio := docSR_reduce_le hpD
      have hp2 := (mem_tops.mp hx0).2 p hpS
      have := bonus_le cfg info r
      unfold rkey at *
      omega
    · rfl
  · -- the shift is still in the cell
    have hpreE : preOf cfg info ta shp sh P = [sh] := by unfold preOf; rw [hall]; rfl
    have hne : (invCell cfg info ta shp sh P).isEmpty = false := by
      unfold invCell; rw [hpreE]; rfl
    unfold addReduce
    rw [hne]
    simp only [Bool.false_eq_true, if_false, hshifts, hreds, hpreE, List.length_cons, List.length_nil,
      gt_iff_lt, Nat.lt_irrefl, List.head?_cons, onShift, withShift, hp, Nat.zero_add]
    have hr := all_isReduce_filter (invCell cfg info ta shp sh P)
    rw [hreds] at hr
    rw [hr]
    simp only [Bool.not_true, Bool.false_eq_true, if_false]
    have hD := srDecide_fixed fx h1 cfg (info r.prod) ta shp
    have hcell : invCell cfg info ta shp sh P =
        [sh] ++ (tops (rkey cfg info) (survOf cfg info ta shp P)).map Red.act := by
      unfold invCell; rw [hpreE]
    have hpre1 : ∀ a ∈ [sh], isShiftLike a = true := by
      intro a ha; simp at ha; subst ha; exact hsh
    cases hd : srDecide fx cfg (info r.prod) ta (compare (info r.prod).prio shp) with
    | keepShift =>
      rw [hd] at hD
      have hds : dSR cfg info ta shp r = .shift := hD.symm
      simp only [applySR]
      congr 1
      conv => rhs; unfold invCell
      rw [preOf_snoc, survOf_snoc, hds, hpreE]
      simp [invCell, hpreE]
    | both =>
      rw [hd] at hD
      have hds : dSR cfg info ta shp r = .both := hD.symm
      simp only [applySR]
      rw [hcell, rrStep_acts fx h3 cfg info r [sh] hpre1, rrAbs_tops cfg info _ r hposS]
      congr 1
      conv => rhs; unfold invCell
      rw [preOf_snoc, survOf_snoc, hds, hpreE]
      simp
    | override b =>
      rw [hd] at hD
      have hds : dSR cfg info ta shp r = .reduce := hD.symm
      simp only [applySR, overrideShift, h2, if_true, afterOverride, hreds]
      have := rrStep_acts fx h3 cfg info r [] (by simp) (tops (rkey cfg info) (survOf cfg info ta shp P))
      simp only [List.nil_append] at this
      rw [this, rrAbs_tops cfg info _ r hposS]
      congr 1
      conv => rhs; unfold invCell
      rw [preOf_snoc, survOf_snoc, hds]
      simp

end Rustemo.Resolve

namespace Rustemo.Resolve
open Rustemo

theorem invCell_nil (cfg : Cfg) (info : Nat → PInfo) (ta : Assoc) (shp : Nat) (sh : Action) :
    invCell cfg info ta shp sh [] = [sh] := rfl

/-- the whole history, started from any already processed prefix `P` -/
theorem cell_inv (fx : Fixes) (h1 : fx.termAssoc = true) (h2 : fx.noAssert = true)
    (h3 : fx.emptyRR = true) (cfg : Cfg) (info : Nat → PInfo) (ta : Assoc) (sp : Option Nat)
    (sh : Action) (hsh : isShiftLike sh = true) (shp : Nat) (hp : shiftPrio sp sh = some shp)
    (rest : List Red) : ∀ (P : List Red), PosOk info (P ++ rest) →
    NoMixed cfg info ta shp (P ++ rest) →
    cell fx cfg info ta sp (invCell cfg info ta shp sh P) (rest.map .red) =
      .ok (invCell cfg info ta shp sh (P ++ rest)) := by
  induction rest with
  | nil => intro P _ _; simp [cell_nil]
  | cons r rs ih =>
    intro P hpos hmix
    rw [List.map_cons, cell_cons_red]
    have hstep := step_inv fx h1 h2 h3 cfg info ta sp sh hsh shp hp P r
      (hpos.sub (fun x hx => List.mem_append_left _ hx))
      (fun hd ⟨p, hpP, hpD⟩ =>
        hmix ⟨p, List.mem_append_left _ hpP, hpD⟩ r (List.mem_append_right _ List.mem_cons_self) hd)
    rw [hstep]
    simp only [bindO]
    have e : P ++ r :: rs = (P ++ [r]) ++ rs := by simp
    rw [e] at hpos hmix ⊢
    exact ih (P ++ [r]) hpos hmix

/-- no shift-like candidate: the cell holds the reductions of maximal rank of the prefix -/
theorem step_inv_noshift (fx : Fixes) (h3 : fx.emptyRR = true) (cfg : Cfg) (info : Nat → PInfo)
    (ta : Assoc) (sp : Option Nat) (P : List Red) (r : Red) (hpos : PosOk info P) :
    addReduce fx cfg info ta sp r ((tops (rkey cfg info) P).map Red.act) =
      .ok ((tops (rkey cfg info) (P ++ [r])).map Red.act) := by
  by_cases hP : P = []
  · subst hP
    simp [addReduce, tops, Red.act]
  · have hK : tops (rkey cfg info) P ≠ [] := tops_ne_nil hP
    have hne : ((tops (rkey cfg info) P).map Red.act).isEmpty = false := by simpa using hK
    unfold addReduce
    rw [hne]
    simp only [Bool.false_eq_true, if_false, filter_shiftLike_acts, filter_notShiftLike_acts,
      List.length_nil, gt_iff_lt, Nat.not_lt_zero, List.head?_nil, onShift]
    have hr := all_isReduce_filter ((tops (rkey cfg info) P).map Red.act)
    rw [filter_notShiftLike_acts] at hr
    rw [hr]
    simp only [Bool.not_true, Bool.false_eq_true, if_false]
    have := rrStep_acts fx h3 cfg info r [] (by simp) (tops (rkey cfg info) P)
    simp only [List.nil_append] at this
    rw [this, rrAbs_tops cfg info _ r hpos]

theorem cell_inv_noshift (fx : Fixes) (h3 : fx.emptyRR = true) (cfg : Cfg) (info : Nat → PInfo)
    (ta : Assoc) (sp : Option Nat) (rest : List Red) : ∀ (P : List Red), PosOk info (P ++ rest) →
    cell fx cfg info ta sp ((tops (rkey cfg info) P).map Red.act) (rest.map .red) =
      .ok ((tops (rkey cfg info) (P ++ rest)).map Red.act) := by
  induction rest with
  | nil => intro P _; simp [cell_nil]
  | cons r rs ih =>
    intro P hpos
    rw [List.map_cons, cell_cons_red,
      step_inv_noshift fx h3 cfg info ta sp P r (hpos.sub (fun x hx => List.mem_append_left _ hx))]
    simp only [bindO]
    have e : P ++ r :: rs = (P ++ [r]) ++ rs := by simp
    rw [e] at hpos ⊢
    exact ih (P ++ [r]) hpos

/-- the documented cell does not depend on the order of the candidates (up to order) -/
theorem invCell_perm (cfg : Cfg) (info : Nat → PInfo) (ta : Assoc) (shp : Nat) (sh : Action)
    {P Q : List Red} (h : P.Perm Q) :
    (invCell cfg info ta shp sh P).Perm (invCell cfg info ta shp sh Q) := by
  unfold invCell preOf survOf
  rw [h.all_eq]
  exact List.Perm.append_left _ ((tops_perm (h.filter _)).map _)

end Rustemo.Resolve
