import Rustemo.Proofs.TableInvStep
/-!
# Table construction: what `merge_state`, the closure and the propagation do to one item list
-/
namespace Rustemo.Table

/-! ## `merge_state` -/

theorem mergeItems_grown : ∀ (old : List Item) (ps : List (Item × Item)), Grown old (mergeItems old ps)
  | [], _ => by simp [mergeItems]; exact .nil
  | x :: xs, ps => by
    unfold mergeItems
    by_cases hk : isKernel x = true
    · rw [if_pos hk]
      cases ps with
      | nil => exact Grown.refl _
      | cons p ps' =>
        exact .cons ⟨rfl, fun a ha => mem_union.mpr (.inl ha)⟩ (mergeItems_grown xs ps')
    · rw [if_neg hk]
      exact .cons ⟨rfl, Sub.refl _⟩ (mergeItems_grown xs ps)

theorem mergeState_some {g : Grammar} {tt : String} {rn : Option (Array Nat)} {old new items' : List Item}
    (h : mergeState g tt rn old new = .ok (some items')) :
    stateEq old new = true ∧ ∃ pairs, itemPairs new (old.filter isKernel) = some pairs ∧
      items' = mergeItems old pairs := by
  unfold mergeState at h
  by_cases he : stateEq old new = true
  · simp only [he, Bool.not_true, Bool.false_eq_true, if_false] at h
    split at h
    · simp at h
    · rename_i pairs hp
      split at h
      · simp at h
      · simp only [Res.ok.injEq, Option.some.injEq] at h
        exact ⟨he, pairs, hp, h.symm⟩
  · simp only [he, Bool.not_false, if_true] at h
    simp at h

theorem mergeState_grown {g : Grammar} {tt : String} {rn : Option (Array Nat)} {old new items' : List Item}
    (h : mergeState g tt rn old new = .ok (some items')) : Grown old items' := by
  obtain ⟨_, pairs, _, h3⟩ := mergeState_some h
  subst h3
  exact mergeItems_grown old pairs

/-- lookaheads after a merge come from the old state or from the new state -/
theorem itemPairs_mem {new : List Item} : ∀ {ks : List Item} {pairs : List (Item × Item)},
    itemPairs new ks = some pairs → ∀ p ∈ pairs, p.2 ∈ new
  | [], pairs, h => by simp [itemPairs] at h; subst h; simp
  | x :: xs, pairs, h => by
    unfold itemPairs at h
    split at h
    · rename_i y r hy hr
      simp only [Option.some.injEq] at h
      subst h
      intro p hp
      rcases List.mem_cons.mp hp with h' | h'
      · subst h'; exact List.mem_of_find?_eq_some hy
      · exact itemPairs_mem hr p h'
    · simp at h

theorem mergeItems_la (P : Nat → Prop) : ∀ (old : List Item) (ps : List (Item × Item)),
    (∀ it ∈ old, ∀ a ∈ it.la, P a) → (∀ p ∈ ps, ∀ a ∈ p.2.la, P a) →
    ∀ it ∈ mergeItems old ps, ∀ a ∈ it.la, P a
  | [], _, _, _ => by simp [mergeItems]
  | x :: xs, ps, h1, h2 => by
    unfold mergeItems
    have hx := h1 x List.mem_cons_self
    have hxs : ∀ it ∈ xs, ∀ a ∈ it.la, P a := fun it hit => h1 it (List.mem_cons_of_mem _ hit)
    by_cases hk : isKernel x = true
    · rw [if_pos hk]
      cases ps with
      | nil => exact h1
      | cons p ps' =>
        intro it hit a ha
        rcases List.mem_cons.mp hit with h | h
        · subst h
          rcases mem_union.mp ha with h' | h'
          · exact hx a h'
          · exact h2 p List.mem_cons_self a h'
        · exact mergeItems_la P xs ps' hxs (fun q hq => h2 q (List.mem_cons_of_mem _ hq)) it h a ha
    · rw [if_neg hk]
      intro it hit a ha
      rcases List.mem_cons.mp hit with h | h
      · subst h; exact hx a ha
      · exact mergeItems_la P xs ps hxs h2 it h a ha

/-! ## Propagation into one state -/

theorem propItem_ok {src : List Item} {tit tit' : Item} {c : Bool} (h : propItem src tit = .ok (tit', c)) :
    tit.dot ≠ 0 ∧ core tit' = core tit ∧ Sub tit.la tit'.la ∧
      (∀ a ∈ tit'.la, a ∈ tit.la ∨ ∃ s ∈ src, a ∈ s.la) ∧ (c = false → tit' = tit) := by
  unfold propItem at h
  by_cases hd : tit.dot = 0
  · simp [hd] at h
  · rw [if_neg hd] at h
    refine ⟨hd, ?_⟩
    split at h
    · rename_i s hs
      simp only [Res.ok.injEq, _root_.Prod.mk.injEq] at h
      obtain ⟨h1, h2⟩ := h
      subst h1
      refine ⟨rfl, fun a ha => mem_union.mpr (.inl ha), ?_, ?_⟩
      · intro a ha
        rcases mem_union.mp ha with h' | h'
        · exact .inl h'
        · exact .inr ⟨s, List.mem_of_find?_eq_some hs, h'⟩
      · intro hc
        rw [← h2] at hc
        have := union_eq_self_of_not_lt hc
        simp only [this]
    · simp only [Res.ok.injEq, _root_.Prod.mk.injEq] at h
      obtain ⟨h1, h2⟩ := h
      subst h1
      exact ⟨rfl, Sub.refl _, fun a ha => .inl ha, fun _ => rfl⟩

theorem propItems_grown (fixed : Option (List Item)) :
    ∀ (todo done items' : List Item) (ch ch' : Bool), propItems fixed done todo ch = .ok (items', ch') →
      ∃ todo', items' = done ++ todo' ∧ Grown todo todo'
  | [], done, items', ch, ch', h => by
    simp only [propItems, Res.ok.injEq, _root_.Prod.mk.injEq] at h
    exact ⟨[], by simp [h.1], .nil⟩
  | it :: todo, done, items', ch, ch', h => by
    unfold propItems at h
    by_cases hk : isKernel it = true
    · rw [if_pos hk] at h
      split at h
      · rename_i it' c hp
        obtain ⟨todo', h1, h2⟩ := propItems_grown fixed todo _ items' _ ch' h
        obtain ⟨_, p2, p3, _⟩ := propItem_ok hp
        exact ⟨it' :: todo', by rw [h1]; simp, .cons ⟨p2.symm, p3⟩ h2⟩
      · simp at h
      · simp at h
      · simp at h
    · rw [if_neg hk] at h
      obtain ⟨todo', h1, h2⟩ := propItems_grown fixed todo _ items' _ ch' h
      exact ⟨it :: todo', by rw [h1]; simp, .cons ⟨rfl, Sub.refl _⟩ h2⟩

theorem propEdge_grown {sts sts' : Array State} {i j : Nat} {ch : Bool} (hi : i < sts.size)
    (h : propEdge sts i j = .ok (sts', ch)) :
    ∃ sj items, sts[j]? = some sj ∧ Grown sj.items items ∧ sts' = setItems sts j items := by
  obtain ⟨si, sj, items, h1, h2, h3, h4⟩ := propEdge_ok hi h
  obtain ⟨todo', h5, h6⟩ := propItems_grown _ _ _ _ _ _ h3
  simp only [List.nil_append] at h5
  subst h5
  exact ⟨sj, items, h2, h6, h4⟩

end Rustemo.Table

namespace Rustemo.Table

/-! ## Closure -/

theorem prodsOf_mem {g : Grammar} {q B : Nat} (h : q ∈ Canon.prodsOf g B) :
    ∃ qr, g.prods[q]? = some qr ∧ qr.lhs = B := by
  unfold Canon.prodsOf at h
  obtain ⟨_, h2⟩ := List.mem_filter.mp h
  split at h2
  · rename_i qr hq
    exact ⟨qr, hq, by simpa using h2⟩
  · simp at h2

theorem itemDemands_closureProd {g : Grammar} {fs : Array (List Nat)} {it : Item} {dsi : List (Nat × List Nat)}
    (h : itemDemands g fs it = .ok dsi) : ∀ d ∈ dsi, ClosureProd g d.1 := by
  unfold itemDemands at h
  split at h
  · simp only [Res.ok.injEq] at h; subst h; simp
  · rename_i pr hpr
    split at h
    · simp only [Res.ok.injEq] at h; subst h; simp
    · rename_i B hB
      split at h
      · simp only [Res.ok.injEq] at h; subst h; simp
      · split at h
        · simp at h
        · rename_i nf hnf
          split at h
          · simp only [Res.ok.injEq] at h
            subst h
            intro d hd
            obtain ⟨q, hq, rfl⟩ := List.mem_map.mp hd
            obtain ⟨qr, h1, h2⟩ := prodsOf_mem hq
            refine ⟨qr, it.prod, pr, h1, hpr, ?_⟩
            rw [h2]
            exact List.mem_of_getElem? hB
          · simp at h

/-- the facts about a closure that the structural invariant needs -/
structure ClosureRel (g : Grammar) (items items' : List Item) : Prop where
  mono : ∀ it ∈ items, ∃ it' ∈ items', core it' = core it ∧ Sub it.la it'.la
  back : ∀ it' ∈ items', (∃ it ∈ items, core it = core it' ∧ Sub it.la it'.la) ∨ (it'.dot = 0 ∧ ClosureProd g it'.prod)
  ok : ∀ it' ∈ items', ItemOk g it'
  nodup : (items'.map core).Nodup

theorem closure_rel {g : Grammar} {fs : Array (List Nat)} {n : Nat} {items items' : List Item}
    (h : closure g fs n items = .ok items') (hok : ∀ it ∈ items, ItemOk g it)
    (hnd : (items.map core).Nodup) : ClosureRel g items items' := by
  apply closure_induct (g := g) (fs := fs) (ClosureRel g items) (fun d => ClosureProd g d.1) _ _ n items items' h
  · exact ⟨fun it hit => ⟨it, hit, rfl, Sub.refl _⟩, fun it hit => .inl ⟨it, hit, rfl, Sub.refl _⟩, hok, hnd⟩
  · intro its _ it _ dsi hdsi d hd
    exact itemDemands_closureProd hdsi d hd
  · intro its d hP hQ
    refine ⟨?_, ?_, ?_, ?_⟩
    · intro it hit
      obtain ⟨it1, h1, h2, h3⟩ := hP.mono it hit
      obtain ⟨it2, h4, h5, h6⟩ := addDemand_mono d its it1 h1
      exact ⟨it2, h4, h5.trans h2, h3.trans h6⟩
    · intro it' hit'
      rcases addDemand_back d its it' hit' with ⟨it1, h1, h2, h2'⟩ | h1
      · rcases hP.back it1 h1 with ⟨it0, h3, h4, h4'⟩ | ⟨h3, h4⟩
        · exact .inl ⟨it0, h3, h4.trans h2, h4'.trans h2'⟩
        · simp only [core, _root_.Prod.mk.injEq] at h2
          exact .inr ⟨by rw [← h2.2]; exact h3, by rw [← h2.1]; exact h4⟩
      · subst h1
        exact .inr ⟨rfl, hQ⟩
    · intro it' hit'
      rcases addDemand_origin d its it' hit' with ⟨it1, h1, h2, _⟩ | h1
      · obtain ⟨pr, h3, h4⟩ := hP.ok it1 h1
        simp only [core, _root_.Prod.mk.injEq] at h2
        exact ⟨pr, by rw [← h2.1]; exact h3, by rw [← h2.2]; exact h4⟩
      · subst h1
        obtain ⟨qr, _, _, h3, _⟩ := hQ
        exact ⟨qr, h3, Nat.zero_le _⟩
    · rcases addDemand_cores d its with ⟨h1, _⟩ | ⟨h1, h2⟩
      · rw [h1]; exact hP.nodup
      · rw [h1]
        apply List.nodup_append.mpr
        refine ⟨hP.nodup, by simp, ?_⟩
        intro a ha b hb
        simp only [List.mem_singleton] at hb
        subst hb
        exact fun h => h2 (h ▸ ha)

end Rustemo.Table
