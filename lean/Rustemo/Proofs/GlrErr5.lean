import Rustemo.Proofs.GlrErr4
import Rustemo.Proofs.GlrErr1
/-!
# The run keeps `JInv` (derivable edges, connected heads)

Reducer: a new edge `head → root` created by `reducePath` for production `A → α` over a path is derivable because the
path's parent links are (`chain_der`) and the tail of `α` is nullable; a new head gets that edge.  Shifter: a new
edge is labelled by the token of the level (`RunInv.hsym`); a new head gets it.  `create_frontier` under `LexDet`
creates no edge and no head.
-/
namespace Rustemo.Glr
open Rustemo

theorem nullable_list {g : Grammar} : ∀ (Ys : List Nat), (∀ Y ∈ Ys, Nullable g Y) →
    ∃ ts : List Tree, ValidList g ts Ys ∧ (ts.map Tree.yield).flatten = []
  | [], _ => ⟨[], rfl, rfl⟩
  | Y :: Ys, h => by
    obtain ⟨t, hv, hy⟩ := h Y (by simp)
    obtain ⟨ts, hts, hys⟩ := nullable_list Ys (fun Z hZ => h Z (by simp [hZ]))
    exact ⟨t :: ts, ⟨Y, Ys, rfl, hv, hts⟩, by simp [hy, hys]⟩

/-- the parent links of a chain derive the tokens between its ends -/
theorem chain_der {env : Env} {tok : Nat → Tok} {g : Gss} (hJ : JInv env tok g) :
    ∀ (es Xs : List Nat) (r j : Nat), ChildrenOk env.t g es Xs r j →
      ∃ hr : Head, g.heads[r]? = some hr ∧ hr.frontier ≤ j ∧
        ∃ ts : List Tree, ValidList env.g ts Xs ∧ (ts.map Tree.yield).flatten = kindsOf tok hr.frontier j
  | [], Xs, r, j, h => by
    obtain ⟨hXs, hd, hh, hf⟩ := h
    exact ⟨hd, hh, by omega, [], hXs, by rw [hf, kindsOf_self]; rfl⟩
  | e :: es, Xs, r, j, h => by
    obtain ⟨ed, hs, X, Xs', he, hh, hXs, hdst, hsym, hrest⟩ := h
    obtain ⟨hr', hhr', hle', ts', hts', hys'⟩ := chain_der hJ es Xs' ed.src j hrest
    rw [hh] at hhr'; injection hhr' with hhr'; subst hhr'
    obtain ⟨a, b, ha, hb, hle, t, hv, hy⟩ := hJ.ed e ed he
    rw [hh] at ha; injection ha with ha; subst ha
    refine ⟨b, by rw [← hdst]; exact hb, by omega, t :: ts', ?_, ?_⟩
    · rw [hXs]; exact ⟨X, Xs', rfl, by rw [← hsym]; exact hv, hts'⟩
    · simp only [List.map_cons, List.flatten_cons]
      rw [hy, hys', ← kindsOf_append tok hle hle']

/-- the left-hand side of a (right-nulled) reduction over a chain derives the tokens below the chain -/
theorem reduce_der {env : Env} {tok : Nat → Tok} {g : Gss} (hJ : JInv env tok g) {p len : Nat} {pr : Prod}
    (hpr : env.g.prods[p]? = some pr) (hnul : ∀ Y ∈ pr.rhs.drop len, Nullable env.g Y)
    {parents : List Nat} {root F : Nat} (hch : ChildrenOk env.t g parents (pr.rhs.take len) root F) :
    ∃ hr : Head, g.heads[root]? = some hr ∧ DerK env tok pr.lhs hr.frontier F := by
  obtain ⟨hr, hhr, hle, ts, hts, hys⟩ := chain_der hJ _ _ _ _ hch
  obtain ⟨ts2, hts2, hys2⟩ := nullable_list _ hnul
  have hvl : ValidList env.g (ts ++ ts2) pr.rhs := by
    have := validList_append env.g _ _ _ _ hts hts2
    rwa [List.take_append_drop] at this
  refine ⟨hr, hhr, hle, Tree.mk p (ts ++ ts2), ?_, ?_⟩
  · simp only [Tree.mk, Tree.Valid]
    exact ⟨pr, hpr, rfl, validList_ofList env.g _ pr.rhs hvl⟩
  · simp only [Tree.mk, Tree.yield, yield_ofList, List.map_append, List.flatten_append, hys, hys2, List.append_nil]

theorem foce_heads (g : Gss) (a b : Nat) : (findOrCreateEdge g a b).1.heads = g.heads := by
  unfold findOrCreateEdge
  split <;> rfl

theorem foce_edges_inv {g : Gss} {a b i : Nat} {ed : Edge} (h : (findOrCreateEdge g a b).1.edges[i]? = some ed) :
    g.edges[i]? = some ed ∨ (ed.src = a ∧ ed.dst = b) := by
  unfold findOrCreateEdge at h
  split at h
  · exact Or.inl h
  · simp only [addEdge_edges] at h
    split at h
    · injection h with h; subst h; exact Or.inr ⟨rfl, rfl⟩
    · exact Or.inl h

theorem foce_not_created {g : Gss} {a b : Nat} (h : (findOrCreateEdge g a b).2.2 = false) :
    (findOrCreateEdge g a b).1 = g := by
  unfold findOrCreateEdge at h ⊢
  split
  · rfl
  · rename_i hb; rw [hb] at h; simp at h

theorem pushPoss_src_dst {g : Gss} {e n i : Nat} {ed : Edge} (h : (g.pushPoss e n).edges[i]? = some ed) :
    ∃ ed0 : Edge, g.edges[i]? = some ed0 ∧ ed0.src = ed.src ∧ ed0.dst = ed.dst := by
  cases he : g.edges[e]? with
  | none =>
    unfold Gss.pushPoss at h
    rw [he] at h
    exact ⟨ed, h, rfl, rfl⟩
  | some ed1 =>
    rw [pushPoss_edges g e n ed1 he] at h
    split at h
    · rename_i hie
      injection h with h; subst h
      exact ⟨ed1, by rw [hie]; exact he, rfl, rfl⟩
    · exact ⟨ed, h, rfl, rfl⟩

/-- one reduction path keeps the invariant -/
theorem reducePath_J {env : Env} (hT : TableOk env) {tok : Nat → Tok} {F : Nat} {rs rs' : RState} (hI : RInv env F rs)
    {prod len : Nat} {pr : Prod} (hpr : env.g.prods[prod]? = some pr) (hlen : len ≤ pr.rhs.length)
    (hnul : ∀ Y ∈ pr.rhs.drop len, Nullable env.g Y) (haug : env.g.isAug prod = false)
    {startHead : Nat} {sh : Head} (hsh : rs.gss.heads[startHead]? = some sh) (htok : sh.tok.isSome = true)
    (hF : sh.frontier = F) {path : Path} (hp : PathOk env rs.gss prod len pr F 0 path)
    (hJ : JInv env tok rs.gss) (h : reducePath env prod startHead rs path = .ok rs') : JInv env tok rs'.gss := by
  obtain ⟨hI', hx⟩ := (reducePath_sat (A := True) hT hI hpr hlen hnul haug hsh htok hF hp).of_ok h
  obtain ⟨d, hf, hcase⟩ := reducePath_inv h
  have hdpr : d.pr = pr := by have := hf.hpr; rw [hpr] at this; injection this with this; exact this.symm
  cases hcase with
  | skip _ heq => rw [heq]; exact hJ
  | fold g1 sub1 hA hc ed hne hfh hed hnew heq =>
    simp only [Bool.or_eq_false_iff] at hnew
    obtain ⟨⟨hc0, he0⟩, _⟩ := hnew
    subst hc0
    have hg1 : g1 = rs.gss := by
      rcases findOrCreateHead_inv hfh with ⟨_, h1⟩ | ⟨_, h1⟩
      · injection h1 with h1 _;
      · injection h1 with _ h1; injection h1 with _ h1; injection h1 with _ h1; simp at h1
    have hE := foce_not_created he0
    have hgss : rs'.gss = replaceChildren (findOrCreateEdge g1 hA path.root).1 prod path.parents ed.poss := by
      rw [heq]
    rw [hE, hg1] at hgss
    have hsame : rs'.gss.heads = rs.gss.heads ∧ rs'.gss.edges = rs.gss.edges := by
      rw [hgss]
      cases replaceChildren_spec rs.gss prod path.parents ed.poss with
      | same h1 _ => rw [h1]; exact ⟨rfl, rfl⟩
      | one n0 sp l C0 _ _ _ _ h5 h6 _ => exact ⟨h5, h6⟩
    exact hJ.same hx (by rw [hsame.2]) (by rw [hsame.1])
  | new g1 sub1 hA hc ed span hne hfh hed hnew heq =>
    have hgss : rs'.gss = ((findOrCreateEdge g1 hA path.root).1.addNode
        (.nonterm prod span d.hr.lay path.parents)).1.pushPoss (findOrCreateEdge g1 hA path.root).2.1
        (findOrCreateEdge g1 hA path.root).1.nodes.size := by rw [heq]; rfl
    have hsub : rs'.sub = sub1 := by rw [heq]; rfl
    obtain ⟨hsrc, hdst⟩ := findOrCreateEdge_ends hed
    -- the head of the goto state
    have hmem : (d.s', hA) ∈ rs'.sub := by
      rw [hsub]
      rcases findOrCreateHead_inv hfh with ⟨h0, h1⟩ | ⟨_, h1⟩
      · injection h1 with _ h1; injection h1 with h1 _
        rw [h1]; exact sfGet_mem h0
      · injection h1 with _ h1; injection h1 with h1 h2; injection h2 with h2 _
        rw [h1, h2]; exact mem_sfInsert_self _ _ _
    obtain ⟨hdA, hhdA, hsA, hfA, _⟩ := hI'.sub _ _ hmem
    have hg1e : g1.edges = rs.gss.edges := by
      rcases findOrCreateHead_inv hfh with ⟨_, h1⟩ | ⟨_, h1⟩
      · injection h1 with h1 _; rw [h1]
      · injection h1 with h1 _; rw [h1]; rfl
    -- the new edge is derivable
    obtain ⟨⟨hr0, hhr0, hitem⟩, hdl, hchain⟩ := hp
    simp only [List.drop_zero] at hchain
    obtain ⟨hr, hhr, hder⟩ := reduce_der hJ hpr hnul hchain
    obtain ⟨hr', hhr', hrs, hrf, _⟩ := hx.heads _ hr hhr
    have hdhr : d.hr = hr := by have := hf.hhr; rw [hhr] at this; injection this with this; exact this.symm
    have hnt : env.g.nterms ≤ pr.lhs := (goto_spec (hdpr ▸ hf.hgoto)).1
    have htrans : env.t.trans env.g hr.state pr.lhs d.s' := by
      unfold Table.trans
      have : ¬ pr.lhs < env.g.nterms := by omega
      simp only [this, ↓reduceIte]
      have := hf.hgoto
      rw [hdpr, hdhr] at this
      exact this
    have hsym : env.t.symAt d.s' = pr.lhs := hT.sym _ _ _ htrans
    apply hJ.ext hx
    · intro e ed' he' hnone
      rw [hgss] at he'
      obtain ⟨ed0, he0, hs0, hd0⟩ := pushPoss_src_dst he'
      rw [addNode_edges] at he0
      rcases foce_edges_inv he0 with h1 | ⟨h1, h2⟩
      · rw [hg1e, hnone] at h1; simp at h1
      · refine ⟨hdA, hr', by rw [← hs0, h1]; exact hhdA, by rw [← hd0, h2]; exact hhr', ?_⟩
        rw [hsA, hsym, hrf, hfA]
        exact hder
    · intro h hd hh hnone
      rw [hgss, pushPoss_heads, addNode_heads, foce_heads] at hh
      have hhA : h = hA := by
        rcases findOrCreateHead_inv hfh with ⟨_, h1⟩ | ⟨_, h1⟩
        · injection h1 with h1 _
          rw [h1, hnone] at hh; simp at hh
        · injection h1 with h1 h2; injection h2 with _ h2; injection h2 with h2 _
          rw [h1, addHead_heads] at hh
          split at hh
          · rename_i heq'; rw [heq', h2]
          · rw [hnone] at hh; simp at hh
      subst hhA
      -- the edge down to the root
      have he1 : ((findOrCreateEdge g1 h path.root).1.addNode (.nonterm prod span d.hr.lay path.parents)).1.edges[
          (findOrCreateEdge g1 h path.root).2.1]? = some ed := by rw [addNode_edges]; exact hed
      have he2 := pushPoss_edges _ (findOrCreateEdge g1 h path.root).2.1 (findOrCreateEdge g1 h path.root).1.nodes.size ed he1
        (findOrCreateEdge g1 h path.root).2.1
      simp only [↓reduceIte] at he2
      rw [← hgss] at he2
      have hc := Conn.step _ _ he2 (by
        simp only
        rw [hdst]
        exact (hJ.conn _ hr hhr).ext hx)
      simpa [hsrc] using hc

theorem foldO_ok_ind {α σ : Type} {f : σ → α → Outcome σ} {I : σ → Prop} :
    ∀ (l : List α) (s s' : σ), (∀ a ∈ l, ∀ s1 s2, I s1 → f s1 a = .ok s2 → I s2) → I s → foldO f l s = .ok s' → I s'
  | [], s, s', _, hi, h => by simp only [foldO] at h; injection h with h; subst h; exact hi
  | a :: rest, s, s', hstep, hi, h => by
    simp only [foldO] at h
    obtain ⟨s1, h1, h2⟩ := obind_eq_ok h
    exact foldO_ok_ind rest s1 s' (fun b hb => hstep b (by simp [hb])) (hstep a (by simp) s s1 hi h1) h2

theorem reduceOne_J {env : Env} (hT : TableOk env) {tok : Nat → Tok} {F : Nat} {rs rs' : RState} (hI : RInv env F rs)
    {r : Reduction} (hr : RedOk env rs.gss F r) (hJ : JInv env tok rs.gss)
    (h : reduceOne env rs r = .ok rs') : JInv env tok rs'.gss := by
  obtain ⟨pr, hpr, hpaths⟩ := findReductionPaths_ok (A := True) hT hI.g hr
  obtain ⟨sh, pr', hpr', hlen, hnul, haug, htok, hF, hitem, hstart⟩ := hr
  rw [hpr] at hpr'; injection hpr' with hpr'; subst hpr'
  unfold reduceOne at h
  obtain ⟨startHead, hso, h⟩ := obind_eq_ok h
  obtain ⟨paths, hfp, h⟩ := obind_eq_ok h
  have hps := hpaths.of_ok hfp
  have hsh : rs.gss.heads[startHead]? = some sh := by
    unfold startHeadOf at hso
    cases hs : r.start with
    | edge e =>
      rw [hs] at hstart hso
      obtain ⟨ed, hed, hsh, _⟩ := hstart
      simp only [edge_sat' _ _ _ hed, obind] at hso
      injection hso with hso
      rw [← hso]; exact hsh
    | node n =>
      rw [hs] at hstart hso
      simp only at hso
      injection hso with hso
      rw [← hso]; exact hstart.1
  have key := foldO_ok_ind (I := fun rs1 => RInv env F rs1 ∧ Ext rs.gss rs1.gss ∧ JInv env tok rs1.gss) paths rs rs'
    (by
      intro q hq rs1 rs2 ⟨hI1, hx1, hJ1⟩ hstep
      obtain ⟨sh', hsh', _, hfr', htk'⟩ := hx1.heads _ sh hsh
      have hsat := (reducePath_sat (A := True) hT hI1 hpr hlen hnul haug hsh' (tok_isSome_ext htk' htok)
        (by rw [hfr', hF]) ((hps q hq).ext hx1)).of_ok hstep
      exact ⟨hsat.1, hx1.trans hsat.2, reducePath_J hT hI1 hpr hlen hnul haug hsh' (tok_isSome_ext htk' htok)
        (by rw [hfr', hF]) ((hps q hq).ext hx1) hJ1 hstep⟩)
    ⟨hI, Ext.refl _, hJ⟩ h
  exact key.2.2

theorem reducerLoop_J {env : Env} (hT : TableOk env) {tok : Nat → Tok} {F : Nat} :
    ∀ (fuel : Nat) (rs rs' : RState), RInv env F rs → JInv env tok rs.gss → reducerLoop env fuel rs = .ok rs' →
      JInv env tok rs'.gss
  | 0, _, _, _, _, h => by simp [reducerLoop] at h
  | fuel+1, rs, rs', hI, hJ, h => by
    unfold reducerLoop at h
    split at h
    · injection h with h; subst h; exact hJ
    · rename_i r rest hq
      obtain ⟨rs1, h1, h2⟩ := obind_eq_ok h
      have hr : RedOk env rs.gss F r := hI.lists.queue r (by rw [hq]; simp)
      have hI0 : RInv env F { rs with queue := rest } :=
        ⟨hI.g, hI.sub, ⟨fun x hx => hI.lists.queue x (by rw [hq]; simp [hx]), hI.lists.shifts, hI.lists.acc⟩⟩
      have hI1 := ((reduceOne_sat (A := True) hT hI0 hr).of_ok h1).1
      exact reducerLoop_J hT fuel rs1 rs' hI1 (reduceOne_J hT hI0 hr hJ h1) h2

theorem reduceAll_J {env : Env} (hT : TableOk env) {tok : Nat → Tok} {F : Nat} (fuel : Nat) :
    ∀ (fr : List ((Pos × Nat) × SubFrontier)) (qs : List (List Reduction)) (st st' : St),
      StOk env F st → FrontierOk st.gss F fr → (∀ q ∈ qs, ∀ r ∈ q, RedOk env st.gss F r) → JInv env tok st.gss →
      reduceAll env fuel fr qs st = .ok st' → JInv env tok st'.gss
  | [], _, st, st', _, _, _, hJ, h => by
    simp only [reduceAll] at h; injection h with h; subst h; exact hJ
  | sf :: rest, qs, st, st', hs, hf, hq, hJ, h => by
    unfold reduceAll at h
    obtain ⟨rs, h1, h2⟩ := obind_eq_ok h
    have hhead : ∀ r ∈ qs.headD [], RedOk env st.gss F r := by
      cases qs with
      | nil => simp
      | cons q _ => simpa using hq q (by simp)
    have hI : RInv env F ⟨st.gss, qs.headD [], st.shifts, st.accepted, sf.2⟩ :=
      ⟨hs.g, hf sf.1 sf.2 (by simp), ⟨hhead, hs.shifts, hs.acc⟩⟩
    obtain ⟨hI', hx'⟩ := (reducerLoop_sat (A := True) hT fuel _ hI).of_ok h1
    have hJ' := reducerLoop_J hT fuel _ rs hI hJ h1
    have hx'' : Ext st.gss rs.gss := hx'
    exact reduceAll_J hT fuel rest qs.tail { gss := rs.gss, shifts := rs.shifts, accepted := rs.accepted } st'
      ⟨hI'.g, hI'.lists.shifts, hI'.lists.acc⟩
      (FrontierOk.ext hx'' (fun k sub hm => hf k sub (List.mem_cons_of_mem _ hm)))
      (fun q hq' r hr => (hq q (List.mem_of_mem_tail hq') r hr).ext hx'') hJ' h2

/-! ## the shifter: every new head gets an edge -/

def ConnAll (g : Gss) : Prop := ∀ (h : Nat) (hd : Head), g.heads[h]? = some hd → Conn g h

theorem ext_addSolution (g : Gss) (s d n : Nat) : Ext g (g.addSolution s d n) := by
  unfold Gss.addSolution
  split
  · exact ext_pushPoss g _ n
  · exact ext_addEdge g s d [n]

theorem addSolution_heads (g : Gss) (s d n : Nat) : (g.addSolution s d n).heads = g.heads := by
  unfold Gss.addSolution
  split
  · exact pushPoss_heads g _ n
  · rfl

theorem addSolution_edge (g : Gss) (s d n : Nat) :
    ∃ (e : Nat) (ed : Edge), (g.addSolution s d n).edges[e]? = some ed ∧ ed.src = s ∧ ed.dst = d := by
  unfold Gss.addSolution
  split
  · rename_i e hb
    obtain ⟨ed, hed, hs, hd⟩ := edgeBetween_some hb
    refine ⟨e, { ed with poss := ed.poss ++ [n] }, ?_, hs, hd⟩
    rw [pushPoss_edges g e n ed hed]; simp
  · exact ⟨g.edges.size, ⟨s, d, [n]⟩, by rw [addEdge_edges]; simp, rfl, rfl⟩

theorem shiftOne_conn {env : Env} {F : Nat} {acc acc' : Gss × BaseMap} {sh : Nat × Nat} (hc : ConnAll acc.1)
    (h : shiftOne env F acc sh = .ok acc') : ConnAll acc'.1 := by
  unfold shiftOne at h
  obtain ⟨hd, hhd, h⟩ := obind_eq_ok h
  obtain ⟨tk, _, h⟩ := obind_eq_ok h
  have hhd' := head_eq_ok hhd
  simp only at h
  split at h
  · rename_i shifted _
    obtain ⟨shd, _, h⟩ := obind_eq_ok h
    injection h with h; subst h
    simp only
    have hx : Ext acc.1 ((acc.1.addNode (.term tk tk.span)).1.addSolution shifted sh.1 (acc.1.addNode (.term tk tk.span)).2) :=
      (ext_addNode _ _).trans (ext_addSolution _ _ _ _)
    intro h0 hd0 hh0
    rw [addSolution_heads, addNode_heads] at hh0
    exact (hc h0 hd0 hh0).ext hx
  · injection h with h; subst h
    simp only
    have hx : Ext acc.1 (((acc.1.addHead ⟨sh.2, F, posAfter (sliceOf env.input tk.val) hd.pos, tk.span, none, none⟩).1.addNode
        (.term tk tk.span)).1.addSolution (acc.1.addHead ⟨sh.2, F, posAfter (sliceOf env.input tk.val) hd.pos, tk.span, none, none⟩).2 sh.1
        ((acc.1.addHead ⟨sh.2, F, posAfter (sliceOf env.input tk.val) hd.pos, tk.span, none, none⟩).1.addNode (.term tk tk.span)).2) :=
      ((ext_addHead _ _).trans (ext_addNode _ _)).trans (ext_addSolution _ _ _ _)
    intro h0 hd0 hh0
    have hh1 := hh0
    rw [addSolution_heads, addNode_heads, addHead_heads] at hh1
    split at hh1
    · rename_i heq
      obtain ⟨e, ed, he, hs, hdst⟩ := addSolution_edge
        ((acc.1.addHead ⟨sh.2, F, posAfter (sliceOf env.input tk.val) hd.pos, tk.span, none, none⟩).1.addNode (.term tk tk.span)).1
        (acc.1.addHead ⟨sh.2, F, posAfter (sliceOf env.input tk.val) hd.pos, tk.span, none, none⟩).2 sh.1
        ((acc.1.addHead ⟨sh.2, F, posAfter (sliceOf env.input tk.val) hd.pos, tk.span, none, none⟩).1.addNode (.term tk tk.span)).2
      have := Conn.step e ed he (by rw [hdst]; exact (hc sh.1 hd hhd').ext hx)
      rw [hs, addHead_idx] at this
      rw [heq]; exact this
    · exact (hc h0 hd0 hh1).ext hx

theorem shifter_conn {env : Env} {F : Nat} {st st' : St} {base' : List Nat} (hc : ConnAll st.gss)
    (h : shifter env F st = .ok (st', base')) : ConnAll st'.gss := by
  unfold shifter at h
  obtain ⟨r, h1, h2⟩ := obind_eq_ok h
  injection h2 with h2
  injection h2 with e1 _
  rw [← e1]
  exact foldO_ok_ind (I := fun acc => ConnAll acc.1) st.shifts (st.gss, []) r
    (fun sh _ s1 s2 hi hs => shiftOne_conn hi hs) hc h1

/-! ## one level -/

theorem kindsOf_one (tok : Nat → Tok) (k : Nat) : kindsOf tok k (k + 1) = [(tok k).kind] := by
  rw [kindsOf_cons tok (Nat.lt_succ_self k), kindsOf_self]

/-- **every level of the run keeps `JInv`** -/
theorem frontierStep_J {env : Env} (hT : TableOk env) (hC : CompleteRN env.g env.t) (hW : GWF env.g)
    {pp : Bool} {fuel n : Nat} {tok : Nat → Tok} {P L : Nat → Pos}
    (hL : LexDet env pp fuel n tok P L) {F : Nat} (hF : F ≤ n) {st st' : St} {base base' : List Nat}
    {subs : Nat → SubFrontier} (RI : RunInv env tok P F st base subs) (hJ : JInv env tok st.gss)
    (hok : frontierStep env pp fuel F st base = .ok (st', base')) : JInv env tok st'.gss := by
  obtain ⟨hlast, _⟩ := frontierStep_run hT hC hW hC.noShiftStop hL hF RI hok
  obtain ⟨g1, fr, qs, st2, st3, sub0, sub, m, done, hcf, hip, hra, hsh, hedges1, heads1, _, hs1, _, _, mid, _, hbase', si, _⟩ :=
    frontierStep_parts hT hC hW hC.noShiftStop hL hF RI hok
  -- create_frontier
  have hsat1 := createFrontier_sat (A := True) (fun h => absurd True.intro h) pp fuel RI.sok.g RI.bok
  unfold createFrontier at hsat1
  rw [hcf] at hsat1
  obtain ⟨_, hx1, hfr⟩ := hsat1
  simp only at hx1 hfr
  have hJ1 : JInv env tok g1 := by
    apply hJ.ext hx1.ext
    · intro e ed he hnone
      rw [hedges1, hnone] at he; simp at he
    · intro h hd hh hnone
      obtain ⟨y, hy, _⟩ := heads1 h hd hh
      rw [hnone] at hy; simp at hy
  -- initial_process_frontier, the reducer
  obtain ⟨hs2, hg2, hq⟩ := (initialProcess_sat (A := True) hT hs1 hfr).of_ok hip
  simp only at hs2 hg2 hq
  have hJ3 : JInv env tok st3.gss :=
    reduceAll_J hT fuel fr qs st2 st3 hs2 (by rw [hg2]; exact hfr) (by rw [hg2]; exact hq) (by rw [hg2]; exact hJ1) hra
  -- the shifter
  obtain ⟨hst', hx3, _, _⟩ := (shifter_sat (A := True) hT mid.st).of_ok hsh
  simp only at hst' hx3
  apply hJ3.ext hx3
  · intro e ed he hnone
    obtain ⟨hs, hd, hhs, hhd, _, _⟩ := (hst'.g.edges e ed he).ends
    have hle := si.gu.noAbove _ hs hhs
    rcases Nat.lt_or_ge hs.frontier (F + 1) with hlt | hge
    · have := si.frame.edges_bwd e ed hs he hhs hlt
      rw [hnone] at this; simp at this
    · have heq : hs.frontier = F + 1 := by omega
      obtain ⟨hd', hhd', hdf⟩ := si.down e ed hs he hhs heq
      rw [hhd] at hhd'; injection hhd' with hhd'; subst hhd'
      obtain ⟨k, hk⟩ := si.level _ hs hhs heq
      obtain ⟨_, q2, hv, q3, q4, _⟩ := si.map k _ hk
      rw [hhs] at q3; injection q3 with q3; subst q3
      have hFn : F < n := by
        rcases Nat.lt_or_ge F n with h1 | h1
        · exact h1
        · have hb := hlast (by omega)
          rw [hb] at hbase'
          cases m with
          | nil => simp at hk
          | cons x xs => simp at hbase'
      refine ⟨hs, hd, hhs, hhd, by omega, .leaf (tok F).kind default default none, ?_, ?_⟩
      · rw [q4, q2]; exact ⟨rfl, (hL.terms F hFn).2⟩
      · rw [hdf, heq, kindsOf_one]; rfl
  · intro h hd hh _
    exact shifter_conn hJ3.conn hsh h hd hh

end Rustemo.Glr
