import Rustemo.Proofs.TableSafe1
import Rustemo.Proofs.TableFinish
/-!
# Table construction never panics, part 2: `calc_states`, `propagate_follows`
-/
namespace Rustemo.Table

variable {g : Grammar} {fs : Array (List Nat)} {tt : String} {rn : Option (Array Nat)}

theorem newOk_sym (hg : GW g) {items : List Item} {X : Nat} {new : List Item} (hn : NewOk g items X new) :
    X < g.nterms + g.nnonterms := by
  cases hl : new with
  | nil => exact absurd hl hn.ne
  | cons n ns =>
    obtain ⟨src, _, s2, _⟩ := hn.succ n (by rw [hl]; exact List.mem_cons_self)
    exact (nextSym_pos hg s2).2.1

theorem linkTo_ok' {cur X tgt : Nat} {sts : Array State} {stc : State} (hc : sts[cur]? = some stc)
    (hst : StOk g stc) (hX : X < g.nterms + g.nnonterms) :
    ∃ stc', addTrans g stc X tgt = .ok stc' ∧ linkTo g cur X tgt sts = .ok (sts.setIfInBounds cur stc') := by
  obtain ⟨stc', ha⟩ := addTrans_ok' hst.asize hst.gsize hX tgt
  refine ⟨stc', ha, ?_⟩
  unfold linkTo
  rw [hc]
  simp only [ha]

theorem linkStates_ok (hg : GW g) {autos : List (Nat × Nat)} {items : List Item} {cur : Nat} :
    ∀ (groups : List (Nat × List Item)) (sts : Array State), (∀ e ∈ groups, NewOk g items e.1 e.2) →
      Inv g autos sts → (∃ stc, sts[cur]? = some stc ∧ stc.items.map core = items.map core) →
      ∃ sts', linkStates g tt rn cur groups sts = .ok sts'
  | [], sts, _, _, _ => ⟨sts, rfl⟩
  | e :: rest, sts, hG, hI, hcur => by
    obtain ⟨X, new⟩ := e
    have hn := hG (X, new) List.mem_cons_self
    have hX := newOk_sym hg hn
    obtain ⟨stc0, c1, c2⟩ := hcur
    have hcl := lt_size_of_getElem? c1
    unfold linkStates
    obtain ⟨r, hr⟩ := tryMerge_ok (g := g) tt rn sts new (searchOrder sts.size cur)
    rw [hr]
    cases r with
    | some p =>
      obtain ⟨tgt, sts1⟩ := p
      simp only
      obtain ⟨st, items', m1, m2, m3⟩ := tryMerge_some hr
      subst m3
      have hI1 := hI.setItems_grown m1 (mergeState_grown m2)
      have hc1 : cur < (setItems sts tgt items').size := by rw [size_setItems]; exact hcl
      obtain ⟨stc, hstc⟩ : ∃ stc, (setItems sts tgt items')[cur]? = some stc :=
        ⟨_, Array.getElem?_eq_getElem hc1⟩
      obtain ⟨stc', a1, a2⟩ := linkTo_ok' (tgt := tgt) hstc (hI1.st cur stc hstc) hX
      rw [a2]
      simp only [Res.bind_ok_eq]
      have hstep : LinkStep g tt rn cur X new sts ((setItems sts tgt items').setIfInBounds cur stc') :=
        .merge tgt st items' stc stc' m1 m2 hstc a1 rfl
      obtain ⟨hI2, hcur2⟩ := Inv.linkStep hn hI ⟨stc0, c1, c2⟩ hstep
      exact linkStates_ok hg rest _ (fun e he => hG e (List.mem_cons_of_mem _ he)) hI2 hcur2
    | none =>
      simp only
      have hI1 : Inv g autos (sts.push (freshState g X new)) := hI.push hn.ok hn.nodup hn.dot
      have hstc : (sts.push (freshState g X new))[cur]? = some stc0 := by
        rw [Array.getElem?_push, if_neg (by omega)]; exact c1
      obtain ⟨stc', a1, a2⟩ := linkTo_ok' (tgt := sts.size) hstc (hI1.st cur stc0 hstc) hX
      rw [a2]
      simp only [Res.bind_ok_eq]
      have hstep : LinkStep g tt rn cur X new sts ((sts.push (freshState g X new)).setIfInBounds cur stc') :=
        .push stc0 stc' c1 a1 rfl
      obtain ⟨hI2, hcur2⟩ := Inv.linkStep hn hI ⟨stc0, c1, c2⟩ hstep
      exact linkStates_ok hg rest _ (fun e he => hG e (List.mem_cons_of_mem _ he)) hI2 hcur2

theorem acceptInit_ok (hg : GW g) (st : State) (items : List Item) :
    acceptInit st (perNextSymbol g items) = .ok st := by
  unfold acceptInit
  have hno : (perNextSymbol g items).any (fun e => e.1 == 0) = false := by
    apply Bool.eq_false_iff.mpr
    intro hc
    obtain ⟨e, he, h0⟩ := List.any_eq_true.mp hc
    simp only [beq_iff_eq] at h0
    obtain ⟨h1, h2⟩ := perNextSymbol_mem he
    cases hl : e.2 with
    | nil => exact h2 hl
    | cons x xs =>
      have : x ∈ items.filter (nextIs g e.1) := by rw [← h1, hl]; exact List.mem_cons_self
      have hx := nextIs_iff.mp (List.mem_filter.mp this).2
      have := (nextSym_pos hg hx).1
      omega
  rw [hno]
  simp

theorem stepState_safe (hg : GW g) (hw : FsWf g fs) {autos : List (Nat × Nat)} {fuel cur : Nat}
    {sts : Array State} (hI : Inv g autos sts) (hc : cur < sts.size) :
    (stepState g fs tt rn fuel cur sts).Safe := by
  unfold stepState
  rw [Array.getElem?_eq_getElem hc]
  simp only
  have h1 : sts[cur]? = some sts[cur] := Array.getElem?_eq_getElem hc
  have hst := hI.st cur _ h1
  apply Res.Safe.bind (closure_safe hg hw fuel _ hst.items)
  intro items hcl
  rw [acceptInit_ok hg]
  simp only [Res.bind_ok_eq]
  have hrel := closure_rel hcl hst.items hst.nodup
  have hI1 : Inv g autos (sts.setIfInBounds cur { sts[cur] with items := items, maxPrio := maxPrioOf g items }) := by
    apply hI.update h1
    · exact ⟨hst.asize, hst.gsize, hrel.ok, hrel.nodup, hst.cells⟩
    · rfl
    · rfl
    · exact hrel.mono
    · intro it' hit'
      rcases hrel.back it' hit' with ⟨it0, h', h'', _⟩ | ⟨h', h''⟩
      · exact .inl ⟨it0, h', h''⟩
      · exact .inr ⟨h', h''.not_aug hg⟩
  exact .of_ok (linkStates_ok hg (newStates g items) _ (fun e he => newOk_of_mem hg hrel.nodup he) hI1
    ⟨_, by rw [get_upd h1, if_pos rfl], rfl⟩)

theorem calcLoop_safe (hg : GW g) (hw : FsWf g fs) {autos : List (Nat × Nat)} {fuel : Nat} :
    ∀ (n cur : Nat) (sts : Array State), Inv g autos sts → (calcLoop g fs tt rn fuel n cur sts).Safe := by
  intro n
  induction n with
  | zero =>
    intro cur sts _
    unfold calcLoop
    split
    · exact .inr rfl
    · exact .inl ⟨_, rfl⟩
  | succ n ih =>
    intro cur sts hI
    unfold calcLoop
    split
    · rename_i hc
      apply Res.Safe.bind (stepState_safe hg hw hI hc)
      intro sts1 h1
      exact ih (cur + 1) sts1 (Inv.stepState hg hI hc h1).1
    · exact .inl ⟨_, rfl⟩

theorem calcStates_safe (hg : GW g) (hw : FsWf g fs) {autos : List (Nat × Nat)} {fuel sym : Nat} {sts : Array State}
    (hI : Inv g autos sts) (h1 : g.nterms ≤ sym) (h2 : sym < g.nterms + g.nnonterms) {p : Nat}
    (h3 : Canon.prodsOf g sym = [p]) : (calcStates g fs tt rn fuel sym sts).Safe := by
  unfold calcStates
  have : (decide (sym < g.nterms) || decide (g.nnonterms ≤ sym - g.nterms)) = false := by
    simp only [Bool.or_eq_false_iff, decide_eq_false_iff_not]; omega
  rw [this, h3]
  simp only [Bool.false_eq_true, if_false]
  obtain ⟨pr, hp, _⟩ := prodsOf_mem (by rw [h3]; exact List.mem_cons_self : p ∈ Canon.prodsOf g sym)
  exact calcLoop_safe hg hw fuel sts.size _ (hI.pushStart hp)

/-! ## `propagate_follows` -/

theorem propItems_ok (fixed : Option (List Item)) : ∀ (todo done : List Item) (ch : Bool),
    (∀ tit ∈ todo, isKernel tit = true → tit.dot ≠ 0) → ∃ r, propItems fixed done todo ch = .ok r
  | [], done, ch, _ => ⟨_, rfl⟩
  | it :: todo, done, ch, h => by
    unfold propItems
    have hrest : ∀ tit ∈ todo, isKernel tit = true → tit.dot ≠ 0 := fun t ht => h t (List.mem_cons_of_mem _ ht)
    by_cases hk : isKernel it = true
    · rw [if_pos hk]
      have hd := h it List.mem_cons_self hk
      have : ∃ r, propItem (fixed.getD (done ++ it :: todo)) it = .ok r := by
        unfold propItem
        rw [if_neg hd]
        split
        · exact ⟨_, rfl⟩
        · exact ⟨_, rfl⟩
      obtain ⟨r, hr⟩ := this
      rw [hr]
      exact propItems_ok fixed todo _ _ hrest
    · rw [if_neg hk]
      exact propItems_ok fixed todo _ _ hrest

/-- the targets `propagate_follows` visits from a state are recorded transitions of it -/
theorem targetsOf_hasTrans {st : State} (ha : st.actions.size = g.nterms) {j : Nat} (h : j ∈ targetsOf st) :
    ∃ X, HasTrans g st X j := by
  unfold targetsOf at h
  rcases List.mem_append.mp h with h' | h'
  · obtain ⟨o, h1, h2⟩ := List.mem_filterMap.mp h'
    simp only [id] at h2
    subst h2
    obtain ⟨idx, hidx, hget⟩ := List.getElem_of_mem h1
    simp only [Array.length_toList] at hidx
    simp only [Array.getElem_toList] at hget
    refine ⟨g.nterms + idx, .inr ⟨by omega, ?_⟩⟩
    rw [Nat.add_sub_cancel_left, Array.getD_eq_getD_getElem?, Array.getElem?_eq_getElem hidx, hget]
    rfl
  · obtain ⟨c, h1, h2⟩ := List.mem_flatMap.mp h'
    obtain ⟨act, h3, h4⟩ := List.mem_filterMap.mp h2
    obtain ⟨idx, hidx, hget⟩ := List.getElem_of_mem h1
    simp only [Array.length_toList] at hidx
    simp only [Array.getElem_toList] at hget
    cases act with
    | shift s' =>
      simp only [shiftTgt, Option.some.injEq] at h4
      subst h4
      refine ⟨idx, .inl ⟨by omega, ?_⟩⟩
      rw [Array.getD_eq_getD_getElem?, Array.getElem?_eq_getElem hidx, hget]
      exact h3
    | reduce p l => simp [shiftTgt] at h4
    | accept => simp [shiftTgt] at h4

/-- a kernel item of a transition's target has its dot after a symbol -/
theorem target_kernel_dot (hg : GW g) {autos : List (Nat × Nat)} {sts : Array State} (hI : Inv g autos sts)
    (_haut : ∀ e ∈ autos, AugProd g e.2 → True) {i : Nat} {st : State} (hi : sts[i]? = some st) {X j : Nat}
    (ht : HasTrans g st X j) :
    ∃ sj, sts[j]? = some sj ∧ ∀ tit ∈ sj.items, isKernel tit = true → tit.dot ≠ 0 := by
  obtain ⟨t1, t2, _⟩ := hI.trans i st hi X j ht
  refine ⟨sts[j], Array.getElem?_eq_getElem t1, ?_⟩
  intro tit htit hk hd
  unfold isKernel at hk
  simp only [Bool.or_eq_true, decide_eq_true_eq, beq_iff_eq] at hk
  have hp : tit.prod = 0 := by omega
  obtain ⟨pr0, p1, p2, _⟩ := hg.aug0
  have := hI.augs j _ (Array.getElem?_eq_getElem t1) tit htit hd (by rw [hp]; exact ⟨pr0, p1, .inl p2⟩)
  exact t2 _ this rfl

theorem propEdge_ok' (hg : GW g) {autos : List (Nat × Nat)} {sts : Array State} (hI : Inv g autos sts) {i j : Nat}
    (hi : i < sts.size) (hj : j ∈ targetsOf (sts.getD i default)) : ∃ r, propEdge sts i j = .ok r := by
  have h1 : sts[i]? = some sts[i] := Array.getElem?_eq_getElem hi
  have hgd : sts.getD i default = sts[i] := by rw [Array.getD_eq_getD_getElem?, h1]; rfl
  rw [hgd] at hj
  obtain ⟨X, ht⟩ := targetsOf_hasTrans (g := g) (hI.st i _ h1).asize hj
  obtain ⟨sj, s1, s2⟩ := target_kernel_dot hg hI (fun _ _ _ => trivial) h1 ht
  unfold propEdge
  rw [h1, s1]
  simp only
  obtain ⟨r, hr⟩ := propItems_ok (if i = j then none else some sts[i].items) sj.items [] false s2
  rw [hr]
  exact ⟨_, rfl⟩

theorem targetsOf_setItems (sts : Array State) (k : Nat) (items : List Item) (i : Nat) :
    targetsOf ((setItems sts k items).getD i default) = targetsOf (sts.getD i default) := by
  simp only [Array.getD_eq_getD_getElem?, getElem?_setItems]
  by_cases hki : k = i
  · rw [if_pos hki]
    cases sts[i]? with
    | none => rfl
    | some st => rfl
  · rw [if_neg hki]

theorem propTargets_ok (hg : GW g) {autos : List (Nat × Nat)} {i : Nat} : ∀ (l : List Nat) (sts : Array State)
    (ch : Bool), Inv g autos sts → i < sts.size → (∀ j ∈ l, j ∈ targetsOf (sts.getD i default)) →
    ∃ r, propTargets i l sts ch = .ok r ∧ Inv g autos r.1 ∧ r.1.size = sts.size ∧
      targetsOf (r.1.getD i default) = targetsOf (sts.getD i default)
  | [], sts, ch, hI, _, _ => ⟨_, rfl, hI, rfl, rfl⟩
  | j :: rest, sts, ch, hI, hi, hl => by
    obtain ⟨r, hr⟩ := propEdge_ok' hg hI hi (hl j List.mem_cons_self)
    obtain ⟨sts1, c⟩ := r
    obtain ⟨sj, items, e1, e2, e3⟩ := propEdge_grown hi hr
    subst e3
    have hI1 := hI.setItems_grown e1 e2
    have ht := targetsOf_setItems sts j items i
    obtain ⟨r2, h2, h3, h4, h5⟩ := propTargets_ok hg rest (setItems sts j items) (ch || c) hI1
      (by rw [size_setItems]; exact hi)
      (fun k hk => by rw [ht]; exact hl k (List.mem_cons_of_mem _ hk))
    refine ⟨r2, ?_, h3, by rw [h4, size_setItems], by rw [h5, ht]⟩
    unfold propTargets
    rw [hr]
    exact h2

theorem propStates_ok (hg : GW g) {autos : List (Nat × Nat)} : ∀ (l : List Nat) (sts : Array State) (ch : Bool),
    Inv g autos sts → (∀ i ∈ l, i < sts.size) → ∃ r, propStates l sts ch = .ok r
  | [], sts, ch, _, _ => ⟨_, rfl⟩
  | i :: rest, sts, ch, hI, hl => by
    obtain ⟨r, h1, h2, h3, _⟩ := propTargets_ok hg (targetsOf (sts.getD i default)) sts false hI
      (hl i List.mem_cons_self) (fun _ h => h)
    obtain ⟨sts1, c⟩ := r
    obtain ⟨r2, hr2⟩ := propStates_ok hg rest sts1 (ch || c) h2
      (fun k hk => by simp only at h3; rw [h3]; exact hl k (List.mem_cons_of_mem _ hk))
    refine ⟨r2, ?_⟩
    unfold propStates
    rw [h1]
    exact hr2

theorem refreshStates_safe (hg : GW g) (hw : FsWf g fs) {autos : List (Nat × Nat)} {fuel : Nat} :
    ∀ (l : List Nat) (sts : Array State), Inv g autos sts → (∀ i ∈ l, i < sts.size) →
      (refreshStates g fs fuel l sts).Safe
  | [], sts, _, _ => .inl ⟨_, rfl⟩
  | i :: rest, sts, hI, hl => by
    have hi := hl i List.mem_cons_self
    have h1 : sts[i]? = some sts[i] := Array.getElem?_eq_getElem hi
    have hgd : sts.getD i default = sts[i] := by rw [Array.getD_eq_getD_getElem?, h1]; rfl
    unfold refreshStates
    rw [hgd]
    rcases closure_safe hg hw fuel _ (hI.st i _ h1).items with ⟨items, hc⟩ | hc
    · rw [hc]
      simp only
      exact refreshStates_safe hg hw rest _ (hI.closeAt hg h1 hc)
        (fun k hk => by rw [size_setItems]; exact hl k (List.mem_cons_of_mem _ hk))
    · rw [hc]; exact .inr rfl

theorem propagate_safe (hg : GW g) (hw : FsWf g fs) {autos : List (Nat × Nat)} {fuel : Nat} :
    ∀ (n : Nat) (sts : Array State), Inv g autos sts → (propagate g fs fuel n sts).Safe := by
  intro n
  induction n with
  | zero => intro sts _; exact .inr rfl
  | succ n ih =>
    intro sts hI
    unfold propagate
    have hround : (propRound g fs fuel sts).Safe ∧ ∀ r, propRound g fs fuel sts = .ok r → Inv g autos r.1 := by
      unfold propRound
      refine ⟨?_, ?_⟩
      · apply Res.Safe.bind (refreshStates_safe hg hw _ sts hI (fun i hi => List.mem_range.mp hi))
        intro sts1 h1
        obtain ⟨a1, _⟩ := refreshStates_induct (g := g) (fs := fs) (fuel := fuel) (Inv g autos)
          (fun s i st items hJ hi hc => hJ.closeAt hg hi hc) _ sts sts1 (fun i hi => List.mem_range.mp hi) h1 hI
        exact .of_ok (propStates_ok hg _ sts1 false a1 (fun i hi => List.mem_range.mp hi))
      · intro r hr
        obtain ⟨sts1, h1, h2⟩ := Res.bind_ok hr
        obtain ⟨a1, _⟩ := refreshStates_induct (g := g) (fs := fs) (fuel := fuel) (Inv g autos)
          (fun s i st items hJ hi hc => hJ.closeAt hg hi hc) _ sts sts1 (fun i hi => List.mem_range.mp hi) h1 hI
        exact (propStates_induct (Inv g autos) (fun s s' i j ch hJ hi he => by
          obtain ⟨sj, items, e1, e2, e3⟩ := propEdge_grown hi he
          subst e3
          exact ⟨hJ.setItems_grown e1 e2, size_setItems _ _ _⟩) _ sts1 r.1 false r.2
          (fun i hi => List.mem_range.mp hi) h2 a1).1
    obtain ⟨hs, hinv⟩ := hround
    rcases hs with ⟨r, hr⟩ | hr
    · obtain ⟨sts1, b⟩ := r
      rw [hr]
      cases b with
      | true => exact ih sts1 (hinv _ hr)
      | false => exact .inl ⟨_, rfl⟩
    · rw [hr]; exact .inr rfl

end Rustemo.Table
