import Rustemo.Proofs.GlrForest
/-!
# The engine theorems from the executable certificate
-/
namespace Rustemo.Glr
open Rustemo

theorem tableOk_of_cert (env : Env) (h : Cert.glr env.g env.t = true) : TableOk env := by
  unfold Cert.glr at h
  simp only [Bool.and_eq_true] at h
  obtain ⟨⟨⟨h1, h2⟩, h3⟩, h4⟩ := h
  exact ⟨Cert.structuralRN_sound _ _ _ _ (Cert.nulOk_sound _ _ h1) h2, Cert.symbolsOk_sound _ _ h3,
    Cert.total_sound _ _ _ h4⟩

theorem layoutSafe_of_none (env : Env) (h : env.t.layoutState = none) : LayoutSafe env := by
  intro ls hls; rw [h] at hls; simp at hls

/-- for a table without right-nulled entries the LR theorem covers the layout parser -/
theorem layoutSafe_of_lr (env : Env) (h : Cert.lr env.g env.t = true) : LayoutSafe env := by
  intro ls hls ctx fuel
  unfold Cert.lr at h
  simp only [Bool.and_eq_true] at h
  obtain ⟨⟨hs, _⟩, hl⟩ := h
  rw [hls] at hl
  simp only [Bool.and_eq_true, List.any_eq_true, beq_iff_eq] at hl
  obtain ⟨⟨au, hau, hst⟩, htl⟩ := hl
  have hS := Cert.structural_sound _ _ _ hs
  have hT := Cert.total_sound _ _ _ htl
  unfold layoutParse
  exact parseWith_no_panic env _ (autosOf env.g env.t) au hau ls hst.symm hS hT (ntGood_base env ls hT true) _
    hT.start_ok fuel

theorem toksOf_kinds :
    (∀ t : Tree, (toksOf t).map (·.kind) = t.yield) ∧ (∀ ts : TreeList, (toksOfList ts).map (·.kind) = ts.yield) := by
  constructor
  · intro t
    exact Tree.rec (motive_1 := fun t => (toksOf t).map (·.kind) = t.yield)
      (motive_2 := fun ts => (toksOfList ts).map (·.kind) = ts.yield)
      (fun k sp v l => by simp [toksOf, Tree.yield])
      (fun p sp l cs ih => by simpa [toksOf, Tree.yield] using ih)
      (by simp [toksOfList, TreeList.yield])
      (fun t ts h1 h2 => by simp [toksOfList, TreeList.yield, h1, h2]) t
  · intro ts
    exact TreeList.rec (motive_1 := fun t => (toksOf t).map (·.kind) = t.yield)
      (motive_2 := fun ts => (toksOfList ts).map (·.kind) = ts.yield)
      (fun k sp v l => by simp [toksOf, Tree.yield])
      (fun p sp l cs ih => by simpa [toksOf, Tree.yield] using ih)
      (by simp [toksOfList, TreeList.yield])
      (fun t ts h1 h2 => by simp [toksOfList, TreeList.yield, h1, h2]) ts

/-- soundness of the engine model (no assumption on the layout parser: panics are not results) -/
theorem parse_sound (env : Env) (hcert : Cert.glr env.g env.t = true) (pp : Bool) (fuel : Nat) (r : GlrResult)
    (h : parse env pp fuel = .ok r) : ResultOk env r := by
  have := parse_sat (A := True) (tableOk_of_cert env hcert) (fun h => absurd trivial h) pp fuel
  rw [h] at this
  exact this

theorem parse_no_panic (env : Env) (hcert : Cert.glr env.g env.t = true) (hl : LayoutSafe env) (pp : Bool)
    (fuel : Nat) (site : String) : parse env pp fuel ≠ .panic site :=
  (parse_sat (A := False) (tableOk_of_cert env hcert) (fun _ => hl) pp fuel).not_panic site

end Rustemo.Glr
