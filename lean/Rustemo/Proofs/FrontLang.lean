import Rustemo.Model.Front.Doc
/-!
# Language of the repetition helper rules (pure grammar theory over `Front.Grammar`)

`Derives g H w` for a nonterminal `H` that has exactly the documented right-hand sides.
-/
namespace Rustemo.Front

theorem SeqOf.mono {D D' : Nat → List Nat → Prop} (h : ∀ X u, D X u → D' X u) :
    ∀ {Xs w}, SeqOf D Xs w → SeqOf D' Xs w
  | [], _, hw => hw
  | _ :: _, _, ⟨u, v, e, hd, hs⟩ => ⟨u, v, e, h _ _ hd, SeqOf.mono h hs⟩

theorem DerivesN.succ (g : Grammar) : ∀ {n X w}, DerivesN g n X w → DerivesN g (n + 1) X w
  | 0, _, _, h => h.elim
  | n + 1, X, w, h => by
    rcases h with h | ⟨p, hp, hl, hs⟩
    · exact Or.inl h
    · exact Or.inr ⟨p, hp, hl, SeqOf.mono (fun _ _ hd => DerivesN.succ g hd) hs⟩

theorem DerivesN.mono (g : Grammar) {n m X w} (hnm : n ≤ m) (h : DerivesN g n X w) : DerivesN g m X w := by
  induction hnm with
  | refl => exact h
  | step _ ih => exact DerivesN.succ g ih

theorem Derives.term {g : Grammar} {X : Nat} (h : X < g.nT) : Derives g X [X] :=
  ⟨1, Or.inl ⟨h, rfl⟩⟩

/-- a bounded sequence derivation from an unbounded one -/
theorem SeqOf.bound {g : Grammar} : ∀ {Xs w}, SeqOf (Derives g) Xs w → ∃ n, SeqOf (DerivesN g n) Xs w
  | [], _, hw => ⟨0, hw⟩
  | _ :: _, _, ⟨u, v, e, ⟨n, hd⟩, hs⟩ => by
    obtain ⟨m, hm⟩ := SeqOf.bound hs
    exact ⟨max n m, u, v, e, DerivesN.mono g (Nat.le_max_left _ _) hd,
      SeqOf.mono (fun _ _ hx => DerivesN.mono g (Nat.le_max_right _ _) hx) hm⟩

theorem derives_nonterm_iff {g : Grammar} {X : Nat} {w : List Nat} (hX : g.nT ≤ X) :
    Derives g X w ↔ ∃ p, p ∈ g.prods ∧ g.nT + p.nonterminal = X ∧ DerivesSeq g p.rhsSyms w := by
  constructor
  · rintro ⟨n, h⟩
    cases n with
    | zero => exact h.elim
    | succ n =>
      rcases h with ⟨hlt, _⟩ | ⟨p, hp, hl, hs⟩
      · exact absurd hlt (Nat.not_lt.mpr hX)
      · exact ⟨p, hp, hl, SeqOf.mono (fun _ _ hd => ⟨n, hd⟩) hs⟩
  · rintro ⟨p, hp, hl, hs⟩
    obtain ⟨n, hn⟩ := SeqOf.bound hs
    exact ⟨n + 1, Or.inr ⟨p, hp, hl, hn⟩⟩

theorem derives_term_iff {g : Grammar} {X : Nat} {w : List Nat} (hX : X < g.nT) :
    Derives g X w ↔ w = [X] := by
  constructor
  · rintro ⟨n, h⟩
    cases n with
    | zero => exact h.elim
    | succ n =>
      rcases h with ⟨_, e⟩ | ⟨p, _, hl, _⟩
      · exact e
      · omega
  · rintro rfl
    exact Derives.term hX

theorem derivesSeq_nil {g : Grammar} {w : List Nat} : DerivesSeq g [] w ↔ w = [] := Iff.rfl

theorem derivesSeq_cons {g : Grammar} {X : Nat} {Xs : List Nat} {w : List Nat} :
    DerivesSeq g (X :: Xs) w ↔ ∃ u v, w = u ++ v ∧ Derives g X u ∧ DerivesSeq g Xs v := Iff.rfl

theorem derivesSeq_single {g : Grammar} {X : Nat} {w : List Nat} : DerivesSeq g [X] w ↔ Derives g X w := by
  constructor
  · rintro ⟨u, v, e, hd, hv⟩
    have : v = [] := hv
    subst this
    simpa [e] using hd
  · intro h
    exact ⟨w, [], by simp, h, rfl⟩

theorem derivesSeq_append {g : Grammar} : ∀ {Xs Ys : List Nat} {w : List Nat},
    DerivesSeq g (Xs ++ Ys) w ↔ ∃ u v, w = u ++ v ∧ DerivesSeq g Xs u ∧ DerivesSeq g Ys v
  | [], Ys, w => by
    constructor
    · intro h
      exact ⟨[], w, rfl, rfl, h⟩
    · rintro ⟨u, v, e, hu, hv⟩
      have : u = [] := hu
      subst this
      simpa [e] using hv
  | X :: Xs, Ys, w => by
    constructor
    · rintro ⟨u, v, e, hd, hs⟩
      obtain ⟨u', v', e', hu', hv'⟩ := (derivesSeq_append (Xs := Xs)).mp hs
      exact ⟨u ++ u', v', by simp [e, e'], ⟨u, u', rfl, hd, hu'⟩, hv'⟩
    · rintro ⟨uu, v, e, ⟨u, u', e', hd, hu'⟩, hv⟩
      exact ⟨u, u' ++ v, by simp [e, e'], hd, (derivesSeq_append (Xs := Xs)).mpr ⟨u', v, rfl, hu', hv⟩⟩

/-- `H: X | EMPTY` -/
theorem derives_opt {g : Grammar} {h X : Nat} (hx : HasExactly g h [[X], []]) (w : List Nat) :
    Derives g (g.nT + h) w ↔ w = [] ∨ Derives g X w := by
  rw [derives_nonterm_iff (Nat.le_add_right _ _)]
  constructor
  · rintro ⟨p, hp, hl, hs⟩
    have hh : p.nonterminal = h := by omega
    have hr := hx.1 p hp hh
    simp only [List.mem_cons, List.mem_nil_iff, or_false] at hr
    rcases hr with hr | hr
    · rw [hr] at hs
      exact Or.inr (derivesSeq_single.mp hs)
    · rw [hr] at hs
      exact Or.inl hs
  · rintro (rfl | hd)
    · obtain ⟨p, hp, hh, hr⟩ := hx.2 [] (by simp)
      exact ⟨p, hp, by omega, by rw [hr]; rfl⟩
    · obtain ⟨p, hp, hh, hr⟩ := hx.2 [X] (by simp)
      exact ⟨p, hp, by omega, by rw [hr]; exact derivesSeq_single.mpr hd⟩

/-- the string `u₀ s₁ u₁ … sₖ uₖ` -/
def joinPairs (u0 : List Nat) (pairs : List (List Nat × List Nat)) : List Nat :=
  u0 ++ (pairs.map fun q => q.1 ++ q.2).flatten

theorem joinPairs_snoc (u0 : List Nat) (pairs : List (List Nat × List Nat)) (s u : List Nat) :
    joinPairs u0 (pairs ++ [(s, u)]) = joinPairs u0 pairs ++ s ++ u := by
  simp [joinPairs, List.append_assoc]

/-- `H: H sep… X | X` (left recursive, `sep…` a possibly empty sequence of separator symbols) -/
theorem derives_one {g : Grammar} {h X : Nat} {sep : List Nat}
    (hx : HasExactly g h [(g.nT + h) :: (sep ++ [X]), [X]]) (w : List Nat) :
    Derives g (g.nT + h) w ↔
      ∃ u0 pairs, Derives g X u0 ∧ (∀ q, q ∈ pairs → DerivesSeq g sep q.1 ∧ Derives g X q.2) ∧
        w = joinPairs u0 pairs := by
  constructor
  · rintro ⟨n, hn⟩
    induction n generalizing w with
    | zero => exact hn.elim
    | succ n ih =>
      rcases hn with ⟨hlt, _⟩ | ⟨p, hp, hl, hs⟩
      · exact absurd hlt (by unfold Grammar.nT; omega)
      · have hh : p.nonterminal = h := by omega
        have hr := hx.1 p hp hh
        simp only [List.mem_cons, List.mem_nil_iff, or_false] at hr
        rcases hr with hr | hr
        · rw [hr] at hs
          obtain ⟨w1, w2, e, hH, hrest⟩ := hs
          obtain ⟨u0, pairs, hu0, hpairs, e1⟩ := ih w1 hH
          have hrest' : DerivesSeq g (sep ++ [X]) w2 := SeqOf.mono (fun _ _ hd => ⟨n, hd⟩) hrest
          obtain ⟨s, u, e2, hsd, hud⟩ := derivesSeq_append.mp hrest'
          refine ⟨u0, pairs ++ [(s, u)], hu0, ?_, ?_⟩
          · intro q hq
            rcases List.mem_append.mp hq with hq | hq
            · exact hpairs q hq
            · have : q = (s, u) := by simpa using hq
              subst this
              exact ⟨hsd, derivesSeq_single.mp hud⟩
          · rw [joinPairs_snoc, e, e1, e2, List.append_assoc]
        · rw [hr] at hs
          have hd : DerivesSeq g [X] w := SeqOf.mono (fun _ _ hd => ⟨n, hd⟩) hs
          exact ⟨w, [], derivesSeq_single.mp hd, by simp, by simp [joinPairs]⟩
  · rintro ⟨u0, pairs, hu0, hpairs, rfl⟩
    -- build from the left: H ⇒ u0, then append one (s, u) at a time
    have base : Derives g (g.nT + h) u0 := by
      rw [derives_nonterm_iff (Nat.le_add_right _ _)]
      obtain ⟨p, hp, hh, hr⟩ := hx.2 [X] (by simp)
      exact ⟨p, hp, by omega, by rw [hr]; exact derivesSeq_single.mpr hu0⟩
    have step : ∀ (pairs : List (List Nat × List Nat)) (w0 : List Nat),
        Derives g (g.nT + h) w0 → (∀ q, q ∈ pairs → DerivesSeq g sep q.1 ∧ Derives g X q.2) →
        Derives g (g.nT + h) (w0 ++ (pairs.map fun q => q.1 ++ q.2).flatten) := by
      intro pairs
      induction pairs with
      | nil => intro w0 h0 _; simpa using h0
      | cons q qs ih =>
        intro w0 h0 hq
        have hq0 := hq q (by simp)
        have h1 : Derives g (g.nT + h) (w0 ++ (q.1 ++ q.2)) := by
          rw [derives_nonterm_iff (Nat.le_add_right _ _)]
          obtain ⟨p, hp, hh, hr⟩ := hx.2 ((g.nT + h) :: (sep ++ [X])) (by simp)
          refine ⟨p, hp, by omega, ?_⟩
          rw [hr]
          exact ⟨w0, q.1 ++ q.2, rfl, h0,
            derivesSeq_append.mpr ⟨q.1, q.2, rfl, hq0.1, derivesSeq_single.mpr hq0.2⟩⟩
        have := ih (w0 ++ (q.1 ++ q.2)) h1 (fun q' hq' => hq q' (by simp [hq']))
        simpa [List.append_assoc] using this
    exact step pairs u0 base hpairs

/-- `A+` without separator: one or more `A`, concatenated -/
theorem derives_one_nosep {g : Grammar} {h X : Nat}
    (hx : HasExactly g h [[g.nT + h, X], [X]]) (w : List Nat) :
    Derives g (g.nT + h) w ↔ ∃ ws : List (List Nat), ws ≠ [] ∧ (∀ u, u ∈ ws → Derives g X u) ∧ w = ws.flatten := by
  have hx' : HasExactly g h [(g.nT + h) :: (([] : List Nat) ++ [X]), [X]] := by simpa using hx
  rw [derives_one hx']
  constructor
  · rintro ⟨u0, pairs, hu0, hpairs, rfl⟩
    refine ⟨u0 :: pairs.map (·.2), by simp, ?_, ?_⟩
    · intro u hu
      rcases List.mem_cons.mp hu with rfl | hu
      · exact hu0
      · obtain ⟨q, hq, rfl⟩ := List.mem_map.mp hu
        exact (hpairs q hq).2
    · have : ∀ q, q ∈ pairs → q.1 = [] := fun q hq => (hpairs q hq).1
      have e : (pairs.map fun q => q.1 ++ q.2) = pairs.map (·.2) :=
        List.map_congr_left (fun q hq => by simp [this q hq])
      simp [joinPairs, e]
  · rintro ⟨ws, hne, hws, rfl⟩
    cases ws with
    | nil => exact absurd rfl hne
    | cons u0 us =>
      refine ⟨u0, us.map (fun u => ([], u)), hws u0 (by simp), ?_, ?_⟩
      · intro q hq
        obtain ⟨u, hu, rfl⟩ := List.mem_map.mp hq
        exact ⟨rfl, hws u (by simp [hu])⟩
      · simp [joinPairs, List.map_map, Function.comp_def]

/-- `A+[Sep]`: one or more `A` separated by `Sep` -/
theorem derives_one_sep {g : Grammar} {h X S : Nat}
    (hx : HasExactly g h [[g.nT + h, S, X], [X]]) (w : List Nat) :
    Derives g (g.nT + h) w ↔
      ∃ u0 pairs, Derives g X u0 ∧ (∀ q, q ∈ pairs → Derives g S q.1 ∧ Derives g X q.2) ∧
        w = joinPairs u0 pairs := by
  have hx' : HasExactly g h [(g.nT + h) :: ([S] ++ [X]), [X]] := by simpa using hx
  rw [derives_one hx']
  constructor
  · rintro ⟨u0, pairs, hu0, hp, e⟩
    exact ⟨u0, pairs, hu0, fun q hq => ⟨derivesSeq_single.mp (hp q hq).1, (hp q hq).2⟩, e⟩
  · rintro ⟨u0, pairs, hu0, hp, e⟩
    exact ⟨u0, pairs, hu0, fun q hq => ⟨derivesSeq_single.mpr (hp q hq).1, (hp q hq).2⟩, e⟩

/-- `A*`: `A0: A1 | EMPTY` -/
theorem derives_zero {g : Grammar} {h0 H1 : Nat} (hx : HasExactly g h0 [[H1], []]) (w : List Nat) :
    Derives g (g.nT + h0) w ↔ w = [] ∨ Derives g H1 w := derives_opt hx w

end Rustemo.Front
