import Rustemo.Proofs.Refine
/-!
# Inversion of one iteration of the LR loop

`step env nt c = .next c'` holds in exactly two ways (a shift or a reduction); `c'` is given
explicitly in both, so that an invariant is proved without unfolding `step` again.  Likewise for
`.done`.
-/
namespace Rustemo

/-- the context handed to the lexer after shifting the token ahead into state `s'` -/
def shiftCtx (env : Env) (c : Cfg) (s' : Nat) : Ctx :=
  { state := s', pos := posAfter (sliceOf env.input c.tok.val) c.ctx.pos,
    span := ⟨c.ctx.pos, posAfter (sliceOf env.input c.tok.val) c.ctx.pos⟩, lay := none }

/-- the context handed to the lexer after a reduction that lands in state `s'` -/
def reduceCtx (c : Cfg) (s' : Nat) : Ctx :=
  { state := s', pos := c.ctx.pos, span := c.ctx.span, lay := c.ctx.lay }

def shiftItem (env : Env) (c : Cfg) (s' : Nat) : StackItem :=
  ⟨s', ⟨c.ctx.pos, posAfter (sliceOf env.input c.tok.val) c.ctx.pos⟩⟩

def shiftLeaf (c : Cfg) : Tree := Tree.leaf c.tok.kind c.tok.span c.tok.val c.ctx.lay

def reduceNode (c : Cfg) (p len : Nat) : Tree :=
  Tree.node p (reduceSpan (c.stack.take len) c.ctx.span) (childrenLay (c.res.take len).reverse)
    (TreeList.ofList (c.res.take len).reverse)

def reduceSlice (c : Cfg) (len : Nat) : Slice :=
  ((reduceSpan (c.stack.take len) c.ctx.span).s.pos,
   (reduceSpan (c.stack.take len) c.ctx.span).e.pos - (reduceSpan (c.stack.take len) c.ctx.span).s.pos)

inductive StepNext (env : Env) (nt : Ctx → Ctx × Outcome Tok) (c c' : Cfg) : Prop where
  | shift (state s' : Nat) (acts : List Action) (ctx1 : Ctx) (tk : Tok)
      (htop : topState c.stack = some state)
      (hcell : env.t.cell state c.tok.kind = .shift s' :: acts)
      (hnt : nt (shiftCtx env c s') = (ctx1, .ok tk))
      (hc : c' = ⟨shiftItem env c s' :: c.stack, shiftLeaf c :: c.res, c.slice, ctx1, tk, c.tok :: c.hist⟩)
  | reduce (state p len fromState s' : Nat) (pr : Prod) (acts : List Action) (ctx1 : Ctx) (tk : Tok)
      (htop : topState c.stack = some state)
      (hcell : env.t.cell state c.tok.kind = .reduce p len :: acts)
      (hlen : len ≤ c.stack.length)
      (hfrom : topState (c.stack.drop len) = some fromState)
      (hpr : env.g.prods[p]? = some pr)
      (hgoto : env.t.goto env.g fromState pr.lhs = some s')
      (hrlen : len ≤ c.res.length)
      (hnt : nt (reduceCtx c s') = (ctx1, .ok tk))
      (hc : c' = ⟨⟨s', reduceSpan (c.stack.take len) c.ctx.span⟩ :: c.stack.drop len,
                  reduceNode c p len :: c.res.drop len, some (reduceSlice c len),
                  { ctx1 with lay := mergeLay c.ctx.lay c.ctx.pos.pos ctx1.pos.pos }, tk, c.hist⟩)

theorem liftTok_next_none {hist : List Tok} {stack : List StackItem} {res : List Tree}
    {slice : Option Slice} {r : Ctx × Outcome Tok} {c' : Cfg}
    (h : liftTok hist stack res slice r none = .next c') :
    ∃ ctx1 tk, r = (ctx1, .ok tk) ∧ c' = ⟨stack, res, slice, ctx1, tk, hist⟩ := by
  unfold liftTok at h
  split at h
  · rename_i ctx1 tk
    injection h with h
    exact ⟨ctx1, tk, rfl, h.symm⟩
  all_goals simp at h

theorem liftTok_next_some {hist : List Tok} {stack : List StackItem} {res : List Tree}
    {slice : Option Slice} {r : Ctx × Outcome Tok} {l : Option Slice} {p : Nat} {c' : Cfg}
    (h : liftTok hist stack res slice r (some (l, p)) = .next c') :
    ∃ ctx1 tk, r = (ctx1, .ok tk) ∧
      c' = ⟨stack, res, slice, { ctx1 with lay := mergeLay l p ctx1.pos.pos }, tk, hist⟩ := by
  unfold liftTok at h
  split at h
  · rename_i ctx1 tk
    injection h with h
    exact ⟨ctx1, tk, rfl, h.symm⟩
  all_goals simp at h

theorem step_next_inv (env : Env) (nt : Ctx → Ctx × Outcome Tok) (c c' : Cfg)
    (hstep : step env nt c = .next c') : StepNext env nt c c' := by
  unfold step at hstep
  simp only at hstep
  split at hstep
  · simp at hstep
  · rename_i state hstate
    split at hstep
    · simp at hstep
    · rename_i act acts hcell
      split at hstep
      · rename_i s'
        obtain ⟨ctx1, tk, hr, hc⟩ := liftTok_next_none hstep
        exact .shift state s' acts ctx1 tk hstate hcell hr hc
      · rename_i p len
        split at hstep
        · simp at hstep
        · rename_i hlen
          split at hstep
          · simp at hstep
          · rename_i fromState hfrom
            split at hstep
            · simp at hstep
            · rename_i pr hpr
              split at hstep
              · simp at hstep
              · rename_i s'' hgoto
                split at hstep
                · simp at hstep
                · rename_i hrlen
                  obtain ⟨ctx1, tk, hr, hc⟩ := liftTok_next_some hstep
                  exact .reduce state p len fromState s'' pr acts ctx1 tk hstate hcell (by omega) hfrom hpr
                    hgoto (by omega) hr hc
      · split at hstep <;> simp at hstep

/-- `step … = .done`: the action is accept and the result is the top of the result stack -/
theorem step_done_inv (env : Env) (nt : Ctx → Ctx × Outcome Tok) (c : Cfg) (ctx : Ctx)
    (r : ParseResult) (h : step env nt c = .done ctx r) :
    ∃ state acts rest, topState c.stack = some state ∧
      env.t.cell state c.tok.kind = .accept :: acts ∧
      ctx = c.ctx ∧ c.res = r.tree :: rest ∧ r.slice = c.slice ∧ r.hist = c.hist := by
  unfold step at h
  simp only at h
  split at h
  · simp at h
  · rename_i state hstate
    split at h
    · simp at h
    · rename_i act acts hcell
      split at h
      · exact absurd h liftTok_not_done
      · split at h
        · simp at h
        · split at h
          · simp at h
          · split at h
            · simp at h
            · split at h
              · simp at h
              · split at h
                · simp at h
                · exact absurd h liftTok_not_done
      · split at h
        · simp at h
        · rename_i tr rest hres
          injection h with h1 h2
          subst h1 h2
          exact ⟨state, acts, rest, hstate, hcell, rfl, hres, rfl, rfl⟩

/-- how the loop ends -/
inductive StepStop (env : Env) (nt : Ctx → Ctx × Outcome Tok) (c : Cfg) (ctx : Ctx)
    (o : Outcome ParseResult) : Prop where
  | panic (site : String) (h : ctx = c.ctx) (ho : o = .panic site)
  | noAction (state : Nat) (htop : topState c.stack = some state)
      (hcell : env.t.cell state c.tok.kind = []) (h : ctx = c.ctx) (ho : o = .err .noAction)
  | shift (state s' : Nat) (acts : List Action) (o' : Outcome Tok)
      (htop : topState c.stack = some state)
      (hcell : env.t.cell state c.tok.kind = .shift s' :: acts)
      (hnt : nt (shiftCtx env c s') = (ctx, o')) (hno : ∀ tk, o' ≠ .ok tk)
      (ho : (∀ e, o' = .err e → o = .err e) ∧ (∀ s, o' = .panic s → o = .panic s) ∧ (o' = .fuel → o = .fuel))
  | reduce (state p len fromState s' : Nat) (pr : Prod) (acts : List Action) (o' : Outcome Tok)
      (htop : topState c.stack = some state)
      (hcell : env.t.cell state c.tok.kind = .reduce p len :: acts)
      (hlen : len ≤ c.stack.length)
      (hfrom : topState (c.stack.drop len) = some fromState)
      (hpr : env.g.prods[p]? = some pr)
      (hgoto : env.t.goto env.g fromState pr.lhs = some s')
      (hnt : nt (reduceCtx c s') = (ctx, o')) (hno : ∀ tk, o' ≠ .ok tk)
      (ho : (∀ e, o' = .err e → o = .err e) ∧ (∀ s, o' = .panic s → o = .panic s) ∧ (o' = .fuel → o = .fuel))

theorem liftTok_stop_inv {hist : List Tok} {stack : List StackItem} {res : List Tree}
    {slice : Option Slice} {r : Ctx × Outcome Tok} {k : Option (Option Slice × Nat)} {ctx : Ctx}
    {o : Outcome ParseResult} (h : liftTok hist stack res slice r k = .stop ctx o) :
    ∃ o', r = (ctx, o') ∧ (∀ tk, o' ≠ .ok tk) ∧
      (∀ e, o' = .err e → o = .err e) ∧ (∀ s, o' = .panic s → o = .panic s) ∧ (o' = .fuel → o = .fuel) := by
  unfold liftTok at h
  split at h
  · simp at h
  · injection h with h1 h2; subst h1 h2
    exact ⟨_, rfl, by simp, by intro e h; injection h with h; subst h; rfl, by simp, by simp⟩
  · injection h with h1 h2; subst h1 h2
    exact ⟨_, rfl, by simp, by simp, by intro s h; injection h with h; subst h; rfl, by simp⟩
  · injection h with h1 h2; subst h1 h2
    exact ⟨_, rfl, by simp, by simp, by simp, by simp⟩

theorem step_stop_inv (env : Env) (nt : Ctx → Ctx × Outcome Tok) (c : Cfg) (ctx : Ctx)
    (o : Outcome ParseResult) (h : step env nt c = .stop ctx o) : StepStop env nt c ctx o := by
  have hp : ∀ (m : String), StepOut.stop c.ctx (Outcome.panic m) = StepOut.stop ctx o →
      StepStop env nt c ctx o := by
    intro m h; injection h with h1 h2; subst h1 h2
    exact .panic m rfl rfl
  unfold step at h
  simp only at h
  split at h
  · exact hp _ h
  · rename_i state hstate
    split at h
    · rename_i hcell
      injection h with h1 h2; subst h1 h2
      exact .noAction state hstate hcell rfl rfl
    · rename_i act acts hcell
      split at h
      · rename_i s'
        obtain ⟨o', hr, hno, ho⟩ := liftTok_stop_inv h
        exact .shift state s' acts o' hstate hcell hr hno ho
      · rename_i p len
        split at h
        · exact hp _ h
        · rename_i hlen
          split at h
          · exact hp _ h
          · rename_i fromState hfrom
            split at h
            · exact hp _ h
            · rename_i pr hpr
              split at h
              · exact hp _ h
              · rename_i s'' hgoto
                split at h
                · exact hp _ h
                · obtain ⟨o', hr, hno, ho⟩ := liftTok_stop_inv h
                  exact .reduce state p len fromState s'' pr acts o' hstate hcell (by omega) hfrom hpr
                    hgoto hr hno ho
      · split at h
        · exact hp _ h
        · simp at h

/-! ## Introduction rules (the converse of `step_next_inv` / `step_done_inv`) -/

theorem step_shift_intro (env : Env) (nt : Ctx → Ctx × Outcome Tok) (c : Cfg) (state s' : Nat)
    (acts : List Action) (ctx1 : Ctx) (tk : Tok)
    (htop : topState c.stack = some state)
    (hcell : env.t.cell state c.tok.kind = .shift s' :: acts)
    (hnt : nt (shiftCtx env c s') = (ctx1, .ok tk)) :
    step env nt c =
      .next ⟨shiftItem env c s' :: c.stack, shiftLeaf c :: c.res, c.slice, ctx1, tk, c.tok :: c.hist⟩ := by
  unfold step
  simp only [htop, hcell]
  have : nt { state := s', pos := posAfter (sliceOf env.input c.tok.val) c.ctx.pos,
              span := ⟨c.ctx.pos, posAfter (sliceOf env.input c.tok.val) c.ctx.pos⟩, lay := none } =
      (ctx1, .ok tk) := hnt
  rw [this]
  rfl

theorem step_reduce_intro (env : Env) (nt : Ctx → Ctx × Outcome Tok) (c : Cfg)
    (state p len fromState s' : Nat) (pr : Prod) (acts : List Action) (ctx1 : Ctx) (tk : Tok)
    (htop : topState c.stack = some state)
    (hcell : env.t.cell state c.tok.kind = .reduce p len :: acts)
    (hlen : len ≤ c.stack.length)
    (hfrom : topState (c.stack.drop len) = some fromState)
    (hpr : env.g.prods[p]? = some pr)
    (hgoto : env.t.goto env.g fromState pr.lhs = some s')
    (hrlen : len ≤ c.res.length)
    (hnt : nt (reduceCtx c s') = (ctx1, .ok tk)) :
    step env nt c =
      .next ⟨⟨s', reduceSpan (c.stack.take len) c.ctx.span⟩ :: c.stack.drop len,
             reduceNode c p len :: c.res.drop len, some (reduceSlice c len),
             { ctx1 with lay := mergeLay c.ctx.lay c.ctx.pos.pos ctx1.pos.pos }, tk, c.hist⟩ := by
  unfold step
  have h1 : ¬ c.stack.length < len := by omega
  have h2 : ¬ c.res.length < len := by omega
  simp only [htop, hcell, h1, ↓reduceIte, hfrom, hpr, hgoto, h2]
  have : nt { state := s', pos := c.ctx.pos, span := c.ctx.span, lay := c.ctx.lay } = (ctx1, .ok tk) := hnt
  rw [this]
  rfl

theorem step_accept_intro (env : Env) (nt : Ctx → Ctx × Outcome Tok) (c : Cfg) (state : Nat)
    (acts : List Action) (tr : Tree) (rest : List Tree)
    (htop : topState c.stack = some state)
    (hcell : env.t.cell state c.tok.kind = .accept :: acts)
    (hres : c.res = tr :: rest) :
    step env nt c = .done c.ctx ⟨tr, c.slice, c.hist⟩ := by
  unfold step
  simp only [htop, hcell, hres]

end Rustemo
