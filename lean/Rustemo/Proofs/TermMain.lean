import Rustemo.Proofs.TermRun
import Rustemo.Proofs.TermCert
import Rustemo.Proofs.LayoutRTInsert
/-!
# `LRParser::parse` terminates (C15)

The string lexer satisfies `NtTerm`: `nextTokenBase` (the layout parser's lexer) directly; then the
layout parser does not run out of fuel (`parseWith_no_fuel` on the layout automaton), hence
`nextTokenMain` satisfies `NtTerm` too, and `parseWith_no_fuel` on the main automaton gives
`parse_terminates`: with `Cert.termBound g t |input|` fuel or more the result is never `.fuel`.
-/
namespace Rustemo
open CertTerm

/-- every token a recognizer reports, other than STOP, has at least one byte -/
def NonEmptyTokens (env : Env) : Prop := ∀ k p l, env.recog k p = some l → k ≠ 0 → 1 ≤ l

theorem ntBase_ne (env : Env) (hc : env.custom = none) (hne : NonEmptyTokens env) (pp : Bool)
    (ctx ctx' : Ctx) (tk : Tok) (h : nextTokenBase env pp ctx = (ctx', .ok tk)) (hk : tk.kind ≠ 0) :
    1 ≤ tk.val.2 := by
  obtain ⟨_, hcase⟩ := ntBase_ok_inv env hc pp ctx ctx' tk h
  rcases hcase with hp | ⟨_, _, htk⟩
  · have := tokenIterAux_recog env ctx'.pos _ false tk (pickToken_mem hp)
    exact hne _ _ _ this.2 hk
  · rw [htk] at hk; exact absurd rfl hk

theorem ntBase_nofuel (env : Env) (pp : Bool) (ctx : Ctx) : (nextTokenBase env pp ctx).2 ≠ .fuel := by
  unfold nextTokenBase
  generalize lexNext env ctx (env.t.sorted ctx.state) = lx
  obtain ⟨ctx1, toks⟩ := lx
  simp only
  split
  · simp
  · unfold noToken
    simp only
    split
    · simp
    · split <;> simp

theorem ntTerm_base (env : Env) (hc : env.custom = none) (hr : RecogOk env) (hne : NonEmptyTokens env)
    (pp : Bool) : NtTerm env (nextTokenBase env pp) :=
  ⟨ntOk_base env hc hr pp, fun ctx ctx' tk h => ntBase_mono env pp ctx ctx' _ h,
   fun ctx ctx' tk h hk => ntBase_ne env hc hne pp ctx ctx' tk h hk,
   fun ctx _ => ntBase_nofuel env pp ctx⟩

theorem noToken_nofuel (env : Env) (pp : Bool) (ctx : Ctx) : (noToken env pp ctx).2 ≠ .fuel := by
  unfold noToken
  simp only
  split
  · simp
  · split <;> simp

theorem noToken_kind (env : Env) (pp : Bool) (ctx ctx' : Ctx) (tk : Tok)
    (h : noToken env pp ctx = (ctx', .ok tk)) : tk.kind = 0 := by
  unfold noToken at h
  simp only at h
  split at h
  · injection h with _ h2
    injection h2 with h2
    rw [← h2]
  · split at h <;> (injection h with _ h2; simp at h2)

/-- `next_token` of the main parser, given that the layout parser does not run out of fuel -/
theorem ntTerm_main (env : Env) (hc : env.custom = none) (hr : RecogOk env) (hne : NonEmptyTokens env)
    (hns : NoShiftStop env.t) (pp : Bool) (fuel : Nat)
    (hlay : ∀ ls ctx, env.t.layoutState = some ls → CtxOk env.input ctx →
      (layoutParse env ls ctx fuel).2 ≠ .fuel) :
    NtTerm env (nextTokenMain env pp fuel) := by
  refine ⟨ntOk_main env hc hr hns pp fuel, ntMono_main env pp fuel, ?_, ?_⟩
  · intro ctx ctx' tk h hk
    unfold nextTokenMain at h
    rw [lexNext_eq env hc] at h
    simp only at h
    split at h
    · rename_i tk' hpick
      injection h with _ h2
      injection h2 with h2
      subst h2
      have := tokenIterAux_recog env _ _ false tk' (pickToken_mem hpick)
      exact hne _ _ _ this.2 hk
    · split at h
      · exact absurd (noToken_kind env pp _ _ _ h) hk
      · generalize layoutParse env _ _ fuel = lp at h
        obtain ⟨cx, r⟩ := lp
        simp only at h
        split at h
        · split at h
          · split at h
            · exact ntBase_ne env hc hne pp _ _ tk h hk
            · exact absurd (noToken_kind env pp _ _ _ h) hk
          · exact absurd (noToken_kind env pp _ _ _ h) hk
        · exact absurd (noToken_kind env pp _ _ _ h) hk
        · injection h with _ h2; simp at h2
        · injection h with _ h2; simp at h2
  · intro ctx hctx
    unfold nextTokenMain
    have hcl := (lexNext_ok env hc hr ctx (env.t.sorted ctx.state) hctx).1
    generalize lexNext env ctx (env.t.sorted ctx.state) = lx at hcl
    obtain ⟨ctx1, toks⟩ := lx
    simp only at hcl ⊢
    split
    · simp
    · split
      · exact noToken_nofuel env pp ctx1
      · rename_i ls hls
        have hl := hlay ls ctx1 hls hcl
        generalize layoutParse env ls ctx1 fuel = lp at hl
        obtain ⟨cx, r⟩ := lp
        simp only at hl ⊢
        split
        · split
          · split
            · exact ntBase_nofuel env pp _
            · exact noToken_nofuel env pp _
          · exact noToken_nofuel env pp _
        · exact noToken_nofuel env pp _
        · simp
        · exact absurd rfl hl

/-- **Termination of `LRParser::parse`** (string lexer, whitespace skipping or Layout rule, partial
    parsing on or off): with at least `Cert.termBound g t |input|` fuel the model never answers `.fuel`. -/
theorem parse_terminates (env : Env) (hc : env.custom = none) (hr : RecogOk env)
    (hne : NonEmptyTokens env) (hns : NoShiftStop env.t)
    (hs : Structural env.g env.t (autosOf env.g env.t))
    (hlayAuto : ∀ ls, env.t.layoutState = some ls → ∃ au ∈ autosOf env.g env.t, au.start = ls)
    (hterm : Cert.terminating env.g env.t = true) (pp : Bool) (fuel : Nat)
    (hfuel : Cert.termBound env.g env.t env.input.length ≤ fuel) :
    (parse env pp fuel).2 ≠ .fuel := by
  unfold Cert.terminating at hterm
  simp only [Bool.and_eq_true, beq_iff_eq] at hterm
  obtain ⟨hdata, hused⟩ := hterm
  generalize hd : compute env.g env.t = d at hdata hused
  obtain ⟨hg, hsr⟩ := data_sound env.g env.t d hdata
  have hcst := consts_of d
  have hU : ∀ state kind p len acts, env.t.cell state kind = Action.reduce p len :: acts → d.U p := by
    intro state kind p len acts h
    show p ∈ d.used
    rw [hused]; exact mem_usedProds h
  have hM : Mmax (epsBound d) (kBound d) d.wn env.input.length < fuel := by
    have : Cert.termBound env.g env.t env.input.length =
        Mmax (epsBound d) (kBound d) d.wn env.input.length + 1 := by
      unfold Cert.termBound boundOf Mmax; rw [hd]
    omega
  -- the layout parser
  have hlay : ∀ ls ctx, env.t.layoutState = some ls → CtxOk env.input ctx →
      (layoutParse env ls ctx fuel).2 ≠ .fuel := by
    intro ls ctx hls hctx
    obtain ⟨au, hin, hst⟩ := hlayAuto ls hls
    unfold layoutParse
    exact parseWith_no_fuel env d.U _ (autosOf env.g env.t) hs au hin ls hst.symm hns hU
      (ntTerm_base env hc hr hne true) hcst hg hsr { ctx with state := ls } hctx fuel hM
  -- the main parser
  unfold parse
  have h0 : CtxOk env.input ({} : Ctx) := by
    have hs0 : PosOk env.input Pos.start := by
      unfold PosOk posOf Pos.start; simp [posAfter, lastNl]
    exact ⟨hs0, hs0, hs0⟩
  exact parseWith_no_fuel env d.U _ (autosOf env.g env.t) hs ⟨0, 0, env.g.startIdx⟩
    (by unfold autosOf; exact List.mem_cons_self) 0 rfl hns hU
    (ntTerm_main env hc hr hne hns pp fuel hlay) hcst hg hsr {} h0 fuel hM

end Rustemo
