import Rustemo.Proofs.TableJust2
import Rustemo.Proofs.TableSafe2
/-!
# Table construction: the lookaheads of the finished automaton are justified (`JInv`)
-/
namespace Rustemo.Table

variable {g : Grammar} {fs : Array (List Nat)} {tt : String} {rn : Option (Array Nat)}

theorem JInv.upd {autos : List (Nat × Nat)} {sts : Array State} (hJ : JInv g fs autos sts) {i : Nat} {st st' : State}
    (hi : sts[i]? = some st) (ha : st'.actions = st.actions) (hgo : st'.gotos = st.gotos)
    (hj : JList g fs autos sts i st'.items) : JInv g fs autos (sts.setIfInBounds i st') := by
  have hle : TransLe g sts (sts.setIfInBounds i st') := TransLe.upd hi (fun X j ht => by
    unfold HasTrans at ht ⊢; rw [ha, hgo]; exact ht)
  intro j stj hs
  rw [get_upd hi] at hs
  by_cases hij : i = j
  · rw [if_pos hij] at hs; simp only [Option.some.injEq] at hs; subst hs
    rw [← hij]; exact hj.mono (fun _ h => h) hle
  · rw [if_neg hij] at hs
    exact (hJ j stj hs).mono (fun _ h => h) hle

theorem JInv.setItems' {autos : List (Nat × Nat)} {sts : Array State} (hJ : JInv g fs autos sts) {i : Nat} {st : State}
    (hi : sts[i]? = some st) {items : List Item} (hj : JList g fs autos sts i items) :
    JInv g fs autos (setItems sts i items) := by
  rw [setItems_eq hi]
  exact hJ.upd hi rfl rfl hj

theorem JInv.stepState (hg : GW g) {autos : List (Nat × Nat)} {fuel cur : Nat} {sts sts' : Array State}
    (hI : Inv g autos sts) (hC : InvC g cur cur sts) (hJ : JInv g fs autos sts) (hc : cur < sts.size)
    (h : stepState g fs tt rn fuel cur sts = .ok sts') : JInv g fs autos sts' := by
  obtain ⟨st, items, st', h1, h2, h3, h4⟩ := stepState_ok hc h
  have hst := hI.st cur st h1
  have hrel := closure_rel h2 hst.items hst.nodup
  have hid := acceptInit_id hg h3
  subst hid
  have hu := hC.fresh cur st h1 (Nat.le_refl _)
  have hstc := hC.st cur st h1
  have haug : ∀ it ∈ items, it.prod = 0 → 0 ∈ it.la := by
    intro it hit hp
    rcases hrel.back it hit with ⟨it0, b1, b2, b3⟩ | ⟨_, b2⟩
    · simp only [core, _root_.Prod.mk.injEq] at b2
      exact b3 0 (hstc.aug0 it0 b1 (by rw [b2.1]; exact hp))
    · exfalso
      apply b2.not_aug hg
      obtain ⟨pr0, p1, p2, _⟩ := hg.aug0
      rw [hp]; exact ⟨pr0, p1, .inl p2⟩
  have hI1 : Inv g autos (sts.setIfInBounds cur { st with items := items, maxPrio := maxPrioOf g items }) := by
    apply hI.update h1
    · exact ⟨hst.asize, hst.gsize, hrel.ok, hrel.nodup, hst.cells⟩
    · rfl
    · rfl
    · exact hrel.mono
    · intro it' hit'
      rcases hrel.back it' hit' with ⟨it0, h', h'', _⟩ | ⟨h', h''⟩
      · exact .inl ⟨it0, h', h''⟩
      · exact .inr ⟨h', h''.not_aug hg⟩
  have hC1 : InvC g cur (cur + 1) (sts.setIfInBounds cur { st with items := items, maxPrio := maxPrioOf g items }) := by
    apply InvC.mono_hi _ (Nat.le_succ cur)
    apply hC.update (st' := { st with items := items, maxPrio := maxPrioOf g items }) h1 rfl rfl
    · intro c hcc
      obtain ⟨it, i1, i2⟩ := List.mem_map.mp hcc
      obtain ⟨it', j1, j2, _⟩ := hrel.mono it i1
      exact List.mem_map.mpr ⟨it', j1, j2.trans i2⟩
    · exact untouched_stC ⟨hu.1, hu.2⟩ haug
    · intro hlt; omega
  have hjl : JList g fs autos sts cur items := closure_just h2 (hJ cur st h1)
  have hJ1 : JInv g fs autos (sts.setIfInBounds cur { st with items := items, maxPrio := maxPrioOf g items }) :=
    hJ.upd h1 rfl rfl hjl
  have hsnap1 : JList g fs autos (sts.setIfInBounds cur { st with items := items, maxPrio := maxPrioOf g items })
      cur items := hJ1 cur _ (by rw [get_upd h1, if_pos rfl])
  have hres := linkStates_induct' (g := g) (tt := tt) (rn := rn) (cur := cur)
    (fun rest s => ((Inv g autos s ∧ ∃ stc, s[cur]? = some stc ∧ stc.items.map core = items.map core) ∧
      LinkC g cur items rest s) ∧ (JInv g fs autos s ∧ JList g fs autos s cur items))
    (by
      intro s s2 e rest hJ' _ hstep
      obtain ⟨_, pre, _, _, q3, _⟩ := hJ'.1.2.ex
      have hmem : e ∈ newStates g items := by rw [← q3]; exact List.mem_append_right _ List.mem_cons_self
      have hn := newOk_of_mem hg hrel.nodup hmem
      exact ⟨⟨Inv.linkStep hn hJ'.1.1.1 hJ'.1.1.2 hstep, hJ'.1.2.step hn haug hstep⟩,
        JInv.linkStep hJ'.2.1 hJ'.1.2 hJ'.2.2 hn (newStates_la_src hmem) hstep⟩)
    (newStates g items) _ sts' (by rw [Array.size_setIfInBounds]; exact hc) h4
    ⟨⟨⟨hI1, { st with items := items, maxPrio := maxPrioOf g items }, by rw [get_upd h1, if_pos rfl], rfl⟩, hC1,
      { st with items := items, maxPrio := maxPrioOf g items }, [], by rw [get_upd h1, if_pos rfl], rfl, rfl,
      by simp, fun a _ => hu.1 a, fun j _ => hu.2 j⟩, hJ1, hsnap1⟩
  exact hres.1.2.1

theorem JInv.calcStates (hg : GW g) {autos : List (Nat × Nat)} {fuel sym : Nat} {sts sts' : Array State}
    (hI : Inv g autos sts) (hC : InvC g sts.size sts.size sts) (hJ : JInv g fs autos sts)
    (h : calcStates g fs tt rn fuel sym sts = .ok sts') :
    ∃ p, Canon.prodsOf g sym = [p] ∧ JInv g fs ((sts.size, p) :: autos) sts' := by
  obtain ⟨_, _, p, h1, h2⟩ := calcStates_ok h
  obtain ⟨pr, hp, _⟩ := prodsOf_mem (by rw [h1]; exact List.mem_cons_self : p ∈ Canon.prodsOf g sym)
  have hI0 := hI.pushStart (sym := sym) hp
  have hC0 : InvC g sts.size sts.size (sts.push (freshState g sym [⟨p, 0, [0]⟩])) :=
    hC.push (Nat.le_refl _) (Nat.le_refl _) (by
      intro it hit _
      simp only [List.mem_singleton] at hit
      subst hit; simp)
  have hJ0 : JInv g fs ((sts.size, p) :: autos) (sts.push (freshState g sym [⟨p, 0, [0]⟩])) := by
    intro j stj hj
    rw [Array.getElem?_push] at hj
    by_cases hjs : j = sts.size
    · rw [if_pos hjs] at hj; simp only [Option.some.injEq] at hj; subst hj
      intro it hit
      simp only [freshState, List.mem_singleton] at hit
      subst hit
      rw [hjs]
      refine ⟨.start List.mem_cons_self, ?_⟩
      intro a ha
      simp only [List.mem_singleton] at ha
      subst ha
      exact .start List.mem_cons_self
    · rw [if_neg hjs] at hj
      exact (hJ j stj hj).mono (fun e he => List.mem_cons_of_mem _ he) (TransLe.push sts _)
  obtain ⟨_, hJ', _⟩ := calcLoop_induct (g := g) (fs := fs) (tt := tt) (rn := rn) (fuel := fuel)
    (fun c s => (Inv g ((sts.size, p) :: autos) s ∧ InvC g c c s) ∧ JInv g fs ((sts.size, p) :: autos) s)
    (fun c s s' hJ' hc hs => ⟨⟨(Inv.stepState hg hJ'.1.1 hc hs).1, InvC.stepState hg hJ'.1.1 hJ'.1.2 hc hs⟩,
      JInv.stepState hg hJ'.1.1 hJ'.1.2 hJ'.2 hc hs⟩)
    fuel sts.size _ sts' h2 ⟨⟨hI0, hC0⟩, hJ0⟩
  exact ⟨p, h1, hJ'.2⟩

/-! ## propagation -/

theorem propItem_src {src : List Item} {tit tit' : Item} {c : Bool} (h : propItem src tit = .ok (tit', c)) :
    ∀ a ∈ tit'.la, a ∈ tit.la ∨ ∃ s ∈ src, s.prod = tit.prod ∧ s.dot = tit.dot - 1 ∧ a ∈ s.la := by
  unfold propItem at h
  by_cases hd : tit.dot = 0
  · simp [hd] at h
  · rw [if_neg hd] at h
    split at h
    · rename_i s hs
      simp only [Res.ok.injEq, _root_.Prod.mk.injEq] at h
      obtain ⟨h1, _⟩ := h
      subst h1
      intro a ha
      rcases mem_union.mp ha with h' | h'
      · exact .inl h'
      · have hp := List.find?_some hs
        simp only [Bool.and_eq_true, beq_iff_eq] at hp
        exact .inr ⟨s, List.mem_of_find?_eq_some hs, hp.1, hp.2, h'⟩
    · simp only [Res.ok.injEq, _root_.Prod.mk.injEq] at h
      obtain ⟨h1, _⟩ := h
      subst h1
      exact fun a ha => .inl ha

theorem propItems_just {autos : List (Nat × Nat)} {sts : Array State} {i j X : Nat} {si : State}
    (hi : sts[i]? = some si) (ht : HasTrans g si X j) (fixed : Option (List Item))
    (hf : ∀ l, fixed = some l → JList g fs autos sts i l) (hsame : fixed = none → i = j) :
    ∀ (todo done items' : List Item) (ch ch' : Bool), propItems fixed done todo ch = .ok (items', ch') →
      JList g fs autos sts j done → JList g fs autos sts j todo →
      (∀ tit ∈ todo, tit.dot ≠ 0 → g.rhsAt tit.prod (tit.dot - 1) = some X) → JList g fs autos sts j items'
  | [], done, items', ch, ch', h, hd, _, _ => by
    simp only [propItems, Res.ok.injEq, _root_.Prod.mk.injEq] at h
    rw [← h.1]; exact hd
  | it :: todo, done, items', ch, ch', h, hd, htd, hX => by
    unfold propItems at h
    have hit := htd it List.mem_cons_self
    have htodo : JList g fs autos sts j todo := fun x hx => htd x (List.mem_cons_of_mem _ hx)
    have hXt : ∀ tit ∈ todo, tit.dot ≠ 0 → g.rhsAt tit.prod (tit.dot - 1) = some X :=
      fun t h' => hX t (List.mem_cons_of_mem _ h')
    have happ : ∀ {x : Item}, (Reach g autos sts j x.prod x.dot ∧ ∀ a ∈ x.la, Just g fs autos sts j x.prod x.dot a) →
        JList g fs autos sts j (done ++ [x]) := by
      intro x hx y hy
      rcases List.mem_append.mp hy with h' | h'
      · exact hd y h'
      · simp only [List.mem_singleton] at h'
        subst h'; exact hx
    by_cases hk : isKernel it = true
    · rw [if_pos hk] at h
      split at h
      · rename_i it' c hp
        obtain ⟨p1, p2, _, _, _⟩ := propItem_ok hp
        have p4 := propItem_src hp
        apply propItems_just hi ht fixed hf hsame todo _ items' _ ch' h _ htodo hXt
        apply happ
        simp only [core, _root_.Prod.mk.injEq] at p2
        rw [p2.1, p2.2]
        refine ⟨hit.1, ?_⟩
        intro a ha
        rcases p4 a ha with h' | ⟨s, s1, s2, s3, s4⟩
        · exact hit.2 a h'
        · -- the source item's lookahead is justified in state `i`
          have hsj : Just g fs autos sts i s.prod s.dot a := by
            cases hfx : fixed with
            | some l =>
              rw [hfx] at s1
              simp only [Option.getD_some] at s1
              exact (hf l hfx s s1).2 a s4
            | none =>
              rw [hfx] at s1
              simp only [Option.getD_none] at s1
              rw [hsame hfx]
              rcases List.mem_append.mp s1 with h3 | h3
              · exact (hd s h3).2 a s4
              · exact (htd s h3).2 a s4
          have hXs : g.rhsAt s.prod s.dot = some X := by
            rw [s2, s3]; exact hX it List.mem_cons_self p1
          have := Just.trans hsj hi hXs ht
          rw [s2, s3] at this
          have hdd : it.dot - 1 + 1 = it.dot := by omega
          rw [hdd] at this
          exact this
      · simp at h
      · simp at h
      · simp at h
    · rw [if_neg hk] at h
      exact propItems_just hi ht fixed hf hsame todo _ items' _ ch' h (happ hit) htodo hXt

/-- one (source, target) pair visited by `propagate_follows` -/
theorem JInv.edge (_hg : GW g) {autos : List (Nat × Nat)} {sts sts' : Array State} {i j : Nat} {ch : Bool}
    (hI : Inv g autos sts) (hJ : JInv g fs autos sts) (hi : i < sts.size)
    (hj : j ∈ targetsOf (sts.getD i default)) (he : propEdge sts i j = .ok (sts', ch)) :
    Inv g autos sts' ∧ JInv g fs autos sts' ∧ ∃ items, sts' = setItems sts j items := by
  obtain ⟨si, sj, items, h1, h2, h3, h4⟩ := propEdge_ok hi he
  obtain ⟨todo', e5, e6⟩ := propItems_grown _ _ _ _ _ _ h3
  simp only [List.nil_append] at e5
  subst e5
  subst h4
  refine ⟨hI.setItems_grown h2 e6, ?_, _, rfl⟩
  apply hJ.setItems' h2
  have hgd : sts.getD i default = si := by rw [Array.getD_eq_getD_getElem?, h1]; rfl
  rw [hgd] at hj
  obtain ⟨X, ht⟩ := targetsOf_hasTrans (g := g) (hI.st i si h1).asize hj
  obtain ⟨_, _, t3⟩ := hI.trans i si h1 X j ht
  apply propItems_just h1 ht _ _ _ _ _ _ _ _ h3 (by intro x hx; simp at hx) (hJ j sj h2)
  · intro tit htit hd
    exact (t3 sj h2 tit htit hd).1
  · intro l hl
    by_cases hij : i = j
    · rw [if_pos hij] at hl; simp at hl
    · rw [if_neg hij] at hl
      simp only [Option.some.injEq] at hl
      subst hl; exact hJ i si h1
  · intro hn
    by_cases hij : i = j
    · exact hij
    · rw [if_neg hij] at hn; simp at hn

theorem JInv.prop_targets (hg : GW g) {autos : List (Nat × Nat)} {i : Nat} : ∀ (l : List Nat)
    (sts sts' : Array State) (ch ch' : Bool), Inv g autos sts → JInv g fs autos sts → i < sts.size →
    (∀ j ∈ l, j ∈ targetsOf (sts.getD i default)) → propTargets i l sts ch = .ok (sts', ch') →
    Inv g autos sts' ∧ JInv g fs autos sts' ∧ sts'.size = sts.size
  | [], sts, sts', ch, ch', hI, hJ, _, _, h => by
    simp only [propTargets, Res.ok.injEq, _root_.Prod.mk.injEq] at h
    rw [← h.1]; exact ⟨hI, hJ, rfl⟩
  | j :: rest, sts, sts', ch, ch', hI, hJ, hi, hl, h => by
    unfold propTargets at h
    split at h
    · rename_i sts1 c he
      obtain ⟨a1, a2, items, a3⟩ := JInv.edge hg hI hJ hi (hl j List.mem_cons_self) he
      subst a3
      obtain ⟨r1, r2, r3⟩ := JInv.prop_targets hg rest _ sts' _ ch' a1 a2 (by rw [size_setItems]; exact hi)
        (fun k hk => by rw [targetsOf_setItems]; exact hl k (List.mem_cons_of_mem _ hk)) h
      exact ⟨r1, r2, by rw [r3, size_setItems]⟩
    · simp at h
    · simp at h
    · simp at h

theorem JInv.prop_states (hg : GW g) {autos : List (Nat × Nat)} : ∀ (l : List Nat) (sts sts' : Array State)
    (ch ch' : Bool), Inv g autos sts → JInv g fs autos sts → (∀ i ∈ l, i < sts.size) →
    propStates l sts ch = .ok (sts', ch') → Inv g autos sts' ∧ JInv g fs autos sts'
  | [], sts, sts', ch, ch', hI, hJ, _, h => by
    simp only [propStates, Res.ok.injEq, _root_.Prod.mk.injEq] at h
    rw [← h.1]; exact ⟨hI, hJ⟩
  | i :: rest, sts, sts', ch, ch', hI, hJ, hl, h => by
    unfold propStates at h
    split at h
    · rename_i sts1 c he
      obtain ⟨a1, a2, a3⟩ := JInv.prop_targets hg _ sts sts1 false c hI hJ (hl i List.mem_cons_self)
        (fun _ hj => hj) he
      exact JInv.prop_states hg rest sts1 sts' _ ch' a1 a2
        (fun k hk => by rw [a3]; exact hl k (List.mem_cons_of_mem _ hk)) h
    · simp at h
    · simp at h
    · simp at h

theorem JInv.propagate_just (hg : GW g) {autos : List (Nat × Nat)} {fuel : Nat} : ∀ (n : Nat) (sts sts' : Array State),
    Inv g autos sts → JInv g fs autos sts → propagate g fs fuel n sts = .ok sts' → JInv g fs autos sts' := by
  intro n
  induction n with
  | zero => intro sts sts' _ _ h; simp [propagate] at h
  | succ n ih =>
    intro sts sts' hI hJ h
    unfold propagate at h
    have hround : ∀ r, propRound g fs fuel sts = .ok r → Inv g autos r.1 ∧ JInv g fs autos r.1 := by
      intro r hr
      unfold propRound at hr
      obtain ⟨sts1, h1, h2⟩ := Res.bind_ok hr
      obtain ⟨a1, _⟩ := refreshStates_induct (g := g) (fs := fs) (fuel := fuel)
        (fun s => Inv g autos s ∧ JInv g fs autos s)
        (fun s i st items hJ' hi hc =>
          ⟨hJ'.1.closeAt hg hi hc, hJ'.2.setItems' hi (closure_just hc (hJ'.2 i st hi))⟩)
        _ sts sts1 (fun i hi => List.mem_range.mp hi) h1 ⟨hI, hJ⟩
      exact JInv.prop_states hg _ sts1 r.1 false r.2 a1.1 a1.2 (fun i hi => List.mem_range.mp hi) h2
    split at h
    · rename_i sts1 hr
      obtain ⟨c1, c2⟩ := hround _ hr
      exact ih sts1 sts' c1 c2 h
    · rename_i sts1 hr
      simp only [Res.ok.injEq] at h
      subst h
      exact (hround _ hr).2
    · simp at h
    · simp at h
    · simp at h

end Rustemo.Table
