import Rustemo.Proofs.Refine
import Rustemo.Proofs.CertSound
/-!
# Soundness of the byte-level LR parser model

For every lexer (`nt` is arbitrary), every input and every fuel: if the run ends in `ok r` and the
table is structurally certified then `r.tree` is a derivation tree from the start symbol whose
leaves are, in order, the token kinds that were shifted.
-/
namespace Rustemo

theorem step_done_refines (env : Env) (nt : Ctx → Ctx × Outcome Tok) (start : Nat) (c : Cfg)
    (ctx : Ctx) (r : ParseResult)
    (hinv : FInv start c) (hstep : step env nt c = .done ctx r) :
    cstepWith env.g env.t start Tree.tok Tree.mk c.abs c.tok.kind = .accept r.tree ∧ r.hist = c.hist := by
  have htop := topState_abs hinv.len hinv.bottom
  unfold step at hstep
  rw [htop] at hstep
  simp only at hstep
  split at hstep
  · simp at hstep
  · rename_i act acts hcell
    have hcell' : env.t.cell (topOf start (absStack c)) c.tok.kind = act :: acts := hcell
    split at hstep
    · exact absurd hstep liftTok_not_done
    · split at hstep
      · simp at hstep
      · split at hstep
        · simp at hstep
        · split at hstep
          · simp at hstep
          · split at hstep
            · simp at hstep
            · split at hstep
              · simp at hstep
              · exact absurd hstep liftTok_not_done
    · split at hstep
      · simp at hstep
      · rename_i tr rest hres
        injection hstep with _ hr
        subst hr
        refine ⟨?_, rfl⟩
        unfold cstepWith
        simp only [Cfg.abs]
        rw [hcell']
        simp only
        have hst : ∃ x xs, c.stack = x :: xs := by
          cases hc : c.stack with
          | nil => have := hinv.len; simp [hc] at this
          | cons x xs => exact ⟨x, xs, rfl⟩
        obtain ⟨x, xs, hst⟩ := hst
        simp [absStack, hst, hres]

theorem liftTok_stop_not_ok {hist : List Tok} {stack : List StackItem} {res : List Tree}
    {slice : Option Slice} {r : Ctx × Outcome Tok} {k : Option (Option Slice × Nat)} {ctx : Ctx}
    {o : Outcome ParseResult} (h : liftTok hist stack res slice r k = .stop ctx o) :
    ∀ pr, o ≠ .ok pr := by
  unfold liftTok at h
  split at h
  · simp at h
  all_goals (injection h with _ h2; subst h2; intro pr; simp)

theorem step_stop_not_ok (env : Env) (nt : Ctx → Ctx × Outcome Tok) (c : Cfg) (ctx : Ctx)
    (o : Outcome ParseResult) (h : step env nt c = .stop ctx o) : ∀ pr, o ≠ .ok pr := by
  have hp : ∀ (cx : Ctx) (m : String), StepOut.stop cx (Outcome.panic m) = StepOut.stop ctx o →
      ∀ pr, o ≠ .ok pr := by
    intro cx m h; injection h with _ h2; subst h2; intro pr; simp
  unfold step at h
  simp only at h
  split at h
  · exact hp _ _ h
  · split at h
    · injection h with _ h2; subst h2; intro pr; simp
    · split at h
      · exact liftTok_stop_not_ok h
      · split at h
        · exact hp _ _ h
        · split at h
          · exact hp _ _ h
          · split at h
            · exact hp _ _ h
            · split at h
              · exact hp _ _ h
              · split at h
                · exact hp _ _ h
                · exact liftTok_stop_not_ok h
      · split at h
        · exact hp _ _ h
        · simp at h

theorem runLoop_sound (env : Env) (nt : Ctx → Ctx × Outcome Tok) (autos : List Auto) (hs : Structural env.g env.t autos)
    (au : Auto) (hin : au ∈ autos) (start : Nat) (hstart : start = au.start) :
    ∀ (fuel : Nat) (c : Cfg) (ctx : Ctx) (r : ParseResult),
      FInv start c → CInv env.g env.t start c.abs →
      runLoop env nt fuel c = (ctx, .ok r) →
      r.tree.Valid env.g au.sym ∧ r.tree.yield = (r.hist.map (·.kind)).reverse := by
  intro fuel
  induction fuel with
  | zero => intro c ctx r _ _ h; simp [runLoop] at h
  | succ n ih =>
    intro c ctx r hf hc h
    unfold runLoop at h
    split at h
    · rename_i c' hstep
      obtain ⟨hf', leafOf, nodeOf, hd, hcs⟩ := step_refines env nt start c c' hf hstep
      have hc' := cstep_preserves env.g env.t autos hs au hin start hstart leafOf nodeOf hd c.abs c'.abs c.tok.kind hc hcs
      exact ih c' ctx r hf' hc' h
    · rename_i ctx' r' hstep
      injection h with _ h2
      injection h2 with h2
      subst h2
      obtain ⟨hacc, hhist⟩ := step_done_refines env nt start c ctx' r' hf hstep
      obtain ⟨hv, hy, _⟩ := cstep_accept_sound env.g env.t autos hs au hin start hstart Tree.tok Tree.mk c.abs c.tok.kind r'.tree hc hacc
      refine ⟨hv, ?_⟩
      rw [hy, hhist]
      rfl
    · rename_i ctx' o hstep
      injection h with _ h2
      subst h2
      exact absurd rfl (step_stop_not_ok env nt c ctx' _ hstep r)

end Rustemo

namespace Rustemo

theorem parseWith_sound (env : Env) (nt : Ctx → Ctx × Outcome Tok) (autos : List Auto) (hs : Structural env.g env.t autos)
    (au : Auto) (hin : au ∈ autos) (start : Nat) (hstart : start = au.start) (ctx0 : Ctx) (fuel : Nat) (ctx : Ctx) (r : ParseResult)
    (h : parseWith env nt start ctx0 fuel = (ctx, .ok r)) :
    r.tree.Valid env.g au.sym ∧ r.tree.yield = (r.hist.map (·.kind)).reverse := by
  unfold parseWith at h
  simp only at h
  split at h
  · rename_i ctx1 tk hnt
    refine runLoop_sound env nt autos hs au hin start hstart fuel _ ctx r ⟨by simp, by simp⟩ ?_ h
    exact ⟨by simp [Cfg.abs, absStack, PathInv], by simp [Cfg.abs, absStack, yields]⟩
  all_goals (injection h with _ h2; simp at h2)

end Rustemo
