import Rustemo.Model.LayoutCert
import Rustemo.Proofs.LayoutRTStep
import Rustemo.Proofs.LexOk
/-!
# The layout parser refines the position-erased scanner

`layoutParse env ls ctx fuel` (string lexer, no whitespace skipping) run from any well-positioned
context answers what `LayoutCert.scan env ls fuel ctx.pos.pos` answers: an accepted layout ends at the
byte offset the scanner reports, a failed one hands back the offset the scanner reports.  Hence the
outcome of a layout parse is a function of the byte offset alone (not of the state of the main
parser, its span, or its stored layout).
-/
namespace Rustemo
open LayoutCert

theorem posAt_eq_posOf (input : List Nat) (p : Nat) : posAt input p = posOf input p := rfl

/-- without whitespace skipping the string lexer never touches the context -/
theorem ntBase_ctx (env : Env) (hc : env.custom = none) (hsk : env.skipWs = false) (pp : Bool)
    (ctx ctx' : Ctx) (o : Outcome Tok) (h : nextTokenBase env pp ctx = (ctx', o)) : ctx' = ctx := by
  unfold nextTokenBase lexNext at h
  rw [hc, hsk] at h
  simp only [Bool.false_eq_true, ↓reduceIte] at h
  split at h
  · injection h with h1 _; exact h1.symm
  · unfold noToken at h
    simp only at h
    split at h
    · injection h with h1 _; exact h1.symm
    · split at h <;> (injection h with h1 _; exact h1.symm)

/-- the token the layout parser's lexer delivers is the one the scanner computes -/
theorem ntBase_scan (env : Env) (hc : env.custom = none) (hsk : env.skipWs = false)
    (ctx ctx' : Ctx) (o : Outcome Tok) (hp : ctx.pos = posOf env.input ctx.pos.pos)
    (h : nextTokenBase env true ctx = (ctx', o)) :
    (∀ tk, o = .ok tk → scanTok env ctx.state ctx.pos.pos = .ok tk.kind tk.val.2) ∧
    (∀ e, o = .err e → scanTok env ctx.state ctx.pos.pos = .err) ∧
    (∀ tk, o = .ok tk → tk.kind = 0 ∨ tk ∈ tokenIter env ctx.pos (env.t.sorted ctx.state)) := by
  unfold nextTokenBase lexNext at h
  rw [hc, hsk] at h
  simp only [Bool.false_eq_true, ↓reduceIte] at h
  unfold scanTok
  rw [posAt_eq_posOf, ← hp]
  split at h
  · rename_i tk hpick
    injection h with _ h2
    subst h2
    rw [hpick]
    refine ⟨?_, by intro e he; simp at he, ?_⟩
    · intro tk' h; injection h with h; subst h; rfl
    · intro tk' h; injection h with h; subst h; exact Or.inr (pickToken_mem hpick)
  · rename_i hpick
    rw [hpick]
    unfold noToken at h
    simp only [Bool.true_and] at h
    unfold scanPick scanNoToken
    simp only
    split at h
    · rename_i hstop
      injection h with _ h2
      subst h2
      rw [if_pos hstop]
      refine ⟨?_, by intro e he; simp at he, ?_⟩
      · intro tk' h; injection h with h; subst h; rfl
      · intro tk' h; injection h with h; subst h; exact Or.inl rfl
    · rename_i hstop
      rw [if_neg hstop]
      split at h
      · injection h with _ h2
        subst h2
        exact ⟨by intro tk h; simp at h, by intro e h; simp at h, by intro tk h; simp at h⟩
      · rename_i hne
        injection h with _ h2
        subst h2
        refine ⟨by intro tk h; simp at h, ?_, by intro tk h; simp at h⟩
        intro e _
        split
        · rename_i heq; exact absurd heq hne
        · rfl

/-- erase everything but states, byte offset and the token ahead -/
def sabs (c : Cfg) : SCfg := ⟨c.stack.map (·.state), c.ctx.pos.pos, c.tok.kind, c.tok.val.2⟩

theorem head?_map_state {st : List StackItem} {s : Nat} (h : topState st = some s) :
    (st.map (·.state)).head? = some s := by
  unfold topState at h
  rw [List.head?_map]; exact h

theorem posOf_pos' (input : List Nat) (n : Nat) (h : n ≤ input.length) : (posOf input n).pos = n :=
  posOf_pos input n h

/-- position reached by shifting the token ahead -/
theorem shift_pos (env : Env) (c : Cfg) (hinv : SInv env.input c) (hk : c.tok.kind ≠ 0) (s' : Nat) :
    (shiftCtx env c s').pos = posOf env.input (c.ctx.pos.pos + c.tok.val.2) ∧
    c.tok.val.1 = c.ctx.pos.pos ∧ c.ctx.pos.pos + c.tok.val.2 ≤ env.input.length := by
  obtain ⟨hv1, hv2, _⟩ : c.tok.val.1 = c.ctx.pos.pos ∧ c.tok.val.1 + c.tok.val.2 ≤ env.input.length ∧
      c.tok.span = ⟨c.ctx.pos, posOf env.input (c.tok.val.1 + c.tok.val.2)⟩ := by
    rcases hinv.tok with h | h
    · exact absurd h hk
    · exact h
  obtain ⟨hcp, _, _⟩ := hinv.ctx
  refine ⟨?_, hv1, by omega⟩
  show posAfter (sliceOf env.input c.tok.val) c.ctx.pos = _
  have := posAfter_slice env.input c.tok.val.1 c.tok.val.2 hv2
  have hval : (c.tok.val.1, c.tok.val.2) = c.tok.val := rfl
  rw [hval, hv1, ← hcp.1] at this
  exact this

theorem step_next_scan (env : Env) (hc : env.custom = none) (hsk : env.skipWs = false) (hr : RecogOk env)
    (hns : NoShiftStop env.t) (c c' : Cfg) (hinv : SInv env.input c)
    (hstep : step env (nextTokenBase env true) c = .next c') :
    sstep env (sabs c) = .next (sabs c') := by
  have hnt := ntOk_base env hc hr true
  cases step_next_inv env _ c c' hstep with
  | shift state s' acts ctx1 tk htop hcell hnt1 hc' =>
    have hk : c.tok.kind ≠ 0 := by
      intro h0; apply hns state s'; rw [← h0, hcell]; simp
    obtain ⟨hpos, hv1, hv2⟩ := shift_pos env c hinv hk s'
    have hctx1 := ntBase_ctx env hc hsk true _ _ _ hnt1
    subst hctx1
    have hpp : (shiftCtx env c s').pos.pos = c.ctx.pos.pos + c.tok.val.2 := by
      rw [hpos]; exact posOf_pos' _ _ hv2
    have hsc := (ntBase_scan env hc hsk _ _ _ (by rw [hpos, posOf_pos' _ _ hv2]) hnt1).1 tk rfl
    rw [hpp] at hsc
    have hst : (shiftCtx env c s').state = s' := rfl
    rw [hst] at hsc
    unfold sstep
    simp only [sabs, head?_map_state htop, hcell, hsc, sLift]
    subst hc'
    simp [hpp, shiftItem]
  | reduce state p len fromState s' pr acts ctx1 tk htop hcell hlen hfrom hpr hgoto hrlen hnt1 hc' =>
    have hctx1 := ntBase_ctx env hc hsk true _ _ _ hnt1
    subst hctx1
    obtain ⟨hcp, _, _⟩ := hinv.ctx
    have hsc := (ntBase_scan env hc hsk (reduceCtx c s') _ _ hcp.1 hnt1).1 tk rfl
    have hst : (reduceCtx c s').state = s' := rfl
    have hpp : (reduceCtx c s').pos = c.ctx.pos := rfl
    rw [hst, hpp] at hsc
    unfold sstep
    have hl : ¬ (c.stack.map (·.state)).length < len := by simp; omega
    have hfrom' : ((c.stack.map (·.state)).drop len).head? = some fromState := by
      rw [← List.map_drop]; exact head?_map_state hfrom
    simp only [sabs, head?_map_state htop, hcell, hl, ↓reduceIte, hfrom', hpr, hgoto, hsc, sLift]
    subst hc'
    simp [reduceCtx, List.map_drop]

theorem step_done_scan (env : Env) (hc : env.custom = none) (hsk : env.skipWs = false) (hr : RecogOk env)
    (hns : NoShiftStop env.t) (c : Cfg) (ctx : Ctx) (r : ParseResult) (hinv : SInv env.input c)
    (hstep : step env (nextTokenBase env true) c = .done ctx r) :
    sstep env (sabs c) = .fin (.ok ctx.pos.pos) := by
  obtain ⟨state, acts, rest, htop, hcell, hctx, hres, _, _⟩ := step_done_inv env _ c ctx r hstep
  unfold sstep
  have hl : ¬ (c.stack.map (·.state)).length < 2 := by
    have := hinv.len; rw [hres] at this; simp; simp at this; omega
  simp only [sabs, head?_map_state htop, hcell, hl, ↓reduceIte, hctx]

theorem step_err_scan (env : Env) (hc : env.custom = none) (hsk : env.skipWs = false) (hr : RecogOk env)
    (hns : NoShiftStop env.t) (c : Cfg) (ctx : Ctx) (e : PErr) (hinv : SInv env.input c)
    (hstep : step env (nextTokenBase env true) c = .stop ctx (.err e)) :
    sstep env (sabs c) = .fin (.fail ctx.pos.pos) := by
  cases step_stop_inv env _ c ctx _ hstep with
  | panic site h ho => simp at ho
  | noAction state htop hcell h ho =>
    unfold sstep
    simp only [sabs, head?_map_state htop, hcell, h]
  | shift state s' acts o' htop hcell hnt1 hno ho =>
    have hk : c.tok.kind ≠ 0 := by
      intro h0; apply hns state s'; rw [← h0, hcell]; simp
    obtain ⟨hpos, hv1, hv2⟩ := shift_pos env c hinv hk s'
    have hctx1 := ntBase_ctx env hc hsk true _ _ _ hnt1
    subst hctx1
    have hpp : (shiftCtx env c s').pos.pos = c.ctx.pos.pos + c.tok.val.2 := by
      rw [hpos]; exact posOf_pos' _ _ hv2
    have hsc := (ntBase_scan env hc hsk _ _ _ (by rw [hpos, posOf_pos' _ _ hv2]) hnt1).2.1
    rw [hpp] at hsc
    have hst : (shiftCtx env c s').state = s' := rfl
    rw [hst] at hsc
    -- the lexer's outcome is an error
    have ho' : ∃ e', o' = .err e' := by
      cases o' with
      | ok tk => exact absurd rfl (hno tk)
      | err e' => exact ⟨e', rfl⟩
      | panic s => have := ho.2.1 s rfl; simp at this
      | fuel => have := ho.2.2 rfl; simp at this
    obtain ⟨e', he'⟩ := ho'
    have hsc' := hsc e' he'
    unfold sstep
    simp only [sabs, head?_map_state htop, hcell, hsc', sLift, hpp]
  | reduce state p len fromState s' pr acts o' htop hcell hlen hfrom hpr hgoto hnt1 hno ho =>
    have hctx1 := ntBase_ctx env hc hsk true _ _ _ hnt1
    subst hctx1
    obtain ⟨hcp, _, _⟩ := hinv.ctx
    have hsc := (ntBase_scan env hc hsk (reduceCtx c s') _ _ hcp.1 hnt1).2.1
    have hst : (reduceCtx c s').state = s' := rfl
    have hpp : (reduceCtx c s').pos = c.ctx.pos := rfl
    rw [hst, hpp] at hsc
    have ho' : ∃ e', o' = .err e' := by
      cases o' with
      | ok tk => exact absurd rfl (hno tk)
      | err e' => exact ⟨e', rfl⟩
      | panic s => have := ho.2.1 s rfl; simp at this
      | fuel => have := ho.2.2 rfl; simp at this
    obtain ⟨e', he'⟩ := ho'
    have hsc' := hsc e' he'
    unfold sstep
    have hl : ¬ (c.stack.map (·.state)).length < len := by simp; omega
    have hfrom' : ((c.stack.map (·.state)).drop len).head? = some fromState := by
      rw [← List.map_drop]; exact head?_map_state hfrom
    simp only [sabs, head?_map_state htop, hcell, hl, ↓reduceIte, hfrom', hpr, hgoto, hsc', sLift, hpp]

theorem runLoop_scan (env : Env) (hc : env.custom = none) (hsk : env.skipWs = false) (hr : RecogOk env)
    (hns : NoShiftStop env.t) : ∀ (fuel : Nat) (c : Cfg) (ctx : Ctx) (o : Outcome ParseResult),
    SInv env.input c → runLoop env (nextTokenBase env true) fuel c = (ctx, o) →
    (∀ r, o = .ok r → srun env fuel (sabs c) = .ok ctx.pos.pos) ∧
    (∀ e, o = .err e → srun env fuel (sabs c) = .fail ctx.pos.pos) := by
  intro fuel
  induction fuel with
  | zero =>
    intro c ctx o _ h
    simp only [runLoop] at h
    injection h with _ h2
    subst h2
    exact ⟨by intro r h; simp at h, by intro e h; simp at h⟩
  | succ n ih =>
    intro c ctx o hinv h
    unfold runLoop at h
    split at h
    · rename_i c' hstep
      have hinv' := step_spans env _ c c' (ntOk_base env hc hr true) hns hinv hstep
      have := ih c' ctx o hinv' h
      unfold srun
      rw [step_next_scan env hc hsk hr hns c c' hinv hstep]
      exact this
    · rename_i ctx' r' hstep
      injection h with h1 h2
      subst h1 h2
      refine ⟨?_, by intro e h; simp at h⟩
      intro r _
      unfold srun
      rw [step_done_scan env hc hsk hr hns c ctx' r' hinv hstep]
    · rename_i ctx' o' hstep
      injection h with h1 h2
      subst h1 h2
      refine ⟨?_, ?_⟩
      · intro r hr'
        exact absurd hr' (step_stop_not_ok' env _ c ctx' o' hstep r)
      · intro e he
        subst he
        unfold srun
        rw [step_err_scan env hc hsk hr hns c ctx' e hinv hstep]

/-- **The layout parser is a function of the byte offset.** -/
theorem layoutParse_scan (env : Env) (hc : env.custom = none) (hsk : env.skipWs = false) (hr : RecogOk env)
    (hns : NoShiftStop env.t) (ls : Nat) (ctx : Ctx) (fuel : Nat) (cx : Ctx) (o : Outcome ParseResult)
    (hctx : CtxOk env.input ctx) (h : layoutParse env ls ctx fuel = (cx, o)) :
    (∀ r, o = .ok r → scan env ls fuel ctx.pos.pos = .ok cx.pos.pos) ∧
    (∀ e, o = .err e → scan env ls fuel ctx.pos.pos = .fail cx.pos.pos) := by
  unfold layoutParse parseWith at h
  simp only at h
  have hctx0 : CtxOk env.input { ctx with state := ls } := hctx
  unfold scan
  split at h
  · rename_i ctx1 tk hnt1
    have hctx1 := ntBase_ctx env hc hsk true _ _ _ hnt1
    subst hctx1
    obtain ⟨hc1, ht1⟩ := ntOk_base env hc hr true _ _ _ hctx0 hnt1
    have hsc := (ntBase_scan env hc hsk { ctx with state := ls } _ _ hctx.1.1 hnt1).1 tk rfl
    have hsc' : scanTok env ls ctx.pos.pos = .ok tk.kind tk.val.2 := hsc
    rw [hsc']
    have hinv : SInv env.input ⟨[StackItem.mk ls ctx.span], [], none, { ctx with state := ls }, tk, []⟩ :=
      ⟨by simp, hc1, by simp, by simp, ht1 tk rfl⟩
    exact runLoop_scan env hc hsk hr hns fuel _ cx o hinv h
  · rename_i ctx1 e hnt1
    have hctx1 := ntBase_ctx env hc hsk true _ _ _ hnt1
    subst hctx1
    injection h with h1 h2
    subst h1 h2
    have hsc := (ntBase_scan env hc hsk { ctx with state := ls } _ _ hctx.1.1 hnt1).2.1 e rfl
    have hsc' : scanTok env ls ctx.pos.pos = .err := hsc
    rw [hsc']
    exact ⟨by intro r h; simp at h, by intro e' _; rfl⟩
  · injection h with _ h2
    subst h2
    exact ⟨by intro r h; simp at h, by intro e h; simp at h⟩
  · injection h with _ h2
    subst h2
    exact ⟨by intro r h; simp at h, by intro e h; simp at h⟩

end Rustemo
