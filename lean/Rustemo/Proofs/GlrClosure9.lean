import Rustemo.Proofs.GlrClosure8
/-!
# How a sub-frontier state grows in one `reducePath`, and what that does to chains
-/
namespace Rustemo.Glr
open Rustemo

/-- `rs'` is `rs` plus possibly one new head `nh` (in the sub-frontier) and one new edge `ne = (hA → u0)` -/
structure Grow (rs rs' : RState) (nh ne : Option Nat) (hA u0 : Nat) : Prop where
  heads_old : ∀ (i : Nat) (hd : Head), rs.gss.heads[i]? = some hd → rs'.gss.heads[i]? = some hd
  heads_new : ∀ (i : Nat) (hd : Head), rs'.gss.heads[i]? = some hd → rs.gss.heads[i]? = some hd ∨ nh = some i
  edges_old : ∀ (e : Nat) (ed : Edge), rs.gss.edges[e]? = some ed →
    ∃ ed' : Edge, rs'.gss.edges[e]? = some ed' ∧ ed'.src = ed.src ∧ ed'.dst = ed.dst ∧ ∀ n ∈ ed.poss, n ∈ ed'.poss
  edges_new : ∀ (e : Nat) (ed' : Edge), rs'.gss.edges[e]? = some ed' →
    (∃ ed : Edge, rs.gss.edges[e]? = some ed ∧ ed.src = ed'.src ∧ ed.dst = ed'.dst) ∨
    (ne = some e ∧ ed'.src = hA ∧ ed'.dst = u0)
  sub_old : ∀ x ∈ rs.sub, x ∈ rs'.sub
  sub_new : ∀ x ∈ rs'.sub, x ∈ rs.sub ∨ nh = some x.2
  queue : ∀ r ∈ rs.queue, r ∈ rs'.queue
  nh_fresh : ∀ i, nh = some i → rs.gss.heads[i]? = none
  ne_fresh : ∀ e, ne = some e → rs.gss.edges[e]? = none

/-- chains go forward -/
theorem Grow.chain_fwd {rs rs' : RState} {nh ne : Option Nat} {hA u0 : Nat} (h : Grow rs rs' nh ne hA u0) {t : Table} :
    ∀ {P Xs : List Nat} {u v : Nat}, ChainEnd t rs.gss P Xs u v → ChainEnd t rs'.gss P Xs u v
  | [], _, _, _, hc => hc
  | e :: es, _, _, _, hc => by
    obtain ⟨ed, hs, X, Xs', he, hhs, hXs, hdst, hsym, hr⟩ := hc
    obtain ⟨ed', he', hsrc, hdst', _⟩ := h.edges_old e ed he
    exact ⟨ed', hs, X, Xs', he', by rw [hsrc]; exact h.heads_old _ _ hhs, hXs, by rw [hdst', hdst], hsym,
      by rw [hsrc]; exact h.chain_fwd hr⟩

/-- chains that avoid the new edge go back -/
theorem Grow.chain_back {env : Env} {rs rs' : RState} {nh ne : Option Nat} {hA u0 : Nat}
    (h : Grow rs rs' nh ne hA u0) (hg : GInv env rs.gss) :
    ∀ {P Xs : List Nat} {u v : Nat}, (∀ e ∈ P, ne ≠ some e) → ChainEnd env.t rs'.gss P Xs u v →
      ChainEnd env.t rs.gss P Xs u v
  | [], _, _, _, _, hc => hc
  | e :: es, _, _, _, hne, hc => by
    obtain ⟨ed', hs, X, Xs', he', hhs, hXs, hdst, hsym, hr⟩ := hc
    rcases h.edges_new e ed' he' with ⟨ed, he, hsrc, hdst'⟩ | ⟨hnew, _⟩
    · obtain ⟨hs0, _, hhs0, _⟩ := (hg.edges e ed he).ends
      have := h.heads_old _ _ hhs0
      rw [hsrc, hhs] at this; injection this with this; subst this
      exact ⟨ed, hs, X, Xs', he, hhs0, hXs, by rw [hdst', hdst], hsym,
        by rw [hsrc]; exact h.chain_back hg (fun e' h' => hne e' (by simp [h'])) hr⟩
    · exact absurd hnew (hne e (by simp))

/-- the end of a chain that avoids the new edge and starts at an old head is an old head -/
theorem Grow.end_old {env : Env} {rs rs' : RState} {nh ne : Option Nat} {hA u0 : Nat}
    (h : Grow rs rs' nh ne hA u0) (hg : GInv env rs.gss) {P Xs : List Nat} {u v : Nat}
    (hc : ChainEnd env.t rs.gss P Xs u v) (hu : ∃ hu : Head, rs.gss.heads[u]? = some hu) :
    ∃ hv : Head, rs.gss.heads[v]? = some hv := by
  rcases ChainEnd.end_cases hc with ⟨_, hv⟩ | ⟨e, _, ed, hed, hsrc⟩
  · rw [hv]; exact hu
  · obtain ⟨hs, _, hhs, _⟩ := (hg.edges e ed hed).ends
    rw [← hsrc]; exact ⟨hs, hhs⟩

theorem Grow.inSub_back {rs rs' : RState} {nh ne : Option Nat} {hA u0 : Nat} (h : Grow rs rs' nh ne hA u0) {v : Nat}
    (hv : InSub rs'.sub v) (hold : ∃ hv' : Head, rs.gss.heads[v]? = some hv') : InSub rs.sub v := by
  obtain ⟨s, hm⟩ := hv
  rcases h.sub_new _ hm with h1 | h1
  · exact ⟨s, h1⟩
  · obtain ⟨hv', hhv'⟩ := hold
    rw [h.nh_fresh v h1] at hhv'; simp at hhv'

/-- an old chain of the new state is a chain of the old state, with all its premises -/
theorem Grow.kchain_back {env : Env} {F a : Nat} {rs rs' : RState} {nh ne : Option Nat} {hA u0 : Nat}
    (h : Grow rs rs' nh ne hA u0) (hg : GInv env rs.gss) {u p : Nat} {pr : Prod} {P : List Nat} {s' : Nat}
    (hk : KChain env F a rs'.gss rs'.sub u p pr P s') (hne : ∀ e ∈ P, ne ≠ some e) (hu : nh ≠ some u) :
    KChain env F a rs.gss rs.sub u p pr P s' := by
  obtain ⟨hu', hhu', hitem, hgoto⟩ := hk.root
  have hhu : rs.gss.heads[u]? = some hu' := by
    rcases h.heads_new u hu' hhu' with h1 | h1
    · exact h1
    · exact absurd h1 hu
  obtain ⟨v, hc, hv⟩ := hk.chain
  have hc0 := h.chain_back hg hne hc
  refine ⟨⟨hu', hhu, hitem, hgoto⟩, hk.prod, hk.notAug, hk.len, ⟨v, hc0, h.inSub_back hv (h.end_old hg hc0 ⟨hu', hhu⟩)⟩, ?_, hk.live⟩
  intro i hi w hw hcw hhw hF
  exact hk.nullOk i hi w hw (h.chain_fwd hcw) (h.heads_old _ _ hhw) hF

/-- a pending reduction stays pending -/
theorem Grow.pending_fwd {rs rs' : RState} {nh ne : Option Nat} {hA u0 : Nat} (h : Grow rs rs' nh ne hA u0)
    {u p : Nat} {P : List Nat} (hp : PendingIn rs.queue u p P) : PendingIn rs'.queue u p P := by
  obtain ⟨r, hr, h1, h2, h3⟩ := hp
  exact ⟨r, h.queue r hr, h1, h2, h3⟩

/-- a covering possibility stays one, as long as its node is not touched -/
theorem Grow.covered_fwd {F a : Nat} {rs rs' : RState} {nh ne : Option Nat} {hA u0 : Nat} (h : Grow rs rs' nh ne hA u0)
    (hU' : UInv F a rs'.gss rs'.sub)
    (hnodes : ∀ (n : Nat) (nd : SNode), rs.gss.nodes[n]? = some nd → rs'.gss.nodes[n]? = some nd)
    {u p : Nat} {P : List Nat} {s' : Nat} (hc : Covered rs u p P s') : Covered rs' u p P s' := by
  obtain ⟨hA', e, ed, n, sp, l, C, h1, h2, h3, h4, h5, h6, h7⟩ := hc
  obtain ⟨ed', he', hsrc, hdst, hposs⟩ := h.edges_old e ed h2
  exact ⟨hA', e, ed', n, sp, l, C, sfGet_of_mem hU'.subFun (h.sub_old _ (sfGet_mem h1)), he', by rw [hsrc, h3],
    by rw [hdst, h4], hposs n h5, hnodes n _ h6, h7⟩

end Rustemo.Glr
