import Rustemo.Model.CertViable
import Rustemo.Model.CertComplete
import Rustemo.Model.Core
/-! A second concrete grammar/table for the non-vacuity `example`s of the valid-prefix theorems:
`S: 'a' A 'c' | 'b' A 'd'; A: 'x'` with the LALR table the real compiler builds for it (transcribed
from the `verif` dump).  The LALR state 4 `[A: x., {c, d}]` merges the lookaheads of two LR(1) states:
on input `a x d` the parser still *reduces* `A: x` before it reports the error at `d` — the error is
delayed by a reduction, never by a shift. -/
namespace Rustemo.Example2

/-- terminals STOP(0) a(1) b(2) c(3) d(4) x(5); nonterminals EMPTY(6) AUG(7) S(8) A(9);
    prods 0: AUG→S, 1: S→a A c, 2: S→b A d, 3: A→x -/
def g : Grammar :=
  { nterms := 6, nnonterms := 4,
    prods := #[{ lhs := 7, rhs := [8] }, { lhs := 8, rhs := [1, 9, 3] }, { lhs := 8, rhs := [2, 9, 4] },
               { lhs := 9, rhs := [5] }],
    emptyIdx := 6, augIdx := 7, startIdx := 8 }

def t : Table :=
  { states := #[
      { symbol := 7, items := [⟨0, 0, [0]⟩, ⟨1, 0, [0]⟩, ⟨2, 0, [0]⟩],
        actions := #[[], [.shift 1], [.shift 2], [], [], []], gotos := #[none, none, some 3, none],
        sorted := [(1, true), (2, true)] },
      { symbol := 1, items := [⟨1, 1, [0]⟩, ⟨3, 0, [3]⟩],
        actions := #[[], [], [], [], [], [.shift 4]], gotos := #[none, none, none, some 5],
        sorted := [(5, true)] },
      { symbol := 2, items := [⟨2, 1, [0]⟩, ⟨3, 0, [4]⟩],
        actions := #[[], [], [], [], [], [.shift 4]], gotos := #[none, none, none, some 6],
        sorted := [(5, true)] },
      { symbol := 8, items := [⟨0, 1, [0]⟩],
        actions := #[[.accept], [], [], [], [], []], gotos := #[none, none, none, none],
        sorted := [(0, false)] },
      { symbol := 5, items := [⟨3, 1, [3, 4]⟩],
        actions := #[[], [], [], [.reduce 3 1], [.reduce 3 1], []], gotos := #[none, none, none, none],
        sorted := [(3, true), (4, true)] },
      { symbol := 9, items := [⟨1, 2, [0]⟩],
        actions := #[[], [], [], [.shift 7], [], []], gotos := #[none, none, none, none],
        sorted := [(3, true)] },
      { symbol := 9, items := [⟨2, 2, [0]⟩],
        actions := #[[], [], [], [], [.shift 8], []], gotos := #[none, none, none, none],
        sorted := [(4, true)] },
      { symbol := 3, items := [⟨1, 3, [0]⟩],
        actions := #[[.reduce 1 3], [], [], [], [], []], gotos := #[none, none, none, none],
        sorted := [(0, false)] },
      { symbol := 4, items := [⟨2, 3, [0]⟩],
        actions := #[[.reduce 2 3], [], [], [], [], []], gotos := #[none, none, none, none],
        sorted := [(0, false)] }] }

/-- the derivation tree of `a x c` -/
def treeAxc : Tree := Tree.mk 1 [Tree.tok 1, Tree.mk 3 [Tree.tok 5], Tree.tok 3]

/-- `S: 'a' S` (no way to stop: `S` is unproductive, finding F10) -/
def unproductive : Grammar :=
  { nterms := 2, nnonterms := 3,
    prods := #[{ lhs := 3, rhs := [4] }, { lhs := 4, rhs := [1, 4] }],
    emptyIdx := 2, augIdx := 3, startIdx := 4 }

/-- error outcome as data (for `decide`) -/
def errorOf : TResult → Option (Nat × Nat)
  | .error k s => some (k, s)
  | _ => none

end Rustemo.Example2
