import Rustemo.Proofs.GlrRun7
/-!
# The reducer phase of one level under `LexDet`
-/
namespace Rustemo.Glr
open Rustemo

/-- what holds after the reducer phase of level `F` (graph `g1` after `create_frontier`) -/
structure Mid (env : Env) (tok : Nat → Tok) (F : Nat) (LF : Pos) (base : List Nat) (g1 : Gss) (acc0 : List Nat) (sub : SubFrontier)
    (st3 : St) : Prop where
  st : StOk env F st3
  gu : GU F st3.gss
  frame : FrameLt F g1 st3.gss
  red : LevelRed env st3.gss tok F sub
  sc : ∀ (s u s' : Nat), (s, u) ∈ sub → Action.shift s' ∈ env.t.cell s (tok F).kind → (u, s') ∈ st3.shifts
  ac : ∀ (s u : Nat), (s, u) ∈ sub → Action.accept ∈ env.t.cell s (tok F).kind → u ∈ st3.accepted
  tp : ∀ (h : Nat) (hd : Head), st3.gss.heads[h]? = some hd → hd.frontier = F →
    hd.pos = LF ∧ ∀ t, hd.tok = some t → t = tok F
  am : ∀ x ∈ acc0, x ∈ st3.accepted
  nsym : ∀ (h : Nat) (hd : Head), st3.gss.heads[h]? = some hd → hd.frontier = F →
    h ∈ base ∨ (env.g.nterms ≤ env.t.symAt hd.state ∧ hd.state ≠ 0)
  /-- one head per state on the level -/
  hfunF : ∀ (h h' : Nat) (hd hd' : Head), st3.gss.heads[h]? = some hd → st3.gss.heads[h']? = some hd' → hd.frontier = F →
    hd'.frontier = F → hd.state = hd'.state → h = h'

theorem reducer_phase {env : Env} (hT : TableOk env) (hC : CompleteRN env.g env.t) (hW : GWF env.g) {tok : Nat → Tok}
    {F : Nat} {LF : Pos} {fuel : Nat} {g1 : Gss} {acc0 : List Nat} {base : List Nat} {fr : Frontier} {sub0 : SubFrontier}
    (hs1 : StOk env F ⟨g1, [], acc0⟩) (hu1 : GU F g1)
    (hshape : FrShape (LF, (tok F).kind) fr sub0) (hsub0 : SubOk g1 F sub0)
    (hfun : ∀ (s h h' : Nat), (s, h) ∈ sub0 → (s, h') ∈ sub0 → h = h')
    (hkind : ∀ (s h : Nat), (s, h) ∈ sub0 → ∃ hd : Head, g1.heads[h]? = some hd ∧ hd.tok = some (tok F))
    (hlevel : ∀ (h : Nat) (hd : Head), g1.heads[h]? = some hd → hd.frontier = F → h ∈ base)
    (hdown : ∀ (e : Nat) (ed : Edge) (hs hd : Head), g1.edges[e]? = some ed → g1.heads[ed.src]? = some hs →
      g1.heads[ed.dst]? = some hd → hs.frontier = F → hd.frontier < F)
    (htp : ∀ (h : Nat) (hd : Head), g1.heads[h]? = some hd → hd.frontier = F →
      hd.pos = LF ∧ ∀ t, hd.tok = some t → t = tok F)
    (halive : ∀ i ∈ base, ∀ hd : Head, g1.heads[i]? = some hd → env.t.cell hd.state (tok F).kind ≠ [] →
      (hd.state, i) ∈ sub0)
    (hbase : ∀ i ∈ base, ∃ hd : Head, g1.heads[i]? = some hd)
    (hbfun : ∀ i ∈ base, ∀ j ∈ base, ∀ (hd hd' : Head), g1.heads[i]? = some hd → g1.heads[j]? = some hd' →
      hd.state = hd'.state → i = j)
    (hbterm : ∀ i ∈ base, ∀ hd : Head, g1.heads[i]? = some hd → hd.state = 0 ∨ env.t.symAt hd.state < env.g.nterms)
    {qs : List (List Reduction)} {st2 st3 : St}
    (hip : initialProcess env ⟨g1, [], acc0⟩ fr = .ok (qs, st2)) (hra : reduceAll env fuel fr qs st2 = .ok st3) :
    ∃ sub, Mid env tok F LF base g1 acc0 sub st3 ∧ ∀ x ∈ sub0, x ∈ sub := by
  rcases hshape with ⟨hfr, hsb⟩ | ⟨hfr, _⟩
  · -- no head has a lookahead: nothing happens
    subst hfr; subst hsb
    unfold initialProcess at hip
    simp only [foldO, obind] at hip
    injection hip with hip
    injection hip with e1 e2
    subst e2
    simp only [reduceAll] at hra
    injection hra with hra
    subst hra
    refine ⟨[], ⟨hs1, hu1, FrameLt.refl _ _, ⟨fun _ _ h => by simp at h, ?_, ?_⟩, fun _ _ _ h => by simp at h,
      fun _ _ h => by simp at h, htp, fun x hx => hx, fun h hd hh hl => Or.inl (hlevel h hd hh hl),
      fun h h' hd hd' hh hh' hl hl' hs => hbfun h (hlevel h hd hh hl) h' (hlevel h' hd' hh' hl') hd hd' hh hh' hs⟩, fun _ h => h⟩
    · intro u p pr P s' hk
      obtain ⟨v, _, s, hin⟩ := hk.chain
      simp at hin
    · intro h hd hh hl hne
      have := halive h (hlevel h hd hh hl) hd hh hne
      simp at this
  · subst hfr
    -- the queue of the one sub-frontier
    unfold initialProcess at hip
    simp only [foldO] at hip
    obtain ⟨r0, h0, hip⟩ := obind_eq_ok hip
    obtain ⟨r1, h1, h0⟩ := obind_eq_ok h0
    unfold initialSub at h1
    obtain ⟨r, hfold, h1⟩ := obind_eq_ok h1
    simp only at hfold h1
    injection h1 with h1; subst h1
    injection h0 with h0; subst h0
    injection hip with hip
    injection hip with e1 e2
    subst e1; subst e2
    simp only [List.nil_append] at hra
    unfold reduceAll at hra
    simp only [List.headD_cons] at hra
    obtain ⟨rs', hloop, hra⟩ := obind_eq_ok hra
    simp only [reduceAll] at hra
    injection hra with hra
    subst hra
    -- the start state of the reducer
    have hkind' : ∀ (s h : Nat), (s, h) ∈ sub0 →
        ∃ (hd : Head) (tk : Tok), g1.heads[h]? = some hd ∧ hd.tok = some tk ∧ tk.kind = (tok F).kind := by
      intro s h hm
      obtain ⟨hd, k1, k2⟩ := hkind s h hm
      exact ⟨hd, tok F, k1, k2, rfl⟩
    have hsp := initialFold_spec sub0 _ r hkind' hfold
    have hlists : ListsOk env g1 F r.1 r.2.1 r.2.2 := by
      have := foldO_sat (A := True) (I := fun r => ListsOk env g1 F r.1 r.2.1 r.2.2) sub0 ([], [], acc0)
        ⟨fun _ h => by simp at h, hs1.shifts, hs1.acc⟩ (fun s e he hs => initialHead_sat hT hsub0 hs he)
      rw [hfold] at this
      exact this
    have hI : RInv env F ⟨g1, r.1, r.2.1, r.2.2, sub0⟩ := ⟨hs1.g, hsub0, hlists⟩
    have hU : UInv F (tok F).kind g1 sub0 := by
      refine ⟨hu1.edgeUniq, hfun, ?_, hu1.noAbove, hu1.edgeMono, ?_⟩
      · intro e ed hs hd he hhs hhd hsl hdl
        have := hdown e ed hs hd he hhs hhd hsl
        omega
      · intro s h hm
        obtain ⟨hd, tk, k1, k2, k3⟩ := hkind' s h hm
        exact ⟨hd, tk, k1, k2, k3⟩
    obtain ⟨hqs, hrc⟩ := start_closure hC hs1.g hU hsub0 hsp rfl
    have hb : RB env F (tok F).kind (tok F) LF base acc0 sub0 g1 ⟨g1, r.1, r.2.1, r.2.2, sub0⟩ := by
      refine ⟨FrameLt.refl _ _, hsp.shift, hsp.accept, ?_, htp, hsp.a_mono, fun x hx => hx, ?_⟩
      · intro h hd hh hl
        exact Or.inl (hlevel h hd hh hl)
      · intro s h hm
        obtain ⟨hd, k1, _, k3, _⟩ := hsub0 s h hm
        exact Or.inl (hlevel h hd k1 k3)
    obtain ⟨m1, m2, m3, m4, m5, m6⟩ := reducerLoop_closureX hT hC hW (RB.extra hT F (tok F).kind (tok F) LF base acc0 sub0 g1)
      fuel _ rs' hI hU hqs hrc hb hloop
    have hnsym : ∀ (h : Nat) (hd : Head), rs'.gss.heads[h]? = some hd → hd.frontier = F →
        h ∈ base ∨ (env.g.nterms ≤ env.t.symAt hd.state ∧ hd.state ≠ 0) := by
      intro h hd hh hl
      rcases m5.li h hd hh hl with hbm | ⟨s, hm⟩
      · exact Or.inl hbm
      · obtain ⟨x, k1, k2, _⟩ := m1.sub s h hm
        rw [hh] at k1; injection k1 with k1; subst k1
        rw [k2]; exact m5.ns s h hm
    -- base heads keep their state
    have hbst : ∀ i ∈ base, ∀ hd : Head, rs'.gss.heads[i]? = some hd →
        ∃ hd1 : Head, g1.heads[i]? = some hd1 ∧ hd1.state = hd.state := by
      intro i hi hd hh
      obtain ⟨hd1, hh1⟩ := hbase i hi
      obtain ⟨hd', k1, k2, _⟩ := m2.heads i hd1 hh1
      have k1' : rs'.gss.heads[i]? = some hd' := k1
      rw [hh] at k1'; injection k1' with k1'; subst k1'
      exact ⟨hd1, hh1, k2.symm⟩
    have hfunF : ∀ (h h' : Nat) (hd hd' : Head), rs'.gss.heads[h]? = some hd → rs'.gss.heads[h']? = some hd' →
        hd.frontier = F → hd'.frontier = F → hd.state = hd'.state → h = h' := by
      -- a head that is not a base head is not in a state a base head can have
      have hmix : ∀ (h h' : Nat) (hd hd' : Head), rs'.gss.heads[h]? = some hd → rs'.gss.heads[h']? = some hd' →
          h ∈ base → (env.g.nterms ≤ env.t.symAt hd'.state ∧ hd'.state ≠ 0) → hd.state = hd'.state → False := by
        intro h h' hd hd' hh hh' hb ⟨q1, q2⟩ hs
        obtain ⟨hd1, hh1, hs1⟩ := hbst h hb hd hh
        rcases hbterm h hb hd1 hh1 with k | k
        · rw [hs1, hs] at k; exact q2 k
        · rw [hs1, hs] at k; omega
      intro h h' hd hd' hh hh' hl hl' hs
      rcases m5.li h hd hh hl with hb | ⟨s, hm⟩
      · rcases m5.li h' hd' hh' hl' with hb' | ⟨s', hm'⟩
        · obtain ⟨x, hx, hxs⟩ := hbst h hb hd hh
          obtain ⟨y, hy, hys⟩ := hbst h' hb' hd' hh'
          exact hbfun h hb h' hb' x y hx hy (by rw [hxs, hys, hs])
        · rcases hnsym h' hd' hh' hl' with hb' | hnt
          · obtain ⟨x, hx, hxs⟩ := hbst h hb hd hh
            obtain ⟨y, hy, hys⟩ := hbst h' hb' hd' hh'
            exact hbfun h hb h' hb' x y hx hy (by rw [hxs, hys, hs])
          · exact absurd (hmix h h' hd hd' hh hh' hb hnt hs) id
      · rcases m5.li h' hd' hh' hl' with hb' | ⟨s', hm'⟩
        · rcases hnsym h hd hh hl with hb | hnt
          · obtain ⟨x, hx, hxs⟩ := hbst h hb hd hh
            obtain ⟨y, hy, hys⟩ := hbst h' hb' hd' hh'
            exact hbfun h hb h' hb' x y hx hy (by rw [hxs, hys, hs])
          · exact absurd (hmix h' h hd' hd hh' hh hb' hnt hs.symm) id
        · obtain ⟨x, k1, k2, _⟩ := m1.sub s h hm
          obtain ⟨y, j1, j2, _⟩ := m1.sub s' h' hm'
          rw [hh] at k1; injection k1 with k1; subst k1
          rw [hh'] at j1; injection j1 with j1; subst j1
          exact m3.subFun s h h' hm (by rw [← k2, hs, j2]; exact hm')
    refine ⟨rs'.sub, ⟨⟨m1.g, m1.lists.shifts, m1.lists.acc⟩, m3.toGU, m5.frame, ⟨?_, ?_, ?_⟩, m5.sc, m5.ac, m5.tp, m5.am,
      hnsym, hfunF⟩, m5.sm⟩
    · intro s h hm
      obtain ⟨hd, k1, k2, k3, _⟩ := m1.sub s h hm
      exact ⟨hd, k1, k2, k3⟩
    · intro u p pr P s' hk
      exact m6 u p pr P s' hk
    · intro h hd hh hl hne
      rcases m5.li h hd hh hl with hbm | ⟨s, hm⟩
      · -- a base head: it was alive in `g1` already
        obtain ⟨hd1, hh1⟩ := hbase h hbm
        obtain ⟨hd', k1, k2, _⟩ := m2.heads h hd1 hh1
        have k1' : rs'.gss.heads[h]? = some hd' := k1
        rw [hh] at k1'; injection k1' with k1'; subst k1'
        rw [k2]
        exact m5.sm _ (halive h hbm hd1 hh1 (by rw [← k2]; exact hne))
      · obtain ⟨x, k1, k2, _⟩ := m1.sub s h hm
        rw [hh] at k1; injection k1 with k1; subst k1
        rw [k2]; exact hm

end Rustemo.Glr
