import Rustemo.Proofs.GlrRun5
/-!
# `create_frontier` under the lexer hypothesis `LexDet`

Every base head of level `i` (no lookahead yet, position `P i`) moves to `L i`; the heads whose state has an action
on `tok i` get that token and form the one sub-frontier `(L i, kind (tok i))`; nothing else changes.
-/
namespace Rustemo.Glr
open Rustemo

theorem keyLt_irrefl (k : Pos × Nat) : keyLt k k = false := by
  unfold keyLt
  have : posLt k.1 k.1 = false := posLe_refl k.1
  simp [this]

/-- one base head -/
theorem frontierHead_lexdet {env : Env} {pp : Bool} {fuel n : Nat} {tok : Nat → Tok} {P L : Nat → Pos}
    (hL : LexDet env pp fuel n tok P L) {i : Nat} (hi : i ≤ n) {g g' : Gss} {fr fr' : Frontier} {h : Nat} {hd0 : Head}
    (hhd0 : g.heads[h]? = some hd0) (htok : hd0.tok = none) (hpos : hd0.pos = P i)
    (hrange : hd0.state < env.t.states.size)
    (hok : frontierHead env pp fuel (g, fr) h = .ok (g', fr')) :
    ∃ hd' : Head, g' = g.setHead h hd' ∧ hd'.state = hd0.state ∧ hd'.frontier = hd0.frontier ∧ hd'.pos = L i ∧
      ((env.t.cell hd0.state (tok i).kind = [] ∧ hd'.tok = none ∧ fr' = fr) ∨
       (env.t.cell hd0.state (tok i).kind ≠ [] ∧ hd'.tok = some (tok i) ∧
         fr' = frInsert (L i, (tok i).kind) hd0.state h fr)) := by
  unfold frontierHead at hok
  simp only [head_sat' _ _ _ hhd0, obind, htok] at hok
  obtain ⟨hp, ht⟩ := hL.look i hi hd0.toCtx (by simpa [Head.toCtx] using hpos) (by simpa [Head.toCtx] using hrange)
  have hst := (findLookaheadsCtx_ok (A := True) env (fun h => absurd True.intro h) pp fuel hd0.toCtx).state
  generalize findLookaheadsCtx env pp fuel hd0.toCtx = r at hok hp ht hst
  obtain ⟨cx, o⟩ := r
  simp only [Head.toCtx] at hp ht hst hok
  subst ht
  simp only [obind] at hok
  by_cases hc : env.t.cell hd0.state (tok i).kind = []
  · simp only [hc, List.isEmpty_nil, ↓reduceIte] at hok
    injection hok with hok
    injection hok with h1 h2
    exact ⟨hd0.withCtx cx, h1.symm, by simp [Head.withCtx, hst], by simp [Head.withCtx], by simp [Head.withCtx, hp],
      Or.inl ⟨hc, by simp [Head.withCtx, htok], h2.symm⟩⟩
  · have hne : (env.t.cell hd0.state (tok i).kind).isEmpty = false := by
      cases hx : env.t.cell hd0.state (tok i).kind with
      | nil => exact absurd hx hc
      | cons _ _ => rfl
    simp only [hne, Bool.false_eq_true, ↓reduceIte] at hok
    obtain ⟨lay, _, hok⟩ := obind_eq_ok hok
    simp only [splitHeads] at hok
    injection hok with hok
    injection hok with h1 h2
    refine ⟨{ hd0.withCtx cx with lay := lay, tok := some (tok i) }, h1.symm, by simp [Head.withCtx, hst],
      by simp [Head.withCtx], by simp [Head.withCtx, hp], Or.inr ⟨hc, rfl, ?_⟩⟩
    rw [← h2]
    simp [Head.withCtx, hst, hp]

/-- the frontier under construction: empty, or the one sub-frontier of key `k` -/
def FrShape (k : Pos × Nat) (fr : Frontier) (sub : SubFrontier) : Prop :=
  (fr = [] ∧ sub = []) ∨ (fr = [(k, sub)] ∧ sub ≠ [])

theorem sfInsert_ne_nil (s h : Nat) : ∀ (sub : SubFrontier), sfInsert s h sub ≠ []
  | [] => by simp [sfInsert]
  | (s', h') :: rest => by
    simp only [sfInsert]
    split
    · simp
    · split <;> simp

theorem FrShape.insert {k : Pos × Nat} {fr : Frontier} {sub : SubFrontier} (hs : FrShape k fr sub) (s h : Nat) :
    FrShape k (frInsert k s h fr) (sfInsert s h sub) := by
  rcases hs with ⟨h1, h2⟩ | ⟨h1, _⟩
  · subst h1; subst h2
    right
    exact ⟨by simp [frInsert, sfInsert], by simp [sfInsert]⟩
  · subst h1
    right
    refine ⟨?_, sfInsert_ne_nil s h sub⟩
    simp [frInsert, keyLt_irrefl]

/-- what the fold over the base heads `l` gives -/
structure CFSpec (env : Env) (F : Nat) (tk : Tok) (LF : Pos) (S : Nat → Nat) (l : List Nat) (g g' : Gss)
    (sub sub' : SubFrontier) : Prop where
  edges : g'.edges = g.edges
  nodes : g'.nodes = g.nodes
  other : ∀ i, i ∉ l → g'.heads[i]? = g.heads[i]?
  upd : ∀ i ∈ l, ∃ hd' : Head, g'.heads[i]? = some hd' ∧ hd'.state = S i ∧ hd'.frontier = F ∧ hd'.pos = LF ∧
    (env.t.cell (S i) tk.kind ≠ [] → hd'.tok = some tk) ∧ (env.t.cell (S i) tk.kind = [] → hd'.tok = none)
  sub_inv : ∀ x ∈ sub', x ∈ sub ∨ (x.2 ∈ l ∧ env.t.cell (S x.2) tk.kind ≠ [] ∧ x.1 = S x.2)
  sub_old : ∀ x ∈ sub, (∀ i ∈ l, S i ≠ x.1) → x ∈ sub'
  sub_new : ∀ i ∈ l, env.t.cell (S i) tk.kind ≠ [] → (S i, i) ∈ sub'

theorem createFrontier_lexdet {env : Env} {pp : Bool} {fuel n : Nat} {tok : Nat → Tok} {P L : Nat → Pos}
    (hL : LexDet env pp fuel n tok P L) {F : Nat} (hF : F ≤ n) (S : Nat → Nat) :
    ∀ (l : List Nat) (g g' : Gss) (fr fr' : Frontier) (sub : SubFrontier), l.Nodup →
      (∀ i ∈ l, ∀ j ∈ l, S i = S j → i = j) →
      (∀ i ∈ l, ∃ hd0 : Head, g.heads[i]? = some hd0 ∧ hd0.state = S i ∧ hd0.tok = none ∧ hd0.pos = P F ∧
        hd0.frontier = F ∧ hd0.state < env.t.states.size) →
      FrShape (L F, (tok F).kind) fr sub →
      foldO (frontierHead env pp fuel) l (g, fr) = .ok (g', fr') →
      ∃ sub', FrShape (L F, (tok F).kind) fr' sub' ∧ CFSpec env F (tok F) (L F) S l g g' sub sub'
  | [], g, g', fr, fr', sub, _, _, _, hs, h => by
    simp only [foldO] at h
    injection h with h
    injection h with h1 h2
    subst h1; subst h2
    exact ⟨sub, hs, rfl, rfl, fun _ _ => rfl, fun _ hi => by simp at hi, fun _ hx => Or.inl hx, fun _ hx _ => hx,
      fun _ hi => by simp at hi⟩
  | h0 :: rest, g, g', fr, fr', sub, hnd, hinj, hb, hs, h => by
    simp only [foldO] at h
    obtain ⟨⟨g1, fr1⟩, h1, h2⟩ := obind_eq_ok h
    obtain ⟨hd0, hhd0, hS0, htok0, hpos0, hF0, hr0⟩ := hb h0 (by simp)
    obtain ⟨hd', hg1, e1, e2, e3, hcase⟩ := frontierHead_lexdet hL hF hhd0 htok0 hpos0 hr0 h1
    have hlt := lt_of_getElem?_some hhd0
    have hnd' := List.nodup_cons.mp hnd
    -- the rest of the base is untouched by this step
    have hb1 : ∀ i ∈ rest, ∃ hd0 : Head, g1.heads[i]? = some hd0 ∧ hd0.state = S i ∧ hd0.tok = none ∧ hd0.pos = P F ∧
        hd0.frontier = F ∧ hd0.state < env.t.states.size := by
      intro i hi
      obtain ⟨x, hx, k⟩ := hb i (by simp [hi])
      refine ⟨x, ?_, k⟩
      rw [hg1, setHead_heads]
      have : ¬ h0 = i := fun heq => hnd'.1 (heq ▸ hi)
      simp [this, hx]
    have hinj1 : ∀ i ∈ rest, ∀ j ∈ rest, S i = S j → i = j :=
      fun i hi j hj => hinj i (by simp [hi]) j (by simp [hj])
    have hh0 : g1.heads[h0]? = some hd' := by rw [hg1, setHead_heads]; simp [hlt]
    -- the sub-frontier after this step
    have hstep : ∃ sub1, FrShape (L F, (tok F).kind) fr1 sub1 ∧
        ((env.t.cell (S h0) (tok F).kind = [] ∧ hd'.tok = none ∧ sub1 = sub) ∨
         (env.t.cell (S h0) (tok F).kind ≠ [] ∧ hd'.tok = some (tok F) ∧ sub1 = sfInsert (S h0) h0 sub)) := by
      rcases hcase with ⟨c1, c2, c3⟩ | ⟨c1, c2, c3⟩
      · exact ⟨sub, by rw [c3]; exact hs, Or.inl ⟨by rw [← hS0]; exact c1, c2, rfl⟩⟩
      · exact ⟨sfInsert (S h0) h0 sub, by rw [c3, hS0]; exact hs.insert _ _, Or.inr ⟨by rw [← hS0]; exact c1, c2, rfl⟩⟩
    obtain ⟨sub1, hs1, hsub1⟩ := hstep
    obtain ⟨sub', hs', sp⟩ := createFrontier_lexdet hL hF S rest g1 g' fr1 fr' sub1 hnd'.2 hinj1 hb1 hs1 h2
    refine ⟨sub', hs', ?_, ?_, ?_, ?_, ?_, ?_, ?_⟩
    · rw [sp.edges, hg1]; rfl
    · rw [sp.nodes, hg1]; rfl
    · intro i hi
      simp only [List.mem_cons, not_or] at hi
      rw [sp.other i hi.2, hg1, setHead_heads]
      have : ¬ h0 = i := fun heq => hi.1 heq.symm
      simp [this]
    · intro i hi
      rcases List.mem_cons.mp hi with heq | hr
      · subst heq
        rw [sp.other i hnd'.1]
        refine ⟨hd', hh0, by rw [e1, hS0], by rw [e2, hF0], e3, ?_, ?_⟩
        · intro hne
          rcases hsub1 with ⟨c1, _, _⟩ | ⟨_, c2, _⟩
          · exact absurd c1 hne
          · exact c2
        · intro he
          rcases hsub1 with ⟨_, c2, _⟩ | ⟨c1, _, _⟩
          · exact c2
          · exact absurd he c1
      · exact sp.upd i hr
    · intro x hx
      rcases sp.sub_inv x hx with k | ⟨k1, k2, k3⟩
      · rcases hsub1 with ⟨_, _, c3⟩ | ⟨c1, _, c3⟩
        · rw [c3] at k; exact Or.inl k
        · rw [c3] at k
          rcases mem_sfInsert k with k' | k'
          · right; rw [k']; exact ⟨by simp, c1, rfl⟩
          · exact Or.inl k'
      · exact Or.inr ⟨by simp [k1], k2, k3⟩
    · intro x hx hne
      apply sp.sub_old x _ (fun i hi => hne i (by simp [hi]))
      rcases hsub1 with ⟨_, _, c3⟩ | ⟨_, _, c3⟩
      · rw [c3]; exact hx
      · rw [c3]; exact mem_sfInsert_of_mem hx (fun heq => hne h0 (by simp) heq.symm)
    · intro i hi hne
      rcases List.mem_cons.mp hi with heq | hr
      · subst heq
        apply sp.sub_old
        · rcases hsub1 with ⟨c1, _, _⟩ | ⟨_, _, c3⟩
          · exact absurd c1 hne
          · rw [c3]; exact mem_sfInsert_self _ _ _
        · intro j hj heq
          have := hinj j (by simp [hj]) i (by simp) heq
          exact hnd'.1 (this ▸ hj)
      · exact sp.sub_new i hr hne

end Rustemo.Glr
