import Rustemo.Proofs.GlrClosure9
/-!
# Comparable chains; covering the extensions of a reduced path
-/
namespace Rustemo.Glr
open Rustemo

theorem take_prefix_take (l : List Nat) {i j : Nat} (h : i ≤ j) : l.take i <+: l.take j := by
  have : l.take i = (l.take j).take i := by rw [List.take_take, Nat.min_eq_left h]
  rw [this]; exact List.take_prefix _ _

theorem drop_prefix_drop {a b : List Nat} (h : a <+: b) (k : Nat) : a.drop k <+: b.drop k := by
  obtain ⟨t, ht⟩ := h
  rw [← ht]
  by_cases hk : k ≤ a.length
  · rw [List.drop_append_of_le_length hk]; exact List.prefix_append _ _
  · have : a.drop k = [] := List.drop_eq_nil_of_le (by omega)
    rw [this]; exact List.nil_prefix

theorem take_drop_prefix (l : List Nat) (k i j : Nat) :
    (l.take i).drop k <+: (l.take j).drop k ∨ (l.take j).drop k <+: (l.take i).drop k := by
  rcases Nat.le_total i j with h | h
  · exact Or.inl (drop_prefix_drop (take_prefix_take l h) k)
  · exact Or.inr (drop_prefix_drop (take_prefix_take l h) k)

/-- two chains for the same production from the same root that share a prefix ending on level `F` are comparable -/
theorem comparable_of_common_prefix {env : Env} (hC : CompleteRN env.g env.t) {g : Gss} (hg : GInv env g) {F a : Nat}
    {sub : SubFrontier} (hu : UInv F a g sub) (hsub : SubOk g F sub) {rhs : List Nat} {P1 P2 : List Nat} {u v1 v2 : Nat}
    (h1 : ChainEnd env.t g P1 (rhs.take P1.length) u v1) (h2 : ChainEnd env.t g P2 (rhs.take P2.length) u v2)
    (k : Nat) (hk : P1.take k = P2.take k) {w : Nat} {hw : Head}
    (hw1 : ∃ Xs, ChainEnd env.t g (P1.take k) Xs u w) (hhw : g.heads[w]? = some hw) (hF : hw.frontier = F) :
    P1 <+: P2 ∨ P2 <+: P1 := by
  obtain ⟨w1, a1, b1⟩ := ChainEnd.split k h1
  obtain ⟨w2, a2, b2⟩ := ChainEnd.split k h2
  obtain ⟨Xs, hx⟩ := hw1
  have e1 : w1 = w := ChainEnd.end_unique a1 hx
  have e2 : w2 = w := by rw [← hk] at a2; exact ChainEnd.end_unique a2 hx
  subst e1
  subst e2
  have hcomp := unique_ext hC hg hu hsub hhw hF b1 b2 (take_drop_prefix rhs k P1.length P2.length)
  rw [← List.take_append_drop k P1, ← List.take_append_drop k P2, hk]
  rcases hcomp with h | h
  · exact Or.inl ((List.prefix_append_right_inj _).mpr h)
  · exact Or.inr ((List.prefix_append_right_inj _).mpr h)

/-- the paths still to be reduced for the reduction `(p0, len0)` being processed -/
def Rem (p0 len0 : Nat) (remaining : List Path) : Nat → Nat → List Nat → Prop :=
  fun u p P => p = p0 ∧ len0 ≤ P.length ∧ (⟨P.take len0, u⟩ : Path) ∈ remaining

/-- once the edge `(hA → u0)` carries a possibility of `p0` whose children extend the reduced path `Q`, every
    chain that extends `Q` is covered -/
theorem covered_of_path_node {env : Env} (hC : CompleteRN env.g env.t) {F a : Nat} {rs' : RState}
    (hg : GInv env rs'.gss) (hu : UInv F a rs'.gss rs'.sub) (hsub : SubOk rs'.gss F rs'.sub)
    {p0 : Nat} {pr0 : Prod} {Q : List Nat} {u0 startHead : Nat} {sh : Head}
    (hqc : ChainEnd env.t rs'.gss Q (pr0.rhs.take Q.length) u0 startHead)
    (hsh : rs'.gss.heads[startHead]? = some sh) (hshF : sh.frontier = F)
    {s' hA e n : Nat} {ed : Edge} {sp : Span} {l : Option Slice} {C : List Nat}
    (hget : sfGet s' rs'.sub = some hA) (hed : rs'.gss.edges[e]? = some ed) (hsrc : ed.src = hA) (hdst : ed.dst = u0)
    (hn : n ∈ ed.poss) (hnd : rs'.gss.nodes[n]? = some (.nonterm p0 sp l C)) (hQC : Q <+: C)
    {P : List Nat} (hk : KChain env F a rs'.gss rs'.sub u0 p0 pr0 P s') (hPQ : P.take Q.length = Q) :
    Covered rs' u0 p0 P s' := by
  refine ⟨hA, e, ed, n, sp, l, C, hget, hed, hsrc, hdst, hn, hnd, ?_⟩
  -- the children list is a chain for the same production from `u0`
  obtain ⟨hs, hd, hhs, hhd, _, hposs⟩ := (hg.edges e ed hed).ends
  obtain ⟨nd, hnd', hfit⟩ := hposs n hn
  rw [hnd] at hnd'; injection hnd' with hnd'; subst hnd'
  obtain ⟨pr, hpr, _, _, _, hch⟩ := hfit
  have hprq := hk.prod
  rw [hpr] at hprq; injection hprq with hprq; subst hprq
  obtain ⟨vC, _, hcC, _, _⟩ := ChildrenOk.toChain hch
  rw [hdst] at hcC
  obtain ⟨v, hcP, _⟩ := hk.chain
  have hCQ : C.take Q.length = Q := by
    obtain ⟨t, ht⟩ := hQC
    rw [← ht]; simp
  have := comparable_of_common_prefix hC hg hu hsub (rhs := pr.rhs) hcC hcP Q.length (by rw [hCQ, hPQ])
    (w := startHead) ⟨_, by rw [hCQ]; exact hqc⟩ hsh hshF
  exact this

end Rustemo.Glr
