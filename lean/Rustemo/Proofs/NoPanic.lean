import Rustemo.Proofs.LRSound
import Rustemo.Proofs.Spans
/-!
# The LR parser model never reaches a panic site (C15, LR half)

Every `unwrap` / index / `split_off` of `lr/parser.rs`, `lr/builder.rs` and `error.rs` that the model
marks as `.panic site` is unreachable when the table passes the structural certificate and
`Cert.total`, for any lexer that does not panic itself and leaves the state alone.
-/
namespace Rustemo

structure Total (g : Grammar) (t : Table) (start : Nat) : Prop where
  start_ok : start < t.states.size
  sorted_ne : ∀ (s : Nat) (st : State), t.states[s]? = some st → st.sorted ≠ []
  goto_total : ∀ s p pr, t.hasItem s p 0 → g.prods[p]? = some pr → g.isAug p = false →
    ∃ s', t.goto g s pr.lhs = some s'
  no_reduce_aug : ∀ s a p len, Action.reduce p len ∈ t.cell s a → g.isAug p = false
  shift_range : ∀ s a s', Action.shift s' ∈ t.cell s a → s' < t.states.size
  goto_range : ∀ s A s', t.goto g s A = some s' → s' < t.states.size

theorem Cert.total_sound (g : Grammar) (t : Table) (start : Nat) (h : Cert.total g t start = true) :
    Total g t start := by
  unfold Cert.total at h
  simp only [Bool.and_eq_true, decide_eq_true_eq] at h
  obtain ⟨h0, h1⟩ := h
  have hst : ∀ s st, t.states[s]? = some st → _ := fun s st hs => forStates_spec h1 hs
  constructor
  · exact h0
  · intro s st hs
    have := hst s st hs
    simp only [Bool.and_eq_true, Bool.not_eq_true', List.isEmpty_eq_false_iff] at this
    exact this.1.1.1
  · intro s p pr ⟨st, hs, it, hit, hp, hd⟩ hpr haug
    have := hst s st hs
    simp only [Bool.and_eq_true, List.all_eq_true] at this
    have := this.1.1.2 it hit
    simp only [Bool.or_eq_true, bne_iff_ne, ne_eq, hd, not_true_eq_false, hp, haug, false_or,
      Bool.false_eq_true] at this
    rw [hpr] at this
    simp only [Option.isSome_iff_exists] at this
    exact this
  · intro s a p len hm
    obtain ⟨st, hs, hm'⟩ := mem_cell hm
    have := hst s st hs
    simp only [Bool.and_eq_true] at this
    have := forCells_spec this.1.2 hm'
    simpa using this
  · intro s a s' hm
    obtain ⟨st, hs, hm'⟩ := mem_cell hm
    have := hst s st hs
    simp only [Bool.and_eq_true] at this
    have := forCells_spec this.1.2 hm'
    simpa using this
  · intro s A s' hg
    obtain ⟨_, st, hs, hm⟩ := goto_spec hg
    have := hst s st hs
    simp only [Bool.and_eq_true] at this
    have := forGotos_spec this.2 hm
    simpa using this

def NotPanic {α} : Outcome α → Prop
  | .panic _ => False
  | _ => True

/-- a next-token function that never panics on an existing state and hands the state back -/
def NtGood (t : Table) (nt : Ctx → Ctx × Outcome Tok) : Prop :=
  ∀ ctx, ctx.state < t.states.size → NotPanic (nt ctx).2 ∧ (nt ctx).1.state = ctx.state

def StepNotPanic : StepOut → Prop
  | .stop _ o => NotPanic o
  | _ => True

theorem liftTok_notPanic {hist : List Tok} {stack : List StackItem} {res : List Tree}
    {slice : Option Slice} {r : Ctx × Outcome Tok} {k : Option (Option Slice × Nat)}
    (h : NotPanic r.2) : StepNotPanic (liftTok hist stack res slice r k) := by
  unfold liftTok
  split
  · trivial
  · trivial
  · simp [NotPanic] at h
  · trivial

theorem step_no_panic (env : Env) (nt : Ctx → Ctx × Outcome Tok) (autos : List Auto) (au : Auto) (hin : au ∈ autos) (start : Nat) (hstart : start = au.start) (c : Cfg)
    (hs : Structural env.g env.t autos) (ht : Total env.g env.t start)
    (hnt : NtGood env.t nt) (hf : FInv start c) (hc : CInv env.g env.t start c.abs) :
    StepNotPanic (step env nt c) := by
  have htop := topState_abs hf.len hf.bottom
  unfold step
  rw [htop]
  simp only
  split
  · trivial
  · rename_i act acts hcell
    have hcell' : env.t.cell (topOf start (absStack c)) c.tok.kind = act :: acts := hcell
    have hmem : act ∈ env.t.cell (topOf start c.abs.stack) c.tok.kind := by
      show act ∈ env.t.cell (topOf start (absStack c)) c.tok.kind
      rw [hcell']; simp
    split
    · -- shift
      rename_i s'
      apply liftTok_notPanic
      exact (hnt _ (ht.shift_range _ _ _ hmem)).1
    · -- reduce
      rename_i p len
      obtain ⟨hitem, pr, hpr, hrl⟩ := hs.reduce_item _ _ _ _ hmem
      obtain ⟨hlen, h0, _, _, _, _⟩ := path_lemma env.g env.t autos hs au hin start hstart len c.abs.stack p hc.path hitem
      have habs : c.abs.stack.length = c.res.length := by
        show (absStack c).length = c.res.length
        simp only [absStack, List.length_zip, List.length_map]
        have := hf.len; omega
      have hl1 : ¬ c.stack.length < len := by have := hf.len; omega
      simp only [hl1, ↓reduceIte]
      have hlt : len < c.stack.length := by have := hf.len; omega
      have hlen2 : (c.stack.drop len).length = (c.res.drop len).length + 1 := by
        simp only [List.length_drop]; have := hf.len; omega
      have hbot2 : (c.stack.drop len).getLast?.map (·.state) = some start := by
        rw [getLast?_drop _ _ hlt]; exact hf.bottom
      have htop2 := topState_abs hlen2 hbot2
      rw [htop2]
      simp only [hpr]
      have hdropabs : c.abs.stack.drop len =
          ((c.stack.drop len).map (·.state)).zip (c.res.drop len) := by
        show (absStack c).drop len = _
        simp [absStack, List.zip, List.drop_zipWith, List.map_drop]
      rw [hdropabs] at h0
      obtain ⟨s', hgoto⟩ := ht.goto_total _ p pr h0 hpr (ht.no_reduce_aug _ _ _ _ hmem)
      rw [hgoto]
      simp only
      have hl2 : ¬ c.res.length < len := by omega
      simp only [hl2, ↓reduceIte]
      apply liftTok_notPanic
      exact (hnt _ (ht.goto_range _ _ _ hgoto)).1
    · -- accept
      obtain ⟨au', _, pr, hpr, _, hitem⟩ := hs.accept_item _ _ hmem
      obtain ⟨hlen, _⟩ := path_lemma env.g env.t autos hs au hin start hstart 1 c.abs.stack au'.aug hc.path hitem
      have habs : c.abs.stack.length = c.res.length := by
        show (absStack c).length = c.res.length
        simp only [absStack, List.length_zip, List.length_map]
        have := hf.len; omega
      split
      · rename_i hres
        have h0 : c.abs.stack.length = 0 := by rw [habs, hres]; rfl
        omega
      · trivial

end Rustemo

namespace Rustemo

theorem step_state_range (env : Env) (nt : Ctx → Ctx × Outcome Tok) (autos : List Auto) (au : Auto) (hin : au ∈ autos) (start : Nat) (hstart : start = au.start) (c c' : Cfg)
    (hs : Structural env.g env.t autos) (ht : Total env.g env.t start)
    (hnt : NtGood env.t nt) (hf : FInv start c) (hc : CInv env.g env.t start c.abs)
    (hstep : step env nt c = .next c') : c'.ctx.state < env.t.states.size := by
  have htop := topState_abs hf.len hf.bottom
  unfold step at hstep
  rw [htop] at hstep
  simp only at hstep
  split at hstep
  · simp at hstep
  · rename_i act acts hcell
    have hcell' : env.t.cell (topOf start (absStack c)) c.tok.kind = act :: acts := hcell
    have hmem : act ∈ env.t.cell (topOf start c.abs.stack) c.tok.kind := by
      show act ∈ env.t.cell (topOf start (absStack c)) c.tok.kind
      rw [hcell']; simp
    split at hstep
    · rename_i s'
      obtain ⟨ctx1, tk, hr, _, _, _, hst⟩ := liftTok_next_ctx hstep
      have hrange := ht.shift_range _ _ _ hmem
      have hr' := (hnt ⟨s', posAfter (sliceOf env.input c.tok.val) c.ctx.pos,
        ⟨c.ctx.pos, posAfter (sliceOf env.input c.tok.val) c.ctx.pos⟩, none⟩ hrange).2
      rw [hr] at hr'
      rw [hst, hr']
      exact hrange
    · split at hstep
      · simp at hstep
      · split at hstep
        · simp at hstep
        · split at hstep
          · simp at hstep
          · split at hstep
            · simp at hstep
            · rename_i s'' hgoto
              split at hstep
              · simp at hstep
              · obtain ⟨ctx1, tk, hr, _, _, _, hst⟩ := liftTok_next_ctx hstep
                have hrange := ht.goto_range _ _ _ hgoto
                have hr' := (hnt ⟨s'', c.ctx.pos, c.ctx.span, c.ctx.lay⟩ hrange).2
                rw [hr] at hr'
                rw [hst, hr']
                exact hrange
    · split at hstep <;> simp at hstep

theorem runLoop_no_panic (env : Env) (nt : Ctx → Ctx × Outcome Tok) (autos : List Auto) (au : Auto) (hin : au ∈ autos) (start : Nat) (hstart : start = au.start)
    (hs : Structural env.g env.t autos) (ht : Total env.g env.t start) (hnt : NtGood env.t nt) :
    ∀ (fuel : Nat) (c : Cfg), FInv start c → CInv env.g env.t start c.abs →
      NotPanic (runLoop env nt fuel c).2 := by
  intro fuel
  induction fuel with
  | zero => intro c _ _; simp [runLoop, NotPanic]
  | succ n ih =>
    intro c hf hc
    unfold runLoop
    have hsp := step_no_panic env nt autos au hin start hstart c hs ht hnt hf hc
    split
    · rename_i c' hstep
      obtain ⟨hf', leafOf, nodeOf, hd, hcs⟩ := step_refines env nt start c c' hf hstep
      have hc' := cstep_preserves env.g env.t autos hs au hin start hstart leafOf nodeOf hd c.abs c'.abs c.tok.kind hc hcs
      exact ih c' hf' hc'
    · simp [NotPanic]
    · rename_i ctx o hstep
      rw [hstep] at hsp
      exact hsp

theorem parseWith_no_panic (env : Env) (nt : Ctx → Ctx × Outcome Tok) (autos : List Auto) (au : Auto) (hin : au ∈ autos) (start : Nat) (hstart : start = au.start)
    (hs : Structural env.g env.t autos) (ht : Total env.g env.t start) (hnt : NtGood env.t nt)
    (ctx0 : Ctx) (h0 : ctx0.state < env.t.states.size) (fuel : Nat) :
    NotPanic (parseWith env nt start ctx0 fuel).2 := by
  unfold parseWith
  simp only
  have hn := (hnt ctx0 h0).1
  split
  · exact runLoop_no_panic env nt autos au hin start hstart hs ht hnt fuel _ ⟨by simp, by simp⟩
      ⟨by simp [Cfg.abs, absStack, PathInv], by simp [Cfg.abs, absStack, yields]⟩
  · simp [NotPanic]
  · rename_i hnt1; rw [hnt1] at hn; simp [NotPanic] at hn
  · simp [NotPanic]

/-! ## the string lexer and the adversarial user lexers never panic and leave the state alone -/

theorem skip_state (env : Env) (ctx : Ctx) : (skip env ctx).state = ctx.state := by
  unfold skip; simp only; split <;> rfl

theorem lexNext_state (env : Env) (ctx : Ctx) (exp : List (Nat × Bool)) :
    (lexNext env ctx exp).1.state = ctx.state := by
  unfold lexNext
  split
  · rfl
  · simp only; split
    · exact skip_state env ctx
    · rfl

theorem noToken_good (env : Env) (pp : Bool) (ctx : Ctx) (st : State)
    (hst : env.t.states[ctx.state]? = some st) (hne : st.sorted ≠ []) :
    NotPanic (noToken env pp ctx).2 ∧ (noToken env pp ctx).1.state = ctx.state := by
  unfold noToken
  simp only
  split
  · exact ⟨trivial, rfl⟩
  · have : env.t.sorted ctx.state = st.sorted := by unfold Table.sorted; rw [hst]
    rw [this]
    cases h : st.sorted with
    | nil => exact absurd h hne
    | cons x xs => simp [NotPanic]

theorem ntGood_base (env : Env) (start : Nat) (ht : Total env.g env.t start) (pp : Bool) :
    NtGood env.t (nextTokenBase env pp) := by
  intro ctx hctx
  unfold nextTokenBase
  have hstate := lexNext_state env ctx (env.t.sorted ctx.state)
  generalize lexNext env ctx (env.t.sorted ctx.state) = lx at hstate
  obtain ⟨ctx1, toks⟩ := lx
  simp only at hstate ⊢
  split
  · exact ⟨trivial, hstate⟩
  · have hlt : ctx1.state < env.t.states.size := by rw [hstate]; exact hctx
    have hget : env.t.states[ctx1.state]? = some env.t.states[ctx1.state] :=
      Array.getElem?_eq_getElem hlt
    obtain ⟨h1, h2⟩ := noToken_good env pp ctx1 _ hget (ht.sorted_ne _ _ hget)
    exact ⟨h1, by rw [h2, hstate]⟩

/-- main parser's `next_token`: the layout automaton needs its own certificates -/
theorem ntGood_main (env : Env) (ht : Total env.g env.t 0) (autos : List Auto)
    (hs : Structural env.g env.t autos)
    (hlay : ∀ ls, env.t.layoutState = some ls →
      (∃ au ∈ autos, au.start = ls) ∧ Total env.g env.t ls)
    (pp : Bool) (fuel : Nat) : NtGood env.t (nextTokenMain env pp fuel) := by
  intro ctx hctx
  unfold nextTokenMain
  have hstate := lexNext_state env ctx (env.t.sorted ctx.state)
  generalize lexNext env ctx (env.t.sorted ctx.state) = lx at hstate
  obtain ⟨ctx1, toks⟩ := lx
  simp only at hstate ⊢
  have hlt : ctx1.state < env.t.states.size := by rw [hstate]; exact hctx
  have hget : env.t.states[ctx1.state]? = some env.t.states[ctx1.state] :=
    Array.getElem?_eq_getElem hlt
  have hne := ht.sorted_ne _ _ hget
  split
  · exact ⟨trivial, hstate⟩
  · split
    · obtain ⟨h1, h2⟩ := noToken_good env pp ctx1 _ hget hne
      exact ⟨h1, by rw [h2, hstate]⟩
    · rename_i ls hls
      obtain ⟨⟨aul, hinl, hstl⟩, htl⟩ := hlay ls hls
      have hlp : NotPanic (layoutParse env ls ctx1 fuel).2 := by
        unfold layoutParse
        exact parseWith_no_panic env _ autos aul hinl ls hstl.symm hs htl (ntGood_base env ls htl true) _ htl.start_ok fuel
      generalize layoutParse env ls ctx1 fuel = lp at hlp
      obtain ⟨cx, r⟩ := lp
      simp only at hlp ⊢
      have hnt' : ∀ (l : Option Slice), NotPanic (noToken env pp { cx with state := ctx1.state, span := ctx1.span, lay := l }).2 ∧
          (noToken env pp { cx with state := ctx1.state, span := ctx1.span, lay := l }).1.state = ctx1.state :=
        fun l => noToken_good env pp _ _ hget hne
      have hnt'' : NotPanic (noToken env pp { cx with state := ctx1.state, span := ctx1.span, pos := ctx1.pos }).2 ∧
          (noToken env pp { cx with state := ctx1.state, span := ctx1.span, pos := ctx1.pos }).1.state = ctx1.state :=
        noToken_good env pp { cx with state := ctx1.state, span := ctx1.span, pos := ctx1.pos } _ hget hne
      split
      · split
        · split
          · rename_i x off len heq hpos
            have := ntGood_base env 0 ht pp { cx with state := ctx1.state, span := ctx1.span, lay := some (off, len) } hlt
            exact ⟨this.1, by rw [this.2, hstate]⟩
          · exact ⟨hnt''.1, by rw [hnt''.2, hstate]⟩
        · exact ⟨hnt''.1, by rw [hnt''.2, hstate]⟩
      · exact ⟨hnt''.1, by rw [hnt''.2, hstate]⟩
      · simp [NotPanic] at hlp
      · exact ⟨trivial, hstate⟩

/-- **The LR parser model never panics.** -/
theorem parse_no_panic (env : Env) (autos : List Auto) (hs : Structural env.g env.t autos)
    (au : Auto) (hin : au ∈ autos) (h0 : 0 = au.start) (ht : Total env.g env.t 0)
    (hlay : ∀ ls, env.t.layoutState = some ls →
      (∃ au ∈ autos, au.start = ls) ∧ Total env.g env.t ls)
    (pp : Bool) (fuel : Nat) : NotPanic (parse env pp fuel).2 := by
  unfold parse
  exact parseWith_no_panic env _ autos au hin 0 h0 hs ht (ntGood_main env ht autos hs hlay pp fuel) {} ht.start_ok fuel

end Rustemo
