import Rustemo.Proofs.FrontSugar
import Rustemo.Proofs.FrontUsers
/-!
# The statements of C09 about `Front.build`, assembled from the invariants
-/
namespace Rustemo.Front

/-- hypotheses about names shared by the content theorems: files outside the classes `emptyAlts`,
`dupTerminal`, `sepClash` (`inj`), `helperCapture` incl. `selfHelper` (`capture`), `reservedRule` — the last
three only for variants that do not report them (`dupNameErr`, `helperClashErr`, `reservedErr`) -/
structure Clean (fx : Fixes) (f : File) : Prop where
  alts : ∀ r, r ∈ f.ruleList → r.alts ≠ []
  dupT : fx.dupNameErr = true ∨ f.dupTerminal = false
  inj : ∀ u v, u ∈ f.uses fx → v ∈ f.uses fx → u.helper fx = v.helper fx → u = v
  capture : fx.helperClashErr = true ∨
    ∀ u, u ∈ f.uses fx → u.helper fx ∉ ruleNamesOf f ∧ u.helper fx ∉ kSTOP :: termNamesOf f
  reserved : fx.reservedErr = true ∨ ∀ n, n ∈ ruleNamesOf f → n ≠ kEMPTY ∧ n ≠ kAUG ∧ n ≠ kAUGL

theorem Clean.regular {fx : Fixes} {f : File} (h : Clean fx f) : Regular fx f := by
  refine ⟨h.alts, h.dupT, ?_⟩
  rcases h.capture with hflag | hcap
  · exact Or.inl hflag
  right
  cases hs : f.selfHelper fx with
  | false => rfl
  | true =>
    exfalso
    unfold File.selfHelper at hs
    obtain ⟨r, hr, hrs⟩ := List.any_eq_true.mp hs
    unfold Rule.selfHelper at hrs
    obtain ⟨u, hu, e⟩ := List.any_eq_true.mp hrs
    have hu' : u ∈ f.uses fx := by
      rw [mem_file_uses]
      unfold rulesUses
      exact List.mem_flatMap.mpr ⟨r, hr, hu⟩
    have e' : u.helper fx = r.name := by simpa using e
    apply (hcap u hu').1
    rw [e']
    unfold ruleNamesOf
    exact List.mem_map_of_mem (f := (·.name)) hr

/-- the name facts the content proofs use: from the hypotheses, or from the checks a successful run of
a repaired variant has passed -/
theorem Clean.derived {fx : Fixes} {f : File} {g : Grammar} (hc : Clean fx f) (F : Facts fx f g) :
    UsesOk fx (f.uses fx) (ruleNamesOf f) ∧ (∀ u, u ∈ f.uses fx → u.helper fx ∉ kSTOP :: termNamesOf f) ∧
      (∀ n, n ∈ ruleNamesOf f → n ≠ kEMPTY ∧ n ≠ kAUG ∧ n ≠ kAUGL) := by
  have hrl : f.ruleList = F.r0 :: F.rs := by simp [File.ruleList, F.hrules]
  have hmm : staticMatches fx f = (ctxOf fx f F.ts).matchesMap := staticMatches_eq F.hts
  have hcap : ∀ u, u ∈ f.uses fx → u.helper fx ∉ ruleNamesOf f ∧ u.helper fx ∉ kSTOP :: termNamesOf f := by
    rcases hc.capture with hflag | hcap
    · intro u hu
      have hu' : u ∈ rulesUses (ctxOf fx f F.ts).matchesMap (F.r0 :: F.rs) := by
        rw [← hmm, ← hrl, ← mem_file_uses]
        exact hu
      exact extract_clashFree (cx := ctxOf fx f F.ts) hflag F.hext u hu'
    · exact hcap
  refine ⟨⟨hc.inj, fun u hu => (hcap u hu).1⟩, fun u hu => (hcap u hu).2, ?_⟩
  rcases hc.reserved with hflag | hres
  · intro n hn
    unfold ruleNamesOf at hn
    rw [F.hrules] at hn
    obtain ⟨r, hr, e⟩ := List.mem_map.mp hn
    have hext := F.hext
    unfold extract at hext
    simp only at hext
    have := ruleCheck_notReserved (ruleSteps_checked hext r hr)
    have hfx : (ctxOf fx f F.ts).fx.reservedErr = true := hflag
    rw [hfx] at this
    simp only [Bool.true_and, List.contains_cons, List.contains_nil, Bool.or_false, Bool.or_eq_false_iff,
      beq_eq_false_iff_ne, ne_eq] at this
    rw [← e]
    exact ⟨this.1, this.2.1, this.2.2⟩
  · exact hres

/-- what the production at index `i` of the built grammar has to be for the processed alternative `d`
of a rule whose nonterminal has index `k` -/
def IsAltProd (fx : Fixes) (f : File) (g : Grammar) (k : Nat) (i : Nat) (d : Done) : Prop :=
  ∃ p, g.prods[i]? = some p ∧ p.idx = i ∧ p.nonterminal = k ∧ p.ntidx = d.2.1 ∧
    rhsView p.rhs = codeAltSyms fx (staticMatches fx f) d.2.2 ∧
    (let m := inherit fx (metaOf d.1.metas) (metaOf d.2.2.metas)
     p.prio = prioOfMeta m ∧ p.kind = kindOfMeta m ∧ p.assoc = assocOfMeta m ∧
     p.nops = m.contains kNops ∧ p.nopse = m.contains kNopse ∧
     p.mdata = ((((((m.erase kPriority).erase kKind).erase kLeft).erase kRight).erase kNops).erase kNopse))

theorem rhsView_rel {l l' : List RAssign} (h : All2 RhsRel l l') : rhsView l' = rhsView l := by
  induction h with
  | nil => rfl
  | cons hr _ ih =>
    unfold rhsView at *
    simp only [List.map_cons]
    rw [ih, hr.1, hr.2.1, hr.2.2]

/-- every alternative becomes exactly one production of its rule's nonterminal, in order -/
theorem build_alternatives {fx : Fixes} {f : File} {g : Grammar} (hc : Clean fx f) (h : build fx f = .ok g)
    (n : Name) (hn : n ∈ ruleNamesOf f) :
    ∃ nt : NonTerm, g.nonterminals[nt.idx]? = some nt ∧ nt.name = n ∧
      nt.prods = idxsOf g.prods nt.idx ∧
      All2 (IsAltProd fx f g nt.idx) nt.prods (doneOf n (allDone f.ruleList)) := by
  obtain ⟨F⟩ := build_facts hc.regular h
  have hcons := build_consistent hc.regular h
  have hrl : f.ruleList = F.r0 :: F.rs := by simp [File.ruleList, F.hrules]
  have hmm : staticMatches fx f = (ctxOf fx f F.ts).matchesMap := staticMatches_eq F.hts
  have hsub : ∀ v, v ∈ rulesUses (ctxOf fx f F.ts).matchesMap (F.r0 :: F.rs) → v ∈ f.uses fx := by
    intro v hv
    rw [mem_file_uses, hmm, hrl]
    exact hv
  have hw : ∀ r, r ∈ F.r0 :: F.rs → r.name ∈ ruleNamesOf f ∧ r.alts ≠ [] := by
    intro r hrm
    refine ⟨?_, hc.alts r (hrl ▸ hrm)⟩
    unfold ruleNamesOf
    rw [F.hrules]
    exact List.mem_map_of_mem hrm
  have hUs := extract_users (cx := ctxOf fx f F.ts) (hc.derived F).1 hw hsub (hc.derived F).2.2 F.hext
  -- the entry of the rule name
  have hpresent : n ∈ ntNames F.st.nts := by
    unfold ruleNamesOf at hn
    rw [F.hrules] at hn
    obtain ⟨r, hr, e⟩ := List.mem_map.mp hn
    have hne := (hw r hr).2
    -- the rule has an alternative, which is in `allDone`
    cases hal : r.alts with
    | nil => exact absurd hal hne
    | cons a as =>
      have : (r, 0, a) ∈ allDone (F.r0 :: F.rs) := by
        unfold allDone
        apply List.mem_flatMap.mpr
        refine ⟨r, hr, ?_⟩
        rw [hal]
        simp [doneAlts]
      have := hUs.present _ this
      rw [← e]
      exact this
  obtain ⟨nt0, hf0⟩ := findNt_of_mem hpresent
  obtain ⟨hm0, hname0⟩ := findNt_some hf0
  obtain ⟨y, hy, hyn, hyp, _, hyi⟩ := F.nt_at hm0
  refine ⟨y, by rw [hyi]; exact hy, hyn.trans hname0, hcons.lists y (List.mem_of_getElem? hy), ?_⟩
  have hl := hUs.lists nt0 hm0 (hname0 ▸ hn)
  rw [hyp, hyi, hname0, ← hrl] at *
  refine all2_imp ?_ hl
  intro i d ⟨p, hp, hpi, hview, rhs, ep⟩
  obtain ⟨p', hp', rhs', e', rr⟩ := forall₂_get' F.rel i p hp
  refine ⟨p', hp', by rw [e']; exact hpi, ?_, ?_, ?_, ?_⟩
  · rw [e', ep]; rfl
  · rw [e', ep]; rfl
  · rw [e']
    show rhsView rhs' = _
    rw [rhsView_rel rr, hmm]
    exact hview
  · rw [e', ep]
    exact ⟨rfl, rfl, rfl, rfl, rfl, rfl⟩

/-- identical uses share one helper rule, different uses get different helper rules -/
theorem build_helpers_shared {fx : Fixes} {f : File} {g : Grammar} (hc : Clean fx f) (h : build fx f = .ok g)
    (u v : Use) (hu : u ∈ f.uses fx) (hv : v ∈ f.uses fx) :
    ∃ nu nv : NonTerm, g.nonterminals[nu.idx]? = some nu ∧ g.nonterminals[nv.idx]? = some nv ∧
      nu.name = u.helper fx ∧ nv.name = v.helper fx ∧ (nu.idx = nv.idx ↔ u = v) := by
  obtain ⟨F⟩ := build_facts hc.regular h
  obtain ⟨nu, _, _, hnu, hnun, _⟩ := helper_core hc.regular (hc.derived F).1 (hc.derived F).2.1 h F u hu
  obtain ⟨nv, _, _, hnv, hnvn, _⟩ := helper_core hc.regular (hc.derived F).1 (hc.derived F).2.1 h F v hv
  refine ⟨nu, nv, hnu, hnv, hnun, hnvn, ?_⟩
  constructor
  · intro e
    rw [e, hnv] at hnu
    cases hnu
    exact hc.inj u v hu hv (hnun.symm.trans hnvn)
  · rintro rfl
    -- both sit at the position of the unique entry named `u.helper`
    rw [F.nonterms] at hnu hnv
    obtain ⟨x0, hx0, ex⟩ := setReachNts_get _ _ _ _ _ hnu
    obtain ⟨y0, hy0, ey⟩ := setReachNts_get _ _ _ _ _ hnv
    have hxm : x0 ∈ F.st.nts := by
      have := List.mem_of_getElem? hx0
      unfold sortNts at this
      rwa [mem_sortByKey] at this
    have hym : y0 ∈ F.st.nts := by
      have := List.mem_of_getElem? hy0
      unfold sortNts at this
      rwa [mem_sortByKey] at this
    have hxy : x0 = y0 := by
      apply names_inj F.ninv.names hxm hym
      have e1 : nu.name = x0.name := by rw [ex]
      have e2 : nv.name = y0.name := by rw [ey]
      rw [← e1, ← e2, hnun, hnvn]
    have e1 : nu.idx = x0.idx := by rw [ex]
    have e2 : nv.idx = y0.idx := by rw [ey]
    rw [e1, e2, hxy]

theorem all2_nil_left {α β : Type} {R : α → β → Prop} {l : List β} (h : All2 R [] l) : l = [] := by
  cases h
  rfl

theorem all2_cons_left {α β : Type} {R : α → β → Prop} {a : α} {as : List α} {l : List β} (h : All2 R (a :: as) l) :
    ∃ b bs, l = b :: bs ∧ R a b ∧ All2 R as bs := by
  cases h with
  | cons hr t => exact ⟨_, _, rfl, hr, t⟩

/-- `X?`: the helper derives the empty string or what `X` derives -/
theorem build_sugar_opt {fx : Fixes} {f : File} {g : Grammar} (hc : Clean fx f) (h : build fx f = .ok g)
    (u : Use) (hu : u ∈ f.uses fx) (hk : u.kind = .opt) :
    ∃ (nt : NonTerm) (X : Nat), g.nonterminals[nt.idx]? = some nt ∧ nt.name = u.helper fx ∧ nt.annotation = none ∧
      IsSym g u.base X ∧ ∀ w, Derives g (g.nT + nt.idx) w ↔ w = [] ∨ Derives g X w := by
  obtain ⟨F⟩ := build_facts hc.regular h
  obtain ⟨nt, s0, s1, hnt, hname, hann, hex, _, h0, h1⟩ := helper_core hc.regular (hc.derived F).1 (hc.derived F).2.1 h F u hu
  unfold Use.names0 at h0
  unfold Use.names1 at h1
  unfold Use.ann at hann
  rw [hk] at h0 h1 hann
  simp only at h0 h1 hann
  obtain ⟨X, r, e0, hX, hr⟩ := all2_cons_left h0
  have := all2_nil_left hr
  subst this
  subst e0
  have := all2_nil_left h1
  subst this
  exact ⟨nt, X, hnt, hname, hann, F.resName_isSym hX, derives_opt hex⟩

/-- `X+` without separator: one or more `X` -/
theorem build_sugar_one {fx : Fixes} {f : File} {g : Grammar} (hc : Clean fx f) (h : build fx f = .ok g)
    (u : Use) (hu : u ∈ f.uses fx) (hk : u.kind = .one) (hs : u.sep = none) :
    ∃ (nt : NonTerm) (X : Nat), g.nonterminals[nt.idx]? = some nt ∧ nt.name = u.helper fx ∧ nt.annotation = some kVec ∧
      IsSym g u.base X ∧
      ∀ w, Derives g (g.nT + nt.idx) w ↔
        ∃ ws : List (List Nat), ws ≠ [] ∧ (∀ x, x ∈ ws → Derives g X x) ∧ w = ws.flatten := by
  obtain ⟨F⟩ := build_facts hc.regular h
  obtain ⟨nt, s0, s1, hnt, hname, hann, hex, hself, h0, h1⟩ := helper_core hc.regular (hc.derived F).1 (hc.derived F).2.1 h F u hu
  unfold Use.names0 at h0
  unfold Use.names1 at h1
  unfold Use.ann at hann
  rw [hk] at h0 h1 hann
  simp only [hs] at h0 h1 hann
  obtain ⟨H, r, e0, hH, hr⟩ := all2_cons_left h0
  obtain ⟨X, r', e1, hX, hr'⟩ := all2_cons_left hr
  have := all2_nil_left hr'
  subst this
  subst e1
  subst e0
  obtain ⟨X', r'', e2, hX', hr''⟩ := all2_cons_left h1
  have := all2_nil_left hr''
  subst this
  subst e2
  have eH : H = g.nT + nt.idx := by
    rw [hself] at hH
    cases hH
    rfl
  have eX : X' = X := by
    rw [hX] at hX'
    cases hX'
    rfl
  subst eH
  subst eX
  exact ⟨nt, X', hnt, hname, hann, F.resName_isSym hX, derives_one_nosep hex⟩

/-- `X+[Sep]`: one or more `X` separated by `Sep` -/
theorem build_sugar_one_sep {fx : Fixes} {f : File} {g : Grammar} (hc : Clean fx f) (h : build fx f = .ok g)
    (u : Use) (hu : u ∈ f.uses fx) (hk : u.kind = .one) (sp : Name) (hs : u.sep = some sp) :
    ∃ (nt : NonTerm) (X S : Nat), g.nonterminals[nt.idx]? = some nt ∧ nt.name = u.helper fx ∧
      nt.annotation = some kVec ∧ IsSym g u.base X ∧ IsSym g sp S ∧
      ∀ w, Derives g (g.nT + nt.idx) w ↔
        ∃ u0 pairs, Derives g X u0 ∧ (∀ q, q ∈ pairs → Derives g S q.1 ∧ Derives g X q.2) ∧
          w = joinPairs u0 pairs := by
  obtain ⟨F⟩ := build_facts hc.regular h
  obtain ⟨nt, s0, s1, hnt, hname, hann, hex, hself, h0, h1⟩ := helper_core hc.regular (hc.derived F).1 (hc.derived F).2.1 h F u hu
  unfold Use.names0 at h0
  unfold Use.names1 at h1
  unfold Use.ann at hann
  rw [hk] at h0 h1 hann
  simp only [hs] at h0 h1 hann
  obtain ⟨H, r, e0, hH, hr⟩ := all2_cons_left h0
  obtain ⟨S, r', e1, hS, hr'⟩ := all2_cons_left hr
  obtain ⟨X, r'', e2, hX, hr''⟩ := all2_cons_left hr'
  have := all2_nil_left hr''
  subst this
  subst e2
  subst e1
  subst e0
  obtain ⟨X', r3, e3, hX', hr3⟩ := all2_cons_left h1
  have := all2_nil_left hr3
  subst this
  subst e3
  have eH : H = g.nT + nt.idx := by
    rw [hself] at hH
    cases hH
    rfl
  have eX : X' = X := by
    rw [hX] at hX'
    cases hX'
    rfl
  subst eH
  subst eX
  exact ⟨nt, X', S, hnt, hname, hann, F.resName_isSym hX, F.resName_isSym hS, derives_one_sep hex⟩

/-- `X*[…]`: the helper derives the empty string or what the one-or-more helper derives -/
theorem build_sugar_zero {fx : Fixes} {f : File} {g : Grammar} (hc : Clean fx f) (h : build fx f = .ok g)
    (u : Use) (hu : u ∈ f.uses fx) (hk : u.kind = .zero) :
    ∃ (nt : NonTerm) (H1 : Nat), g.nonterminals[nt.idx]? = some nt ∧ nt.name = u.helper fx ∧
      nt.annotation = some kVec ∧ IsSym g (helperName fx u.base .oneOrMore u.sep) H1 ∧
      ∀ w, Derives g (g.nT + nt.idx) w ↔ w = [] ∨ Derives g H1 w := by
  obtain ⟨F⟩ := build_facts hc.regular h
  obtain ⟨nt, s0, s1, hnt, hname, hann, hex, _, h0, h1⟩ := helper_core hc.regular (hc.derived F).1 (hc.derived F).2.1 h F u hu
  unfold Use.names0 at h0
  unfold Use.names1 at h1
  unfold Use.ann at hann
  rw [hk] at h0 h1 hann
  simp only at h0 h1 hann
  obtain ⟨X, r, e0, hX, hr⟩ := all2_cons_left h0
  have := all2_nil_left hr
  subst this
  subst e0
  have := all2_nil_left h1
  subst this
  exact ⟨nt, X, hnt, hname, hann, F.resName_isSym hX, derives_zero hex⟩

end Rustemo.Front
