import Rustemo.Proofs.FrontSafe
import Rustemo.Proofs.FrontExact
/-!
# The built grammar is index-consistent (for regular files)
-/
namespace Rustemo.Front

/-- files outside the classes that break the index structure: `alts` (a rule without alternative: no
text produces one), `dupT` (two terminals of one name), `selfH` (a rule that is its own helper) -/
structure Regular (fx : Fixes) (f : File) : Prop where
  alts : ∀ r, r ∈ f.ruleList → r.alts ≠ []
  dupT : fx.dupNameErr = true ∨ f.dupTerminal = false
  selfH : fx.helperClashErr = true ∨ f.selfHelper fx = false

theorem Safe.regular {fx : Fixes} {f : File} (h : Safe fx f) : Regular fx f := ⟨h.alts, h.dupT, h.selfH⟩

/-- position = `idx`; production lists exact; every index inside its vector -/
structure Consistent (g : Grammar) : Prop where
  prods : ∀ (i : Nat) p, g.prods[i]? = some p → p.idx = i
  terms : ∀ (i : Nat) t, g.terminals[i]? = some t → t.idx = i
  nts : ∀ (i : Nat) n, g.nonterminals[i]? = some n → n.idx = i
  lists : ∀ n, n ∈ g.nonterminals → n.prods = idxsOf g.prods n.idx
  owner : ∀ p, p ∈ g.prods → p.nonterminal < g.nonterminals.length
  syms : ∀ p, p ∈ g.prods → ∀ s, s ∈ p.rhsSyms → s < g.terminals.length + g.nonterminals.length

theorem setReachNts_get (m : List Nat) : ∀ (i : Nat) (l : List NonTerm) (k : Nat) (y : NonTerm),
    (setReachNts m i l)[k]? = some y → ∃ x, l[k]? = some x ∧ y = { x with reachable := m.contains (i + k) }
  | _, [], k, y, h => by simp [setReachNts] at h
  | i, x :: xs, k, y, h => by
    unfold setReachNts at h
    cases k with
    | zero =>
      simp at h
      exact ⟨x, rfl, by simp [← h]⟩
    | succ k =>
      simp at h
      obtain ⟨z, hz, e⟩ := setReachNts_get m (i + 1) xs k y h
      refine ⟨z, by simpa using hz, ?_⟩
      rw [e]
      have : i + 1 + k = i + (k + 1) := by omega
      rw [this]

theorem setReachTerms_get (m : List Nat) : ∀ (i : Nat) (l : List Term) (k : Nat) (y : Term),
    (setReachTerms m i l)[k]? = some y → ∃ x, l[k]? = some x ∧ y = { x with reachable := m.contains (i + k) }
  | _, [], k, y, h => by simp [setReachTerms] at h
  | i, x :: xs, k, y, h => by
    unfold setReachTerms at h
    cases k with
    | zero =>
      simp at h
      exact ⟨x, rfl, by simp [← h]⟩
    | succ k =>
      simp at h
      obtain ⟨z, hz, e⟩ := setReachTerms_get m (i + 1) xs k y h
      refine ⟨z, by simpa using hz, ?_⟩
      rw [e]
      have : i + 1 + k = i + (k + 1) := by omega
      rw [this]

/-- everything known about a successful build of a regular file -/
structure Facts (fx : Fixes) (f : File) (g : Grammar) where
  ts : TSt
  st : XSt
  r0 : Rule
  rs : List Rule
  m : Marks
  hts : termPhase fx f = .ok ts
  hrules : f.rules = some (r0 :: rs)
  hext : extract (ctxOf fx f ts) r0 (r0 :: rs) = .ok st
  tinv : TermsInv ts
  tkeys : ∀ n, n ∈ ts.terms.keys ↔ n ∈ kSTOP :: termNamesOf f
  ninv : NtsInv none st
  xex : XExact none st
  xidx : XIdx st
  rel : All2 ProdRel st.prods g.prods
  resolved : ∀ p, p ∈ g.prods → ∀ a, a ∈ p.rhs → a.index.isSome
  terms : g.terminals = setReachTerms m.terms 0 (sortTerms ts.terms.values)
  nonterms : g.nonterminals = setReachNts m.nts 0 (sortNts st.nts)
  aug : NonTerm
  start : NonTerm
  haug : findNt st.nts kAUG = some aug
  hstart : findNt st.nts r0.name = some start
  eAug : g.augIdx = ts.terms.length + aug.idx
  eStart : g.startIdx = ts.terms.length + start.idx
  eAugl : g.auglIdx = (findNt st.nts kAUGL).map (fun x => ts.terms.length + x.idx)
  eEmpty : g.emptyIdx = ts.terms.length
  below : ∀ p, p ∈ g.prods → ∀ a, a ∈ p.rhs → IdxBelow (ts.terms.length + st.nts.length) a
  ps1 : List GProd
  hres1 : resolveInline (matchesOf f ts) st.prods = .ok ps1
  hres2 : resolveRefs fx.rflags ts.terms st.nts ps1 = .ok g.prods

theorem build_facts {fx : Fixes} {f : File} {g : Grammar} (hr : Regular fx f) (h : build fx f = .ok g) :
    Nonempty (Facts fx f g) := by
  obtain ⟨ph⟩ := build_phases h
  have hrel := build_prods_rel ph
  obtain ⟨ts, xs, ps1, ps2, g0, hts, hxs, h1, h2, hg0, hg⟩ := ph
  simp only at hrel
  obtain ⟨hT, hTk, _⟩ := termPhase_inv hr.dupT hts
  obtain ⟨aug, start, haug, hstart, e0⟩ := assemble_ok hg0
  obtain ⟨m, e⟩ := markReachable_ok hg
  rcases rulePhase_ok hxs with ⟨_, hx⟩ | ⟨r0, rs, hrl, hext, hname⟩
  · -- no rules: `assemble` would have panicked
    exfalso
    rw [hx] at haug
    simp [findNt] at haug
  have hrl' : f.ruleList = r0 :: rs := by simp [File.ruleList, hrl]
  have hw : ∀ r, r ∈ r0 :: rs → RuleAvoids (ctxOf fx f ts) r ∧ r.alts ≠ [] := by
    intro r hrm
    exact ⟨ruleAvoids_of_ext hr.selfH hts hrl' hext r (hrl' ▸ hrm), hr.alts r (hrl' ▸ hrm)⟩
  obtain ⟨hN, _, _⟩ := extract_nts hw hext
  rw [hname] at hstart
  have hNone := extract_allNone hext
  have hmm : ∀ s tn i, (matchesOf f ts).get? s = some (tn, i) → i < ts.terms.length + xs.1.nts.length := by
    intro s tn i hg
    unfold matchesOf at hg
    split at hg
    · simp at hg
    · obtain ⟨kv, hkv, _, e, _⟩ := buildMatches_get? ts.terms hg
      have := hT.bound kv hkv
      rw [← e, hT.count]
      omega
  have hb0 : ∀ p, p ∈ xs.1.prods → ∀ a, a ∈ p.rhs → IdxBelow (ts.terms.length + xs.1.nts.length) a := by
    intro p hp a ha i hi
    rw [hNone p hp a ha] at hi
    cases hi
  have hb1 := resolveInline_below hmm hb0 h1
  have hb2 := resolveRefs_below (B := ts.terms.length + xs.1.nts.length)
    (fun k t hk => by
      have := (terms_get? hT hk).1
      omega)
    (fun nt hnt => by
      have := hN.bound nt hnt
      have e : xs.1.nts.length = xs.1.nextNt := hN.pendOk
      omega) hb1 h2
  subst e
  subst e0
  exact ⟨{ ts := ts, st := xs.1, r0 := r0, rs := rs, m := m, hts := hts, hrules := hrl, hext := hext,
           tinv := hT, tkeys := hTk, ninv := hN, xex := extract_exact hw hext, xidx := extract_xidx hext,
           rel := hrel.1, resolved := hrel.2,
           terms := rfl, nonterms := rfl, aug := aug, start := start, haug := haug, hstart := hstart,
           eAug := rfl, eStart := rfl, eAugl := rfl, eEmpty := rfl, below := hb2, ps1 := ps1, hres1 := h1, hres2 := h2 }⟩

theorem build_consistent {fx : Fixes} {f : File} {g : Grammar} (hr : Regular fx f) (h : build fx f = .ok g) :
    Consistent g := by
  obtain ⟨F⟩ := build_facts hr h
  have hlenN : g.nonterminals.length = F.st.nts.length := by
    rw [F.nonterms, length_setReachNts]
    unfold sortNts
    rw [length_sortByKey]
  have hlenT : g.terminals.length = F.ts.terms.length := by
    rw [F.terms, length_setReachTerms]
    unfold sortTerms
    rw [length_sortByKey]
    unfold SMap.values
    rw [List.length_map]
  have hcount : F.st.nts.length = F.st.nextNt := F.ninv.pendOk
  constructor
  · intro i p hp
    simpa using build_prods_idx h i p hp
  · intro i t ht
    rw [F.terms] at ht
    obtain ⟨x, hx, e⟩ := setReachTerms_get _ _ _ _ _ ht
    rw [e]
    exact sortTerms_pos F.tinv i x hx
  · intro i n hn
    rw [F.nonterms] at hn
    obtain ⟨x, hx, e⟩ := setReachNts_get _ _ _ _ _ hn
    rw [e]
    exact sortNts_pos F.ninv i x hx
  · intro n hn
    obtain ⟨i, hi⟩ := List.getElem?_of_mem hn
    rw [F.nonterms] at hi
    obtain ⟨x, hx, e⟩ := setReachNts_get _ _ _ _ _ hi
    have hxm : x ∈ F.st.nts := by
      have := List.mem_of_getElem? hx
      unfold sortNts at this
      rwa [mem_sortByKey] at this
    rw [e, idxsOf_rel F.rel]
    exact F.xex.exact x hxm
  · intro p hp
    obtain ⟨i, hi⟩ := List.getElem?_of_mem hp
    obtain ⟨q, hq, rhs', e, _⟩ := forall₂_get F.rel i p hi
    rw [hlenN, hcount, e]
    exact F.xex.owned q (List.mem_of_getElem? hq)
  · intro p hp s hs
    rw [hlenN, hlenT]
    have hsome := F.resolved p hp
    unfold GProd.rhsSyms at hs
    obtain ⟨a, ha, e⟩ := List.mem_map.mp hs
    cases hi : a.index with
    | none =>
      have := hsome a ha
      rw [hi] at this
      cases this
    | some i =>
      have := F.below p hp a ha i hi
      rw [← e]
      unfold RAssign.symbol
      rw [hi]
      exact this

end Rustemo.Front
