import Rustemo.Model.Table
/-!
# Table construction: basic lemmas (sets as ascending lists, `Res`, cores of items)
-/
namespace Rustemo.Table

/-! ## `Res` -/

theorem Res.bind_ok {α β} {r : Res α} {f : α → Res β} {b : β} (h : r.bind f = .ok b) :
    ∃ a, r = .ok a ∧ f a = .ok b := by
  cases r with
  | ok a => exact ⟨a, rfl, h⟩
  | err s => simp [Res.bind] at h
  | panic s => simp [Res.bind] at h
  | fuel => simp [Res.bind] at h

@[simp] theorem Res.bind_ok_eq {α β} (a : α) (f : α → Res β) : (Res.ok a).bind f = f a := rfl

/-! ## `ins`, `union` -/

theorem mem_ins {x y : Nat} {l : List Nat} : y ∈ ins x l ↔ y = x ∨ y ∈ l := by
  induction l with
  | nil => simp [ins]
  | cons z zs ih =>
    unfold ins
    split
    · simp
    · split
      · rename_i h; subst h; simp
      · simp [ih]; constructor
        · rintro (h | h | h)
          · exact .inr (.inl h)
          · exact .inl h
          · exact .inr (.inr h)
        · rintro (h | h | h)
          · exact .inr (.inl h)
          · exact .inl h
          · exact .inr (.inr h)

theorem length_ins_ge (x : Nat) (l : List Nat) : l.length ≤ (ins x l).length := by
  induction l with
  | nil => simp [ins]
  | cons z zs ih =>
    unfold ins
    split
    · simp
    · split
      · simp
      · simp; exact ih

theorem ins_eq_self_of_length {x : Nat} {l : List Nat} (h : (ins x l).length ≤ l.length) : ins x l = l := by
  induction l with
  | nil => simp [ins] at h
  | cons z zs ih =>
    unfold ins at h ⊢
    by_cases h1 : x < z
    · simp [h1] at h; omega
    · by_cases h2 : x = z
      · simp [h2]
      · simp only [h1, h2, if_false, List.length_cons, Nat.add_le_add_iff_right] at h ⊢
        rw [ih h]

theorem mem_union {y : Nat} {a b : List Nat} : y ∈ union a b ↔ y ∈ a ∨ y ∈ b := by
  unfold union
  induction b generalizing a with
  | nil => simp
  | cons x xs ih =>
    simp only [List.foldl_cons, ih, mem_ins, List.mem_cons]
    constructor
    · rintro ((h | h) | h)
      · exact .inr (.inl h)
      · exact .inl h
      · exact .inr (.inr h)
    · rintro (h | h | h)
      · exact .inl (.inr h)
      · exact .inl (.inl h)
      · exact .inr h

theorem length_union_ge (a b : List Nat) : a.length ≤ (union a b).length := by
  unfold union
  induction b generalizing a with
  | nil => simp
  | cons x xs ih =>
    simp only [List.foldl_cons]
    exact Nat.le_trans (length_ins_ge x a) (ih (ins x a))

theorem union_eq_self_of_length {a b : List Nat} (h : (union a b).length ≤ a.length) : union a b = a := by
  unfold union at h ⊢
  induction b generalizing a with
  | nil => rfl
  | cons x xs ih =>
    simp only [List.foldl_cons] at h ⊢
    have h1 : (ins x a).length ≤ a.length := Nat.le_trans (length_union_ge (ins x a) xs) h
    have h2 := ins_eq_self_of_length h1
    rw [h2] at h ⊢
    exact ih h

/-- the `change` / `changed` flags: "the set did not grow" means it did not change -/
theorem union_eq_self_of_not_lt {a b : List Nat} (h : decide (a.length < (union a b).length) = false) :
    union a b = a := by
  apply union_eq_self_of_length
  simp at h
  exact h

theorem subset_union_left {a b : List Nat} : ∀ y ∈ a, y ∈ union a b := fun _ h => mem_union.mpr (.inl h)
theorem subset_union_right {a b : List Nat} : ∀ y ∈ b, y ∈ union a b := fun _ h => mem_union.mpr (.inr h)

/-! ## cores -/

/-- production and dot of an item -/
def core (it : Item) : Nat × Nat := (it.prod, it.dot)

theorem sameCore_iff {a b : Item} : sameCore a b = true ↔ core a = core b := by
  unfold sameCore core
  simp [Prod.ext_iff]

theorem coresEq_map : ∀ {l1 l2 : List Item}, coresEq l1 l2 = true → l1.map core = l2.map core
  | [], [], _ => rfl
  | [], _ :: _, h => by simp [coresEq] at h
  | _ :: _, [], h => by simp [coresEq] at h
  | x :: xs, y :: ys, h => by
    simp only [coresEq, Bool.and_eq_true] at h
    simp only [List.map_cons]
    rw [sameCore_iff.mp h.1, coresEq_map h.2]

end Rustemo.Table
